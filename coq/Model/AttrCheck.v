(* Correspondence checker and property monitor for Model/Attr.v. *)
From Coq Require Import List ZArith Bool String Floats.
From SR Require Import Base.CaseLib Model.Attr.
Import ListNotations.
Open Scope Z_scope.

Inductive observed :=
| Obs (rs : list res) (final : list snap)
| HarnessPanic (msg : string).

(* input: the listener scripts (per event slot a queue) and the top-level calls *)
Definition case := (lsn * list op * observed)%type.

(* more than any generated or corpus case needs: the fuel is never exhausted while it exceeds the
   number of queued scripts (AttrReProofs.fuel_suffices) *)
Definition case_fuel (L : lsn) : nat := S (n_scripts L).

Definition lstate_eqb (a b : lstate) : bool :=
  match a, b with
  | Invalid, Invalid | Dead, Dead | Limbo, Limbo | Alive, Alive => true
  | _, _ => false
  end.

Definition snap_eqb (a b : snap) : bool :=
  feqb_bits (g_hp a) (g_hp b) && feqb_bits (g_energy a) (g_energy b) &&
  feqb_bits (g_maxEnergy a) (g_maxEnergy b) && feqb_bits (g_stance a) (g_stance b) &&
  feqb_bits (g_maxStance a) (g_maxStance b) && lstate_eqb (g_state a) (g_state b) &&
  (g_last a =? g_last b) && (g_sp a =? g_sp b).

Definition ev_eqb (a b : ev) : bool :=
  match a, b with
  | EHP k t o n oh nh d, EHP k' t' o' n' oh' nh' d' =>
      (k =? k') && (t =? t') && feqb_bits o o' && feqb_bits n n' && feqb_bits oh oh' &&
      feqb_bits nh nh' && Bool.eqb d d'
  | ELimbo t, ELimbo t' => t =? t'
  | EEnergy k t s o n, EEnergy k' t' s' o' n' =>
      (k =? k') && (t =? t') && (s =? s') && feqb_bits o o' && feqb_bits n n'
  | EStance k t s o n, EStance k' t' s' o' n' =>
      (k =? k') && (t =? t') && (s =? s') && feqb_bits o o' && feqb_bits n n'
  | EBreak k t s, EBreak k' t' s' => (k =? k') && (t =? t') && (s =? s')
  | EReset k t, EReset k' t' => (k =? k') && (t =? t')
  | ESP k s o n, ESP k' s' o' n' => (k =? k') && (s =? s') && (o =? o') && (n =? n')
  | ESeen g, ESeen g' => snap_eqb g g'
  | ERet e, ERet e' => e =? e'
  | _, _ => false
  end.

Definition res_eqb (a b : res) : bool :=
  list_eqb ev_eqb (r_evs a) (r_evs b) && (r_err a =? r_err b) && snap_eqb (r_snap a) (r_snap b).

Inductive model_result := MObs (rs : list res) (final : list snap) | MOutOfFuel.

Definition model_out (c : case) : model_result :=
  let '(L, ops, _) := c in
  match rrun (case_fuel L) init L ops with
  | Some (s, _, rs) => MObs rs (dump s)
  | None => MOutOfFuel
  end.

Definition check_case (c : case) : bool :=
  match model_out c, snd c with
  | MObs rs fin, Obs rs' fin' => list_eqb res_eqb rs rs' && list_eqb snap_eqb fin fin'
  | _, _ => false
  end.

(* ------------------------------------------------------------------------------------ *)
(* The property's own predicate, evaluated on what the IMPLEMENTATION reported (events,  *)
(* getters), never on the model's run.                                                   *)
(* ------------------------------------------------------------------------------------ *)

Definition fin (x : float) : bool := negb (PrimFloat.is_nan x) && negb (PrimFloat.is_infinity x).

(* the hypotheses of the property: a valid start and finite amounts / stats *)
Definition env_okb (e : env) : bool :=
  fin (e_maxHP e) && ltb 0 (e_maxHP e) && fin (e_regen e) && fin (e_bonus e).

Definition op_okb (o : op) : bool :=
  match o with
  | OAdd _ hp en me stc ms =>
      leb hp 1 && leb 0 en && leb 0 me && fin me && leb 0 stc && leb stc ms && fin ms
  | OSetHP c a _ | OModHPAmount c a _ | OSetStance c a | OModStance c a
  | OSetEnergy c a | OModEnergy c a | OModEnergyFixed c a => env_okb (c_env c) && fin a
  | OModHPRatio c r _ f _ => env_okb (c_env c) && fin r && fin f
  | OModSP _ _ _ => true
  end.

Definition snap_in_range (g : snap) : bool :=
  match g_state g with
  | Invalid => true            (* not a registered unit: the getters return defaults *)
  | _ =>
      leb 0 (g_hp g) && leb (g_hp g) 1 &&
      leb 0 (g_energy g) && leb (g_energy g) (g_maxEnergy g) &&
      leb 0 (g_stance g) && leb (g_stance g) (g_maxStance g)
  end && (0 <=? g_sp g) && (g_sp g <=? 5).

(* what was last read for each id *)
Fixpoint known_get (id : Z) (kn : list (Z * snap)) : option snap :=
  match kn with
  | [] => None
  | (k, g) :: r => if k =? id then Some g else known_get id r
  end.
Definition known_put (id : Z) (g : snap) (kn : list (Z * snap)) : list (Z * snap) :=
  (id, g) :: kn.

Definition ev_target (e : ev) : option Z :=
  match e with
  | EHP _ t _ _ _ _ _ | ELimbo t | EEnergy _ t _ _ _ | EStance _ t _ _ _ | EBreak _ t _ | EReset _ t => Some t
  | ESP _ _ _ _ | ESeen _ | ERet _ => None
  end.

Definition count {A} (p : A -> bool) (l : list A) : nat := List.length (filter p l).

Definition is_hp e := match e with EHP _ _ _ _ _ _ _ => true | _ => false end.
Definition is_energy e := match e with EEnergy _ _ _ _ _ => true | _ => false end.
Definition is_stance e := match e with EStance _ _ _ _ _ => true | _ => false end.
Definition is_break e := match e with EBreak _ _ _ => true | _ => false end.
Definition is_reset e := match e with EReset _ _ => true | _ => false end.
Definition is_sp e := match e with ESP _ _ _ _ => true | _ => false end.

Definition b2n (b : bool) : nat := if b then 1%nat else 0%nat.

(* one call: [before]/[after] are the getters of the call's target before and after it;
   the events of the call must report exactly the changes between the two *)
Definition call_ok (o : op) (before after : snap) (evs : list ev) : bool :=
  let t := op_target o in
  let maxHP := match o with
               | OSetHP c _ _ | OModHPAmount c _ _ | OModHPRatio c _ _ _ _ => e_maxHP (c_env c)
               | _ => 0%float end in
  let hp_changed := negb (eqb (g_hp before) (g_hp after)) in
  let en_changed := negb (eqb (g_energy before) (g_energy after)) in
  let st_changed := negb (eqb (g_stance before) (g_stance after)) in
  let sp_changed := negb (g_sp before =? g_sp after) in
  (* every unit event names the call's target *)
  forallb (fun e => match ev_target e with Some t' => t' =? t | None => true end) evs &&
  (* exactly one event per changed quantity, none for an unchanged one *)
  Nat.eqb (count is_hp evs) (b2n hp_changed) &&
  Nat.eqb (count is_energy evs) (b2n en_changed) &&
  Nat.eqb (count is_stance evs) (b2n st_changed) &&
  Nat.eqb (count is_sp evs) (b2n sp_changed) &&
  (* old = value before the call, new = value after it *)
  forallb (fun e =>
    match e with
    | EHP _ _ o' n' oh nh _ =>
        feqb_bits o' (g_hp before) && feqb_bits n' (g_hp after) &&
        feqb_bits oh (maxHP * o') && feqb_bits nh (maxHP * n')
    | EEnergy _ _ _ o' n' => feqb_bits o' (g_energy before) && feqb_bits n' (g_energy after)
    | EStance _ _ _ o' n' => feqb_bits o' (g_stance before) && feqb_bits n' (g_stance after)
    | ESP _ _ o' n' => (o' =? g_sp before) && (n' =? g_sp after)
    | _ => true
    end) evs &&
  (* break announced exactly when the stance reaches zero, reset exactly when it leaves zero *)
  Nat.eqb (count is_break evs) (b2n (st_changed && eqb (g_stance after) 0)) &&
  Nat.eqb (count is_reset evs) (b2n (st_changed && eqb (g_stance before) 0)).

(* chain, directly on the events: per unit and quantity, the old value of an event equals
   the new value of the previous event for that unit *)
Definition chain_step (last : list (Z * Z * float)) (e : ev) : bool * list (Z * Z * float) :=
  let look q t :=
    (fix go (l : list (Z * Z * float)) : option float :=
       match l with
       | [] => None
       | (q', t', v) :: r => if (q' =? q) && (t' =? t) then Some v else go r
       end) last in
  let upd q t (o n : float) :=
    (match look q t with Some v => eqb v o | None => true end, (q, t, n) :: last) in
  match e with
  | EHP _ t o n _ _ _ => upd 0 t o n
  | EEnergy _ t _ o n => upd 1 t o n
  | EStance _ t _ o n => upd 2 t o n
  | _ => (true, last)
  end.

Fixpoint chain_ok (last : list (Z * Z * float)) (evs : list ev) : bool :=
  match evs with
  | [] => true
  | e :: r => let (ok, last') := chain_step last e in ok && chain_ok last' r
  end.

Fixpoint sp_chain_ok (last : option Z) (evs : list ev) : bool :=
  match evs with
  | [] => true
  | ESP _ _ o n :: r => match last with Some v => v =? o | None => o =? 3 end && sp_chain_ok (Some n) r
  | _ :: r => sp_chain_ok last r
  end.

Fixpoint calls_ok (kn : list (Z * snap)) (sp0 : Z) (ops : list op) (rs : list res) : bool * list (Z * snap) * Z :=
  match ops, rs with
  | o :: ops', r :: rs' =>
      let t := op_target o in
      let after := r_snap r in
      let ok :=
        match o, known_get t kn with
        | OAdd _ _ _ _ _ _, None =>
            (* registration: no events; the unit starts alive *)
            match r_evs r with [] => true | _ => false end && (g_sp after =? sp0)
        | OModSP _ _ _, None =>
            (* the source need not be a registered unit: only the SP part is meaningful *)
            call_ok o (mkSnap (g_hp after) (g_energy after) (g_maxEnergy after) (g_stance after)
                              (g_maxStance after) (g_state after) (g_last after) sp0) after (r_evs r)
        | _, Some before =>
            call_ok o (mkSnap (g_hp before) (g_energy before) (g_maxEnergy before) (g_stance before)
                              (g_maxStance before) (g_state before) (g_last before) sp0) after (r_evs r)
        | _, None =>
            (* unknown target: nothing happens *)
            match r_evs r with [] => true | _ => false end && (g_sp after =? sp0)
        end in
      let kn' := match g_state after with Invalid => kn | _ => known_put t after kn end in
      let '(ok', kn'', sp') := calls_ok kn' (g_sp after) ops' rs' in
      (ok && snap_in_range after && ok', kn'', sp')
  | [], [] => (true, kn, sp0)
  | _, _ => (false, kn, sp0)
  end.

(* nothing changed behind the back of the calls: the final dump equals what was last read *)
Definition final_ok (kn : list (Z * snap)) (spf : Z) (final : list snap) : bool :=
  (Nat.eqb (List.length final) (List.length dump_ids)) &&
  forallb (fun p : Z * snap =>
    let (id, g) := p in
    snap_in_range g && (g_sp g =? spf) &&
    match known_get id kn with
    | Some k =>
        feqb_bits (g_hp g) (g_hp k) && feqb_bits (g_energy g) (g_energy k) &&
        feqb_bits (g_stance g) (g_stance k) && lstate_eqb (g_state g) (g_state k) &&
        (g_last g =? g_last k)
    | None => lstate_eqb (g_state g) Invalid
    end) (combine dump_ids final).

(* the monitor of histories WITHOUT listener scripts (every listener only records): the per-call
   clause at full strength - exactly one event per changed quantity, old = before, new = after *)
Definition not_harness_item (e : ev) : bool :=
  match e with ESeen _ | ERet _ => false | _ => true end.
Definition strip (rs : list res) : list res :=
  map (fun r => mkRes (filter not_harness_item (r_evs r)) (r_err r) (r_snap r)) rs.

Definition monitor_flat (ops : list op) (obs : observed) : bool :=
  match obs with
  | Obs rs0 final =>
      let rs := strip rs0 in
      let '(ok, kn, spf) := calls_ok [] 3 ops rs in
      let evs := flat_map r_evs rs in
      ok && final_ok kn spf final && chain_ok [] evs && sp_chain_ok None evs
  | HarnessPanic _ => false
  end.

(* ------------------------------------------------------------------------------------ *)
(* The monitor of histories WITH re-entrant listeners.  It follows the recorded events in *)
(* the order the listeners were entered and keeps, per unit, the value every quantity     *)
(* must have if every change was reported: an event's old value must be that value (==),  *)
(* its new value becomes it; every reading of the getters - [ESeen] at every event, the   *)
(* getters after every top-level call, the final dump - must return it.  So a change that *)
(* is not reported, an event that reports another old value than the current one, or an   *)
(* event whose new value is not what is stored when the listeners run is rejected.        *)
(* [full] = the whole property text; [negb full] = what holds of today's code (StanceBreak *)
(* / StanceReset are announced BEFORE the new stance is stored, so their listeners can    *)
(* make the announcing call's own StanceChange an event with old == new and can have one  *)
(* zero crossing announced twice; Proofs/AttrReProofs.v, C07_re_full_refuted).            *)
(* ------------------------------------------------------------------------------------ *)

Definition in01 (x hi : float) : bool := leb 0 x && leb x hi.

(* a reading [g] of unit [id] agrees with the tracked reading [k] (==: a store that changes
   nothing may turn +0 into -0 without an event), and is in range *)
Definition reading_ok (k g : snap) (spv : Z) : bool :=
  eqb (g_hp k) (g_hp g) && eqb (g_energy k) (g_energy g) && eqb (g_stance k) (g_stance g) &&
  feqb_bits (g_maxEnergy k) (g_maxEnergy g) && feqb_bits (g_maxStance k) (g_maxStance g) &&
  (g_sp g =? spv) && snap_in_range g.

Definition with_hp (k : snap) (x : float) : snap :=
  mkSnap x (g_energy k) (g_maxEnergy k) (g_stance k) (g_maxStance k) (g_state k) (g_last k) (g_sp k).
Definition with_energy (k : snap) (x : float) : snap :=
  mkSnap (g_hp k) x (g_maxEnergy k) (g_stance k) (g_maxStance k) (g_state k) (g_last k) (g_sp k).
Definition with_stance (k : snap) (x : float) : snap :=
  mkSnap (g_hp k) (g_energy k) (g_maxEnergy k) x (g_maxStance k) (g_state k) (g_last k) (g_sp k).

(* one event [e] and the reading [g] taken when its listener was entered *)
Definition track_event (full : bool) (kn : list (Z * snap)) (spv : Z) (e : ev) (g : snap)
  : option (list (Z * snap) * Z) :=
  let unit_event t (upd : snap -> option snap) :=
    match known_get t kn with
    | None => None                        (* an event about a unit that was never registered *)
    | Some k =>
        match upd k with
        | None => None
        | Some k' => if reading_ok k' g spv then Some (known_put t g kn, spv) else None
        end
    end in
  match e with
  | EHP _ t o n _ _ _ =>
      unit_event t (fun k =>
        if eqb (g_hp k) o && negb (eqb o n) && feqb_bits (g_hp g) n then Some (with_hp k n) else None)
  | EEnergy _ t _ o n =>
      unit_event t (fun k =>
        if eqb (g_energy k) o && negb (eqb o n) && feqb_bits (g_energy g) n then Some (with_energy k n) else None)
  | EStance _ t _ o n =>
      unit_event t (fun k =>
        if eqb (g_stance k) o && (negb full || negb (eqb o n)) && feqb_bits (g_stance g) n
        then Some (with_stance k n) else None)
  | EBreak _ t _ | EReset _ t | ELimbo t => unit_event t (fun k => Some k)
  | ESP _ src o n =>
      if (o =? spv) && negb (o =? n) && (0 <=? n) && (n <=? 5) && (g_sp g =? n) then
        match known_get src kn with
        | Some k => if reading_ok k g n then Some (known_put src g kn, n) else None
        | None => match g_state g with Invalid => Some (kn, n) | _ => None end
        end
      else None
  | ESeen _ | ERet _ => None
  end.

Fixpoint track (full : bool) (kn : list (Z * snap)) (spv : Z) (evs : list ev)
  : option (list (Z * snap) * Z) :=
  match evs with
  | [] => Some (kn, spv)
  | ERet _ :: r => track full kn spv r
  | e :: r =>
      match r with
      | ESeen g :: r' =>
          match track_event full kn spv e g with
          | None => None
          | Some (kn', spv') => track full kn' spv' r'
          end
      | _ => None                          (* every event is followed by its reading *)
      end
  end.

(* the top-level calls: the events of each, then the getters of its target *)
Fixpoint track_calls (full : bool) (kn : list (Z * snap)) (spv : Z) (ops : list op) (rs : list res)
  : option (list (Z * snap) * Z) :=
  match ops, rs with
  | [], [] => Some (kn, spv)
  | o :: ops', r :: rs' =>
      match track full kn spv (r_evs r) with
      | None => None
      | Some (kn1, spv1) =>
          let t := op_target o in
          let g := r_snap r in
          match known_get t kn1, g_state g with
          | Some k, _ => if reading_ok k g spv1 then track_calls full (known_put t g kn1) spv1 ops' rs' else None
          | None, Invalid => if g_sp g =? spv1 then track_calls full kn1 spv1 ops' rs' else None
          | None, _ =>
              (* first sight of a unit: only a registration without events *)
              match o, r_evs r with
              | OAdd _ _ _ _ _ _, [] =>
                  if (g_sp g =? spv1) && snap_in_range g then track_calls full (known_put t g kn1) spv1 ops' rs'
                  else None
              | _, _ => None
              end
          end
      end
  | _, _ => None
  end.

Definition track_final (kn : list (Z * snap)) (spv : Z) (final : list snap) : bool :=
  Nat.eqb (List.length final) (List.length dump_ids) &&
  forallb (fun p : Z * snap =>
    let (id, g) := p in
    match known_get id kn with
    | Some k => reading_ok k g spv
    | None => lstate_eqb (g_state g) Invalid && (g_sp g =? spv)
    end) (combine dump_ids final).

(* break / reset announcements of unit [id] against its StanceChange events *)
Definition stance_evs (id : Z) (evs : list ev) : list (float * float) :=
  flat_map (fun e => match e with EStance _ t _ o n => if t =? id then [(o, n)] else [] | _ => [] end) evs.
Definition n_break_of (id : Z) (evs : list ev) : nat :=
  count (fun e => match e with EBreak _ t _ => t =? id | _ => false end) evs.
Definition n_reset_of (id : Z) (evs : list ev) : nat :=
  count (fun e => match e with EReset _ t => t =? id | _ => false end) evs.

Definition announce_ok (full : bool) (id : Z) (evs : list ev) : bool :=
  let st := stance_evs id evs in
  let reach := count (fun p : float * float => ltb 0 (fst p) && eqb (snd p) 0) st in
  let leave := count (fun p : float * float => eqb (fst p) 0 && ltb 0 (snd p)) st in
  let zero_new := count (fun p : float * float => eqb (snd p) 0) st in
  if full then Nat.eqb (n_break_of id evs) reach && Nat.eqb (n_reset_of id evs) leave
  else Nat.eqb (n_break_of id evs) zero_new && Nat.leb leave (n_reset_of id evs).

Definition is_add (o : op) : bool := match o with OAdd _ _ _ _ _ _ => true | _ => false end.
Definition queues (L : lsn) : list (list script) :=
  [l_hp L; l_limbo L; l_stance L; l_break L; l_reset L; l_energy L; l_sp L].
Definition lsn_okb (L : lsn) : bool :=
  forallb (forallb (forallb (fun o => op_okb o && negb (is_add o)))) (queues L).
Definition lsn_empty (L : lsn) : bool := forallb (fun q => match q with [] => true | _ => false end) (queues L).

Definition monitor_gen (full : bool) (c : case) : bool :=
  let '(L, ops, obs) := c in
  if forallb op_okb ops && lsn_okb L then
    match obs with
    | Obs rs final =>
        let evs := flat_map r_evs rs in
        match track_calls full [] 3 ops rs with
        | Some (kn, spv) => track_final kn spv final
        | None => false
        end &&
        forallb (fun id => announce_ok full id evs) dump_ids &&
        (* without listener scripts: the per-call clause, exactly *)
        (if lsn_empty L then monitor_flat ops obs else true)
    | HarnessPanic _ => false
    end
  else true.

(* what is evaluated on every implementation output *)
Definition monitor_case (c : case) : bool := monitor_gen false c.
(* the property text at full strength: rejects today's code on the witnesses of C07_re_full_refuted *)
Definition monitor_full (c : case) : bool := monitor_gen true c.
