(* Model of pkg/engine/combat/{damage,hit,attack}.go and break.gen.go on top of
   Model/CombatCore.v.  Executable; no proofs here.

   A hit is the record built by newHit (snapshots of attacker and defender, the copied formula
   map, ...).  One HitStart listener script per attack ([list adj]) runs on every HitStart
   emission before the damage is computed and may alter the snapshots, the formula map and
   the flat damage.  The crit draw comes from the world's scripted random source.
   A Go run-time panic (BreakBaseDamage indexed outside its table) is the outcome [None]. *)
From Coq Require Import List ZArith Bool Floats.
From SR Require Import Model.CombatCore.
Import ListNotations.
Open Scope Z_scope.

(* combat.BreakBaseDamage (break.gen.go), exact binary64 values, index = level *)
Definition break_table : list float := [
    0x0p+00%float;
    0x1.bp+05%float;
    0x1.dp+05%float;
    0x1.fp+05%float;
    0x1.0e1b046854p+06%float;
    0x1.1a099f5e0cp+06%float;
    0x1.26175e2058p+06%float;
    0x1.3243a14cf4p+06%float;
    0x1.3e8dc93ebp+06%float;
    0x1.4af536502cp+06%float;
    0x1.5779474978p+06%float;
    0x1.6dfa45d428p+06%float;
    0x1.84459d12d8p+06%float;
    0x1.9a5b4d0574p+06%float;
    0x1.b03b55ac0cp+06%float;
    0x1.c5e5b749b8p+06%float;
    0x1.db5a719b58p+06%float;
    0x1.f09984a0e8p+06%float;
    0x1.02d1784ec6p+07%float;
    0x1.0d3b5aa71ep+07%float;
    0x1.178a69596ap+07%float;
    0x1.2aaa21ea3ep+07%float;
    0x1.3d9a2c6698p+07%float;
    0x1.505a88ace6p+07%float;
    0x1.62eb36bd2cp+07%float;
    0x1.754c369774p+07%float;
    0x1.877d885d3ap+07%float;
    0x1.997f2becf6p+07%float;
    0x1.ab5121251ap+07%float;
    0x1.bcf3686a5p+07%float;
    0x1.ce660157eep+07%float;
    0x1.ecdae96814p+07%float;
    0x1.052e54e6e8p+08%float;
    0x1.13792be48dp+08%float;
    0x1.2151614dfdp+08%float;
    0x1.2eba3b8a1ep+08%float;
    0x1.3bb6e16941p+08%float;
    0x1.484a5b962dp+08%float;
    0x1.547795f678p+08%float;
    0x1.604160e952p+08%float;
    0x1.6baa72b888p+08%float;
    0x1.981fbeec39p+08%float;
    0x1.c3c9ce4a7dp+08%float;
    0x1.eeae06423ep+08%float;
    0x1.0c68cdc0148p+09%float;
    0x1.211cca46e2p+09%float;
    0x1.357565c2d48p+09%float;
    0x1.4974f805628p+09%float;
    0x1.5d1dc486afp+09%float;
    0x1.7071fb58d5p+09%float;
    0x1.8373b9bed48p+09%float;
    0x1.b387acd5b78p+09%float;
    0x1.e26f6e47df8p+09%float;
    0x1.081aebe598p+10%float;
    0x1.1e729f66644p+10%float;
    0x1.3443be1a82cp+10%float;
    0x1.4992f9df54cp+10%float;
    0x1.5e64cd423ep+10%float;
    0x1.72bd7ec3568p+10%float;
    0x1.86a123a6cecp+10%float;
    0x1.9a13a2be06p+10%float;
    0x1.b61493bc0acp+10%float;
    0x1.d179ac04008p+10%float;
    0x1.ec47f294dep+10%float;
    0x1.03421bcfd54p+11%float;
    0x1.10198bc382ep+11%float;
    0x1.1cac7eb6bfep+11%float;
    0x1.28fd12ea538p+11%float;
    0x1.350d5082cfap+11%float;
    0x1.40df2a9718cp+11%float;
    0x1.4c74804fb1ep+11%float;
    0x1.5b89bdd11c2p+11%float;
    0x1.6a53456712cp+11%float;
    0x1.78d34b9a9e8p+11%float;
    0x1.870bef3909p+11%float;
    0x1.94ff3a6480cp+11%float;
    0x1.a2af2389728p+11%float;
    0x1.b01d8e4fba2p+11%float;
    0x1.bd4c4c7086cp+11%float;
    0x1.ca3d1e907a2p+11%float;
    0x1.d6f1b502ac2p+11%float;
    0x1.eebb94c6616p+11%float;
    0x1.03b363e8dep+12%float;
    0x1.107dd238114p+12%float;
    0x1.1dc167f0aa5p+12%float;
    0x1.2b82a0a30dcp+12%float;
    0x1.39c622584f9p+12%float;
    0x1.4890bf1f9afp+12%float;
    0x1.57e776b1a2ep+12%float;
    0x1.67cf7821afdp+12%float;
    0x1.784e239b45ep+12%float;
    0x1.89690c34c1fp+12%float;
    0x1.9b25f9d4d88p+12%float;
    0x1.ad8aeb20752p+12%float;
    0x1.c09e178705bp+12%float;
    0x1.d465f158322p+12%float;
    0x1.e8e927f5e89p+12%float;
    0x1.fe2eaa10e06p+12%float;
    0x1.0a1ed40357c8p+13%float;
    0x1.158ecb25b338p+13%float;
    0x1.216b17f8ca9p+13%float
].

Definition break_float (lvl : Z) : option float :=
  if (lvl <? 0) then None else nth_error break_table (Z.to_nat lvl).

(* attack types that matter: DOT 4, PURSUED 5, ELEMENT_DAMAGE 9 *)
Definition atDOT := 4. Definition atPURSUED := 5. Definition atELEMENT := 9.

Section Hit.
  Variable N : NumOps.
  (* BreakBaseDamage[level]; None = index out of range (Go panics) *)
  Variable brk : Z -> option (num N).
  Notation num := (num N).
  Local Infix "+!" := (nadd N) (at level 50, left associativity).
  Local Infix "-!" := (nsub N) (at level 50, left associativity).
  Local Infix "*!" := (nmul N) (at level 40, left associativity).
  Local Infix "/!" := (ndiv N) (at level 40, left associativity).
  Local Infix "<!" := (nltb N) (at level 70).
  Local Infix "<=!" := (nleb N) (at level 70).
  Local Infix "==!" := (neqb N) (at level 70).

  Record hit := mkHit {
    h_key : Z; h_idx : Z;
    h_att : snap N; h_def : snap N;
    h_atype : Z; h_dtype : Z;
    h_terms : pmap N;
    h_energy : num; h_stance : num; h_ratio : num;
    h_pure : bool; h_flat : num; h_snap : bool }.

  (* ---------------- damage.go ---------------- *)

  (* the stat a damage-formula key scales with: BY_ATK 1, BY_DEF 2, BY_MAX_HP 3,
     BY_BREAK_DAMAGE 4 (table lookup at the ATTACKER's level) *)
  Definition dmg_stat (h : hit) (k : Z) : option (option num) :=
    match k with
    | 1 => Some (Some (ATK N (h_att h)))
    | 2 => Some (Some (DEF N (h_att h)))
    | 3 => Some (Some (MaxHP N (h_att h)))
    | 4 => Some (brk (s_level N (h_att h)))       (* inner None: Go panics *)
    | _ => None
    end.

  Definition baseDamage (h : hit) : option num :=
    fold_left (fun acc kv =>
                 match acc with
                 | None => None
                 | Some d => match dmg_stat h (fst kv) with
                             | None => Some d
                             | Some None => None
                             | Some (Some x) => Some (d +! snd kv *! x)
                             end
                 end) (h_terms h) (Some (c0 N)).

  Definition bonusDamage (h : hit) : num :=
    let dmg := c1 N in
    let dmg := if h_pure h then dmg
               else let d := dmg +! DamagePercent N (h_att h) (h_dtype h) in
                    if h_atype h =? atDOT then d +! sget N (h_att h) pDOTDamagePercent else d in
    if getp N (h_terms h) 4 ==! c0 N then dmg else dmg +! BreakEffect N (h_att h).

  Definition defMult (h : hit) : num :=
    let def := DEF N (h_def h) in
    c1 N -! def /! (def +! nofZ N 200 +! nofZ N 10 *! nofZ N (s_level N (h_att h))).

  Definition res (h : hit) : num :=
    let r := DamageRES N (h_def h) (h_dtype h)
             -! (sget N (h_att h) (dmgPENProp (h_dtype h)) +! sget N (h_att h) pAllDamagePEN) in
    let r := if r <! nofZ N (-1) then nofZ N (-1) else if lit N 9 10 <! r then lit N 9 10 else r in
    c1 N -! r.

  Definition vul (h : hit) : num :=
    let v := c1 N +! sget N (h_def h) pAllDamageTaken in
    let v := v +! sget N (h_def h) (dmgTakenProp (h_dtype h)) in
    if lit N 7 2 <! v then lit N 7 2 else v.

  Definition toughness (h : hit) : num :=
    if s_stance N (h_def h) ==! c0 N then c1 N else lit N 9 10.

  Definition damageReduce (h : hit) : num :=
    let r := c1 N -! sget N (h_def h) pAllDamageReduce in
    if r <! lit N 1 100 then lit N 1 100 else r.

  Definition fatigue (h : hit) : num := c1 N -! sget N (h_att h) pFatigue.

  (* a hit can be critical only if it is not DOT, not ELEMENT_DAMAGE and not pure damage *)
  Definition crit_eligible (h : hit) : bool :=
    negb ((h_atype h =? atDOT) || (h_atype h =? atELEMENT) || h_pure h).

  Definition critDmg (h : hit) (crit : bool) : num :=
    if crit then c1 N +! CritDamage N (h_att h) else c1 N.

  (* ---------------- hit.go ---------------- *)

  Definition pop_draw (w : world N) : num * world N :=
    match w_draws N w with
    | [] => (c0 N, w)
    | d :: r => (d, mkWorld (w_units N w) (w_limbo N w) (w_attack N w) r)
    end.

  (* crit(hit, rdm): the draw is consumed iff the hit is eligible *)
  Definition crit_step (w : world N) (h : hit) : bool * world N * list (item N) :=
    if crit_eligible h then
      let '(d, w1) := pop_draw w in (d <! CritChance N (h_att h), w1, [IDraw d])
    else (false, w, []).

  Definition with_event (h : hit) (e : snap N * snap N * pmap N * num) : hit :=
    let '(a, d, terms, flat) := e in
    mkHit (h_key h) (h_idx h) a d (h_atype h) (h_dtype h) terms (h_energy h) (h_stance h) (h_ratio h)
          (h_pure h) flat (h_snap h).

  Definition ratio_left (w : world N) (id : Z) : num :=
    match find_unit N (w_units N w) id with Some u => u_ratio N u | None => c0 N end.

  (* the reported factors, in HitEnd order: base, defence, resistance, vulnerability, toughness,
     fatigue, reduction, crit damage; and their left-to-right product *)
  Definition factors (h : hit) (base : num) (crit : bool) : list num :=
    [base; defMult h; res h; vul h; toughness h; fatigue h; damageReduce h; critDmg h crit].
  Definition product (l : list num) : num :=
    match l with [] => c1 N | x :: r => fold_left (nmul N) r x end.

  Definition perform_hit (w : world N) (h0 : hit) (adjs : list (adj N)) : option (world N * list (item N)) :=
    let h := with_event h0 (apply_adjs N (h_att h0, h_def h0, h_terms h0, h_flat h0) adjs) in
    let att := s_id N (h_att h) in
    let def := s_id N (h_def h) in
    let start := IHitStart (h_key h) (h_idx h) att def (h_atype h) (h_dtype h) (sort_terms N (h_terms h))
                           [h_energy h; h_stance h; h_ratio h; h_flat h] (h_pure h) (h_snap h) in
    let '(crit, w1, drawn) := crit_step w h in
    match baseDamage h with
    | None => None
    | Some bd =>
        let base := bd *! h_ratio h *! bonusDamage h +! h_flat h in
        let fs := factors h base crit in
        let total := product fs in
        let '(w2, shieldEvs, hpUpdate) := absorb N w1 def total in
        let '(w3, hpEvs) := modify_hp N w2 (h_key h) def att (nopp N hpUpdate) true in
        let '(w4, stEvs) :=
          if IsWeakTo N (h_def h) (h_dtype h)
          then modify_stance N w3 (h_key h) def att (nopp N (h_stance h) *! h_ratio h)
          else (w3, []) in
        let amount := h_energy h *! h_ratio h in
        let receiver := if is_char N w4 att then att else def in
        let '(w5, enEvs) := modify_energy N w4 (h_key h) receiver att amount in
        let fin := IHitEnd (h_key h) (h_idx h) att def (h_atype h) (h_dtype h)
                           (fs ++ [total; hpUpdate; total -! hpUpdate; ratio_left w5 def])
                           crit (h_snap h) in
        Some (w5, start :: drawn ++ shieldEvs ++ hpEvs ++ stEvs ++ enEvs ++ [fin])
    end.

  (* ---------------- attack.go ---------------- *)

  Definition is_qualified (atype : Z) : bool :=
    negb ((atype =? atDOT) || (atype =? atPURSUED) || (atype =? atELEMENT)).

  Inductive aop :=
  | AAttack (key idx source : Z) (targets : list Z) (atype dtype : Z) (terms : pmap N)
            (energy stance ratio flat : num) (pure snapf : bool) (adjs : list (adj N))
  | AEndAttack
  | AShield (target skey : Z) (hp : num)           (* attach / replace a shield of the given strength *)
  | AModHP (key target source : Z) (amount : num) (dmg : bool).

  (* newHit *)
  Definition new_hit (w : world N) (target key idx source atype dtype : Z) (terms : pmap N)
             (energy stance ratio flat : num) (pure snapf : bool) : hit :=
    let r := if ratio <=! c0 N then c1 N else ratio in
    mkHit key idx (stats_of N w source) (stats_of N w target) atype dtype terms energy stance r pure flat snapf.

  Fixpoint hit_targets (w : world N) (ts : list Z) (mk : world N -> Z -> hit) (adjs : list (adj N))
    : option (world N * list (item N)) :=
    match ts with
    | [] => Some (w, [])
    | t :: r =>
        match perform_hit w (mk w t) adjs with
        | None => None
        | Some (w1, e1) =>
            match hit_targets w1 r mk adjs with
            | None => None
            | Some (w2, e2) => Some (w2, e1 ++ e2)
            end
        end
    end.

  Definition set_attack (w : world N) (a : option (Z * Z * list Z * Z * Z)) : world N :=
    mkWorld (w_units N w) (w_limbo N w) a (w_draws N w).

  Definition astep (w : world N) (o : aop) : option (world N * list (item N)) :=
    match o with
    | AAttack key idx source ts atype dtype terms energy stance ratio flat pure snapf adjs =>
        match ts with
        | [] => Some (w, [])
        | _ =>
            if is_alive N w source then
              let '(w0, pre) :=
                match w_attack N w with
                | None =>
                    if is_qualified atype
                    then (set_attack w (Some (key, source, ts, atype, dtype)),
                          [IAttackStart key source ts atype dtype])
                    else (w, [])
                | Some _ => (w, [])
                end in
              match hit_targets w0 ts
                      (fun w' t => new_hit w' t key idx source atype dtype terms energy stance ratio flat pure snapf)
                      adjs with
              | None => None
              | Some (w1, evs) => Some (w1, pre ++ evs)
              end
            else Some (w, [])
        end
    | AEndAttack =>
        match w_attack N w with
        | Some (key, attacker, ts, atype, dtype) =>
            Some (set_attack w None, [IAttackEnd key attacker ts atype dtype])
        | None => Some (w, [])
        end
    | AShield target skey hp =>
        match find_unit N (w_units N w) target with
        | Some u => Some (upd N w (set_shields N u (put_shield N (u_shields N u) skey hp)), [])
        | None => Some (w, [])
        end
    | AModHP key target source amount dmg => Some (modify_hp N w key target source amount dmg)
    end.

  Fixpoint arun (w : world N) (ops : list aop) : option (world N * list (item N)) :=
    match ops with
    | [] => Some (w, [])
    | o :: r =>
        match astep w o with
        | None => None
        | Some (w1, e1) =>
            match arun w1 r with
            | None => None
            | Some (w2, e2) => Some (w2, e1 ++ map (unit_item N) (w_units N w1) ++ e2)
            end
        end
    end.
End Hit.

Arguments mkHit {N}.
Arguments AAttack {N}. Arguments AEndAttack {N}. Arguments AShield {N}. Arguments AModHP {N}.
