(* Proofs about Model/Modifier.v (property C05). *)
From Coq Require Import List ZArith Bool Lia Sorting.Sorted Arith Floats.
From SR Require Import Base.ListCount Model.Modifier.
Import ListNotations.
Open Scope Z_scope.

Definition slots (s : st) (u : Z) : list Z := map fst (tg s u).

Definition rem_slots (es : list event) : list Z :=
  flat_map (fun e => match e with ERemoved _ x _ => [x] | _ => [] end) es.
Definition dsp_slots (es : list event) : list Z :=
  flat_map (fun e => match e with EDispelled _ x _ => [x] | _ => [] end) es.

Definition R (s : st) (x : Z) : Z := c (rem_slots (evs s)) x.
Definition Dp (s : st) (x : Z) : Z := c (dsp_slots (evs s)) x.

Fixpoint zsum (l : list Z) : Z := match l with [] => 0 | a :: r => a + zsum r end.

Definition fresh (a b x : Z) : Z := if (a <=? x) && (x <? b) then 1 else 0.

Lemma fresh_add a b d x : a <= b -> b <= d -> fresh a d x = fresh a b x + fresh b d x.
Proof.
  intros. unfold fresh.
  destruct (a <=? x) eqn:E1, (x <? b) eqn:E2, (b <=? x) eqn:E3, (x <? d) eqn:E4; cbn; lia.
Qed.
Lemma fresh_same a x : fresh a a x = 0.
Proof. unfold fresh. destruct (a <=? x) eqn:E1, (x <? a) eqn:E2; cbn; lia. Qed.
Lemma fresh_one a x : fresh a (a + 1) x = c [a] x.
Proof.
  unfold fresh. rewrite c_cons, c_nil.
  destruct (Z.eq_dec a x); destruct (a <=? x) eqn:E1, (x <? a + 1) eqn:E2; cbn; lia.
Qed.

Lemma sublist_select {A} : forall (mask : list bool) (l : list A), sublist (select mask l) l.
Proof.
  intros mask l. revert mask. induction l as [|a l IH]; intros [|b m]; cbn; [constructor|constructor|constructor|].
  destruct b; constructor; apply IH.
Qed.

Lemma c_select_split {A} (f : A -> Z) : forall (mask : list bool) (l : list A) x,
  length mask = length l ->
  c (map f l) x = c (map f (select mask l)) x + c (map f (select (map negb mask) l)) x.
Proof.
  intros mask l. revert mask. induction l as [|a l IH]; intros [|b m] x Hl; cbn in *; try discriminate; [reflexivity|].
  injection Hl as Hl. destruct b; cbn; rewrite !c_cons, (IH m x Hl); lia.
Qed.

(* ------------------------------------------------------------------ *)
(* The transition relation                                              *)
(* ------------------------------------------------------------------ *)
Section World.
  Variable w : world.
  Hypothesis Hnd : NoDup (unit_ids w).

  Definition A (s : st) (x : Z) : Z := zsum (map (fun u => c (slots s u) x) (unit_ids w)).

  Definition lists_ok (s : st) : Prop :=
    forall u, StronglySorted Z.lt (slots s u) /\ Forall (fun x => x < nslot s) (slots s u) /\
              (valid w u = false -> tg s u = []) /\
              NoDup (map snd (tg s u)) /\ Forall (fun e => snd e < ntag s) (tg s u).

  Definition T (pa pr : Z -> Z) (s s' : st) : Prop :=
    lists_ok s ->
    lists_ok s' /\ (nslot s <= nslot s' /\ ntag s <= ntag s') /\
    (forall u x, In x (slots s' u) -> x < nslot s -> In x (slots s u)) /\
    (forall x, A s' x + R s' x = A s x + R s x + fresh (nslot s) (nslot s') x + pa x) /\
    (forall x, R s' x - R s x >= pr x + (Dp s' x - Dp s x)).

  Definition z0 : Z -> Z := fun _ => 0.

  Lemma T_refl s : T z0 z0 s s.
  Proof.
    intros H. split; [exact H|]. split; [lia|]. split; [auto|].
    split; intros x; unfold z0; rewrite ?fresh_same; lia.
  Qed.

  Lemma T_trans pa1 pr1 pa2 pr2 s s1 s2 :
    T pa1 pr1 s s1 -> T pa2 pr2 s1 s2 -> T (fun x => pa1 x + pa2 x) (fun x => pr1 x + pr2 x) s s2.
  Proof.
    intros H1 H2 Hok. destruct (H1 Hok) as (Ok1 & N1 & O1 & B1 & D1).
    destruct (H2 Ok1) as (Ok2 & N2 & O2 & B2 & D2).
    split; [exact Ok2|]. split; [lia|]. split.
    { intros u x Hin Hx. apply O1; [|exact Hx]. apply O2; [exact Hin|lia]. }
    split; intros x.
    - rewrite (fresh_add _ (nslot s1)) by lia. rewrite B2, B1. lia.
    - specialize (D1 x). specialize (D2 x). lia.
  Qed.

  Lemma T_conv pa pr pa' pr' s s' :
    (forall x, pa' x = pa x) -> (forall x, pr' x <= pr x) -> T pa pr s s' -> T pa' pr' s s'.
  Proof.
    intros Ea Er H Hok. destruct (H Hok) as (Ok1 & N1 & O1 & B1 & D1).
    split; [exact Ok1|]. split; [exact N1|]. split; [exact O1|]. split; intros x.
    - rewrite B1, Ea. reflexivity.
    - specialize (D1 x). specialize (Er x). lia.
  Qed.

  Lemma T_trans0 s s1 s2 : T z0 z0 s s1 -> T z0 z0 s1 s2 -> T z0 z0 s s2.
  Proof. intros H1 H2. eapply T_conv; [| |eapply T_trans; eassumption]; intros; unfold z0; lia. Qed.

  (* states that agree on lists, slot counter and events *)
  Lemma T_frame s s' : tg s' = tg s -> nslot s' = nslot s -> evs s' = evs s -> ntag s <= ntag s' -> T z0 z0 s s'.
  Proof.
    intros Et En Ee Hnt Hok.
    assert (Es : forall u, slots s' u = slots s u) by (intros; unfold slots; rewrite Et; reflexivity).
    split.
    { intros u. destruct (Hok u) as (H1 & H2 & H3 & H4 & H5). rewrite Es, En, Et.
      repeat split; auto. eapply Forall_impl; [|exact H5]. cbn; intros; lia. }
    split; [lia|]. split; [intros u x; rewrite Es; auto|].
    unfold A, R, Dp. rewrite Ee, En.
    split; intros x; unfold z0; rewrite ?fresh_same.
    - assert (E : map (fun u => c (slots s' u) x) (unit_ids w) = map (fun u => c (slots s u) x) (unit_ids w)).
      { apply map_ext. intros; rewrite Es; reflexivity. }
      rewrite E. lia.
    - lia.
  Qed.

  Lemma T_upd s tag f : T z0 z0 s (upd s tag f).
  Proof. apply T_frame; solve [reflexivity | cbn; lia]. Qed.

  (* events *)
  Definition e_rem (e : event) : list Z := match e with ERemoved _ x _ => [x] | _ => [] end.
  Definition e_dsp (e : event) : list Z := match e with EDispelled _ x _ => [x] | _ => [] end.

  Lemma T_emit s e :
    T (c (e_rem e)) (fun x => c (e_rem e) x - c (e_dsp e) x) s (emit s e).
  Proof.
    intros Hok.
    assert (Es : forall u, slots (emit s e) u = slots s u) by reflexivity.
    split; [exact Hok|]. split; [cbn; lia|]. split; [auto|].
    unfold A, R, Dp. cbn [evs emit nslot rem_slots dsp_slots flat_map].
    fold (e_rem e). fold (e_dsp e). fold (rem_slots (evs s)). fold (dsp_slots (evs s)).
    split; intros x; rewrite ?c_app, ?fresh_same.
    - change (map (fun u => c (slots (emit s e) u) x) (unit_ids w)) with (map (fun u => c (slots s u) x) (unit_ids w)). lia.
    - lia.
  Qed.

  Lemma T_emit_plain s e : e_rem e = [] -> e_dsp e = [] -> T z0 z0 s (emit s e).
  Proof.
    intros E1 E2. eapply T_conv; [| |apply T_emit]; intros x; rewrite ?E1, ?E2, ?c_nil; unfold z0; lia.
  Qed.

  (* ---- changing one unit's list ---- *)
  Lemma valid_in u : valid w u = true <-> In u (unit_ids w).
  Proof.
    unfold valid, unit_ids. induction (w_units w) as [|[u' x] us IH]; cbn.
    - split; [discriminate|tauto].
    - destruct (u' =? u) eqn:E.
      + apply Z.eqb_eq in E. subst. tauto.
      + apply Z.eqb_neq in E. rewrite IH. split; [tauto|]. intros [H|H]; [congruence|assumption].
  Qed.

  Lemma zsum_setl s t l x us : NoDup us ->
    zsum (map (fun u => c (slots (setl s t l) u) x) us) =
    zsum (map (fun u => c (slots s u) x) us) + (if in_dec Z.eq_dec t us then c (map fst l) x - c (slots s t) x else 0).
  Proof.
    induction us as [|u us IH]; intros Hn; [reflexivity|].
    inversion Hn as [|? ? Hni Hn']; subst. cbn [map zsum]. rewrite (IH Hn').
    unfold slots at 1. cbn [tg setl].
    destruct (Z.eq_dec t u) as [->|Hne].
    - rewrite Z.eqb_refl. destruct (in_dec Z.eq_dec u (u :: us)) as [_|Hx]; [|exfalso; apply Hx; left; reflexivity].
      destruct (in_dec Z.eq_dec u us); [contradiction|]. unfold slots. lia.
    - assert (E : (u =? t) = false) by (apply Z.eqb_neq; congruence). rewrite E.
      destruct (in_dec Z.eq_dec t (u :: us)) as [Hi|Hi]; destruct (in_dec Z.eq_dec t us) as [Hj|Hj]; unfold slots; try lia.
      + destruct Hi as [Hi|Hi]; [congruence|contradiction].
      + exfalso. apply Hi. right. assumption.
  Qed.

  (* the list of unit t becomes l (and the slot counter n'): allowed when l keeps the list
     invariants *)
  Lemma T_setl s t l (n' : Z) s' :
    s' = setl (set_nslot s n') t l ->
    nslot s <= n' ->
    (lists_ok s -> StronglySorted Z.lt (map fst l) /\ Forall (fun x => x < n') (map fst l) /\
                   (valid w t = false -> l = []) /\
                   (forall x, In x (map fst l) -> x < nslot s -> In x (slots s t)) /\
                   NoDup (map snd l) /\ Forall (fun e => snd e < ntag s) l) ->
    T (fun x => c (map fst l) x - c (slots s t) x - fresh (nslot s) n' x) z0 s s'.
  Proof.
    intros -> Hn Hl Hok. destruct (Hl Hok) as (L1 & L2 & L3 & L4 & L5 & L6).
    split.
    { intros u. destruct (Hok u) as (H1 & H2 & H3 & H4 & H5). unfold slots. cbn [tg setl set_nslot nslot ntag].
      destruct (u =? t) eqn:E.
      - apply Z.eqb_eq in E. subst. auto.
      - split; [exact H1|]. split; [|auto]. eapply Forall_impl; [|exact H2]. cbn; intros; lia. }
    split; [cbn; lia|]. split.
    { intros u x. unfold slots. cbn [tg setl set_nslot]. destruct (u =? t) eqn:E.
      - apply Z.eqb_eq in E. subst. apply L4.
      - auto. }
    split; intros x.
    - unfold A.
      assert (E : map (fun u => c (slots (setl (set_nslot s n') t l) u) x) (unit_ids w) =
                  map (fun u => c (slots (setl s t l) u) x) (unit_ids w)) by reflexivity.
      rewrite E, zsum_setl by exact Hnd.
      change (R (setl (set_nslot s n') t l) x) with (R s x).
      change (nslot (setl (set_nslot s n') t l)) with n'.
      destruct (in_dec Z.eq_dec t (unit_ids w)) as [Hi|Hi]; [lia|].
      assert (Hv : valid w t = false).
      { destruct (valid w t) eqn:V; [|reflexivity]. apply valid_in in V. contradiction. }
      rewrite (L3 Hv). destruct (Hok t) as (_ & _ & H3 & _). unfold slots. rewrite (H3 Hv). cbn [map]. rewrite !c_nil. lia.
    - change (R (setl (set_nslot s n') t l) x) with (R s x).
      change (Dp (setl (set_nslot s n') t l) x) with (Dp s x). unfold z0. lia.
  Qed.

  Lemma set_nslot_same s : set_nslot s (nslot s) = s.
  Proof. destruct s; reflexivity. Qed.

  (* a sub-list (filter / select / remove one) of the current list *)
  Lemma T_sub s t l : sublist l (tg s t) ->
    T (fun x => c (map fst l) x - c (slots s t) x) z0 s (setl s t l).
  Proof.
    intros Hs.
    eapply T_conv; [| |eapply (T_setl s t l (nslot s)); [rewrite set_nslot_same; reflexivity|lia|]].
    - intros x. cbn. rewrite fresh_same. lia.
    - intros; lia.
    - intros Hok. destruct (Hok t) as (S1 & S2 & S3 & S4 & S5).
      pose proof (sublist_map fst _ _ Hs) as Hf. pose proof (sublist_map snd _ _ Hs) as Hsn.
      split; [eapply sublist_SS; eassumption|]. split; [eapply sublist_Forall; eassumption|].
      split; [intros Hv; rewrite (S3 Hv) in Hs; apply sublist_nil_r, Hs|].
      split; [intros x Hx _; eapply sublist_in; eassumption|].
      split; [eapply sublist_NoDup; eassumption|eapply sublist_Forall; eassumption].
  Qed.

  (* ------------------------------------------------------------------ *)
  (* Operations                                                           *)
  (* ------------------------------------------------------------------ *)
  Section Ops.
    Variable X : runner.
    Hypothesis HX : forall s self acts, T z0 z0 s (X s self acts).

    Lemma fold_T0 {B} (f : st -> B -> st) : (forall s b, T z0 z0 s (f s b)) ->
      forall l s, T z0 z0 s (fold_left f l s).
    Proof.
      intros Hf l. induction l as [|b l IH]; intros s; cbn; [apply T_refl|].
      eapply T_trans0; [apply Hf|apply IH].
    Qed.

    Lemma call_T s k tag : T z0 z0 s (call w X s k tag).
    Proof.
      unfold call. destruct (script w _ k) as [sc|]; [|apply T_refl].
      eapply T_trans0; [|apply HX]. apply T_emit_plain; reflexivity.
    Qed.

    Lemma prop_change_T s t : T z0 z0 s (prop_change w X s t).
    Proof. unfold prop_change. apply fold_T0. intros; apply call_T. Qed.

    Ltac cz := intros x; cbn beta; cbn [e_rem e_dsp map fst]; unfold z0; rewrite ?c_cons, ?c_nil; lia.

    Lemma remove_one_T s t e : T (c [fst e]) (c [fst e]) s (remove_one w X s t e).
    Proof.
      unfold remove_one.
      set (s1 := if i_stats _ then _ else s).
      assert (H1 : T z0 z0 s s1) by (subst s1; destruct (i_stats _); [apply prop_change_T|apply T_refl]).
      eapply T_conv; [| |eapply T_trans; [exact H1|eapply T_trans; [apply call_T|apply T_emit]]]; cz.
    Qed.

    Lemma emit_remove_T l : forall s t, T (c (map fst l)) (c (map fst l)) s (emit_remove w X s t l).
    Proof.
      induction l as [|e l IH]; intros s t; cbn [emit_remove fold_left].
      - eapply T_conv; [| |apply T_refl]; cz.
      - eapply T_conv; [| |eapply T_trans; [apply remove_one_T|apply IH]]; cz.
    Qed.

    Lemma dispel_one_T s t e : T (c [fst e]) z0 s (dispel_one w X s t e).
    Proof.
      unfold dispel_one.
      eapply T_conv; [| |eapply T_trans; [apply call_T|eapply T_trans; [apply T_emit|apply remove_one_T]]]; cz.
    Qed.

    Lemma emit_dispel_T l : forall s t, T (c (map fst l)) z0 s (emit_dispel w X s t l).
    Proof.
      induction l as [|e l IH]; intros s t; cbn [emit_dispel fold_left].
      - eapply T_conv; [| |apply T_refl]; cz.
      - eapply T_conv; [| |eapply T_trans; [apply dispel_one_T|apply IH]]; cz.
    Qed.

    Lemma emit_extdur_T s t m old : T z0 z0 s (emit_extdur w X s t m old).
    Proof. unfold emit_extdur. eapply T_trans0; [apply call_T|apply T_emit_plain; reflexivity]. Qed.
    Lemma emit_extcnt_T s t m old : T z0 z0 s (emit_extcnt w X s t m old).
    Proof. unfold emit_extcnt. eapply T_trans0; [apply call_T|apply T_emit_plain; reflexivity]. Qed.
    Lemma emit_add_T s t m ch : T z0 z0 s (emit_add w X s t m ch).
    Proof. unfold emit_add. eapply T_trans0; [apply call_T|apply T_emit_plain; reflexivity]. Qed.

    (* remove a part of a list and announce it *)
    Lemma remove_part_T s t keep rem :
      sublist keep (tg s t) ->
      (forall x, c (slots s t) x = c (map fst keep) x + c (map fst rem) x) ->
      T z0 (c (map fst rem)) s (emit_remove w X (setl s t keep) t rem).
    Proof.
      intros H1 H3.
      eapply T_conv; [| |eapply T_trans; [apply (T_sub s t keep H1)|apply emit_remove_T]].
      - intros x. cbn beta. rewrite H3. unfold z0. lia.
      - intros x. unfold z0. lia.
    Qed.

    Lemma T_weak0 pr s s' : (forall x, 0 <= pr x) -> T z0 pr s s' -> T z0 z0 s s'.
    Proof. intros H. apply T_conv; [reflexivity|]. intros x. unfold z0. apply H. Qed.

    Lemma remove_by_T s t p : T z0 z0 s (remove_by w X s t p).
    Proof.
      unfold remove_by. eapply T_weak0; [intros; apply c_nonneg|].
      apply remove_part_T.
      - apply sublist_filter.
      - intros x. unfold slots. rewrite (c_filter_split fst (fun e => negb (p (heap s (snd e)))) (tg s t) x).
        f_equal. f_equal. f_equal. apply filter_ext. intros a. apply negb_involutive.
    Qed.

    Lemma find_tag_split tag : forall l e, find_tag tag l = Some e ->
      (forall x, c (map fst l) x = c (map fst (remove_first tag l)) x + c [fst e] x) /\
      sublist (remove_first tag l) l.
    Proof.
      induction l as [|a l IH]; intros e H; cbn [find_tag remove_first map] in *; [discriminate|].
      destruct (snd a =? tag).
      - injection H as <-. split.
        + intros x. rewrite !c_cons, c_nil. lia.
        + apply sub_skip, sublist_refl.
      - destruct (IH e H) as (I1 & I2). split.
        + intros x. cbn [map]. rewrite !(c_cons (fst a)), (I1 x). lia.
        + apply sub_keep, I2.
    Qed.

    Lemma remove_self_T s tag : T z0 z0 s (remove_self w X s tag).
    Proof.
      unfold remove_self. destruct (find_tag tag _) as [e|] eqn:E; [|apply T_refl].
      destruct (find_tag_split _ _ _ E) as (I1 & I2).
      eapply T_weak0; [intros; apply c_nonneg|]. apply remove_part_T; auto.
    Qed.

    Lemma mask_first_len h p : forall l n, length (mask_first h p n l) = length l.
    Proof. induction l as [|e l IH]; intros n; cbn; [reflexivity|]. destruct n; [|destruct (p _)]; cbn; rewrite IH; reflexivity. Qed.

    Lemma dispel_T s t status order count : T z0 z0 s (dispel w X s t status order count).
    Proof.
      unfold dispel.
      set (l := tg s t). set (n := if count <=? 0 then length l else Z.to_nat count).
      assert (Hgen : forall s1 mask, tg s1 = tg s -> nslot s1 = nslot s -> evs s1 = evs s -> ntag s1 = ntag s ->
                 length mask = length l ->
                 T z0 z0 s (emit_dispel w X (setl s1 t (select (map negb mask) l)) t (select mask l))).
      { intros s1 mask E1 E2 E3 E4 Hlen.
        eapply T_trans0; [apply (T_frame s s1 E1 E2 E3); lia|].
        assert (El : tg s1 t = l) by (rewrite E1; reflexivity).
        eapply T_conv; [| |eapply T_trans; [apply (T_sub s1 t (select (map negb mask) l))|apply emit_dispel_T]].
        - intros x. cbn beta. unfold slots. rewrite El. rewrite (c_select_split fst mask l x Hlen). unfold z0. lia.
        - intros x. unfold z0. lia.
        - rewrite El. apply sublist_select. }
      destruct (order =? 2).
      { apply Hgen; try reflexivity. apply mask_first_len. }
      destruct (order =? 1).
      { apply Hgen; try reflexivity. rewrite rev_length, mask_first_len, rev_length. reflexivity. }
      destruct (order =? 3).
      { destruct (shuffle _ _) as [r sh]. apply Hgen; try reflexivity.
        unfold mask_of. rewrite map_length, seq_length. reflexivity. }
      apply Hgen; try reflexivity. apply map_length.
    Qed.

    Lemma ext_dur_T s t n amt : T z0 z0 s (ext_dur w X s t n amt).
    Proof.
      unfold ext_dur. apply fold_T0. intros s1 m. destruct (_ =? n); [|apply T_refl].
      eapply T_trans0; [apply T_upd|apply emit_extdur_T].
    Qed.

    Lemma ext_cnt_T s t n amt : T z0 z0 s (ext_cnt w X s t n amt).
    Proof.
      unfold ext_cnt. eapply T_trans0; [|apply remove_by_T].
      apply fold_T0. intros s1 m. destruct (_ =? n); [|apply T_refl].
      eapply T_trans0; [apply T_upd|apply emit_extcnt_T].
    Qed.

    Lemma fold_upd_frame (g : st -> Z -> inst -> inst) : forall l s,
      let s' := fold_left (fun s m => upd s m (g s m)) l s in
      tg s' = tg s /\ nslot s' = nslot s /\ evs s' = evs s /\ turn s' = turn s /\ ntag s' = ntag s.
    Proof.
      induction l as [|m l IH]; intros s; cbn; [auto 6|].
      destruct (IH (upd s m (g s m))) as (E1 & E2 & E3 & E4 & E5). cbn in *. auto 6.
    Qed.

    Lemma phase_end_T s t mom : T z0 z0 s (phase_end w X s t mom).
    Proof.
      unfold phase_end.
      set (s1 := fold_left _ _ s).
      destruct (fold_upd_frame (fun s0 _ i => fst (tick_inst w (turn s0) mom i)) (map snd (tg s t)) s) as (E1 & E2 & E3 & _ & E5).
      fold s1 in E1, E2, E3, E5.
      eapply T_trans0; [apply (T_frame s s1 E1 E2 E3); lia|].
      eapply T_weak0; [intros; apply c_nonneg|].
      apply remove_part_T; unfold slots; rewrite E1.
      - apply sublist_filter.
      - intros x. apply c_filter_split.
    Qed.

    Lemma tick_T s t phase : T z0 z0 s (tick w X s t phase).
    Proof.
      unfold tick.
      destruct (phase =? 2); [apply T_frame; solve [reflexivity | cbn; lia]|].
      destruct (phase =? 3).
      { eapply T_trans0; [|apply phase_end_T]. apply fold_T0. intros; apply call_T. }
      destruct (phase =? 6).
      { destruct (fold_upd_frame (fun _ _ => w_ct2 true) (map snd (tg s t)) s) as (E1 & E2 & E3 & _ & E5).
        apply T_frame; try assumption. lia. }
      destruct (phase =? 8); [|apply T_refl].
      eapply T_trans0; [|apply phase_end_T]. apply fold_T0. intros; apply call_T.
    Qed.

    (* a tag above every attached tag *)
    Definition tag_fresh (s : st) (tag : Z) : Prop :=
      tag < ntag s /\ forall u, Forall (fun e => snd e < tag) (tg s u).

    Lemma fresh_not_in s tag u : tag_fresh s tag -> ~ In tag (map snd (tg s u)).
    Proof.
      intros [_ H] Hin. specialize (H u). rewrite Forall_forall in H.
      apply in_map_iff in Hin. destruct Hin as (e & <- & He). specialize (H _ He). lia.
    Qed.

    Lemma append_T s t tag : valid w t = true -> tag_fresh s tag -> T z0 z0 s (append s t tag).
    Proof.
      intros Hv Hfr. unfold append.
      eapply T_conv; [| |eapply (T_setl s t _ (nslot s + 1)); [reflexivity|lia|]].
      - intros x. cbn [tg set_nslot]. rewrite map_app, c_app. cbn [map fst]. rewrite fresh_one. unfold z0, slots. lia.
      - intros; lia.
      - intros Hok. destruct (Hok t) as (S1 & S2 & S3 & S4 & S5). cbn [tg set_nslot]. rewrite !map_app. cbn [map fst snd].
        split; [apply ss_snoc; assumption|]. split.
        { apply Forall_app; split; [eapply Forall_impl; [|exact S2]; cbn; intros; lia|repeat constructor; lia]. }
        split; [intros Hv'; congruence|].
        split. { intros x Hx Hlt. apply in_app_or in Hx. destruct Hx as [Hx|[Hx|[]]]; [exact Hx|lia]. }
        split.
        { apply NoDup_app_snoc; [exact S4|]. apply fresh_not_in, Hfr. }
        apply Forall_app; split; [exact S5|]. repeat constructor. cbn. apply Hfr.
    Qed.

    Lemma replace_first_slots h p new : forall l, map fst (replace_first h p new l) = map fst l.
    Proof. induction l as [|e l IH]; cbn; [reflexivity|]. destruct (p _); cbn; [reflexivity|]. rewrite IH. reflexivity. Qed.

    Lemma replace_first_tags h p new : forall l, ~ In new (map snd l) -> NoDup (map snd l) ->
      NoDup (map snd (replace_first h p new l)) /\
      (forall y, In y (map snd (replace_first h p new l)) -> y = new \/ In y (map snd l)).
    Proof.
      induction l as [|e l IH]; cbn [replace_first map]; intros Hni Hnd'; [split; [constructor|tauto]|].
      inversion Hnd' as [|? ? Hn1 Hn2]; subst.
      destruct (p _); cbn [map snd].
      - split.
        + constructor; [|exact Hn2]. intros Hx. apply Hni. right. exact Hx.
        + intros y [Hy|Hy]; [left; congruence|right; right; exact Hy].
      - destruct IH as (I1 & I2); [intros Hx; apply Hni; right; exact Hx|exact Hn2|]. split.
        + constructor; [|exact I1]. intros Hx. destruct (I2 _ Hx) as [E|Hx'].
          * apply Hni. left. exact E.
          * contradiction.
        + intros y [Hy|Hy]; [right; left; exact Hy|]. destruct (I2 _ Hy); [left|right; right]; assumption.
    Qed.

    Lemma T_replace s t p tag : tag_fresh s tag ->
      T z0 z0 s (setl s t (replace_first (heap s) p tag (tg s t))).
    Proof.
      intros Hfr.
      eapply T_conv; [| |eapply (T_setl s t _ (nslot s)); [rewrite set_nslot_same; reflexivity|lia|]].
      - intros x. rewrite replace_first_slots, fresh_same. unfold z0, slots. lia.
      - intros; lia.
      - intros Hok. destruct (Hok t) as (S1 & S2 & S3 & S4 & S5). rewrite replace_first_slots.
        split; [exact S1|]. split; [exact S2|].
        split; [intros Hv; rewrite (S3 Hv); reflexivity|]. split; [auto|].
        destruct (replace_first_tags (heap s) p tag (tg s t) (fresh_not_in _ _ _ Hfr) S4) as (I1 & I2).
        split; [exact I1|].
        rewrite Forall_forall in *. intros e He.
        assert (Hy : In (snd e) (map snd (replace_first (heap s) p tag (tg s t)))) by (apply in_map; exact He).
        destruct (I2 _ Hy) as [->|Hy']; [apply Hfr|].
        apply in_map_iff in Hy'. destruct Hy' as (e' & <- & He'). apply S5, He'.
    Qed.

    Lemma tag_fresh_frame s s' tag : tg s' = tg s -> ntag s' = ntag s -> tag_fresh s tag -> tag_fresh s' tag.
    Proof. intros E1 E2 [H1 H2]. split; [lia|]. intros u. rewrite E1. apply H2. Qed.

    Lemma stack_T s t k tag : valid w t = true -> tag_fresh s tag ->
      T z0 z0 s (fst (fst (stack w X s t k tag))).
    Proof.
      intros Hv Hfr. unfold stack.
      assert (Hrep : forall p,
        T z0 z0 s (fst (fst (match find_first (heap s) p (tg s t) with
          | Some m => (setl (upd s tag (w_cnt (stack_count (heap s tag) (i_cnt (heap s m))))) t
                            (replace_first (heap s) p tag (tg s t)), tag, true)
          | None => (append s t tag, tag, true) end)))).
      { intros p. destruct (find_first _ p _) as [m|]; cbn [fst]; [|apply append_T; assumption].
        eapply T_trans0; [apply T_upd|].
        set (s1 := upd s tag _).
        change (replace_first (heap s) p tag (tg s t)) with (replace_first (heap s) p tag (tg s1 t)).
        assert (Hfr1 : tag_fresh s1 tag) by (eapply tag_fresh_frame; [| |exact Hfr]; reflexivity).
        intros Hok.
        eapply (T_conv z0 z0); [reflexivity|reflexivity| |exact Hok].
        eapply T_conv; [| |eapply (T_setl s1 t _ (nslot s1)); [rewrite set_nslot_same; reflexivity|lia|]].
        - intros x. rewrite replace_first_slots, fresh_same. unfold z0, slots. lia.
        - intros; lia.
        - clear Hok. intros Hok. destruct (Hok t) as (S1 & S2 & S3 & S4 & S5). rewrite replace_first_slots.
          split; [exact S1|]. split; [exact S2|].
          split; [intros Hv'; congruence|]. split; [auto|].
          destruct (replace_first_tags (heap s) p tag (tg s1 t) (fresh_not_in _ _ _ Hfr1) S4) as (I1 & I2).
          split; [exact I1|].
          rewrite Forall_forall in *. intros e He.
          assert (Hy : In (snd e) (map snd (replace_first (heap s) p tag (tg s1 t)))) by (apply in_map; exact He).
          destruct (I2 _ Hy) as [->|Hy']; [apply Hfr1|].
          apply in_map_iff in Hy'. destruct Hy' as (e' & <- & He'). apply S5, He'. }
      destruct k; cbn [fst].
      - destruct (find_first _ _ _); cbn [fst]; [apply T_refl|apply append_T; assumption].
      - apply Hrep.
      - apply Hrep.
      - apply append_T; assumption.
      - destruct (find_first _ _ _); cbn [fst]; [|apply append_T; assumption].
        eapply T_trans0; [apply T_upd|apply emit_extdur_T].
      - destruct (find_first _ _ _); cbn [fst]; [|apply append_T; assumption].
        eapply T_trans0; [apply T_upd|apply emit_extdur_T].
      - destruct (find_first _ _ _); cbn [fst]; [|apply append_T; assumption].
        eapply T_trans0; [apply T_upd|]. destruct (_ <? _); [apply T_upd|apply T_refl].
    Qed.

    Lemma attempt_resist_frame s t d cf :
      let s' := fst (fst (attempt_resist w s t d cf)) in
      tg s' = tg s /\ ntag s' = ntag s /\ T z0 z0 s s'.
    Proof.
      unfold attempt_resist. destruct (d_chance d <=? 0)%float; [cbn; auto using T_refl|].
      destruct (ustats _ (d_src d)) as [[[a b] e]|]; [|cbn; auto using T_refl].
      destruct (ustats _ t) as [[[a' b'] e']|]; [|cbn; auto using T_refl].
      unfold rand_float. destruct (sm_next _) as [r x].
      destruct (_ <? _)%float; cbn [fst].
      - split; [reflexivity|]. split; [reflexivity|]. apply T_frame; solve [reflexivity | cbn; lia].
      - split; [reflexivity|]. split; [reflexivity|].
        eapply T_trans0; [apply (T_frame s (set_rng s r)); solve [reflexivity | cbn; lia]|apply T_emit_plain; reflexivity].
    Qed.

    Lemma add_T s t d : T z0 z0 s (fst (add w X s t d)).
    Proof.
      unfold add.
      set (s0 := set_ntag s (ntag s + 1)).
      assert (H0 : T z0 z0 s s0) by (apply T_frame; solve [reflexivity | cbn; lia]).
      destruct (valid w t) eqn:Hv; cbn [negb]; [|exact H0].
      destruct (valid w (d_src d)); cbn [negb]; [|exact H0].
      pose proof (attempt_resist_frame s0 t d (getcfg w (d_name d))) as H1. cbn zeta in H1.
      destruct (attempt_resist w s0 t d _) as [[s1 ch] res]. cbn [fst] in H1. destruct H1 as (E1 & E2 & H1).
      destruct res; cbn [fst]; [exact (T_trans0 _ _ _ H0 H1)|].
      set (s2 := upd s1 _ _).
      intros Hok.
      assert (Hfr : tag_fresh s2 (ntag s)).
      { split; [cbn; rewrite E2; cbn; lia|]. intros u. cbn [tg upd set_heap s2]. rewrite E1. cbn [tg set_ntag s0].
        destruct (Hok u) as (_ & _ & _ & _ & S5). exact S5. }
      pose proof (stack_T s2 t (c_stack (getcfg w (d_name d))) (ntag s) Hv Hfr) as H3.
      destruct (stack w X s2 t _ _) as [[s3 r] isnew]. cbn [fst] in *.
      assert (H03 : T z0 z0 s s3).
      { eapply T_trans0; [exact H0|]. eapply T_trans0; [exact H1|]. eapply T_trans0; [apply T_upd|exact H3]. }
      destruct isnew; [|exact (H03 Hok)].
      refine (T_trans0 _ _ _ H03 _ Hok). eapply T_trans0; [|apply emit_add_T].
      destruct (i_stats _); [apply prop_change_T|apply T_refl].
    Qed.

    Lemma exec_op_T s o : T z0 z0 s (fst (exec_op w X s o)).
    Proof.
      destruct o; cbn [exec_op fst].
      - apply add_T.
      - apply remove_by_T.
      - apply remove_by_T.
      - apply remove_self_T.
      - apply dispel_T.
      - apply ext_dur_T.
      - apply ext_cnt_T.
      - apply tick_T.
    Qed.

    Lemma run_acts_T s self acts : T z0 z0 s (run_acts w X s self acts).
    Proof. unfold run_acts. apply fold_T0. intros; apply exec_op_T. Qed.
  End Ops.

  Lemma runscript_T d : forall s self acts, T z0 z0 s (runscript w d s self acts).
  Proof.
    induction d as [|d IH]; intros s self acts; cbn [runscript]; [apply T_refl|].
    apply run_acts_T. exact IH.
  Qed.

  Lemma step_T d s o : T z0 z0 s (fst (step w d s o)).
  Proof.
    unfold step. destruct o; try (apply exec_op_T, runscript_T).
    destruct (has_handle s tag); [apply exec_op_T, runscript_T|apply T_refl].
  Qed.

  Lemma run_T d : forall ops s, T z0 z0 s (run w d s ops).
  Proof.
    induction ops as [|o ops IH]; intros s; cbn [run]; [apply T_refl|].
    eapply T_trans0; [apply step_T|apply IH].
  Qed.

  Lemma init_ok seed : lists_ok (init_seed seed).
  Proof. intros u. cbn. repeat split; try constructor. Qed.
End World.

(* ------------------------------------------------------------------ *)
(* Consequences for whole runs                                          *)
(* ------------------------------------------------------------------ *)

Lemma A_init w seed x : A w (init_seed seed) x = 0.
Proof. unfold A. induction (unit_ids w) as [|u us IH]; cbn; [reflexivity|]. cbn in IH. rewrite IH. reflexivity. Qed.

(* every slot ever given out is, at any moment, either attached exactly once (to exactly one
   unit) or announced removed exactly once - never both, never twice; a dispel announcement is
   always matched by a removal announcement of its own *)
Theorem run_invariants w seed d ops : NoDup (unit_ids w) ->
  let s := run w d (init_seed seed) ops in
  lists_ok w s /\
  (forall x, A w s x + R s x = fresh 0 (nslot s) x) /\
  (forall x, Dp s x <= R s x).
Proof.
  intros Hnd s. destruct (run_T w Hnd d ops (init_seed seed) (init_ok w seed)) as (Ok & _ & _ & B & D).
  fold s in Ok, B, D. split; [exact Ok|]. split; intros x.
  - rewrite B, A_init. unfold z0, R. cbn. lia.
  - specialize (D x). unfold z0, R, Dp in *. cbn in D. cbn. lia.
Qed.

(* attachment order is preserved by every operation: the instances that were attached before
   and still are form a sublist of the previous list (same relative order), and everything
   attached by the operation comes behind them *)
Theorem step_order w d s o : NoDup (unit_ids w) -> lists_ok w s ->
  let s' := fst (step w d s o) in
  lists_ok w s' /\
  forall u, exists kept new, slots s' u = kept ++ new /\ sublist kept (slots s u) /\
                             Forall (fun x => nslot s <= x) new.
Proof.
  intros Hnd Hok s'. destruct (step_T w Hnd d s o Hok) as (Ok & _ & Old & _ & _). fold s' in Ok, Old.
  split; [exact Ok|]. intros u.
  destruct (Ok u) as (S1 & _). destruct (Hok u) as (S0 & _).
  exists (filter (fun x => x <? nslot s) (slots s' u)), (filter (fun x => nslot s <=? x) (slots s' u)).
  split; [apply sorted_split, S1|]. split.
  - apply sorted_incl_sublist; [eapply sublist_SS; [apply sublist_filter|exact S1]|exact S0|].
    intros x Hx. apply filter_In in Hx. destruct Hx as [Hx Hlt]. apply Old; [exact Hx|lia].
  - rewrite Forall_forall. intros x Hx. apply filter_In in Hx. lia.
Qed.

Lemma fresh_le1 a b x : 0 <= fresh a b x <= 1.
Proof. unfold fresh. destruct (_ && _); lia. Qed.

Lemma zsum_nonneg l : Forall (fun z => 0 <= z) l -> 0 <= zsum l.
Proof. induction 1; cbn; lia. Qed.

Lemma A_nonneg w s x : 0 <= A w s x.
Proof. unfold A. apply zsum_nonneg. rewrite Forall_forall. intros z Hz. apply in_map_iff in Hz. destruct Hz as (u & <- & _). apply c_nonneg. Qed.

Lemma A_ge w s x u : In u (unit_ids w) -> c (slots s u) x <= A w s x.
Proof.
  unfold A. induction (unit_ids w) as [|v us IH]; intros Hin; [destruct Hin|]. cbn.
  assert (0 <= zsum (map (fun u0 => c (slots s u0) x) us)).
  { apply zsum_nonneg. rewrite Forall_forall. intros z Hz. apply in_map_iff in Hz. destruct Hz as (u' & <- & _). apply c_nonneg. }
  destruct Hin as [->|Hin]; [lia|]. specialize (IH Hin). pose proof (c_nonneg (slots s v) x). lia.
Qed.

(* the exactly-once reading *)
Corollary announced_exactly_once w seed d ops : NoDup (unit_ids w) ->
  let s := run w d (init_seed seed) ops in
  forall x,
    (* announced removed at most once, dispelled at most once and only if also removed *)
    R s x <= 1 /\ Dp s x <= R s x /\
    (* a slot that was given out and is not attached any more was announced exactly once *)
    (0 <= x < nslot s -> (forall u, ~ In x (slots s u)) -> R s x = 1) /\
    (* an attached one has not been announced *)
    (forall u, In x (slots s u) -> R s x = 0).
Proof.
  intros Hnd s x. destruct (run_invariants w seed d ops Hnd) as (Ok & B & D). fold s in Ok, B, D.
  pose proof (A_nonneg w s x). pose proof (fresh_le1 0 (nslot s) x). specialize (B x).
  assert (HR : 0 <= R s x) by apply c_nonneg.
  split; [lia|]. split; [apply D|]. split.
  - intros Hx Hno.
    assert (EA : A w s x = 0).
    { unfold A. assert (E : map (fun u => c (slots s u) x) (unit_ids w) = map (fun _ => 0) (unit_ids w)).
      { apply map_ext. intros u. apply c_notin, Hno. }
      rewrite E. clear. induction (unit_ids w); cbn; lia. }
    unfold fresh in B. replace ((0 <=? x) && (x <? nslot s)) with true in B by lia. lia.
  - intros u Hin.
    assert (Hv : In u (unit_ids w)).
    { apply valid_in. destruct (valid w u) eqn:V; [reflexivity|]. destruct (Ok u) as (_ & _ & E & _).
      unfold slots in Hin. rewrite (E V) in Hin. destruct Hin. }
    pose proof (A_ge w s x u Hv). apply c_in in Hin. lia.
Qed.

(* ------------------------------------------------------------------ *)
(* Stacking rules                                                       *)
(* ------------------------------------------------------------------ *)

Lemma find_first_split h p : forall l m, find_first h p l = Some m ->
  exists pre e post, l = pre ++ e :: post /\ snd e = m /\ p (h m) = true /\
    Forall (fun e' => p (h (snd e')) = false) pre /\
    forall new, replace_first h p new l = pre ++ (fst e, new) :: post.
Proof.
  induction l as [|a l IH]; intros m H; cbn in H; [discriminate|].
  destruct (p (h (snd a))) eqn:E.
  - injection H as <-. exists [], a, l. repeat split; auto. intros new. cbn. rewrite E. reflexivity.
  - destruct (IH m H) as (pre & e & post & -> & E1 & E2 & E3 & E4).
    exists (a :: pre), e, post. repeat split; auto. intros new. cbn. rewrite E, E4. reflexivity.
Qed.

Lemma find_first_none h p : forall l, find_first h p l = None -> Forall (fun e => p (h (snd e)) = false) l.
Proof.
  induction l as [|a l IH]; intros H; cbn in H; [constructor|].
  destruct (p (h (snd a))) eqn:E; [discriminate|]. constructor; auto.
Qed.

(* "add stacks up to the maximum" *)
Lemma stack_count_spec new prev : 0 <= prev -> 0 <= i_cnt new ->
  stack_count new prev = if 0 <? i_max new then Z.min (prev + i_cnt new) (i_max new) else prev + i_cnt new.
Proof.
  intros H1 H2. unfold stack_count.
  replace (prev <? 0) with false by lia. replace (i_cnt new <? 0) with false by lia. cbn.
  destruct (0 <? i_max new); cbn; [|reflexivity].
  destruct (i_max new <? prev + i_cnt new) eqn:E; lia.
Qed.

Definition others_unchanged (s s' : st) (t : Z) : Prop := forall u, u <> t -> tg s' u = tg s u.

Lemma setl_others s t l : others_unchanged s (setl s t l) t.
Proof. intros u Hu. cbn. assert (E : (u =? t) = false) by lia. rewrite E. reflexivity. Qed.

Section Rules.
  Variables (w : world) (X : runner).

  (* no instance of that name (and source) attached: every behaviour appends the new instance *)
  Theorem stack_appends s t k tag :
    (match k with
     | Multiple => True
     | ReplaceBySource => find_first (heap s) (by_name_src (i_name (heap s tag)) (i_src (heap s tag))) (tg s t) = None
     | _ => find_first (heap s) (by_name (i_name (heap s tag))) (tg s t) = None
     end) ->
    stack w X s t k tag = (append s t tag, tag, true) /\
    tg (append s t tag) t = tg s t ++ [(nslot s, tag)] /\ heap (append s t tag) = heap s.
  Proof.
    intros H. split; [|split; [cbn; rewrite Z.eqb_refl; reflexivity|reflexivity]].
    unfold stack. destruct k; try rewrite H; reflexivity.
  Qed.

  (* unique keeps the old instance: nothing changes at all *)
  Theorem stack_unique s t tag m :
    find_first (heap s) (by_name (i_name (heap s tag))) (tg s t) = Some m ->
    stack w X s t Unique tag = (s, m, false).
  Proof. intros H. unfold stack. rewrite H. reflexivity. Qed.

  (* multiple always adds *)
  Theorem stack_multiple s t tag : stack w X s t Multiple tag = (append s t tag, tag, true).
  Proof. reflexivity. Qed.

  (* replace variants swap the first match in place (same position, same slot) and stack *)
  Theorem stack_replace s t tag k p m :
    (k = Replace /\ p = by_name (i_name (heap s tag)) \/
     k = ReplaceBySource /\ p = by_name_src (i_name (heap s tag)) (i_src (heap s tag))) ->
    find_first (heap s) p (tg s t) = Some m ->
    exists pre e post s',
      stack w X s t k tag = (s', tag, true) /\
      tg s t = pre ++ e :: post /\ snd e = m /\ Forall (fun e' => p (heap s (snd e')) = false) pre /\
      tg s' t = pre ++ (fst e, tag) :: post /\ others_unchanged s s' t /\
      i_cnt (heap s' tag) = stack_count (heap s tag) (i_cnt (heap s m)) /\
      (forall x, x <> tag -> heap s' x = heap s x).
  Proof.
    intros Hk H. destruct (find_first_split _ _ _ _ H) as (pre & e & post & E0 & E1 & E2 & E3 & E4).
    exists pre, e, post.
    exists (setl (upd s tag (w_cnt (stack_count (heap s tag) (i_cnt (heap s m))))) t
                 (replace_first (heap s) p tag (tg s t))).
    split.
    { unfold stack. destruct Hk as [[-> ->]|[-> ->]]; rewrite H; reflexivity. }
    split; [exact E0|]. split; [exact E1|]. split; [exact E3|].
    split; [cbn [tg setl]; rewrite Z.eqb_refl; apply E4|].
    split; [intros u Hu; cbn [tg setl upd set_heap]; assert (E : (u =? t) = false) by lia; rewrite E; reflexivity|].
    split; [cbn [heap setl upd set_heap]; rewrite Z.eqb_refl; reflexivity|].
    intros x Hx. cbn [heap setl upd set_heap]. assert (E : (x =? tag) = false) by lia. rewrite E. reflexivity.
  Qed.

  (* refresh resets, prolong adds duration; the instance stays where it is and the extension
     is announced (listener, then event) *)
  Theorem stack_refresh s t tag m :
    find_first (heap s) (by_name (i_name (heap s tag))) (tg s t) = Some m ->
    stack w X s t Refresh tag =
      (emit_extdur w X (upd s m (w_dur (i_dur (heap s tag)))) t m (i_dur (heap s m)), m, false).
  Proof. intros H. unfold stack. rewrite H. reflexivity. Qed.

  Theorem stack_prolong s t tag m :
    find_first (heap s) (by_name (i_name (heap s tag))) (tg s t) = Some m ->
    stack w X s t Prolong tag =
      (emit_extdur w X (upd s m (w_dur (i_dur (heap s m) + i_dur (heap s tag)))) t m (i_dur (heap s m)), m, false).
  Proof. intros H. unfold stack. rewrite H. reflexivity. Qed.

  (* merge accumulates on the old instance: count by the stacking rule, the longer duration *)
  Theorem stack_merge s t tag m :
    find_first (heap s) (by_name (i_name (heap s tag))) (tg s t) = Some m -> m <> tag ->
    exists s', stack w X s t Merge tag = (s', m, true) /\ tg s' = tg s /\
      i_cnt (heap s' m) = stack_count (heap s tag) (i_cnt (heap s m)) /\
      i_dur (heap s' m) = Z.max (i_dur (heap s m)) (i_dur (heap s tag)) /\
      (forall x, x <> m -> heap s' x = heap s x).
  Proof.
    intros H Hne. unfold stack. rewrite H. eexists. split; [reflexivity|].
    destruct (i_dur (heap s m) <? i_dur (heap s tag)) eqn:E.
    - split; [reflexivity|]. cbn. rewrite !Z.eqb_refl. cbn. split; [reflexivity|]. split; [lia|].
      intros x Hx. assert (E' : (x =? m) = false) by lia. rewrite E'. reflexivity.
    - split; [reflexivity|]. cbn. rewrite !Z.eqb_refl. cbn. split; [reflexivity|]. split; [lia|].
      intros x Hx. assert (E' : (x =? m) = false) by lia. rewrite E'. reflexivity.
  Qed.

  (* ---------------------------------------------------------------- *)
  (* Dispel by first / last added follows attachment order              *)
  (* ---------------------------------------------------------------- *)
  Lemma select_mask_first h p : forall l n,
    select (mask_first h p n l) l = firstn n (filter (fun e => p (h (snd e))) l).
  Proof.
    induction l as [|e l IH]; intros n; cbn; [destruct n; reflexivity|].
    destruct n.
    - cbn. rewrite IH. reflexivity.
    - destruct (p (h (snd e))); cbn; rewrite IH; reflexivity.
  Qed.

  Lemma select_app {A} : forall (m1 : list bool) (l1 : list A) m2 l2, length m1 = length l1 ->
    select (m1 ++ m2) (l1 ++ l2) = select m1 l1 ++ select m2 l2.
  Proof.
    induction m1 as [|b m1 IH]; intros [|a l1] m2 l2 H; cbn in *; try discriminate; [reflexivity|].
    injection H as H. rewrite (IH _ _ _ H). destruct b; reflexivity.
  Qed.

  Lemma select_rev {A} : forall (m : list bool) (l : list A), length m = length l ->
    select (rev m) (rev l) = rev (select m l).
  Proof.
    induction m as [|b m IH]; intros [|a l] H; cbn in *; try discriminate; [reflexivity|].
    injection H as H. rewrite select_app by (rewrite !rev_length; exact H). rewrite (IH _ H).
    destruct b; cbn; [reflexivity|rewrite app_nil_r; reflexivity].
  Qed.

  Lemma select_mask_last h p l n :
    select (rev (mask_first h p n (rev l))) l = rev (firstn n (rev (filter (fun e => p (h (snd e))) l))).
  Proof.
    rewrite <- (rev_involutive l) at 2. rewrite select_rev by (rewrite mask_first_len; reflexivity).
    rewrite select_mask_first. f_equal. f_equal. clear. induction l as [|a l IH]; [reflexivity|].
    cbn. rewrite filter_app, IH. cbn. destruct (p (h (snd a))); [reflexivity|rewrite app_nil_r; reflexivity].
  Qed.

  Definition dispel_n (count : Z) (l : list (Z * Z)) : nat := if count <=? 0 then length l else Z.to_nat count.

  (* FIRST_ADDED: exactly the first n dispellable instances of the status in attachment order
     leave, the others keep their order, and the announcements are made in attachment order *)
  Theorem dispel_first s t status count :
    let l := tg s t in
    let chosen := firstn (dispel_n count l) (filter (fun e => dispellable w status (heap s (snd e))) l) in
    exists keep, dispel w X s t status 2 count = emit_dispel w X (setl s t keep) t chosen /\
      sublist keep l /\ forall x, c (map fst l) x = c (map fst keep) x + c (map fst chosen) x.
  Proof.
    intros l chosen.
    pose (mask := mask_first (heap s) (dispellable w status) (dispel_n count l) l).
    assert (Ec : chosen = select mask l) by (symmetry; apply select_mask_first).
    exists (select (map negb mask) l). split; [rewrite Ec; reflexivity|]. split; [apply sublist_select|].
    intros x. rewrite Ec. rewrite (c_select_split fst mask l x) by apply mask_first_len. lia.
  Qed.

  (* LAST_ADDED: the last n in attachment order *)
  Theorem dispel_last s t status count :
    let l := tg s t in
    let chosen := rev (firstn (dispel_n count l) (rev (filter (fun e => dispellable w status (heap s (snd e))) l))) in
    exists keep, dispel w X s t status 1 count = emit_dispel w X (setl s t keep) t chosen /\
      sublist keep l /\ forall x, c (map fst l) x = c (map fst keep) x + c (map fst chosen) x.
  Proof.
    intros l chosen.
    pose (mask := rev (mask_first (heap s) (dispellable w status) (dispel_n count l) (rev l))).
    assert (Ec : chosen = select mask l) by (symmetry; apply select_mask_last).
    exists (select (map negb mask) l). split; [rewrite Ec; reflexivity|]. split; [apply sublist_select|].
    intros x. rewrite Ec. rewrite (c_select_split fst mask l x) by (unfold mask; rewrite rev_length, mask_first_len, rev_length; reflexivity). lia.
  Qed.

  (* ---------------------------------------------------------------- *)
  (* Ticking                                                            *)
  (* ---------------------------------------------------------------- *)
  Definition tick_immediately (mom : moment) (i : inst) : bool :=
    match mom with Phase2End => i_tickimm i && i_ct2 i | Phase1End => i_tickimm i end.

  (* what one phase end does to one attached instance *)
  Theorem tick_inst_spec turn_now mom i :
    let i' := fst (tick_inst w turn_now mom i) in
    let stay := snd (tick_inst w turn_now mom i) in
    (* another tick moment: untouched *)
    (c_tick (getcfg w (i_name i)) <> mom -> i' = i /\ stay = true) /\
    (* the turn of application, unless told to tick immediately: untouched *)
    (turn_now = i_renew i -> tick_immediately mom i = false -> i' = i /\ stay = true) /\
    (* otherwise a non-negative duration drops by one, nothing else changes, and the instance
       leaves exactly when the duration reaches zero or the count is zero *)
    (c_tick (getcfg w (i_name i)) = mom -> (turn_now <> i_renew i \/ tick_immediately mom i = true) ->
       i_dur i' = (if 0 <=? i_dur i then Z.max 0 (i_dur i - 1) else i_dur i) /\
       i' = w_dur (i_dur i') i /\
       (stay = false <-> i_cnt i = 0 \/ 0 <= i_dur i <= 1)).
  Proof.
    cbn zeta. unfold tick_inst.
    destruct (moment_eqb (c_tick (getcfg w (i_name i))) mom) eqn:Em.
    - assert (Eq : c_tick (getcfg w (i_name i)) = mom) by (destruct (c_tick _), mom; cbn in Em; congruence).
      cbn [negb]. fold (tick_immediately mom i).
      destruct (turn_now =? i_renew i) eqn:Et; destruct (tick_immediately mom i) eqn:Ei; cbn [negb andb].
      all: split; [intros Hne; congruence|].
      all: split; [intros H1 H2; try discriminate; try lia; auto|].
      all: intros _ Hor; try (destruct Hor as [Hor|Hor]; [lia|discriminate]).
      all: destruct (0 <=? i_dur i) eqn:Ed; [destruct (i_dur i - 1 <=? 0) eqn:Ed2|]; cbn [fst snd].
      all: try (split; [cbn; lia|]; split; [destruct i; reflexivity|]).
      all: try (destruct (i_cnt i =? 0) eqn:Ec; cbn; split; intros; try lia; try discriminate; try reflexivity).
    - assert (Hne : c_tick (getcfg w (i_name i)) <> mom) by (destruct (c_tick _), mom; cbn in Em; congruence).
      cbn. split; [auto|]. split; [auto|]. intros; contradiction.
  Qed.
  (* countdown: on every eligible phase end a duration above one drops by one and the instance
     stays; at duration one it leaves; a negative (infinite) duration never moves - so an
     instance applied with duration d > 0 leaves at exactly the d-th eligible phase end *)
  Theorem tick_countdown turn_now mom i :
    c_tick (getcfg w (i_name i)) = mom -> (turn_now <> i_renew i \/ tick_immediately mom i = true) -> i_cnt i <> 0 ->
    (1 < i_dur i -> tick_inst w turn_now mom i = (w_dur (i_dur i - 1) i, true)) /\
    (i_dur i = 1 -> snd (tick_inst w turn_now mom i) = false) /\
    (i_dur i < 0 -> tick_inst w turn_now mom i = (i, true)).
  Proof.
    intros Hm Hor Hc. unfold tick_inst. rewrite Hm.
    assert (E0 : moment_eqb mom mom = true) by (destruct mom; reflexivity). rewrite E0. cbn [negb].
    fold (tick_immediately mom i).
    assert (E1 : (turn_now =? i_renew i) && negb (tick_immediately mom i) = false).
    { destruct Hor as [H|H]; [replace (turn_now =? i_renew i) with false by lia; reflexivity|rewrite H; apply andb_false_r]. }
    rewrite E1. assert (E2 : (i_cnt i =? 0) = false) by lia. rewrite E2. cbn [negb].
    split; [|split]; intros Hd.
    - replace (0 <=? i_dur i) with true by lia. replace (i_dur i - 1 <=? 0) with false by lia. reflexivity.
    - replace (0 <=? i_dur i) with true by lia. replace (i_dur i - 1 <=? 0) with true by lia. reflexivity.
    - replace (0 <=? i_dur i) with false by lia. reflexivity.
  Qed.
End Rules.

(* ------------------------------------------------------------------ *)
(* Counts: no attached instance is left with a stack count of zero      *)
(* ------------------------------------------------------------------ *)
(* attached tags are known and belong to the unit they are attached to *)
Definition Jb (s : st) : Prop := forall u e, In e (tg s u) -> snd e < ntag s /\ i_owner (heap s (snd e)) = u.
Definition zc (s : st) (u : Z) (e : Z * Z) : Prop := In e (tg s u) /\ i_cnt (heap s (snd e)) = 0.

(* [P]: the tags whose count the operation in progress may have brought to zero *)
Definition V (P : Z -> Prop) (s s' : st) : Prop :=
  Jb s ->
  Jb s' /\ ntag s <= ntag s' /\
  (forall m, m < ntag s -> i_name (heap s' m) = i_name (heap s m) /\ i_owner (heap s' m) = i_owner (heap s m)) /\
  (forall u e, zc s' u e -> zc s u e \/ P (snd e)).

Definition none : Z -> Prop := fun _ => False.

Lemma V_refl P s : V P s s.
Proof. intros J. split; [exact J|]. split; [lia|]. split; auto. Qed.

Lemma V_trans P s s1 s2 : V P s s1 -> V P s1 s2 -> V P s s2.
Proof.
  intros H1 H2 J. destruct (H1 J) as (J1 & A1 & A2 & A4). destruct (H2 J1) as (J2 & B1 & B2 & B4).
  split; [exact J2|]. split; [lia|]. split.
  { intros m Hm. destruct (A2 m Hm) as [E1 E2]. destruct (B2 m ltac:(lia)) as [F1 F2]. split; congruence. }
  intros u e H. destruct (B4 u e H) as [H'|H']; [apply A4, H'|right; exact H'].
Qed.

Lemma V_weaken (P P' : Z -> Prop) s s' : (forall m, P m -> P' m) -> V P s s' -> V P' s s'.
Proof.
  intros H HV J. destruct (HV J) as (J1 & A1 & A2 & A4). split; [exact J1|]. split; [exact A1|]. split; [exact A2|].
  intros u e Hz. destruct (A4 u e Hz) as [H'|H']; [left; exact H'|right; apply H, H'].
Qed.

Lemma V_frame s s' : tg s' = tg s -> heap s' = heap s -> ntag s <= ntag s' -> V none s s'.
Proof.
  intros E1 E2 E3 J. split.
  { intros u e He. rewrite E1 in He. destruct (J u e He) as [J1 J2]. rewrite E2. split; [lia|exact J2]. }
  split; [exact E3|]. split; [intros m _; rewrite E2; auto|].
  intros u e [H1 H2]. left. rewrite E1 in H1. rewrite E2 in H2. split; assumption.
Qed.

Lemma V_upd P s m f :
  (forall i, i_name (f i) = i_name i /\ i_owner (f i) = i_owner i) ->
  (i_cnt (f (heap s m)) = 0 -> i_cnt (heap s m) = 0 \/ P m) -> V P s (upd s m f).
Proof.
  intros Hf Hc J. split.
  { intros u e He. destruct (J u e He) as [J1 J2]. cbn [upd set_heap heap ntag]. split; [exact J1|].
    destruct (snd e =? m) eqn:E; [|exact J2]. apply Z.eqb_eq in E. rewrite E in *. rewrite (proj2 (Hf _)). exact J2. }
  split; [cbn; lia|]. split.
  { intros x _. cbn [upd set_heap heap]. destruct (x =? m) eqn:E; [|auto]. apply Z.eqb_eq in E. subst. apply Hf. }
  intros u e [H1 H2]. cbn [upd set_heap heap tg] in H1, H2. destruct (snd e =? m) eqn:E.
  - apply Z.eqb_eq in E. rewrite E in *. destruct (Hc H2) as [H|H]; [left; split; [exact H1|rewrite E; exact H]|right; exact H].
  - left. split; assumption.
Qed.

Lemma V_upd_dur s m d : V none s (upd s m (w_dur d)).
Proof. apply V_upd; [intros; split; reflexivity|cbn; auto]. Qed.
Lemma V_upd_ct2 s m b : V none s (upd s m (w_ct2 b)).
Proof. apply V_upd; [intros; split; reflexivity|cbn; auto]. Qed.
Lemma V_upd_cnt_nz s m x : x <> 0 -> V none s (upd s m (w_cnt x)).
Proof. intros Hx. apply V_upd; [intros; split; reflexivity|cbn; intros; contradiction]. Qed.
Lemma V_upd_cnt s m x : V (fun y => y = m) s (upd s m (w_cnt x)).
Proof. apply V_upd; [intros; split; reflexivity|cbn; auto]. Qed.

Lemma V_emit s e : V none s (emit s e).
Proof. apply V_frame; solve [reflexivity | cbn; lia]. Qed.

(* unit t's list becomes l: old entries, and possibly entries for a not yet attached tag *)
Lemma V_setl s t l tag :
  (forall e, In e l -> In e (tg s t) \/ (snd e = tag /\ tag < ntag s /\ i_owner (heap s tag) = t /\ i_cnt (heap s tag) <> 0)) ->
  V none s (setl s t l).
Proof.
  intros Hl J. split.
  { intros u e. cbn [tg setl heap ntag]. destruct (u =? t) eqn:E; [|apply J].
    apply Z.eqb_eq in E. subst. intros He. destruct (Hl e He) as [H|(H1 & H2 & H3 & _)]; [apply J, H|]. rewrite H1. auto. }
  split; [cbn; lia|]. split; [auto|].
  intros u e [H1 H2]. cbn [tg setl heap] in H1, H2. left. destruct (u =? t) eqn:E; [|split; assumption].
  apply Z.eqb_eq in E. subst. destruct (Hl e H1) as [H|(E1 & _ & _ & H4)]; [split; assumption|]. rewrite E1 in H2. contradiction.
Qed.

Lemma V_setl_sub s t l : (forall e, In e l -> In e (tg s t)) -> V none s (setl s t l).
Proof. intros H. apply (V_setl s t l 0). intros e He. left. apply H, He. Qed.

Lemma stack_count_nz new prev : i_cnt new <> 0 -> stack_count new prev <> 0.
Proof.
  intros H. unfold stack_count. destruct ((prev <? 0) || (i_cnt new <? 0)) eqn:E; [exact H|].
  destruct ((0 <? i_max new) && (i_max new <? prev + i_cnt new)) eqn:E2; lia.
Qed.

Lemma new_instance_facts cf tag t d renew :
  i_cnt (new_instance cf tag t d renew) <> 0 /\ i_owner (new_instance cf tag t d renew) = t.
Proof.
  split; [|reflexivity]. unfold new_instance. cbn [i_cnt].
  repeat match goal with |- context [if ?b then _ else _] => destruct b eqn:? end; lia.
Qed.

Section CountOps.
  Variable w : world.
  Variable X : runner.
  Hypothesis HX : forall s self acts, V none s (X s self acts).

  Lemma fold_V {B} (f : st -> B -> st) : (forall s b, V none s (f s b)) -> forall l s, V none s (fold_left f l s).
  Proof. intros Hf l. induction l as [|b l IH]; intros s; cbn; [apply V_refl|]. eapply V_trans; [apply Hf|apply IH]. Qed.

  Lemma call_V s k tag : V none s (call w X s k tag).
  Proof. unfold call. destruct (script w _ k); [|apply V_refl]. eapply V_trans; [apply V_emit|apply HX]. Qed.

  Lemma prop_change_V s t : V none s (prop_change w X s t).
  Proof. unfold prop_change. apply fold_V. intros; apply call_V. Qed.

  Lemma remove_one_V s t e : V none s (remove_one w X s t e).
  Proof.
    unfold remove_one. eapply V_trans; [|eapply V_trans; [apply call_V|apply V_emit]].
    destruct (i_stats _); [apply prop_change_V|apply V_refl].
  Qed.

  Lemma emit_remove_V l : forall s t, V none s (emit_remove w X s t l).
  Proof. intros s t. unfold emit_remove. apply fold_V. intros; apply remove_one_V. Qed.

  Lemma emit_dispel_V l : forall s t, V none s (emit_dispel w X s t l).
  Proof.
    intros s t. unfold emit_dispel. apply fold_V. intros s0 e. unfold dispel_one.
    eapply V_trans; [apply call_V|]. eapply V_trans; [apply V_emit|apply remove_one_V].
  Qed.

  Lemma emit_extdur_V s t m old : V none s (emit_extdur w X s t m old).
  Proof. unfold emit_extdur. eapply V_trans; [apply call_V|apply V_emit]. Qed.
  Lemma emit_extcnt_V s t m old : V none s (emit_extcnt w X s t m old).
  Proof. unfold emit_extcnt. eapply V_trans; [apply call_V|apply V_emit]. Qed.
  Lemma emit_add_V s t m ch : V none s (emit_add w X s t m ch).
  Proof. unfold emit_add. eapply V_trans; [apply call_V|apply V_emit]. Qed.

  Lemma remove_by_V s t p : V none s (remove_by w X s t p).
  Proof.
    unfold remove_by. eapply V_trans; [apply V_setl_sub|apply emit_remove_V].
    intros e He. apply filter_In in He. tauto.
  Qed.

  Lemma remove_self_V s tag : V none s (remove_self w X s tag).
  Proof.
    unfold remove_self. destruct (find_tag tag _) as [e|] eqn:E; [|apply V_refl].
    eapply V_trans; [apply V_setl_sub|apply emit_remove_V].
    intros x Hx. eapply sublist_in; [apply (find_tag_split _ _ _ E)|exact Hx].
  Qed.

  Lemma dispel_V s t status order count : V none s (dispel w X s t status order count).
  Proof.
    unfold dispel.
    assert (Hgen : forall s1 mask, tg s1 = tg s -> heap s1 = heap s -> ntag s1 = ntag s ->
              V none s (emit_dispel w X (setl s1 t (select (map negb mask) (tg s t))) t (select mask (tg s t)))).
    { intros s1 mask E1 E2 E3. eapply V_trans; [apply (V_frame s s1 E1 E2); lia|].
      eapply V_trans; [apply V_setl_sub|apply emit_dispel_V].
      intros e He. rewrite E1. eapply sublist_in; [apply sublist_select|exact He]. }
    destruct (order =? 2); [apply Hgen; reflexivity|].
    destruct (order =? 1); [apply Hgen; reflexivity|].
    destruct (order =? 3); [destruct (shuffle _ _); apply Hgen; reflexivity|apply Hgen; reflexivity].
  Qed.

  Lemma ext_dur_V s t n amt : V none s (ext_dur w X s t n amt).
  Proof.
    unfold ext_dur. apply fold_V. intros s1 m. destruct (_ =? n); [|apply V_refl].
    eapply V_trans; [apply V_upd_dur|apply emit_extdur_V].
  Qed.

  (* the first loop of ExtendCount may zero only counts of instances named n that were
     attached to t when it started *)
  Definition ext_body (t n amt : Z) (s : st) (m : Z) : st :=
    if i_name (heap s m) =? n then
      let i := heap s m in
      let old := i_cnt i in
      let c0 := old + amt in
      let c1 := if (0 <? i_max i) && (i_max i <? c0) then i_max i else c0 in
      emit_extcnt w X (upd s m (w_cnt c1)) t m old
    else s.

  Lemma ext_cnt_loop_V t n amt s0 : forall l s,
    (forall m, In m l -> In m (map snd (tg s0 t))) ->
    V (fun m => In m (map snd (tg s0 t)) /\ i_name (heap s0 m) = n) s0 s ->
    V (fun m => In m (map snd (tg s0 t)) /\ i_name (heap s0 m) = n) s0 (fold_left (ext_body t n amt) l s).
  Proof.
    induction l as [|m l IH]; intros s Hl Hacc; cbn [fold_left]; [exact Hacc|].
    apply IH; [intros x Hx; apply Hl; right; exact Hx|].
    intros J0. destruct (Hacc J0) as (Js & N1 & Im & Zs).
    assert (Hm : In m (map snd (tg s0 t))) by (apply Hl; left; reflexivity).
    assert (Hlt : m < ntag s0).
    { apply in_map_iff in Hm. destruct Hm as (e & <- & He). apply (J0 t e He). }
    assert (Hstep : V (fun x => In x (map snd (tg s0 t)) /\ i_name (heap s0 x) = n) s (ext_body t n amt s m)).
    { unfold ext_body. destruct (i_name (heap s m) =? n) eqn:E; [|apply V_refl].
      apply Z.eqb_eq in E. eapply V_trans; [|eapply V_weaken; [|apply emit_extcnt_V]; intros ? []].
      eapply V_weaken; [|apply V_upd_cnt]. intros x ->. split; [exact Hm|].
      rewrite <- (proj1 (Im m Hlt)). exact E. }
    exact (V_trans _ _ _ _ Hacc Hstep J0).
  Qed.

  Lemma ext_cnt_V s t n amt : V none s (ext_cnt w X s t n amt).
  Proof.
    unfold ext_cnt. fold (ext_body t n amt).
    set (P := fun m => In m (map snd (tg s t)) /\ i_name (heap s m) = n).
    pose proof (ext_cnt_loop_V t n amt s (map snd (tg s t)) s (fun m H => H) (V_refl P s)) as Hloop.
    set (s1 := fold_left (ext_body t n amt) (map snd (tg s t)) s) in *.
    intros J. destruct (Hloop J) as (J1 & N1 & Im1 & Z1).
    unfold remove_by. cbv zeta.
    set (pr := fun i => (i_name i =? n) && (i_cnt i <=? 0)).
    set (keep := filter (fun e => negb (pr (heap s1 (snd e)))) (tg s1 t)).
    set (s1' := setl s1 t keep).
    assert (Hsub : V none s1 s1') by (apply V_setl_sub; intros e He; apply filter_In in He; tauto).
    pose proof (emit_remove_V (filter (fun e => pr (heap s1 (snd e))) (tg s1 t)) s1' t) as Hrem.
    destruct (Hsub J1) as (J1' & N2 & Im2 & Z2). destruct (Hrem J1') as (J2 & N3 & Im3 & Z3).
    set (s2 := emit_remove w X s1' t (filter (fun e => pr (heap s1 (snd e))) (tg s1 t))) in *.
    assert (Hfin : Jb s2 /\ ntag s <= ntag s2 /\
                   (forall m, m < ntag s -> i_name (heap s2 m) = i_name (heap s m) /\ i_owner (heap s2 m) = i_owner (heap s m)) /\
                   (forall u e, zc s2 u e -> zc s u e \/ none (snd e))); [|exact Hfin].
    split; [exact J2|]. split; [lia|]. split.
    { intros m Hm. destruct (Im1 m Hm) as [A1 A2]. destruct (Im2 m ltac:(lia)) as [B1 B2]. destruct (Im3 m ltac:(lia)) as [C1 C2].
      split; congruence. }
    intros u e Hz. destruct (Z3 u e Hz) as [Hz1|[]]. left.
    destruct Hz1 as [Hin Hc]. cbn [tg setl heap s1'] in Hin, Hc.
    destruct (Z1 u e) as [Hold|[HP1 HP2]].
    { split; [|exact Hc]. destruct (u =? t) eqn:E; [|exact Hin]. apply Z.eqb_eq in E. subst. apply filter_In in Hin. tauto. }
    { exact Hold. }
    (* the tag was attached to t and named n at the start: it cannot have survived *)
    exfalso.
    assert (Hlt : snd e < ntag s).
    { apply in_map_iff in HP1. destruct HP1 as (e0 & E0 & He0). rewrite <- E0. apply (J t e0 He0). }
    assert (Hown : i_owner (heap s (snd e)) = t).
    { apply in_map_iff in HP1. destruct HP1 as (e0 & E0 & He0). rewrite <- E0. apply (J t e0 He0). }
    destruct (Im1 (snd e) Hlt) as [En Eo].
    destruct (u =? t) eqn:E.
    - apply Z.eqb_eq in E. subst u. unfold keep in Hin. apply filter_In in Hin. destruct Hin as [_ Hp].
      unfold pr in Hp. rewrite En, HP2, Z.eqb_refl, Hc in Hp. cbn in Hp. discriminate.
    - destruct (J1 u e Hin) as [_ Ho]. rewrite Eo, Hown in Ho. subst u. rewrite Z.eqb_refl in E. discriminate.
  Qed.

  Lemma fold_upd_V (g : st -> Z -> inst -> inst) :
    (forall s0 m i, i_name (g s0 m i) = i_name i /\ i_owner (g s0 m i) = i_owner i /\ (i_cnt (g s0 m i) = 0 -> i_cnt i = 0)) ->
    forall l s, V none s (fold_left (fun s m => upd s m (g s m)) l s).
  Proof.
    intros Hg. apply fold_V. intros s m. apply V_upd.
    - intros i. destruct (Hg s m i) as (A & B & _). auto.
    - intros H. left. apply (Hg s m (heap s m)), H.
  Qed.

  Lemma tick_inst_keeps turn_now mom i :
    i_name (fst (tick_inst w turn_now mom i)) = i_name i /\ i_owner (fst (tick_inst w turn_now mom i)) = i_owner i /\
    (i_cnt (fst (tick_inst w turn_now mom i)) = 0 -> i_cnt i = 0).
  Proof.
    unfold tick_inst. destruct (negb _); [auto|]. destruct (_ && _); [auto|].
    destruct (0 <=? i_dur i); [destruct (_ <=? 0)|]; cbn; auto.
  Qed.

  Lemma phase_end_V s t mom : V none s (phase_end w X s t mom).
  Proof.
    unfold phase_end.
    set (s1 := fold_left _ _ s).
    assert (H1 : V none s s1).
    { apply (fold_upd_V (fun s0 _ i => fst (tick_inst w (turn s0) mom i))). intros. apply tick_inst_keeps. }
    destruct (fold_upd_frame (fun s0 _ i => fst (tick_inst w (turn s0) mom i)) (map snd (tg s t)) s) as (E1 & _).
    fold s1 in E1.
    eapply V_trans; [exact H1|]. eapply V_trans; [apply V_setl_sub|apply emit_remove_V].
    intros e He. rewrite E1. apply filter_In in He. tauto.
  Qed.

  Lemma tick_V s t phase : V none s (tick w X s t phase).
  Proof.
    unfold tick.
    destruct (phase =? 2); [apply V_frame; solve [reflexivity | cbn; lia]|].
    destruct (phase =? 3).
    { eapply V_trans; [|apply phase_end_V]. apply fold_V. intros; apply call_V. }
    destruct (phase =? 6).
    { apply (fold_upd_V (fun _ _ => w_ct2 true)). intros. cbn. auto. }
    destruct (phase =? 8); [|apply V_refl].
    eapply V_trans; [|apply phase_end_V]. apply fold_V. intros; apply call_V.
  Qed.

  Lemma replace_first_in h p new : forall l e, In e (replace_first h p new l) -> In e l \/ snd e = new.
  Proof.
    induction l as [|a l IH]; cbn; [tauto|]. intros e. destruct (p _); cbn.
    - intros [<-|H]; [right; reflexivity|left; right; exact H].
    - intros [<-|H]; [left; left; reflexivity|]. destruct (IH e H); [left; right; assumption|right; assumption].
  Qed.

  (* the stacking step, for a prepared instance [tag] that is not attached yet *)
  Lemma stack_V s t k tag : tag < ntag s -> i_owner (heap s tag) = t -> i_cnt (heap s tag) <> 0 ->
    (forall u e, In e (tg s u) -> snd e <> tag) ->
    V none s (fst (fst (stack w X s t k tag))).
  Proof.
    intros Hlt Hown Hnz Hfresh.
    assert (Happ : V none s (append s t tag)).
    { unfold append. eapply V_trans; [apply (V_frame s (set_nslot s (nslot s + 1))); solve [reflexivity | cbn; lia]|].
      apply (V_setl _ t _ tag). intros e He. cbn [tg set_nslot] in He. apply in_app_or in He.
      destruct He as [He|[<-|[]]]; [left; exact He|right]. cbn. auto. }
    assert (Hrep : forall p m,
      V none s (setl (upd s tag (w_cnt (stack_count (heap s tag) (i_cnt (heap s m))))) t
                     (replace_first (heap s) p tag (tg s t)))).
    { intros p m. eapply V_trans; [apply V_upd_cnt_nz, stack_count_nz, Hnz|].
      apply (V_setl _ t _ tag). intros e He. apply replace_first_in in He. destruct He as [He|He]; [left; exact He|right].
      cbn [upd set_heap heap ntag]. rewrite Z.eqb_refl. cbn. repeat split; auto. apply stack_count_nz, Hnz. }
    unfold stack. destruct k; cbn [fst].
    - destruct (find_first _ _ _); cbn [fst]; [apply V_refl|exact Happ].
    - destruct (find_first _ _ _); cbn [fst]; [apply Hrep|exact Happ].
    - destruct (find_first _ _ _); cbn [fst]; [apply Hrep|exact Happ].
    - exact Happ.
    - destruct (find_first _ _ _); cbn [fst]; [|exact Happ]. eapply V_trans; [apply V_upd_dur|apply emit_extdur_V].
    - destruct (find_first _ _ _); cbn [fst]; [|exact Happ]. eapply V_trans; [apply V_upd_dur|apply emit_extdur_V].
    - destruct (find_first _ _ _) as [m|]; cbn [fst]; [|exact Happ].
      eapply V_trans; [apply V_upd_cnt_nz, stack_count_nz, Hnz|]. destruct (_ <? _); [apply V_upd_dur|apply V_refl].
  Qed.

  Lemma add_V s t d : V none s (fst (add w X s t d)).
  Proof.
    unfold add.
    set (s0 := set_ntag s (ntag s + 1)).
    assert (H0 : V none s s0) by (apply V_frame; solve [reflexivity | cbn; lia]).
    destruct (valid w t) eqn:Hv; cbn [negb]; [|exact H0].
    destruct (valid w (d_src d)); cbn [negb]; [|exact H0].
    assert (Hres : let s1 := fst (fst (attempt_resist w s0 t d (getcfg w (d_name d)))) in
                   tg s1 = tg s /\ heap s1 = heap s /\ ntag s1 = ntag s + 1).
    { unfold attempt_resist. destruct (d_chance d <=? 0)%float; [cbn; auto|].
      destruct (ustats _ (d_src d)) as [[[a b] e]|]; [|cbn; auto]. destruct (ustats _ t) as [[[a' b'] e']|]; [|cbn; auto].
      unfold rand_float. destruct (sm_next _) as [r x]. destruct (_ <? _)%float; cbn; auto. }
    cbn zeta in Hres. destruct (attempt_resist w s0 t d _) as [[s1 ch] res]. cbn [fst] in Hres. destruct Hres as (E1 & E2 & E3).
    assert (H1 : V none s s1) by (apply V_frame; [exact E1|exact E2|lia]).
    destruct res; cbn [fst]; [exact H1|].
    set (s2 := upd s1 (ntag s) _).
    intros J.
    (* the fresh instance is not attached anywhere *)
    assert (H2 : Jb s2 /\ ntag s <= ntag s2 /\
                 (forall m, m < ntag s -> i_name (heap s2 m) = i_name (heap s m) /\ i_owner (heap s2 m) = i_owner (heap s m)) /\
                 (forall u e, zc s2 u e -> zc s u e \/ none (snd e))).
    { split.
      - intros u e He. cbn [tg upd set_heap s2] in He. rewrite E1 in He. destruct (J u e He) as [J1 J2].
        cbn [ntag heap upd set_heap s2]. rewrite E3, E2. split; [lia|].
        assert (E : (snd e =? ntag s) = false) by lia. rewrite E. exact J2.
      - split; [cbn; lia|]. split.
        + intros m Hm. cbn [heap upd set_heap s2]. assert (E : (m =? ntag s) = false) by lia. rewrite E, E2. auto.
        + intros u e [Hi Hc]. cbn [tg heap upd set_heap s2] in Hi, Hc. rewrite E1 in Hi. left. split; [exact Hi|].
          destruct (J u e Hi) as [J1 _]. assert (E : (snd e =? ntag s) = false) by lia. rewrite E, E2 in Hc. exact Hc. }
    destruct H2 as (J2 & N2 & Im2 & Z2).
    destruct (new_instance_facts (getcfg w (d_name d)) (ntag s) t d (turn s1)) as [Fc Fo].
    assert (H3 : V none s2 (fst (fst (stack w X s2 t (c_stack (getcfg w (d_name d))) (ntag s))))).
    { apply stack_V.
      - cbn. lia.
      - cbn [heap upd set_heap s2]. rewrite Z.eqb_refl. exact Fo.
      - cbn [heap upd set_heap s2]. rewrite Z.eqb_refl. exact Fc.
      - intros u e He. cbn [tg upd set_heap s2] in He. rewrite E1 in He. destruct (J u e He). lia. }
    destruct (stack w X s2 t _ _) as [[s3 r] isnew]. cbn [fst] in *.
    destruct (H3 J2) as (J3 & N3 & Im3 & Z3).
    assert (H03 : Jb s3 /\ ntag s <= ntag s3 /\
                  (forall m, m < ntag s -> i_name (heap s3 m) = i_name (heap s m) /\ i_owner (heap s3 m) = i_owner (heap s m)) /\
                  (forall u e, zc s3 u e -> zc s u e \/ none (snd e))).
    { split; [exact J3|]. split; [lia|]. split.
      - intros m Hm. destruct (Im2 m Hm). destruct (Im3 m ltac:(lia)). split; congruence.
      - intros u e H. destruct (Z3 u e H) as [H'|[]]. apply Z2, H'. }
    destruct isnew; [|exact H03].
    assert (H4 : V none s3 (emit_add w X (if i_stats (heap s3 r) then prop_change w X s3 t else s3) t r ch)).
    { eapply V_trans; [|apply emit_add_V]. destruct (i_stats _); [apply prop_change_V|apply V_refl]. }
    destruct H03 as (_ & N03 & Im03 & Z03). destruct (H4 J3) as (J4 & N4 & Im4 & Z4).
    split; [exact J4|]. split; [lia|]. split.
    - intros m Hm. destruct (Im03 m Hm). destruct (Im4 m ltac:(lia)). split; congruence.
    - intros u e H. destruct (Z4 u e H) as [H'|[]]. apply Z03, H'.
  Qed.

  Lemma exec_op_V s o : V none s (fst (exec_op w X s o)).
  Proof.
    destruct o; cbn [exec_op fst].
    - apply add_V.
    - apply remove_by_V.
    - apply remove_by_V.
    - apply remove_self_V.
    - apply dispel_V.
    - apply ext_dur_V.
    - apply ext_cnt_V.
    - apply tick_V.
  Qed.

  Lemma run_acts_V s self acts : V none s (run_acts w X s self acts).
  Proof. unfold run_acts. apply fold_V. intros; apply exec_op_V. Qed.
End CountOps.

Lemma runscript_V w d : forall s self acts, V none s (runscript w d s self acts).
Proof.
  induction d as [|d IH]; intros s self acts; cbn [runscript]; [apply V_refl|].
  apply run_acts_V. exact IH.
Qed.

Lemma step_V w d s o : V none s (fst (step w d s o)).
Proof.
  unfold step. destruct o; try (apply exec_op_V, runscript_V).
  destruct (has_handle s tag); [apply exec_op_V, runscript_V|apply V_refl].
Qed.

Lemma run_V w d : forall ops s, V none s (run w d s ops).
Proof.
  induction ops as [|o ops IH]; intros s; cbn [run]; [apply V_refl|].
  eapply V_trans; [apply step_V|apply IH].
Qed.

(* between operations no attached instance has a stack count of zero: an instance whose
   count reaches zero leaves within the operation that brought it there; and every attached
   instance belongs to the unit it is attached to *)
Theorem count_never_zero w seed d ops :
  let s := run w d (init_seed seed) ops in
  forall u e, In e (tg s u) -> i_cnt (heap s (snd e)) <> 0 /\ i_owner (heap s (snd e)) = u.
Proof.
  intros s u e He.
  assert (J0 : Jb (init_seed seed)) by (intros x y []).
  destruct (run_V w d ops (init_seed seed) J0) as (J & _ & _ & Z). fold s in J, Z.
  split; [|apply (J u e He)].
  intros Hc. destruct (Z u e (conj He Hc)) as [[[] _]|[]].
Qed.

(* ---- the phase end as a whole: a pure part (durations, who stays) and the announcements ---- *)
Lemma fold_upd_turn (g : Z -> inst -> inst) : forall l s0, NoDup l ->
  let s1 := fold_left (fun s m => upd s m (g (turn s))) l s0 in
  turn s1 = turn s0 /\ tg s1 = tg s0 /\
  (forall m, In m l -> heap s1 m = g (turn s0) (heap s0 m)) /\
  (forall m, ~ In m l -> heap s1 m = heap s0 m).
Proof.
  induction l as [|a l IH]; intros s0 Hn; cbn [fold_left].
  - repeat split; auto. intros m [].
  - inversion Hn as [|? ? Hni Hn']; subst.
    destruct (IH (upd s0 a (g (turn s0))) Hn') as (E1 & E2 & E3 & E4). cbn zeta.
    split; [rewrite E1; reflexivity|]. split; [rewrite E2; reflexivity|]. split.
    + intros m [<-|Hm].
      * rewrite (E4 a Hni). cbn. rewrite Z.eqb_refl. reflexivity.
      * rewrite (E3 m Hm). cbn. assert (E : (m =? a) = false) by (apply Z.eqb_neq; intros ->; contradiction).
        rewrite E. reflexivity.
    + intros m Hm. rewrite (E4 m) by (intros Hx; apply Hm; right; exact Hx). cbn.
      assert (E : (m =? a) = false) by (apply Z.eqb_neq; intros ->; apply Hm; left; reflexivity).
      rewrite E. reflexivity.
Qed.

Definition pe_pure (w : world) (s : st) (t : Z) (mom : moment) : st :=
  setl (fold_left (fun s m => upd s m (fun i => fst (tick_inst w (turn s) mom i))) (map snd (tg s t)) s) t
       (filter (fun e => snd (tick_inst w (turn s) mom (heap s (snd e)))) (tg s t)).
Definition pe_expired (w : world) (s : st) (t : Z) (mom : moment) : list (Z * Z) :=
  filter (fun e => negb (snd (tick_inst w (turn s) mom (heap s (snd e))))) (tg s t).

(* durations drop at the phase end of the owner's turn: only the instances attached to the
   unit whose turn it is are touched, each according to [tick_inst_spec]; those that do not
   stay are announced removed in attachment order *)
Theorem phase_end_spec w X s t mom : lists_ok w s ->
  phase_end w X s t mom = emit_remove w X (pe_pure w s t mom) t (pe_expired w s t mom) /\
  let s1 := pe_pure w s t mom in
  turn s1 = turn s /\
  (forall u, u <> t -> tg s1 u = tg s u) /\
  tg s1 t = filter (fun e => snd (tick_inst w (turn s) mom (heap s (snd e)))) (tg s t) /\
  (forall e, In e (tg s t) -> heap s1 (snd e) = fst (tick_inst w (turn s) mom (heap s (snd e)))) /\
  (forall m, ~ In m (map snd (tg s t)) -> heap s1 m = heap s m).
Proof.
  intros Hok. split; [reflexivity|]. destruct (Hok t) as (_ & _ & _ & Hn & _).
  destruct (fold_upd_turn (fun tn i => fst (tick_inst w tn mom i)) (map snd (tg s t)) s Hn) as (E1 & E2 & E3 & E4).
  unfold pe_pure. cbn zeta. cbn [turn tg heap setl].
  split; [exact E1|]. split.
  { intros u Hu. assert (E : (u =? t) = false) by lia. rewrite E, E2. reflexivity. }
  split; [rewrite Z.eqb_refl; reflexivity|]. split.
  - intros e He. apply E3. apply in_map. exact He.
  - exact E4.
Qed.

(* turn start only advances the turn counter; action end only marks the attached instances of
   the acting unit as allowed to tick immediately in phase 2 *)
Theorem tick_other_phases w X s t :
  tick w X s t 2 = set_turn s (turn s + 1) /\
  (forall ph, ph <> 2 -> ph <> 3 -> ph <> 6 -> ph <> 8 -> tick w X s t ph = s) /\
  tg (tick w X s t 6) = tg s /\ evs (tick w X s t 6) = evs s.
Proof.
  split; [reflexivity|]. split.
  - intros ph H2 H3 H6 H8. unfold tick.
    replace (ph =? 2) with false by lia. replace (ph =? 3) with false by lia.
    replace (ph =? 6) with false by lia. replace (ph =? 8) with false by lia. reflexivity.
  - unfold tick. cbn [Z.eqb Pos.eqb].
    destruct (fold_upd_frame (fun _ _ => w_ct2 true) (map snd (tg s t)) s) as (E1 & _ & E3 & _). auto.
Qed.

(* ExtendCount: after the counts are updated (and announced), exactly the instances of that
   name whose count is not positive leave *)
Theorem ext_cnt_leaves w X s t n amt :
  exists s1, ext_cnt w X s t n amt = remove_by w X s1 t (fun i => (i_name i =? n) && (i_cnt i <=? 0)).
Proof. eexists. reflexivity. Qed.

(* ------------------------------------------------------------------ *)
(* Property-level statement (C05)                                       *)
(* ------------------------------------------------------------------ *)

(* (H) after any history of operations, at any listener nesting depth, for any catalog *)
Definition C05_history : Prop :=
  forall w seed d ops, NoDup (unit_ids w) ->
    let s := run w d (init_seed seed) ops in
    (* every unit's list is in order of attachment; a tag is attached at most once *)
    (forall u, StronglySorted Z.lt (slots s u) /\ NoDup (map snd (tg s u)) /\
               (valid w u = false -> tg s u = [])) /\
    (* every attachment slot ever given out is attached exactly once or announced exactly once *)
    (forall x, A w s x + R s x = fresh 0 (nslot s) x) /\
    (forall x, R s x <= 1 /\ Dp s x <= R s x /\
               (0 <= x < nslot s -> (forall u, ~ In x (slots s u)) -> R s x = 1) /\
               (forall u, In x (slots s u) -> R s x = 0)).

(* (O) every single operation (with everything its listeners do) preserves attachment order *)
Definition C05_order : Prop :=
  forall w d s o, NoDup (unit_ids w) -> lists_ok w s ->
    let s' := fst (step w d s o) in
    lists_ok w s' /\
    forall u, exists kept new, slots s' u = kept ++ new /\ sublist kept (slots s u) /\
                               Forall (fun x => nslot s <= x) new.

(* (C) between operations no attached instance has stack count zero (an instance whose count
   reaches zero leaves within that operation), and it is attached to the unit that owns it *)
Definition C05_counts : Prop :=
  forall w seed d ops,
    let s := run w d (init_seed seed) ops in
    forall u e, In e (tg s u) -> i_cnt (heap s (snd e)) <> 0 /\ i_owner (heap s (snd e)) = u.

Definition C05_statement : Prop := C05_history /\ C05_order /\ C05_counts.

Theorem C05_history_holds : C05_history.
Proof.
  intros w seed d ops Hnd s.
  destruct (run_invariants w seed d ops Hnd) as (Ok & B & _). fold s in Ok, B.
  split; [|split; [exact B|]].
  - intros u. destruct (Ok u) as (H1 & _ & H3 & H4 & _). auto.
  - intros x. apply (announced_exactly_once w seed d ops Hnd).
Qed.

Theorem C05_order_holds : C05_order.
Proof. intros w d s o Hnd Hok. apply step_order; assumption. Qed.

Theorem C05_counts_holds : C05_counts.
Proof. intros w seed d ops. apply count_never_zero. Qed.

Theorem C05_holds : C05_statement.
Proof. split; [exact C05_history_holds|split; [exact C05_order_holds|exact C05_counts_holds]]. Qed.

(* reachable states are well-formed, so (O) applies after any history *)
Theorem reachable_ok w seed d ops : NoDup (unit_ids w) -> lists_ok w (run w d (init_seed seed) ops).
Proof. intros Hnd. apply (run_invariants w seed d ops Hnd). Qed.

(* ---- non-vacuity: a history with stacking, a listener that removes itself, expiry and a
        dispel, on which things are attached, replaced, removed and announced ---- *)
Definition demo_world : world :=
  mkWd [ mkCfg Replace Phase2End 2 1 3 1 1 true false [(LAdd, []); (LRemove, [AAdd TOwner TOwner (mkD 1 0 0 1 false 0 0 0 false)])];
         mkCfg Multiple Phase1End 0 0 0 0 2 true false [(LDispel, [ARemoveSelf])] ]
       [(1, (0, 0, 0)%float); (2, (0, 0, 0)%float)].
Definition demo_ops : list op :=
  [ OAdd 1 (mkD 0 1 0 0 false 0 0 0 false); OAdd 1 (mkD 1 2 0 0 false 0 0 0 false);
    OAdd 1 (mkD 0 2 0 0 true 0 0 0 false); OAdd 1 (mkD 1 1 0 3 false 0 0 0 false);
    OTick 1 2; OTick 1 3; OTick 1 6; OTick 1 8; OTick 1 2; OTick 1 3; OTick 1 6; OTick 1 8;
    ODispel 1 2 2 1; ORemoveSelf 2 ].

Example demo_run :
  let s := run demo_world 2 (init_seed 7) demo_ops in
  map snd (tg s 1) = [3; 4] /\ slots s 1 = [2; 3] /\ nslot s = 4 /\
  rev (rem_slots (evs s)) = [0; 1] /\ dsp_slots (evs s) = [1] /\ length (evs s) = 12%nat.
Proof. vm_compute. repeat split. Qed.

(* ------------------------------------------------------------------ *)
(* What does NOT hold: an instance leaves when its duration reaches     *)
(* zero - that is true of ticking only                                  *)
(* ------------------------------------------------------------------ *)
(* ExtendDuration with a negative amount (and a Prolong re-application whose incoming duration
   is the infinite -1) does sentinel arithmetic: an attached instance can be left at duration
   0 until the next eligible phase end, or pushed below zero, where it never expires. *)
Definition dz_world : world := mkWd [mkCfg Multiple Phase2End 0 0 0 0 0 false false []] [(1, (0, 0, 0)%float)].

Definition dz_ops1 : list op := [OAdd 1 (mkD 0 1 0 2 false 0 0 0 false); OExtDur 1 0 (-2)].
Definition dz_ops2 : list op :=
  [OAdd 1 (mkD 0 1 0 2 false 0 0 0 false); OExtDur 1 0 (-3);
   OTick 1 2; OTick 1 8; OTick 1 2; OTick 1 8; OTick 1 2; OTick 1 8].

Theorem C05_duration_zero_refuted :
  (let s := run dz_world 0 (init_seed 1) dz_ops1 in exists e, In e (tg s 1) /\ i_dur (heap s (snd e)) = 0) /\
  (let s := run dz_world 0 (init_seed 1) dz_ops2 in exists e, In e (tg s 1) /\ i_dur (heap s (snd e)) = -1).
Proof.
  split.
  - eexists. vm_compute. split; [left; reflexivity|reflexivity].
  - eexists. vm_compute. split; [left; reflexivity|reflexivity].
Qed.
