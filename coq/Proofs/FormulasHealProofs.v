(* The translator tie, part 3 (C17): the heal amount of combat/heal.go (Gen/FormulasHeal.v) against
   Model/Heal.v.  See Proofs/FormulasInfoProofs.v. *)
From Coq Require Import List ZArith Bool Floats.
From SR Require Import Model.CombatCore Model.Heal.
From SR Require Gen.FormulasInfo Gen.FormulasAttr Gen.FormulasHeal.
From SR Require Import Proofs.FormulasInfoProofs Proofs.FormulasAttrCoreProofs.
Import ListNotations.
Open Scope Z_scope.

(* ------------------------------------------------------------------ combat/heal.go *)

Lemma swap_if_pair : forall (A : Type) (c : bool) (a b : A * A),
  (let '(o, h) := if c then a else b in (h, o)) = (if c then (snd a, fst a) else (snd b, fst b)).
Proof. intros A [] [] []; reflexivity. Qed.

Lemma gen_heal_amounts_is_model : forall N healer target terms flat,
  FormulasHeal.heal_amounts N healer target terms flat = heal_split N target (heal_raw N healer target terms flat).
Proof.
  intros. unfold FormulasHeal.heal_amounts. cbv zeta. rewrite swap_if_pair. reflexivity.
Qed.

Definition C17_formulas_statement : Prop :=
  (forall N healer target terms flat,
     FormulasHeal.heal_amounts N healer target terms flat = heal_split N target (heal_raw N healer target terms flat)) /\
  (forall N b p f, FormulasInfo.statCalc N b p f = statCalc N b p f) /\
  (forall N s, FormulasInfo.MaxHP N s = MaxHP N s) /\ (forall N s, FormulasInfo.ATK N s = ATK N s) /\
  (forall N s, FormulasInfo.DEF N s = DEF N s) /\ (forall N s, FormulasInfo.CurrentHP N s = CurrentHP N s) /\
  (forall N s, FormulasInfo.HealBoost N s = HealBoost N s) /\
  (forall N s p, FormulasInfo.GetProperty N s p = sget N s p) /\
  (forall N m p amt, FormulasInfo.PropMap_Modify N m p amt = modifyp N m p amt) /\
  (forall N st amount,
     FormulasAttr.modifyHPByAmount_ratio N st amount = clamp01 N (ndiv N (nadd N (CurrentHP N st) amount) (MaxHP N st))) /\
  FormulasInfo.HealFormula_BY_HEALER_ATK = 1 /\ FormulasInfo.HealFormula_BY_HEALER_DEF = 2 /\
  FormulasInfo.HealFormula_BY_HEALER_MAX_HP = 3 /\ FormulasInfo.HealFormula_BY_TARGET_MAX_HP = 4 /\
  FormulasInfo.HealFormula_BY_TARGET_LOST_HP = 5.

Lemma C17_formulas_hold : C17_formulas_statement.
Proof.
  unfold C17_formulas_statement.
  repeat match goal with |- _ /\ _ => split end; try reflexivity.
  exact gen_heal_amounts_is_model.
Qed.
