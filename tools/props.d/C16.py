CONFIG = {
    "id": "C16",
    "coq_targets": ["Gen/FormulasShield.v", "Proofs/FormulasShieldProofs.v", "Model/ShieldRe.v",
                    "Proofs/ShieldReProofs.v", "Props/C16.v", "Model/ShieldCheck.v"],
    "prop_files": ["Props/C16.v"],
    "gen": ["FormulasShield"],
    "components": [{
        "name": "shield", "modules": ["Model.Shield", "Model.ShieldRe", "Model.ShieldCheck"],
        "check": "check_case", "monitor": "monitor_case", "model_out": "model_out",
        "case_type": "case",
        "ops_path": [3],            # (unit pool, key pool, listener slots, ops)
        "n_quick": 1000, "n_thorough": 30000, "shard": 250,
    }],
    "rule": "histories WITH RE-ENTRANT LISTENERS on the real shield.Manager (real event.System, fake attribute.Getter "
            "returning real info.Stats): the input is 4-22 top-level calls (serve a stat vector; AddShield with 0-5 "
            "formula terms, flat value, source and target from 3 units, key from 4; RemoveShield; AbsorbDamage) plus, "
            "per event kind (ShieldAdded, ShieldRemoved, ShieldChange), a queue of listener scripts; the harness "
            "subscribes one listener per event that pops the next script and executes its operations ON THE SAME "
            "MANAGER while the emitting call is still running; scripts are mostly short (0-3 operations, empty about "
            "half of the time), nested at most 3 deep, 4-36 nested operations per history, and are aimed at what the "
            "outer call is working on: re-add the key being reported removed, remove what was just added / what a "
            "later event of the same call names (the strongest shield of the ShieldChange), hit the same unit again so "
            "that the same event fires inside itself, break every shield of the unit carrying the most while the outer "
            "call still holds removals to announce (a quarter of the histories use flat-only shields of one strength so "
            "that several break in one hit), touch another unit, change the stats getter; a fifth of the histories "
            "have no listener scripts (5-40 calls, as before listeners existed); 60% of the damage amounts are aimed at "
            "a present shield (exactly its strength, one ulp below/above, half, exactly / above the strongest), the "
            "rest from {0,-0,negative,small,large,denormal}; stats/coefficients/bonuses from small pools incl. 0 and "
            "negative ones.  Recorded and compared bit-exactly, in time order, nested calls included: every call "
            "entered (with its arguments), every listener invocation (all event fields) together with "
            "IsShielded/MaxShield/HasShield of every unit and key AS THE LISTENER SEES THEM, every return (return value "
            "of AbsorbDamage) with the same probe right after it.  The monitor reads the trace with a stack of open "
            "calls and demands, per call (outer or nested): the state at its first emission, the state before it, its "
            "own events and its return value satisfy the property's per-call predicate, and the call writes nothing "
            "after its first emission (the visible state at each later own event and at the return equals the last "
            "state observed).  A case is non-trivial when distinct as an input term",
    "trusted": [
        "TRANSLATED from the Go source on every run and proved equal to the model for every numeric instance and "
        "every argument (Gen/FormulasShield.v; Proofs/FormulasShieldProofs.v; theorem "
        "C16_model_formulas_are_the_source): shieldFormulaOrder, the strength formula of AddShield (per-key "
        "switch, flat value, ShieldBoost of the source, ShieldTaken of the target; the loop is checked to have the "
        "shape for k in order { v, ok := m[k]; if !ok {continue}; switch k {case K: acc += v * e} }), "
        "AbsorbDamage's loop body (both math.Dim uses, lowest remainder, strongest remaining shield) and its "
        "initial values; the fold of the generated body is proved to be what do_absorb computes",
        "RE-ENTRANT LISTENERS (Model/ShieldRe.v, hand-written, correspondence only): where each Emit sits relative to "
        "the stores of AddShield / RemoveShield / AbsorbDamage was read off the Go source (every store precedes the "
        "first emission of the call; AbsorbDamage announces its removals from a private list and builds ShieldChange "
        "and its return value from locals computed before the first emission) and is NOT translated: a source edit "
        "that moves a store behind an Emit, reuses a buffer across calls or recomputes an event field after listeners "
        "ran is seen by the correspondence on generated re-entrant histories, not by a proof obligation; listener "
        "behaviour is data (a queue of scripts of the manager's own four operations per event kind, an exhausted "
        "queue = a listener that does nothing); listeners of other components reacting to shield events and "
        "listeners that panic are outside the model",
        "still HAND-WRITTEN (correspondence only): replace-or-append in AddShield, removal of exhausted shields "
        "and the events, RemoveShield, the getters; the table model.ShieldFormula value -> constructor of "
        "Shield.fkind is part of the translator (checked against the constants' current values); the shield "
        "model's stats record carries ATK/DEF/HP base, ShieldBoost and ShieldTaken only (source.ATK() is statcalc "
        "of the base value)",
        "translator (harness/cmd/go2coq formulas.go, formulas_specs.go): trusted are the Go front end "
        "(go/packages, go/types, go/constant), the fixed whitelist and accessor tables (which Go field / method is "
        "which model accessor), the statement translation listed at the top of formulas.go, and that lit N n d "
        "(the correctly rounded quotient of two integers below 2^53) is the binary64 the Go compiler stores for "
        "the literal n/d; the translator fails closed (unknown construct, added or missing assignment, changed "
        "signature: go2coq exits 1 and the check reports a broken translator obligation)",
        "for functions that mix effects and arithmetic only the whitelisted statements are translated (the "
        "statements of one block that assign the named variables, their number fixed; every other assignment to "
        "those variables or to the inputs must be whitelisted verbatim): the ORDER of effects around the "
        "arithmetic (event emissions, service calls, which unit receives the energy) stays hand-written and is "
        "tied by correspondence only","algebraic clauses (strength formula, 'what exceeds the strongest shield') are proved for the same "
                "definitions instantiated at the real numbers (NumOps section); the binary64 instance is what is "
                "executed and corresponded; at binary64 the sign clauses are proved from FloatAxioms and the min/max "
                "duality is checked on every implementation trace by the monitor (finite values)",
                "math.Dim is modelled as `v := x - y; if v <= 0 {0} else {v}` (its Go 1.23 source)",
                "info.Stats.ATK/DEF/HP of the fake getter are statCalc(base, 0, 0+0), written into the model"],
    "assumptions": ["re-entrant theorems: the model run does not end OutOfFuel (fuel bounds the nesting depth; proved "
                    "unreachable when fuel exceeds the number of operations in all listener scripts, which is the fuel "
                    "the correspondence uses); per-call clauses hold at the call's COMMIT (state stored, before its first "
                    "emission): what a call leaves behind when it returns also contains what its listeners did "
                    "(C16_whole_call_meets_spec_refuted / _partial), and the payload of a later event of a call describes "
                    "the commit, not the moment of delivery (C16_change_event_is_current_refuted, "
                    "C16_removed_means_absent_refuted)",
                    "the formula map of a shield has distinct keys (it is a Go map)",
                    "strictly-positive survivors / non-negative strength need non-NaN inputs; a shield added with a "
                    "negative or NaN strength (negative coefficients or bonuses below -1) stays until the next absorb"],
    "manifest": {
        "level_text": "Histories WITH re-entrant listeners (listener scripts of the manager's own operations run inside "
                      "every emission, any nesting depth): the trace of every such history is proved to be explained by "
                      "flat atomic steps - every call, top-level or nested, is entered in the flat state of the calls "
                      "entered before it, with unique keys, meets the per-call specification there, delivers exactly the "
                      "events of that step to listeners that see that flat state, and returns the step's value; fuel above "
                      "the number of script operations never runs out; without scripts the model is the flat model. "
                      "Translator tie (way 1): the strength formula of AddShield and the loop body of AbsorbDamage are regenerated from shield/add.go and shield/absorb.go on every run (go2coq FormulasShield) and proved EQUAL to the model's definitions for all inputs; "
                      "Kernel-checked theorems over an executable Gallina model of the shield manager (all sequences of "
                      "add/remove/absorb with and without re-entrant listener scripts, every numeric instance for the "
                      "structural clauses, reals for the algebra, "
                      "binary64 for the signs), tied to the Go code by bit-exact correspondence on generated histories "
                      "and a trace monitor on the implementation.",
        "level_note": "go2coq FormulasShield translator + kernel-checked equalities generated = model; "
                      "Coq kernel; hand-written models Model/Shield.v (atomic calls) and Model/ShieldRe.v (emission points, listener scripts); correspondence harness; IEEE rounding gap between "
                      "the binary64 and real instances for the strength formula and the min/max duality.",
        "technique": "source-to-Coq translation of the formulas with equality proofs + "
                     "Coq proof (invariant over op lists, NumOps instances at float and R; listeners as data: script "
                     "queues interpreted with fuel, reduction of re-entrant traces to flat atomic steps by induction on "
                     "fuel) + model/implementation correspondence on re-entrant histories + stack monitor",
        "design_ref": "DESIGN.md section 7, C16",
    },
}
