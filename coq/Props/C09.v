(* C09 — Runs stop exactly at an exit condition and the result adds up. *)
From Coq Require Import List ZArith Bool.
From Coq Require Import Permutation.
From SR Require Import Base.CaseLib Base.NumOps Model.Turn Model.Sim Model.SimProtocol Proofs.SimProofs Proofs.SimResult Proofs.SimTotals.
Import ListNotations.

(* the exit check: loss when no character is left, otherwise win when no enemy is left,
   otherwise timeout iff floor(clock / 100) has reached the cycle limit, otherwise continue *)
Theorem C09_exit_check_reason : forall cfg s,
  match chars s, enemies s with
  | [], _ => exit_check cfg s = Stop (emit s [VTermination 1 (total_av s)])
  | _ :: _, [] => exit_check cfg s = Stop (emit s [VTermination 2 (total_av s)])
  | _ :: _, _ :: _ =>
      if reached_limit cfg s then exit_check cfg s = Stop (emit s [VTermination 3 (total_av s)])
      else exit_check cfg s = Ok s
  end.
Proof. exact exit_check_reason. Qed.
Print Assumptions C09_exit_check_reason.

(* every run that returns a result stopped at an exit check: its last event is the Termination
   carrying the battle clock, which is the total action value of the result *)
Theorem C09_total_av_is_clock : forall cfg fuel s, start cfg fuel = Stop s ->
  exists r, last (trace s) VInitialize = VTermination r (total_av s).
Proof. exact result_av_is_clock. Qed.
Print Assumptions C09_total_av_is_clock.

(* the hit subscriber: totals grow by exactly the hit's damage on the defender's side, the two
   per-cycle series keep equal lengths and the current cycle's entry holds the running total *)
Theorem C09_hit_recording : record_hit_statement.
Proof. exact record_hit_spec. Qed.
Print Assumptions C09_hit_recording.

(* exactly one Termination and nothing after it (from the protocol theorem) *)
Theorem C09_stops_once : forall cfg fuel s, start cfg fuel = Stop s -> one_termination (trace s) = true.
Proof. intros cfg fuel s H. apply protocol_one_termination. exact (C03_holds cfg fuel s H). Qed.
Print Assumptions C09_stops_once.

Theorem C09_nonvacuous :
  match start demo_cfg 200 with
  | Stop s => result_ok 1 2 (trace s) (res s) (total_av s)
  | _ => false
  end = true.
Proof. vm_compute. reflexivity. Qed.

(* ------------------------------------------------------------------------------------------ *)
(* Run level: for every configuration, content, decision sequence and fuel                     *)
(* ------------------------------------------------------------------------------------------ *)

(* (a) the totals are sums of hits.  The statistics subscriber runs when a hit's HitEnd is emitted,
   before the content's HitEnd listener; the log line is written when the emission completes.  So
   with nested hits the order of summation is not the order of the log, and binary64 addition is
   not associative: there is a list l of (defender, total damage) pairs, a permutation of the
   logged hits [hit_ends (trace s)] (the order of recording), such that the damage dealt is the
   left-to-right binary64 sum from 0 of the totals of the hits in l whose defender is an enemy
   unit of the battle, and the damage taken likewise for characters (a hit on an id that is not a
   unit of the battle counts on neither side) *)
Theorem C09_totals_are_sums_of_hits : forall cfg fuel s, start cfg fuel = Stop s ->
  exists l : list (Z * PrimFloat.float),
    Permutation l (hit_ends (trace s)) /\
    r_dealt (res s) = fsum (map snd (filter (fun dt => is_enemy s (fst dt)) l)) /\
    r_taken (res s) = fsum (map snd (filter (fun dt => is_char s (fst dt)) l)).
Proof. exact C09_totals_holds. Qed.
Print Assumptions C09_totals_are_sums_of_hits.

(* (a') a configuration without a content HitEnd listener: nothing runs between the statistics and
   the log line of a hit, so the totals are the left-to-right binary64 sums over the log itself *)
Theorem C09_totals_in_log_order_without_hit_end_listener : forall cfg fuel s, start cfg fuel = Stop s ->
  c_on_hit_end cfg = [] ->
  r_dealt (res s) = fsum (map snd (filter (fun dt => is_enemy s (fst dt)) (hit_ends (trace s)))) /\
  r_taken (res s) = fsum (map snd (filter (fun dt => is_char s (fst dt)) (hit_ends (trace s)))).
Proof. exact C09_totals_log_order_holds. Qed.
Print Assumptions C09_totals_in_log_order_without_hit_end_listener.

(* (b) the two per-cycle cumulative series have equal length >= 1; when the cycle index of the
   clock, max 0 (ceil(clock/100) - 1), never decreases from one turn start to the next
   ([cycles_mono], decidable on the trace; it follows from elapsed action values >= 0, property C02)
   both series end at the totals; when moreover every hit's total damage is >= 0 (so not NaN;
   +infinity allowed) both series are non-decreasing in the binary64 order *)
Theorem C09_series_end_at_totals_and_are_monotone : forall cfg fuel s, start cfg fuel = Stop s ->
  length (r_dealt_cyc (res s)) = length (r_taken_cyc (res s)) /\
  (1 <= length (r_dealt_cyc (res s)))%nat /\
  (cycles_mono (trace s) = true ->
     last (r_dealt_cyc (res s)) PrimFloat.zero = r_dealt (res s) /\
     last (r_taken_cyc (res s)) PrimFloat.zero = r_taken (res s) /\
     (forallb (fun dt => PrimFloat.leb PrimFloat.zero (snd dt)) (hit_ends (trace s)) = true ->
        nondecreasing (r_dealt_cyc (res s)) = true /\ nondecreasing (r_taken_cyc (res s)) = true)).
Proof. exact C09_series_holds. Qed.
Print Assumptions C09_series_end_at_totals_and_are_monotone.

(* (c) the total action value is the battle clock at the end: the clock of the last turn start
   (0 before the first), carried by the final Termination event *)
Theorem C09_total_av_is_final_clock : forall cfg fuel s, start cfg fuel = Stop s ->
  total_av s = last_tot PrimFloat.zero (trace s) /\
  exists r, last (trace s) VInitialize = VTermination r (total_av s).
Proof. exact C09_clock_holds. Qed.
Print Assumptions C09_total_av_is_final_clock.

(* the run continues past an exit check exactly while both sides have living units and
   floor(clock/100) is below the cycle limit; the result of a terminated run is, unchanged, the outcome
   of the first exit check that failed: the state that check was made in plus the one Termination
   event, with reason loss (1) when no character is left, else win (2) when no enemy is left, else
   timeout (3) with the limit reached ([clock_cycle x] is floor(x / 100), [exit_fails] spells the
   three cases out) *)
Theorem C09_stops_at_first_failing_exit_check :
  (forall cfg s0 s1, exit_check cfg s0 = Ok s1 ->
     s1 = s0 /\ chars s0 <> [] /\ enemies s0 <> [] /\ (clock_cycle (total_av s0) < c_cycle_limit cfg)%Z) /\
  (forall cfg s0 r, exit_fails cfg s0 r -> exit_check cfg s0 = Stop (emit s0 [VTermination r (total_av s0)])) /\
  (forall cfg fuel s, start cfg fuel = Stop s ->
     exists s0 r, exit_check cfg s0 = Stop s /\ s = emit s0 [VTermination r (total_av s0)] /\ exit_fails cfg s0 r).
Proof. exact C09_stops_at_first_failing_check_holds. Qed.
Print Assumptions C09_stops_at_first_failing_exit_check.

(* the reason in terms of what the trace shows (the monitor [reason_ok] evaluated on real traces), for
   configurations that describe their characters first (ids 1..nc, the harness convention): loss
   when every character has been announced dead, otherwise win when every enemy has, otherwise
   timeout with floor(clock/100) >= the cycle limit *)
Theorem C09_reason_of_termination : forall cfg fuel s, start cfg fuel = Stop s -> chars_first cfg ->
  reason_ok cfg (trace s) = true.
Proof. exact C09_reason_holds. Qed.
Print Assumptions C09_reason_of_termination.

(* the whole C09 monitor of the correspondence check (Model/SimCheck.v: monitor_c09 = one Termination,
   last; its reason; [result_ok]: totals = log-order sums of the hits on known units, series
   non-decreasing, equal length, ending at the totals, total AV = clock of the Termination) accepts
   every terminated model run, under exactly these assumptions: characters described first, no
   content HitEnd listener, the clock's cycle index never decreases, no negative or NaN hit total *)
Theorem C09_monitor_accepts_model_runs : forall cfg fuel s, start cfg fuel = Stop s ->
  chars_first cfg -> c_on_hit_end cfg = [] -> cycles_mono (trace s) = true ->
  forallb (fun dt => PrimFloat.leb PrimFloat.zero (snd dt)) (hit_ends (trace s)) = true ->
  one_termination (trace s) && reason_ok cfg (trace s) &&
  result_ok (Z.of_nat (length (filter d_char (c_units cfg)))) (Z.of_nat (length (c_units cfg))) (trace s) (res s) (total_av s) = true.
Proof. exact C09_monitor_holds. Qed.
Print Assumptions C09_monitor_accepts_model_runs.

(* non-vacuity of the run-level statements: nested hits from a HitEnd listener (depth 2), damage
   on both sides, three cycles, a monotone clock; the recorded order sums to the result's total
   while the log order sums to a different binary64 value (the monitor's totals clause tolerates exactly that) *)
Theorem C09_run_level_nonvacuous :
  match start demo_cfg9 300 with
  | Stop s =>
      (2 <=? hit_depth 0 0 (trace s))%nat &&
      PrimFloat.ltb PrimFloat.zero (r_dealt (res s)) && PrimFloat.ltb PrimFloat.zero (r_taken (res s)) &&
      (3 =? length (r_dealt_cyc (res s)))%nat && cycles_mono (trace s) &&
      forallb (fun dt => PrimFloat.leb PrimFloat.zero (snd dt)) (hit_ends (trace s)) &&
      feqb_bits (r_dealt (res s)) (fsum (map snd (filter (fun dt => is_enemy s (fst dt)) demo_cfg9_recorded))) &&
      feqb_bits (r_taken (res s)) (fsum (map snd (filter (fun dt => is_char s (fst dt)) demo_cfg9_recorded))) &&
      negb (feqb_bits (r_dealt (res s)) (sum_hits (fun i => (i <=? 1)%Z) false (trace s))) &&
      nondecreasing (r_dealt_cyc (res s)) && nondecreasing (r_taken_cyc (res s)) &&
      feqb_bits (last (r_dealt_cyc (res s)) PrimFloat.zero) (r_dealt (res s)) &&
      reason_ok demo_cfg9 (trace s) &&
      (* the trace monitor accepts it: its totals clause is "equal to the log-order sum up to rounding" *)
      result_ok 1 2 (trace s) (res s) (total_av s)
  | _ => false
  end = true.
Proof. vm_compute. reflexivity. Qed.

From SR Require Model.SimSkeleton Model.SimSkeletonInterp Gen.RunSkeleton Proofs.RunSkeletonProofs Proofs.RunSkeletonInterpProofs.

(* WHERE the exit checks sit, as the source says it.  `go2coq RunSkeleton` translates run.go, action.go and death.go
   into a first-order table of steps (Gen/RunSkeleton.v, regenerated on every run).  The table equals the pinned
   table Model/SimSkeleton.v - exitCheck is the tail call of endTurn (after the TurnEnd event), the early return of
   executeQueue (guard `phase < info.ActionEnd && !sim.IsCharacter(sim.Active)`, and a side wiped out at the head of
   a drain round), and follows the death check after every executed insert; its body is the pinned switch (loss,
   win, cycle limit, in this order) with Termination emitted before `return nil, nil`; Run stores TotalAV after the
   loop - and the interpretation of the generated state functions over the model's own exit_check is Sim.one_turn. *)
Theorem C09_run_skeleton_is_the_source : Proofs.RunSkeletonInterpProofs.run_skeleton_tie.
Proof. exact Proofs.RunSkeletonInterpProofs.run_skeleton_is_the_source. Qed.
Print Assumptions C09_run_skeleton_is_the_source.
