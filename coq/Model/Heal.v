(* Model of pkg/engine/combat/heal.go (Manager.Heal) on top of Model/CombatCore.v.
   Executable; no proofs here.

   One HealStart listener script per heal ([list adj]): it runs on every HealStart emission of
   the heal (once per target) before the amount is computed, exactly as a subscribed listener
   of the mutable HealStart handler does.  The computation reads the event AFTER the
   listeners ran (snapshots, formula map, flat value). *)
From Coq Require Import List ZArith Bool.
From SR Require Import Model.CombatCore.
Import ListNotations.
Open Scope Z_scope.

Section Heal.
  Variable N : NumOps.
  Notation num := (num N).
  Local Infix "+!" := (nadd N) (at level 50, left associativity).
  Local Infix "-!" := (nsub N) (at level 50, left associativity).
  Local Infix "*!" := (nmul N) (at level 40, left associativity).
  Local Infix "<!" := (nltb N) (at level 70).

  (* the stat a heal-formula key scales with (model.HealFormula): BY_HEALER_ATK 1,
     BY_HEALER_DEF 2, BY_HEALER_MAX_HP 3, BY_TARGET_MAX_HP 4, BY_TARGET_LOST_HP 5 *)
  Definition heal_stat (healer target : snap N) (k : Z) : option num :=
    match k with
    | 1 => Some (ATK N healer)
    | 2 => Some (DEF N healer)
    | 3 => Some (MaxHP N healer)
    | 4 => Some (MaxHP N target)
    | 5 => Some (MaxHP N target -! CurrentHP N target)     (* the target's MISSING HP *)
    | _ => None
    end.

  (* `for k, v := range baseHeal { switch k { ... base += v * stat } }` starting from the flat value *)
  Definition heal_base (healer target : snap N) (terms : pmap N) (flat : num) : num :=
    fold_left (fun b kv => match heal_stat healer target (fst kv) with
                           | Some x => b +! snd kv *! x
                           | None => b
                           end) terms flat.

  (* full amount before the overflow split *)
  Definition heal_raw (healer target : snap N) (terms : pmap N) (flat : num) : num :=
    heal_base healer target terms flat *! (c1 N +! HealBoost N healer) *! (c1 N +! sget N target pHealTaken).

  (* (applied, overflow) *)
  Definition heal_split (target : snap N) (raw : num) : num * num :=
    if MaxHP N target <! raw +! CurrentHP N target
    then let overflow := raw +! CurrentHP N target -! MaxHP N target in (raw -! overflow, overflow)
    else (raw, c0 N).

  Definition heal_event_stats (healer target : snap N) : list num * list num :=
    ([MaxHP N target; CurrentHP N target; sget N target pHealTaken],
     [ATK N healer; DEF N healer; MaxHP N healer; HealBoost N healer]).

  Definition heal_one (w : world N) (key source t : Z) (terms : pmap N) (flat : num) (snapf : bool)
             (adjs : list (adj N)) : world N * list (item N) :=
    let '(healer, target, terms', flat') :=
      apply_adjs N (stats_of N w source, stats_of N w t, terms, flat) adjs in
    let '(ts, hs) := heal_event_stats healer target in
    let start := IHealStart key (s_id N target) (s_id N healer) ts hs (sort_terms N terms') flat' snapf in
    let raw := heal_raw healer target terms' flat' in
    let '(applied, overflow) := heal_split target raw in
    let '(w1, evs) := modify_hp N w key t source applied false in
    (w1, start :: evs ++ [IHealEnd key t source applied overflow snapf]).

  Fixpoint heal_targets (w : world N) (key source : Z) (ts : list Z) (terms : pmap N) (flat : num)
           (snapf : bool) (adjs : list (adj N)) : world N * list (item N) :=
    match ts with
    | [] => (w, [])
    | t :: r =>
        let '(w1, e1) := heal_one w key source t terms flat snapf adjs in
        let '(w2, e2) := heal_targets w1 key source r terms flat snapf adjs in
        (w2, e1 ++ e2)
    end.

  (* Manager.Heal *)
  Definition heal (w : world N) (key source : Z) (ts : list Z) (terms : pmap N) (flat : num)
             (snapf : bool) (adjs : list (adj N)) : world N * list (item N) :=
    match ts with
    | [] => (w, [])
    | _ => if is_alive N w source then heal_targets w key source ts terms flat snapf adjs else (w, [])
    end.

  Inductive hop :=
  | HHeal (key source : Z) (targets : list Z) (terms : pmap N) (flat : num) (snapf : bool) (adjs : list (adj N))
  | HModHP (key target source : Z) (amount : num) (dmg : bool).   (* attribute.ModifyHPByAmount *)

  Definition hstep (w : world N) (o : hop) : world N * list (item N) :=
    match o with
    | HHeal key source ts terms flat snapf adjs => heal w key source ts terms flat snapf adjs
    | HModHP key target source amount dmg => modify_hp N w key target source amount dmg
    end.

  (* after every operation the getters of every unit are read *)
  Fixpoint hrun (w : world N) (ops : list hop) : world N * list (item N) :=
    match ops with
    | [] => (w, [])
    | o :: r =>
        let '(w1, e1) := hstep w o in
        let '(w2, e2) := hrun w1 r in
        (w2, e1 ++ map (unit_item N) (w_units N w1) ++ e2)
    end.

End Heal.

Arguments HHeal {N}. Arguments HModHP {N}.
