module verif/harness

go 1.23.1

require github.com/simimpact/srsim v0.0.0

replace github.com/simimpact/srsim => /repo
