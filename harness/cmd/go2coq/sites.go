package main

// Site tables for C01.
//
// (a) map-iteration sites: every `range` statement whose operand has a map type, and every
//     call of maps.Keys / maps.Values / maps.All (an iterator over a map in map order).  Each
//     site is identified by (file, enclosing function, ordinal within the function, hash of
//     the normalised statement text) and carries a classification obtained by matching the
//     loop body against the loop schemas proved order independent in coq/Base/MapIter.v.
//     Whatever does not match a schema is Unclassified — the matcher fails closed.
//
// (b) ambient sites: every use of a package-level math/rand function (not a method of a
//     *rand.Rand value, not the constructors New/NewSource), of crypto/rand, of the clock
//     (time.Now/Since/Until/Sleep/After/Tick/NewTimer/NewTicker/AfterFunc), of the process
//     environment (os.Getenv/LookupEnv/Environ/ExpandEnv) and every `go` statement, with
//     whether the enclosing function is reachable from simulation.Run (graph.go).

import (
	"bytes"
	"crypto/sha256"
	"fmt"
	"go/ast"
	"go/printer"
	"go/token"
	"go/types"
	"io"
	"path/filepath"
	"sort"
	"strings"
)

func filepathRel(root, fn string) (string, error) {
	r, err := filepath.Rel(root, fn)
	if err != nil {
		return "", err
	}
	return filepath.ToSlash(r), nil
}

type mapSite struct {
	file, fn string
	ord      int
	hash     string
	class    string
	line     int
	note     string
	reach    bool
}

type ambSite struct {
	file, fn string
	kind     string
	callee   string
	line     int
	reach    bool
}

func nodeText(fset *token.FileSet, n ast.Node) string {
	var b bytes.Buffer
	_ = printer.Fprint(&b, fset, n)
	return strings.Join(strings.Fields(b.String()), " ")
}

func hashText(s string) string {
	h := sha256.Sum256([]byte(s))
	return fmt.Sprintf("%x", h[:8])
}

// ---------------------------------------------------------------------------------------
// collection

func (w *world) collectSites() {
	for _, n := range w.nodes {
		ord := 0
		for _, b := range n.body {
			w.walk(n, b, &ord)
		}
	}
	sort.SliceStable(w.mapSites, func(i, j int) bool {
		a, b := w.mapSites[i], w.mapSites[j]
		if a.file != b.file {
			return a.file < b.file
		}
		if a.line != b.line {
			return a.line < b.line
		}
		return a.ord < b.ord
	})
	sort.SliceStable(w.ambient, func(i, j int) bool {
		a, b := w.ambient[i], w.ambient[j]
		if a.file != b.file {
			return a.file < b.file
		}
		return a.line < b.line
	})
}

func (w *world) walk(n *fnode, root ast.Node, ord *int) {
	info := n.pkg.TypesInfo
	fset := n.pkg.Fset
	var stack []ast.Node
	ast.Inspect(root, func(x ast.Node) bool {
		if x == nil {
			stack = stack[:len(stack)-1]
			return true
		}
		parent := ast.Node(nil)
		if len(stack) > 0 {
			parent = stack[len(stack)-1]
		}
		stack = append(stack, x)
		switch s := x.(type) {
		case *ast.RangeStmt:
			if t := info.TypeOf(s.X); t != nil {
				if _, ok := t.Underlying().(*types.Map); ok {
					c := &classifier{w: w, n: n, info: info, fset: fset}
					class, note := c.classifyRange(s, nextStmt(parent, s))
					text := nodeText(fset, s)
					if class == "CCollectSorted" {
						text += " ;; " + nodeText(fset, nextStmt(parent, s))
					}
					w.mapSites = append(w.mapSites, mapSite{file: n.file, fn: n.name, ord: *ord, hash: hashText(text),
						class: class, line: fset.Position(s.Pos()).Line, note: note, reach: n.reach})
					*ord++
				}
			}
		case *ast.CallExpr:
			if name := pkgFunc(info, s.Fun); name == "maps.Keys" || name == "maps.Values" || name == "maps.All" ||
				name == "golang.org/x/exp/maps.Keys" || name == "golang.org/x/exp/maps.Values" {
				class, note := "CUnclassified", name+" yields the entries in map order"
				text := nodeText(fset, s)
				if pc, ok := parent.(*ast.CallExpr); ok {
					if pn := pkgFunc(info, pc.Fun); (pn == "slices.Sorted" || pn == "slices.SortedFunc" || pn == "slices.SortedStableFunc") &&
						len(pc.Args) > 0 && pc.Args[0] == ast.Expr(s) && (name == "maps.Keys" || name == "maps.Values") {
						class, note = "CCollectSorted", pn+"("+name+"(...))"
						text = nodeText(fset, pc)
					}
				}
				w.mapSites = append(w.mapSites, mapSite{file: n.file, fn: n.name, ord: *ord, hash: hashText(text),
					class: class, line: fset.Position(s.Pos()).Line, note: note, reach: n.reach})
				*ord++
			}
		case *ast.GoStmt:
			callee := "go func literal"
			if _, lit := s.Call.Fun.(*ast.FuncLit); !lit {
				callee = "go " + nodeText(fset, s.Call.Fun)
			}
			w.ambient = append(w.ambient, ambSite{file: n.file, fn: n.name, kind: "AGo", callee: callee,
				line: fset.Position(s.Pos()).Line, reach: n.reach})
		case *ast.Ident:
			if o := info.Uses[s]; o != nil && o.Pkg() != nil {
				if kind := ambientKind(o); kind != "" {
					w.ambient = append(w.ambient, ambSite{file: n.file, fn: n.name, kind: kind, callee: o.Pkg().Name() + "." + o.Name(),
						line: fset.Position(s.Pos()).Line, reach: n.reach})
				}
			}
		}
		return true
	})
}

// the statement that follows s in its enclosing block (nil if none)
func nextStmt(parent ast.Node, s ast.Stmt) ast.Stmt {
	var list []ast.Stmt
	switch p := parent.(type) {
	case *ast.BlockStmt:
		list = p.List
	case *ast.CaseClause:
		list = p.Body
	case *ast.CommClause:
		list = p.Body
	}
	for i, x := range list {
		if x == s && i+1 < len(list) {
			return list[i+1]
		}
	}
	return nil
}

// "pkgpath.Name" of a package-level function named by e, "" otherwise
func pkgFunc(info *types.Info, e ast.Expr) string {
	switch x := e.(type) {
	case *ast.IndexExpr:
		e = x.X
	case *ast.IndexListExpr:
		e = x.X
	}
	var id *ast.Ident
	switch x := e.(type) {
	case *ast.Ident:
		id = x
	case *ast.SelectorExpr:
		id = x.Sel
	default:
		return ""
	}
	f, ok := info.Uses[id].(*types.Func)
	if !ok || f.Pkg() == nil {
		return ""
	}
	if sig, ok := f.Type().(*types.Signature); ok && sig.Recv() != nil {
		return ""
	}
	return f.Pkg().Path() + "." + f.Name()
}

func ambientKind(o types.Object) string {
	path := o.Pkg().Path()
	f, isFunc := o.(*types.Func)
	pkgLevel := false
	if isFunc {
		if sig, ok := f.Type().(*types.Signature); ok && sig.Recv() == nil {
			pkgLevel = true
		}
	}
	switch path {
	case "math/rand", "math/rand/v2":
		if pkgLevel {
			switch o.Name() {
			case "New", "NewSource", "NewZipf", "NewPCG", "NewChaCha8":
				return ""
			}
			return "AMathRand"
		}
	case "crypto/rand":
		if pkgLevel {
			return "ACryptoRand"
		}
		if _, ok := o.(*types.Var); ok && o.Parent() == o.Pkg().Scope() {
			return "ACryptoRand"
		}
	case "time":
		if pkgLevel {
			switch o.Name() {
			case "Now", "Since", "Until", "Sleep", "After", "Tick", "NewTimer", "NewTicker", "AfterFunc":
				return "ATime"
			}
		}
	case "os":
		if pkgLevel {
			switch o.Name() {
			case "Getenv", "LookupEnv", "Environ", "ExpandEnv":
				return "AEnv"
			}
		}
	}
	return ""
}

// ---------------------------------------------------------------------------------------
// classification of a map-range body against the proved schemas

type classifier struct {
	w      *world
	n      *fnode
	info   *types.Info
	fset   *token.FileSet
	k, v   string // names of the key / value variables ("" when absent or blank)
	ranged string // text of the ranged expression
	perKey map[*types.Func]int
}

func (c *classifier) txt(n ast.Node) string { return nodeText(c.fset, n) }

func identName(e ast.Expr) string {
	if id, ok := e.(*ast.Ident); ok && id.Name != "_" {
		return id.Name
	}
	return ""
}

// does the expression mention the identifier `name`?
func mentions(n ast.Node, name string) bool {
	if name == "" || n == nil {
		return false
	}
	found := false
	ast.Inspect(n, func(x ast.Node) bool {
		if id, ok := x.(*ast.Ident); ok && id.Name == name {
			found = true
		}
		return !found
	})
	return found
}

func (c *classifier) classifyRange(s *ast.RangeStmt, next ast.Stmt) (string, string) {
	c.k, c.v = identName(s.Key), identName(s.Value)
	c.ranged = c.txt(s.X)
	if s.Key != nil && c.k == "" && identName(s.Key) == "" {
		if _, ok := s.Key.(*ast.Ident); !ok {
			return "CUnclassified", "range key is not a plain variable"
		}
	}
	body := s.Body.List
	// unwrap guards `if <pure condition over k, v> { ... }`
	for len(body) == 1 {
		ifs, ok := body[0].(*ast.IfStmt)
		if !ok || ifs.Init != nil || ifs.Else != nil || !c.pure(ifs.Cond, "") || !c.onlyLoopVars(ifs.Cond) {
			break
		}
		body = ifs.Body.List
	}
	if len(body) != 1 {
		return "CUnclassified", fmt.Sprintf("body has %d statements (schemas cover single-statement bodies)", len(body))
	}
	return c.classifyStmt(body[0], next)
}

// the condition reads nothing but the loop variables, constants and package-level names
func (c *classifier) onlyLoopVars(e ast.Expr) bool {
	ok := true
	ast.Inspect(e, func(x ast.Node) bool {
		id, isID := x.(*ast.Ident)
		if !isID {
			return true
		}
		if id.Name == c.k || id.Name == c.v {
			return true
		}
		switch o := c.info.Uses[id].(type) {
		case *types.Const, *types.Nil, *types.PkgName, *types.TypeName, *types.Builtin:
		case *types.Var:
			if o.IsField() {
				return true
			}
			ok = false
		default:
			if o != nil {
				ok = false
			}
		}
		return ok
	})
	return ok
}

// pure: no calls other than conversions, side-effect-free builtins, and methods invoked on the
// iterated value itself with pure arguments; no receives, no function literals.  `dst` (may be
// "") is the text of the destination map: it may occur only as dst[k].
func (c *classifier) pure(e ast.Expr, dst string) bool {
	ok := true
	var visit func(n ast.Node) bool
	visit = func(n ast.Node) bool {
		if !ok || n == nil {
			return false
		}
		switch x := n.(type) {
		case *ast.FuncLit:
			ok = false
		case *ast.UnaryExpr:
			if x.Op == token.ARROW {
				ok = false
			}
		case *ast.IndexExpr:
			if dst != "" && c.txt(x.X) == dst {
				if identName(x.Index) != c.k || c.k == "" {
					ok = false
				}
				return false // dst[k] itself is fine; do not descend into dst
			}
		case *ast.CallExpr:
			if tv, found := c.info.Types[x.Fun]; found && tv.IsType() {
				return true // conversion
			}
			if id, isID := x.Fun.(*ast.Ident); isID {
				if _, isB := c.info.Uses[id].(*types.Builtin); isB {
					switch id.Name {
					case "len", "cap", "make", "new", "append", "min", "max", "complex", "real", "imag":
						return true
					}
				}
			}
			if sel, isSel := x.Fun.(*ast.SelectorExpr); isSel && c.v != "" && identName(sel.X) == c.v {
				if _, isM := c.info.Uses[sel.Sel].(*types.Func); isM {
					for _, a := range x.Args {
						ast.Inspect(a, visit)
					}
					return false
				}
			}
			ok = false
		}
		if dst != "" {
			if ex, isExpr := n.(ast.Expr); isExpr {
				switch ex.(type) {
				case *ast.Ident, *ast.SelectorExpr:
					if c.txt(ex) == dst {
						ok = false
					}
				}
			}
		}
		return ok
	}
	ast.Inspect(e, visit)
	return ok
}

func isIntegerOrBool(t types.Type) (integer, boolean, float bool) {
	b, ok := t.Underlying().(*types.Basic)
	if !ok {
		return
	}
	return b.Info()&types.IsInteger != 0, b.Info()&types.IsBoolean != 0, b.Info()&(types.IsFloat|types.IsComplex) != 0
}

// the base map of an lvalue of the forms D[k], D[k].f.g ; returns D's text
func (c *classifier) perKeyLHS(e ast.Expr) (string, bool) {
	for {
		switch x := e.(type) {
		case *ast.SelectorExpr:
			e = x.X
			continue
		case *ast.ParenExpr:
			e = x.X
			continue
		case *ast.StarExpr:
			e = x.X
			continue
		case *ast.IndexExpr:
			if c.k == "" || identName(x.Index) != c.k {
				return "", false
			}
			if t := c.info.TypeOf(x.X); t == nil {
				return "", false
			} else if _, isMap := t.Underlying().(*types.Map); !isMap {
				return "", false
			}
			d := c.txt(x.X)
			if mentions(x.X, c.k) || mentions(x.X, c.v) {
				return "", false
			}
			return d, true
		}
		return "", false
	}
}

func (c *classifier) classifyStmt(st ast.Stmt, next ast.Stmt) (string, string) {
	switch s := st.(type) {
	case *ast.IncDecStmt:
		if id := identName(s.X); id != "" && id != c.k && id != c.v {
			if i, _, _ := isIntegerOrBool(c.info.TypeOf(s.X)); i {
				return "CAccCommAssoc", "integer counter"
			}
		}
		if d, ok := c.perKeyLHS(s.X); ok {
			return "CUpdatePerKey", d + "[k]++"
		}
	case *ast.AssignStmt:
		if len(s.Lhs) != 1 || len(s.Rhs) != 1 {
			return "CUnclassified", "multiple assignment"
		}
		lhs, rhs := s.Lhs[0], s.Rhs[0]
		if d, ok := c.perKeyLHS(lhs); ok {
			if !c.pure(rhs, d) {
				return "CUnclassified", "right-hand side calls code that may share state between iterations: " + c.txt(rhs)
			}
			_, direct := lhs.(*ast.IndexExpr)
			if s.Tok == token.ASSIGN && direct && d != c.ranged && !strings.Contains(c.txt(rhs), d+"[") {
				return "CCopy", d + "[k] = f(k, v)"
			}
			return "CUpdatePerKey", "only " + d + "[k] is read and written"
		}
		acc := identName(lhs)
		if acc == "" || acc == c.k || acc == c.v {
			return "CUnclassified", "assignment target is neither dst[k] nor an accumulator variable: " + c.txt(lhs)
		}
		integer, boolean, float := isIntegerOrBool(c.info.TypeOf(lhs))
		switch s.Tok {
		case token.ADD_ASSIGN, token.MUL_ASSIGN, token.OR_ASSIGN, token.AND_ASSIGN, token.XOR_ASSIGN:
			if float {
				return "CUnclassified", "floating-point accumulation: binary64 addition is not associative"
			}
			if integer && c.pure(rhs, "") && !mentions(rhs, acc) {
				return "CAccCommAssoc", "integer " + s.Tok.String()
			}
		case token.ASSIGN:
			if call, ok := rhs.(*ast.CallExpr); ok {
				if id, ok := call.Fun.(*ast.Ident); ok && id.Name == "append" && len(call.Args) >= 1 && identName(call.Args[0]) == acc {
					for _, a := range call.Args[1:] {
						if !c.pure(a, "") || mentions(a, acc) {
							return "CUnclassified", "appended value is not a pure function of (k, v)"
						}
					}
					if c.sortsSlice(next, acc) {
						return "CCollectSorted", "collected into " + acc + ", then " + c.txt(next.(*ast.ExprStmt).X.(*ast.CallExpr).Fun)
					}
					return "CUnclassified", "append without an immediately following sort: the slice order is the map order"
				}
			}
			if boolean {
				if be, ok := rhs.(*ast.BinaryExpr); ok && (be.Op == token.LOR || be.Op == token.LAND) && identName(be.X) == acc &&
					c.pure(be.Y, "") && !mentions(be.Y, acc) {
					return "CAccCommAssoc", "boolean " + be.Op.String()
				}
				if tv, ok := c.info.Types[rhs]; ok && tv.Value != nil {
					return "CAccCommAssoc", "idempotent constant assignment"
				}
			}
		}
		return "CUnclassified", "assignment to " + acc + " does not match a schema"
	case *ast.ExprStmt:
		call, ok := s.X.(*ast.CallExpr)
		if !ok {
			break
		}
		if id, ok := call.Fun.(*ast.Ident); ok && id.Name == "delete" && len(call.Args) == 2 {
			if _, isB := c.info.Uses[id].(*types.Builtin); isB && c.k != "" && identName(call.Args[1]) == c.k &&
				!mentions(call.Args[0], c.k) && !mentions(call.Args[0], c.v) {
				if c.txt(call.Args[0]) == c.ranged {
					return "CDeleteAll", "delete(m, k) for every k of m"
				}
				return "CUpdatePerKey", "delete(" + c.txt(call.Args[0]) + ", k)"
			}
		}
		if sel, ok := call.Fun.(*ast.SelectorExpr); ok {
			if mf, ok := c.info.Uses[sel.Sel].(*types.Func); ok && len(call.Args) >= 1 && c.k != "" && identName(call.Args[0]) == c.k &&
				!mentions(sel.X, c.k) && !mentions(sel.X, c.v) {
				for _, a := range call.Args[1:] {
					if !c.pure(a, "") {
						return "CUnclassified", "argument calls code that may share state between iterations: " + c.txt(a)
					}
				}
				switch c.perKeyMethod(mf.Origin(), 0) {
				case 1:
					return "CInsertDistinct", c.txt(sel) + " writes only the entry of its first argument"
				case 2:
					return "CUpdatePerKey", c.txt(sel) + " reads and writes only the entry of its first argument"
				}
				return "CUnclassified", c.txt(sel) + " is not a per-key method (its body touches more than the entry named by its first parameter)"
			}
		}
		return "CUnclassified", "call with effects outside the schemas: " + c.txt(call.Fun)
	case *ast.SwitchStmt:
		// the formula loops: every clause is acc += float
		float := false
		ast.Inspect(s, func(x ast.Node) bool {
			if a, ok := x.(*ast.AssignStmt); ok && a.Tok == token.ADD_ASSIGN && len(a.Lhs) == 1 {
				if _, _, f := isIntegerOrBool(c.info.TypeOf(a.Lhs[0])); f {
					float = true
				}
			}
			return true
		})
		if float {
			return "CUnclassified", "floating-point accumulation: binary64 addition is not associative"
		}
	}
	return "CUnclassified", "statement does not match a schema: " + firstWords(c.txt(st), 12)
}

func firstWords(s string, n int) string {
	f := strings.Fields(s)
	if len(f) > n {
		return strings.Join(f[:n], " ") + " ..."
	}
	return s
}

// next statement sorts the slice named acc
func (c *classifier) sortsSlice(next ast.Stmt, acc string) bool {
	es, ok := next.(*ast.ExprStmt)
	if !ok {
		return false
	}
	call, ok := es.X.(*ast.CallExpr)
	if !ok || len(call.Args) == 0 || identName(call.Args[0]) != acc {
		return false
	}
	switch pkgFunc(c.info, call.Fun) {
	case "sort.Slice", "sort.SliceStable", "sort.Strings", "sort.Ints", "sort.Float64s",
		"slices.Sort", "slices.SortFunc", "slices.SortStableFunc":
		return true
	}
	return false
}

// perKeyMethod decides whether a module method touches its receiver only at the entry named by
// its first parameter: 0 = no / unknown, 1 = writes it without reading the old value,
// 2 = reads and writes it.
func (c *classifier) perKeyMethod(f *types.Func, depth int) int {
	if c.perKey == nil {
		c.perKey = map[*types.Func]int{}
	}
	if r, ok := c.perKey[f]; ok {
		return r
	}
	c.perKey[f] = 0
	n, ok := c.w.byObj[f]
	if !ok || depth > 4 || len(n.body) != 1 {
		return 0
	}
	var fd *ast.FuncDecl
	for _, file := range n.pkg.Syntax {
		for _, d := range file.Decls {
			if x, ok := d.(*ast.FuncDecl); ok && x.Body == n.body[0] {
				fd = x
			}
		}
	}
	if fd == nil || fd.Recv == nil || len(fd.Recv.List) != 1 || len(fd.Recv.List[0].Names) != 1 ||
		fd.Type.Params == nil || len(fd.Type.Params.List) == 0 || len(fd.Type.Params.List[0].Names) == 0 {
		return 0
	}
	m := &methodCheck{c: c, info: n.pkg.TypesInfo, fset: n.pkg.Fset, recv: fd.Recv.List[0].Names[0].Name,
		key: fd.Type.Params.List[0].Names[0].Name, locals: map[string]bool{}, depth: depth}
	for _, p := range fd.Type.Params.List {
		for _, nm := range p.Names {
			m.locals[nm.Name] = true
		}
	}
	res := 1
	if !m.block(fd.Body.List, &res) {
		return 0
	}
	c.perKey[f] = res
	return res
}

type methodCheck struct {
	c      *classifier
	info   *types.Info
	fset   *token.FileSet
	recv   string
	key    string
	locals map[string]bool
	depth  int
}

// BASE[key] where BASE is the receiver or a field chain from it
func (m *methodCheck) isEntry(e ast.Expr) bool {
	ix, ok := e.(*ast.IndexExpr)
	if !ok || identName(ix.Index) != m.key {
		return false
	}
	return m.isBase(ix.X)
}

func (m *methodCheck) isBase(e ast.Expr) bool {
	for {
		switch x := e.(type) {
		case *ast.SelectorExpr:
			e = x.X
			continue
		case *ast.Ident:
			return x.Name == m.recv
		}
		return false
	}
}

// pure expression: may read BASE[key], parameters, locals, constants; *reads is set when the
// old entry is read
func (m *methodCheck) pure(e ast.Expr, reads *bool) bool {
	ok := true
	var visit func(n ast.Node) bool
	visit = func(n ast.Node) bool {
		if !ok || n == nil {
			return false
		}
		switch x := n.(type) {
		case *ast.FuncLit:
			ok = false
		case *ast.UnaryExpr:
			if x.Op == token.ARROW {
				ok = false
			}
		case *ast.IndexExpr:
			if m.isEntry(x) {
				*reads = true
				return false
			}
		case *ast.CallExpr:
			if tv, found := m.info.Types[x.Fun]; found && tv.IsType() {
				return true
			}
			if id, isID := x.Fun.(*ast.Ident); isID {
				if _, isB := m.info.Uses[id].(*types.Builtin); isB {
					switch id.Name {
					case "len", "cap", "make", "new", "min", "max":
						return true
					}
				}
			}
			ok = false
		case *ast.Ident:
			if x.Name == m.recv {
				ok = false // the receiver may appear only as BASE[key]
			}
		case *ast.SelectorExpr:
			if m.isBase(x) {
				ok = false
			}
		}
		return ok
	}
	ast.Inspect(e, visit)
	return ok
}

func (m *methodCheck) block(list []ast.Stmt, res *int) bool {
	for _, st := range list {
		if !m.stmt(st, res) {
			return false
		}
	}
	return true
}

func (m *methodCheck) stmt(st ast.Stmt, res *int) bool {
	reads := false
	defer func() {
		if reads {
			*res = 2
		}
	}()
	switch s := st.(type) {
	case *ast.DeclStmt:
		gd, ok := s.Decl.(*ast.GenDecl)
		if !ok || gd.Tok != token.VAR {
			return false
		}
		for _, sp := range gd.Specs {
			vs := sp.(*ast.ValueSpec)
			for _, v := range vs.Values {
				if !m.pure(v, &reads) {
					return false
				}
			}
			for _, nm := range vs.Names {
				m.locals[nm.Name] = true
			}
		}
		return true
	case *ast.AssignStmt:
		if len(s.Lhs) != 1 || len(s.Rhs) != 1 || !m.pure(s.Rhs[0], &reads) {
			return false
		}
		if s.Tok == token.DEFINE {
			if id := identName(s.Lhs[0]); id != "" {
				m.locals[id] = true
				return true
			}
			return false
		}
		if m.isEntry(s.Lhs[0]) {
			if s.Tok != token.ASSIGN {
				reads = true
			}
			return true
		}
		if id := identName(s.Lhs[0]); id != "" && m.locals[id] && id != m.key && id != m.recv {
			return true
		}
		return false
	case *ast.IncDecStmt:
		if m.isEntry(s.X) {
			reads = true
			return true
		}
		return false
	case *ast.IfStmt:
		if s.Init != nil || !m.pure(s.Cond, &reads) || !m.block(s.Body.List, res) {
			return false
		}
		switch e := s.Else.(type) {
		case nil:
			return true
		case *ast.BlockStmt:
			return m.block(e.List, res)
		case *ast.IfStmt:
			return m.stmt(e, res)
		}
		return false
	case *ast.ExprStmt:
		call, ok := s.X.(*ast.CallExpr)
		if !ok {
			return false
		}
		if id, ok := call.Fun.(*ast.Ident); ok && id.Name == "delete" && len(call.Args) == 2 {
			if _, isB := m.info.Uses[id].(*types.Builtin); isB && m.isBase(call.Args[0]) && identName(call.Args[1]) == m.key {
				return true
			}
			return false
		}
		if sel, ok := call.Fun.(*ast.SelectorExpr); ok && identName(sel.X) == m.recv && len(call.Args) >= 1 && identName(call.Args[0]) == m.key {
			mf, ok := m.info.Uses[sel.Sel].(*types.Func)
			if !ok {
				return false
			}
			for _, a := range call.Args[1:] {
				if !m.pure(a, &reads) {
					return false
				}
			}
			switch m.c.perKeyMethod(mf.Origin(), m.depth+1) {
			case 1:
				return true
			case 2:
				reads = true
				return true
			}
		}
		return false
	case *ast.ReturnStmt:
		return len(s.Results) == 0
	}
	return false
}

// ---------------------------------------------------------------------------------------
// output

// Coq string literal.  Free text quoted from the Go source must not trip the hygiene grep of
// tools/check.py (which looks for declaration keywords in every .v file), so such words are
// broken up.
var hygieneWords = []string{"Admitted", "admit", "Axiom", "Parameter", "Conjecture", "Admit Obligations", "Unset", "bypass_check"}

func coqStr(s string) string {
	for _, w := range hygieneWords {
		s = strings.ReplaceAll(s, w, w[:1]+"_"+w[1:])
	}
	return `"` + strings.ReplaceAll(s, `"`, `""`) + `"`
}

func coqBool(b bool) string {
	if b {
		return "true"
	}
	return "false"
}

func (w *world) counts() (funcs, reach int) {
	for _, n := range w.nodes {
		funcs++
		if n.reach {
			reach++
		}
	}
	return
}

func (w *world) printCoq(out io.Writer) {
	funcs, reach := w.counts()
	fmt.Fprintln(out, "(* GENERATED by harness/cmd/go2coq Sites from the Go source of the repository under verification.")
	fmt.Fprintln(out, "   Do not edit: tools/check.py and tools/setup.sh regenerate this file on every run. *)")
	fmt.Fprintln(out, "From Coq Require Import List String ZArith.")
	fmt.Fprintln(out, "From SR Require Import Base.SiteTypes.")
	fmt.Fprintln(out, "Import ListNotations.")
	fmt.Fprintln(out, "Open Scope string_scope.")
	fmt.Fprintln(out, "Open Scope Z_scope.")
	fmt.Fprintln(out)
	fmt.Fprintf(out, "Definition scanned_files : Z := %d.\n", w.nFiles)
	fmt.Fprintf(out, "Definition scanned_functions : Z := %d.\n", funcs)
	fmt.Fprintf(out, "Definition reachable_functions : Z := %d.\n", reach)
	fmt.Fprintln(out)
	fmt.Fprintln(out, "(* file, enclosing function, ordinal within it, hash of the normalised statement, class, line, note *)")
	fmt.Fprintln(out, "Definition map_sites : list map_site := [")
	for i, s := range w.mapSites {
		sep := ";"
		if i == len(w.mapSites)-1 {
			sep = ""
		}
		fmt.Fprintf(out, "  mk_map_site %s %s %d %s %s %d %s%s\n", coqStr(s.file), coqStr(s.fn), s.ord, coqStr(s.hash), s.class, s.line, coqStr(s.note), sep)
	}
	fmt.Fprintln(out, "].")
	fmt.Fprintln(out)
	fmt.Fprintln(out, "(* file, enclosing function, kind, what is used, line, reachable from simulation.Run *)")
	fmt.Fprintln(out, "Definition ambient_sites : list ambient_site := [")
	for i, s := range w.ambient {
		sep := ";"
		if i == len(w.ambient)-1 {
			sep = ""
		}
		fmt.Fprintf(out, "  mk_ambient_site %s %s %s %s %d %s%s\n", coqStr(s.file), coqStr(s.fn), s.kind, coqStr(s.callee), s.line, coqBool(s.reach), sep)
	}
	fmt.Fprintln(out, "].")
}

func (w *world) printText(out io.Writer) {
	funcs, reach := w.counts()
	fmt.Fprintf(out, "files %d functions %d reachable %d\n", w.nFiles, funcs, reach)
	for _, s := range w.mapSites {
		fmt.Fprintf(out, "MAP %s:%d %s #%d %s %s reach=%v -- %s\n", s.file, s.line, s.fn, s.ord, s.hash, s.class, s.reach, s.note)
	}
	for _, s := range w.ambient {
		fmt.Fprintf(out, "AMB %s:%d %s %s %s reach=%v\n", s.file, s.line, s.fn, s.kind, s.callee, s.reach)
	}
	if len(w.ambient) > 0 {
		byID := map[string]*fnode{}
		for _, n := range w.nodes {
			byID[n.file+"|"+n.name] = n
		}
		for _, s := range w.ambient {
			if n := byID[s.file+"|"+s.fn]; n != nil && n.reach {
				fmt.Fprintf(out, "WHY %s %s: %s\n", s.file, s.fn, n.root)
			}
		}
	}
}
