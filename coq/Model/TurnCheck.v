(* Correspondence checker and property monitor for the turn manager (float instance). *)
From Coq Require Import List ZArith Bool Floats.
From SR Require Import Base.CaseLib Base.NumOps Model.Turn.
Import ListNotations.
Open Scope Z_scope.

Notation fop := (op FloatOps).
Notation fout := (out FloatOps).

Definition st_eqb (a b : Z * Z * float) : bool :=
  let '(i, g, v) := a in let '(i', g', v') := b in (i =? i') && (g =? g') && feqb_bits v v'.

Definition out_eqb (a b : fout) : bool :=
  match a, b with
  | EAdded ids st, EAdded ids' st' => list_eqb Z.eqb ids ids' && list_eqb st_eqb st st'
  | EStart id av st tot, EStart id' av' st' tot' =>
      (id =? id') && feqb_bits av av' && list_eqb st_eqb st st' && feqb_bits tot tot'
  | EReset id c st, EReset id' c' st' => (id =? id') && feqb_bits c c' && list_eqb st_eqb st st'
  | EGauge id o n st, EGauge id' o' n' st' => (id =? id') && (o =? o') && (n =? n') && list_eqb st_eqb st st'
  | ECost o n, ECost o' n' => feqb_bits o o' && feqb_bits n n'
  | EErr, EErr => true
  | EPanic, EPanic => true
  | _, _ => false
  end.

Definition case := (list fop * list (list fout))%type.

Definition model_out (c : case) : list (list fout) := snd (run FloatOps (init FloatOps) (fst c)).

(* a Go panic ends the run: nothing after the first panic is compared *)
Definition has_panic (l : list fout) : bool :=
  existsb (fun e => match e with EPanic => true | _ => false end) l.
Fixpoint upto_panic (a b : list (list fout)) : bool :=
  match a, b with
  | [], [] => true
  | x :: a', y :: b' => list_eqb out_eqb x y && (has_panic x || upto_panic a' b')
  | _, _ => false
  end.

Definition check_case (c : case) : bool := upto_panic (model_out c) (snd c).

(* ---- property monitor on the implementation's own outputs (float level) ----
   at every turn start: the acting unit heads the order with gauge 0, its reported AV is
   >= 0, no unit has a negative gauge, no unit's AV is smaller than... (after the decrement
   the head has AV 0 and all AVs are >= 0); gauge changes never report a negative new gauge
   and change only that unit's gauge (checked against the previous status); a reset changes
   only the reset unit's gauge.  NaN anywhere is a rejection. *)
Definition fnonneg (x : float) : bool := PrimFloat.leb 0 x.

Definition st_ok (st : list (Z * Z * float)) : bool :=
  forallb (fun '(_, g, v) => (0 <=? g) && fnonneg v) st.

Fixpoint gauge_in (st : list (Z * Z * float)) (id : Z) : option Z :=
  match st with
  | [] => None
  | (i, g, _) :: r => if i =? id then Some g else gauge_in r id
  end.

(* every unit other than [id] present in both statuses keeps its gauge *)
Definition others_unchanged (id : Z) (old new : list (Z * Z * float)) : bool :=
  forallb (fun '(i, g, _) => (i =? id) ||
     match gauge_in old i with Some g0 => g0 =? g | None => true end) new.

Fixpoint monitor_outs (prev : list (Z * Z * float)) (evs : list fout) : bool * list (Z * Z * float) :=
  match evs with
  | [] => (true, prev)
  | e :: r =>
      let '(ok, st) :=
        match e with
        | EAdded _ st => (st_ok st, st)
        | EStart id av st _ =>
            (st_ok st && fnonneg av &&
             match st with (i, g, v) :: _ => (i =? id) && (g =? 0) | [] => false end, st)
        | EReset id _ st => (st_ok st && others_unchanged id prev st, st)
        | EGauge id o n st =>
            (st_ok st && (0 <=? n) && others_unchanged id prev st &&
             match gauge_in st id with Some g => g =? n | None => false end, st)
        | EPanic => (false, prev)
        | _ => (true, prev)
        end in
      let '(ok', st') := monitor_outs st r in (ok && ok', st')
  end.

Definition is_remove_or_speed (o : fop) : bool :=
  match o with ORemove _ | OSetSpeed _ _ => true | _ => false end.

(* a removal or a speed change between two statuses legitimately changes membership / AVs
   (not gauges), so the previous status is simply carried over *)
Definition monitor_case (c : case) : bool :=
  fst (monitor_outs [] (concat (snd c))).

(* float-typed names for the harness-written case files (must stay at the end) *)
Module CaseNames.
  Definition OAdd : list (Z * float) -> fop := @Turn.OAdd FloatOps.
  Definition ORemove : Z -> fop := @Turn.ORemove FloatOps.
  Definition OStart : fop := @Turn.OStart FloatOps.
  Definition OReset : fop := @Turn.OReset FloatOps.
  Definition OSetGauge : Z -> float -> fop := @Turn.OSetGauge FloatOps.
  Definition OModNorm : Z -> float -> fop := @Turn.OModNorm FloatOps.
  Definition OModAV : Z -> float -> fop := @Turn.OModAV FloatOps.
  Definition OSetCost : float -> fop := @Turn.OSetCost FloatOps.
  Definition OModCost : float -> fop := @Turn.OModCost FloatOps.
  Definition OSetSpeed : Z -> float -> fop := @Turn.OSetSpeed FloatOps.
  Definition EAdded : list Z -> list (Z * Z * float) -> fout := @Turn.EAdded FloatOps.
  Definition EStart : Z -> float -> list (Z * Z * float) -> float -> fout := @Turn.EStart FloatOps.
  Definition EReset : Z -> float -> list (Z * Z * float) -> fout := @Turn.EReset FloatOps.
  Definition EGauge : Z -> Z -> Z -> list (Z * Z * float) -> fout := @Turn.EGauge FloatOps.
  Definition ECost : float -> float -> fout := @Turn.ECost FloatOps.
  Definition EErr : fout := @Turn.EErr FloatOps.
  Definition EPanic : fout := @Turn.EPanic FloatOps.
End CaseNames.
Export CaseNames.
