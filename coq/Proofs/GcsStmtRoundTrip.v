(* C14, statements: every statement form over the expression fragment - blocks, let, assignment,
   return, break/continue/fallthrough, if/else chains, while, for with optional
   init/condition/post, switch with cases and default, function declarations - is parsed back
   from its canonical token sequence into exactly the same tree. *)
From Coq Require Import List ZArith Bool String Ascii Lia.
From SR Require Import Base.CaseLib Model.GcsAst Model.GcsUnicode Model.GcsLex Model.GcsNum
  Model.GcsParse Model.GcsSpec Proofs.GcsRoundTrip.
Import ListNotations.
Open Scope Z_scope.

(* ---- sizes ---- *)
Fixpoint ssize (s : stmt) : nat :=
  match s with
  | SBlock b => S (bsize b)
  | SAssign _ v | SLet _ v | SReturn v => S (esize v)
  | SIf c b els => S (esize c + bsize b + ssize els)
  | SSwitch c cases def => S (esize c + list_sum (map csize cases) + bsize def)
  | SFn _ args body => S (List.length args + bsize body)
  | SWhile c b => S (esize c + bsize b)
  | SFor i c p b => S (ssize i + esize c + ssize p + bsize b)
  | _ => 1
  end
with csize (c : casestmt) : nat :=
  match c with Case cc b => S (esize cc + bsize b) end
with ndsize (x : node) : nat :=
  match x with NExpr e => S (esize e) | NStmt s => S (ssize s) end
with bsize (b : block) : nat :=
  match b with BNil => 1 | Block l => S (list_sum (map ndsize l)) end.

(* ---- the statements the theorem covers ---- *)
Definition is_ident_tok (t : token) : Prop := t_typ t = ItemIdentifier.
Definition simple_init (s : stmt) : Prop :=
  match s with
  | SNil => True
  | SLet id v | SAssign id v => is_ident_tok id /\ efrag v = true
  | _ => False
  end.
Definition simple_post (s : stmt) : Prop :=
  match s with
  | SNil => True
  | SAssign id v => is_ident_tok id /\ efrag v = true
  | _ => False
  end.

Fixpoint wf_stmt (s : stmt) : Prop :=
  match s with
  | SBlock b => wf_block b
  | SAssign id v | SLet id v => is_ident_tok id /\ efrag v = true
  | SReturn v => efrag v = true
  | SCtrl c => c <> InvalidCtrl
  | SIf c b els =>
      efrag c = true /\ wf_block b /\
      match els with SNil => True | SIf _ _ _ | SBlock _ => wf_stmt els | _ => False end
  | SSwitch c cases def =>
      (c = ENil \/ efrag c = true) /\
      (fix go (l : list casestmt) : Prop := match l with [] => True | x :: r => wf_case x /\ go r end) cases /\
      (def = BNil \/ wf_block def)
  | SFn fv args body => is_ident_tok fv /\ has_dup args = false /\ wf_block body
  | SWhile c b => efrag c = true /\ wf_block b
  | SFor init cond post body =>
      ((init = SNil /\ cond = ENil /\ post = SNil) \/
       (efrag cond = true /\ simple_init init /\ simple_post post)) /\ wf_block body
  | SNil | SCase _ => False
  end
with wf_case (c : casestmt) : Prop :=
  match c with Case cc b => efrag cc = true /\ wf_block b end
with wf_node (x : node) : Prop :=
  match x with NExpr e => efrag e = true | NStmt s => wf_stmt s end
with wf_block (b : block) : Prop :=
  match b with
  | BNil => False
  | Block l => (fix go (l : list node) : Prop := match l with [] => True | x :: r => wf_node x /\ go r end) l
  end.

Fixpoint all_nodes (l : list node) : Prop := match l with [] => True | x :: r => wf_node x /\ all_nodes r end.
Fixpoint all_cases (l : list casestmt) : Prop := match l with [] => True | x :: r => wf_case x /\ all_cases r end.
Lemma wf_block_nodes : forall l, wf_block (Block l) = all_nodes l.
Proof. reflexivity. Qed.

Section ST.
Variable inp : input.

(* ---- one unfolding of the statement functions ---- *)
Lemma p_block_eq : forall n ps, p_block inp (S n) ps =
  pb (_, s) <- pconsume inp ItemLeftBrace ps; p_block_loop inp n [] s.
Proof. reflexivity. Qed.
Lemma p_block_loop_eq : forall n acc ps, p_block_loop inp (S n) acc ps =
  pb (t, s) <- ppeek inp ps;
  if typ_is t ItemRightBrace then pb (_, s) <- pnext inp s; ROk (Block acc) s
  else if typ_is t ItemEOF then RErr s
  else pb (x, s) <- p_statement inp n s; p_block_loop inp n (block_append acc x) s.
Proof. reflexivity. Qed.
Lemma p_if_eq : forall n ps, p_if inp (S n) ps =
  pb (_, s) <- pnext inp ps;
  pb (c, s) <- p_expr inp n Lowest s;
  pb (t, s) <- ppeek inp s;
  if typ_is t ItemLeftBrace then
    pb (b, s) <- p_block inp n s;
    pb (t, s) <- ppeek inp s;
    if typ_is t KeywordElse then
      pb (_, s) <- pnext inp s;
      pb (x, s) <- p_statement inp n s;
      match is_if_or_block x with
      | Some e => ROk (SIf c b e) s
      | None => RErr s
      end
    else ROk (SIf c b SNil) s
  else RErr s.
Proof. reflexivity. Qed.
Lemma p_while_eq : forall n ps, p_while inp (S n) ps =
  pb (_, s) <- pnext inp ps;
  pb (c, s) <- p_expr inp n Lowest s;
  pb (t, s) <- ppeek inp s;
  if typ_is t ItemLeftBrace then pb (b, s) <- p_block inp n s; ROk (SWhile c b) s else RErr s.
Proof. reflexivity. Qed.
Lemma p_fn_eq : forall n ident ps, p_fn inp (S n) ident ps =
  pb (_, s) <- pnext inp ps;
  pb (fv, s) <- (if ident : bool then pb (t, s) <- pconsume inp ItemIdentifier s; ROk (tk t) s
                 else ROk (Tok ItemError EmptyString) s);
  pb (t, s) <- ppeek inp s;
  if typ_is t ItemLeftParen then
    pb (_, s) <- pnext inp s;
    pb (args, s) <- p_fn_args inp n [] s;
    pb (body, s) <- p_block inp n s;
    if has_dup args then RErr s else ROk (SFn fv args body) s
  else RErr s.
Proof. reflexivity. Qed.
Lemma p_fn_args_eq : forall n args ps, p_fn_args inp (S n) args ps =
  pb (t, s) <- pnext inp ps;
  if typ_is t ItemRightParen then ROk args s
  else if typ_is t ItemIdentifier then
    pb (c, s) <- ppeek inp s;
    if typ_is c ItemComma then
      pb (_, s) <- pnext inp s;
      pb (i, s) <- ppeek inp s;
      if typ_is i ItemIdentifier then p_fn_args inp n (args ++ [lt_val t]) s else RErr s
    else if typ_is c ItemRightParen then p_fn_args inp n (args ++ [lt_val t]) s
    else RErr s
  else RErr s.
Proof. reflexivity. Qed.
Lemma p_switch_eq : forall n ps, p_switch inp (S n) ps =
  pb (_, s) <- pconsume inp KeywordSwitch ps;
  pb (t, s) <- ppeek inp s;
  pb (c, s) <- (if typ_is t ItemLeftBrace then ROk ENil s else p_expr inp n Lowest s);
  pb (t, s) <- pnext inp s;
  if typ_is t ItemLeftBrace then p_switch_loop inp n c [] BNil s else RErr s.
Proof. reflexivity. Qed.
Lemma p_switch_loop_eq : forall n c cases def ps, p_switch_loop inp (S n) c cases def ps =
  pb (t, s) <- pnext inp ps;
  if typ_is t ItemRightBrace then ROk (SSwitch c cases def) s
  else if typ_is t KeywordCase then
    pb (cc, s) <- p_expr inp n Lowest s;
    pb (k, s) <- ppeek inp s;
    if typ_is k ItemColon then
      pb (body, s) <- p_case_body inp n s;
      p_switch_loop inp n c (cases ++ [Case cc body]) def s
    else RErr s
  else if typ_is t KeywordDefault then
    match def with
    | Block _ => RErr s
    | BNil =>
        pb (k, s) <- ppeek inp s;
        if typ_is k ItemColon then
          pb (body, s) <- p_case_body inp n s;
          p_switch_loop inp n c cases body s
        else RErr s
    end
  else RErr s.
Proof. reflexivity. Qed.
Lemma p_case_body_eq : forall n ps, p_case_body inp (S n) ps =
  pb (_, s) <- pnext inp ps; p_case_body_loop inp n [] s.
Proof. reflexivity. Qed.
Lemma p_case_body_loop_eq : forall n acc ps, p_case_body_loop inp (S n) acc ps =
  pb (t, s) <- ppeek inp ps;
  if typ_is t KeywordDefault || typ_is t KeywordCase || typ_is t ItemRightBrace then ROk (Block acc) s
  else if typ_is t ItemEOF then RErr s
  else pb (x, s) <- p_statement inp n s; p_case_body_loop inp n (block_append acc x) s.
Proof. reflexivity. Qed.

Lemma p_for_eq : forall n ps, p_for inp (S n) ps =
  pb (_, s) <- pnext inp ps;
  pb (t, s) <- ppeek inp s;
  if typ_is t ItemLeftBrace then pb (b, s) <- p_block inp n s; ROk (SFor SNil ENil SNil b) s
  else
    pb (decl, s) <-
      (pb (t, s) <- ppeek inp s;
       if typ_is t KeywordLet then ROk true s
       else if typ_is t ItemIdentifier then
         pb (_, s) <- pnext inp s; pb (a, s) <- ppeek inp s; ROk (typ_is a ItemAssign) (pbackup s)
       else ROk false s);
    pb (init, s) <-
      (if decl : bool then
         pb (t, s) <- ppeek inp s;
         pb (i, s) <- (if typ_is t KeywordLet then p_let inp n s else p_assign inp n s);
         pb (t, s) <- ppeek inp s;
         if typ_is t ItemTerminateLine then pb (_, s) <- pnext inp s; ROk i s else RErr s
       else ROk SNil s);
    pb (cond, s) <- p_expr inp n Lowest s;
    pb (t, s) <- ppeek inp s;
    pb (post, s) <-
      (if typ_is t ItemTerminateLine then
         pb (_, s) <- pnext inp s;
         pb (t, s) <- ppeek inp s;
         if typ_is t ItemLeftBrace then ROk SNil s else p_assign inp n s
       else ROk SNil s);
    pb (t, s) <- ppeek inp s;
    if typ_is t ItemLeftBrace then pb (b, s) <- p_block inp n s; ROk (SFor init cond post b) s
    else RErr s.
Proof. reflexivity. Qed.

Ltac stmt_case E H :=
  simpl; unfold ppeek in E; unfold ppeek;
  match goal with |- context [pnext inp ?ps] => destruct (pnext inp ps) as [t0 s0| | |] end;
  cbn [bindP] in *; try discriminate; inversion E; subst; rewrite H; reflexivity.

Lemma p_statement_if : forall n ps t s, ppeek inp ps = ROk t s -> lt_typ t = KeywordIf ->
  p_statement inp (S n) ps = pb (x, s) <- p_if inp n s; ROk (NStmt x) s.
Proof. intros n ps t s E H. stmt_case E H. Qed.
Lemma p_statement_while : forall n ps t s, ppeek inp ps = ROk t s -> lt_typ t = KeywordWhile ->
  p_statement inp (S n) ps = pb (x, s) <- p_while inp n s; ROk (NStmt x) s.
Proof. intros n ps t s E H. stmt_case E H. Qed.
Lemma p_statement_for : forall n ps t s, ppeek inp ps = ROk t s -> lt_typ t = KeywordFor ->
  p_statement inp (S n) ps = pb (x, s) <- p_for inp n s; ROk (NStmt x) s.
Proof. intros n ps t s E H. stmt_case E H. Qed.
Lemma p_statement_switch : forall n ps t s, ppeek inp ps = ROk t s -> lt_typ t = KeywordSwitch ->
  p_statement inp (S n) ps = pb (x, s) <- p_switch inp n s; ROk (NStmt x) s.
Proof. intros n ps t s E H. stmt_case E H. Qed.
Lemma p_statement_fn : forall n ps t s, ppeek inp ps = ROk t s -> lt_typ t = KeywordFn ->
  p_statement inp (S n) ps = pb (x, s) <- p_fn inp n true s; ROk (NStmt x) s.
Proof. intros n ps t s E H. stmt_case E H. Qed.
Lemma p_statement_block : forall n ps t s, ppeek inp ps = ROk t s -> lt_typ t = ItemLeftBrace ->
  p_statement inp (S n) ps = pb (b, s) <- p_block inp n s; ROk (NStmt (SBlock b)) s.
Proof. intros n ps t s E H. stmt_case E H. Qed.

Ltac rv := repeat rewrite app_nil_r; repeat (progress (cbn [rev app]) || rewrite rev_app_distr || rewrite <- app_assoc); reflexivity.

Ltac feq := first [ reflexivity | f_equal; first [ reflexivity | f_equal; first [ reflexivity | rv ] ] ].

Lemma expr_stop : forall e n te rest p c,
  efrag e = true -> Umatches (unparse_expr e) te -> stop 1 rest ->
  (4 * esize e + 8 <= n)%nat ->
  p_expr inp n Lowest (mkP p (te ++ rest) c) = ROk e (mkP p rest (rev te ++ c)).
Proof.
  intros e n te rest p c Hf Hm Hs Hn. unfold Lowest.
  apply (efrag_main inp e); try assumption; try lia.
  intros Hi. apply infix_level_gt1; assumption.
Qed.

(* tokens that can begin a statement *)
Definition stmt_start (k : toktype) : bool :=
  expr_start k ||
  match k with
  | KeywordLet | KeywordReturn | KeywordBreak | KeywordContinue | KeywordFallthrough | KeywordIf
  | KeywordWhile | KeywordFor | KeywordSwitch | KeywordFn | ItemLeftBrace => true
  | _ => false
  end.

Definition follow (rest : list ltoken) : Prop := exists t r, rest = t :: r /\ lt_typ t <> KeywordElse.

Lemma node_first_wf : forall x, wf_node x ->
  exists u us, unparse_node x = u :: us /\ forall t, Umatch u t -> stmt_start (lt_typ t) = true.
Proof.
  intros x Hw. destruct x as [e|st]; cbn [wf_node] in Hw.
  - cbn [unparse_node]. rewrite (efrag_not_fn e Hw).
    destruct (U_starts_strong e Hw) as (u & us & E & H). rewrite E. eexists _, _. split; [reflexivity|].
    intros t Hm. specialize (H t Hm). unfold stmt_start. rewrite H. reflexivity.
  - destruct st; cbn [wf_stmt] in Hw; try contradiction; cbn [unparse_node unparse_stmt].
    + destruct b as [|l]; [contradiction|]. cbn [unparse_block]. eexists _, _. split; [reflexivity|].
      intros t [A _]. rewrite A. reflexivity.
    + destruct Hw as [Hid _]. eexists _, _. split; [reflexivity|]. intros t [A _]. cbn in A. rewrite A, Hid. reflexivity.
    + eexists _, _. split; [reflexivity|]. intros t [A _]. rewrite A. reflexivity.
    + eexists _, _. split; [reflexivity|]. intros t [A _]. rewrite A. reflexivity.
    + destruct t; try contradiction; cbn [ctrl_tok app]; eexists _, _; (split; [reflexivity|]);
      intros t0 [A _]; rewrite A; reflexivity.
    + eexists _, _. split; [reflexivity|]. intros t [A _]. rewrite A. reflexivity.
    + eexists _, _. split; [reflexivity|]. intros t [A _]. rewrite A. reflexivity.
    + eexists _, _. split; [reflexivity|]. intros t [A _]. rewrite A. reflexivity.
    + eexists _, _. split; [reflexivity|]. intros t [A _]. rewrite A. reflexivity.
    + eexists _, _. split; [reflexivity|]. intros t [A _]. rewrite A. reflexivity.
Qed.

Definition NodeOK (x : node) : Prop := forall n ts rest p c,
  Umatches (unparse_node x) ts -> follow rest -> (5 * ndsize x + 20 <= n)%nat ->
  p_statement inp n (mkP p (ts ++ rest) c) = ROk x (mkP p rest (rev ts ++ c)).

Lemma stmt_start_props : forall k, stmt_start k = true ->
  k <> ItemRightBrace /\ k <> ItemEOF /\ k <> KeywordElse /\ k <> KeywordCase /\ k <> KeywordDefault.
Proof. intros k H. destruct k; try discriminate; repeat split; discriminate. Qed.

(* the statements of a block after '{', up to and including '}' *)
Lemma block_loop_ok : forall nodes acc n ts trb rest p c,
  all_nodes nodes -> Forall NodeOK nodes ->
  Umatches (flat_map unparse_node nodes) ts -> lt_typ trb = ItemRightBrace ->
  (5 * list_sum (map ndsize nodes) + 21 <= n)%nat ->
  p_block_loop inp n acc (mkP p (ts ++ trb :: rest) c) =
  ROk (Block (acc ++ nodes)) (mkP p rest (trb :: rev ts ++ c)).
Proof.
  induction nodes as [|x nodes IH]; intros acc n ts trb rest p c Hw Hok Hm Hb Hn.
  - cbn [flat_map] in Hm. apply Umatches_nil in Hm. subst ts. cbn [app rev].
    destruct n as [|n]; [lia|]. rewrite p_block_loop_eq, pk. cbn [bindP]. rewrite (typ_is_true trb _ Hb).
    rewrite nx. cbn [bindP]. rewrite app_nil_r. reflexivity.
  - cbn [all_nodes] in Hw. destruct Hw as [Hwx Hwn].
    inversion Hok as [|x' n' Hx Hns]; subst.
    cbn [flat_map] in Hm. apply Umatches_app in Hm. destruct Hm as (tx & ts' & -> & Hmx & Hms).
    cbn [map list_sum fold_right List.length] in Hn. fold (list_sum (map ndsize nodes)) in Hn.
    assert (Hpos : (1 <= ndsize x)%nat) by (destruct x; cbn [ndsize]; lia).
    destruct (node_first_wf x Hwx) as (u & us & Eu & Hu).
    pose proof Hmx as Hmx'. rewrite Eu in Hmx'. apply Umatches_cons in Hmx'.
    destruct Hmx' as (t1 & tx' & Etx & Hu1 & _). specialize (Hu t1 Hu1).
    destruct (stmt_start_props _ Hu) as (N1 & N2 & _).
    destruct n as [|n]; [lia|]. rewrite p_block_loop_eq. rewrite <- app_assoc.
    rewrite Etx at 1. cbn [app]. rewrite pk. cbn [bindP].
    rewrite (typ_is_false t1 _ N1), (typ_is_false t1 _ N2).
    change (t1 :: tx' ++ ts' ++ trb :: rest) with ((t1 :: tx') ++ ts' ++ trb :: rest). rewrite <- Etx.
    rewrite (Hx n tx (ts' ++ trb :: rest) p c Hmx); [| |lia].
    + cbn [bindP].
      rewrite (IH (block_append acc x) n ts' trb rest p (rev tx ++ c) Hwn Hns Hms Hb ltac:(lia)).
      unfold block_append. f_equal; [rewrite <- app_assoc; reflexivity|]. f_equal.
      rewrite rev_app_distr. rewrite <- app_assoc. reflexivity.
    + (* what follows the statement is not 'else' *)
      destruct nodes as [|y nodes2].
      * cbn [flat_map] in Hms. apply Umatches_nil in Hms. subst ts'. cbn [app].
        exists trb, rest. split; [reflexivity|]. rewrite Hb. discriminate.
      * cbn [all_nodes] in Hwn. destruct Hwn as [Hwy _].
        destruct (node_first_wf y Hwy) as (uy & usy & Euy & Huy).
        cbn [flat_map] in Hms. rewrite Euy in Hms. rewrite <- app_comm_cons in Hms.
        apply Umatches_cons in Hms. destruct Hms as (ty & ry & -> & Hy1 & _).
        cbn [app]. exists ty, (ry ++ trb :: rest). split; [reflexivity|].
        destruct (stmt_start_props _ (Huy ty Hy1)) as (_ & _ & N3 & _). exact N3.
Qed.

Lemma block_ok : forall nodes n ts rest p c,
  all_nodes nodes -> Forall NodeOK nodes ->
  Umatches (unparse_block (Block nodes)) ts ->
  (5 * bsize (Block nodes) + 20 <= n)%nat ->
  p_block inp n (mkP p (ts ++ rest) c) = ROk (Block nodes) (mkP p rest (rev ts ++ c)).
Proof.
  intros nodes n ts rest p c Hw Hok Hm Hn. cbn [unparse_block] in Hm.
  apply Umatches_cons in Hm. destruct Hm as (tlb & ts1 & -> & [Hl _] & Hm).
  apply Umatches_app in Hm. destruct Hm as (tn & ts2 & -> & Hmn & Hm).
  apply Umatches_cons in Hm. destruct Hm as (trb & ts3 & -> & [Hr _] & Hm). apply Umatches_nil in Hm. subst ts3.
  cbn [bsize] in Hn.
  destruct n as [|n]; [lia|]. rewrite p_block_eq. cbn [app]. rewrite (consume_ok inp _ p tlb _ c Hl). cbn [bindP].
  rewrite <- app_assoc. cbn [app].
  rewrite (block_loop_ok nodes [] n tn trb rest p (tlb :: c) Hw Hok Hmn Hr ltac:(lia)).
  cbn [app]. f_equal. f_equal. rv.
Qed.

Lemma all_nodes_forall : forall l (P : node -> Prop),
  all_nodes l -> (forall y, In y l -> wf_node y -> P y) -> Forall P l.
Proof.
  induction l as [|x l IH]; intros P Hw H; [constructor|].
  cbn [all_nodes] in Hw. destruct Hw as [Hx Hl]. constructor.
  - apply H; [left; reflexivity|exact Hx].
  - apply IH; [exact Hl|]. intros y Hy. apply H. right. exact Hy.
Qed.

(* the parameter list after '(' *)
Lemma fn_args_ok : forall args acc n ts rest p c,
  Umatches (sep_by COMMA (map (fun a => [uident a]) args) ++ [RP]) ts ->
  (2 * List.length args + 2 <= n)%nat ->
  p_fn_args inp n acc (mkP p (ts ++ rest) c) = ROk (acc ++ args) (mkP p rest (rev ts ++ c)).
Proof.
  induction args as [|a r IH]; intros acc n ts rest p c Hm Hn.
  - cbn [map sep_by app] in Hm. apply Umatches_cons in Hm. destruct Hm as (t & ts' & -> & [H1 _] & Hm).
    apply Umatches_nil in Hm. subst ts'.
    destruct n as [|n]; [lia|]. rewrite p_fn_args_eq. cbn [app]. rewrite nx. cbn [bindP].
    rewrite (typ_is_true t _ H1). rewrite app_nil_r. reflexivity.
  - cbn [List.length] in Hn. destruct r as [|b r].
    + cbn [map sep_by app] in Hm.
      apply Umatches_cons in Hm. destruct Hm as (ta & ts1 & -> & [Ha1 Ha2] & Hm).
      pose proof Hm as Hm0.
      apply Umatches_cons in Hm. destruct Hm as (tr & ts2 & -> & [Hr1 _] & Hm). apply Umatches_nil in Hm. subst ts2.
      destruct n as [|n]; [lia|]. rewrite p_fn_args_eq. cbn [app]. rewrite nx. cbn [bindP].
      rewrite (typ_is_false ta ItemRightParen) by (rewrite Ha1; discriminate).
      rewrite (typ_is_true ta _ Ha1). rewrite pk. cbn [bindP].
      rewrite (typ_is_false tr ItemComma) by (rewrite Hr1; discriminate).
      rewrite (typ_is_true tr _ Hr1).
      change (tr :: rest) with ([tr] ++ rest).
      rewrite (IH (acc ++ [lt_val ta]) n [tr] rest p (ta :: c)); [|exact Hm0|cbn [List.length]; lia].
      rewrite Ha2. f_equal. rewrite <- app_assoc. reflexivity.
    + change (sep_by COMMA (map (fun a0 => [uident a0]) (a :: b :: r)))
        with ([uident a] ++ COMMA :: sep_by COMMA (map (fun a0 => [uident a0]) (b :: r))) in Hm.
      cbn [app] in Hm.
      apply Umatches_cons in Hm. destruct Hm as (ta & ts1 & -> & [Ha1 Ha2] & Hm).
      apply Umatches_cons in Hm. destruct Hm as (tc & ts2 & -> & [Hc1 _] & Hm).
      pose proof Hm as Hm0.
      assert (Hb : exists tb ts3, ts2 = tb :: ts3 /\ lt_typ tb = ItemIdentifier).
      { destruct r as [|b2 r2].
        - cbn [map sep_by app] in Hm. apply Umatches_cons in Hm. destruct Hm as (tb & ts3 & -> & [Hb1 _] & _). eauto.
        - change (sep_by COMMA (map (fun a0 => [uident a0]) (b :: b2 :: r2)))
            with ([uident b] ++ COMMA :: sep_by COMMA (map (fun a0 => [uident a0]) (b2 :: r2))) in Hm.
          cbn [app] in Hm. apply Umatches_cons in Hm. destruct Hm as (tb & ts3 & -> & [Hb1 _] & _). eauto. }
      destruct Hb as (tb & ts3 & -> & Hb1).
      destruct n as [|n]; [lia|]. rewrite p_fn_args_eq. cbn [app]. rewrite nx. cbn [bindP].
      rewrite (typ_is_false ta ItemRightParen) by (rewrite Ha1; discriminate).
      rewrite (typ_is_true ta _ Ha1). rewrite pk. cbn [bindP].
      rewrite (typ_is_true tc _ Hc1). rewrite nx. cbn [bindP]. rewrite pk. cbn [bindP].
      rewrite (typ_is_true tb _ Hb1).
      change (tb :: ts3 ++ rest) with ((tb :: ts3) ++ rest).
      rewrite (IH (acc ++ [lt_val ta]) n (tb :: ts3) rest p (tc :: ta :: c)); [|exact Hm0|cbn [List.length] in *; lia].
      rewrite Ha2. f_equal; [rewrite <- app_assoc; reflexivity|]. f_equal. rv.
Qed.

Lemma In_ndsize : forall l y, In y l -> (ndsize y <= list_sum (map ndsize l))%nat.
Proof. intros l y H. apply (In_sum ndsize l y H). Qed.

Lemma stop_lbrace : forall t r, lt_typ t = ItemLeftBrace -> stop 1 (t :: r).
Proof. intros t r H. apply stop_tok. right. rewrite H. cbn. uprec. lia. Qed.

(* the nodes of a well-formed block are covered by the induction hypothesis *)
Lemma block_nodes_ok : forall K nodes,
  (forall y, (ndsize y < K)%nat -> wf_node y -> NodeOK y) ->
  (bsize (Block nodes) < K)%nat -> all_nodes nodes -> Forall NodeOK nodes.
Proof.
  intros K nodes Hsub Hk Hw. apply all_nodes_forall; [exact Hw|].
  intros y Hy Hwy. apply Hsub; [|exact Hwy]. pose proof (In_ndsize nodes y Hy). cbn [bsize] in Hk. lia.
Qed.

Lemma length_le_sum : forall nodes, (List.length nodes <= list_sum (map ndsize nodes))%nat.
Proof.
  induction nodes as [|x r IH]; [cbn; lia|]. cbn [List.length map list_sum fold_right].
  fold (list_sum (map ndsize r)). destruct x; cbn [ndsize]; lia.
Qed.

(* a block where every node is covered by the induction hypothesis *)
Lemma block_ok_K : forall K b n ts rest p c,
  (forall y, (ndsize y < K)%nat -> wf_node y -> NodeOK y) ->
  (bsize b < K)%nat -> wf_block b ->
  Umatches (unparse_block b) ts -> (5 * bsize b + 20 <= n)%nat ->
  p_block inp n (mkP p (ts ++ rest) c) = ROk b (mkP p rest (rev ts ++ c)).
Proof.
  intros K b n ts rest p c Hsub Hk Hw Hm Hn. destruct b as [|nodes]; [contradiction|].
  rewrite wf_block_nodes in Hw.
  apply block_ok; try assumption.
  apply (block_nodes_ok K); assumption.
Qed.

Section K.
Variable K : nat.
Hypothesis Hsub : forall y, (ndsize y < K)%nat -> wf_node y -> NodeOK y.

Lemma if_ok : forall c b els, (ndsize (NStmt (SIf c b els)) <= K)%nat -> wf_stmt (SIf c b els) ->
  NodeOK (NStmt (SIf c b els)).
Proof.
  intros cnd b els Hk Hw n ts rest p c Hm Hfol Hn.
  cbn [wf_stmt] in Hw. destruct Hw as (Hfc & Hwb & Hwe).
  cbn [ndsize ssize] in Hk, Hn.
  cbn [unparse_node unparse_stmt] in Hm.
  apply Umatches_cons in Hm. destruct Hm as (tif & ts1 & -> & [Hif _] & Hm).
  apply Umatches_app in Hm. destruct Hm as (tc & ts2 & -> & Hmc & Hm).
  apply Umatches_app in Hm. destruct Hm as (tb & te & -> & Hmb & Hme).
  destruct n as [|n]; [lia|]. cbn [app].
  rewrite (p_statement_if n _ tif _ (pk inp p tif _ c) Hif).
  destruct n as [|n]; [lia|]. rewrite p_if_eq, nx. cbn [bindP].
  (* the block starts with '{' *)
  destruct b as [|nodes]; [contradiction|].
  pose proof Hmb as Hmb0. cbn [unparse_block] in Hmb.
  apply Umatches_cons in Hmb. destruct Hmb as (tlb & tb' & -> & [Hlb _] & _).
  rewrite <- !app_assoc. cbn [app].
  rewrite (expr_stop cnd n tc (tlb :: tb' ++ te ++ rest) p (tif :: c) Hfc Hmc (stop_lbrace _ _ Hlb) ltac:(lia)).
  cbn [bindP]. rewrite pk. cbn [bindP]. rewrite (typ_is_true tlb _ Hlb).
  change (tlb :: tb' ++ te ++ rest) with ((tlb :: tb') ++ te ++ rest).
  rewrite (block_ok_K K (Block nodes) n (tlb :: tb') (te ++ rest) p (rev tc ++ tif :: c) Hsub ltac:(lia) Hwb Hmb0 ltac:(lia)).
  cbn [bindP].
  destruct els; try contradiction.
  - (* no else *)
    apply Umatches_nil in Hme. subst te. cbn [app].
    destruct Hfol as (tf & rf & -> & Hnf). rewrite pk. cbn [bindP]. rewrite (typ_is_false tf _ Hnf). cbn [bindP].
    f_equal. f_equal. rv.
  - (* else { ... } *)
    apply Umatches_cons in Hme. destruct Hme as (tel & te' & -> & [Hel _] & Hme).
    cbn [app]. rewrite pk. cbn [bindP]. rewrite (typ_is_true tel _ Hel). rewrite nx. cbn [bindP].
    assert (HN : NodeOK (NStmt (SBlock b))) by (apply Hsub; [cbn [ndsize ssize] in *; lia|exact Hwe]).
    rewrite (HN n te' rest p (tel :: rev (tlb :: tb') ++ rev tc ++ tif :: c) Hme Hfol ltac:(cbn [ndsize ssize] in *; lia)).
    cbn [bindP is_if_or_block]. cbn [bindP]. f_equal. f_equal. rv.
  - (* else if ... *)
    apply Umatches_cons in Hme. destruct Hme as (tel & te' & -> & [Hel _] & Hme).
    cbn [app]. rewrite pk. cbn [bindP]. rewrite (typ_is_true tel _ Hel). rewrite nx. cbn [bindP].
    assert (HN : NodeOK (NStmt (SIf c0 ifb els))) by (apply Hsub; [cbn [ndsize ssize] in *; lia|exact Hwe]).
    rewrite (HN n te' rest p (tel :: rev (tlb :: tb') ++ rev tc ++ tif :: c) Hme Hfol ltac:(cbn [ndsize ssize] in *; lia)).
    cbn [bindP is_if_or_block]. cbn [bindP]. f_equal. f_equal. rv.
Qed.

Lemma while_ok : forall c b, (ndsize (NStmt (SWhile c b)) <= K)%nat -> wf_stmt (SWhile c b) ->
  NodeOK (NStmt (SWhile c b)).
Proof.
  intros cnd b Hk Hw n ts rest p c Hm Hfol Hn.
  cbn [wf_stmt] in Hw. destruct Hw as (Hfc & Hwb).
  cbn [ndsize ssize] in Hk, Hn. cbn [unparse_node unparse_stmt] in Hm.
  apply Umatches_cons in Hm. destruct Hm as (tw & ts1 & -> & [Hw1 _] & Hm).
  apply Umatches_app in Hm. destruct Hm as (tc & tb & -> & Hmc & Hmb).
  destruct n as [|n]; [lia|]. cbn [app].
  rewrite (p_statement_while n _ tw _ (pk inp p tw _ c) Hw1).
  destruct n as [|n]; [lia|]. rewrite p_while_eq, nx. cbn [bindP].
  destruct b as [|nodes]; [contradiction|].
  pose proof Hmb as Hmb0. cbn [unparse_block] in Hmb.
  apply Umatches_cons in Hmb. destruct Hmb as (tlb & tb' & -> & [Hlb _] & _).
  rewrite <- !app_assoc. cbn [app].
  rewrite (expr_stop cnd n tc (tlb :: tb' ++ rest) p (tw :: c) Hfc Hmc (stop_lbrace _ _ Hlb) ltac:(lia)).
  cbn [bindP]. rewrite pk. cbn [bindP]. rewrite (typ_is_true tlb _ Hlb).
  change (tlb :: tb' ++ rest) with ((tlb :: tb') ++ rest).
  rewrite (block_ok_K K (Block nodes) n (tlb :: tb') rest p (rev tc ++ tw :: c) Hsub ltac:(lia) Hwb Hmb0 ltac:(lia)).
  cbn [bindP]. f_equal. f_equal. rv.
Qed.

Lemma sblock_ok : forall b, (ndsize (NStmt (SBlock b)) <= K)%nat -> wf_stmt (SBlock b) ->
  NodeOK (NStmt (SBlock b)).
Proof.
  intros b Hk Hw n ts rest p c Hm Hfol Hn.
  cbn [wf_stmt] in Hw. cbn [ndsize ssize] in Hk, Hn. cbn [unparse_node unparse_stmt] in Hm.
  destruct b as [|nodes]; [contradiction|].
  pose proof Hm as Hm0. cbn [unparse_block] in Hm.
  apply Umatches_cons in Hm. destruct Hm as (tlb & tb' & -> & [Hlb _] & _).
  destruct n as [|n]; [lia|]. cbn [app].
  rewrite (p_statement_block n _ tlb _ (pk inp p tlb _ c) Hlb).
  change (tlb :: tb' ++ rest) with ((tlb :: tb') ++ rest).
  rewrite (block_ok_K K (Block nodes) n (tlb :: tb') rest p c Hsub ltac:(lia) Hw Hm0 ltac:(lia)).
  reflexivity.
Qed.

Lemma fn_ok : forall fv args body, (ndsize (NStmt (SFn fv args body)) <= K)%nat ->
  wf_stmt (SFn fv args body) -> NodeOK (NStmt (SFn fv args body)).
Proof.
  intros fv args body Hk Hw n ts rest p c Hm Hfol Hn.
  cbn [wf_stmt] in Hw. destruct Hw as (Hid & Hdup & Hwb).
  cbn [ndsize ssize] in Hk, Hn. cbn [unparse_node unparse_stmt] in Hm.
  apply Umatches_cons in Hm. destruct Hm as (tfn & ts1 & -> & [Hfn _] & Hm).
  apply Umatches_cons in Hm. destruct Hm as (tid & ts2 & -> & Hmid & Hm).
  pose proof Hmid as [Hid1 _]. cbn in Hid1. unfold is_ident_tok in Hid. rewrite Hid in Hid1.
  apply Umatches_app in Hm. destruct Hm as (tp & tb & -> & Hmp & Hmb).
  unfold uparams in Hmp.
  apply Umatches_cons in Hmp. destruct Hmp as (tlp & tp' & -> & [Hlp _] & Hmp).
  destruct n as [|n]; [lia|]. cbn [app].
  rewrite (p_statement_fn n _ tfn _ (pk inp p tfn _ c) Hfn).
  destruct n as [|n]; [lia|]. rewrite p_fn_eq, nx. cbn [bindP].
  rewrite (consume_ok inp _ p tid _ _ Hid1). cbn [bindP]. rewrite pk. cbn [bindP].
  rewrite (typ_is_true tlp _ Hlp). rewrite nx. cbn [bindP].
  rewrite <- app_assoc.
  rewrite (fn_args_ok args [] n tp' (tb ++ rest) p (tlp :: tid :: tfn :: c) Hmp ltac:(lia)).
  cbn [bindP app].
  rewrite (block_ok_K K body n tb rest p (rev tp' ++ tlp :: tid :: tfn :: c) Hsub ltac:(lia) Hwb Hmb ltac:(lia)).
  cbn [bindP]. rewrite Hdup. cbn [bindP]. rewrite (tk_utok fv tid Hmid). f_equal. f_equal. rv.
Qed.

End K.

(* ---- let / assignment parsed directly (for-init, for-post) ---- *)
Lemma let_ok : forall id v n ts rest p c,
  is_ident_tok id -> efrag v = true -> Umatches (unparse_stmt (SLet id v)) ts -> stop 1 rest ->
  (4 * esize v + 12 <= n)%nat ->
  p_let inp n (mkP p (ts ++ rest) c) = ROk (SLet id v) (mkP p rest (rev ts ++ c)).
Proof.
  intros id v n ts rest p c Hid Hf Hm Hs Hn. cbn [unparse_stmt] in Hm.
  apply Umatches_cons in Hm. destruct Hm as (t0 & r0 & -> & [H0 _] & Hm).
  apply Umatches_cons in Hm. destruct Hm as (t1 & r1 & -> & H1 & Hm).
  apply Umatches_cons in Hm. destruct Hm as (t2 & te & -> & [H2 _] & Hme).
  pose proof H1 as [H1a _]. cbn in H1a. unfold is_ident_tok in Hid. rewrite Hid in H1a.
  destruct n as [|n]; [lia|]. rewrite p_let_eq. cbn [app]. rewrite nx. cbn [bindP].
  rewrite (consume_ok inp _ p t1 _ _ H1a). cbn [bindP]. rewrite (consume_ok inp _ p t2 _ _ H2). cbn [bindP].
  rewrite (expr_stop v n te rest p (t2 :: t1 :: t0 :: c) Hf Hme Hs ltac:(lia)). cbn [bindP].
  rewrite (tk_utok id t1 H1). f_equal. f_equal. rv.
Qed.
Lemma assign_ok : forall id v n ts rest p c,
  is_ident_tok id -> efrag v = true -> Umatches (unparse_stmt (SAssign id v)) ts -> stop 1 rest ->
  (4 * esize v + 12 <= n)%nat ->
  p_assign inp n (mkP p (ts ++ rest) c) = ROk (SAssign id v) (mkP p rest (rev ts ++ c)).
Proof.
  intros id v n ts rest p c Hid Hf Hm Hs Hn. cbn [unparse_stmt] in Hm.
  apply Umatches_cons in Hm. destruct Hm as (t1 & r1 & -> & H1 & Hm).
  apply Umatches_cons in Hm. destruct Hm as (t2 & te & -> & [H2 _] & Hme).
  pose proof H1 as [H1a _]. cbn in H1a. unfold is_ident_tok in Hid. rewrite Hid in H1a.
  destruct n as [|n]; [lia|]. rewrite p_assign_eq. cbn [app].
  rewrite (consume_ok inp _ p t1 _ _ H1a). cbn [bindP]. rewrite (consume_ok inp _ p t2 _ _ H2). cbn [bindP].
  rewrite (expr_stop v n te rest p (t2 :: t1 :: c) Hf Hme Hs ltac:(lia)). cbn [bindP].
  rewrite (tk_utok id t1 H1). f_equal. f_equal. rv.
Qed.

(* ---- the body of a case: statements up to (not including) case / default / '}' ---- *)
Definition case_end (rest : list ltoken) : Prop :=
  exists t r, rest = t :: r /\
    (lt_typ t = KeywordDefault \/ lt_typ t = KeywordCase \/ lt_typ t = ItemRightBrace).

Lemma case_body_loop_ok : forall nodes acc n ts rest p c,
  all_nodes nodes -> Forall NodeOK nodes ->
  Umatches (flat_map unparse_node nodes) ts -> case_end rest ->
  (5 * list_sum (map ndsize nodes) + 21 <= n)%nat ->
  p_case_body_loop inp n acc (mkP p (ts ++ rest) c) =
  ROk (Block (acc ++ nodes)) (mkP p rest (rev ts ++ c)).
Proof.
  induction nodes as [|x nodes IH]; intros acc n ts rest p c Hw Hok Hm He Hn.
  - cbn [flat_map] in Hm. apply Umatches_nil in Hm. subst ts. cbn [app rev].
    destruct He as (t & r & -> & Ht).
    destruct n as [|n]; [lia|]. rewrite p_case_body_loop_eq, pk. cbn [bindP].
    replace (typ_is t KeywordDefault || typ_is t KeywordCase || typ_is t ItemRightBrace) with true.
    + rewrite app_nil_r. reflexivity.
    + symmetry. destruct Ht as [Ht|[Ht|Ht]]; unfold typ_is; rewrite Ht; reflexivity.
  - cbn [all_nodes] in Hw. destruct Hw as [Hwx Hwn].
    inversion Hok as [|x' n' Hx Hns]; subst.
    cbn [flat_map] in Hm. apply Umatches_app in Hm. destruct Hm as (tx & ts' & -> & Hmx & Hms).
    cbn [map list_sum fold_right List.length] in Hn. fold (list_sum (map ndsize nodes)) in Hn.
    assert (Hpos : (1 <= ndsize x)%nat) by (destruct x; cbn [ndsize]; lia).
    destruct (node_first_wf x Hwx) as (u & us & Eu & Hu).
    pose proof Hmx as Hmx'. rewrite Eu in Hmx'. apply Umatches_cons in Hmx'.
    destruct Hmx' as (t1 & tx' & Etx & Hu1 & _). specialize (Hu t1 Hu1).
    destruct (stmt_start_props _ Hu) as (N1 & N2 & _ & N4 & N5).
    destruct n as [|n]; [lia|]. rewrite p_case_body_loop_eq. rewrite <- app_assoc.
    rewrite Etx at 1. cbn [app]. rewrite pk. cbn [bindP].
    rewrite (typ_is_false t1 _ N1), (typ_is_false t1 _ N2), (typ_is_false t1 _ N4), (typ_is_false t1 _ N5).
    cbn [orb].
    change (t1 :: tx' ++ ts' ++ rest) with ((t1 :: tx') ++ ts' ++ rest). rewrite <- Etx.
    rewrite (Hx n tx (ts' ++ rest) p c Hmx); [| |lia].
    + cbn [bindP].
      rewrite (IH (block_append acc x) n ts' rest p (rev tx ++ c) Hwn Hns Hms He ltac:(lia)).
      unfold block_append. f_equal; [rewrite <- app_assoc; reflexivity|]. f_equal.
      rewrite rev_app_distr. rewrite <- app_assoc. reflexivity.
    + destruct nodes as [|y nodes2].
      * cbn [flat_map] in Hms. apply Umatches_nil in Hms. subst ts'. cbn [app].
        destruct He as (t & r & -> & Ht). exists t, r. split; [reflexivity|].
        destruct Ht as [Ht|[Ht|Ht]]; rewrite Ht; discriminate.
      * cbn [all_nodes] in Hwn. destruct Hwn as [Hwy _].
        destruct (node_first_wf y Hwy) as (uy & usy & Euy & Huy).
        cbn [flat_map] in Hms. rewrite Euy in Hms. rewrite <- app_comm_cons in Hms.
        apply Umatches_cons in Hms. destruct Hms as (ty & ry & -> & Hy1 & _).
        cbn [app]. exists ty, (ry ++ rest). split; [reflexivity|].
        destruct (stmt_start_props _ (Huy ty Hy1)) as (_ & _ & N3 & _). exact N3.
Qed.

Section K2.
Variable K : nat.
Hypothesis Hsub : forall y, (ndsize y < K)%nat -> wf_node y -> NodeOK y.

Definition def_toks (d : block) : list utok :=
  match d with
  | BNil => []
  | Block l => UT KeywordDefault "default" :: UT ItemColon ":" :: flat_map unparse_node l
  end.
Definition RB := UT ItemRightBrace "}".

Lemma case_end_switch_tail : forall cs d ts rest,
  Umatches (flat_map unparse_case cs ++ def_toks d ++ [RB]) ts -> case_end (ts ++ rest).
Proof.
  intros cs d ts rest Hm. destruct cs as [|[cc b] cs].
  - cbn [flat_map app] in Hm. destruct d as [|l]; cbn [def_toks app] in Hm.
    + apply Umatches_cons in Hm. destruct Hm as (t & r & -> & [H _] & _). exists t, (r ++ rest). split; [reflexivity|]. cbn in H. auto.
    + apply Umatches_cons in Hm. destruct Hm as (t & r & -> & [H _] & _). exists t, (r ++ rest). split; [reflexivity|]. auto.
  - cbn [flat_map unparse_case] in Hm. rewrite <- !app_comm_cons in Hm.
    apply Umatches_cons in Hm. destruct Hm as (t & r & -> & [H _] & _). exists t, (r ++ rest). split; [reflexivity|]. auto.
Qed.

Lemma stop_colon : forall t r, lt_typ t = ItemColon -> stop 1 (t :: r).
Proof. intros t r H. apply stop_tok. right. rewrite H. cbn. uprec. lia. Qed.

Lemma switch_loop_ok : forall cases accC n ts rest p c cnd defb,
  all_cases cases -> (list_sum (map csize cases) + bsize defb < K)%nat ->
  (defb = BNil \/ wf_block defb) ->
  Umatches (flat_map unparse_case cases ++ def_toks defb ++ [RB]) ts ->
  (5 * (list_sum (map csize cases) + bsize defb) + 30 <= n)%nat ->
  p_switch_loop inp n cnd accC BNil (mkP p (ts ++ rest) c) =
  ROk (SSwitch cnd (accC ++ cases) defb) (mkP p rest (rev ts ++ c)).
Proof.
  induction cases as [|cs cases IH]; intros accC n ts rest p c cnd defb Hw Hk Hd Hm Hn.
  - cbn [flat_map app map list_sum fold_right] in *. destruct defb as [|l]; cbn [def_toks app] in Hm.
    + apply Umatches_cons in Hm. destruct Hm as (trb & r & -> & [Hrb _] & Hm). apply Umatches_nil in Hm. subst r.
      cbn in Hrb.
      destruct n as [|n]; [lia|]. rewrite p_switch_loop_eq. cbn [app]. rewrite nx. cbn [bindP].
      rewrite (typ_is_true trb _ Hrb). rewrite app_nil_r. reflexivity.
    + destruct Hd as [Hd|Hd]; [discriminate|]. rewrite wf_block_nodes in Hd.
      apply Umatches_cons in Hm. destruct Hm as (td & r1 & -> & [Hd1 _] & Hm).
      apply Umatches_cons in Hm. destruct Hm as (tcol & r2 & -> & [Hc1 _] & Hm).
      apply Umatches_app in Hm. destruct Hm as (tn & r3 & -> & Hmn & Hm).
      apply Umatches_cons in Hm. destruct Hm as (trb & r4 & -> & [Hrb _] & Hm). apply Umatches_nil in Hm. subst r4.
      cbn in Hrb. cbn [bsize] in Hk, Hn.
      destruct n as [|n]; [lia|]. rewrite p_switch_loop_eq. cbn [app]. rewrite nx. cbn [bindP].
      rewrite (typ_is_false td ItemRightBrace) by (rewrite Hd1; discriminate).
      rewrite (typ_is_false td KeywordCase) by (rewrite Hd1; discriminate).
      rewrite (typ_is_true td _ Hd1). rewrite pk. cbn [bindP]. rewrite (typ_is_true tcol _ Hc1).
      destruct n as [|n]; [lia|]. rewrite p_case_body_eq, nx. cbn [bindP].
      rewrite <- app_assoc. cbn [app].
      rewrite (case_body_loop_ok l [] n tn (trb :: rest) p (tcol :: td :: c) Hd);
        [| apply (block_nodes_ok K); [exact Hsub|cbn [bsize]; lia|exact Hd] | exact Hmn
         | exists trb, rest; split; [reflexivity|auto] | lia].
      cbn [bindP app]. rewrite p_switch_loop_eq, nx. cbn [bindP]. rewrite (typ_is_true trb _ Hrb).
      rewrite app_nil_r. f_equal. f_equal. rv.
  - cbn [all_cases] in Hw. destruct Hw as [Hwc Hwr]. destruct cs as [cc b].
    cbn [wf_case] in Hwc. destruct Hwc as [Hfc Hwb]. destruct b as [|l]; [contradiction|].
    rewrite wf_block_nodes in Hwb.
    cbn [map list_sum fold_right csize bsize] in Hk, Hn. fold (list_sum (map csize cases)) in Hk, Hn.
    cbn [flat_map] in Hm. rewrite <- app_assoc in Hm.
    apply Umatches_app in Hm. destruct Hm as (tall & ts' & -> & Hmc & Hms).
    cbn [unparse_case] in Hmc.
    apply Umatches_cons in Hmc. destruct Hmc as (tcase & r1 & -> & [Hcs _] & Hmc).
    apply Umatches_app in Hmc. destruct Hmc as (tcc & r2 & -> & Hmcc & Hmc).
    apply Umatches_cons in Hmc. destruct Hmc as (tcol & tn & -> & [Hc1 _] & Hmn).
    destruct n as [|n]; [lia|]. rewrite p_switch_loop_eq. cbn [app]. rewrite nx. cbn [bindP].
    rewrite (typ_is_false tcase ItemRightBrace) by (rewrite Hcs; discriminate).
    rewrite (typ_is_true tcase _ Hcs).
    rewrite <- !app_assoc. cbn [app].
    rewrite (expr_stop cc n tcc (tcol :: tn ++ ts' ++ rest) p (tcase :: c) Hfc Hmcc (stop_colon _ _ Hc1) ltac:(lia)).
    cbn [bindP]. rewrite pk. cbn [bindP]. rewrite (typ_is_true tcol _ Hc1).
    destruct n as [|n]; [lia|]. rewrite p_case_body_eq, nx. cbn [bindP].
    rewrite (case_body_loop_ok l [] n tn (ts' ++ rest) p (tcol :: rev tcc ++ tcase :: c) Hwb);
      [| apply (block_nodes_ok K); [exact Hsub|cbn [bsize]; lia|exact Hwb] | exact Hmn
       | apply (case_end_switch_tail cases defb); exact Hms | lia].
    cbn [bindP app].
    rewrite (IH (accC ++ [Case cc (Block l)]) (S n) ts' rest p _ cnd defb Hwr ltac:(lia) Hd Hms ltac:(lia)).
    f_equal; [rewrite <- app_assoc; reflexivity|]. f_equal. rv.
Qed.

Lemma all_cases_eq : forall cases,
  (fix go (l : list casestmt) : Prop := match l with [] => True | x :: r => wf_case x /\ go r end) cases =
  all_cases cases.
Proof. reflexivity. Qed.

Lemma switch_ok : forall cnd cases d, (ndsize (NStmt (SSwitch cnd cases d)) <= K)%nat ->
  wf_stmt (SSwitch cnd cases d) -> NodeOK (NStmt (SSwitch cnd cases d)).
Proof.
  intros cnd cases d Hk Hw n ts rest p c Hm Hfol Hn.
  cbn [wf_stmt] in Hw. rewrite all_cases_eq in Hw. destruct Hw as (Hc & Hwc & Hd).
  cbn [ndsize ssize] in Hk, Hn. cbn [unparse_node unparse_stmt] in Hm.
  apply Umatches_cons in Hm. destruct Hm as (tsw & ts1 & -> & [Hsw _] & Hm).
  apply Umatches_app in Hm. destruct Hm as (tc & ts2 & -> & Hmc & Hm).
  apply Umatches_cons in Hm. destruct Hm as (tlb & ts3 & -> & [Hlb _] & Hm).
  assert (Hm' : Umatches (flat_map unparse_case cases ++ def_toks d ++ [RB]) ts3).
  { destruct d; exact Hm. }
  destruct n as [|n]; [lia|]. cbn [app].
  rewrite (p_statement_switch n _ tsw _ (pk inp p tsw _ c) Hsw).
  destruct n as [|n]; [lia|]. rewrite p_switch_eq.
  rewrite (consume_ok inp _ p tsw _ c Hsw). cbn [bindP].
  destruct Hc as [Hc|Hc].
  - (* no subject *)
    subst cnd. cbn [unparse_expr] in Hmc. apply Umatches_nil in Hmc. subst tc. cbn [app].
    rewrite pk. cbn [bindP]. rewrite (typ_is_true tlb _ Hlb). cbn [bindP].
    rewrite nx. cbn [bindP]. rewrite (typ_is_true tlb _ Hlb).
    rewrite (switch_loop_ok cases [] n ts3 rest p (tlb :: tsw :: c) ENil d Hwc ltac:(cbn [esize] in *; lia) Hd Hm'
               ltac:(cbn [esize] in *; lia)).
    cbn [bindP app]. f_equal. f_equal. rv.
  - pose proof (size_pos cnd) as Hszc.
    destruct (U_starts_strong cnd Hc) as (u & us & Eu & Hu).
    pose proof Hmc as Hmc'. rewrite Eu in Hmc'. apply Umatches_cons in Hmc'.
    destruct Hmc' as (t1 & tc' & Etc & Hu1 & _). specialize (Hu t1 Hu1).
    rewrite <- app_assoc. rewrite Etc at 1. cbn [app]. rewrite pk. cbn [bindP].
    rewrite (typ_is_false t1 ItemLeftBrace) by (intro E; rewrite E in Hu; discriminate).
    change (t1 :: tc' ++ tlb :: ts3 ++ rest) with ((t1 :: tc') ++ tlb :: ts3 ++ rest). rewrite <- Etc.
    rewrite (expr_stop cnd n tc (tlb :: ts3 ++ rest) p (tsw :: c) Hc Hmc (stop_lbrace _ _ Hlb) ltac:(lia)).
    cbn [bindP]. rewrite nx. cbn [bindP]. rewrite (typ_is_true tlb _ Hlb).
    rewrite (switch_loop_ok cases [] n ts3 rest p (tlb :: rev tc ++ tsw :: c) cnd d Hwc ltac:(lia) Hd Hm' ltac:(lia)).
    cbn [bindP app]. f_equal. f_equal. rv.
Qed.

Lemma for_ok : forall init cnd post body, (ndsize (NStmt (SFor init cnd post body)) <= K)%nat ->
  wf_stmt (SFor init cnd post body) -> NodeOK (NStmt (SFor init cnd post body)).
Proof.
  intros init cnd post body Hk Hw n ts rest p c Hm Hfol Hn.
  cbn [wf_stmt] in Hw. destruct Hw as (Hparts & Hwb).
  cbn [ndsize ssize] in Hk, Hn. cbn [unparse_node unparse_stmt] in Hm.
  apply Umatches_cons in Hm. destruct Hm as (tfor & ts1 & -> & [Hfor _] & Hm).
  destruct n as [|n]; [lia|]. cbn [app].
  rewrite (p_statement_for n _ tfor _ (pk inp p tfor _ c) Hfor).
  destruct n as [|n]; [lia|]. rewrite p_for_eq, nx. cbn [bindP].
  destruct body as [|nodes]; [contradiction|].
  destruct Hparts as [(-> & -> & ->)|(Hfc & Hini & Hpost)].
  - (* for { ... } *)
    cbn [unparse_expr app] in Hm. pose proof Hm as Hm0. cbn [unparse_block] in Hm.
    apply Umatches_cons in Hm. destruct Hm as (tlb & tb' & -> & [Hlb _] & _).
    cbn [app]. rewrite pk. cbn [bindP]. rewrite (typ_is_true tlb _ Hlb).
    change (tlb :: tb' ++ rest) with ((tlb :: tb') ++ rest).
    rewrite (block_ok_K K (Block nodes) n (tlb :: tb') rest p (tfor :: c) Hsub ltac:(lia) Hwb Hm0 ltac:(lia)).
    cbn [bindP]. feq.
  - (* for [init ;] cond [; post] { ... } *)
    apply Umatches_app in Hm. destruct Hm as (ti & ts2 & -> & Hmi & Hm).
    apply Umatches_app in Hm. destruct Hm as (tc & ts3 & -> & Hmc & Hm).
    apply Umatches_app in Hm. destruct Hm as (tp & tb & -> & Hmp & Hmb).
    pose proof Hmb as Hmb0. cbn [unparse_block] in Hmb.
    apply Umatches_cons in Hmb. destruct Hmb as (tlb & tb' & -> & [Hlb _] & _).
    destruct (U_starts_strong cnd Hfc) as (u & us & Eu & Hu).
    pose proof Hmc as Hmc'. rewrite Eu in Hmc'. apply Umatches_cons in Hmc'.
    destruct Hmc' as (tc1 & tc' & Etc & Hu1 & _). specialize (Hu tc1 Hu1).
    (* the tail after the condition: [; post] { ... } *)
    assert (Htail : forall cc,
      (pb (t, s) <- ppeek inp (mkP p (tp ++ (tlb :: tb') ++ rest) cc);
       pb (po, s) <-
         (if typ_is t ItemTerminateLine then
            pb (_, s) <- pnext inp s;
            pb (t, s) <- ppeek inp s;
            if typ_is t ItemLeftBrace then ROk SNil s else p_assign inp n s
          else ROk SNil s);
       pb (t, s) <- ppeek inp s;
       if typ_is t ItemLeftBrace then pb (b, s) <- p_block inp n s; ROk (SFor init cnd po b) s
       else RErr s) =
      ROk (SFor init cnd post (Block nodes)) (mkP p rest (rev (tlb :: tb') ++ rev tp ++ cc))).
    { intros cc. destruct post; try contradiction.
      - apply Umatches_nil in Hmp. subst tp. cbn [app]. rewrite pk. cbn [bindP].
        rewrite (typ_is_false tlb ItemTerminateLine) by (rewrite Hlb; discriminate). cbn [bindP].
        rewrite pk. cbn [bindP]. rewrite (typ_is_true tlb _ Hlb).
        change (tlb :: tb' ++ rest) with ((tlb :: tb') ++ rest).
        rewrite (block_ok_K K (Block nodes) n (tlb :: tb') rest p cc Hsub ltac:(lia) Hwb Hmb0 ltac:(lia)).
        cbn [bindP]. feq.
      - cbn [simple_post] in Hpost. destruct Hpost as [Hpid Hpf].
        apply Umatches_cons in Hmp. destruct Hmp as (tsc & tp' & -> & [Hsc _] & Hmp).
        pose proof Hmp as Hmp0. cbn [unparse_stmt] in Hmp.
        apply Umatches_cons in Hmp. destruct Hmp as (tpi & tp2 & -> & Hpi & _).
        pose proof Hpi as [Hpi1 _]. cbn in Hpi1. unfold is_ident_tok in Hpid. rewrite Hpid in Hpi1.
        cbn [app]. rewrite pk. cbn [bindP]. rewrite (typ_is_true tsc _ Hsc). rewrite nx. cbn [bindP].
        rewrite pk. cbn [bindP]. rewrite (typ_is_false tpi ItemLeftBrace) by (rewrite Hpi1; discriminate).
        change (tpi :: tp2 ++ tlb :: tb' ++ rest) with ((tpi :: tp2) ++ tlb :: tb' ++ rest).
        rewrite (assign_ok id v n (tpi :: tp2) (tlb :: tb' ++ rest) p (tsc :: cc) Hpid Hpf Hmp0
                   (stop_lbrace _ _ Hlb) ltac:(cbn [ssize] in *; lia)).
        cbn [bindP]. rewrite pk. cbn [bindP]. rewrite (typ_is_true tlb _ Hlb).
        change (tlb :: tb' ++ rest) with ((tlb :: tb') ++ rest).
        rewrite (block_ok_K K (Block nodes) n (tlb :: tb') rest p _ Hsub ltac:(lia) Hwb Hmb0 ltac:(lia)).
        cbn [bindP]. feq. }
    (* what follows the condition stops the expression *)
    assert (Hstopc : stop 1 (tp ++ (tlb :: tb') ++ rest)).
    { destruct post; try contradiction.
      - apply Umatches_nil in Hmp. subst tp. cbn [app]. apply stop_lbrace. exact Hlb.
      - apply Umatches_cons in Hmp. destruct Hmp as (tsc & tp' & -> & [Hsc _] & _).
        cbn [app]. apply stop_tok. left. exact Hsc. }
    assert (Hnota : forall tq rq, tp ++ (tlb :: tb') ++ rest = tq :: rq -> lt_typ tq <> ItemAssign).
    { intros tq rq E. destruct post; try contradiction.
      - apply Umatches_nil in Hmp. subst tp. cbn [app] in E. inversion E; subst. rewrite Hlb. discriminate.
      - apply Umatches_cons in Hmp. destruct Hmp as (tsc & tp' & -> & [Hsc _] & _).
        cbn [app] in E. inversion E; subst. rewrite Hsc. discriminate. }
    destruct init; try contradiction.
    + (* no init: the condition comes first *)
      apply Umatches_nil in Hmi. subst ti. cbn [app].
      rewrite <- !app_assoc. rewrite Etc at 1. cbn [app]. rewrite pk. cbn [bindP].
      rewrite (typ_is_false tc1 ItemLeftBrace) by (intro E; rewrite E in Hu; discriminate).
      rewrite pk. cbn [bindP].
      rewrite (typ_is_false tc1 KeywordLet) by (intro E; rewrite E in Hu; discriminate).
      destruct (toktype_eqb (lt_typ tc1) ItemIdentifier) eqn:Eid.
      * assert (Hid : lt_typ tc1 = ItemIdentifier).
        { unfold toktype_eqb in Eid. apply Z.eqb_eq in Eid. destruct (lt_typ tc1); cbn in Eid; try discriminate; reflexivity. }
        rewrite (typ_is_true tc1 _ Hid). rewrite nx. cbn [bindP].
        assert (Etl' : exists tq rq, tp ++ tlb :: tb' ++ rest = tq :: rq).
        { destruct Hstopc as (x & y & E & _). exists x, y. exact E. }
        destruct Etl' as (tq & rq & Etl). rewrite Etl.
        pose proof Hmc as Hmc2. rewrite Etc in Hmc2.
        destruct (second_not_assign cnd tc1 tc' tq rq Hfc Hmc2 Hid (Hnota tq rq Etl)) as (t2 & r2 & E2 & Hna).
        rewrite E2. rewrite pk. cbn [bindP pbackup consumed prod ahead].
        rewrite (typ_is_false t2 _ Hna). cbn [bindP]. rewrite <- E2. rewrite <- Etl.
        change (tc1 :: tc' ++ tp ++ tlb :: tb' ++ rest)
        with ((tc1 :: tc') ++ tp ++ (tlb :: tb') ++ rest).
        rewrite <- Etc.
        rewrite (expr_stop cnd n tc (tp ++ (tlb :: tb') ++ rest) p (tfor :: c) Hfc Hmc Hstopc ltac:(lia)).
        cbn [bindP]. rewrite Htail. cbn [bindP]. feq.
      * rewrite (typ_is_false tc1 ItemIdentifier).
        2:{ intro E. rewrite E in Eid. discriminate. }
        cbn [bindP].
        change (tc1 :: tc' ++ tp ++ tlb :: tb' ++ rest)
        with ((tc1 :: tc') ++ tp ++ (tlb :: tb') ++ rest).
        rewrite <- Etc.
        rewrite (expr_stop cnd n tc (tp ++ (tlb :: tb') ++ rest) p (tfor :: c) Hfc Hmc Hstopc ltac:(lia)).
        cbn [bindP]. rewrite Htail. cbn [bindP]. feq.
    + (* init is an assignment *)
      cbn [simple_init] in Hini. destruct Hini as [Hiid Hif].
      apply Umatches_app in Hmi. destruct Hmi as (tia & tsemi & -> & Hmia & Hmsemi).
      apply Umatches_cons in Hmsemi. destruct Hmsemi as (tsc & r0 & -> & [Hsc _] & Hr0). apply Umatches_nil in Hr0. subst r0.
      pose proof Hmia as Hmia0. cbn [unparse_stmt] in Hmia.
      apply Umatches_cons in Hmia. destruct Hmia as (ti1 & ti2 & -> & Hi1 & Hmia).
      apply Umatches_cons in Hmia. destruct Hmia as (ti3 & ti4 & -> & [Hi3 _] & _).
      pose proof Hi1 as [Hi1a _]. cbn in Hi1a. unfold is_ident_tok in Hiid. rewrite Hiid in Hi1a.
      rewrite <- !app_assoc. cbn [app]. rewrite pk. cbn [bindP].
      rewrite (typ_is_false ti1 ItemLeftBrace) by (rewrite Hi1a; discriminate).
      rewrite pk. cbn [bindP].
      rewrite (typ_is_false ti1 KeywordLet) by (rewrite Hi1a; discriminate).
      rewrite (typ_is_true ti1 _ Hi1a). rewrite nx. cbn [bindP]. rewrite pk. cbn [bindP pbackup consumed prod ahead].
      rewrite (typ_is_true ti3 _ Hi3). cbn [bindP]. rewrite pk. cbn [bindP].
      rewrite (typ_is_false ti1 KeywordLet) by (rewrite Hi1a; discriminate).
      change (ti1 :: ti3 :: ti4 ++ tsc :: tc ++ tp ++ tlb :: tb' ++ rest)
        with ((ti1 :: ti3 :: ti4) ++ tsc :: tc ++ tp ++ (tlb :: tb') ++ rest).
      rewrite (assign_ok id v n (ti1 :: ti3 :: ti4) (tsc :: tc ++ tp ++ (tlb :: tb') ++ rest) p (tfor :: c) Hiid Hif Hmia0
                 (stop_tok 1 tsc _ (or_introl Hsc)) ltac:(cbn [ssize] in *; lia)).
      cbn [bindP]. rewrite pk. cbn [bindP]. rewrite (typ_is_true tsc _ Hsc). rewrite nx. cbn [bindP].
      rewrite (expr_stop cnd n tc (tp ++ (tlb :: tb') ++ rest) p _ Hfc Hmc Hstopc ltac:(lia)).
      cbn [bindP]. rewrite Htail. cbn [bindP]. feq.
    + (* init is a let *)
      cbn [simple_init] in Hini. destruct Hini as [Hiid Hif].
      apply Umatches_app in Hmi. destruct Hmi as (tia & tsemi & -> & Hmia & Hmsemi).
      apply Umatches_cons in Hmsemi. destruct Hmsemi as (tsc & r0 & -> & [Hsc _] & Hr0). apply Umatches_nil in Hr0. subst r0.
      pose proof Hmia as Hmia0. cbn [unparse_stmt] in Hmia.
      apply Umatches_cons in Hmia. destruct Hmia as (ti1 & ti2 & -> & [Hi1 _] & _).
      rewrite <- !app_assoc. cbn [app]. rewrite pk. cbn [bindP].
      rewrite (typ_is_false ti1 ItemLeftBrace) by (rewrite Hi1; discriminate).
      rewrite pk. cbn [bindP]. rewrite (typ_is_true ti1 _ Hi1). cbn [bindP]. rewrite pk. cbn [bindP].
      rewrite (typ_is_true ti1 _ Hi1).
      change (ti1 :: ti2 ++ tsc :: tc ++ tp ++ tlb :: tb' ++ rest)
        with ((ti1 :: ti2) ++ tsc :: tc ++ tp ++ (tlb :: tb') ++ rest).
      rewrite (let_ok id v n (ti1 :: ti2) (tsc :: tc ++ tp ++ (tlb :: tb') ++ rest) p (tfor :: c) Hiid Hif Hmia0
                 (stop_tok 1 tsc _ (or_introl Hsc)) ltac:(cbn [ssize] in *; lia)).
      cbn [bindP]. rewrite pk. cbn [bindP]. rewrite (typ_is_true tsc _ Hsc). rewrite nx. cbn [bindP].
      rewrite (expr_stop cnd n tc (tp ++ (tlb :: tb') ++ rest) p _ Hfc Hmc Hstopc ltac:(lia)).
      cbn [bindP]. rewrite Htail. cbn [bindP]. feq.
Qed.

End K2.
Theorem nodes_all : forall k x, (ndsize x <= k)%nat -> wf_node x -> NodeOK x.
Proof.
  induction k as [|k IH]; intros x Hk Hw; [destruct x; cbn [ndsize] in Hk; lia|].
  assert (Hsub : forall y, (ndsize y < S k)%nat -> wf_node y -> NodeOK y) by (intros y Hy; apply IH; lia).
  destruct x as [e|st]; cbn [wf_node] in Hw.
  - intros n ts rest p c Hm _ Hn. cbn [ndsize] in Hn.
    apply (node_ok inp (NExpr e)); [exact Hw|exact Hm|cbn [nsize]; lia].
  - destruct st; cbn [wf_stmt] in Hw; try contradiction.
    + apply (sblock_ok (S k) Hsub); assumption.
    + intros n ts rest p c Hm _ Hn. cbn [ndsize ssize] in Hn.
      apply (node_ok inp (NStmt (SAssign id v))); [exact Hw|exact Hm|cbn [nsize]; lia].
    + intros n ts rest p c Hm _ Hn. cbn [ndsize ssize] in Hn.
      apply (node_ok inp (NStmt (SLet id v))); [exact Hw|exact Hm|cbn [nsize]; lia].
    + intros n ts rest p c Hm _ Hn. cbn [ndsize ssize] in Hn.
      apply (node_ok inp (NStmt (SReturn v))); [exact Hw|exact Hm|cbn [nsize]; lia].
    + intros n ts rest p c Hm _ Hn. cbn [ndsize ssize] in Hn.
      apply (node_ok inp (NStmt (SCtrl t))); [exact Hw|exact Hm|cbn [nsize]; lia].
    + apply (if_ok (S k) Hsub); assumption.
    + apply (switch_ok (S k) Hsub); assumption.
    + apply (fn_ok (S k) Hsub); assumption.
    + apply (while_ok (S k) Hsub); assumption.
    + apply (for_ok (S k) Hsub); assumption.
Qed.

Lemma node_ok_wf : forall x, wf_node x -> NodeOK x.
Proof. intros x Hw. apply (nodes_all (ndsize x)); [lia|exact Hw]. Qed.

(* a whole program: statements up to EOF *)
Lemma rows_ok_wf : forall nodes acc n ts teof rest p c,
  all_nodes nodes -> Umatches (flat_map unparse_node nodes) ts -> lt_typ teof = ItemEOF ->
  (5 * list_sum (map ndsize nodes) + 22 <= n)%nat ->
  p_rows inp n acc (mkP p (ts ++ teof :: rest) c) =
  ROk (Block (acc ++ nodes)) (mkP p (teof :: rest) (rev ts ++ c)).
Proof.
  induction nodes as [|x nodes IH]; intros acc n ts teof rest p c Hw Hm He Hn.
  - cbn [flat_map] in Hm. apply Umatches_nil in Hm. subst ts. cbn [app rev].
    destruct n as [|n]; [lia|]. rewrite p_rows_eq, pk. cbn [bindP]. rewrite (typ_is_true teof _ He).
    rewrite app_nil_r. reflexivity.
  - cbn [all_nodes] in Hw. destruct Hw as [Hwx Hwn].
    cbn [flat_map] in Hm. apply Umatches_app in Hm. destruct Hm as (tx & ts' & -> & Hmx & Hms).
    cbn [map list_sum fold_right List.length] in Hn. fold (list_sum (map ndsize nodes)) in Hn.
    assert (Hpos : (1 <= ndsize x)%nat) by (destruct x; cbn [ndsize]; lia).
    destruct (node_first_wf x Hwx) as (u & us & Eu & Hu).
    pose proof Hmx as Hmx'. rewrite Eu in Hmx'. apply Umatches_cons in Hmx'.
    destruct Hmx' as (t1 & tx' & Etx & Hu1 & _). specialize (Hu t1 Hu1).
    destruct (stmt_start_props _ Hu) as (_ & N2 & _).
    destruct n as [|n]; [lia|]. rewrite p_rows_eq. rewrite <- app_assoc.
    rewrite Etx at 1. cbn [app]. rewrite pk. cbn [bindP]. rewrite (typ_is_false t1 _ N2).
    change (t1 :: tx' ++ ts' ++ teof :: rest) with ((t1 :: tx') ++ ts' ++ teof :: rest). rewrite <- Etx.
    rewrite (node_ok_wf x Hwx n tx (ts' ++ teof :: rest) p c Hmx); [| |lia].
    + cbn [bindP].
      rewrite (IH (block_append acc x) n ts' teof rest p (rev tx ++ c) Hwn Hms He ltac:(lia)).
      unfold block_append. f_equal; [rewrite <- app_assoc; reflexivity|]. f_equal.
      rewrite rev_app_distr. rewrite <- app_assoc. reflexivity.
    + destruct nodes as [|y nodes2].
      * cbn [flat_map] in Hms. apply Umatches_nil in Hms. subst ts'. cbn [app].
        exists teof, rest. split; [reflexivity|]. rewrite He. discriminate.
      * cbn [all_nodes] in Hwn. destruct Hwn as [Hwy _].
        destruct (node_first_wf y Hwy) as (uy & usy & Euy & Huy).
        cbn [flat_map] in Hms. rewrite Euy in Hms. rewrite <- app_comm_cons in Hms.
        apply Umatches_cons in Hms. destruct Hms as (ty & ry & -> & Hy1 & _).
        cbn [app]. exists ty, (ry ++ teof :: rest). split; [reflexivity|].
        destruct (stmt_start_props _ (Huy ty Hy1)) as (_ & _ & N3 & _). exact N3.
Qed.

End ST.
