(* C12 - proofs about the two gcs evaluator models.

   Part 1  the operator layer (op.go): every unary/binary operator of the implementation model
           on the dual representation computes the reference operator on the number denoted,
           for every pair of operands; the representation invariant is established by literals
           and builtins and preserved by every operator ([numbers_consistent]).
   Part 2  abstraction of states and the simulation relation between the two interpreters.
   Part 3  the primitives of Model/GcsStore.v commute with the abstraction.
   Part 4  [impl_refines_spec]: for every program, engine state, random stream, callback
           script and fuel, the trace of the implementation model abstracts to the trace of the
           reference semantics.
   Part 5  [spec_reports_errors], panics. *)
From Coq Require Import List ZArith Bool String Floats Lia.
From SR Require Import Base.CaseLib Model.GcsAst Model.GcsStore Model.GcsEval Model.GcsSem
  Model.GcsEvalCheck.
Import ListNotations.
Open Scope Z_scope.

(* ======================================================================================== *)
(* Part 1: numbers                                                                          *)
(* ======================================================================================== *)

(* the number a representation denotes *)
Definition abs_num (n : inum) : snum := if isf n then NFloat (fval n) else NInt (ival n).

(* the representation invariant: a float carries no integer of its own.  (The float field of
   an integer is never read by the repaired operators, so nothing is required of it.) *)
Definition num_ok (n : inum) : Prop := isf n = true -> ival n = 0.

Lemma tof_abs : forall n, tof (abs_num n) = ntof n.
Proof. intros [i f b]; unfold abs_num, ntof; cbn; destruct b; reflexivity. Qed.

Lemma truthy_abs : forall n, truthy_num (abs_num n) = ntob n.
Proof. intros [i f b]; unfold abs_num, ntob; cbn; destruct b; reflexivity. Qed.

Lemma abs_bton : forall b, abs_num (bton b) = of_bool b.
Proof. intros []; reflexivity. Qed.

Lemma abs_inumZ : forall z, abs_num (inumZ z) = NInt z.
Proof. reflexivity. Qed.

Ltac num_cases l r :=
  destruct l as [li lf lb], r as [ri rf rb]; destruct lb, rb;
  unfold abs_num, anyf, ntof; cbn; try reflexivity.

Lemma abs_iadd : forall l r, abs_num (iadd l r) = sadd (abs_num l) (abs_num r).
Proof. intros; unfold iadd; num_cases l r. Qed.
Lemma abs_isub : forall l r, abs_num (isub l r) = ssub (abs_num l) (abs_num r).
Proof. intros; unfold isub; num_cases l r. Qed.
Lemma abs_imul : forall l r, abs_num (imul l r) = smul (abs_num l) (abs_num r).
Proof. intros; unfold imul; num_cases l r. Qed.

Definition map_res {A B} (f : A -> B) (r : res A) : res B :=
  match r with Ok a => Ok (f a) | Fail x => Fail x end.

Lemma abs_idiv : forall l r, map_res abs_num (idiv l r) = sdiv (abs_num l) (abs_num r).
Proof.
  intros; unfold idiv; num_cases l r.
  unfold sdiv. destruct (ri =? 0); reflexivity.
Qed.

Lemma abs_igt : forall l r, abs_num (igt l r) = sgt (abs_num l) (abs_num r).
Proof. intros; unfold igt; rewrite abs_bton; num_cases l r. Qed.
Lemma abs_igte : forall l r, abs_num (igte l r) = sgte (abs_num l) (abs_num r).
Proof. intros; unfold igte; rewrite abs_bton; num_cases l r. Qed.
Lemma abs_ilt : forall l r, abs_num (ilt l r) = slt (abs_num l) (abs_num r).
Proof. intros; unfold ilt; rewrite abs_bton; num_cases l r. Qed.
Lemma abs_ilte : forall l r, abs_num (ilte l r) = slte (abs_num l) (abs_num r).
Proof. intros; unfold ilte; rewrite abs_bton; num_cases l r. Qed.
Lemma abs_ieq : forall l r, abs_num (ieq l r) = seq (abs_num l) (abs_num r).
Proof. intros; unfold ieq; rewrite abs_bton; num_cases l r. Qed.
Lemma abs_ineq : forall l r, abs_num (ineq l r) = sneq (abs_num l) (abs_num r).
Proof. intros; unfold ineq; rewrite abs_bton; num_cases l r. Qed.
Lemma abs_iand : forall l r, abs_num (iand l r) = sand (abs_num l) (abs_num r).
Proof. intros; unfold iand, sand; rewrite abs_bton, !truthy_abs; reflexivity. Qed.
Lemma abs_ior : forall l r, abs_num (ior l r) = sor (abs_num l) (abs_num r).
Proof. intros; unfold ior, sor; rewrite abs_bton, !truthy_abs; reflexivity. Qed.

(* invariant: established ... *)
Lemma ok_bton : forall b, num_ok (bton b).
Proof. intros [] H; discriminate H. Qed.
Lemma ok_inumZ : forall z, num_ok (inumZ z).
Proof. intros z H; discriminate H. Qed.
Lemma ok_of_int : forall z, num_ok (iof_int z).
Proof. intros z H; discriminate H. Qed.
Lemma ok_of_float : forall f, num_ok (iof_float f).
Proof. intros f H; reflexivity. Qed.
Lemma ok_lit : forall i f b, (negb b || (i =? 0)) = true -> num_ok (mkNum i f b).
Proof.
  intros i f b H Hb; cbn in *; subst b; cbn in H. apply Z.eqb_eq in H; exact H.
Qed.

(* ... and preserved by every operator, whatever the operands *)
Ltac ok_arith := intros l r; unfold iadd, isub, imul; destruct (anyf l r);
  [ intros _; reflexivity | apply ok_inumZ ].
Lemma ok_iadd : forall l r, num_ok (iadd l r). Proof. ok_arith. Qed.
Lemma ok_isub : forall l r, num_ok (isub l r). Proof. ok_arith. Qed.
Lemma ok_imul : forall l r, num_ok (imul l r). Proof. ok_arith. Qed.
Lemma ok_idiv : forall l r x, idiv l r = Ok x -> num_ok x.
Proof.
  intros l r x; unfold idiv; destruct (anyf l r).
  - intros H; inversion H; subst; intros _; reflexivity.
  - destruct (ival r =? 0); intros H; inversion H; subst; apply ok_inumZ.
Qed.

(* the operators as the evaluator dispatches them *)
Definition abs_val (v : obj) : val :=
  match v with
  | VNum n => VNum (abs_num n)
  | VStr s => VStr s
  | VNull => VNull
  | VFun ps b => VFun ps b
  | VBif b => VBif b
  | VMap a => VMap a
  | VAct t e => VAct t e
  end.

Lemma abs_iunop : forall t x, abs_val (iunop t x) = sunop t (abs_num x).
Proof.
  intros t x; destruct t; try reflexivity; unfold iunop, sunop, abs_val.
  - rewrite abs_isub; reflexivity.
  - rewrite abs_ieq; reflexivity.
Qed.

Lemma ok_iunop : forall t x n, iunop t x = VNum n -> num_ok n.
Proof.
  intros t x n; destruct t; unfold iunop; intros H; inversion H; subst;
    [ apply ok_isub | apply ok_bton ].
Qed.

(* ---- the theorem of the operator layer ---- *)
Definition binop_pure (t : toktype) (a b : inum) : res obj :=
  match t with
  | LogicAnd => Ok (VNum (iand a b)) | LogicOr => Ok (VNum (ior a b))
  | ItemPlus => Ok (VNum (iadd a b)) | ItemMinus => Ok (VNum (isub a b))
  | ItemAsterisk => Ok (VNum (imul a b))
  | ItemForwardSlash => map_res VNum (idiv a b)
  | OpGreaterThan => Ok (VNum (igt a b)) | OpGreaterThanOrEqual => Ok (VNum (igte a b))
  | OpEqual => Ok (VNum (ieq a b)) | OpNotEqual => Ok (VNum (ineq a b))
  | OpLessThan => Ok (VNum (ilt a b)) | OpLessThanOrEqual => Ok (VNum (ilte a b))
  | _ => Ok VNull
  end.
Definition sbinop_pure (t : toktype) (a b : snum) : res val :=
  match t with
  | LogicAnd => Ok (VNum (sand a b)) | LogicOr => Ok (VNum (sor a b))
  | ItemPlus => Ok (VNum (sadd a b)) | ItemMinus => Ok (VNum (ssub a b))
  | ItemAsterisk => Ok (VNum (smul a b))
  | ItemForwardSlash => map_res VNum (sdiv a b)
  | OpGreaterThan => Ok (VNum (sgt a b)) | OpGreaterThanOrEqual => Ok (VNum (sgte a b))
  | OpEqual => Ok (VNum (seq a b)) | OpNotEqual => Ok (VNum (sneq a b))
  | OpLessThan => Ok (VNum (slt a b)) | OpLessThanOrEqual => Ok (VNum (slte a b))
  | _ => Ok VNull
  end.

Lemma ibinop_pure : forall t a b s,
  ibinop t a b s = (binop_pure t a b, s).
Proof. intros t a b s; destruct t; cbn; try reflexivity. destruct (idiv a b); reflexivity. Qed.
Lemma sbinop_is_pure : forall t a b s,
  sbinop t a b s = (sbinop_pure t a b, s).
Proof. intros t a b s; destruct t; cbn; try reflexivity. destruct (sdiv a b); reflexivity. Qed.

Theorem operators_refine : forall t a b,
  map_res abs_val (binop_pure t a b) = sbinop_pure t (abs_num a) (abs_num b).
Proof.
  intros t a b; destruct t; cbn; try reflexivity;
    rewrite ?abs_iand, ?abs_ior, ?abs_iadd, ?abs_isub, ?abs_imul, ?abs_igt, ?abs_igte,
            ?abs_ieq, ?abs_ineq, ?abs_ilt, ?abs_ilte; try reflexivity.
  rewrite <- abs_idiv. destruct (idiv a b); reflexivity.
Qed.

Theorem operators_preserve_invariant : forall t a b n,
  binop_pure t a b = Ok (VNum n) -> num_ok n.
Proof.
  intros t a b n; destruct t; cbn; intros H; try discriminate H;
    try (inversion H; subst;
         first [ apply ok_bton | apply ok_iadd | apply ok_isub | apply ok_imul ]).
  destruct (idiv a b) eqn:E; cbn in H; inversion H; subst. eapply ok_idiv; eassumption.
Qed.

(* The operators of the implementation never panic: every outcome is a value or an error *)
Theorem operators_never_panic : forall t a b,
  match binop_pure t a b with Fail (FPanic _) => False | _ => True end.
Proof.
  intros t a b; destruct t; cbn; auto. unfold idiv.
  destruct (anyf a b); cbn; auto. destruct (ival b =? 0); cbn; auto.
Qed.

(* ======================================================================================== *)
(* Part 2: abstraction of states, the invariant, the simulation relation                    *)
(* ======================================================================================== *)

Definition abs_bind (b : bind inum) : bind snum :=
  match b with BVal v => BVal (abs_val v) | BSlot m i => BSlot m i end.
Definition abs_kb (kb : string * bind inum) : string * bind snum := (fst kb, abs_bind (snd kb)).
Definition abs_frame (fr : frame inum) : frame snum := map abs_kb fr.
Definition abs_kv (kv : string * obj) : string * val := (fst kv, abs_val (snd kv)).
Definition abs_mapobj (mo : mapobj inum) : mapobj snum :=
  mkMap (map abs_val (m_arr mo)) (map abs_kv (m_flds mo)).

Fixpoint abs_pval (p : pval inum) : pval snum :=
  match p with
  | PNum n => PNum (abs_num n)
  | PStr s => PStr s
  | PNull => PNull
  | PFun => PFun
  | PBif => PBif
  | PAct t e => PAct t e
  | PMap arr flds => PMap (map abs_pval arr) (map (fun kv => (fst kv, abs_pval (snd kv))) flds)
  | PBad => PBad
  end.

Definition abs_item (g : gitem inum) : gitem snum :=
  match g with
  | GPrint l => GPrint (map abs_pval l)
  | GEng c => GEng c
  | GInit r => GInit r
  | GCall r => GCall r
  end.

Definition abs_st (s : state inum) : state snum :=
  mkSt (map abs_frame (st_frames s)) (map abs_mapobj (st_maps s)) (map abs_item (st_trace s))
       (st_skill s) (st_ult s) (st_defaults s) (st_draws s).

(* what the invariant says of a stored value: numbers are consistent; function bodies contain
   only literals that are (the parser builds float literals with IntVal 0) *)
Definition val_ok (v : obj) : Prop :=
  match v with
  | VNum n => num_ok n
  | VFun _ body => wf_block body = true
  | _ => True
  end.
Definition bind_ok (b : bind inum) : Prop := match b with BVal v => val_ok v | BSlot _ _ => True end.
Definition frame_ok (fr : frame inum) : Prop := Forall (fun kb => bind_ok (snd kb)) fr.
Definition mapobj_ok (mo : mapobj inum) : Prop :=
  Forall val_ok (m_arr mo) /\ Forall (fun kv => val_ok (snd kv)) (m_flds mo).
Definition cb_ok (c : cbnode) : Prop := wf_block (cb_body c) = true.

(* every printed number is consistent *)
Fixpoint pval_ok (p : pval inum) : Prop :=
  match p with
  | PNum n => num_ok n
  | PMap arr flds =>
      (fix go (l : list (pval inum)) : Prop :=
         match l with [] => True | x :: r => pval_ok x /\ go r end) arr /\
      (fix gof (l : list (string * pval inum)) : Prop :=
         match l with [] => True | (_, x) :: r => pval_ok x /\ gof r end) flds
  | _ => True
  end.

(* no recorded outcome is a Go panic, every printed number is consistent *)
Definition item_ok (g : gitem inum) : Prop :=
  match g with
  | GPrint l => Forall pval_ok l
  | GInit (Some (FPanic _)) => False
  | GCall (Fail (FPanic _)) => False
  | _ => True
  end.

Record st_ok (s : state inum) : Prop := mkOk {
  ok_frames : Forall frame_ok (st_frames s);
  ok_maps : Forall mapobj_ok (st_maps s);
  ok_skill : Forall (fun p => cb_ok (snd p)) (st_skill s);
  ok_ult : Forall cb_ok (st_ult s);
  ok_trace : Forall item_ok (st_trace s) }.

(* [sim f okA mi ms]: from every consistent state, the reference computation [ms] started in
   the abstracted state does what the implementation computation [mi] does: same outcome (the
   result abstracted by [f]), abstracted final state; the invariant is kept and the result
   satisfies [okA] *)
(* the outcome is not a Go panic, and a result satisfies [okA] *)
Definition res_ok {A} (okA : A -> Prop) (r : res A) : Prop :=
  match r with Ok a => okA a | Fail (FPanic _) => False | Fail _ => True end.
Definition no_panic (x : failure) : Prop := match x with FPanic _ => False | _ => True end.

Definition sim {A B} (f : A -> B) (okA : A -> Prop) (mi : M inum A) (ms : M snum B) : Prop :=
  forall s, st_ok s ->
    ms (abs_st s) = (map_res f (fst (mi s)), abs_st (snd (mi s))) /\
    st_ok (snd (mi s)) /\
    res_ok okA (fst (mi s)).

Definition anyA {A} (_ : A) : Prop := True.

Lemma sim_ret : forall A B (f : A -> B) (okA : A -> Prop) a, okA a -> sim f okA (ret a) (ret (f a)).
Proof.
  intros A B f okA a Ha s Hs; cbn; split; [reflexivity | split; [exact Hs | exact Ha]].
Qed.

Lemma sim_fail : forall A B (f : A -> B) (okA : A -> Prop) x,
  no_panic x -> sim f okA (fail x) (fail x).
Proof.
  intros A B f okA x Hx s Hs; cbn; split; [reflexivity | split; [exact Hs |]].
  destruct x; cbn in *; auto.
Qed.

Lemma sim_err : forall A B (f : A -> B) (okA : A -> Prop) e, sim f okA (err e) (err e).
Proof. intros; apply sim_fail; exact I. Qed.

Lemma sim_bind : forall A B C D (f : A -> B) (g : C -> D) okA okC mi ms ki ks,
  sim f okA mi ms ->
  (forall a, okA a -> sim g okC (ki a) (ks (f a))) ->
  sim g okC (bind_ mi ki) (bind_ ms ks).
Proof.
  intros A B C D f g okA okC mi ms ki ks Hm Hk s Hs.
  destruct (Hm s Hs) as (E & Hs' & Ha). unfold bind_. rewrite E.
  destruct (mi s) as [[a | x] s']; cbn in *.
  - apply (Hk a Ha s' Hs').
  - split; [reflexivity | split; [exact Hs' | exact Ha]].
Qed.

(* weakening of the result predicate *)
Lemma sim_weaken : forall A B (f : A -> B) (ok1 ok2 : A -> Prop) mi ms,
  (forall a, ok1 a -> ok2 a) -> sim f ok1 mi ms -> sim f ok2 mi ms.
Proof.
  intros A B f ok1 ok2 mi ms Hw H s Hs. destruct (H s Hs) as (E & Hs' & Ha).
  split; [exact E | split; [exact Hs' |]]. destruct (fst (mi s)) as [a | x]; cbn in *; auto.
Qed.

(* the two computations may be rewritten to equal ones *)
Lemma sim_ext : forall A B (f : A -> B) okA mi mi' ms ms',
  (forall s, mi s = mi' s) -> (forall s, ms s = ms' s) -> sim f okA mi' ms' -> sim f okA mi ms.
Proof.
  intros A B f okA mi mi' ms ms' Hi Hsp H s Hs. rewrite Hi, Hsp. apply H; exact Hs.
Qed.

(* ======================================================================================== *)
(* Part 3: the store primitives commute with the abstraction and keep the invariant         *)
(* ======================================================================================== *)

Lemma list_set_map : forall A B (g : A -> B) l i x,
  list_set (map g l) i (g x) = map g (list_set l i x).
Proof.
  intros A B g l; induction l as [| y l IH]; intros [| i] x; cbn; try reflexivity.
  rewrite IH; reflexivity.
Qed.

Lemma Forall_list_set : forall A (P : A -> Prop) l i x,
  Forall P l -> P x -> Forall P (list_set l i x).
Proof.
  intros A P l; induction l as [| y l IH]; intros [| i] x Hl Hx; cbn; auto;
    inversion Hl; subst; constructor; auto.
Qed.

Lemma Forall_nth : forall A (P : A -> Prop) l i d, Forall P l -> P d -> P (nth i l d).
Proof.
  intros A P l; induction l as [| y l IH]; intros [| i] d Hl Hd; cbn; auto;
    inversion Hl; subst; auto.
Qed.

Lemma Forall_nth_error : forall A (P : A -> Prop) l i x,
  Forall P l -> nth_error l i = Some x -> P x.
Proof.
  intros A P l; induction l as [| y l IH]; intros [| i] x Hl H; cbn in H; try discriminate H;
    inversion Hl; subst.
  - inversion H; subst; assumption.
  - eapply IH; eassumption.
Qed.

Lemma nth_abs_frame : forall frames f, nth f (map abs_frame frames) [] = abs_frame (nth f frames []).
Proof. intros; apply (map_nth abs_frame frames [] f). Qed.

Lemma frame_get_abs : forall fr k, frame_get (abs_frame fr) k = option_map abs_bind (frame_get fr k).
Proof.
  induction fr as [| [k' b] fr IH]; intros k; cbn; [reflexivity |].
  destruct (string_eqb k k'); [reflexivity | apply IH].
Qed.

Lemma frame_put_abs : forall fr k b,
  frame_put (abs_frame fr) k (abs_bind b) = abs_frame (frame_put fr k b).
Proof.
  induction fr as [| [k' b'] fr IH]; intros k b; cbn; [reflexivity |].
  destruct (string_eqb k k'); cbn; [reflexivity | rewrite IH; reflexivity].
Qed.

Lemma frame_get_ok : forall fr k b, frame_ok fr -> frame_get fr k = Some b -> bind_ok b.
Proof.
  induction fr as [| [k' b'] fr IH]; intros k b Hf H; cbn in H; [discriminate H |].
  inversion Hf; subst. destruct (string_eqb k k').
  - inversion H; subst; assumption.
  - eapply IH; eassumption.
Qed.

Lemma frame_put_ok : forall fr k b, frame_ok fr -> bind_ok b -> frame_ok (frame_put fr k b).
Proof.
  induction fr as [| [k' b'] fr IH]; intros k b Hf Hb; cbn.
  - constructor; [exact Hb | constructor].
  - inversion Hf; subst. destruct (string_eqb k k'); constructor; auto. apply IH; assumption.
Qed.

Definition abs_fb (p : nat * bind inum) : nat * bind snum := (fst p, abs_bind (snd p)).

Lemma lookup_abs : forall frames env k,
  lookup (map abs_frame frames) env k = option_map abs_fb (lookup frames env k).
Proof.
  intros frames env k; induction env as [| f env IH]; cbn; [reflexivity |].
  rewrite nth_abs_frame, frame_get_abs. destruct (frame_get (nth f frames []) k); cbn;
    [reflexivity | exact IH].
Qed.

Lemma lookup_ok : forall frames env k f b,
  Forall frame_ok frames -> lookup frames env k = Some (f, b) -> bind_ok b.
Proof.
  intros frames env k f b Hf; induction env as [| f' env IH]; cbn; intros H; [discriminate H |].
  destruct (frame_get (nth f' frames []) k) eqn:E.
  - inversion H; subst. eapply frame_get_ok; [| exact E]. apply Forall_nth; [exact Hf | constructor].
  - apply IH; exact H.
Qed.

Lemma read_bind_abs : forall s b,
  read_bind (abs_st s) (abs_bind b) = map_res abs_val (read_bind s b).
Proof.
  intros s [v | m i]; cbn; [reflexivity |].
  rewrite nth_error_map. destruct (nth_error (st_maps s) m) as [mo |]; cbn; [| reflexivity].
  rewrite nth_error_map. destruct (nth_error (m_arr mo) i); reflexivity.
Qed.

Lemma read_bind_ok : forall s b v, st_ok s -> bind_ok b -> read_bind s b = Ok v -> val_ok v.
Proof.
  intros s [v' | m i] v Hs Hb H; cbn in H.
  - inversion H; subst; exact Hb.
  - destruct (nth_error (st_maps s) m) as [mo |] eqn:Em; [| discriminate H].
    destruct (nth_error (m_arr mo) i) as [x |] eqn:Ei; [| discriminate H].
    inversion H; subst. pose proof (Forall_nth_error _ _ _ _ _ (ok_maps s Hs) Em) as [Ha _].
    eapply Forall_nth_error; eassumption.
Qed.

Lemma sim_get_var : forall env k, sim abs_val val_ok (get_var env k) (get_var env k).
Proof.
  intros env k s Hs. unfold get_var; cbn [st_frames abs_st].
  rewrite lookup_abs. destruct (lookup (st_frames s) env k) as [[f b] |] eqn:E; cbn.
  - rewrite read_bind_abs. split; [reflexivity | split; [exact Hs |]]. cbn [fst].
    destruct (read_bind s b) as [v | x] eqn:Er; cbn [res_ok].
    + eapply read_bind_ok; [exact Hs | | exact Er].
      eapply lookup_ok; [apply (ok_frames s Hs) | exact E].
    + destruct b as [v | m i]; cbn in Er; [discriminate Er |].
      destruct (nth_error (st_maps s) m) as [mo |]; [| inversion Er; exact I].
      destruct (nth_error (m_arr mo) i); inversion Er; exact I.
  - split; [reflexivity | split; [exact Hs | exact I]].
Qed.

(* state updates keep the invariant *)
Lemma ok_upd_frames : forall s fs, st_ok s -> Forall frame_ok fs -> st_ok (upd_frames s fs).
Proof. intros s fs [H1 H2 H3 H4 H5] Hf; constructor; cbn; assumption. Qed.
Lemma ok_upd_maps : forall s ms, st_ok s -> Forall mapobj_ok ms -> st_ok (upd_maps s ms).
Proof. intros s ms [H1 H2 H3 H4 H5] Hm; constructor; cbn; assumption. Qed.
Lemma ok_upd_trace : forall s tr, st_ok s -> Forall item_ok tr -> st_ok (upd_trace s tr).
Proof. intros s tr [H1 H2 H3 H4 H5] Ht; constructor; cbn; assumption. Qed.

Lemma abs_upd_frames : forall s fs, abs_st (upd_frames s fs) = upd_frames (abs_st s) (map abs_frame fs).
Proof. reflexivity. Qed.
Lemma abs_upd_maps : forall s ms, abs_st (upd_maps s ms) = upd_maps (abs_st s) (map abs_mapobj ms).
Proof. reflexivity. Qed.
Lemma abs_upd_trace : forall s tr, abs_st (upd_trace s tr) = upd_trace (abs_st s) (map abs_item tr).
Proof. reflexivity. Qed.

Lemma abs_mapobj_mk : forall arr flds,
  abs_mapobj (mkMap arr flds) = mkMap (map abs_val arr) (map abs_kv flds).
Proof. reflexivity. Qed.

Ltac sim_done Hs := split; [reflexivity | split; [exact Hs | exact I]].

Lemma sim_assign_var : forall env k v, val_ok v ->
  sim (fun u : unit => u) anyA (assign_var env k v) (assign_var env k (abs_val v)).
Proof.
  intros env k v Hv s Hs. unfold assign_var; cbn [st_frames st_maps abs_st].
  rewrite lookup_abs. destruct (lookup (st_frames s) env k) as [[f [v0 | m i]] |] eqn:E; cbn.
  - split; [| split; [| exact I]].
    + rewrite abs_upd_frames, <- list_set_map, nth_abs_frame.
      change (BVal (abs_val v)) with (abs_bind (BVal v)). rewrite frame_put_abs. reflexivity.
    + apply ok_upd_frames; [exact Hs |]. apply Forall_list_set; [apply (ok_frames s Hs) |].
      apply frame_put_ok; [| exact Hv]. apply Forall_nth; [apply (ok_frames s Hs) | constructor].
  - rewrite nth_error_map. destruct (nth_error (st_maps s) m) as [mo |] eqn:Em; cbn.
    + split; [| split; [| exact I]].
      * rewrite abs_upd_maps, <- list_set_map, abs_mapobj_mk, <- list_set_map. reflexivity.
      * apply ok_upd_maps; [exact Hs |]. apply Forall_list_set; [apply (ok_maps s Hs) |].
        pose proof (Forall_nth_error _ _ _ _ _ (ok_maps s Hs) Em) as [Ha Hf].
        split; cbn; [apply Forall_list_set; assumption | exact Hf].
    + sim_done Hs.
  - sim_done Hs.
Qed.

Lemma map_app_one : forall A B (g : A -> B) l x, map g (l ++ [x]) = map g l ++ [g x].
Proof. intros; rewrite map_app; reflexivity. Qed.

Lemma sim_alloc_frame : forall env,
  sim (fun e : list nat => e) anyA (alloc_frame env) (alloc_frame env).
Proof.
  intros env s Hs. unfold alloc_frame; cbn [st_frames abs_st]. cbn [fst snd map_res].
  split; [| split; [| exact I]].
  - rewrite map_length, abs_upd_frames, map_app_one. reflexivity.
  - apply ok_upd_frames; [exact Hs |]. apply Forall_app; split; [apply (ok_frames s Hs) |].
    constructor; constructor.
Qed.

Lemma sim_set_local : forall f k b, bind_ok b ->
  sim (fun u : unit => u) anyA (set_local f k b) (set_local f k (abs_bind b)).
Proof.
  intros f k b Hb s Hs. unfold set_local; cbn [st_frames abs_st]. cbn [fst snd map_res].
  split; [| split; [| exact I]].
  - rewrite abs_upd_frames, <- list_set_map, nth_abs_frame, frame_put_abs. reflexivity.
  - apply ok_upd_frames; [exact Hs |]. apply Forall_list_set; [apply (ok_frames s Hs) |].
    apply frame_put_ok; [| exact Hb]. apply Forall_nth; [apply (ok_frames s Hs) | constructor].
Qed.

Lemma sim_declare : forall env k v, val_ok v ->
  sim (fun u : unit => u) anyA (declare env k v) (declare env k (abs_val v)).
Proof.
  intros env k v Hv. destruct env as [| f env]; cbn [declare]; [apply sim_fail; exact I |].
  intros s Hs. cbn [st_frames abs_st]. rewrite nth_abs_frame, frame_get_abs.
  destruct (frame_get (nth f (st_frames s) []) k); cbn.
  - sim_done Hs.
  - apply (sim_set_local f k (BVal v) Hv s Hs).
Qed.

Lemma sim_alloc_map : forall arr flds,
  Forall val_ok arr -> Forall (fun kv => val_ok (snd kv)) flds ->
  sim (fun a : nat => a) anyA (alloc_map arr flds) (alloc_map (map abs_val arr) (map abs_kv flds)).
Proof.
  intros arr flds Ha Hf s Hs. unfold alloc_map; cbn [st_maps abs_st]. cbn [fst snd map_res].
  split; [| split; [| exact I]].
  - rewrite map_length, abs_upd_maps, map_app_one. reflexivity.
  - apply ok_upd_maps; [exact Hs |]. apply Forall_app; split; [apply (ok_maps s Hs) |].
    constructor; [split; assumption | constructor].
Qed.

Lemma sim_get_arr : forall a, sim (map abs_val) (Forall val_ok) (get_arr a) (get_arr a).
Proof.
  intros a s Hs. unfold get_arr; cbn [st_maps abs_st]. rewrite nth_error_map.
  destruct (nth_error (st_maps s) a) as [mo |] eqn:E; cbn.
  - split; [reflexivity | split; [exact Hs |]]. cbn.
    apply (Forall_nth_error _ _ _ _ _ (ok_maps s Hs) E).
  - sim_done Hs.
Qed.

Lemma sim_swap_arr : forall a i j, sim (fun u : unit => u) anyA (swap_arr a i j) (swap_arr a i j).
Proof.
  intros a i j s Hs. unfold swap_arr; cbn [st_maps abs_st]. rewrite nth_error_map.
  destruct (nth_error (st_maps s) a) as [mo |] eqn:E; cbn; [| sim_done Hs].
  rewrite !nth_error_map.
  destruct (nth_error (m_arr mo) i) as [x |] eqn:Ei; cbn; [| sim_done Hs].
  destruct (nth_error (m_arr mo) j) as [y |] eqn:Ej; cbn; [| sim_done Hs].
  pose proof (Forall_nth_error _ _ _ _ _ (ok_maps s Hs) E) as [Ha Hf].
  split; [| split; [| exact I]].
  - rewrite abs_upd_maps, <- list_set_map, abs_mapobj_mk, <- !list_set_map. reflexivity.
  - apply ok_upd_maps; [exact Hs |]. apply Forall_list_set; [apply (ok_maps s Hs) |].
    split; cbn; [| exact Hf].
    apply Forall_list_set; [apply Forall_list_set; [exact Ha |] |];
      eapply Forall_nth_error; eassumption.
Qed.

Lemma sim_emit : forall it, item_ok it -> sim (fun u : unit => u) anyA (emit it) (emit (abs_item it)).
Proof.
  intros it Hi s Hs. unfold emit. split; [reflexivity | split; [| exact I]].
  apply ok_upd_trace; [exact Hs | constructor; [exact Hi | apply (ok_trace s Hs)]].
Qed.

Lemma sim_emit_calls : forall cs, sim (fun u : unit => u) anyA (emit_calls cs) (emit_calls cs).
Proof.
  intros cs s Hs. unfold emit_calls. cbn [fst snd map_res]. split; [| split; [| exact I]].
  - rewrite abs_upd_trace, map_app, map_rev, !map_map. reflexivity.
  - apply ok_upd_trace; [exact Hs |]. apply Forall_app; split; [| apply (ok_trace s Hs)].
    apply Forall_forall; intros x Hx. apply in_rev, in_map_iff in Hx.
    destruct Hx as (c & <- & _); exact I.
Qed.

Lemma export_abs : forall fuel maps v,
  export fuel (map abs_mapobj maps) (abs_val v) = abs_pval (export fuel maps v).
Proof.
  induction fuel as [| fuel IH]; intros maps v; destruct v; cbn; try reflexivity.
  rewrite nth_error_map. destruct (nth_error maps a) as [mo |]; cbn; [| reflexivity].
  rewrite !map_map. f_equal.
  - apply map_ext; intros x; apply IH.
  - apply map_ext; intros [k x]; cbn; rewrite IH; reflexivity.
Qed.

Lemma export_ok : forall fuel maps v,
  Forall mapobj_ok maps -> val_ok v -> pval_ok (export fuel maps v).
Proof.
  induction fuel as [| fuel IH]; intros maps v Hm Hv; destruct v; cbn [export pval_ok]; auto.
  destruct (nth_error maps a) as [mo |] eqn:E; cbn [pval_ok]; [| exact I].
  destruct (Forall_nth_error _ _ _ _ _ Hm E) as [Ha Hf]. split.
  - induction Ha as [| x l Hx Hl IHl]; cbn [map]; [exact I | split; [apply IH; assumption | exact IHl]].
  - induction Hf as [| [k x] l Hx Hl IHl]; cbn [map fst snd]; [exact I | split; [apply IH; assumption | exact IHl]].
Qed.

Lemma sim_emit_print : forall vs, Forall val_ok vs ->
  sim (fun u : unit => u) anyA (emit_print vs) (emit_print (map abs_val vs)).
Proof.
  intros vs Hvs s Hs. unfold emit_print; cbn [st_maps abs_st]. cbn [fst snd map_res].
  split; [| split; [| exact I]].
  - rewrite abs_upd_trace, map_length. cbn [map abs_item]. rewrite !map_map.
    do 4 f_equal. apply map_ext; intros v; apply export_abs.
  - apply ok_upd_trace; [exact Hs | constructor; [| apply (ok_trace s Hs)]].
    cbn [item_ok]. apply Forall_forall; intros x Hx. apply in_map_iff in Hx.
    destruct Hx as (v & <- & Hin). apply export_ok; [apply (ok_maps s Hs) |].
    eapply Forall_forall; eassumption.
Qed.

Lemma sim_draw : sim (fun f : float => f) anyA draw draw.
Proof.
  intros s Hs. unfold draw; cbn [st_draws abs_st]. destruct (draw_float (st_draws s)) as [f r].
  split; [reflexivity | split; [| exact I]].
  destruct Hs as [H1 H2 H3 H4 H5]; constructor; cbn; assumption.
Qed.

Lemma zassoc_put_ok : forall A (P : A -> Prop) k v l,
  Forall (fun p => P (snd p)) l -> P v -> Forall (fun p => P (snd p)) (zassoc_put k v l).
Proof.
  intros A P k v l; induction l as [| [k' v'] l IH]; intros Hl Hv; cbn.
  - constructor; [exact Hv | constructor].
  - inversion Hl; subst. destruct (k =? k'); constructor; auto.
Qed.

Lemma sim_reg_skill : forall c, cb_ok c -> sim (fun u : unit => u) anyA (reg_skill c) (reg_skill c).
Proof.
  intros c Hc s Hs. unfold reg_skill. split; [reflexivity | split; [| exact I]].
  destruct Hs as [H1 H2 H3 H4 H5]; constructor; cbn; try assumption.
  apply zassoc_put_ok; assumption.
Qed.

Lemma sim_reg_ult : forall c, cb_ok c -> sim (fun u : unit => u) anyA (reg_ult c) (reg_ult c).
Proof.
  intros c Hc s Hs. unfold reg_ult. split; [reflexivity | split; [| exact I]].
  destruct Hs as [H1 H2 H3 H4 H5]; constructor; cbn; try assumption.
  apply Forall_app; split; [assumption | constructor; [exact Hc | constructor]].
Qed.

Lemma sim_set_default : forall t a, sim (fun u : unit => u) anyA (set_default t a) (set_default t a).
Proof.
  intros t a s Hs. unfold set_default. split; [reflexivity | split; [| exact I]].
  destruct Hs as [H1 H2 H3 H4 H5]; constructor; cbn; assumption.
Qed.

(* ======================================================================================== *)
(* Part 4: the implementation model refines the reference semantics                         *)
(* ======================================================================================== *)

Module E := GcsEval.
Module R := GcsSem.

Definition abs_sres (r : sres) : sig :=
  match r with RObj _ => SNormal | RRet v => SRet (abs_val v) | RCtr t => SCtl t end.
(* what a statement may evaluate to / what a block evaluates to *)
Definition sres_ok (r : sres) : Prop :=
  match r with RObj o => val_ok o | RRet v => val_ok v | RCtr _ => True end.
Definition blk_ok (r : sres) : Prop :=
  match r with RObj o => o = VNull | RRet v => val_ok v | RCtr _ => True end.
Definition abs_cases (r : sres + bool * bool) : sig + bool * bool :=
  match r with inl x => inl (abs_sres x) | inr p => inr p end.
Definition cases_ok (r : sres + bool * bool) : Prop :=
  match r with inl x => blk_ok x | inr _ => True end.

Lemma blk_ok_sres_ok : forall r, blk_ok r -> sres_ok r.
Proof. intros [o | v | t]; cbn; auto. intros ->; exact I. Qed.

Definition wf_kv (kv : string * expr) : bool := wf_expr (snd kv).
Definition kv_ok (kv : string * obj) : Prop := val_ok (snd kv).

Lemma eng_query_no_panic : forall q e id n2 s2 f,
  snd (eng_query q e id n2 s2) = Fail f -> no_panic f.
Proof.
  intros q e id n2 s2 f; destruct q; cbn;
    repeat match goal with
           | |- context [if ?c then _ else _] => destruct c; cbn
           | |- context [match ?o with Some _ => _ | None => _ end] => destruct o; cbn
           end;
    intros Hf; inversion Hf; exact I.
Qed.

(* what validateArguments returns: consistent values of the requested types *)
Definition typed_ok (args : list expr) (tys : list ty) (vs : list obj) : Prop :=
  Forall val_ok vs /\
  (Datatypes.length args = Datatypes.length tys -> map (@ty_of inum) vs = tys).

Lemma ty_eqb_eq : forall a b, ty_eqb a b = true -> a = b.
Proof. intros [] []; cbn; intros H; try discriminate H; reflexivity. Qed.

Section Refinement.
Variable eng : engine.

Record IH (n : nat) : Prop := mkIH {
  ih_expr : forall e env, wf_expr e = true ->
      sim abs_val val_ok (E.eval_expr eng n e env) (R.eval_expr eng n e env);
  ih_exprs : forall es env, forallb wf_expr es = true ->
      sim (map abs_val) (Forall val_ok) (E.eval_exprs eng n es env) (R.eval_exprs eng n es env);
  ih_fields : forall fs env, forallb wf_kv fs = true ->
      sim (map abs_kv) (Forall kv_ok) (E.eval_fields eng n fs env) (R.eval_fields eng n fs env);
  ih_bind : forall ps args env lf, forallb wf_expr args = true ->
      sim (fun u : unit => u) anyA (E.bind_params eng n ps args env lf) (R.bind_params eng n ps args env lf);
  ih_validate : forall args tys env, forallb wf_expr args = true ->
      sim (map abs_val) (typed_ok args tys) (E.validate_loop eng n args tys env) (R.validate_loop eng n args tys env);
  ih_bif : forall b args env, forallb wf_expr args = true ->
      sim abs_val val_ok (E.call_bif eng n b args env) (R.call_bif eng n b args env);
  ih_sort_outer : forall m i len p q body local, wf_block body = true ->
      sim (fun u : unit => u) anyA (E.sort_outer eng n m i len p q body local) (R.sort_outer eng n m i len p q body local);
  ih_sort_inner : forall m j p q body local, wf_block body = true ->
      sim (fun u : unit => u) anyA (E.sort_inner eng n m j p q body local) (R.sort_inner eng n m j p q body local);
  ih_any : forall m i p body local, wf_block body = true ->
      sim abs_val val_ok (E.any_loop eng n m i p body local) (R.any_loop eng n m i p body local);
  ih_stmt : forall s env, wf_stmt s = true ->
      sim abs_sres sres_ok (E.eval_stmt eng n s env) (R.eval_stmt eng n s env);
  ih_nodes : forall ns scope, forallb wf_node ns = true ->
      sim abs_sres blk_ok (E.eval_nodes eng n ns scope) (R.eval_nodes eng n ns scope);
  ih_block : forall b env, wf_block b = true ->
      sim abs_sres blk_ok (E.eval_block eng n b env) (R.eval_block eng n b env);
  ih_while : forall c b env, wf_expr c = true -> wf_block b = true ->
      sim abs_sres blk_ok (E.eval_while eng n c b env) (R.eval_while eng n c b env);
  ih_for : forall cond post body scope, wf_expr cond = true -> wf_stmt post = true -> wf_block body = true ->
      sim abs_sres blk_ok (E.eval_for eng n cond post body scope) (R.eval_for eng n cond post body scope);
  ih_cases : forall v cases ft found env, forallb wf_case cases = true ->
      sim abs_cases cases_ok (E.eval_cases eng n v cases ft found env)
                              (R.eval_cases eng n (option_map abs_num v) cases ft found env) }.

Lemma IH_0 : IH 0.
Proof. constructor; intros; apply sim_fail; exact I. Qed.

Ltac sim_step :=
  lazymatch goal with
  | |- sim _ _ (ret _) (ret _) => apply sim_ret
  | |- sim _ _ (fail _) (fail _) => apply sim_fail
  | |- sim _ _ (err _) (err _) => apply sim_err
  end.

Ltac andb_split H :=
  repeat match type of H with
         | (_ && _) = true => let H1 := fresh H in apply andb_true_iff in H; destruct H as [H H1]
         end.

Section Step.
Variable n : nat.
Hypothesis H : IH n.

Lemma step_exprs : forall es env, forallb wf_expr es = true ->
  sim (map abs_val) (Forall val_ok) (E.eval_exprs eng (S n) es env) (R.eval_exprs eng (S n) es env).
Proof.
  intros [| e r] env Hl; cbn [E.eval_exprs R.eval_exprs].
  - apply (sim_ret _ _ (map abs_val) (Forall val_ok) []); constructor.
  - cbn [forallb] in Hl; andb_split Hl.
    eapply sim_bind; [apply (ih_expr n H); exact Hl | intros v Hv].
    eapply sim_bind; [apply (ih_exprs n H); exact Hl0 | intros vs Hvs].
    apply (sim_ret _ _ (map abs_val) (Forall val_ok) (v :: vs)). constructor; assumption.
Qed.

Lemma step_fields : forall fs env, forallb wf_kv fs = true ->
  sim (map abs_kv) (Forall kv_ok) (E.eval_fields eng (S n) fs env) (R.eval_fields eng (S n) fs env).
Proof.
  intros [| [k e] r] env Hl; cbn [E.eval_fields R.eval_fields].
  - apply (sim_ret _ _ (map abs_kv) (Forall kv_ok) []); constructor.
  - cbn [forallb] in Hl; andb_split Hl.
    eapply sim_bind; [apply (ih_expr n H); exact Hl | intros v Hv].
    eapply sim_bind; [apply (ih_fields n H); exact Hl0 | intros vs Hvs].
    apply (sim_ret _ _ (map abs_kv) (Forall kv_ok) ((k, v) :: vs)). constructor; assumption.
Qed.

Lemma step_bind : forall ps args env lf, forallb wf_expr args = true ->
  sim (fun u : unit => u) anyA (E.bind_params eng (S n) ps args env lf) (R.bind_params eng (S n) ps args env lf).
Proof.
  intros [| p ps] [| a args] env lf Hl; cbn [E.bind_params R.bind_params];
    try (apply (sim_ret _ _ (fun u : unit => u) anyA tt); exact I).
  cbn [forallb] in Hl; andb_split Hl.
  eapply sim_bind; [apply (ih_expr n H); exact Hl | intros v Hv].
  eapply sim_bind; [apply (sim_set_local lf p (BVal v)); exact Hv | intros _ _].
  apply (ih_bind n H); exact Hl0.
Qed.

Lemma ty_of_abs : forall v, ty_of (abs_val v) = ty_of v.
Proof. intros []; reflexivity. Qed.

Lemma step_validate : forall args tys env, forallb wf_expr args = true ->
  sim (map abs_val) (typed_ok args tys) (E.validate_loop eng (S n) args tys env) (R.validate_loop eng (S n) args tys env).
Proof.
  intros [| a args] [| t tys] env Hl; cbn [E.validate_loop R.validate_loop];
    try (apply (sim_ret _ _ (map abs_val) (typed_ok _ _) []); split; [constructor |];
         cbn; intros Hlen; first [reflexivity | discriminate Hlen]).
  cbn [forallb] in Hl; andb_split Hl.
  eapply sim_bind; [apply (ih_expr n H); exact Hl | intros v Hv].
  rewrite ty_of_abs. destruct (ty_eqb (ty_of v) t) eqn:Et; [| apply sim_err].
  eapply sim_bind; [apply (ih_validate n H); exact Hl0 | intros vs [Hvs Hty]].
  apply (sim_ret _ _ (map abs_val) (typed_ok _ _) (v :: vs)). split; [constructor; assumption |].
  cbn; intros Hlen. apply ty_eqb_eq in Et. rewrite Et, Hty; [reflexivity | congruence].
Qed.

Lemma sim_binop : forall t a b,
  sim abs_val val_ok (ibinop t a b) (sbinop t (abs_num a) (abs_num b)).
Proof.
  intros t a b s Hs. rewrite ibinop_pure, sbinop_is_pure, <- operators_refine. cbn [fst snd].
  split; [reflexivity | split; [exact Hs |]].
  destruct (binop_pure t a b) as [v | x] eqn:Eb; cbn [res_ok].
  - destruct v; cbn; auto.
    + eapply operators_preserve_invariant; exact Eb.
    + destruct t; cbn in Eb; try discriminate Eb. destruct (idiv a b); discriminate Eb.
  - pose proof (operators_never_panic t a b) as Hn. rewrite Eb in Hn. destruct x; auto.
Qed.

Lemma step_expr : forall e env, wf_expr e = true ->
  sim abs_val val_ok (E.eval_expr eng (S n) e env) (R.eval_expr eng (S n) e env).
Proof.
  intros e env Hl; destruct e; cbn [E.eval_expr R.eval_expr].
  - apply (sim_ret _ _ abs_val val_ok VNull); exact I.
  - apply (sim_ret _ _ abs_val val_ok (VNum (mkNum ival fval isfloat))).
    apply ok_lit; exact Hl.
  - apply (sim_ret _ _ abs_val val_ok (VStr (trim_quotes v))); exact I.
  - apply (sim_ret _ _ abs_val val_ok VNull); exact I.
  - apply (sim_ret _ _ abs_val val_ok VNull); exact I.
  - apply (sim_ret _ _ abs_val val_ok (VFun args body)); exact Hl.
  - apply sim_get_var.
  - (* call *)
    cbn [wf_expr] in Hl; andb_split Hl.
    eapply sim_bind; [apply (ih_expr n H); exact Hl | intros fv Hfv].
    destruct fv; cbn [abs_val]; try apply sim_err.
    + (* a gcs function *)
      destruct (Nat.eqb (Datatypes.length args) (Datatypes.length args0)); [| apply sim_err].
      eapply sim_bind; [apply sim_alloc_frame | intros local _].
      eapply sim_bind; [apply (ih_bind n H); exact Hl0 | intros _ _].
      eapply sim_bind; [apply (ih_block n H); exact Hfv | intros r Hr].
      destruct r as [o | v | t]; cbn [abs_sres].
      * cbn in Hr; subst o. apply (sim_ret _ _ abs_val val_ok VNull); exact I.
      * apply (sim_ret _ _ abs_val val_ok v); exact Hr.
      * apply sim_err.
    + apply (ih_bif n H); exact Hl0.
  - (* unary *)
    cbn [wf_expr] in Hl.
    eapply sim_bind; [apply (ih_expr n H); exact Hl | intros v Hv].
    destruct v; cbn [abs_val]; try apply sim_err.
    rewrite <- abs_iunop. apply sim_ret.
    destruct (iunop (t_typ op) n0) eqn:Eu; cbn; auto. eapply ok_iunop; exact Eu.
    destruct (t_typ op); discriminate Eu.
  - (* binary *)
    cbn [wf_expr] in Hl; andb_split Hl.
    eapply sim_bind; [apply (ih_expr n H); exact Hl | intros vl Hvl].
    eapply sim_bind; [apply (ih_expr n H); exact Hl0 | intros vr Hvr].
    destruct vl, vr; cbn [abs_val]; try apply sim_err. apply sim_binop.
  - (* map literal *)
    cbn [wf_expr] in Hl; andb_split Hl.
    eapply sim_bind; [apply (ih_exprs n H); exact Hl | intros vs Hvs].
    eapply sim_bind; [apply (ih_fields n H); exact Hl0 | intros fs Hfs].
    eapply sim_bind; [apply sim_alloc_map; assumption | intros a _].
    apply (sim_ret _ _ abs_val val_ok (VMap a)); exact I.
Qed.

Lemma otob_abs : forall v, truthy (abs_val v) = otob v.
Proof. intros []; cbn; try reflexivity. apply truthy_abs. Qed.

Lemma step_block : forall b env, wf_block b = true ->
  sim abs_sres blk_ok (E.eval_block eng (S n) b env) (R.eval_block eng (S n) b env).
Proof.
  intros [| l] env Hl; cbn [E.eval_block R.eval_block]; [discriminate Hl |].
  eapply sim_bind; [apply sim_alloc_frame | intros scope _].
  apply (ih_nodes n H); exact Hl.
Qed.

Lemma step_nodes : forall ns scope, forallb wf_node ns = true ->
  sim abs_sres blk_ok (E.eval_nodes eng (S n) ns scope) (R.eval_nodes eng (S n) ns scope).
Proof.
  intros [| [e | st] r] scope Hl; cbn [E.eval_nodes R.eval_nodes].
  - apply (sim_ret _ _ abs_sres blk_ok (RObj VNull)); reflexivity.
  - cbn [forallb wf_node] in Hl; andb_split Hl.
    eapply sim_bind; [apply (ih_expr n H); exact Hl | intros _ _].
    apply (ih_nodes n H); exact Hl0.
  - cbn [forallb wf_node] in Hl; andb_split Hl.
    eapply sim_bind; [apply (ih_stmt n H); exact Hl | intros v Hv].
    destruct v as [o | v | t]; cbn [abs_sres].
    + apply (ih_nodes n H); exact Hl0.
    + apply (sim_ret _ _ abs_sres blk_ok (RRet v)); exact Hv.
    + apply (sim_ret _ _ abs_sres blk_ok (RCtr t)); exact I.
Qed.

Lemma step_while : forall c b env, wf_expr c = true -> wf_block b = true ->
  sim abs_sres blk_ok (E.eval_while eng (S n) c b env) (R.eval_while eng (S n) c b env).
Proof.
  intros c b env Hc Hb; cbn [E.eval_while R.eval_while].
  eapply sim_bind; [apply (ih_expr n H); exact Hc | intros v Hv].
  rewrite otob_abs. destruct (otob v); [| apply (sim_ret _ _ abs_sres blk_ok (RObj VNull)); reflexivity].
  eapply sim_bind; [apply (ih_block n H); exact Hb | intros r Hr].
  destruct r as [o | x | t]; cbn [abs_sres].
  - apply (ih_while n H); assumption.
  - apply (sim_ret _ _ abs_sres blk_ok (RRet x)); exact Hr.
  - destruct t; try (apply (ih_while n H); assumption).
    apply (sim_ret _ _ abs_sres blk_ok (RObj VNull)); reflexivity.
Qed.

Lemma step_for : forall cond post body scope,
  wf_expr cond = true -> wf_stmt post = true -> wf_block body = true ->
  sim abs_sres blk_ok (E.eval_for eng (S n) cond post body scope) (R.eval_for eng (S n) cond post body scope).
Proof.
  intros cond post body scope Hc Hp Hb; cbn [E.eval_for R.eval_for].
  eapply sim_bind with (f := fun b : bool => b) (okA := anyA).
  { destruct cond; try (apply (sim_ret _ _ (fun b : bool => b) anyA true); exact I);
      (eapply sim_bind; [apply (ih_expr n H); exact Hc | intros vc Hvc];
       rewrite otob_abs; apply (sim_ret _ _ (fun b : bool => b) anyA (otob vc)); exact I). }
  intros go _. destruct go; [| apply (sim_ret _ _ abs_sres blk_ok (RObj VNull)); reflexivity].
  eapply sim_bind; [apply (ih_block n H); exact Hb | intros r Hr].
  assert (Hnext : sim abs_sres blk_ok
            ((match post with
              | SNil => ret tt
              | _ => _ <- E.eval_stmt eng n post scope ;; ret tt
              end) ;;; E.eval_for eng n cond post body scope)
            ((match post with
              | SNil => ret tt
              | _ => _ <- R.eval_stmt eng n post scope ;; ret tt
              end) ;;; R.eval_for eng n cond post body scope)).
  { eapply sim_bind with (f := fun u : unit => u) (okA := anyA).
    - destruct post; try (apply (sim_ret _ _ (fun u : unit => u) anyA tt); exact I);
        (eapply sim_bind; [apply (ih_stmt n H); exact Hp | intros _ _];
         apply (sim_ret _ _ (fun u : unit => u) anyA tt); exact I).
    - intros _ _. apply (ih_for n H); assumption. }
  destruct r as [o | x | t]; cbn [abs_sres].
  - exact Hnext.
  - apply (sim_ret _ _ abs_sres blk_ok (RRet x)); exact Hr.
  - destruct t; try exact Hnext.
    apply (sim_ret _ _ abs_sres blk_ok (RObj VNull)); reflexivity.
Qed.

Lemma step_cases : forall v cases ft found env, forallb wf_case cases = true ->
  sim abs_cases cases_ok (E.eval_cases eng (S n) v cases ft found env)
                          (R.eval_cases eng (S n) (option_map abs_num v) cases ft found env).
Proof.
  intros v [| [ce body] rest] ft found env Hl; cbn [E.eval_cases R.eval_cases].
  - apply (sim_ret _ _ abs_cases cases_ok (inr (ft, found))); exact I.
  - cbn [forallb wf_case] in Hl; andb_split Hl.
    eapply sim_bind; [apply (ih_expr n H); exact Hl | intros cc Hcc].
    destruct cc as [c | | | | | |]; cbn [abs_val]; try apply sim_err.
    assert (Eh : match option_map abs_num v with
                 | Some x => truthy_num (seq (abs_num c) x)
                 | None => truthy_num (abs_num c)
                 end = match v with Some x => ntob (ieq c x) | None => ntob c end).
    { destruct v; cbn; [rewrite <- abs_ieq |]; apply truthy_abs. }
    rewrite Eh. destruct ((match v with Some x => ntob (ieq c x) | None => ntob c end) || ft).
    + eapply sim_bind; [apply (ih_block n H); exact Hl1 | intros r Hr].
      destruct r as [o | x | t]; cbn [abs_sres].
      * apply (sim_ret _ _ abs_cases cases_ok (inl (RObj o))); exact Hr.
      * apply (sim_ret _ _ abs_cases cases_ok (inl (RRet x))); exact Hr.
      * destruct t; try (apply (ih_cases n H); exact Hl0).
        -- apply (sim_ret _ _ abs_cases cases_ok (inl (RObj VNull))); reflexivity.
        -- apply (sim_ret _ _ abs_cases cases_ok (inl (RCtr CtrlContinue))); exact I.
    + apply (ih_cases n H); exact Hl0.
Qed.

Lemma step_stmt : forall st env, wf_stmt st = true ->
  sim abs_sres sres_ok (E.eval_stmt eng (S n) st env) (R.eval_stmt eng (S n) st env).
Proof.
  intros st env Hl; destruct st; cbn [E.eval_stmt R.eval_stmt]; cbn [wf_stmt] in Hl.
  - apply (sim_ret _ _ abs_sres sres_ok (RObj VNull)); exact I.
  - eapply sim_weaken; [apply blk_ok_sres_ok | apply (ih_block n H); exact Hl].
  - eapply sim_bind; [apply (ih_expr n H); exact Hl | intros x Hx].
    eapply sim_bind; [apply sim_assign_var; exact Hx | intros _ _].
    apply (sim_ret _ _ abs_sres sres_ok (RObj x)); exact Hx.
  - eapply sim_bind; [apply (ih_expr n H); exact Hl | intros x Hx].
    eapply sim_bind; [apply sim_declare; exact Hx | intros _ _].
    apply (sim_ret _ _ abs_sres sres_ok (RObj VNull)); exact I.
  - eapply sim_bind; [apply (ih_expr n H); exact Hl | intros x Hx].
    apply (sim_ret _ _ abs_sres sres_ok (RRet x)); exact Hx.
  - apply (sim_ret _ _ abs_sres sres_ok (RCtr t)); exact I.
  - (* if *)
    andb_split Hl.
    eapply sim_bind; [apply (ih_expr n H); exact Hl | intros x Hx].
    rewrite otob_abs. destruct (otob x).
    + eapply sim_weaken; [apply blk_ok_sres_ok | apply (ih_block n H); exact Hl1].
    + destruct st; try (apply (ih_stmt n H); exact Hl0).
      apply (sim_ret _ _ abs_sres sres_ok (RObj VNull)); exact I.
  - (* switch *)
    andb_split Hl.
    eapply sim_bind; [apply (ih_expr n H); exact Hl | intros cv Hcv].
    assert (Hdef : sim abs_sres sres_ok
              (match def with BNil => ret (RObj VNull) | _ => E.eval_block eng n def env end)
              (match def with BNil => ret SNormal | _ => R.eval_block eng n def env end)).
    { destruct def.
      - apply (sim_ret _ _ abs_sres sres_ok (RObj VNull)); exact I.
      - eapply sim_weaken; [apply blk_ok_sres_ok | apply (ih_block n H); exact Hl0]. }
    assert (Hgo : forall v : option inum,
              sim abs_sres sres_ok
                (r <- E.eval_cases eng n v cases false false env ;;
                 match r with
                 | inl res => ret res
                 | inr (ft, found) =>
                     if negb found || ft
                     then match def with BNil => ret (RObj VNull) | _ => E.eval_block eng n def env end
                     else ret (RObj VNull)
                 end)
                (r <- R.eval_cases eng n (option_map abs_num v) cases false false env ;;
                 match r with
                 | inl res => ret res
                 | inr (ft, found) =>
                     if negb found || ft
                     then match def with BNil => ret SNormal | _ => R.eval_block eng n def env end
                     else ret SNormal
                 end)).
    { intros v. eapply sim_bind; [apply (ih_cases n H); exact Hl1 | intros r Hr].
      destruct r as [res | [ft found]]; cbn [abs_cases].
      - apply (sim_ret _ _ abs_sres sres_ok res). apply blk_ok_sres_ok; exact Hr.
      - destruct (negb found || ft); [exact Hdef |].
        apply (sim_ret _ _ abs_sres sres_ok (RObj VNull)); exact I. }
    destruct cv; cbn [abs_val]; try apply sim_err.
    + apply (Hgo (Some n0)).
    + apply (Hgo None).
  - apply (sim_ret _ _ abs_sres sres_ok (RObj VNull)); exact I.
  - eapply sim_bind; [apply (sim_declare env (t_val funval) (VFun args body)); exact Hl | intros _ _].
    apply (sim_ret _ _ abs_sres sres_ok (RObj VNull)); exact I.
  - andb_split Hl.
    eapply sim_weaken; [apply blk_ok_sres_ok | apply (ih_while n H); assumption].
  - andb_split Hl.
    eapply sim_bind; [apply sim_alloc_frame | intros scope _].
    eapply sim_bind with (f := fun u : unit => u) (okA := anyA).
    + destruct st1; try (apply (sim_ret _ _ (fun u : unit => u) anyA tt); exact I);
        (eapply sim_bind; [apply (ih_stmt n H); exact Hl | intros _ _];
         apply (sim_ret _ _ (fun u : unit => u) anyA tt); exact I).
    + intros _ _. eapply sim_weaken; [apply blk_ok_sres_ok | apply (ih_for n H); assumption].
Qed.

Lemma step_sort_outer : forall m i len p q body local, wf_block body = true ->
  sim (fun u : unit => u) anyA (E.sort_outer eng (S n) m i len p q body local)
                               (R.sort_outer eng (S n) m i len p q body local).
Proof.
  intros m i len p q body local Hb; cbn [E.sort_outer R.sort_outer].
  destruct (Nat.ltb i len); [| apply (sim_ret _ _ (fun u : unit => u) anyA tt); exact I].
  eapply sim_bind; [apply (ih_sort_inner n H); exact Hb | intros _ _].
  apply (ih_sort_outer n H); exact Hb.
Qed.

Lemma step_sort_inner : forall m j p q body local, wf_block body = true ->
  sim (fun u : unit => u) anyA (E.sort_inner eng (S n) m j p q body local)
                               (R.sort_inner eng (S n) m j p q body local).
Proof.
  intros m [| j'] p q body local Hb; cbn [E.sort_inner R.sort_inner];
    [apply (sim_ret _ _ (fun u : unit => u) anyA tt); exact I |].
  eapply sim_bind; [apply (sim_set_local (E.hd0 local) p (BSlot m (S j'))); exact I | intros _ _].
  eapply sim_bind; [apply (sim_set_local (E.hd0 local) q (BSlot m j')); exact I | intros _ _].
  eapply sim_bind; [apply (ih_block n H); exact Hb | intros r Hr].
  destruct r as [o | v | t]; cbn [abs_sres]; try apply sim_err.
  rewrite otob_abs. destruct (otob v); [| apply (sim_ret _ _ (fun u : unit => u) anyA tt); exact I].
  eapply sim_bind; [apply sim_swap_arr | intros _ _].
  apply (ih_sort_inner n H); exact Hb.
Qed.

Lemma nth_error_abs : forall (l : list obj) i,
  nth_error (map abs_val l) i = option_map abs_val (nth_error l i).
Proof. intros; apply nth_error_map. Qed.

Lemma step_any : forall m i p body local, wf_block body = true ->
  sim abs_val val_ok (E.any_loop eng (S n) m i p body local) (R.any_loop eng (S n) m i p body local).
Proof.
  intros m i p body local Hb; cbn [E.any_loop R.any_loop].
  eapply sim_bind; [apply sim_get_arr | intros arr Harr].
  rewrite nth_error_abs. destruct (nth_error arr i) as [v |] eqn:Ev; cbn [option_map].
  - eapply sim_bind; [apply (sim_set_local (E.hd0 local) p (BVal v));
                      cbn [bind_ok]; eapply Forall_nth_error; eassumption | intros _ _].
    eapply sim_bind; [apply (ih_block n H); exact Hb | intros r Hr].
    destruct r as [o | x | t]; cbn [abs_sres]; try apply sim_err.
    rewrite otob_abs. destruct (otob x).
    + apply (sim_ret _ _ abs_val val_ok (VNum (bton true))). apply ok_bton.
    + apply (ih_any n H); exact Hb.
  - apply (sim_ret _ _ abs_val val_ok (VNum (bton false))). apply ok_bton.
Qed.

Lemma to_id_abs : forall x, num_ok x -> to_id (abs_num x) = ival x.
Proof.
  intros [i f b] Hx; unfold abs_num; cbn in *. destruct b; [| reflexivity].
  symmetry; apply Hx; reflexivity.
Qed.

Lemma sim_of_raw : forall r, sim abs_val val_ok (E.of_raw r) (R.of_raw r).
Proof.
  intros [b | z | f | l]; cbn [E.of_raw R.of_raw].
  - rewrite <- abs_bton. apply (sim_ret _ _ abs_val val_ok (VNum (bton b))). apply ok_bton.
  - apply (sim_ret _ _ abs_val val_ok (VNum (iof_int z))). apply ok_of_int.
  - apply (sim_ret _ _ abs_val val_ok (VNum (iof_float f))). apply ok_of_float.
  - eapply sim_bind.
    + replace (map (fun id : Z => VNum (NInt id)) l)
        with (map abs_val (map (fun id : Z => VNum (iof_int id)) l))
        by (rewrite map_map; reflexivity).
      apply (sim_alloc_map (map (fun id : Z => VNum (iof_int id)) l) []); [| constructor].
      apply Forall_forall; intros x Hx. apply in_map_iff in Hx; destruct Hx as (id & <- & _).
      apply ok_of_int.
    + intros a _. apply (sim_ret _ _ abs_val val_ok (VMap a)); exact I.
Qed.

Lemma sim_bind_vals : forall lf ps vs, Forall val_ok vs ->
  sim (fun u : unit => u) anyA (E.bind_vals lf ps vs) (R.bind_vals lf ps (map abs_val vs)).
Proof.
  intros lf ps; induction ps as [| p ps IHp]; intros [| v vs] Hvs; cbn [E.bind_vals R.bind_vals map];
    try (apply (sim_ret _ _ (fun u : unit => u) anyA tt); exact I).
  inversion Hvs; subst.
  eapply sim_bind; [apply (sim_set_local lf p (BVal v)); assumption | intros _ _].
  apply IHp; assumption.
Qed.

Lemma sim_validate : forall args tys env, forallb wf_expr args = true ->
  sim (map abs_val) (fun vs => Forall val_ok vs /\ map (@ty_of inum) vs = tys)
    (if Nat.eqb (Datatypes.length args) (Datatypes.length tys)
     then E.validate_loop eng n args tys env else err EArity)
    (if Nat.eqb (Datatypes.length args) (Datatypes.length tys)
     then R.validate_loop eng n args tys env else err EArity).
Proof.
  intros args tys env Hl.
  destruct (Nat.eqb (Datatypes.length args) (Datatypes.length tys)) eqn:El; [| apply sim_err].
  apply PeanoNat.Nat.eqb_eq in El.
  eapply sim_weaken; [| apply (ih_validate n H); exact Hl].
  intros vs [Hvs Hty]; split; [exact Hvs | apply Hty; exact El].
Qed.

Lemma step_bif : forall b args env, forallb wf_expr args = true ->
  sim abs_val val_ok (E.call_bif eng (S n) b args env) (R.call_bif eng (S n) b args env).
Proof.
  intros b args env Hl; destruct b; cbn [E.call_bif R.call_bif]; cbv zeta.
  - (* print *)
    eapply sim_bind; [apply (ih_exprs n H); exact Hl | intros vs Hvs].
    eapply sim_bind; [apply sim_emit_print; exact Hvs | intros _ _].
    apply (sim_ret _ _ abs_val val_ok VNull); exact I.
  - (* type *)
    destruct args as [| a [| a2 args]]; try apply sim_err.
    cbn [forallb] in Hl; andb_split Hl.
    eapply sim_bind; [apply (ih_expr n H); exact Hl | intros v Hv].
    rewrite ty_of_abs. apply (sim_ret _ _ abs_val val_ok (VStr (ty_name (ty_of v)))); exact I.
  - (* rand *)
    eapply sim_bind; [apply sim_validate; exact Hl | intros _ _].
    eapply sim_bind; [apply sim_draw | intros f _].
    apply (sim_ret _ _ abs_val val_ok (VNum (iof_float f))). apply ok_of_float.
  - (* randnorm *)
    eapply sim_bind; [apply sim_validate; exact Hl | intros _ _]. apply sim_fail; exact I.
  - (* sort *)
    eapply sim_bind; [apply sim_validate; exact Hl | intros vs [Hvs Hty]].
    destruct vs as [| v1 [| v2 [| v3 vs]]]; cbn [map]; try (exfalso; cbn in Hty; discriminate Hty);
      destruct v1; cbn [abs_val]; try (exfalso; cbn in Hty; discriminate Hty);
      destruct v2; cbn [abs_val]; try (exfalso; cbn in Hty; discriminate Hty).
    inversion Hvs as [| ? ? _ Hvs']; subst. inversion Hvs' as [| ? ? Hfun _]; subst.
    destruct args0 as [| p [| q [| r ps]]]; try apply sim_err.
    eapply sim_bind; [apply sim_alloc_frame | intros local _].
    eapply sim_bind; [apply sim_get_arr | intros arr _].
    rewrite map_length. destruct (Nat.ltb 20 (Datatypes.length arr)); [apply sim_fail; exact I |].
    eapply sim_bind; [apply (ih_sort_outer n H); exact Hfun | intros _ _].
    apply (sim_ret _ _ abs_val val_ok (VMap a)); exact I.
  - (* first *)
    eapply sim_bind; [apply sim_validate; exact Hl | intros vs [Hvs Hty]].
    destruct vs as [| v1 [| v2 vs]]; cbn [map]; try (exfalso; cbn in Hty; discriminate Hty);
      destruct v1; cbn [abs_val]; try (exfalso; cbn in Hty; discriminate Hty).
    eapply sim_bind; [apply sim_get_arr | intros arr Harr].
    destruct arr as [| x arr]; cbn [map].
    + apply (sim_ret _ _ abs_val val_ok VNull); exact I.
    + apply (sim_ret _ _ abs_val val_ok x). inversion Harr; assumption.
  - (* any *)
    eapply sim_bind; [apply sim_validate; exact Hl | intros vs [Hvs Hty]].
    destruct vs as [| v1 [| v2 [| v3 vs]]]; cbn [map]; try (exfalso; cbn in Hty; discriminate Hty);
      destruct v1; cbn [abs_val]; try (exfalso; cbn in Hty; discriminate Hty);
      destruct v2; cbn [abs_val]; try (exfalso; cbn in Hty; discriminate Hty).
    inversion Hvs as [| ? ? _ Hvs']; subst. inversion Hvs' as [| ? ? Hfun _]; subst.
    destruct args0 as [| p [| q ps]]; try apply sim_err.
    eapply sim_bind; [apply sim_alloc_frame | intros local _].
    apply (ih_any n H); exact Hfun.
  - (* len *)
    eapply sim_bind; [apply sim_validate; exact Hl | intros vs [Hvs Hty]].
    destruct vs as [| v1 [| v2 vs]]; cbn [map]; try (exfalso; cbn in Hty; discriminate Hty);
      destruct v1; cbn [abs_val]; try (exfalso; cbn in Hty; discriminate Hty).
    eapply sim_bind; [apply sim_get_arr | intros arr Harr].
    rewrite map_length.
    apply (sim_ret _ _ abs_val val_ok (VNum (iof_int (Z.of_nat (Datatypes.length arr))))).
    apply ok_of_int.
  - (* register_skill_cb *)
    eapply sim_bind; [apply sim_validate; exact Hl | intros vs [Hvs Hty]].
    destruct vs as [| v1 [| v2 [| v3 vs]]]; cbn [map]; try (exfalso; cbn in Hty; discriminate Hty);
      destruct v1; cbn [abs_val]; try (exfalso; cbn in Hty; discriminate Hty);
      destruct v2; cbn [abs_val]; try (exfalso; cbn in Hty; discriminate Hty).
    inversion Hvs as [| ? ? Hn Hvs']; subst. inversion Hvs' as [| ? ? Hfun _]; subst.
    destruct (Nat.ltb 2 (Datatypes.length args0)); [apply sim_err |].
    eapply sim_bind; [apply sim_alloc_frame | intros local _].
    eapply sim_bind; [apply (sim_bind_vals (E.hd0 local) args0 [VNum n0; VFun args0 body]); exact Hvs | intros _ _].
    rewrite (to_id_abs n0 Hn).
    eapply sim_bind; [apply sim_reg_skill; exact Hfun | intros _ _].
    apply (sim_ret _ _ abs_val val_ok VNull); exact I.
  - (* register_ult_cb *)
    eapply sim_bind; [apply sim_validate; exact Hl | intros vs [Hvs Hty]].
    destruct vs as [| v1 [| v2 [| v3 vs]]]; cbn [map]; try (exfalso; cbn in Hty; discriminate Hty);
      destruct v1; cbn [abs_val]; try (exfalso; cbn in Hty; discriminate Hty);
      destruct v2; cbn [abs_val]; try (exfalso; cbn in Hty; discriminate Hty).
    inversion Hvs as [| ? ? Hn Hvs']; subst. inversion Hvs' as [| ? ? Hfun _]; subst.
    destruct (Nat.ltb 2 (Datatypes.length args0)); [apply sim_err |].
    eapply sim_bind; [apply sim_alloc_frame | intros local _].
    eapply sim_bind; [apply (sim_bind_vals (E.hd0 local) args0 [VNum n0; VFun args0 body]); exact Hvs | intros _ _].
    rewrite (to_id_abs n0 Hn).
    eapply sim_bind; [apply sim_reg_ult; exact Hfun | intros _ _].
    apply (sim_ret _ _ abs_val val_ok VNull); exact I.
  - (* set_default_action *)
    eapply sim_bind; [apply sim_validate; exact Hl | intros vs [Hvs Hty]].
    destruct vs as [| v1 [| v2 [| v3 vs]]]; cbn [map]; try (exfalso; cbn in Hty; discriminate Hty);
      destruct v1; cbn [abs_val]; try (exfalso; cbn in Hty; discriminate Hty);
      destruct v2; cbn [abs_val]; try (exfalso; cbn in Hty; discriminate Hty).
    inversion Hvs as [| ? ? Hn _]; subst.
    destruct (acttype_eqb t AAttack); [| apply sim_err].
    rewrite (to_id_abs n0 Hn).
    eapply sim_bind; [apply sim_set_default | intros _ _].
    apply (sim_ret _ _ abs_val val_ok VNull); exact I.
  - (* attack / skill / ult ... *)
    eapply sim_bind; [apply sim_validate; exact Hl | intros vs [Hvs Hty]].
    destruct vs as [| v1 [| v2 vs]]; cbn [map]; try (exfalso; cbn in Hty; discriminate Hty);
      destruct v1; cbn [abs_val]; try (exfalso; cbn in Hty; discriminate Hty).
    inversion Hvs as [| ? ? Hn _]; subst. rewrite (to_id_abs n0 Hn).
    apply (sim_ret _ _ abs_val val_ok (VAct t (ival n0))); exact I.
  - (* condition builtins *)
    eapply sim_bind; [apply sim_validate; exact Hl | intros vs [Hvs Hty]].
    assert (E1 : match map abs_val vs with VNum x :: _ => to_id x | _ => 0 end
                 = match vs with VNum x :: _ => ival x | _ => 0 end).
    { destruct vs as [| [] vs']; cbn [map abs_val]; try reflexivity.
      inversion Hvs; subst. apply to_id_abs; assumption. }
    assert (E2 : match map abs_val vs with [_; VNum y] => to_id y | _ => 0 end
                 = match vs with [_; VNum y] => ival y | _ => 0 end).
    { destruct vs as [| v1 [| [] [| v3 vs']]]; cbn [map abs_val]; try reflexivity.
      inversion Hvs as [| ? ? _ Hvs']; subst. inversion Hvs'; subst. apply to_id_abs; assumption. }
    assert (E3 : match map abs_val vs with [_; VStr s0] => s0 | _ => EmptyString end
                 = match vs with [_; VStr s0] => s0 | _ => EmptyString end).
    { destruct vs as [| v1 [| [] [| v3 vs']]]; reflexivity. }
    rewrite E1, E2, E3.
    destruct (eng_query q eng _ _ _) as [calls r] eqn:Eq.
    eapply sim_bind; [apply sim_emit_calls | intros _ _].
    destruct r as [raw | f]; [apply sim_of_raw | apply sim_fail].
    eapply eng_query_no_panic. rewrite Eq. reflexivity.
Qed.

End Step.

Lemma IH_S : forall n, IH n -> IH (S n).
Proof.
  intros n H; constructor.
  - apply step_expr; exact H.
  - apply step_exprs; exact H.
  - apply step_fields; exact H.
  - apply step_bind; exact H.
  - apply step_validate; exact H.
  - apply step_bif; exact H.
  - apply step_sort_outer; exact H.
  - apply step_sort_inner; exact H.
  - apply step_any; exact H.
  - apply step_stmt; exact H.
  - apply step_nodes; exact H.
  - apply step_block; exact H.
  - apply step_while; exact H.
  - apply step_for; exact H.
  - apply step_cases; exact H.
Qed.

Theorem IH_all : forall n, IH n.
Proof. induction n; [apply IH_0 | apply IH_S; assumption]. Qed.

(* ---- action.go ---- *)
Lemma sim_eval_target : forall n node check, cb_ok node ->
  sim (fun a : acttype * Z => a) anyA (E.eval_target eng n node check) (R.eval_target eng n node check).
Proof.
  intros n node check Hc. unfold E.eval_target, R.eval_target.
  eapply sim_bind; [apply (ih_block n (IH_all n)); exact Hc | intros r Hr].
  destruct r as [o | v | t]; cbn [abs_sres]; try apply sim_err.
  destruct v; cbn [abs_val]; try apply sim_err.
  - apply (sim_ret _ _ (fun a : acttype * Z => a) anyA (AInvalid, 0)); exact I.
  - destruct (acttype_eqb t AInvalid);
      [apply (sim_ret _ _ (fun a : acttype * Z => a) anyA (AInvalid, 0)); exact I |].
    destruct (existsb (acttype_eqb t) check);
      [apply (sim_ret _ _ (fun a : acttype * Z => a) anyA (t, ev)); exact I | apply sim_err].
Qed.

Definition acts := list (acttype * Z * Z).

Lemma sim_default_action : forall t,
  sim (fun a : acts => a) anyA (E.default_action t) (R.default_action t).
Proof.
  intros t s Hs. unfold E.default_action, R.default_action; cbn [st_defaults abs_st].
  destruct (zassoc t (st_defaults s)) as [[ty ev] |]; cbn;
    (split; [reflexivity | split; [exact Hs |]]); intros; exact I.
Qed.

Lemma sim_ult_loop : forall n nodes acc, Forall cb_ok nodes ->
  sim (fun a : acts => a) anyA (E.ult_loop eng n nodes acc) (R.ult_loop eng n nodes acc).
Proof.
  intros n nodes; induction nodes as [| node r IHr]; intros acc Hn; cbn [E.ult_loop R.ult_loop].
  - apply (sim_ret _ _ (fun a : acts => a) anyA acc); exact I.
  - inversion Hn; subst.
    eapply sim_bind; [apply sim_eval_target; assumption | intros a _].
    destruct (acttype_eqb (fst a) AInvalid); apply IHr; assumption.
Qed.

Lemma zassoc_ok : forall A (P : A -> Prop) k l v,
  Forall (fun p => P (snd p)) l -> zassoc k l = Some v -> P v.
Proof.
  intros A P k l; induction l as [| [k' v'] l IHl]; intros v Hl Hz; cbn in Hz; [discriminate Hz |].
  inversion Hl; subst. destruct (k =? k'); [inversion Hz; subst; assumption | eauto].
Qed.

Lemma sim_do_call : forall n c,
  sim (fun a : acts => a) anyA (E.do_call eng n c) (R.do_call eng n c).
Proof.
  intros n [t | t |]; cbn [E.do_call R.do_call].
  - intros s Hs. cbn [st_skill abs_st].
    destruct (zassoc t (st_skill s)) as [node |] eqn:Ez.
    + assert (Hc : cb_ok node) by (eapply zassoc_ok; [apply (ok_skill s Hs) | exact Ez]).
      revert s Hs Ez.
      assert (Hsim : sim (fun a : acts => a) anyA
                (a <- E.eval_target eng n node [AAttack; ASkill] ;;
                 if acttype_eqb (fst a) AInvalid then E.default_action t else ret [(fst a, t, snd a)])
                (a <- R.eval_target eng n node [AAttack; ASkill] ;;
                 if acttype_eqb (fst a) AInvalid then R.default_action t else ret [(fst a, t, snd a)])).
      { eapply sim_bind; [apply sim_eval_target; exact Hc | intros a _].
        destruct (acttype_eqb (fst a) AInvalid); [apply sim_default_action |].
        apply (sim_ret _ _ (fun a : acts => a) anyA [(fst a, t, snd a)]); exact I. }
      intros s Hs _. apply Hsim; exact Hs.
    + cbn. split; [reflexivity | split; [exact Hs |]]; intros; exact I.
  - apply sim_default_action.
  - intros s Hs. cbn [st_ult abs_st]. apply sim_ult_loop; [apply (ok_ult s Hs) | exact Hs].
Qed.

Lemma run_calls_abs : forall n cs s, st_ok s ->
  R.run_calls eng n cs (abs_st s) = abs_st (E.run_calls eng n cs s).
Proof.
  intros n cs; induction cs as [| c r IHr]; intros s Hs; cbn [E.run_calls R.run_calls]; [reflexivity |].
  destruct (sim_do_call n c s Hs) as (Eq & Hs' & Hres). rewrite Eq.
  destruct (E.do_call eng n c s) as [res s']; cbn [fst snd] in *.
  assert (Hs'' : st_ok (upd_trace s' (GCall res :: st_trace s'))).
  { apply ok_upd_trace; [exact Hs' | constructor; [| apply (ok_trace s' Hs')]].
    destruct res as [a | [| | | |]]; cbn in *; auto. }
  assert (Ea : upd_trace (abs_st s') (GCall (map_res (fun a : acts => a) res) :: st_trace (abs_st s'))
               = abs_st (upd_trace s' (GCall res :: st_trace s'))).
  { rewrite abs_upd_trace. cbn [map abs_item abs_st st_trace]. destruct res; reflexivity. }
  destruct res as [a | f]; cbn [map_res].
  - cbn [map_res] in Ea. rewrite Ea. apply IHr; exact Hs''.
  - cbn [map_res] in Ea. rewrite Ea. change (R.stops f) with (E.stops f).
    destruct (E.stops f); [reflexivity | apply IHr; exact Hs''].
Qed.

(* ---- the initial state ---- *)
Lemma fold_put_abs : forall consts fr,
  fold_left (fun fr p => frame_put fr (fst p) (BVal (VNum (NInt (snd p))))) consts (abs_frame fr)
  = abs_frame (fold_left (fun fr (p : string * Z) => frame_put fr (fst p) (BVal (VNum (iof_int (snd p))))) consts fr).
Proof.
  induction consts as [| [k z] consts IHc]; intros fr; cbn [fold_left]; [reflexivity |].
  rewrite <- IHc. f_equal. cbn [fst snd].
  change (BVal (VNum (NInt z))) with (abs_bind (BVal (VNum (iof_int z)))).
  apply frame_put_abs.
Qed.

Lemma fold_put_ok : forall consts fr, frame_ok fr ->
  frame_ok (fold_left (fun fr (p : string * Z) => frame_put fr (fst p) (BVal (VNum (iof_int (snd p))))) consts fr).
Proof.
  induction consts as [| [k z] consts IHc]; intros fr Hf; cbn [fold_left]; [exact Hf |].
  apply IHc. apply frame_put_ok; [exact Hf | apply ok_of_int].
Qed.

Lemma global_frame_abs : global_frame NInt eng = abs_frame (global_frame iof_int eng).
Proof. unfold global_frame. rewrite <- fold_put_abs. reflexivity. Qed.

Lemma global_frame_ok : frame_ok (global_frame iof_int eng).
Proof.
  unfold global_frame. apply fold_put_ok. apply Forall_forall; intros [k b] Hin.
  apply in_map_iff in Hin; destruct Hin as ([k' bf] & Heq & _); inversion Heq; subst; exact I.
Qed.

Lemma init_state_abs : forall draws,
  init_state NInt eng draws = abs_st (init_state iof_int eng draws).
Proof.
  intros draws. unfold init_state, abs_st; cbn [st_frames st_maps st_trace st_skill st_ult st_defaults st_draws map].
  rewrite global_frame_abs. f_equal. rewrite map_rev, map_map. reflexivity.
Qed.

Lemma geng_ok : forall cs : list ecall, Forall item_ok (rev (map GEng cs)).
Proof.
  intros cs. apply Forall_forall; intros x Hx. apply in_rev, in_map_iff in Hx.
  destruct Hx as (c & <- & _); exact I.
Qed.

Lemma init_state_ok : forall draws, st_ok (init_state iof_int eng draws).
Proof.
  intros draws; constructor; unfold init_state;
    cbn [st_frames st_maps st_trace st_skill st_ult st_defaults st_draws];
    try constructor; try apply global_frame_ok; try constructor.
  apply geng_ok.
Qed.

End Refinement.

Lemma run_calls_ok : forall eng n cs s, st_ok s -> st_ok (E.run_calls eng n cs s).
Proof.
  intros eng n cs; induction cs as [| c r IHr]; intros s Hs; cbn [E.run_calls]; [exact Hs |].
  destruct (sim_do_call eng n c s Hs) as (_ & Hs' & Hres).
  destruct (E.do_call eng n c s) as [res s']; cbn [fst snd] in *.
  assert (Hs'' : st_ok (upd_trace s' (GCall res :: st_trace s'))).
  { apply ok_upd_trace; [exact Hs' | constructor; [| apply (ok_trace s' Hs')]].
    destruct res as [a | [| | | |]]; cbn in *; auto. }
  destruct res as [a | f]; [apply IHr; exact Hs'' |].
  destruct (E.stops f); [exact Hs'' | apply IHr; exact Hs''].
Qed.

(* ---- the refinement theorem ---- *)
Theorem impl_refines_spec : forall fuel prog eng draws calls,
  wf_block prog = true ->
  GcsSem.run_case fuel prog eng draws calls = map abs_item (GcsEval.run_case fuel prog eng draws calls).
Proof.
  intros fuel prog eng draws calls Hl. unfold GcsSem.run_case, GcsEval.run_case.
  rewrite init_state_abs.
  destruct (ih_block eng fuel (IH_all eng fuel) prog [O] Hl _ (init_state_ok eng draws)) as (Eq & Hs1 & Hr).
  rewrite Eq. destruct (E.eval_block eng fuel prog [O] (init_state iof_int eng draws)) as [r s1].
  cbn [fst snd] in *.
  set (ini := match r with Ok _ => None | Fail f => Some f end).
  assert (Ei : match map_res abs_sres r with Ok _ => None | Fail f => Some f end = ini)
    by (destruct r; reflexivity).
  rewrite Ei.
  assert (Hs2 : st_ok (upd_trace s1 (GInit ini :: st_trace s1))).
  { apply ok_upd_trace; [exact Hs1 | constructor; [| apply (ok_trace s1 Hs1)]].
    subst ini. destruct r as [a | [| | | |]]; cbn in *; auto. }
  assert (E2 : upd_trace (abs_st s1) (GInit ini :: st_trace (abs_st s1))
               = abs_st (upd_trace s1 (GInit ini :: st_trace s1))) by reflexivity.
  rewrite E2. destruct r as [a | f]; cbn [map_res].
  - rewrite run_calls_abs by exact Hs2. cbn [abs_st st_trace]. rewrite map_rev. reflexivity.
  - cbn [abs_st st_trace]. rewrite map_rev. reflexivity.
Qed.

(* ---- evaluation never crashes; what is printed is consistent ---- *)
Theorem impl_trace_ok : forall fuel prog eng draws calls,
  wf_block prog = true -> Forall item_ok (GcsEval.run_case fuel prog eng draws calls).
Proof.
  intros fuel prog eng draws calls Hl. unfold GcsEval.run_case.
  destruct (ih_block eng fuel (IH_all eng fuel) prog [O] Hl _ (init_state_ok eng draws)) as (_ & Hs1 & Hr).
  destruct (E.eval_block eng fuel prog [O] (init_state iof_int eng draws)) as [r s1].
  cbn [fst snd] in *.
  set (ini := match r with Ok _ => None | Fail f => Some f end).
  assert (Hs2 : st_ok (upd_trace s1 (GInit ini :: st_trace s1))).
  { apply ok_upd_trace; [exact Hs1 | constructor; [| apply (ok_trace s1 Hs1)]].
    subst ini. destruct r as [a | [| | | |]]; cbn in *; auto. }
  apply Forall_rev. destruct r as [a | f].
  - apply ok_trace, run_calls_ok; exact Hs2.
  - apply ok_trace; exact Hs2.
Qed.

Definition is_panic_item {N} (g : gitem N) : Prop :=
  match g with
  | GInit (Some (FPanic _)) | GCall (Fail (FPanic _)) => True
  | _ => False
  end.

Theorem impl_never_panics : forall fuel prog eng draws calls g,
  wf_block prog = true -> In g (GcsEval.run_case fuel prog eng draws calls) -> ~ is_panic_item g.
Proof.
  intros fuel prog eng draws calls g Hl Hin Hp.
  pose proof (impl_trace_ok fuel prog eng draws calls Hl) as Hall.
  rewrite Forall_forall in Hall. specialize (Hall g Hin).
  destruct g as [l | c | [[| [] | | |] |] | [a | [| [] | | |]]]; cbn in *; auto.
Qed.

Theorem spec_never_panics : forall fuel prog eng draws calls g,
  wf_block prog = true -> In g (GcsSem.run_case fuel prog eng draws calls) -> ~ is_panic_item g.
Proof.
  intros fuel prog eng draws calls g Hl Hin Hp.
  rewrite (impl_refines_spec fuel prog eng draws calls Hl) in Hin.
  apply in_map_iff in Hin. destruct Hin as (gi & <- & Hin).
  apply (impl_never_panics fuel prog eng draws calls gi Hl Hin).
  destruct gi as [l | c | r | r]; cbn in *; auto.
Qed.

(* every number the implementation prints satisfies the representation invariant *)
Theorem printed_numbers_consistent : forall fuel prog eng draws calls l,
  wf_block prog = true -> In (GPrint l) (GcsEval.run_case fuel prog eng draws calls) ->
  Forall pval_ok l.
Proof.
  intros fuel prog eng draws calls l Hl Hin.
  pose proof (impl_trace_ok fuel prog eng draws calls Hl) as Hall.
  rewrite Forall_forall in Hall. apply (Hall _ Hin).
Qed.

(* "The result does not depend on how a number was produced": two consistent implementation
   states that denote the same reference state (the same numbers, whatever fields their
   representations carry besides) are indistinguishable - running any program from them gives
   the same outcome and the same final state up to denotation. *)
Definition abs_out {A B} (f : A -> B) (o : res A * state inum) : res B * state snum :=
  (map_res f (fst o), abs_st (snd o)).

Theorem representation_independent : forall eng fuel b env s1 s2,
  wf_block b = true -> st_ok s1 -> st_ok s2 -> abs_st s1 = abs_st s2 ->
  abs_out abs_sres (GcsEval.eval_block eng fuel b env s1) = abs_out abs_sres (GcsEval.eval_block eng fuel b env s2).
Proof.
  intros eng fuel b env s1 s2 Hl H1 H2 Heq. unfold abs_out.
  destruct (ih_block eng fuel (IH_all eng fuel) b env Hl s1 H1) as (E1 & _ & _).
  destruct (ih_block eng fuel (IH_all eng fuel) b env Hl s2 H2) as (E2 & _ & _).
  rewrite <- E1, <- E2, Heq. reflexivity.
Qed.

Theorem representation_independent_expr : forall eng fuel e env s1 s2,
  wf_expr e = true -> st_ok s1 -> st_ok s2 -> abs_st s1 = abs_st s2 ->
  abs_out abs_val (GcsEval.eval_expr eng fuel e env s1) = abs_out abs_val (GcsEval.eval_expr eng fuel e env s2).
Proof.
  intros eng fuel e env s1 s2 Hl H1 H2 Heq. unfold abs_out.
  destruct (ih_expr eng fuel (IH_all eng fuel) e env Hl s1 H1) as (E1 & _ & _).
  destruct (ih_expr eng fuel (IH_all eng fuel) e env Hl s2 H2) as (E2 & _ & _).
  rewrite <- E1, <- E2, Heq. reflexivity.
Qed.

(* the invariant is kept by whole programs: every value an evaluation returns or leaves in the
   store is consistent *)
Theorem numbers_consistent : forall eng fuel e env s,
  wf_expr e = true -> st_ok s ->
  st_ok (snd (GcsEval.eval_expr eng fuel e env s)) /\
  (forall v, fst (GcsEval.eval_expr eng fuel e env s) = Ok v -> val_ok v).
Proof.
  intros eng fuel e env s Hl Hs.
  destruct (ih_expr eng fuel (IH_all eng fuel) e env Hl s Hs) as (_ & H1 & H2).
  split; [exact H1 | intros v Hv; rewrite Hv in H2; exact H2].
Qed.

(* ======================================================================================== *)
(* Part 5: errors are reported                                                              *)
(* ======================================================================================== *)
Section Errors.
Variable eng : engine.

(* one-step unfoldings of the reference interpreter *)
Lemma R_assign : forall n id e env,
  R.eval_stmt eng (S n) (SAssign id e) env
  = (v <- R.eval_expr eng n e env ;; assign_var env (t_val id) v ;;; ret SNormal).
Proof. reflexivity. Qed.
Lemma R_let : forall n id e env,
  R.eval_stmt eng (S n) (SLet id e) env
  = (v <- R.eval_expr eng n e env ;; declare env (t_val id) v ;;; ret SNormal).
Proof. reflexivity. Qed.
Lemma R_binary : forall n l r op env,
  R.eval_expr eng (S n) (EBinary l r op) env
  = (vl <- R.eval_expr eng n l env ;; vr <- R.eval_expr eng n r env ;;
     match vl, vr with VNum a, VNum b => sbinop (t_typ op) a b | _, _ => err EType end).
Proof. reflexivity. Qed.
Lemma R_unary : forall n r op env,
  R.eval_expr eng (S n) (EUnary op r) env
  = (v <- R.eval_expr eng n r env ;;
     match v with VNum x => ret (sunop (t_typ op) x) | _ => err EType end).
Proof. reflexivity. Qed.
Lemma R_call : forall n f args env,
  R.eval_expr eng (S n) (ECall f args) env
  = (fv <- R.eval_expr eng n f env ;;
     match fv with
     | VBif b => R.call_bif eng n b args env
     | VFun ps body =>
         if Nat.eqb (Datatypes.length args) (Datatypes.length ps) then
           local <- alloc_frame env ;;
           R.bind_params eng n ps args env (R.hd0 local) ;;;
           r <- R.eval_block eng n body local ;;
           match r with
           | SRet v => ret v
           | SNormal => ret VNull
           | SCtl _ => err EBadReturn
           end
         else err EArity
     | _ => err ENotCallable
     end).
Proof. reflexivity. Qed.
Lemma R_validate_cons : forall n a args t tys env,
  R.validate_loop eng (S n) (a :: args) (t :: tys) env
  = (v <- R.eval_expr eng n a env ;;
     if ty_eqb (ty_of v) t then vs <- R.validate_loop eng n args tys env ;; ret (v :: vs)
     else err EType).
Proof. reflexivity. Qed.

(* an unknown name *)
Lemma sem_unknown_name : forall n x env s,
  lookup (st_frames s) env x = None ->
  R.eval_expr eng (S n) (EIdent x) env s = (Fail (FErr EUnknownVar), s).
Proof. intros n x env s Hl; cbn [R.eval_expr]; unfold get_var; rewrite Hl; reflexivity. Qed.

Lemma sem_assign_unknown_name : forall n id e env s v s',
  R.eval_expr eng n e env s = (Ok v, s') ->
  lookup (st_frames s') env (t_val id) = None ->
  R.eval_stmt eng (S n) (SAssign id e) env s = (Fail (FErr EUnknownVar), s').
Proof.
  intros n id e env s v s' He Hl; rewrite R_assign; unfold bind_; rewrite He.
  unfold assign_var; rewrite Hl; reflexivity.
Qed.

(* an operand that is not a number *)
Definition is_num (v : val) : bool := match v with VNum _ => true | _ => false end.

Lemma sem_binary_ill_typed : forall n l r op env s vl s1 vr s2,
  R.eval_expr eng n l env s = (Ok vl, s1) ->
  R.eval_expr eng n r env s1 = (Ok vr, s2) ->
  is_num vl && is_num vr = false ->
  R.eval_expr eng (S n) (EBinary l r op) env s = (Fail (FErr EType), s2).
Proof.
  intros n l r op env s vl s1 vr s2 H1 H2 Ht; rewrite R_binary; unfold bind_; rewrite H1, H2.
  destruct vl, vr; cbn in Ht; try discriminate Ht; reflexivity.
Qed.

Lemma sem_unary_ill_typed : forall n r op env s v s1,
  R.eval_expr eng n r env s = (Ok v, s1) -> is_num v = false ->
  R.eval_expr eng (S n) (EUnary op r) env s = (Fail (FErr EType), s1).
Proof.
  intros n r op env s v s1 H1 Ht; rewrite R_unary; unfold bind_; rewrite H1.
  destruct v; cbn in Ht; try discriminate Ht; reflexivity.
Qed.

(* integer division by zero; a floating division by zero is not an error *)
Lemma sem_int_div_zero : forall n l r op env s a s1 s2,
  t_typ op = ItemForwardSlash ->
  R.eval_expr eng n l env s = (Ok (VNum (NInt a)), s1) ->
  R.eval_expr eng n r env s1 = (Ok (VNum (NInt 0)), s2) ->
  R.eval_expr eng (S n) (EBinary l r op) env s = (Fail (FErr EDivZero), s2).
Proof.
  intros n l r op env s a s1 s2 Hop H1 H2; rewrite R_binary; unfold bind_; rewrite H1, H2, Hop.
  reflexivity.
Qed.

Lemma sem_float_div_zero_is_not_an_error : forall x, sdiv (NFloat x) (NInt 0) = Ok (NFloat (x / Z2f 0)).
Proof. reflexivity. Qed.

(* calling with the wrong number of arguments, calling something that is not a function *)
Lemma sem_wrong_arity : forall n f args env s ps body s1,
  R.eval_expr eng n f env s = (Ok (VFun ps body), s1) ->
  Datatypes.length args <> Datatypes.length ps ->
  R.eval_expr eng (S n) (ECall f args) env s = (Fail (FErr EArity), s1).
Proof.
  intros n f args env s ps body s1 H1 Hlen; rewrite R_call; unfold bind_; rewrite H1.
  apply PeanoNat.Nat.eqb_neq in Hlen; rewrite Hlen. reflexivity.
Qed.

Lemma sem_builtin_wrong_arity : forall n args tys env s,
  Datatypes.length args <> Datatypes.length tys ->
  (if Nat.eqb (Datatypes.length args) (Datatypes.length tys)
   then R.validate_loop eng n args tys env else err EArity) s = (Fail (FErr EArity), s).
Proof.
  intros n args tys env s Hlen. apply PeanoNat.Nat.eqb_neq in Hlen; rewrite Hlen. reflexivity.
Qed.

Lemma sem_builtin_ill_typed_argument : forall n a args t tys env s v s1,
  R.eval_expr eng n a env s = (Ok v, s1) -> ty_eqb (ty_of v) t = false ->
  R.validate_loop eng (S n) (a :: args) (t :: tys) env s = (Fail (FErr EType), s1).
Proof.
  intros n a args t tys env s v s1 H1 Ht; rewrite R_validate_cons; unfold bind_; rewrite H1, Ht.
  reflexivity.
Qed.

Lemma sem_not_callable : forall n f args env s v s1,
  R.eval_expr eng n f env s = (Ok v, s1) ->
  match v with VFun _ _ | VBif _ => False | _ => True end ->
  R.eval_expr eng (S n) (ECall f args) env s = (Fail (FErr ENotCallable), s1).
Proof.
  intros n f args env s v s1 H1 Hv; rewrite R_call; unfold bind_; rewrite H1.
  destruct v; try contradiction; reflexivity.
Qed.

(* a let may not redeclare a name of the innermost scope *)
Lemma sem_redeclare : forall n id e env f s v s' b,
  R.eval_expr eng n e (f :: env) s = (Ok v, s') ->
  frame_get (nth f (st_frames s') []) (t_val id) = Some b ->
  R.eval_stmt eng (S n) (SLet id e) (f :: env) s = (Fail (FErr ERedeclare), s').
Proof.
  intros n id e env f s v s' b He Hg; rewrite R_let; unfold bind_; rewrite He.
  unfold declare; rewrite Hg; reflexivity.
Qed.

End Errors.


(* ======================================================================================== *)
(* Part 6: the control-flow clauses of the property, read off the reference semantics       *)
(* ======================================================================================== *)
Section Clauses.
Variable eng : engine.

Lemma R_while : forall n c b env,
  R.eval_while eng (S n) c b env
  = (v <- R.eval_expr eng n c env ;;
     if truthy v then
       r <- R.eval_block eng n b env ;;
       match r with
       | SRet _ => ret r
       | SCtl CtrlBreak => ret SNormal
       | _ => R.eval_while eng n c b env
       end
     else ret SNormal).
Proof. reflexivity. Qed.

(* a return inside a while loop leaves the loop with the returned value ... *)
Lemma sem_return_leaves_while : forall n c b env s vc s1 v s2,
  R.eval_expr eng n c env s = (Ok vc, s1) -> truthy vc = true ->
  R.eval_block eng n b env s1 = (Ok (SRet v), s2) ->
  R.eval_while eng (S n) c b env s = (Ok (SRet v), s2).
Proof.
  intros n c b env s vc s1 v s2 Hc Ht Hb. rewrite R_while; unfold bind_; rewrite Hc, Ht, Hb.
  reflexivity.
Qed.

(* ... break ends it, continue (and normal completion) goes to the next iteration *)
Lemma sem_break_ends_while : forall n c b env s vc s1 s2,
  R.eval_expr eng n c env s = (Ok vc, s1) -> truthy vc = true ->
  R.eval_block eng n b env s1 = (Ok (SCtl CtrlBreak), s2) ->
  R.eval_while eng (S n) c b env s = (Ok SNormal, s2).
Proof.
  intros n c b env s vc s1 s2 Hc Ht Hb. rewrite R_while; unfold bind_; rewrite Hc, Ht, Hb.
  reflexivity.
Qed.

Lemma sem_continue_iterates_while : forall n c b env s vc s1 r s2,
  R.eval_expr eng n c env s = (Ok vc, s1) -> truthy vc = true ->
  R.eval_block eng n b env s1 = (Ok r, s2) -> r = SNormal \/ r = SCtl CtrlContinue ->
  R.eval_while eng (S n) c b env s = R.eval_while eng n c b env s2.
Proof.
  intros n c b env s vc s1 r s2 Hc Ht Hb Hr. rewrite R_while; unfold bind_; rewrite Hc, Ht, Hb.
  destruct Hr; subst; reflexivity.
Qed.

Lemma sem_while_false : forall n c b env s vc s1,
  R.eval_expr eng n c env s = (Ok vc, s1) -> truthy vc = false ->
  R.eval_while eng (S n) c b env s = (Ok SNormal, s1).
Proof.
  intros n c b env s vc s1 Hc Ht. rewrite R_while; unfold bind_; rewrite Hc, Ht. reflexivity.
Qed.

(* a block stops at the first statement that does not complete normally and passes the signal
   on: this is how return / break / continue travel outwards from any depth *)
Lemma R_nodes_stmt : forall n st r scope,
  R.eval_nodes eng (S n) (NStmt st :: r) scope
  = (v <- R.eval_stmt eng n st scope ;;
     match v with SNormal => R.eval_nodes eng n r scope | _ => ret v end).
Proof. reflexivity. Qed.

Lemma sem_block_passes_signal : forall n st r scope s sg s1,
  R.eval_stmt eng n st scope s = (Ok sg, s1) -> sg <> SNormal ->
  R.eval_nodes eng (S n) (NStmt st :: r) scope s = (Ok sg, s1).
Proof.
  intros n st r scope s sg s1 Hs Hn. rewrite R_nodes_stmt; unfold bind_; rewrite Hs.
  destruct sg; [contradiction | reflexivity | reflexivity].
Qed.

(* the value of a call is the value its body returns (null when it completes normally) *)
Lemma sem_call_returns : forall n f args env s ps body s1 local s2 s3 v s4,
  R.eval_expr eng n f env s = (Ok (VFun ps body), s1) ->
  Datatypes.length args = Datatypes.length ps ->
  alloc_frame env s1 = (Ok local, s2) ->
  R.bind_params eng n ps args env (R.hd0 local) s2 = (Ok tt, s3) ->
  R.eval_block eng n body local s3 = (Ok (SRet v), s4) ->
  R.eval_expr eng (S n) (ECall f args) env s = (Ok v, s4).
Proof.
  intros n f args env s ps body s1 local s2 s3 v s4 Hf Hlen Ha Hb Hr.
  rewrite R_call; unfold bind_; rewrite Hf.
  apply PeanoNat.Nat.eqb_eq in Hlen; rewrite Hlen, Ha, Hb, Hr. reflexivity.
Qed.

(* switch: a case body ending in fallthrough runs the next case body whatever its condition;
   a continue leaves the switch for the enclosing loop *)
Lemma R_cases : forall n v ce body rest ft found env,
  R.eval_cases eng (S n) v (Case ce body :: rest) ft found env
  = (cc <- R.eval_expr eng n ce env ;;
     match cc with
     | VNum c =>
         if (match v with None => truthy_num c | Some x => truthy_num (seq c x) end) || ft then
           r <- R.eval_block eng n body env ;;
           match r with
           | SCtl CtrlFallthrough => R.eval_cases eng n v rest true true env
           | SCtl CtrlBreak => ret (inl SNormal)
           | SCtl CtrlContinue => ret (inl r)
           | SCtl _ => R.eval_cases eng n v rest ft true env
           | _ => ret (inl r)
           end
         else R.eval_cases eng n v rest ft found env
     | _ => err EType
     end).
Proof. reflexivity. Qed.

Lemma sem_fallthrough_runs_next_case : forall n v ce body rest found env s c s1 s2,
  R.eval_expr eng n ce env s = (Ok (VNum c), s1) ->
  R.eval_block eng n body env s1 = (Ok (SCtl CtrlFallthrough), s2) ->
  R.eval_cases eng (S n) v (Case ce body :: rest) true found env s
  = R.eval_cases eng n v rest true true env s2.
Proof.
  intros n v ce body rest found env s c s1 s2 Hc Hb. rewrite R_cases; unfold bind_; rewrite Hc.
  rewrite orb_true_r, Hb. reflexivity.
Qed.

Lemma sem_continue_leaves_switch : forall n v ce body rest ft found env s c s1 s2,
  R.eval_expr eng n ce env s = (Ok (VNum c), s1) ->
  (match v with None => truthy_num c | Some x => truthy_num (seq c x) end) || ft = true ->
  R.eval_block eng n body env s1 = (Ok (SCtl CtrlContinue), s2) ->
  R.eval_cases eng (S n) v (Case ce body :: rest) ft found env s = (Ok (inl (SCtl CtrlContinue)), s2).
Proof.
  intros n v ce body rest ft found env s c s1 s2 Hc Hh Hb. rewrite R_cases; unfold bind_; rewrite Hc, Hh, Hb.
  reflexivity.
Qed.

End Clauses.

(* ======================================================================================== *)
(* The property                                                                             *)
(* ======================================================================================== *)

(* errors are reported: the clauses of [spec_reports_errors], stated on the reference
   semantics (the implementation model reports the same by [impl_refines_spec]) *)
Definition spec_reports_errors_statement : Prop :=
  forall eng : engine,
  (* unknown names *)
  (forall n x env s, lookup (st_frames s) env x = None ->
     R.eval_expr eng (S n) (EIdent x) env s = (Fail (FErr EUnknownVar), s)) /\
  (forall n id e env s v s', R.eval_expr eng n e env s = (Ok v, s') ->
     lookup (st_frames s') env (t_val id) = None ->
     R.eval_stmt eng (S n) (SAssign id e) env s = (Fail (FErr EUnknownVar), s')) /\
  (* ill-typed operands *)
  (forall n l r op env s vl s1 vr s2,
     R.eval_expr eng n l env s = (Ok vl, s1) -> R.eval_expr eng n r env s1 = (Ok vr, s2) ->
     is_num vl && is_num vr = false ->
     R.eval_expr eng (S n) (EBinary l r op) env s = (Fail (FErr EType), s2)) /\
  (forall n r op env s v s1, R.eval_expr eng n r env s = (Ok v, s1) -> is_num v = false ->
     R.eval_expr eng (S n) (EUnary op r) env s = (Fail (FErr EType), s1)) /\
  (forall n a args t tys env s v s1,
     R.eval_expr eng n a env s = (Ok v, s1) -> ty_eqb (ty_of v) t = false ->
     R.validate_loop eng (S n) (a :: args) (t :: tys) env s = (Fail (FErr EType), s1)) /\
  (* wrong arity, calling a non-function *)
  (forall n f args env s ps body s1,
     R.eval_expr eng n f env s = (Ok (VFun ps body), s1) ->
     Datatypes.length args <> Datatypes.length ps ->
     R.eval_expr eng (S n) (ECall f args) env s = (Fail (FErr EArity), s1)) /\
  (forall n args tys env s, Datatypes.length args <> Datatypes.length tys ->
     (if Nat.eqb (Datatypes.length args) (Datatypes.length tys)
      then R.validate_loop eng n args tys env else err EArity) s = (Fail (FErr EArity), s)) /\
  (forall n f args env s v s1, R.eval_expr eng n f env s = (Ok v, s1) ->
     match v with VFun _ _ | VBif _ => False | _ => True end ->
     R.eval_expr eng (S n) (ECall f args) env s = (Fail (FErr ENotCallable), s1)) /\
  (* integer division by zero *)
  (forall n l r op env s a s1 s2, t_typ op = ItemForwardSlash ->
     R.eval_expr eng n l env s = (Ok (VNum (NInt a)), s1) ->
     R.eval_expr eng n r env s1 = (Ok (VNum (NInt 0)), s2) ->
     R.eval_expr eng (S n) (EBinary l r op) env s = (Fail (FErr EDivZero), s2)) /\
  (* redeclaration in the same scope *)
  (forall n id e env f s v s' b, R.eval_expr eng n e (f :: env) s = (Ok v, s') ->
     frame_get (nth f (st_frames s') []) (t_val id) = Some b ->
     R.eval_stmt eng (S n) (SLet id e) (f :: env) s = (Fail (FErr ERedeclare), s')).

Theorem spec_reports_errors : spec_reports_errors_statement.
Proof.
  intros eng. repeat apply conj.
  - apply sem_unknown_name.
  - apply sem_assign_unknown_name.
  - apply sem_binary_ill_typed.
  - apply sem_unary_ill_typed.
  - apply sem_builtin_ill_typed_argument.
  - apply sem_wrong_arity.
  - apply sem_builtin_wrong_arity.
  - apply sem_not_callable.
  - apply sem_int_div_zero.
  - apply sem_redeclare.
Qed.

(* "the result does not depend on how a number was produced" *)
Definition numbers_consistent_statement : Prop :=
  (* every operator, on every pair of representations, computes the reference operator on the
     numbers denoted ... *)
  (forall t a b, map_res abs_val (binop_pure t a b) = sbinop_pure t (abs_num a) (abs_num b)) /\
  (forall t x, abs_val (iunop t x) = sunop t (abs_num x)) /\
  (* ... the invariant is established by literals and builtins and preserved by operators ... *)
  (forall i f b, (negb b || (i =? 0)) = true -> num_ok (mkNum i f b)) /\
  (forall z, num_ok (iof_int z)) /\ (forall f, num_ok (iof_float f)) /\ (forall b, num_ok (bton b)) /\
  (forall t a b n, binop_pure t a b = Ok (VNum n) -> num_ok n) /\
  (forall t x n, iunop t x = VNum n -> num_ok n) /\
  (* ... by whole programs: what they print is consistent ... *)
  (forall fuel prog eng draws calls l, wf_block prog = true ->
     In (GPrint l) (GcsEval.run_case fuel prog eng draws calls) -> Forall pval_ok l) /\
  (* ... and states that denote the same numbers cannot be told apart *)
  (forall eng fuel b env s1 s2, wf_block b = true -> st_ok s1 -> st_ok s2 -> abs_st s1 = abs_st s2 ->
     abs_out abs_sres (GcsEval.eval_block eng fuel b env s1) = abs_out abs_sres (GcsEval.eval_block eng fuel b env s2)).

Theorem numbers_consistent_holds : numbers_consistent_statement.
Proof.
  unfold numbers_consistent_statement. repeat apply conj.
  - apply operators_refine.
  - apply abs_iunop.
  - apply ok_lit.
  - apply ok_of_int.
  - apply ok_of_float.
  - apply ok_bton.
  - apply operators_preserve_invariant.
  - apply ok_iunop.
  - apply printed_numbers_consistent.
  - apply representation_independent.
Qed.

(* C12: for every well-formed program, every engine state, every random stream, every script of
   callback invocations and every fuel, the trace of the implementation model (printed values,
   engine calls, outcome of Init and of every callback invocation with the decisions returned)
   abstracts to the trace the reference semantics defines; no outcome is a panic; numbers are
   consistent; errors are reported. *)
Definition C12_statement : Prop :=
  (forall fuel prog eng draws calls, wf_block prog = true ->
     GcsSem.run_case fuel prog eng draws calls = map abs_item (GcsEval.run_case fuel prog eng draws calls)) /\
  (forall fuel prog eng draws calls g, wf_block prog = true ->
     In g (GcsEval.run_case fuel prog eng draws calls) -> ~ is_panic_item g) /\
  numbers_consistent_statement /\
  spec_reports_errors_statement.

Theorem C12_holds : C12_statement.
Proof.
  split; [exact impl_refines_spec |].
  split; [exact impl_never_panics |].
  split; [exact numbers_consistent_holds | exact spec_reports_errors].
Qed.

(* ---- non-vacuity: a well-formed program on which every repaired defect matters ----
   let x = 7 / 2; let m = [3, 1, 2];
   fn f(p) { let i = 0; while i < 3 { i = i + 1; if i == 2 { return i * 10 + p; } } return -1; }
   sort(m, fn (a, b) { return a < b; });
   print(x + 0.5, f(1), len(m) + 0.5, first(m));
   register_skill_cb(1, fn () { return skill(LowestHP); });           then NextAction(1)      *)
Definition demo_prog : block :=
  (Block [(NStmt (SLet (Tok ItemIdentifier "x"%string) (EBinary (ENum (7) (f64 4619567317775286272) false) (ENum (2) (f64 4611686018427387904) false) (Tok ItemForwardSlash "/"%string)))); (NStmt (SLet (Tok ItemIdentifier "m"%string) (EMap [(ENum (3) (f64 4613937818241073152) false); (ENum (1) (f64 4607182418800017408) false); (ENum (2) (f64 4611686018427387904) false)] []))); (NStmt (SFn (Tok ItemIdentifier "f"%string) ["p"%string] (Block [(NStmt (SLet (Tok ItemIdentifier "i"%string) (ENum (0) (f64 0) false))); (NStmt (SWhile (EBinary (EIdent "i"%string) (ENum (3) (f64 4613937818241073152) false) (Tok OpLessThan "<"%string)) (Block [(NStmt (SAssign (Tok ItemIdentifier "i"%string) (EBinary (EIdent "i"%string) (ENum (1) (f64 4607182418800017408) false) (Tok ItemPlus "+"%string)))); (NStmt (SIf (EBinary (EIdent "i"%string) (ENum (2) (f64 4611686018427387904) false) (Tok OpEqual "=="%string)) (Block [(NStmt (SReturn (EBinary (EBinary (EIdent "i"%string) (ENum (10) (f64 4621819117588971520) false) (Tok ItemAsterisk "*"%string)) (EIdent "p"%string) (Tok ItemPlus "+"%string))))]) SNil))]))); (NStmt (SReturn (EUnary (Tok ItemMinus "-"%string) (ENum (1) (f64 4607182418800017408) false))))]))); (NExpr (ECall (EIdent "sort"%string) [(EIdent "m"%string); (EFuncLit ["a"%string; "b"%string] (Block [(NStmt (SReturn (EBinary (EIdent "a"%string) (EIdent "b"%string) (Tok OpLessThan "<"%string))))]))])); (NExpr (ECall (EIdent "print"%string) [(EBinary (EIdent "x"%string) (ENum (0) (f64 4602678819172646912) true) (Tok ItemPlus "+"%string)); (ECall (EIdent "f"%string) [(ENum (1) (f64 4607182418800017408) false)]); (EBinary (ECall (EIdent "len"%string) [(EIdent "m"%string)]) (ENum (0) (f64 4602678819172646912) true) (Tok ItemPlus "+"%string)); (ECall (EIdent "first"%string) [(EIdent "m"%string)])])); (NExpr (ECall (EIdent "register_skill_cb"%string) [(ENum (1) (f64 4607182418800017408) false); (EFuncLit [] (Block [(NStmt (SReturn (ECall (EIdent "skill"%string) [(EIdent "LowestHP"%string)])))]))]))]).
Definition demo_eng : engine := mkEng [] 0 [] [] [].

Definition demo_trace : list (gitem snum) :=
  [GEng ("Characters"%string, 0, XNone);
   GPrint [PNum (NFloat 3.5%float); PNum (NInt 21); PNum (NFloat 3.5%float); PNum (NInt 1)];
   GInit None;
   GCall (Ok [(ASkill, 1, 101)])].

Lemma demo_runs :
  wf_block demo_prog = true /\
  GcsSem.run_case 200 demo_prog demo_eng [] [CNext 1] = demo_trace /\
  map abs_item (GcsEval.run_case 200 demo_prog demo_eng [] [CNext 1]) =
    GcsSem.run_case 200 demo_prog demo_eng [] [CNext 1].
Proof. vm_compute. repeat apply conj; reflexivity. Qed.
