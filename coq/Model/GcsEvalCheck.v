(* Correspondence checker for the gcs evaluator (C12).  A case is the input
     (program, engine stub, random draws, callback invocations)
   and the chronological trace the REAL evaluator produced (harness/cmd/corr/gcseval.go).
   [check_case] runs BOTH models on the input and compares
     * the implementation model (Model/GcsEval.v) with the real trace exactly - every printed
       number with all three fields ival, fval (bit pattern), isFloat;
     * the reference semantics (Model/GcsSem.v) with the real trace on what the property names:
       printed values (a number as integer-or-float), engine calls, outcome and error category
       of Init and of every callback invocation, the decisions returned.
   [monitor_case] is the property's own predicate on what the implementation did, independent
   of the model runs. *)
From Coq Require Import List ZArith Bool String Floats.
From SR Require Import Base.CaseLib Model.GcsAst Model.GcsStore Model.GcsEval Model.GcsSem.
Import ListNotations.
Open Scope Z_scope.

(* ---- what the harness writes ---- *)
Inductive oval :=
| XNum (i : Z) (f : float) (b : bool)
| XStr (s : string)
| XNull | XFun | XBif
| XAct (t : acttype) (ev : Z)
| XMap (arr : list oval) (flds : list (string * oval))
| XBad (s : string).

Inductive initres := ROk | RErr (e : errcat) | RPanicked.
Inductive callres := KActs (l : list (acttype * Z * Z)) | KErr (e : errcat) | KPanicked.

Inductive oitem :=
| TPrint (l : list oval)
| TEng (name : string) (id : Z) (x : extra)
| TInit (r : initres)
| TCall (r : callres)
| TTimeout.

Record obs := mkObs { o_trace : list oitem; o_textok : bool }.

Definition case := (block * engine * list Z * list cbcall * obs)%type.

Definition fuel : nat := 4000.

(* ---- comparison of an exported model value with an observed one ---- *)
Section Cmp.
Variable N : Type.
Variable num_match : N -> Z -> float -> bool -> bool.

Fixpoint pval_match (p : pval N) (o : oval) {struct p} : bool :=
  match p, o with
  | PNum n, XNum i f b => num_match n i f b
  | PStr s, XStr s' => string_eqb s s'
  | PNull, XNull => true
  | PFun, XFun => true
  | PBif, XBif => true
  | PAct t e, XAct t' e' => acttype_eqb t t' && (e =? e')
  | PMap arr flds, XMap arr' flds' =>
      (fix go (x : list (pval N)) (y : list oval) : bool :=
         match x, y with
         | [], [] => true
         | a :: x', b :: y' => pval_match a b && go x' y'
         | _, _ => false
         end) arr arr' &&
      (fix gof (x : list (string * pval N)) (y : list (string * oval)) : bool :=
         match x, y with
         | [], [] => true
         | (k, a) :: x', (k', b) :: y' => string_eqb k k' && pval_match a b && gof x' y'
         | _, _ => false
         end) flds flds'
  | _, _ => false
  end.

Definition act_eqb (a b : acttype * Z * Z) : bool :=
  let '(t, x, e) := a in let '(t', x', e') := b in acttype_eqb t t' && (x =? x') && (e =? e').

Definition item_match (g : gitem N) (o : oitem) : bool :=
  match g, o with
  | GPrint l, TPrint l' =>
      (fix go (x : list (pval N)) (y : list oval) : bool :=
         match x, y with
         | [], [] => true
         | a :: x', b :: y' => pval_match a b && go x' y'
         | _, _ => false
         end) l l'
  | GEng (name, id, x), TEng name' id' x' => string_eqb name name' && (id =? id') && extra_eqb x x'
  | GInit None, TInit ROk => true
  | GInit (Some (FErr e)), TInit (RErr e') => errcat_eqb e e'
  | GInit (Some (FPanic _)), TInit RPanicked => true
  | GCall (Ok l), TCall (KActs l') => list_eqb act_eqb l l'
  | GCall (Fail (FErr e)), TCall (KErr e') => errcat_eqb e e'
  | GCall (Fail (FPanic _)), TCall KPanicked => true
  | _, _ => false
  end.

Fixpoint trace_match (g : list (gitem N)) (o : list oitem) : bool :=
  match g, o with
  | [], [] => true
  | a :: g', b :: o' => item_match a b && trace_match g' o'
  | _, _ => false
  end.
End Cmp.

(* the implementation model must predict every field *)
Definition inum_match (n : inum) (i : Z) (f : float) (b : bool) : bool :=
  (ival n =? i) && feqb_bits (fval n) f && Bool.eqb (isf n) b.
(* the reference semantics talks about the number the fields denote *)
Definition snum_match (n : snum) (i : Z) (f : float) (b : bool) : bool :=
  match n with
  | NInt z => negb b && (z =? i)
  | NFloat x => b && feqb_bits x f
  end.

Definition impl_trace (c : case) : list (gitem inum) :=
  let '(prog, eng, draws, calls, _) := c in GcsEval.run_case fuel prog eng draws calls.
Definition spec_trace (c : case) : list (gitem snum) :=
  let '(prog, eng, draws, calls, _) := c in GcsSem.run_case fuel prog eng draws calls.

Definition check_case (c : case) : bool :=
  let '(_, _, _, _, o) := c in
  trace_match inum inum_match (impl_trace c) (o_trace o) &&
  trace_match snum snum_match (spec_trace c) (o_trace o) &&
  o_textok o.

Definition model_out (c : case) := (impl_trace c, spec_trace c).

(* ---- the property's own predicate on the implementation's trace ---- *)
(* A well-formed program: a tree as the parser builds it.  A float literal carries IntVal 0;
   the blocks of functions, ifs, loops and cases are present (only a switch may lack its
   default block).  (Omitted expressions - [return;], a switch without subject, [for {], an
   empty statement - are [ENil] and evaluate to null.) *)

Fixpoint wf_expr (e : expr) : bool :=
  match e with
  | ENum i _ b => negb b || (i =? 0)
  | EFuncLit _ body => wf_block body
  | ECall f args => wf_expr f && forallb wf_expr args
  | EUnary _ r => wf_expr r
  | EBinary l r _ => wf_expr l && wf_expr r
  | EMap arr flds => forallb wf_expr arr && forallb (fun kv => wf_expr (snd kv)) flds
  | _ => true
  end
with wf_stmt (s : stmt) : bool :=
  match s with
  | SBlock b => wf_block b
  | SAssign _ e | SLet _ e | SReturn e => wf_expr e
  | SIf c b els => wf_expr c && wf_block b && wf_stmt els
  | SSwitch c cases def =>
      wf_expr c && forallb wf_case cases && (match def with BNil => true | _ => wf_block def end)
  | SCase c => wf_case c
  | SFn _ _ body => wf_block body
  | SWhile c b => wf_expr c && wf_block b
  | SFor i c p b => wf_stmt i && wf_expr c && wf_stmt p && wf_block b
  | _ => true
  end
with wf_case (c : casestmt) : bool :=
  match c with Case e b => wf_expr e && wf_block b end
with wf_node (n : node) : bool :=
  match n with NExpr e => wf_expr e | NStmt s => wf_stmt s end
with wf_block (b : block) : bool :=
  match b with BNil => false | Block l => forallb wf_node l end.

(* "the result does not depend on how a number was produced": a printed float carries no
   integer part of its own *)
Fixpoint oval_ok (o : oval) : bool :=
  match o with
  | XNum i _ b => negb b || (i =? 0)
  | XMap arr flds => forallb oval_ok arr && forallb (fun kv => oval_ok (snd kv)) flds
  | XBad _ => false
  | _ => true
  end.

Definition cat_ok (e : errcat) : bool := match e with EOther _ => false | _ => true end.

(* never crashes, errors are reported (and are one of the documented kinds), nothing happens
   after a failed Init *)
Fixpoint otrace_ok (tr : list oitem) : bool :=
  match tr with
  | [] => true
  | TPrint l :: r => forallb oval_ok l && otrace_ok r
  | TEng _ _ _ :: r => otrace_ok r
  | TInit ROk :: r => otrace_ok r
  | TInit (RErr e) :: r => cat_ok e && match r with [] => true | _ => false end
  | TInit RPanicked :: _ => false
  | TCall (KActs _) :: r => otrace_ok r
  | TCall (KErr e) :: r => cat_ok e && otrace_ok r
  | TCall KPanicked :: _ => false
  | TTimeout :: _ => false
  end.

Definition monitor_case (c : case) : bool :=
  let '(prog, _, _, _, o) := c in
  wf_block prog && otrace_ok (o_trace o) && o_textok o.
