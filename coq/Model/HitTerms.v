(* Case-file names of the "hit" component at the binary64 instance (see CombatTerms.v). *)
From SR Require Import Model.CombatCore Model.Hit.
From SR Require Export Model.CombatTerms.

Notation AAttack := (@AAttack FloatNum).
Notation AEndAttack := (@AEndAttack FloatNum).
Notation AShield := (@AShield FloatNum).
Notation AModHP := (@AModHP FloatNum).
