(* Proofs for C16 over Model/ShieldRe.v: histories of the shield manager WITH re-entrant listeners.

   Part 1 (every numeric instance, every script queue, every fuel, OutOfFuel excluded):
           [explained]: the recorded trace of a re-entrant history is explained by FLAT atomic steps.
           Reading the trace from left to right and applying [Shield.step] whenever a call is entered,
           every call - top-level or nested at any depth - is entered in a state with unique keys, meets
           the per-call specification [step_spec] there, delivers exactly the events of that atomic step,
           in order, to listeners that see exactly the flat state reached so far, and returns the value
           computed by the atomic step; calls nest properly.  The final state is the flat execution
           ([exec]) of all calls in the order in which they were entered.
   Part 2  fuel: above the number of operations in all scripts the model never runs out of fuel.
   Part 3  without listener scripts the re-entrant model IS the flat model (conservative extension).
   Part 4  what is NOT true with re-entrant listeners (refutations by vm_compute witnesses): the state a
           call leaves behind when it RETURNS need not satisfy the per-call specification (a listener of
           its own event undid it) - the specification holds per call at the commit (Part 1) and for
           whole calls when no listener script runs (Part 3); and the payload of a later event of a call
           need not describe the state in which it is delivered.
   Part 5  the property statement and a re-entrant non-vacuity example. *)
From Coq Require Import List ZArith Bool Floats Reals Lia.
From SR Require Import Model.Shield Model.ShieldRe Proofs.ShieldProofs.
Import ListNotations.
Open Scope Z_scope.

(* ------------------------------------------------------------------------------------ *)
(* Part 1 *)
Section Generic.
Context {N : Type} (O : NumOps N).
Variables nu nk : nat.

(* the calls of a trace in the order in which they were entered *)
Fixpoint tcalls (t : list (titem N)) : list (op N) :=
  match t with
  | [] => []
  | TCall o :: r => o :: tcalls r
  | _ :: r => tcalls r
  end.

Lemma tcalls_app : forall a b, tcalls (a ++ b) = tcalls a ++ tcalls b.
Proof.
  induction a as [|x a IH]; intros b; [reflexivity|].
  destruct x; cbn [app tcalls]; rewrite IH; reflexivity.
Qed.

(* an open call: the events it still has to deliver, and the value it will return *)
Definition pending : Type := (list (event N) * option N)%type.

(* the flat reading of a trace: [w] is the flat state reached so far, [stk] the open calls
   (innermost first) *)
Fixpoint explained (w : world N) (stk : list pending) (t : list (titem N)) : Prop :=
  match t with
  | [] => stk = []
  | TCall o :: r =>
      wf w /\ step_spec O w o (step O w o) /\
      explained (fst (fst (step O w o))) ((snd (fst (step O w o)), snd (step O w o)) :: stk) r
  | TEv e p :: r =>
      match stk with
      | (e' :: evs, ret) :: s => e = e' /\ p = probe O nu nk w /\ explained w ((evs, ret) :: s) r
      | _ => False
      end
  | TRet rt p :: r =>
      match stk with
      | ([], ret) :: s => rt = ret /\ p = probe O nu nk w /\ explained w s r
      | _ => False
      end
  end.

(* what is proved of every caller by induction on the fuel *)
Definition caller_ok (C : caller (N := N)) : Prop :=
  forall q w o w2 q2 t, wf w -> C q w o = Done (w2, q2, t) ->
    w2 = exec O w (tcalls t) /\ wf w2 /\
    forall stk r, explained w2 stk r -> explained w stk (t ++ r).

Lemma run_ops_ok : forall C, caller_ok C ->
  forall ops q w w2 q2 t, wf w -> run_ops C q w ops = Done (w2, q2, t) ->
    w2 = exec O w (tcalls t) /\ wf w2 /\
    forall stk r, explained w2 stk r -> explained w stk (t ++ r).
Proof.
  intros C HC. induction ops as [|o ops IH]; intros q w w2 q2 t Hwf H; cbn [run_ops] in H.
  - inversion H; subst. cbn. auto.
  - destruct (C q w o) as [[[w1 q1] t1]|] eqn:Ec; [|discriminate].
    destruct (run_ops C q1 w1 ops) as [[[w3 q3] t3]|] eqn:Er; [|discriminate].
    inversion H; subst. clear H.
    destruct (HC _ _ _ _ _ _ Hwf Ec) as [Hw1 [Hwf1 Hx1]].
    destruct (IH _ _ _ _ _ Hwf1 Er) as [Hw2 [Hwf2 Hx2]].
    split; [|split; [exact Hwf2|]].
    + rewrite tcalls_app, exec_app, <- Hw1. exact Hw2.
    + intros stk r Hr. rewrite <- app_assoc. apply Hx1. apply Hx2. exact Hr.
Qed.

Lemma emit_all_ok : forall C, caller_ok C ->
  forall evs q w w2 q2 t, wf w -> emit_all O nu nk C q w evs = Done (w2, q2, t) ->
    w2 = exec O w (tcalls t) /\ wf w2 /\
    forall rest ret stk r, explained w2 ((rest, ret) :: stk) r ->
                           explained w ((evs ++ rest, ret) :: stk) (t ++ r).
Proof.
  intros C HC. induction evs as [|e evs IH]; intros q w w2 q2 t Hwf H; cbn [emit_all] in H.
  - inversion H; subst. cbn. auto.
  - destruct (pop_slot q e) as [s q1].
    destruct (run_ops C q1 w s) as [[[w1 q3] t1]|] eqn:Er; [|discriminate].
    destruct (emit_all O nu nk C q3 w1 evs) as [[[w3 q4] t3]|] eqn:Ee; [|discriminate].
    inversion H; subst. clear H.
    destruct (run_ops_ok C HC _ _ _ _ _ _ Hwf Er) as [Hw1 [Hwf1 Hx1]].
    destruct (IH _ _ _ _ _ Hwf1 Ee) as [Hw2 [Hwf2 Hx2]].
    split; [|split; [exact Hwf2|]].
    + cbn [tcalls]. rewrite tcalls_app, exec_app, <- Hw1. exact Hw2.
    + intros rest ret stk r Hr. cbn [app explained].
      split; [reflexivity|]. split; [reflexivity|].
      rewrite <- app_assoc. apply Hx1. apply Hx2. exact Hr.
Qed.

Lemma call_ok : forall fuel, caller_ok (call O nu nk fuel).
Proof.
  induction fuel as [|f IH]; intros q w o w2 q2 t Hwf H; cbn [call] in H; [discriminate|].
  pose proof (step_meets_spec O w o Hwf) as Hspec.
  pose proof (step_keeps_wf O w o Hwf) as Hwf1.
  destruct (step O w o) as [[w1 evs] ret] eqn:Es. cbn [fst] in Hwf1.
  destruct (emit_all O nu nk (call O nu nk f) q w1 evs) as [[[w3 q3] t3]|] eqn:Ee; [|discriminate].
  inversion H; subst. clear H.
  destruct (emit_all_ok _ IH _ _ _ _ _ _ Hwf1 Ee) as [Hw2 [Hwf2 Hx2]].
  split; [|split; [exact Hwf2|]].
  - cbn [tcalls]. rewrite tcalls_app. cbn [tcalls]. rewrite app_nil_r.
    cbn [exec]. rewrite Es. cbn [fst]. exact Hw2.
  - intros stk r Hr. cbn [app explained]. rewrite Es. cbn [fst snd].
    split; [exact Hwf|]. split; [exact Hspec|].
    rewrite <- app_assoc. specialize (Hx2 [] ret stk ([TRet ret (probe O nu nk w2)] ++ r)).
    rewrite app_nil_r in Hx2. apply Hx2. cbn [app explained]. auto.
Qed.

Theorem reentrant_explained : forall fuel q w ops w2 q2 t, wf w ->
  runL O nu nk fuel q w ops = Done (w2, q2, t) ->
  explained w [] t /\ w2 = exec O w (tcalls t) /\ wf w2.
Proof.
  intros fuel q w ops w2 q2 t Hwf H. unfold runL in H.
  destruct (run_ops_ok _ (call_ok fuel) _ _ _ _ _ _ Hwf H) as [Hw [Hwf2 Hx]].
  split; [|split; assumption].
  specialize (Hx [] []). rewrite app_nil_r in Hx. apply Hx. reflexivity.
Qed.

(* the same for one call *)
Theorem call_explained : forall fuel q w o w2 q2 t, wf w ->
  call O nu nk fuel q w o = Done (w2, q2, t) ->
  explained w [] t /\ w2 = exec O w (tcalls t) /\ wf w2.
Proof.
  intros fuel q w o w2 q2 t Hwf H.
  destruct (call_ok fuel _ _ _ _ _ _ Hwf H) as [Hw [Hwf2 Hx]].
  split; [|split; assumption].
  specialize (Hx [] []). rewrite app_nil_r in Hx. apply Hx. reflexivity.
Qed.

(* a call during which no listener called the manager again (whatever the queues hold: the scripts
   popped during this call were empty) leaves exactly its own effect behind and so meets the per-call
   specification as a whole; in general it leaves its own effect followed by the flat effects of the
   nested calls ([call_explained]) *)
Theorem whole_call_meets_spec_partial : forall fuel q w o w2 q2 t, wf w ->
  call O nu nk fuel q w o = Done (w2, q2, t) -> tcalls t = [o] ->
  step_spec O w o (w2, snd (fst (step O w o)), snd (step O w o)).
Proof.
  intros fuel q w o w2 q2 t Hwf H Ht.
  destruct (call_ok fuel _ _ _ _ _ _ Hwf H) as [Hw _]. rewrite Ht in Hw. cbn [exec] in Hw.
  pose proof (step_meets_spec O w o Hwf) as Hs. subst w2.
  destruct (step O w o) as [[w1 evs] ret]. exact Hs.
Qed.

(* ---------------------------------------------------------------------------------- *)
(* consequences of [explained] in the vocabulary of the flat theorems *)

(* every observation point: the state a listener sees, and the state right after a return, is the
   flat execution of the calls entered so far *)
Lemma explained_probes : forall t w stk, explained w stk t ->
  forall a x b, t = a ++ x :: b ->
    match x with
    | TCall o => wf (exec O w (tcalls a)) /\
                 step_spec O (exec O w (tcalls a)) o (step O (exec O w (tcalls a)) o)
    | TEv _ p => p = probe O nu nk (exec O w (tcalls a))
    | TRet _ p => p = probe O nu nk (exec O w (tcalls a))
    end.
Proof.
  induction t as [|y t IH]; intros w stk Hx a x b Heq.
  - destruct a; discriminate.
  - destruct a as [|y' a].
    + cbn in Heq. inversion Heq; subst. cbn [tcalls exec].
      destruct x as [o|e p|rt p]; cbn [explained] in Hx.
      * destruct Hx as [H1 [H2 _]]. auto.
      * destruct stk as [|[[|e' evs] ret] s]; try contradiction. tauto.
      * destruct stk as [|[[|e' evs] ret] s]; try contradiction. tauto.
    + cbn in Heq. inversion Heq; subst.
      destruct y' as [o|e p|rt p]; cbn [explained] in Hx; cbn [tcalls exec].
      * destruct Hx as [_ [_ Hx]]. eapply IH; [exact Hx|reflexivity].
      * destruct stk as [|[[|e' evs] ret] s]; try contradiction.
        destruct Hx as [_ [_ Hx]]. eapply IH; [exact Hx|reflexivity].
      * destruct stk as [|[[|e' evs] ret] s]; try contradiction.
        destruct Hx as [_ [_ Hx]]. eapply IH; [exact Hx|reflexivity].
Qed.

Theorem reentrant_observations : forall fuel q w ops w2 q2 t, wf w ->
  runL O nu nk fuel q w ops = Done (w2, q2, t) ->
  forall a x b, t = a ++ x :: b ->
    match x with
    | TCall o => wf (exec O w (tcalls a)) /\
                 step_spec O (exec O w (tcalls a)) o (step O (exec O w (tcalls a)) o)
    | TEv _ p => p = probe O nu nk (exec O w (tcalls a))
    | TRet _ p => p = probe O nu nk (exec O w (tcalls a))
    end.
Proof.
  intros fuel q w ops w2 q2 t Hwf H a x b Heq.
  destruct (reentrant_explained _ _ _ _ _ _ _ Hwf H) as [Hx _].
  eapply explained_probes; [exact Hx|exact Heq].
Qed.

(* ------------------------------------------------------------------------------------ *)
(* Part 2: fuel *)

Lemma pop_slot_total : forall (q : slots N) e s q1, pop_slot q e = (s, q1) ->
  (length s + total_ops q1 = total_ops q)%nat.
Proof.
  intros [qa qr qc] e s q1 H. unfold pop_slot in H. unfold total_ops, script_ops.
  destruct e; cbn [q_added q_removed q_change] in *.
  - destruct qa as [|s0 r]; inversion H; subst; cbn [q_added q_removed q_change fold_right length]; lia.
  - destruct qr as [|s0 r]; inversion H; subst; cbn [q_added q_removed q_change fold_right length]; lia.
  - destruct qc as [|s0 r]; inversion H; subst; cbn [q_added q_removed q_change fold_right length]; lia.
Qed.

Definition caller_total (C : caller (N := N)) (b : nat) : Prop :=
  forall q w o, (total_ops q < b)%nat ->
    exists w2 q2 t, C q w o = Done (w2, q2, t) /\ (total_ops q2 <= total_ops q)%nat.

Lemma run_ops_total : forall C b, caller_total C b ->
  forall ops q w, (ops = [] \/ (total_ops q < b)%nat) ->
    exists w2 q2 t, run_ops C q w ops = Done (w2, q2, t) /\ (total_ops q2 <= total_ops q)%nat.
Proof.
  intros C b HC. induction ops as [|o ops IH]; intros q w Hb; cbn [run_ops].
  - exists w, q, []. split; [reflexivity|lia].
  - destruct Hb as [Hb|Hb]; [discriminate|].
    destruct (HC q w o Hb) as [w1 [q1 [t1 [E1 L1]]]]. rewrite E1.
    destruct (IH q1 w1) as [w2 [q2 [t2 [E2 L2]]]]; [right; lia|]. rewrite E2.
    exists w2, q2, (t1 ++ t2). split; [reflexivity|lia].
Qed.

Lemma emit_all_total : forall C b, caller_total C b ->
  forall evs q w, (total_ops q <= b)%nat ->
    exists w2 q2 t, emit_all O nu nk C q w evs = Done (w2, q2, t) /\ (total_ops q2 <= total_ops q)%nat.
Proof.
  intros C b HC. induction evs as [|e evs IH]; intros q w Hb; cbn [emit_all].
  - exists w, q, []. split; [reflexivity|lia].
  - destruct (pop_slot q e) as [s q1] eqn:Ep. pose proof (pop_slot_total _ _ _ _ Ep) as Ht.
    destruct (run_ops_total C b HC s q1 w) as [w1 [q2 [t1 [E1 L1]]]].
    { destruct s as [|o s]; [now left|right]. cbn [length] in Ht. lia. }
    rewrite E1.
    destruct (IH q2 w1) as [w2 [q3 [t2 [E2 L2]]]]; [lia|]. rewrite E2.
    eexists _, _, _. split; [reflexivity|lia].
Qed.

Lemma call_total : forall fuel, caller_total (call O nu nk fuel) fuel.
Proof.
  induction fuel as [|f IH]; intros q w o Hb; [lia|]. cbn [call].
  destruct (step O w o) as [[w1 evs] ret].
  destruct (emit_all_total _ f IH evs q w1) as [w2 [q2 [t [E L]]]]; [lia|]. rewrite E.
  eexists _, _, _. split; [reflexivity|exact L].
Qed.

(* fuel above the number of operations in all scripts is enough, for every history *)
Theorem fuel_enough : forall fuel q w ops, (total_ops q < fuel)%nat ->
  exists w2 q2 t, runL O nu nk fuel q w ops = Done (w2, q2, t).
Proof.
  intros fuel q w ops Hb. unfold runL.
  destruct (run_ops_total _ fuel (call_total fuel) ops q w) as [w2 [q2 [t [E _]]]]; [now right|].
  eauto.
Qed.

(* ------------------------------------------------------------------------------------ *)
(* Part 3: no listener scripts = the flat model *)

Definition flat_call (w : world N) (o : op N) : list (titem N) :=
  let w1 := fst (fst (step O w o)) in
  TCall o :: map (fun e => TEv e (probe O nu nk w1)) (snd (fst (step O w o)))
    ++ [TRet (snd (step O w o)) (probe O nu nk w1)].

Fixpoint flat_trace (w : world N) (ops : list (op N)) : list (titem N) :=
  match ops with
  | [] => []
  | o :: r => flat_call w o ++ flat_trace (fst (fst (step O w o))) r
  end.

Lemma pop_slot_idle : forall (q : slots N) e, total_ops q = 0%nat ->
  fst (pop_slot q e) = [] /\ total_ops (snd (pop_slot q e)) = 0%nat.
Proof.
  intros q e H. destruct (pop_slot q e) as [s q1] eqn:Ep.
  pose proof (pop_slot_total _ _ _ _ Ep) as Ht. cbn [fst snd].
  split; [destruct s; [reflexivity|cbn [length] in Ht; lia]|lia].
Qed.

Lemma emit_all_idle : forall C evs q w, total_ops q = 0%nat ->
  exists q2, emit_all O nu nk C q w evs = Done (w, q2, map (fun e => TEv e (probe O nu nk w)) evs) /\
             total_ops q2 = 0%nat.
Proof.
  intros C. induction evs as [|e evs IH]; intros q w H; cbn [emit_all map].
  - exists q. auto.
  - destruct (pop_slot_idle q e H) as [Hs Hq]. destruct (pop_slot q e) as [s q1].
    cbn [fst snd] in Hs, Hq. subst s. cbn [run_ops].
    destruct (IH q1 w Hq) as [q2 [E Hq2]]. rewrite E. exists q2. split; [reflexivity|exact Hq2].
Qed.

Lemma call_idle : forall fuel q w o, total_ops q = 0%nat ->
  exists q2, call O nu nk (S fuel) q w o = Done (fst (fst (step O w o)), q2, flat_call w o) /\
             total_ops q2 = 0%nat.
Proof.
  intros fuel q w o H. cbn [call]. unfold flat_call.
  destruct (step O w o) as [[w1 evs] ret]. cbn [fst snd].
  destruct (emit_all_idle (call O nu nk fuel) evs q w1 H) as [q1 [E Hq1]]. rewrite E.
  exists q1. split; [reflexivity|exact Hq1].
Qed.

Theorem no_listeners_is_flat : forall fuel ops q w, total_ops q = 0%nat ->
  exists q2, runL O nu nk (S fuel) q w ops = Done (exec O w ops, q2, flat_trace w ops).
Proof.
  intros fuel. unfold runL. induction ops as [|o ops IH]; intros q w H; cbn [run_ops exec flat_trace].
  - exists q. reflexivity.
  - destruct (call_idle fuel q w o H) as [q1 [E Hq1]]. rewrite E.
    destruct (IH q1 (fst (fst (step O w o))) Hq1) as [q2 E2]. rewrite E2. exists q2. reflexivity.
Qed.

End Generic.

(* ------------------------------------------------------------------------------------ *)
(* Part 4: what re-entrant listeners break *)

(* (i) "the state a call leaves behind when it returns satisfies the per-call specification":
       true per call at its commit (Part 1) and for whole calls without listener scripts (Part 3);
       false in general - a listener of the call's own event may undo it before the call returns. *)
Definition C16_whole_call_meets_spec_statement : Prop :=
  forall (N : Type) (O : NumOps N) nu nk fuel q (w : world N) o w2 q2 t, wf w ->
    call O nu nk fuel q w o = Done (w2, q2, t) ->
    exists evs ret, step_spec O w o (w2, evs, ret).

(* AddShield(k0 on unit 1) announced; the ShieldAdded listener removes k0 from unit 1: when
   AddShield returns, the shield it added is not on the unit *)
Definition undo_q : slots float := mkQ [[ORemove 0 1]] [] [].
Definition undo_op : op float := OAdd 0 0 1 [] 20%float.

Lemma undo_runs :
  exists q2 t, call FOps 3 4 2 undo_q (init (N := float)) undo_op = Done (mkW [(1, [])] [], q2, t).
Proof. eexists _, _. vm_compute. reflexivity. Qed.

Theorem whole_call_meets_spec_refuted : ~ C16_whole_call_meets_spec_statement.
Proof.
  intros H. destruct undo_runs as [q2 [t E]].
  destruct (H float FOps 3%nat 4%nat 2%nat undo_q (init (N := float)) undo_op _ _ _ (wf_init (N := float)) E)
    as [evs [ret Hs]].
  unfold undo_op in Hs. cbn [step_spec] in Hs. unfold add_spec in Hs.
  destruct Hs as [_ [_ [_ [[Hin _]|[_ Hl]]]]].
  - cbn in Hin. exact Hin.
  - change (get_sh (mkW [(1, [])] []) 1) with (@nil (shield float)) in Hl.
    destruct (get_sh (init (N := float)) 1); discriminate.
Qed.

(* (ii) Two readings of "announced" that the property text does not make and that are FALSE with
        re-entrant listeners, recorded so that nobody relies on them.  The payload of every event of a
        call is fixed at the call's commit (Part 1: it is the event of the atomic step); a listener of an
        EARLIER event of the same call may have changed the unit before a later event is delivered.
        - "ShieldChange reports, as NewHP, the strongest shield of the unit at the time of delivery":
          NewHP and ID are locals of AbsorbDamage computed before the first emission;
        - "when ShieldRemoved(k) is delivered, k is not on the unit": the ShieldRemoved events of one
          AbsorbDamage are emitted from a list collected before the first of them. *)
Definition probe_of (p : list (uprobe float)) (u : Z) : option (uprobe float) :=
  if u <? 0 then None else nth_error p (Z.to_nat u).

Definition change_reports_current (t : list (titem float)) : bool :=
  forallb (fun x =>
    match x with
    | TEv (EChange tgt _ nw _ _ _) p =>
        match probe_of p tgt with
        | Some (_, mx, _) => PrimFloat.eqb nw mx
        | None => true
        end
    | _ => true
    end) t.

Definition removed_is_absent (t : list (titem float)) : bool :=
  forallb (fun x =>
    match x with
    | TEv (ERemoved k tgt) p =>
        match probe_of p tgt with
        | Some (_, _, hs) => if k <? 0 then true else negb (nth (Z.to_nat k) hs false)
        | None => true
        end
    | _ => true
    end) t.

Definition C16_change_event_is_current_statement : Prop :=
  forall nu nk fuel q ops w2 q2 t,
    runL FOps nu nk fuel q (init (N := float)) ops = Done (w2, q2, t) -> change_reports_current t = true.

Definition C16_removed_means_absent_statement : Prop :=
  forall nu nk fuel q ops w2 q2 t,
    runL FOps nu nk fuel q (init (N := float)) ops = Done (w2, q2, t) -> removed_is_absent t = true.

(* unit 1 carries k0 = 40 and k1 = 40; a hit of 40 exhausts both.  The listener of the first
   announcement (ShieldRemoved k0) adds k1 again with strength 500.  The outer call then delivers
   ShieldRemoved(k1) while k1 is on the unit, and ShieldChange with NewHP = 0 (no ID) while the listener
   that receives it sees MaxShield = 500 *)
Definition stale_q : slots float := mkQ [] [[OAdd 1 0 1 [] 500%float]] [].
Definition stale_ops : list (op float) :=
  [OAdd 0 0 1 [] 40%float; OAdd 1 0 1 [] 40%float; OAbsorb 1 40%float].

Lemma stale_runs :
  exists w2 q2 t, runL FOps 3 4 2 stale_q (init (N := float)) stale_ops = Done (w2, q2, t) /\
                  change_reports_current t = false /\ removed_is_absent t = false /\
                  get_sh w2 1 = [(1, 500%float)].
Proof. eexists _, _, _. split; [vm_compute; reflexivity|]. repeat split; vm_compute; reflexivity. Qed.

Theorem change_event_is_current_refuted : ~ C16_change_event_is_current_statement.
Proof.
  intros H. destruct stale_runs as [w2 [q2 [t [E [Hf _]]]]].
  rewrite (H _ _ _ _ _ _ _ _ E) in Hf. discriminate.
Qed.

Theorem removed_means_absent_refuted : ~ C16_removed_means_absent_statement.
Proof.
  intros H. destruct stale_runs as [w2 [q2 [t [E [_ [Hf _]]]]]].
  rewrite (H _ _ _ _ _ _ _ _ E) in Hf. discriminate.
Qed.

(* ------------------------------------------------------------------------------------ *)
(* Part 5: the property with re-entrant listeners *)

(* (a) every history - every numeric instance, every queue of listener scripts, every fuel - that
       does not run out of fuel: the trace is explained by flat atomic steps (each call, top-level or
       nested, entered with unique keys, meeting [step_spec], its events and return value those of
       the atomic step, listeners seeing the flat state), the final state is the flat execution of
       the calls in entry order, keys are unique
   (b) fuel above the number of script operations never runs out
   (c) without scripts the trace is the flat trace of the operations and the state is [exec] *)
Definition C16_reentrant_statement : Prop :=
  (forall (N : Type) (O : NumOps N) nu nk fuel (q : slots N) ops w2 q2 t,
     runL O nu nk fuel q (init (N := N)) ops = Done (w2, q2, t) ->
     explained O nu nk (init (N := N)) [] t /\
     w2 = exec O (init (N := N)) (tcalls t) /\ wf w2) /\
  (forall (N : Type) (O : NumOps N) nu nk fuel (q : slots N) (w : world N) ops,
     (total_ops q < fuel)%nat -> runL O nu nk fuel q w ops <> OutOfFuel) /\
  (forall (N : Type) (O : NumOps N) nu nk fuel (q : slots N) (w : world N) ops,
     total_ops q = 0%nat ->
     exists q2, runL O nu nk (S fuel) q w ops = Done (exec O w ops, q2, flat_trace O nu nk w ops)).

Theorem C16_reentrant_holds : C16_reentrant_statement.
Proof.
  split; [|split].
  - intros N O nu nk fuel q ops w2 q2 t H. eapply reentrant_explained; [apply wf_init|exact H].
  - intros N O nu nk fuel q w ops Hb.
    destruct (fuel_enough O nu nk fuel q w ops Hb) as [w2 [q2 [t E]]]. rewrite E. discriminate.
  - intros. now apply no_listeners_is_flat.
Qed.

(* non-vacuity: a re-entrant history, three levels deep.
   Unit 1 gets k0 = 150 and k2 = 40 (as in ShieldProofs.demo_ops).  AbsorbDamage(1, 40) exhausts k2 and
   announces it; the ShieldRemoved listener re-adds k2 (strength 37.5) - whose ShieldAdded listener
   hits unit 1 for 37.5, which exhausts the new k2 again (ShieldRemoved delivered a second time,
   nested, this time to a listener that does nothing) - and then the outer call's ShieldChange listener
   removes k0, the very shield the event names as the strongest. *)
Definition re_ops : list (op float) :=
  [ OStats 0 (mkSt 100 80 60 0.5 0)%float;
    OStats 1 (mkSt 0 0 40 0 0.25)%float;
    OAdd 0 0 1 [(FAtk, 0.5%float); (FTgtHp, 0.5%float)] 10%float;   (* 150 *)
    OAdd 2 1 1 [] 32%float;                                          (* 40 *)
    OAbsorb 1 40%float ].
Definition re_q : slots float :=
  mkQ [[]; []; [OAbsorb 1 37.5%float]]           (* ShieldAdded: 1st and 2nd idle, 3rd hits again *)
      [[OAdd 2 0 1 [] 20%float]; []]             (* ShieldRemoved: re-add the key being reported *)
      [[]; [ORemove 0 1]].                       (* ShieldChange: inner idle, outer removes k0 *)

Definition re_calls : list (op float) :=
  re_ops ++ [OAdd 2 0 1 [] 20%float; OAbsorb 1 37.5%float; ORemove 0 1].

(* the outer ShieldChange names k0 with NewHP 110 although, when delivered, k0 holds 72.5 *)
Definition re_outer_change : titem float :=
  TEv (EChange 1 (Some 0) 110%float 150%float 40%float 0%float)
      [(false, 0%float, [false; false; false; false]);
       (true, 72.5%float, [true; false; false; false]);
       (false, 0%float, [false; false; false; false])].

Lemma re_demo_runs :
  exists w2 q2 t,
    runL FOps 3 4 (S (total_ops re_q)) re_q (init (N := float)) re_ops = Done (w2, q2, t) /\
    tcalls t = re_calls /\ get_sh w2 1 = [] /\ total_ops q2 = 0%nat /\ length t = 24%nat /\
    nth_error t 19 = Some re_outer_change.
Proof.
  eexists _, _, _. split; [vm_compute; reflexivity|].
  repeat split; vm_compute; reflexivity.
Qed.
