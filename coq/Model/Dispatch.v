(* Model of the modifier manager's LISTENER DISPATCH: pkg/engine/modifier/listener.go (the functions
   the manager subscribes to the engine's events) and the two listener walks of tick.go.

   A unit carries its attached modifier instances in attachment order.  An event names the units
   that play its roles.  Each Go function  func (mgr *Manager) xxx(e event.Xxx)  is a list of WALKS
   (`slot`): `for _, mod := range mgr.itr(unit)` with a fixed list of callbacks tried on every
   instance.  `mgr.itr` copies the attached list, so a walk visits the instances that were attached
   WHEN THE WALK STARTED, whatever the callbacks do to the list meanwhile; the next walk of the same
   event takes a fresh copy.  What a callback does is data: the script of its configuration
   (detach itself / another instance, attach a new instance), interpreted by [do_actions].

   Executable; no proofs here (Proofs/DispatchProofs.v). *)
From Coq Require Import List ZArith Bool.
Import ListNotations.
Open Scope Z_scope.

(* every field of modifier.Listeners *)
Inductive cb :=
  | OnAdd | OnRemove | OnDispel | OnExtendDuration | OnExtendCount | OnPropertyChange
  | OnPhase1 | OnPhase2
  | OnHPChange | OnLimboWaitHeal | OnBeforeDying | OnTriggerDeath | OnEnergyChange | OnStanceChange
  | OnBeforeBeingBreak | OnTriggerBreak | OnBeingBreak | OnEndBreak
  | OnBreakExtend
  | OnShieldAdded | OnShieldRemoved
  | OnBeforeAttack | OnBeforeBeingAttacked | OnAfterAttack | OnAfterBeingAttacked
  | OnBeforeHitAll | OnBeforeHit | OnBeforeBeingHitAll | OnBeforeBeingHit
  | OnAfterHitAll | OnAfterHit | OnAfterBeingHitAll | OnAfterBeingHit
  | OnBeforeDealHeal | OnBeforeBeingHeal | OnAfterDealHeal | OnAfterBeingHeal
  | OnBeforeAction | OnAfterAction.

Definition cb_code (k : cb) : Z :=
  match k with
  | OnAdd => 0 | OnRemove => 1 | OnDispel => 2 | OnExtendDuration => 3 | OnExtendCount => 4
  | OnPropertyChange => 5 | OnPhase1 => 6 | OnPhase2 => 7
  | OnHPChange => 8 | OnLimboWaitHeal => 9 | OnBeforeDying => 10 | OnTriggerDeath => 11
  | OnEnergyChange => 12 | OnStanceChange => 13
  | OnBeforeBeingBreak => 14 | OnTriggerBreak => 15 | OnBeingBreak => 16 | OnEndBreak => 17
  | OnBreakExtend => 18
  | OnShieldAdded => 19 | OnShieldRemoved => 20
  | OnBeforeAttack => 21 | OnBeforeBeingAttacked => 22 | OnAfterAttack => 23 | OnAfterBeingAttacked => 24
  | OnBeforeHitAll => 25 | OnBeforeHit => 26 | OnBeforeBeingHitAll => 27 | OnBeforeBeingHit => 28
  | OnAfterHitAll => 29 | OnAfterHit => 30 | OnAfterBeingHitAll => 31 | OnAfterBeingHit => 32
  | OnBeforeDealHeal => 33 | OnBeforeBeingHeal => 34 | OnAfterDealHeal => 35 | OnAfterBeingHeal => 36
  | OnBeforeAction => 37 | OnAfterAction => 38
  end.
Definition cb_eqb (a b : cb) : bool := cb_code a =? cb_code b.

(* every field of Listeners *)
Definition all_cbs : list cb :=
  [OnAdd; OnRemove; OnDispel; OnExtendDuration; OnExtendCount; OnPropertyChange; OnPhase1; OnPhase2;
   OnHPChange; OnLimboWaitHeal; OnBeforeDying; OnTriggerDeath; OnEnergyChange; OnStanceChange;
   OnBeforeBeingBreak; OnTriggerBreak; OnBeingBreak; OnEndBreak; OnBreakExtend;
   OnShieldAdded; OnShieldRemoved;
   OnBeforeAttack; OnBeforeBeingAttacked; OnAfterAttack; OnAfterBeingAttacked;
   OnBeforeHitAll; OnBeforeHit; OnBeforeBeingHitAll; OnBeforeBeingHit;
   OnAfterHitAll; OnAfterHit; OnAfterBeingHitAll; OnAfterBeingHit;
   OnBeforeDealHeal; OnBeforeBeingHeal; OnAfterDealHeal; OnAfterBeingHeal;
   OnBeforeAction; OnAfterAction].

(* the callbacks of the manager's own bookkeeping (emitAdd / emitRemove / ...): they are not reached
   from an engine event; here they only show up as the consequence of a script's attach / detach *)
Definition internal (k : cb) : bool :=
  match k with
  | OnAdd | OnRemove | OnDispel | OnExtendDuration | OnExtendCount | OnPropertyChange => true
  | _ => false
  end.

(* what a callback does besides being called *)
Inductive action :=
  | ADetachSelf                  (* mod.RemoveSelf() *)
  | ADetach (tag : Z)            (* RemoveSelf of the instance with this tag, wherever it is attached *)
  | AAttach (u : Z) (c : nat)    (* AddModifier(u, config c) with source u *)
  | AAttachOwner (c : nat).      (* AddModifier(mod.Owner(), config c) *)

(* a registered modifier.Config: which Listeners fields are non-nil, CanModifySnapshot, and the
   script of each callback (first entry of a kind counts; internal callbacks run no script) *)
Record cfg := mkCfg { c_cbs : list cb; c_snap : bool; c_script : list (cb * list action) }.

(* an attached instance: the tag given at AddModifier (info.Modifier.State), the unit it was attached
   to (Instance.Owner()), the index of its config and a copy of it (newInstance copies the listeners
   and the flag out of the catalog) *)
Record inst := mkInst { i_id : Z; i_owner : Z; i_cfgidx : nat; i_cfg : cfg }.

Definition has (i : inst) (k : cb) : bool := existsb (cb_eqb k) (c_cbs (i_cfg i)).
Definition script_of (i : inst) (k : cb) : list action :=
  if internal k then []
  else match find (fun p => cb_eqb (fst p) k) (c_script (i_cfg i)) with
       | Some p => snd p
       | None => []
       end.

(* one recorded invocation: which Listeners field, on which instance, the instance's owner, and the
   target id handed to the callback (OnTriggerDeath / OnTriggerBreak; 0 for all others) *)
Record call := mkCall { c_cb : cb; c_id : Z; c_owner : Z; c_arg : Z }.

Record world := mkW {
  w_cat : list cfg;                   (* the catalog *)
  w_valid : list Z;                   (* engine.IsValid *)
  w_att : list (Z * list inst);       (* mgr.targets: unit -> instances in attachment order *)
  w_next : Z }.                       (* next tag *)

Fixpoint lookup (m : list (Z * list inst)) (u : Z) : list inst :=
  match m with
  | [] => []
  | (v, l) :: r => if v =? u then l else lookup r u
  end.
Fixpoint update (m : list (Z * list inst)) (u : Z) (l : list inst) : list (Z * list inst) :=
  match m with
  | [] => [(u, l)]
  | (v, l0) :: r => if v =? u then (v, l) :: r else (v, l0) :: update r u l
  end.

(* mgr.targets[u] (nil for a unit the manager has never seen); mgr.itr(u) is a copy of it *)
Definition attached (w : world) (u : Z) : list inst := lookup (w_att w) u.
Definition set_attached (w : world) (u : Z) (l : list inst) : world :=
  mkW (w_cat w) (w_valid w) (update (w_att w) u l) (w_next w).

Definition mk_call (k : cb) (arg : Z) (i : inst) : call := mkCall k (i_id i) (i_owner i) arg.
(* `f := mod.listeners.K; if f != nil { f(mod) }` for a bookkeeping callback *)
Definition note (k : cb) (i : inst) : list call := if has i k then [mk_call k 0 i] else [].

(* AddModifier(u, Modifier{Name: config c, Source: u, State: fresh tag}) with Stacking = Multiple:
   invalid target -> error, nothing happens; else append and emitAdd *)
Definition do_attach (w : world) (u : Z) (c : nat) : list call * world :=
  if existsb (Z.eqb u) (w_valid w) then
    match nth_error (w_cat w) c with
    | Some cf =>
        let i := mkInst (w_next w) u c cf in
        (note OnAdd i,
         mkW (w_cat w) (w_valid w) (update (w_att w) u (attached w u ++ [i])) (w_next w + 1))
    | None => ([], w)
    end
  else ([], w).

Fixpoint find_att (t : Z) (m : list (Z * list inst)) : option inst :=
  match m with
  | [] => None
  | (_, l) :: r =>
      match find (fun i => i_id i =? t) l with
      | Some i => Some i
      | None => find_att t r
      end
  end.
Fixpoint remove_tag (t : Z) (l : list inst) : list inst :=
  match l with
  | [] => []
  | i :: r => if i_id i =? t then r else i :: remove_tag t r
  end.

(* Instance.RemoveSelf(): mgr.RemoveSelf(owner, instance) removes it from the owner's list keeping
   the order of the others, then emitRemove; an instance no longer attached: nothing happens *)
Definition do_detach (w : world) (t : Z) : list call * world :=
  match find_att t (w_att w) with
  | Some i => (note OnRemove i, set_attached w (i_owner i) (remove_tag t (attached w (i_owner i))))
  | None => ([], w)
  end.

Definition do_action (self : inst) (w : world) (a : action) : list call * world :=
  match a with
  | ADetachSelf => do_detach w (i_id self)
  | ADetach t => do_detach w t
  | AAttach u c => do_attach w u c
  | AAttachOwner c => do_attach w (i_owner self) c
  end.
Fixpoint do_actions (self : inst) (w : world) (l : list action) : list call * world :=
  match l with
  | [] => ([], w)
  | a :: r =>
      let '(c1, w1) := do_action self w a in
      let '(c2, w2) := do_actions self w1 r in
      (c1 ++ c2, w2)
  end.

(* `f := mod.listeners.K; if f != nil { f(mod, e) }`: the call, then what the callback's script does *)
Definition invoke (k : cb) (arg : Z) (i : inst) (w : world) : list call * world :=
  if has i k then
    let '(cs, w') := do_actions i w (script_of i k) in
    (mk_call k arg i :: cs, w')
  else ([], w).
Fixpoint invoke_all (ks : list (cb * Z)) (i : inst) (w : world) : list call * world :=
  match ks with
  | [] => ([], w)
  | (k, a) :: r =>
      let '(c1, w1) := invoke k a i w in
      let '(c2, w2) := invoke_all r i w1 in
      (c1 ++ c2, w2)
  end.
(* loop body: `if snapshot && !mod.modifySnapshot { continue }` then the callbacks in source order *)
Definition visit (snapshot : bool) (ks : list (cb * Z)) (i : inst) (w : world) : list call * world :=
  if snapshot && negb (c_snap (i_cfg i)) then ([], w) else invoke_all ks i w.
(* `for _, mod := range <copy>` *)
Fixpoint walk (snapshot : bool) (ks : list (cb * Z)) (copy : list inst) (w : world) : list call * world :=
  match copy with
  | [] => ([], w)
  | i :: r =>
      let '(c1, w1) := visit snapshot ks i w in
      let '(c2, w2) := walk snapshot ks r w1 in
      (c1 ++ c2, w2)
  end.

(* one `for _, mod := range mgr.itr(unit) { ... }` *)
Record slot := mkSlot { s_unit : Z; s_snapshot : bool; s_cbs : list (cb * Z) }.
Definition run_slot (w : world) (s : slot) : list call * world :=
  walk (s_snapshot s) (s_cbs s) (attached w (s_unit s)) w.
Fixpoint run_slots (w : world) (ss : list slot) : list call * world :=
  match ss with
  | [] => ([], w)
  | s :: r =>
      let '(c1, w1) := run_slot w s in
      let '(c2, w2) := run_slots w1 r in
      (c1 ++ c2, w2)
  end.

(* model.AttackType.IsQualified: not DOT (4), PURSUED (5), ELEMENT_DAMAGE (9) *)
Definition is_qualified (t : Z) : bool := negb (t =? 4) && negb (t =? 5) && negb (t =? 9).

(* the events listener.go subscribes to, with the fields the dispatch could read, and Manager.Tick *)
Inductive event :=
  | EActionStart (owner : Z)
  | EActionEnd (owner : Z) (targets : list Z)
  | EHPChange (target : Z)
  | ELimbo (target : Z) (yes : list Z)      (* yes: tags of the instances whose OnLimboWaitHeal answers true *)
  | ETargetDeath (target killer : Z)
  | EEnergyChange (target source : Z)
  | EStanceChange (target source : Z)
  | EStanceBreak (target source : Z)
  | EStanceReset (target : Z)
  | EBreakExtend (target : Z)
  | EShieldAdded (target source : Z)
  | EShieldRemoved (target : Z)
  | EAttackStart (attacker : Z) (targets : list Z) (atype : Z)
  | EAttackEnd (attacker : Z) (targets : list Z) (atype : Z)
  | EHitStart (attacker defender : Z) (atype : Z) (snapshot : bool) (v0 : Z)
  | EHitEnd (attacker defender : Z) (atype : Z) (snapshot : bool)
  | EHealStart (healer target : Z) (snapshot : bool) (v0 : Z)
  | EHealEnd (healer target : Z) (snapshot : bool)
  | ETick (target : Z) (phase : Z).          (* Manager.Tick(target, phase); 3 = ModifierPhase1, 8 = ModifierPhase2 *)

Definition plain (u : Z) (k : cb) : slot := mkSlot u false [(k, 0)].

(* ---- listener.go, function by function ---- *)
Definition actionStart (owner : Z) : list slot := [plain owner OnBeforeAction].
Definition actionEnd (owner : Z) : list slot := [plain owner OnAfterAction].
Definition hpChange (target : Z) : list slot := [plain target OnHPChange].
Definition targetDeath (target killer : Z) : list slot :=
  [plain target OnBeforeDying; mkSlot killer false [(OnTriggerDeath, target)]].
Definition energyChange (target : Z) : list slot := [plain target OnEnergyChange].
Definition stanceChange (target : Z) : list slot := [plain target OnStanceChange].
Definition stanceBreak (target source : Z) : list slot :=
  [plain target OnBeforeBeingBreak; mkSlot source false [(OnTriggerBreak, target)]; plain target OnBeingBreak].
Definition stanceBreakEnd (target : Z) : list slot := [plain target OnEndBreak].
Definition breakExtend (target : Z) : list slot := [plain target OnBreakExtend].
Definition shieldAdded (target : Z) : list slot := [plain target OnShieldAdded].
Definition shieldRemoved (target : Z) : list slot := [plain target OnShieldRemoved].
Definition attackStart (attacker : Z) (targets : list Z) : list slot :=
  plain attacker OnBeforeAttack :: map (fun t => plain t OnBeforeBeingAttacked) targets.
Definition attackEnd (attacker : Z) (targets : list Z) : list slot :=
  plain attacker OnAfterAttack :: map (fun t => plain t OnAfterBeingAttacked) targets.
(* `f != nil && qualified` *)
Definition when (b : bool) (k : cb) : list (cb * Z) := if b then [(k, 0)] else [].
Definition hitStart (attacker defender atype : Z) (snapshot : bool) : list slot :=
  let q := is_qualified atype in
  [mkSlot attacker snapshot ((OnBeforeHitAll, 0) :: when q OnBeforeHit);
   mkSlot defender snapshot ((OnBeforeBeingHitAll, 0) :: when q OnBeforeBeingHit)].
Definition hitEnd (attacker defender atype : Z) (snapshot : bool) : list slot :=
  let q := is_qualified atype in
  [mkSlot attacker snapshot ((OnAfterHitAll, 0) :: when q OnAfterHit);
   mkSlot defender snapshot ((OnAfterBeingHitAll, 0) :: when q OnAfterBeingHit)].
Definition healStart (healer target : Z) (snapshot : bool) : list slot :=
  [mkSlot healer snapshot [(OnBeforeDealHeal, 0)]; mkSlot target snapshot [(OnBeforeBeingHeal, 0)]].
Definition healEnd (healer target : Z) (snapshot : bool) : list slot :=
  [mkSlot healer snapshot [(OnAfterDealHeal, 0)]; mkSlot target snapshot [(OnAfterBeingHeal, 0)]].
(* tick.go: the listener walk of ModifierPhase1 / ModifierPhase2 (the expiry pass that follows removes
   nothing here: the harness instances have no duration and no count) *)
Definition tick (target phase : Z) : list slot :=
  if phase =? 3 then [plain target OnPhase1]
  else if phase =? 8 then [plain target OnPhase2]
  else [].

Definition slots_of (e : event) : list slot :=
  match e with
  | EActionStart o => actionStart o
  | EActionEnd o _ => actionEnd o
  | EHPChange t => hpChange t
  | ELimbo _ _ => []                        (* limboWaitHeal returns early: [walk_limbo] *)
  | ETargetDeath t k => targetDeath t k
  | EEnergyChange t _ => energyChange t
  | EStanceChange t _ => stanceChange t
  | EStanceBreak t s => stanceBreak t s
  | EStanceReset t => stanceBreakEnd t
  | EBreakExtend t => breakExtend t
  | EShieldAdded t _ => shieldAdded t
  | EShieldRemoved t => shieldRemoved t
  | EAttackStart a ts _ => attackStart a ts
  | EAttackEnd a ts _ => attackEnd a ts
  | EHitStart a d ty sn _ => hitStart a d ty sn
  | EHitEnd a d ty sn => hitEnd a d ty sn
  | EHealStart h t sn _ => healStart h t sn
  | EHealEnd h t sn => healEnd h t sn
  | ETick t p => tick t p
  end.

(* limboWaitHeal: the first callback answering true ends the walk with verdict true *)
Fixpoint walk_limbo (yes : list Z) (copy : list inst) (w : world) : list call * world * bool :=
  match copy with
  | [] => ([], w, false)
  | i :: r =>
      if has i OnLimboWaitHeal then
        let '(c1, w1) := invoke OnLimboWaitHeal 0 i w in
        if existsb (Z.eqb (i_id i)) yes then (c1, w1, true)
        else let '(c2, w2, v) := walk_limbo yes r w1 in (c1 ++ c2, w2, v)
      else walk_limbo yes r w
  end.

(* the mutable events: HealStart is emitted by pointer, HitStart carries a *info.Hit.  The harness
   callbacks of these six kinds rewrite one number of the event (HealValue / Hit.DamageValue); the
   emitter reads it back after Emit returned *)
Definition mutating (k : cb) : bool :=
  match k with
  | OnBeforeDealHeal | OnBeforeBeingHeal
  | OnBeforeHitAll | OnBeforeHit | OnBeforeBeingHitAll | OnBeforeBeingHit => true
  | _ => false
  end.
Definition adj (v : Z) (c : call) : Z :=
  if mutating (c_cb c) then (2 * v + c_id c + 1) mod 1000003 else v.
Definition final_value (v0 : Z) (cs : list call) : Z := fold_left adj cs v0.
Definition value0 (e : event) : Z :=
  match e with
  | EHitStart _ _ _ _ v => v
  | EHealStart _ _ _ v => v
  | _ => 0
  end.

(* one emitted event: the calls in order, the verdict (LimboWaitHeal; false otherwise), the number
   read back from the event, the world afterwards *)
Definition run_event (w : world) (e : event) : list call * bool * Z * world :=
  match e with
  | ELimbo t yes =>
      let '(cs, w', v) := walk_limbo yes (attached w t) w in (cs, v, 0, w')
  | _ =>
      let '(cs, w') := run_slots w (slots_of e) in (cs, false, final_value (value0 e) cs, w')
  end.

Definition dispatch (w : world) (e : event) : list call := fst (fst (fst (run_event w e))).
Definition verdict (w : world) (e : event) : bool := snd (fst (fst (run_event w e))).
Definition value_after (w : world) (e : event) : Z := snd (fst (run_event w e)).
Definition world_after (w : world) (e : event) : world := snd (run_event w e).

(* what is observable of the world: per valid unit, (tag, config index) in attachment order *)
Definition lists (w : world) : list (list (Z * nat)) :=
  map (fun u => map (fun i => (i_id i, i_cfgidx i)) (attached w u)) (w_valid w).

Definition evobs := (list call * bool * Z * list (list (Z * nat)))%type.
Fixpoint run (w : world) (es : list event) : list evobs :=
  match es with
  | [] => []
  | e :: r =>
      let '(cs, v, x, w') := run_event w e in
      (cs, v, x, lists w') :: run w' r
  end.

(* the world of a case: catalog, valid units (first occurrence counts), then AddModifier calls *)
Fixpoint dedup (l : list Z) (seen : list Z) : list Z :=
  match l with
  | [] => []
  | x :: r => if existsb (Z.eqb x) seen then dedup r seen else x :: dedup r (x :: seen)
  end.
Fixpoint attach_all (w : world) (adds : list (Z * nat)) : world :=
  match adds with
  | [] => w
  | (u, c) :: r => attach_all (snd (do_attach w u c)) r
  end.
Definition mk_world (cat : list cfg) (valid : list Z) (adds : list (Z * nat)) : world :=
  attach_all (mkW cat (dedup valid []) [] 0) adds.
