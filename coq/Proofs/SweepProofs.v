(* C20 -- proofs: the catalog lookups reject exactly the configurations that name something
   outside a catalog; the run-loop model (Model/Sim.v) only ever ends in Termination, an error
   or (for too small a fuel) OutOfFuel, checks the exit condition after every turn, and stops
   when the battle clock has reached the cycle limit. *)
From Coq Require Import List ZArith Bool String Lia Floats.
From SR Require Import Base.CaseLib Base.GlobalTypes Base.NumOps Model.RunSpec Model.Catalog Model.Turn Model.Sim.
Import ListNotations.
Open Scope list_scope.

(* ------------------------------------------------------------------------------------------ *)
(* catalog lookups                                                                             *)
(* ------------------------------------------------------------------------------------------ *)

Lemma first_unknown_none c ks : first_unknown c ks = None <-> forallb (Catalog.lookup c) ks = true.
Proof.
  induction ks as [| k r IH]; cbn; [tauto |].
  destruct (Catalog.lookup c k); cbn; [exact IH | split; discriminate].
Qed.

Lemma first_unknown_some c ks k : first_unknown c ks = Some k -> In k ks /\ Catalog.lookup c k = false.
Proof.
  induction ks as [| x r IH]; cbn; [discriminate |].
  destruct (Catalog.lookup c x) eqn:E.
  - intro H. destruct (IH H) as [Hi Hl]. auto.
  - intro H. inversion H; subst. auto.
Qed.

Lemma add_character_none cs c : add_character cs c = None <-> char_names_known cs c = true.
Proof.
  unfold add_character, char_names_known.
  destruct (Catalog.lookup (cat_chars cs) (ch_key c)); cbn; [| split; discriminate].
  destruct (Catalog.lookup (cat_cones cs) (ch_cone c)); cbn; [| split; discriminate].
  destruct (first_unknown (cat_relics cs) (ch_relics c)) eqn:E.
  - split; [discriminate |]. intro H. apply first_unknown_none in H. congruence.
  - split; [| reflexivity]. intros _. now apply first_unknown_none.
Qed.

Lemma add_characters_none cs l : add_characters cs l = None <-> forallb (char_names_known cs) l = true.
Proof.
  induction l as [| c r IH]; cbn; [tauto |].
  destruct (add_character cs c) eqn:E.
  - split; [discriminate |]. intro H. apply andb_true_iff in H. destruct H as [H _].
    apply add_character_none in H. congruence.
  - apply add_character_none in E. rewrite E. cbn. exact IH.
Qed.

Lemma add_enemies_none cs l :
  add_enemies cs l = None <-> forallb (fun e => Catalog.lookup (cat_enemies cs) (en_key e)) l = true.
Proof.
  induction l as [| e r IH]; cbn; [tauto |].
  destruct (Catalog.lookup (cat_enemies cs) (en_key e)); cbn; [exact IH | split; discriminate].
Qed.

(* a configuration is accepted exactly when every name it mentions is in its catalog *)
Theorem accepted_iff_all_known :
  forall cs r, setup cs r = None <-> all_names_known cs r = true.
Proof.
  intros cs [chars enemies cyc scr seed]. unfold setup, all_names_known.
  destruct (add_characters cs chars) eqn:E.
  - split; [discriminate |]. intro H. apply andb_true_iff in H. destruct H as [H _].
    apply add_characters_none in H. congruence.
  - apply add_characters_none in E. rewrite E. cbn. apply add_enemies_none.
Qed.

(* ... and a configuration naming an unknown character / light cone / relic set / enemy is
   rejected with an error that names a key which really is outside the respective catalog *)
Definition names_outside (cs : catalogs) (e : reject) : Prop :=
  match e with
  | BadChar k => Catalog.lookup (cat_chars cs) k = false
  | BadCone k => Catalog.lookup (cat_cones cs) k = false
  | BadRelic k => Catalog.lookup (cat_relics cs) k = false
  | BadEnemy k => Catalog.lookup (cat_enemies cs) k = false
  end.

Lemma add_character_some cs c e : add_character cs c = Some e -> names_outside cs e.
Proof.
  unfold add_character.
  destruct (Catalog.lookup (cat_chars cs) (ch_key c)) eqn:E1; cbn.
  2: { intro H. inversion H; subst. exact E1. }
  destruct (Catalog.lookup (cat_cones cs) (ch_cone c)) eqn:E2; cbn.
  2: { intro H. inversion H; subst. exact E2. }
  destruct (first_unknown (cat_relics cs) (ch_relics c)) eqn:E3; [| discriminate].
  intro H. inversion H; subst. cbn. exact (proj2 (first_unknown_some _ _ _ E3)).
Qed.

Lemma add_characters_some cs l e : add_characters cs l = Some e -> names_outside cs e.
Proof.
  induction l as [| c r IH]; cbn; [discriminate |].
  destruct (add_character cs c) eqn:E.
  - intro H. inversion H; subst. now apply add_character_some with c.
  - exact IH.
Qed.

Lemma add_enemies_some cs l e : add_enemies cs l = Some e -> names_outside cs e.
Proof.
  induction l as [| x r IH]; cbn; [discriminate |].
  destruct (Catalog.lookup (cat_enemies cs) (en_key x)) eqn:E; [exact IH |].
  intro H. inversion H; subst. exact E.
Qed.

Theorem unknown_key_rejected :
  forall cs r, all_names_known cs r = false ->
    exists e, setup cs r = Some e /\ names_outside cs e.
Proof.
  intros cs r H. destruct (setup cs r) as [e |] eqn:E.
  - exists e. split; [reflexivity |].
    destruct r as [chars enemies cyc scr seed]. unfold setup in E.
    destruct (add_characters cs chars) eqn:Ec.
    + inversion E; subst. now apply add_characters_some with chars.
    + now apply add_enemies_some with enemies.
  - apply accepted_iff_all_known in E. congruence.
Qed.

(* ------------------------------------------------------------------------------------------ *)
(* the run loop model                                                                          *)
(* ------------------------------------------------------------------------------------------ *)

Section Loop.
  Variable cfg : config.

  (* "the last event is Termination" *)
  Definition ends_with_termination (s : sim) : Prop :=
    exists tr reason tot, trace s = (tr ++ [VTermination reason tot])%list.

  Definition good (o : outcome) : Prop :=
    match o with
    | Stop s => ends_with_termination s
    | _ => True
    end.

  Lemma exit_check_good s : good (exit_check cfg s).
  Proof.
    unfold exit_check.
    set (reason := match chars s with [] => 1%Z | _ => _ end).
    destruct (reason =? 0)%Z; cbn; [exact I |].
    exists (trace s), reason, (total_av s). reflexivity.
  Qed.

  Lemma ult_reqs_not_stop s reqs : match ult_reqs s reqs with Stop _ => False | OutOfFuel => False | _ => True end.
  Proof.
    revert s. induction reqs as [| r rest IH]; intro s; cbn; [exact I |].
    destruct (get_unit (units s) (ur_target r)); [| exact I].
    destruct (negb (uchar u)); [exact I |].
    destruct (can_ult u); apply IH.
  Qed.

  Lemma ult_check_not_stop s : match ult_check s with Stop _ => False | OutOfFuel => False | _ => True end.
  Proof.
    unfold ult_check. destruct (ults_q s) as [| x r]; apply ult_reqs_not_stop.
  Qed.

  Lemma ult_check_good s : good (ult_check s).
  Proof. pose proof (ult_check_not_stop s) as H. destruct (ult_check s); cbn; auto. contradiction. Qed.

  Lemma drain_good fuel : forall s, good (drain cfg fuel s).
  Proof.
    induction fuel as [| f IH]; intro s; cbn [drain]; [exact I |].
    destruct (pop s) as [[t s1] |]; [| exact I].
    destruct ((match chars s with [] => true | _ => false end) || (match enemies s with [] => true | _ => false end));
      [apply exit_check_good |].
    destruct (match state_of s1 (t_src t) with Some Dead => true | _ => false end); [apply IH |].
    destruct (negb (existsb (Z.eqb (t_src t)) (chars s1 ++ enemies s1))); [apply IH |].
    destruct (has_flag s1 (t_src t) (t_abort t)); [apply IH |].
    destruct (execute_task cfg f s1 t); try exact I.
    destruct (death_check cfg f s0 false); [| exact I].
    pose proof (exit_check_good s2) as He. destruct (exit_check cfg s2) eqn:Ee; try exact He; try exact I.
    pose proof (ult_check_good s3) as Hu. destruct (ult_check s3) eqn:Eu; try exact Hu; try exact I.
    apply IH.
  Qed.

  Lemma execute_queue_good fuel s b : good (execute_queue cfg fuel s b).
  Proof.
    unfold execute_queue.
    pose proof (ult_check_good s) as Hu. destruct (ult_check s) eqn:Eu; try exact Hu; try exact I.
    destruct (b && negb (is_char s0 (active_id s0))); [apply exit_check_good | apply drain_good].
  Qed.

  (* one turn: a Stop carries Termination; an Ok comes out of the exit check at the turn's end *)
  Lemma one_turn_good fuel s : good (one_turn cfg fuel s).
  Proof.
    unfold one_turn.
    destruct (Turn.step F (turn s) OStart) as [t' outs].
    destruct outs as [| o outs']; [exact I |].
    destruct o; try exact I. destruct outs'; [| exact I].
    destruct (match get_unit (units s) id with Some _ => false | None => true end); [exact I |].
    match goal with |- good (match run_slot cfg fuel ?x LPhase1 id id with _ => _ end) => destruct (run_slot cfg fuel x LPhase1 id id) as [s2 |] end;
      [| exact I].
    match goal with |- good (match death_check cfg fuel ?x false with _ => _ end) => destruct (death_check cfg fuel x false) as [s3 |] end;
      [| exact I].
    assert (Hafter : forall s0, good (
      let '(t2, outs2) := Turn.step F (turn s0) OReset in
      let s' := emit (set_turn s0 t2)
                  (flat_map (fun o => match o with
                                      | EReset i _ st0 => [VTurnReset i (map (fun x => (fst (fst x), snd (fst x))) st0)]
                                      | _ => [] end) outs2 ++ [VPhase2Start]) in
      match execute_queue cfg fuel s' false with
      | Ok s6 =>
          match run_slot cfg fuel s6 LPhase2 (active_id s6) (active_id s6) with
          | None => OutOfFuel
          | Some s6' =>
              let s7 := emit s6' [VPhase2End] in
              match death_check cfg fuel s7 true with
              | None => OutOfFuel
              | Some s8 => exit_check cfg (emit s8 [VTurnEnd (chars s8) (enemies s8)])
              end
          end
      | x => x
      end)).
    { intro s0. destruct (Turn.step F (turn s0) OReset) as [t2 outs2]. cbv zeta.
      match goal with |- good (match execute_queue cfg fuel ?x false with _ => _ end) =>
        pose proof (execute_queue_good fuel x false) as Hq; destruct (execute_queue cfg fuel x false) eqn:Eq end;
        try exact Hq; try exact I.
      match goal with |- good (match run_slot cfg fuel ?x LPhase2 ?a ?b with _ => _ end) => destruct (run_slot cfg fuel x LPhase2 a b) end;
        [| exact I].
      match goal with |- good (match death_check cfg fuel ?x true with _ => _ end) => destruct (death_check cfg fuel x true) end;
        [apply exit_check_good | exact I]. }
    destruct (has_flag s3 id [FLAG_DISABLE_ACTION]); [apply Hafter |].
    destruct (is_enemy s3 id && has_flag s3 id [FLAG_BREAK_EXTEND]); [apply Hafter |].
    pose proof (execute_queue_good fuel s3 true) as Hq.
    destruct (execute_queue cfg fuel s3 true) eqn:Eq; try exact Hq; try exact I.
    destruct (execute_action cfg fuel (emit s0 [VPhase1End]) id false); try exact I.
    match goal with |- good (match death_check cfg fuel ?x false with _ => _ end) => destruct (death_check cfg fuel x false) end;
      [apply Hafter | exact I].
  Qed.

  Lemma turns_good fuel : forall s, good (turns cfg fuel s) /\ (forall s', turns cfg fuel s <> Ok s').
  Proof.
    induction fuel as [| f IH]; intro s; cbn [turns]; [split; [exact I | discriminate] |].
    pose proof (one_turn_good f s) as H1.
    destruct (one_turn cfg f s) eqn:E.
    - apply IH.
    - split; [exact H1 | discriminate].
    - split; [exact I | discriminate].
    - split; [exact I | discriminate].
  Qed.

  Lemma start_good fuel : good (start cfg fuel) /\ (forall s', start cfg fuel <> Ok s').
  Proof.
    unfold start.
    destruct (Turn.step F (Turn.init F) _) as [t1 outs].
    match goal with |- context [run_slot cfg fuel ?x LBattle 0%Z 0%Z] => destruct (run_slot cfg fuel x LBattle 0%Z 0%Z) as [s1 |] end;
      [| split; [exact I | discriminate]].
    pose proof (execute_queue_good fuel (emit s1 [VBattleStart]) true) as Hq.
    destruct (execute_queue cfg fuel (emit s1 [VBattleStart]) true) eqn:Eq.
    - apply turns_good.
    - split; [exact Hq | discriminate].
    - split; [exact I | discriminate].
    - split; [exact I | discriminate].
  Qed.

  (* ---- the exit check and the cycle limit ---- *)
  Lemma exit_check_ok_inv s s' :
    exit_check cfg s = Ok s' ->
    s' = s /\ chars s <> [] /\ enemies s <> [] /\
    (ftoZ (PrimFloat.div (total_av s) 100) < c_cycle_limit cfg)%Z.
  Proof.
    unfold exit_check. destruct (chars s) eqn:Ec; [cbn; discriminate |].
    destruct (enemies s) eqn:Ee; [cbn; discriminate |].
    destruct (c_cycle_limit cfg <=? ftoZ (PrimFloat.div (total_av s) 100))%Z eqn:El; cbn; [discriminate |].
    intro H. inversion H; subst. repeat split; try discriminate. apply Z.leb_gt in El. exact El.
  Qed.

  Lemma exit_check_at_limit s :
    chars s <> [] -> enemies s <> [] ->
    (c_cycle_limit cfg <= ftoZ (PrimFloat.div (total_av s) 100))%Z ->
    exit_check cfg s = Stop (emit s [VTermination 3 (total_av s)]).
  Proof.
    intros Hc He Hl. unfold exit_check.
    destruct (chars s); [contradiction |]. destruct (enemies s); [contradiction |].
    apply Z.leb_le in Hl. rewrite Hl. reflexivity.
  Qed.

  Lemma exit_check_side_wiped s :
    chars s = [] \/ enemies s = [] -> exists s', exit_check cfg s = Stop s'.
  Proof.
    intros [H | H]; unfold exit_check; rewrite H.
    - eexists; reflexivity.
    - destruct (chars s); eexists; reflexivity.
  Qed.
End Loop.

(* a turn that lets the battle go on has passed the exit check at its end: both sides are
   standing and the clock is below the cycle limit *)
Lemma one_turn_ok_passed_exit_check cfg fuel s s' :
  one_turn cfg fuel s = Ok s' ->
  chars s' <> [] /\ enemies s' <> [] /\
  (ftoZ (PrimFloat.div (total_av s') 100) < c_cycle_limit cfg)%Z.
Proof.
  unfold one_turn.
  destruct (Turn.step F (turn s) OStart) as [t' outs].
  destruct outs as [| o outs']; [discriminate |].
  destruct o; try discriminate. destruct outs'; [| discriminate].
  destruct (match get_unit (units s) id with Some _ => false | None => true end); [discriminate |].
  match goal with |- match run_slot cfg fuel ?x LPhase1 id id with _ => _ end = _ -> _ => destruct (run_slot cfg fuel x LPhase1 id id) as [s2 |] end;
    [| discriminate].
  match goal with |- match death_check cfg fuel ?x false with _ => _ end = _ -> _ => destruct (death_check cfg fuel x false) as [s3 |] end;
    [| discriminate].
  assert (Hafter : forall s0,
    (let '(t2, outs2) := Turn.step F (turn s0) OReset in
      let s1 := emit (set_turn s0 t2)
                  (flat_map (fun o => match o with
                                      | EReset i _ st0 => [VTurnReset i (map (fun x => (fst (fst x), snd (fst x))) st0)]
                                      | _ => [] end) outs2 ++ [VPhase2Start]) in
      match execute_queue cfg fuel s1 false with
      | Ok s6 =>
          match run_slot cfg fuel s6 LPhase2 (active_id s6) (active_id s6) with
          | None => OutOfFuel
          | Some s6' =>
              let s7 := emit s6' [VPhase2End] in
              match death_check cfg fuel s7 true with
              | None => OutOfFuel
              | Some s8 => exit_check cfg (emit s8 [VTurnEnd (chars s8) (enemies s8)])
              end
          end
      | x => x
      end) = Ok s' ->
    chars s' <> [] /\ enemies s' <> [] /\ (ftoZ (PrimFloat.div (total_av s') 100) < c_cycle_limit cfg)%Z).
  { intro s0. destruct (Turn.step F (turn s0) OReset) as [t2 outs2]. cbv zeta.
    match goal with |- match execute_queue cfg fuel ?x false with _ => _ end = _ -> _ =>
      destruct (execute_queue cfg fuel x false) as [s6 | | |] eqn:Eq end; try discriminate.
    match goal with |- match run_slot cfg fuel ?x LPhase2 ?a ?b with _ => _ end = _ -> _ => destruct (run_slot cfg fuel x LPhase2 a b) as [s6' |] end;
      [| discriminate].
    match goal with |- match death_check cfg fuel ?x true with _ => _ end = _ -> _ => destruct (death_check cfg fuel x true) as [s8 |] end;
      [| discriminate].
    intro H. apply exit_check_ok_inv in H. destruct H as [-> [Hc [He Hl]]]. auto. }
  destruct (has_flag s3 id [FLAG_DISABLE_ACTION]); [apply Hafter |].
  destruct (is_enemy s3 id && has_flag s3 id [FLAG_BREAK_EXTEND]); [apply Hafter |].
  destruct (execute_queue cfg fuel s3 true) as [s4 | | |]; try discriminate.
  destruct (execute_action cfg fuel (emit s4 [VPhase1End]) id false); try discriminate.
  match goal with |- match death_check cfg fuel ?x false with _ => _ end = _ -> _ => destruct (death_check cfg fuel x false) end;
    [apply Hafter | discriminate].
Qed.

Definition C20_statement : Prop :=
  (* configurations: rejected with an error exactly when a name is outside its catalog *)
  (forall cs r, setup cs r = None <-> all_names_known cs r = true) /\
  (forall cs r, all_names_known cs r = false -> exists e, setup cs r = Some e /\ names_outside cs e) /\
  (* the run loop: whatever the content scripts, decisions and fuel, the run never just
     returns -- it ends with Termination as the last event, with an error, or out of fuel *)
  (forall cfg fuel, (forall s, start cfg fuel <> Ok s) /\
                    (forall s, start cfg fuel = Stop s -> ends_with_termination s)).

Theorem C20_holds : C20_statement.
Proof.
  split; [exact accepted_iff_all_known |]. split; [exact unknown_key_rejected |].
  intros cfg fuel. destruct (start_good cfg fuel) as [Hg Hn]. split; [exact Hn |].
  intros s Hs. rewrite Hs in Hg. exact Hg.
Qed.

(* Partial termination statement: the clock is checked against the cycle limit after every
   turn and the run stops at the first check at or above it.  What is NOT proved: a bound on the
   number of turns / events (a turn can advance the clock by zero, and content can advance units
   forever); that part of the property is explored by the sweep's event-count watchdog. *)
Definition C20_termination_partial_statement : Prop :=
  (forall cfg fuel s s', one_turn cfg fuel s = Ok s' ->
     chars s' <> [] /\ enemies s' <> [] /\ (ftoZ (PrimFloat.div (total_av s') 100) < c_cycle_limit cfg)%Z) /\
  (forall cfg s, chars s <> [] -> enemies s <> [] ->
     (c_cycle_limit cfg <= ftoZ (PrimFloat.div (total_av s) 100))%Z ->
     exit_check cfg s = Stop (emit s [VTermination 3 (total_av s)])) /\
  (forall cfg s, chars s = [] \/ enemies s = [] -> exists s', exit_check cfg s = Stop s').

Theorem C20_termination_partial : C20_termination_partial_statement.
Proof.
  split; [exact one_turn_ok_passed_exit_check |]. split; [exact exit_check_at_limit | exact exit_check_side_wiped].
Qed.

(* non-vacuity: a catalog with names in it, an accepted and a rejected configuration, and a
   small battle of the run-loop model that ends with Termination *)
Definition demo_cat : catalogs := mkCat ["danheng"%string] ["arrows"%string] ["musketeer"%string] ["dummy"%string].
Definition demo_ok : runspec :=
  RS [Ch "danheng" 80 80 0 [] 1 1 1 1 (LC "arrows" 80 80 1) [Rel "musketeer" 4] 0 100 ""]
     [En "dummy" 50 1000 18 100 "NONE" 1 100 "PHYSICAL" [] 0 0] 3 "" 1.
Definition demo_bad : runspec :=
  RS [Ch "danheng" 80 80 0 [] 1 1 1 1 (LC "nosuchcone" 80 80 1) [] 0 100 ""]
     [En "dummy" 50 1000 18 100 "NONE" 1 100 "PHYSICAL" [] 0 0] 3 "" 1.

Definition demo_cfg : config :=
  mkCfg [mkUD 0 true 100 1000 100 0 1 1 TEnemies TEnemies TEnemies [] [] [];
         mkUD 0 false 100 1000 100 0 0 0 TEnemies TEnemies TEnemies [] [] []]
        [] [] [] [] [] [] [] [] [] [] [] 2 10.

Lemma demo_nonvacuous :
  setup demo_cat demo_ok = None /\
  setup demo_cat demo_bad = Some (BadCone "nosuchcone") /\
  (exists s, start demo_cfg 50 = Stop s /\ (10 <=? List.length (trace s))%nat = true).
Proof.
  split; [reflexivity |]. split; [reflexivity |].
  destruct (start demo_cfg 50) as [s | s | s |] eqn:E; vm_compute in E; try discriminate.
  exists s. split; [reflexivity |]. inversion E; subst. vm_compute. reflexivity.
Qed.
