(* C14, soundness of the parser model: whatever parse.New(src).Parse() accepts is a sentence of
   the gcs grammar, and the tree it returns is the tree of that derivation.

   * the grammar is a family of inductive relations over lexed tokens (only [lt_typ] and
     [lt_val] of a token are looked at): [DE m e ts] "the tokens [ts] derive the expression [e]
     in a position that requires binding level > m" (redundant parentheses allowed), [DB] the
     bare forms, [DStmt] / [DNode] / [DNodes] / [DBlock] statements, [DP] programs;
   * soundness (section S): every one of the 25 parser functions, started in a state whose
     look-ahead is already in [ahead] and ends with an EOF / error token, returns [ROk] only
     after consuming exactly the tokens of a derivation of what it returns;
   * transfer to the lazy, producer-driven [parse_input] with the prefetch bridge
     (Proofs/GcsBridge.v) and a lexer lemma (an EOF token is only ever the last token sent):
     [C14_sound_holds], and with C13's totality [C14_reject_holds]: a source that is no
     sentence of the grammar is rejected with an error;
   * consequences: bracket balance, a deleted or stray bracket token is rejected, a program
     ends with ';' or '}', a statement starting with `let` has its identifier and '=';
   * non-vacuity: a derivation built from the constructors, and sources run through the model. *)
From Coq Require Import List ZArith Bool String Ascii Lia Floats.
From SR Require Import Base.CaseLib Model.GcsAst Model.GcsUnicode Model.GcsLex Model.GcsNum
  Model.GcsParse Model.GcsSpec Proofs.GcsLexProofs Proofs.GcsParseProofs Proofs.GcsRoundTrip
  Proofs.GcsBridge Proofs.GcsStmtRoundTrip.
Import ListNotations.
Open Scope Z_scope.

(* ================================================================== *)
(* 1. the grammar                                                      *)
(* ================================================================== *)

Definition ctrl_of (k : toktype) : option ctrltyp :=
  match k with
  | KeywordBreak => Some CtrlBreak
  | KeywordContinue => Some CtrlContinue
  | KeywordFallthrough => Some CtrlFallthrough
  | _ => None
  end.

(* an expression statement does not begin with `fn` (that is a declaration) *)
Definition first_not_fn (ts : list ltoken) : Prop :=
  match ts with t :: _ => lt_typ t <> KeywordFn | [] => True end.

Definition is_let_or_assign (s : stmt) : Prop :=
  match s with SLet _ _ | SAssign _ _ => True | _ => False end.
Definition is_assign (s : stmt) : Prop :=
  match s with SAssign _ _ => True | _ => False end.
Definition is_if_or_blk (s : stmt) : Prop :=
  match s with SIf _ _ _ | SBlock _ => True | _ => False end.

(* the entries of a map literal in source order: [Some key] = a field, [None] = an array element *)
Definition mentry := (option string * expr)%type.
Definition map_arr (es : list mentry) : list expr :=
  flat_map (fun ke => match fst ke with None => [snd ke] | Some _ => [] end) es.
(* [m[k] = v] in source order (the keys of a map literal are pairwise distinct, see [DB_map]) *)
Definition map_fields (es : list mentry) (f0 : list (string * expr)) : list (string * expr) :=
  fold_left (fun f ke => match fst ke with Some k => fields_set k (snd ke) f | None => f end) es f0.

(* the field names of the entries, in source order; a map literal names a field at most once *)
Definition field_keys (es : list mentry) : list string :=
  flat_map (fun ke => match fst ke with Some k => [k] | None => [] end) es.

(* the entries of a switch in source order: [Some cond] = case, [None] = default *)
Definition swentry := (option expr * block)%type.
Definition sw_cases (es : list swentry) : list casestmt :=
  flat_map (fun kb => match fst kb with Some c => [Case c (snd kb)] | None => [] end) es.
(* the body of the default entry (a switch has at most one, see [DS_switch0] / [DS_switch]) *)
Definition sw_default (es : list swentry) (d0 : block) : block :=
  fold_left (fun d kb => match fst kb with None => snd kb | Some _ => d end) es d0.

Definition default_count (es : list swentry) : nat :=
  List.length (filter (fun kb => match fst kb with None => true | Some _ => false end) es).
Definition at_most_one_default (es : list swentry) : Prop := (default_count es <= 1)%nat.

(* unfolding equations for the side conditions *)
Lemma field_keys_some : forall k e es, field_keys ((Some k, e) :: es) = k :: field_keys es.
Proof. reflexivity. Qed.
Lemma field_keys_none : forall e es, field_keys ((None, e) :: es) = field_keys es.
Proof. reflexivity. Qed.
Lemma default_count_case : forall c b es, default_count ((Some c, b) :: es) = default_count es.
Proof. reflexivity. Qed.
Lemma default_count_default : forall b es, default_count ((None, b) :: es) = S (default_count es).
Proof. reflexivity. Qed.

(* parameters after '(' up to and including ')': identifiers separated by ',' *)
Inductive DParams : list string -> list ltoken -> Prop :=
| DPs_nil : forall tr, lt_typ tr = ItemRightParen -> DParams [] [tr]
| DPs_last : forall ti tr, lt_typ ti = ItemIdentifier -> lt_typ tr = ItemRightParen ->
    DParams [lt_val ti] [ti; tr]
| DPs_more : forall ti tc tj ps ts, lt_typ ti = ItemIdentifier -> lt_typ tc = ItemComma ->
    lt_typ tj = ItemIdentifier -> DParams ps (tj :: ts) ->
    DParams (lt_val ti :: ps) (ti :: tc :: tj :: ts).

Inductive DE : Z -> expr -> list ltoken -> Prop :=
| DE_bare : forall m e ts, m < level e -> DB e ts -> DE m e ts
| DE_paren : forall m e tl tr ts, lt_typ tl = ItemLeftParen -> lt_typ tr = ItemRightParen ->
    DE 1 e ts -> DE m e (tl :: ts ++ [tr])
with DB : expr -> list ltoken -> Prop :=
| DB_num : forall t e, lt_typ t = ItemNumber -> number_lit (lt_val t) = Some e -> DB e [t]
| DB_bool : forall t e, lt_typ t = ItemBool -> bool_lit (lt_val t) = Some e -> DB e [t]
| DB_str : forall t, lt_typ t = ItemString -> DB (EStr (lt_val t)) [t]
| DB_null : forall t, lt_typ t = ItemNull -> DB ENull [t]
| DB_ident : forall t, lt_typ t = ItemIdentifier -> DB (EIdent (lt_val t)) [t]
| DB_unary : forall t r ts, lt_typ t = LogicNot \/ lt_typ t = ItemMinus ->
    DE 7 r ts -> DB (EUnary (tk t) r) (t :: ts)
| DB_binary : forall t l r tl tr, infix_of (lt_typ t) = Some IfBinary ->
    DE (tok_prec (lt_typ t) - 1) l tl -> DE (tok_prec (lt_typ t)) r tr ->
    DB (EBinary l r (tk t)) (tl ++ t :: tr)
| DB_call : forall f tf tp args ta, lt_typ tp = ItemLeftParen ->
    DE 8 f tf -> DArgs args ta -> DB (ECall f args) (tf ++ tp :: ta)
| DB_map0 : forall tl tr, lt_typ tl = ItemLeftSquareParen -> lt_typ tr = ItemRightSquareParen ->
    DB (EMap [] []) [tl; tr]
| DB_map : forall tl es ts, lt_typ tl = ItemLeftSquareParen -> DEntries es ts ->
    NoDup (field_keys es) ->
    DB (EMap (map_arr es) (map_fields es [])) (tl :: ts)
| DB_fn : forall tf tp params tps body tb, lt_typ tf = KeywordFn -> lt_typ tp = ItemLeftParen ->
    DParams params tps -> has_dup params = false -> DBlock body tb ->
    DB (EFuncLit params body) (tf :: tp :: tps ++ tb)
(* call arguments after '(' up to and including ')' *)
with DArgs : list expr -> list ltoken -> Prop :=
| DA_nil : forall tr, lt_typ tr = ItemRightParen -> DArgs [] [tr]
| DA_cons : forall e te es ts, DE 1 e te -> DArgsT es ts -> DArgs (e :: es) (te ++ ts)
(* ... after an argument *)
with DArgsT : list expr -> list ltoken -> Prop :=
| DAT_end : forall tr, lt_typ tr = ItemRightParen -> DArgsT [] [tr]
| DAT_more : forall tc e te es ts, lt_typ tc = ItemComma -> DE 1 e te -> DArgsT es ts ->
    DArgsT (e :: es) (tc :: te ++ ts)
(* one entry of a map literal *)
with DEntry : option string -> expr -> list ltoken -> Prop :=
| DEn_field : forall tid teq v tv, lt_typ tid = ItemIdentifier -> lt_typ teq = ItemAssign ->
    DE 1 v tv -> DEntry (Some (lt_val tid)) v (tid :: teq :: tv)
| DEn_elem : forall e te, DE 1 e te -> DEntry None e te
(* the entries of a non-empty map literal after '[' up to and including ']' *)
with DEntries : list mentry -> list ltoken -> Prop :=
| DEs_last : forall k e te tr, DEntry k e te -> lt_typ tr = ItemRightSquareParen ->
    DEntries [(k, e)] (te ++ [tr])
| DEs_more : forall k e te tc es ts, DEntry k e te -> lt_typ tc = ItemComma -> DEntries es ts ->
    DEntries ((k, e) :: es) (te ++ tc :: ts)
with DBlock : block -> list ltoken -> Prop :=
| DBl : forall tl nodes ts tr, lt_typ tl = ItemLeftBrace -> DNodes nodes ts ->
    lt_typ tr = ItemRightBrace -> DBlock (Block nodes) (tl :: ts ++ [tr])
with DNodes : list node -> list ltoken -> Prop :=
| DN_nil : DNodes [] []
| DN_cons : forall x tx xs ts, DNode x tx -> DNodes xs ts -> DNodes (x :: xs) (tx ++ ts)
with DNode : node -> list ltoken -> Prop :=
| DNode_expr : forall e ts tsemi, DE 1 e ts -> first_not_fn ts ->
    lt_typ tsemi = ItemTerminateLine -> DNode (NExpr e) (ts ++ [tsemi])
| DNode_semi : forall s ts tsemi, DStmt s ts -> is_stmt_semi s = true ->
    lt_typ tsemi = ItemTerminateLine -> DNode (NStmt s) (ts ++ [tsemi])
| DNode_plain : forall s ts, DStmt s ts -> is_stmt_semi s = false -> DNode (NStmt s) ts
with DStmt : stmt -> list ltoken -> Prop :=
| DS_let : forall tlet tid teq e te, lt_typ tlet = KeywordLet -> lt_typ tid = ItemIdentifier ->
    lt_typ teq = ItemAssign -> DE 1 e te -> DStmt (SLet (tk tid) e) (tlet :: tid :: teq :: te)
| DS_assign : forall tid teq e te, lt_typ tid = ItemIdentifier -> lt_typ teq = ItemAssign ->
    DE 1 e te -> DStmt (SAssign (tk tid) e) (tid :: teq :: te)
| DS_return : forall tr e te, lt_typ tr = KeywordReturn -> DE 1 e te -> DStmt (SReturn e) (tr :: te)
| DS_ctrl : forall t c, ctrl_of (lt_typ t) = Some c -> DStmt (SCtrl c) [t]
| DS_block : forall b tb, DBlock b tb -> DStmt (SBlock b) tb
| DS_if : forall tif c tc b tb, lt_typ tif = KeywordIf -> DE 1 c tc -> DBlock b tb ->
    DStmt (SIf c b SNil) (tif :: tc ++ tb)
| DS_ifelse : forall tif c tc b tb telse els tels, lt_typ tif = KeywordIf -> DE 1 c tc ->
    DBlock b tb -> lt_typ telse = KeywordElse -> is_if_or_blk els -> DStmt els tels ->
    DStmt (SIf c b els) (tif :: tc ++ tb ++ telse :: tels)
| DS_while : forall tw c tc b tb, lt_typ tw = KeywordWhile -> DE 1 c tc -> DBlock b tb ->
    DStmt (SWhile c b) (tw :: tc ++ tb)
| DS_for_bare : forall tf b tb, lt_typ tf = KeywordFor -> DBlock b tb ->
    DStmt (SFor SNil ENil SNil b) (tf :: tb)
| DS_for : forall tf init ti cond tc post tp b tb, lt_typ tf = KeywordFor ->
    DForInit init ti -> DE 1 cond tc -> DForPost post tp -> DBlock b tb ->
    DStmt (SFor init cond post b) (tf :: ti ++ tc ++ tp ++ tb)
| DS_switch0 : forall tsw tl es ts, lt_typ tsw = KeywordSwitch -> lt_typ tl = ItemLeftBrace ->
    DCases es ts -> at_most_one_default es ->
    DStmt (SSwitch ENil (sw_cases es) (sw_default es BNil)) (tsw :: tl :: ts)
| DS_switch : forall tsw c tc tl es ts, lt_typ tsw = KeywordSwitch -> DE 1 c tc ->
    lt_typ tl = ItemLeftBrace -> DCases es ts -> at_most_one_default es ->
    DStmt (SSwitch c (sw_cases es) (sw_default es BNil)) (tsw :: tc ++ tl :: ts)
| DS_fn : forall tf tid tp params tps body tb, lt_typ tf = KeywordFn ->
    lt_typ tid = ItemIdentifier -> lt_typ tp = ItemLeftParen -> DParams params tps ->
    has_dup params = false -> DBlock body tb ->
    DStmt (SFn (tk tid) params body) (tf :: tid :: tp :: tps ++ tb)
(* the optional `init ;` of a for *)
with DForInit : stmt -> list ltoken -> Prop :=
| DFI_none : DForInit SNil []
| DFI_some : forall s ts tsemi, DStmt s ts -> is_let_or_assign s ->
    lt_typ tsemi = ItemTerminateLine -> DForInit s (ts ++ [tsemi])
(* the optional `; post` of a for; the parser also accepts a lone ';' before the body *)
with DForPost : stmt -> list ltoken -> Prop :=
| DFP_none : DForPost SNil []
| DFP_semi : forall tsemi, lt_typ tsemi = ItemTerminateLine -> DForPost SNil [tsemi]
| DFP_some : forall tsemi s ts, lt_typ tsemi = ItemTerminateLine -> DStmt s ts -> is_assign s ->
    DForPost s (tsemi :: ts)
(* the entries of a switch after '{' up to and including '}' *)
with DCases : list swentry -> list ltoken -> Prop :=
| DC_end : forall tr, lt_typ tr = ItemRightBrace -> DCases [] [tr]
| DC_case : forall tcase c tc tcol nodes tn es ts, lt_typ tcase = KeywordCase -> DE 1 c tc ->
    lt_typ tcol = ItemColon -> DNodes nodes tn -> DCases es ts ->
    DCases ((Some c, Block nodes) :: es) (tcase :: tc ++ tcol :: tn ++ ts)
| DC_default : forall tdef tcol nodes tn es ts, lt_typ tdef = KeywordDefault ->
    lt_typ tcol = ItemColon -> DNodes nodes tn -> DCases es ts ->
    DCases ((None, Block nodes) :: es) (tdef :: tcol :: tn ++ ts).

(* a program: a list of statements *)
Definition DP (nodes : list node) (ts : list ltoken) : Prop := DNodes nodes ts.

(* ---- simple facts about the grammar ---- *)
Lemma DE_mono : forall m m' e ts, m' <= m -> DE m e ts -> DE m' e ts.
Proof.
  intros m m' e ts Hle H. destruct H as [m e ts Hl Hb|m e tl tr ts Hl Hr He].
  - apply DE_bare; [lia|exact Hb].
  - apply DE_paren; assumption.
Qed.

Lemma DNodes_app : forall xs tx ys ty, DNodes xs tx -> DNodes ys ty -> DNodes (xs ++ ys) (tx ++ ty).
Proof.
  intros xs tx ys ty H. revert ys ty. induction H as [|x tx xs ts Hx Hxs IH]; intros ys ty Hy.
  - exact Hy.
  - cbn [app]. rewrite <- app_assoc. apply DN_cons; [exact Hx|apply IH; exact Hy].
Qed.
Lemma DNodes_snoc : forall xs tx y ty, DNodes xs tx -> DNode y ty -> DNodes (xs ++ [y]) (tx ++ ty).
Proof.
  intros xs tx y ty Hx Hy. apply DNodes_app; [exact Hx|].
  rewrite <- (app_nil_r ty). apply DN_cons; [exact Hy|apply DN_nil].
Qed.

Lemma number_lit_level : forall v e, number_lit v = Some e -> level e = 10.
Proof.
  intros v e H. unfold number_lit in H. destruct (parse_int v); [inversion H; reflexivity|].
  destruct (parse_float v); inversion H; reflexivity.
Qed.
Lemma bool_lit_level : forall v e, bool_lit v = Some e -> level e = 10.
Proof.
  intros v e H. unfold bool_lit in H. destruct (string_eqb v "true"); [inversion H; reflexivity|].
  destruct (string_eqb v "false"); inversion H; reflexivity.
Qed.

(* a compound statement inside a node carries no ';' *)
Lemma DNode_plain_inv : forall s ts, DNode (NStmt s) ts -> is_stmt_semi s = false -> DStmt s ts.
Proof.
  intros s ts H Hs. inversion H as [| s' ts' tsemi Hd Hsemi Ht | s' ts' Hd Hsemi]; subst.
  - rewrite Hs in Hsemi. discriminate.
  - exact Hd.
Qed.

(* ================================================================== *)
(* 2. soundness of the parser functions (prefetched look-ahead)        *)
(* ================================================================== *)

(* the look-ahead ends with an EOF or error token *)
Definition terminal (t : ltoken) : Prop := lt_typ t = ItemEOF \/ lt_typ t = ItemError.
Definition endsT (a : list ltoken) : Prop := exists b te, a = b ++ [te] /\ terminal te.

Lemma endsT_nil : endsT [] -> False.
Proof. intros (b & te & E & _). destruct b; discriminate. Qed.
Lemma endsT_tl : forall t a, endsT (t :: a) -> ~ terminal t -> endsT a.
Proof.
  intros t a (b & te & E & Ht) Hn. destruct b as [|t' b]; cbn [app] in E.
  - inversion E; subst. contradiction.
  - inversion E; subst. exists b, te. split; [reflexivity|exact Ht].
Qed.
Lemma endsT_cons : forall t a, endsT a -> endsT (t :: a).
Proof. intros t a (b & te & E & Ht). exists (t :: b), te. subst a. split; [reflexivity|exact Ht]. Qed.
Lemma endsT_app : forall ts a, endsT a -> endsT (ts ++ a).
Proof. induction ts as [|t ts IH]; intros a H; [exact H|]. cbn [app]. apply endsT_cons. apply IH. exact H. Qed.

(* the first token binds at most at level [L] *)
Definition precle (L : Z) (a : list ltoken) : Prop :=
  match a with t :: _ => tok_prec (lt_typ t) <= L | [] => True end.

Lemma precle_top : forall L a, 9 <= L -> precle L a.
Proof. intros L [|t a] H; [exact I|]. cbn [precle]. pose proof (tok_prec_range (lt_typ t)). lia. Qed.
Lemma precle_typ : forall L t a k, lt_typ t = k -> tok_prec k <= L -> precle L (t :: a).
Proof. intros L t a k H1 H2. cbn [precle]. rewrite H1. exact H2. Qed.

Lemma typ_is_eq : forall t k, typ_is t k = true -> lt_typ t = k.
Proof. intros t k H. unfold typ_is in H. apply toktype_eqb_eq in H. exact H. Qed.

Lemma prefix_nonterm : forall t pf, prefix_of (lt_typ t) = Some pf -> ~ terminal t.
Proof. intros t pf H [E|E]; rewrite E in H; discriminate. Qed.
Lemma infix_nonterm : forall t f, infix_of (lt_typ t) = Some f -> ~ terminal t.
Proof. intros t f H [E|E]; rewrite E in H; discriminate. Qed.
Lemma infix_binary_prec : forall k, infix_of k = Some IfBinary -> 2 <= tok_prec k <= 7.
Proof. destruct k; cbn; intros H; try discriminate; uprec; lia. Qed.
Lemma infix_none_prec : forall k, infix_of k = None -> tok_prec k = 1.
Proof. destruct k; cbn; intros H; try discriminate; reflexivity. Qed.
Lemma infix_call_typ : forall k, infix_of k = Some IfCall -> k = ItemLeftParen.
Proof. destruct k; cbn; intros H; try discriminate; reflexivity. Qed.

Ltac nt := solve [ eapply prefix_nonterm; eassumption | eapply infix_nonterm; eassumption
                 | let E := fresh in intros [E|E]; congruence ].
Ltac lnorm := repeat (progress cbn [app rev] || rewrite rev_app_distr || rewrite <- app_assoc || rewrite app_nil_r);
              try reflexivity.

(* the function consumed exactly [ts] of the look-ahead [a] and left [rest] *)
Definition Adv (p : producer) (a c ts rest : list ltoken) (ps' : pstate) : Prop :=
  a = ts ++ rest /\ ps' = mkP p rest (rev ts ++ c) /\ endsT rest.

Lemma Adv_cons : forall p t a c ts rest ps',
  Adv p a (t :: c) ts rest ps' -> Adv p (t :: a) c (t :: ts) rest ps'.
Proof.
  intros p t a c ts rest ps' (E1 & E2 & E3). split; [|split].
  - rewrite E1. reflexivity.
  - rewrite E2. f_equal. lnorm.
  - exact E3.
Qed.
Lemma Adv_trans : forall p a c ts1 rest1 s1 ts2 rest2 ps',
  Adv p a c ts1 rest1 s1 -> Adv p rest1 (rev ts1 ++ c) ts2 rest2 ps' ->
  Adv p a c (ts1 ++ ts2) rest2 ps'.
Proof.
  intros p a c ts1 rest1 s1 ts2 rest2 ps' (E1 & _ & _) (F1 & F2 & F3). split; [|split].
  - rewrite E1, F1. lnorm.
  - rewrite F2. f_equal. lnorm.
  - exact F3.
Qed.
Lemma Adv_nil : forall p a c, endsT a -> Adv p a c [] a (mkP p a c).
Proof. intros p a c H. split; [reflexivity|split; [reflexivity|exact H]]. Qed.
Lemma Adv_state : forall p a c ts rest ps', Adv p a c ts rest ps' -> ps' = mkP p rest (rev ts ++ c).
Proof. intros p a c ts rest ps' (_ & E & _). exact E. Qed.
Lemma Adv_ends : forall p a c ts rest ps', Adv p a c ts rest ps' -> endsT rest.
Proof. intros p a c ts rest ps' (_ & _ & E). exact E. Qed.

Section S.
Variable inp : input.

Lemma p_prefix_map_eq : forall n ps, p_prefix inp (S n) PfMap ps =
  pb (_, s) <- pnext inp ps;
  pb (t, s) <- ppeek inp s;
  if typ_is t ItemRightSquareParen then pb (_, s) <- pnext inp s; ROk (EMap [] []) s
  else p_map_loop inp n [] [] s.
Proof. reflexivity. Qed.
Lemma p_prefix_fnlit_eq : forall n ps, p_prefix inp (S n) PfFnLit ps =
  pb (_, s) <- ppeek inp ps;
  pb (f, s) <- p_fn inp n false s;
  match f with
  | SFn _ args body => ROk (EFuncLit args body) s
  | _ => RErr s
  end.
Proof. reflexivity. Qed.
Lemma p_map_loop_eq : forall n arr fields ps, p_map_loop inp (S n) arr fields ps =
  pb (ele, s) <- pnext inp ps;
  pb (nx, s) <- pnext inp s;
  pb (af, s) <-
    (if typ_is ele ItemIdentifier && typ_is nx ItemAssign then
       pb (e, s) <- p_expr inp n Lowest s;
       if has_key (lt_val ele) fields then RErr s
       else ROk (arr, fields_set (lt_val ele) e fields) s
     else
       pb (e, s) <- p_expr inp n Lowest (pbackup (pbackup s)); ROk (arr ++ [e], fields) s);
  let (arr2, fields2) := af in
  pb (t, s) <- pnext inp s;
  if typ_is t ItemRightSquareParen then ROk (EMap arr2 fields2) s
  else if typ_is t ItemComma then p_map_loop inp n arr2 fields2 s
  else RErr s.
Proof. reflexivity. Qed.

(* what a function that takes over after the token [t] was identified returns *)
Definition fn_tail (ident : bool) (s : stmt) (ts : list ltoken) : Prop :=
  exists fv params body thead tp tps tb,
    s = SFn fv params body /\ ts = thead ++ tp :: tps ++ tb /\ lt_typ tp = ItemLeftParen /\
    DParams params tps /\ has_dup params = false /\ DBlock body tb /\
    (if ident then exists tid, thead = [tid] /\ lt_typ tid = ItemIdentifier /\ fv = tk tid
     else thead = []).

Definition Z_expr n := forall pre p a c e ps', 1 <= pre -> endsT a ->
  p_expr inp n pre (mkP p a c) = ROk e ps' ->
  exists ts rest, Adv p a c ts rest ps' /\ DE (Z.min pre 7) e ts /\ precle pre rest.
Definition Z_infix n := forall pre left p a c e ps' L tl, 1 <= pre -> endsT a ->
  Z.min pre 7 <= L - 1 -> DE (L - 1) left tl -> precle L a ->
  p_infix_loop inp n pre left (mkP p a c) = ROk e ps' ->
  exists ts rest, Adv p a c ts rest ps' /\ DE (Z.min pre 7) e (tl ++ ts) /\ precle pre rest.
Definition Z_prefix n := forall pf p t a c e ps', prefix_of (lt_typ t) = Some pf -> endsT (t :: a) ->
  p_prefix inp n pf (mkP p (t :: a) c) = ROk e ps' ->
  exists ts rest L, Adv p (t :: a) c ts rest ps' /\ 8 <= L /\ DE (L - 1) e ts /\ precle L rest.
Definition Z_map n := forall arr fields p a c e ps', endsT a ->
  p_map_loop inp n arr fields (mkP p a c) = ROk e ps' ->
  exists es ts rest, Adv p a c ts rest ps' /\ DEntries es ts /\
    e = EMap (arr ++ map_arr es) (map_fields es fields) /\
    NoDup (field_keys es) /\ (forall k, In k (field_keys es) -> has_key k fields = false).
Definition Z_binary n := forall left p t a c e ps', infix_of (lt_typ t) = Some IfBinary -> endsT (t :: a) ->
  p_binary inp n left (mkP p (t :: a) c) = ROk e ps' ->
  exists r tr rest, Adv p a (t :: c) tr rest ps' /\ e = EBinary left r (tk t) /\
    DE (tok_prec (lt_typ t)) r tr /\ precle (tok_prec (lt_typ t)) rest.
Definition Z_call n := forall f p a c e ps', endsT a ->
  p_call inp n f (mkP p a c) = ROk e ps' ->
  exists args tp ts rest, Adv p a c (tp :: ts) rest ps' /\ e = ECall f args /\
    lt_typ tp = ItemLeftParen /\ DArgs args ts.
Definition Z_call_args n := forall p a c args ps', endsT a ->
  p_call_args inp n (mkP p a c) = ROk args ps' ->
  exists ts rest, Adv p a c ts rest ps' /\ DArgs args ts.
Definition Z_call_args_loop n := forall acc p a c args ps', endsT a ->
  p_call_args_loop inp n acc (mkP p a c) = ROk args ps' ->
  exists r ts rest, Adv p a c ts rest ps' /\ args = acc ++ r /\ DArgsT r ts.
Definition Z_fn n := forall ident p t a c s ps', lt_typ t = KeywordFn -> endsT (t :: a) ->
  p_fn inp n ident (mkP p (t :: a) c) = ROk s ps' ->
  exists ts rest, Adv p a (t :: c) ts rest ps' /\ fn_tail ident s ts.
Definition Z_fn_args n := forall acc p a c args ps', endsT a ->
  p_fn_args inp n acc (mkP p a c) = ROk args ps' ->
  exists r ts rest, Adv p a c ts rest ps' /\ args = acc ++ r /\ DParams r ts.
Definition Z_block n := forall p a c b ps', endsT a ->
  p_block inp n (mkP p a c) = ROk b ps' ->
  exists ts rest, Adv p a c ts rest ps' /\ DBlock b ts.
Definition Z_block_loop n := forall acc p a c b ps', endsT a ->
  p_block_loop inp n acc (mkP p a c) = ROk b ps' ->
  exists nodes ts tr rest, Adv p a c (ts ++ [tr]) rest ps' /\ b = Block (acc ++ nodes) /\
    DNodes nodes ts /\ lt_typ tr = ItemRightBrace.
Definition Z_statement n := forall p a c x ps', endsT a ->
  p_statement inp n (mkP p a c) = ROk x ps' ->
  exists ts rest, Adv p a c ts rest ps' /\ DNode x ts.
Definition Z_let n := forall p t a c s ps', lt_typ t = KeywordLet -> endsT (t :: a) ->
  p_let inp n (mkP p (t :: a) c) = ROk s ps' ->
  exists ts rest, Adv p a (t :: c) ts rest ps' /\ DStmt s (t :: ts) /\ is_let_or_assign s /\ is_stmt_semi s = true.
Definition Z_assign n := forall p a c s ps', endsT a ->
  p_assign inp n (mkP p a c) = ROk s ps' ->
  exists ts rest, Adv p a c ts rest ps' /\ DStmt s ts /\ is_assign s /\ is_stmt_semi s = true.
Definition Z_return n := forall p t a c s ps', lt_typ t = KeywordReturn -> endsT (t :: a) ->
  p_return inp n (mkP p (t :: a) c) = ROk s ps' ->
  exists ts rest, Adv p a (t :: c) ts rest ps' /\ DStmt s (t :: ts) /\ is_stmt_semi s = true.
Definition Z_ctrl n := forall p a c s ps', endsT a ->
  p_ctrl inp n (mkP p a c) = ROk s ps' ->
  exists ts rest, Adv p a c ts rest ps' /\ DStmt s ts /\ is_stmt_semi s = true.
Definition Z_if n := forall p t a c s ps', lt_typ t = KeywordIf -> endsT (t :: a) ->
  p_if inp n (mkP p (t :: a) c) = ROk s ps' ->
  exists ts rest, Adv p a (t :: c) ts rest ps' /\ DStmt s (t :: ts) /\ is_if_or_blk s.
Definition Z_switch n := forall p a c s ps', endsT a ->
  p_switch inp n (mkP p a c) = ROk s ps' ->
  exists ts rest, Adv p a c ts rest ps' /\ DStmt s ts /\ is_stmt_semi s = false.
Definition Z_switch_loop n := forall cnd cases def p a c s ps', endsT a ->
  p_switch_loop inp n cnd cases def (mkP p a c) = ROk s ps' ->
  exists es ts rest, Adv p a c ts rest ps' /\ DCases es ts /\
    s = SSwitch cnd (cases ++ sw_cases es) (sw_default es def) /\
    match def with BNil => at_most_one_default es | Block _ => default_count es = 0%nat end.
Definition Z_case_body n := forall p t a c b ps', lt_typ t = ItemColon -> endsT (t :: a) ->
  p_case_body inp n (mkP p (t :: a) c) = ROk b ps' ->
  exists nodes ts rest, Adv p a (t :: c) ts rest ps' /\ b = Block nodes /\ DNodes nodes ts.
Definition Z_case_body_loop n := forall acc p a c b ps', endsT a ->
  p_case_body_loop inp n acc (mkP p a c) = ROk b ps' ->
  exists nodes ts rest, Adv p a c ts rest ps' /\ b = Block (acc ++ nodes) /\ DNodes nodes ts.
Definition Z_while n := forall p t a c s ps', lt_typ t = KeywordWhile -> endsT (t :: a) ->
  p_while inp n (mkP p (t :: a) c) = ROk s ps' ->
  exists ts rest, Adv p a (t :: c) ts rest ps' /\ DStmt s (t :: ts) /\ is_stmt_semi s = false.
Definition Z_for n := forall p t a c s ps', lt_typ t = KeywordFor -> endsT (t :: a) ->
  p_for inp n (mkP p (t :: a) c) = ROk s ps' ->
  exists ts rest, Adv p a (t :: c) ts rest ps' /\ DStmt s (t :: ts) /\ is_stmt_semi s = false.
Definition Z_rows n := forall acc p a c b ps', endsT a ->
  p_rows inp n acc (mkP p a c) = ROk b ps' ->
  exists nodes ts rest, Adv p a c ts rest ps' /\ b = Block (acc ++ nodes) /\ DNodes nodes ts /\
    exists te r, rest = te :: r /\ lt_typ te = ItemEOF.

(* ---- the expression functions ---- *)
Lemma zs_expr : forall n, Z_prefix n -> Z_infix n -> Z_expr (S n).
Proof.
  intros n IHp IHi pre p a c e ps' Hpre Hends H.
  rewrite p_expr_eq in H.
  destruct a as [|t a]; [destruct (endsT_nil Hends)|].
  rewrite nx in H. cbn [bindP] in H.
  destruct (prefix_of (lt_typ t)) as [pf|] eqn:Epf; [|discriminate H].
  cbn [pbackup consumed prod ahead] in H.
  destruct (p_prefix inp n pf (mkP p (t :: a) c)) as [lhs s1|s1| |] eqn:E1; cbn [bindP] in H; try discriminate H.
  destruct (IHp pf p t a c lhs s1 Epf Hends E1) as (ts1 & rest1 & L & A1 & HL & HD & Hp).
  pose proof (Adv_state _ _ _ _ _ _ A1) as Es. subst s1.
  destruct (IHi pre lhs p rest1 (rev ts1 ++ c) e ps' L ts1 Hpre (Adv_ends _ _ _ _ _ _ A1) ltac:(lia) HD Hp H)
    as (ts2 & rest2 & A2 & HD2 & Hp2).
  exists (ts1 ++ ts2), rest2. split; [|split; assumption].
  eapply Adv_trans; eassumption.
Qed.

Lemma zs_binary : forall n, Z_expr n -> Z_binary (S n).
Proof.
  intros n IHe left p t a c e ps' Hin Hends H.
  rewrite p_binary_eq, nx in H. cbn [bindP] in H.
  pose proof (infix_binary_prec _ Hin) as Hpr.
  assert (Hends' : endsT a) by (apply (endsT_tl t a Hends); nt).
  destruct (p_expr inp n (tok_prec (lt_typ t)) (mkP p a (t :: c))) as [r s1|s1| |] eqn:E1; cbn [bindP] in H; try discriminate H.
  inversion H; subst e ps'. clear H.
  destruct (IHe (tok_prec (lt_typ t)) p a (t :: c) r s1 ltac:(lia) Hends' E1) as (ts1 & rest1 & A1 & HD & Hp).
  replace (Z.min (tok_prec (lt_typ t)) 7) with (tok_prec (lt_typ t)) in HD by lia.
  exists r, ts1, rest1. repeat split; try assumption; apply A1.
Qed.

Lemma zs_infix : forall n, Z_binary n -> Z_call n -> Z_infix n -> Z_infix (S n).
Proof.
  intros n IHb IHc IHi pre left p a c e ps' L tl Hpre Hends HL HD Hp H.
  rewrite p_infix_loop_eq in H.
  destruct a as [|t a]; [destruct (endsT_nil Hends)|].
  rewrite pk in H. cbn [bindP] in H. cbn [precle] in Hp.
  destruct (negb (typ_is t ItemTerminateLine) && (pre <? tok_prec (lt_typ t))) eqn:Econd.
  - apply andb_true_iff in Econd. destruct Econd as [_ Elt]. apply Z.ltb_lt in Elt.
    destruct (infix_of (lt_typ t)) as [[|]|] eqn:Ein.
    + (* binary operator *)
      pose proof (infix_binary_prec _ Ein) as Hpr.
      destruct (p_binary inp n left (mkP p (t :: a) c)) as [l2 s1|s1| |] eqn:E1; cbn [bindP] in H; try discriminate H.
      destruct (IHb left p t a c l2 s1 Ein Hends E1) as (r & tr & rest1 & A1 & El2 & HDr & Hpr1).
      pose proof (Adv_state _ _ _ _ _ _ A1) as Es. subst s1 l2.
      assert (HDl : DE (tok_prec (lt_typ t) - 1) (EBinary left r (tk t)) (tl ++ t :: tr)).
      { apply DE_bare; [cbn [level t_typ tk]; lia|]. apply DB_binary; [exact Ein| |exact HDr].
        apply (DE_mono (L - 1)); [lia|exact HD]. }
      destruct (IHi pre _ p rest1 _ e ps' (tok_prec (lt_typ t)) _ Hpre (Adv_ends _ _ _ _ _ _ A1) ltac:(lia) HDl Hpr1 H)
        as (ts2 & rest2 & A2 & HD2 & Hp2).
      exists (t :: tr ++ ts2), rest2. split; [|split; [|exact Hp2]].
      * apply Adv_cons. eapply Adv_trans; eassumption.
      * replace (tl ++ t :: tr ++ ts2) with ((tl ++ t :: tr) ++ ts2) by lnorm. exact HD2.
    + (* call *)
      pose proof (infix_call_typ _ Ein) as Et.
      destruct (p_call inp n left (mkP p (t :: a) c)) as [l2 s1|s1| |] eqn:E1; cbn [bindP] in H; try discriminate H.
      destruct (IHc left p (t :: a) c l2 s1 Hends E1) as (args & tp & ts1 & rest1 & A1 & El2 & Htp & HDa).
      pose proof (Adv_state _ _ _ _ _ _ A1) as Es. subst s1 l2.
      rewrite Et in Hp. cbn in Hp. unfold Call in Hp.
      assert (HDl : DE (9 - 1) (ECall left args) (tl ++ tp :: ts1)).
      { apply DE_bare; [cbn [level]; lia|]. apply DB_call; [exact Htp| |exact HDa].
        apply (DE_mono (L - 1)); [lia|exact HD]. }
      destruct (IHi pre _ p rest1 _ e ps' 9 _ Hpre (Adv_ends _ _ _ _ _ _ A1) ltac:(lia) HDl (precle_top 9 _ ltac:(lia)) H)
        as (ts2 & rest2 & A2 & HD2 & Hp2).
      exists ((tp :: ts1) ++ ts2), rest2. split; [|split; [|exact Hp2]].
      * eapply Adv_trans; eassumption.
      * replace (tl ++ (tp :: ts1) ++ ts2) with ((tl ++ tp :: ts1) ++ ts2) by lnorm. exact HD2.
    + (* no infix function: precedence Lowest, so the loop condition was false *)
      pose proof (infix_none_prec _ Ein). lia.
  - inversion H; subst e ps'. clear H.
    exists [], (t :: a). split; [apply Adv_nil; exact Hends|]. rewrite app_nil_r. split.
    + apply (DE_mono (L - 1)); [lia|exact HD].
    + cbn [precle]. apply andb_false_iff in Econd. destruct Econd as [E|E].
      * apply negb_false_iff in E. apply typ_is_eq in E. rewrite E. cbn. uprec. lia.
      * apply Z.ltb_ge in E. exact E.
Qed.

(* ---- tactics for walking through a parser function ---- *)
Ltac need_tok Hends a t := destruct a as [|t a]; [destruct (endsT_nil Hends)|].
Ltac pop Hends H' :=
  match type of Hends with endsT (?t :: ?a) => assert (H' : endsT a) by (apply (endsT_tl t a Hends); nt) end.
Ltac inner x := lazymatch x with bindP ?y _ => inner y | _ => constr:(x) end.
Ltac bcall H r s E :=
  match type of H with
  | bindP ?x _ = _ => let y := inner x in destruct y as [r s|s| |] eqn:E; cbn [bindP] in H; try discriminate H
  end.
Ltac tif H E :=
  match type of H with
  | context [if typ_is ?t ?k then _ else _] =>
      destruct (typ_is t k) eqn:E; [apply typ_is_eq in E|]; cbn [bindP] in H; try discriminate H
  end.
Ltac astate A := let E := fresh "Es" in pose proof (Adv_state _ _ _ _ _ _ A) as E; subst.
Ltac aends A := exact (Adv_ends _ _ _ _ _ _ A).
Ltac low H := change (Z.min Lowest 7) with 1 in H.

Lemma prefix_typ : forall k pf, prefix_of k = Some pf ->
  match pf with
  | PfIdent => k = ItemIdentifier | PfNumber => k = ItemNumber | PfBool => k = ItemBool
  | PfString => k = ItemString | PfNull => k = ItemNull | PfFnLit => k = KeywordFn
  | PfUnary => k = LogicNot \/ k = ItemMinus | PfParen => k = ItemLeftParen
  | PfMap => k = ItemLeftSquareParen
  end.
Proof. destruct k; cbn; intros pf H; inversion H; auto. Qed.

Lemma endsT_single : forall t, endsT [t] -> terminal t.
Proof.
  intros t (b & te & E & Ht). destruct b as [|x b]; cbn [app] in E.
  - inversion E; subst. exact Ht.
  - inversion E as [[E1 E2]]. destruct b; discriminate.
Qed.
Lemma terminal_prefix : forall t, terminal t -> prefix_of (lt_typ t) = None.
Proof. intros t [E|E]; rewrite E; reflexivity. Qed.

(* field names: [has_key] after an insertion *)
Lemma has_key_set : forall (k' k : string) (v : expr) m,
  has_key k' (fields_set k v m) = string_eqb k' k || has_key k' m.
Proof.
  intros k' k v m. induction m as [|[k0 v0] r IH]; cbn [fields_set has_key existsb fst]; [reflexivity|].
  destruct (string_eqb k k0) eqn:E0.
  - unfold string_eqb in E0. apply String.eqb_eq in E0. subst k0.
    cbn [has_key existsb fst]. fold (has_key k' r). destruct (string_eqb k' k); reflexivity.
  - destruct (string_ltb k k0).
    + cbn [has_key existsb fst]. reflexivity.
    + cbn [has_key existsb fst]. fold (has_key k' (fields_set k v r)) (has_key k' r). rewrite IH.
      destruct (string_eqb k' k0), (string_eqb k' k); reflexivity.
Qed.
Lemma string_eqb_refl : forall k, string_eqb k k = true.
Proof. intros k. unfold string_eqb. apply String.eqb_refl. Qed.

Lemma zs_call : forall n, Z_call_args n -> Z_call (S n).
Proof.
  intros n IHa f p a c e ps' Hends H.
  rewrite p_call_eq in H. need_tok Hends a t.
  unfold pconsume in H. rewrite nx in H. cbn [bindP] in H.
  tif H Et. pop Hends Hends'.
  bcall H args s1 E1. inversion H; subst e ps'. clear H.
  destruct (IHa p a (t :: c) args s1 Hends' E1) as (ts1 & rest1 & A1 & HD).
  exists args, t, ts1, rest1. split; [apply Adv_cons; exact A1|]. split; [reflexivity|]. split; assumption.
Qed.

Lemma zs_call_args : forall n, Z_expr n -> Z_call_args_loop n -> Z_call_args (S n).
Proof.
  intros n IHe IHl p a c args ps' Hends H.
  rewrite p_call_args_eq in H. need_tok Hends a t. rewrite pk in H. cbn [bindP] in H.
  tif H Et.
  - rewrite nx in H. cbn [bindP] in H. inversion H; subst args ps'. clear H. pop Hends Hends'.
    exists [t], a. split; [apply Adv_cons, Adv_nil; exact Hends'|apply DA_nil; exact Et].
  - bcall H e1 s1 E1.
    destruct (IHe Lowest p (t :: a) c e1 s1 ltac:(unfold Lowest; lia) Hends E1) as (ts1 & rest1 & A1 & HD & _).
    low HD. astate A1.
    destruct (IHl [e1] p rest1 _ args ps' ltac:(aends A1) H) as (r & ts2 & rest2 & A2 & Eargs & HDr).
    exists (ts1 ++ ts2), rest2. split; [eapply Adv_trans; eassumption|].
    subst args. cbn [app]. apply DA_cons; assumption.
Qed.

Lemma zs_call_args_loop : forall n, Z_expr n -> Z_call_args_loop n -> Z_call_args_loop (S n).
Proof.
  intros n IHe IHl acc p a c args ps' Hends H.
  rewrite p_call_args_loop_eq in H. need_tok Hends a t. rewrite pk in H. cbn [bindP] in H.
  tif H Et.
  - rewrite nx in H. cbn [bindP] in H. pop Hends Hends'.
    bcall H e1 s1 E1.
    destruct (IHe Lowest p a (t :: c) e1 s1 ltac:(unfold Lowest; lia) Hends' E1) as (ts1 & rest1 & A1 & HD & _).
    low HD. astate A1.
    destruct (IHl (acc ++ [e1]) p rest1 _ args ps' ltac:(aends A1) H) as (r & ts2 & rest2 & A2 & Eargs & HDr).
    exists (e1 :: r), (t :: ts1 ++ ts2), rest2. split; [apply Adv_cons; eapply Adv_trans; eassumption|].
    split; [subst args; lnorm|]. apply DAT_more; assumption.
  - rewrite nx in H. cbn [bindP] in H. tif H Er. inversion H; subst args ps'. clear H. pop Hends Hends'.
    exists [], [t], a. split; [apply Adv_cons, Adv_nil; exact Hends'|]. split; [lnorm|apply DAT_end; exact Er].
Qed.

Lemma zs_prefix : forall n, Z_expr n -> Z_fn n -> Z_map n -> Z_prefix (S n).
Proof.
  intros n IHe IHf IHm pf p t a c e ps' Hpf Hends H.
  assert (Hends' : endsT a) by (apply (endsT_tl t a Hends); nt).
  pose proof (prefix_typ _ _ Hpf) as Et.
  destruct pf.
  - (* identifier *)
    rewrite p_prefix_ident_eq, nx in H. cbn [bindP] in H. inversion H; subst e ps'. clear H.
    exists [t], a, 10. split; [apply Adv_cons, Adv_nil; exact Hends'|]. split; [lia|].
    split; [|apply precle_top; lia]. apply DE_bare; [cbn; lia|apply DB_ident; exact Et].
  - (* number *)
    rewrite p_prefix_number_eq, nx in H. cbn [bindP] in H.
    destruct (number_lit (lt_val t)) as [e1|] eqn:En; [|discriminate H]. inversion H; subst e ps'. clear H.
    exists [t], a, 10. split; [apply Adv_cons, Adv_nil; exact Hends'|]. split; [lia|].
    split; [|apply precle_top; lia]. apply DE_bare; [rewrite (number_lit_level _ _ En); lia|apply DB_num; assumption].
  - (* bool *)
    rewrite p_prefix_bool_eq, nx in H. cbn [bindP] in H.
    destruct (bool_lit (lt_val t)) as [e1|] eqn:En; [|discriminate H]. inversion H; subst e ps'. clear H.
    exists [t], a, 10. split; [apply Adv_cons, Adv_nil; exact Hends'|]. split; [lia|].
    split; [|apply precle_top; lia]. apply DE_bare; [rewrite (bool_lit_level _ _ En); lia|apply DB_bool; assumption].
  - (* string *)
    rewrite p_prefix_string_eq, nx in H. cbn [bindP] in H. inversion H; subst e ps'. clear H.
    exists [t], a, 10. split; [apply Adv_cons, Adv_nil; exact Hends'|]. split; [lia|].
    split; [|apply precle_top; lia]. apply DE_bare; [cbn; lia|apply DB_str; exact Et].
  - (* null *)
    rewrite p_prefix_null_eq, nx in H. cbn [bindP] in H. inversion H; subst e ps'. clear H.
    exists [t], a, 10. split; [apply Adv_cons, Adv_nil; exact Hends'|]. split; [lia|].
    split; [|apply precle_top; lia]. apply DE_bare; [cbn; lia|apply DB_null; exact Et].
  - (* function literal *)
    rewrite p_prefix_fnlit_eq, pk in H. cbn [bindP] in H.
    bcall H f s1 E1.
    destruct (IHf false p t a c f s1 Et Hends E1) as (ts1 & rest1 & A1 & HF).
    destruct HF as (fv & params & body & thead & tp & tps & tb & Ef & Ets & Htp & HDp & Hdup & HDb & Hth).
    subst f thead. cbn [app] in Ets. inversion H; subst e ps'. clear H.
    exists (t :: ts1), rest1, 10. split; [apply Adv_cons; exact A1|]. split; [lia|].
    split; [|apply precle_top; lia]. apply DE_bare; [cbn; lia|]. rewrite Ets. apply DB_fn; assumption.
  - (* unary operator *)
    rewrite p_prefix_unary_eq, nx in H. cbn [bindP] in H.
    destruct (typ_is t LogicNot || typ_is t ItemMinus); [|discriminate H].
    bcall H r s1 E1.
    destruct (IHe Prefix p a (t :: c) r s1 ltac:(unfold Prefix; lia) Hends' E1) as (ts1 & rest1 & A1 & HD & Hp).
    change (Z.min Prefix 7) with 7 in HD. inversion H; subst e ps'. clear H.
    exists (t :: ts1), rest1, 8. split; [apply Adv_cons; exact A1|]. split; [lia|].
    split; [|exact Hp]. apply DE_bare; [cbn; lia|apply DB_unary; assumption].
  - (* parenthesis *)
    rewrite p_prefix_paren_eq, nx in H. cbn [bindP] in H.
    bcall H e1 s1 E1.
    destruct (IHe Lowest p a (t :: c) e1 s1 ltac:(unfold Lowest; lia) Hends' E1) as (ts1 & rest1 & A1 & HD & _).
    low HD. astate A1. pose proof (Adv_ends _ _ _ _ _ _ A1) as He1.
    need_tok He1 rest1 t2. rewrite pk in H. cbn [bindP] in H. tif H Er.
    rewrite nx in H. cbn [bindP] in H. inversion H; subst e ps'. clear H. pop He1 He2.
    exists (t :: ts1 ++ [t2]), rest1, 10. split; [|split; [lia|split; [|apply precle_top; lia]]].
    + apply Adv_cons. eapply Adv_trans; [exact A1|]. apply Adv_cons, Adv_nil. exact He2.
    + apply DE_paren; assumption.
  - (* map literal *)
    rewrite p_prefix_map_eq, nx in H. cbn [bindP] in H.
    need_tok Hends' a t2. rewrite pk in H. cbn [bindP] in H. tif H Er.
    + rewrite nx in H. cbn [bindP] in H. inversion H; subst e ps'. clear H. pop Hends' He2.
      exists [t; t2], a, 10. split; [apply Adv_cons, Adv_cons, Adv_nil; exact He2|]. split; [lia|].
      split; [|apply precle_top; lia]. apply DE_bare; [cbn; lia|apply DB_map0; assumption].
    + destruct (IHm [] [] p (t2 :: a) (t :: c) e ps' Hends' H) as (es & ts1 & rest1 & A1 & HDes & Ee & Hnd & _).
      exists (t :: ts1), rest1, 10. split; [apply Adv_cons; exact A1|]. split; [lia|].
      split; [|apply precle_top; lia]. subst e. cbn [app]. apply DE_bare; [cbn; lia|apply DB_map; assumption].
Qed.

Lemma zs_map : forall n, Z_expr n -> Z_map n -> Z_map (S n).
Proof.
  intros n IHe IHm arr fields p a c e ps' Hends H.
  rewrite p_map_loop_eq in H. need_tok Hends a ele. rewrite nx in H. cbn [bindP] in H.
  destruct a as [|nx0 a].
  - (* the second blind read ran past the last token: the element is the EOF / error token *)
    exfalso. pose proof (endsT_single _ Hends) as Hterm.
    unfold pnext at 1 in H. cbn [ahead prod consumed] in H.
    destruct (recv (lex_fuel inp) inp p) as [[t2 p2]| |]; cbn [bindP] in H; try discriminate H.
    replace (typ_is ele ItemIdentifier) with false in H
      by (symmetry; apply typ_is_false; destruct Hterm as [E|E]; rewrite E; discriminate).
    cbn [andb pbackup consumed prod ahead] in H.
    destruct n as [|n]; [discriminate H|].
    rewrite p_expr_eq, nx in H. cbn [bindP] in H. rewrite (terminal_prefix _ Hterm) in H. discriminate H.
  - rewrite nx in H. cbn [bindP] in H.
    destruct (typ_is ele ItemIdentifier && typ_is nx0 ItemAssign) eqn:Ef.
    + (* a field *)
      apply andb_true_iff in Ef. destruct Ef as [Ei Ea]. apply typ_is_eq in Ei. apply typ_is_eq in Ea.
      pop Hends He1. pop He1 He2.
      bcall H v s1 Ev.
      destruct (IHe Lowest p a (nx0 :: ele :: c) v s1 ltac:(unfold Lowest; lia) He2 Ev) as (ts1 & rest1 & A1 & HD & _).
      low HD. astate A1. pose proof (Adv_ends _ _ _ _ _ _ A1) as He3.
      destruct (has_key (lt_val ele) fields) eqn:Ehk; cbn [bindP] in H; [discriminate H|].
      need_tok He3 rest1 t3. rewrite nx in H. cbn [bindP] in H.
      assert (HDen : DEntry (Some (lt_val ele)) v (ele :: nx0 :: ts1)) by (apply DEn_field; assumption).
      tif H Er; [|tif H Ec]; pop He3 He4.
      * inversion H; subst e ps'. clear H.
        exists [(Some (lt_val ele), v)], (ele :: nx0 :: ts1 ++ [t3]), rest1.
        split; [apply Adv_cons, Adv_cons; eapply Adv_trans; [exact A1|apply Adv_cons, Adv_nil; exact He4]|].
        split; [apply (DEs_last _ _ (ele :: nx0 :: ts1) t3); assumption|].
        split; [cbn [map_arr map_fields flat_map fold_left fst snd app]; rewrite app_nil_r; reflexivity|].
        split; [cbn; constructor; [intros []|constructor]|].
        intros k [Hk|[]]. subst k. exact Ehk.
      * destruct (IHm arr (fields_set (lt_val ele) v fields) p rest1 _ e ps' He4 H)
          as (es & ts2 & rest2 & A2 & HDes & Ee & Hnd & Hfresh).
        exists ((Some (lt_val ele), v) :: es), (ele :: nx0 :: ts1 ++ t3 :: ts2), rest2.
        split; [apply Adv_cons, Adv_cons; eapply Adv_trans; [exact A1|apply Adv_cons; exact A2]|].
        split; [apply (DEs_more _ _ (ele :: nx0 :: ts1) t3); assumption|].
        split; [subst e; reflexivity|].
        change (field_keys ((Some (lt_val ele), v) :: es)) with (lt_val ele :: field_keys es).
        split.
        -- constructor; [|exact Hnd]. intros Hin. specialize (Hfresh _ Hin).
           rewrite has_key_set, string_eqb_refl in Hfresh. discriminate Hfresh.
        -- intros k [Hk|Hk]; [subst k; exact Ehk|]. specialize (Hfresh _ Hk).
           rewrite has_key_set in Hfresh. apply orb_false_iff in Hfresh. apply Hfresh.
    + (* an array element *)
      cbn [pbackup consumed prod ahead] in H.
      bcall H v s1 Ev.
      destruct (IHe Lowest p (ele :: nx0 :: a) c v s1 ltac:(unfold Lowest; lia) Hends Ev) as (ts1 & rest1 & A1 & HD & _).
      low HD. astate A1. pose proof (Adv_ends _ _ _ _ _ _ A1) as He3.
      need_tok He3 rest1 t3. rewrite nx in H. cbn [bindP] in H.
      assert (HDen : DEntry None v ts1) by (apply DEn_elem; assumption).
      tif H Er; [|tif H Ec]; pop He3 He4.
      * inversion H; subst e ps'. clear H.
        exists [(None, v)], (ts1 ++ [t3]), rest1.
        split; [eapply Adv_trans; [exact A1|apply Adv_cons, Adv_nil; exact He4]|].
        split; [apply DEs_last; assumption|]. split; [reflexivity|].
        split; [cbn; constructor|intros k []].
      * destruct (IHm (arr ++ [v]) fields p rest1 _ e ps' He4 H) as (es & ts2 & rest2 & A2 & HDes & Ee & Hnd & Hfresh).
        exists ((None, v) :: es), (ts1 ++ t3 :: ts2), rest2.
        split; [eapply Adv_trans; [exact A1|apply Adv_cons; exact A2]|].
        split; [apply DEs_more; assumption|].
        split; [subst e; rewrite <- app_assoc; reflexivity|].
        split; [exact Hnd|exact Hfresh].
Qed.

(* ---- functions, blocks, simple statements ---- *)
Lemma DParams_head : forall r ts, DParams r ts ->
  exists t ts', ts = t :: ts' /\
    ((lt_typ t = ItemRightParen /\ r = [] /\ ts' = []) \/ lt_typ t = ItemIdentifier).
Proof.
  intros r ts H. destruct H as [tr Hr|ti tr Hi Hr|ti tc tj ps ts Hi Hc Hj Hps].
  - exists tr, []. split; [reflexivity|]. left. auto.
  - exists ti, [tr]. split; [reflexivity|]. right. exact Hi.
  - exists ti, (tc :: tj :: ts). split; [reflexivity|]. right. exact Hi.
Qed.

Lemma zs_fn_args : forall n, Z_fn_args n -> Z_fn_args (S n).
Proof.
  intros n IH acc p a c args ps' Hends H.
  rewrite p_fn_args_eq in H. need_tok Hends a t. rewrite nx in H. cbn [bindP] in H.
  tif H Er.
  - inversion H; subst args ps'. clear H. pop Hends He1.
    exists [], [t], a. split; [apply Adv_cons, Adv_nil; exact He1|]. split; [lnorm|apply DPs_nil; exact Er].
  - tif H Ei. pop Hends He1. need_tok He1 a t2. rewrite pk in H. cbn [bindP] in H.
    tif H Ec.
    + rewrite nx in H. cbn [bindP] in H. pop He1 He2. need_tok He2 a t3. rewrite pk in H. cbn [bindP] in H.
      tif H Ei3.
      destruct (IH (acc ++ [lt_val t]) p (t3 :: a) (t2 :: t :: c) args ps' He2 H) as (r & ts & rest & A1 & Eargs & HDp).
      destruct (DParams_head _ _ HDp) as (t' & ts' & Ets & _). subst ts.
      pose proof A1 as (Ea & _ & _). cbn [app] in Ea. injection Ea as Et' _. subst t'.
      exists (lt_val t :: r), (t :: t2 :: t3 :: ts'), rest.
      split; [apply Adv_cons, Adv_cons; exact A1|]. split; [subst args; lnorm|]. apply DPs_more; assumption.
    + tif H Er2.
      destruct (IH (acc ++ [lt_val t]) p (t2 :: a) (t :: c) args ps' He1 H) as (r & ts & rest & A1 & Eargs & HDp).
      destruct (DParams_head _ _ HDp) as (t' & ts' & Ets & Hh). subst ts.
      pose proof A1 as (Ea & _ & _). cbn [app] in Ea. injection Ea as Et' _. subst t'.
      destruct Hh as [(_ & Hr & Hts)|Hh]; [|congruence]. subst r ts'.
      exists [lt_val t], [t; t2], rest.
      split; [apply Adv_cons; exact A1|]. split; [subst args; lnorm|]. apply DPs_last; assumption.
Qed.

Lemma zs_fn : forall n, Z_fn_args n -> Z_block n -> Z_fn (S n).
Proof.
  intros n IHa IHb ident p t a c s ps' Et Hends H.
  rewrite p_fn_eq, nx in H. cbn [bindP] in H. pop Hends He1.
  destruct ident.
  - need_tok He1 a tid. unfold pconsume in H. rewrite nx in H. cbn [bindP] in H. tif H Eid.
    pop He1 He2. need_tok He2 a tp. rewrite pk in H. cbn [bindP] in H. tif H Ep.
    rewrite nx in H. cbn [bindP] in H. pop He2 He3.
    bcall H params s1 E1.
    destruct (IHa [] p a (tp :: tid :: t :: c) params s1 He3 E1) as (r & tps & rest1 & A1 & Eargs & HDp).
    cbn [app] in Eargs. subst r. astate A1.
    bcall H body s2 E2.
    destruct (IHb p rest1 _ body s2 ltac:(aends A1) E2) as (tb & rest2 & A2 & HDb).
    destruct (has_dup params) eqn:Edup; [discriminate H|]. inversion H; subst s ps'. clear H.
    exists (tid :: tp :: tps ++ tb), rest2.
    split; [apply Adv_cons, Adv_cons; eapply Adv_trans; eassumption|].
    exists (tk tid), params, body, [tid], tp, tps, tb.
    split; [reflexivity|]. split; [reflexivity|]. split; [exact Ep|]. split; [exact HDp|].
    split; [exact Edup|]. split; [exact HDb|]. exists tid. split; [reflexivity|split; [exact Eid|reflexivity]].
  - cbn [bindP] in H. need_tok He1 a tp. rewrite pk in H. cbn [bindP] in H. tif H Ep.
    rewrite nx in H. cbn [bindP] in H. pop He1 He3.
    bcall H params s1 E1.
    destruct (IHa [] p a (tp :: t :: c) params s1 He3 E1) as (r & tps & rest1 & A1 & Eargs & HDp).
    cbn [app] in Eargs. subst r. astate A1.
    bcall H body s2 E2.
    destruct (IHb p rest1 _ body s2 ltac:(aends A1) E2) as (tb & rest2 & A2 & HDb).
    destruct (has_dup params) eqn:Edup; [discriminate H|]. inversion H; subst s ps'. clear H.
    exists (tp :: tps ++ tb), rest2.
    split; [apply Adv_cons; eapply Adv_trans; eassumption|].
    exists (Tok ItemError EmptyString), params, body, [], tp, tps, tb.
    split; [reflexivity|]. split; [reflexivity|]. split; [exact Ep|]. split; [exact HDp|].
    split; [exact Edup|]. split; [exact HDb|reflexivity].
Qed.

Lemma zs_block : forall n, Z_block_loop n -> Z_block (S n).
Proof.
  intros n IHl p a c b ps' Hends H.
  rewrite p_block_eq in H. need_tok Hends a t. unfold pconsume in H. rewrite nx in H. cbn [bindP] in H.
  tif H Et. pop Hends He1.
  destruct (IHl [] p a (t :: c) b ps' He1 H) as (nodes & ts & tr & rest & A1 & Eb & HDn & Htr).
  cbn [app] in Eb. subst b.
  exists (t :: ts ++ [tr]), rest. split; [apply Adv_cons; exact A1|apply DBl; assumption].
Qed.

Lemma zs_block_loop : forall n, Z_statement n -> Z_block_loop n -> Z_block_loop (S n).
Proof.
  intros n IHs IHl acc p a c b ps' Hends H.
  rewrite p_block_loop_eq in H. need_tok Hends a t. rewrite pk in H. cbn [bindP] in H.
  tif H Er.
  - rewrite nx in H. cbn [bindP] in H. inversion H; subst b ps'. clear H. pop Hends He1.
    exists [], [], t, a. split; [cbn [app]; apply Adv_cons, Adv_nil; exact He1|].
    split; [rewrite app_nil_r; reflexivity|]. split; [apply DN_nil|exact Er].
  - tif H Eeof.
    bcall H x s1 E1.
    destruct (IHs p (t :: a) c x s1 Hends E1) as (ts1 & rest1 & A1 & HDx). astate A1.
    destruct (IHl (block_append acc x) p rest1 _ b ps' ltac:(aends A1) H)
      as (nodes & ts2 & tr & rest2 & A2 & Eb & HDn & Htr).
    exists (x :: nodes), (ts1 ++ ts2), tr, rest2.
    split; [rewrite <- app_assoc; eapply Adv_trans; eassumption|].
    split; [subst b; unfold block_append; lnorm|]. split; [apply DN_cons; assumption|exact Htr].
Qed.

Lemma zs_let : forall n, Z_expr n -> Z_let (S n).
Proof.
  intros n IHe p t a c s ps' Et Hends H.
  rewrite p_let_eq, nx in H. cbn [bindP] in H. pop Hends He1.
  need_tok He1 a tid. unfold pconsume in H. rewrite nx in H. cbn [bindP] in H. tif H Eid. pop He1 He2.
  need_tok He2 a teq. rewrite nx in H. cbn [bindP] in H. tif H Eeq. pop He2 He3.
  bcall H e s1 E1.
  destruct (IHe Lowest p a (teq :: tid :: t :: c) e s1 ltac:(unfold Lowest; lia) He3 E1) as (ts1 & rest1 & A1 & HD & _).
  low HD. inversion H; subst s ps'. clear H.
  exists (tid :: teq :: ts1), rest1. split; [apply Adv_cons, Adv_cons; exact A1|].
  split; [apply DS_let; assumption|]. split; [exact I|reflexivity].
Qed.

Lemma zs_assign : forall n, Z_expr n -> Z_assign (S n).
Proof.
  intros n IHe p a c s ps' Hends H.
  rewrite p_assign_eq in H.
  need_tok Hends a tid. unfold pconsume in H. rewrite nx in H. cbn [bindP] in H. tif H Eid. pop Hends He2.
  need_tok He2 a teq. rewrite nx in H. cbn [bindP] in H. tif H Eeq. pop He2 He3.
  bcall H e s1 E1.
  destruct (IHe Lowest p a (teq :: tid :: c) e s1 ltac:(unfold Lowest; lia) He3 E1) as (ts1 & rest1 & A1 & HD & _).
  low HD. inversion H; subst s ps'. clear H.
  exists (tid :: teq :: ts1), rest1. split; [apply Adv_cons, Adv_cons; exact A1|].
  split; [apply DS_assign; assumption|]. split; [exact I|reflexivity].
Qed.

Lemma zs_return : forall n, Z_expr n -> Z_return (S n).
Proof.
  intros n IHe p t a c s ps' Et Hends H.
  rewrite p_return_eq, nx in H. cbn [bindP] in H. pop Hends He1.
  bcall H e s1 E1.
  destruct (IHe Lowest p a (t :: c) e s1 ltac:(unfold Lowest; lia) He1 E1) as (ts1 & rest1 & A1 & HD & _).
  low HD. inversion H; subst s ps'. clear H.
  exists ts1, rest1. split; [exact A1|]. split; [apply DS_return; assumption|reflexivity].
Qed.

Lemma zs_ctrl : forall n, Z_ctrl (S n).
Proof.
  intros n p a c s ps' Hends H.
  rewrite p_ctrl_eq in H. need_tok Hends a t. rewrite nx in H. cbn [bindP] in H.
  destruct (lt_typ t) eqn:Et; try discriminate H; inversion H; subst s ps'; clear H; pop Hends He1;
    exists [t], a; (split; [apply Adv_cons, Adv_nil; exact He1|]);
    (split; [apply DS_ctrl; rewrite Et; reflexivity|reflexivity]).
Qed.

Lemma if_or_block_node : forall x e, is_if_or_block x = Some e -> x = NStmt e /\ is_if_or_blk e.
Proof.
  intros x e H. destruct x as [e0|s0]; [discriminate H|].
  destruct s0; try discriminate H; cbn [is_if_or_block] in H; inversion H; subst e; split; try reflexivity; exact I.
Qed.
Lemma if_or_blk_plain : forall s, is_if_or_blk s -> is_stmt_semi s = false.
Proof. destruct s; cbn; intros H; try contradiction; reflexivity. Qed.

Lemma zs_if : forall n, Z_expr n -> Z_block n -> Z_statement n -> Z_if (S n).
Proof.
  intros n IHe IHb IHs p t a c s ps' Et Hends H.
  rewrite p_if_eq, nx in H. cbn [bindP] in H. pop Hends He1.
  bcall H cnd s1 E1.
  destruct (IHe Lowest p a (t :: c) cnd s1 ltac:(unfold Lowest; lia) He1 E1) as (tc & rest1 & A1 & HD & _).
  low HD. astate A1. pose proof (Adv_ends _ _ _ _ _ _ A1) as Hr1.
  need_tok Hr1 rest1 t2. rewrite pk in H. cbn [bindP] in H. tif H Eb.
  bcall H b s2 E2.
  destruct (IHb p (t2 :: rest1) _ b s2 Hr1 E2) as (tb & rest2 & A2 & HDb).
  astate A2. pose proof (Adv_ends _ _ _ _ _ _ A2) as Hr2.
  need_tok Hr2 rest2 t3. rewrite pk in H. cbn [bindP] in H.
  destruct (typ_is t3 KeywordElse) eqn:Eelse.
  - apply typ_is_eq in Eelse. rewrite nx in H. cbn [bindP] in H. pop Hr2 Hr3.
    bcall H x s3 E3.
    destruct (IHs p rest2 _ x s3 Hr3 E3) as (tx & rest3 & A3 & HDx).
    destruct (is_if_or_block x) as [els|] eqn:Ex; [|discriminate H].
    inversion H; subst s ps'. clear H.
    destruct (if_or_block_node _ _ Ex) as [Ex' Hels]. subst x.
    exists (tc ++ tb ++ t3 :: tx), rest3.
    split; [eapply Adv_trans; [exact A1|eapply Adv_trans; [exact A2|apply Adv_cons; exact A3]]|].
    split; [|exact I]. apply DS_ifelse; try assumption.
    apply DNode_plain_inv; [exact HDx|apply if_or_blk_plain; exact Hels].
  - inversion H; subst s ps'. clear H.
    exists (tc ++ tb), (t3 :: rest2). split; [eapply Adv_trans; eassumption|].
    split; [apply DS_if; assumption|exact I].
Qed.

Lemma zs_while : forall n, Z_expr n -> Z_block n -> Z_while (S n).
Proof.
  intros n IHe IHb p t a c s ps' Et Hends H.
  rewrite p_while_eq, nx in H. cbn [bindP] in H. pop Hends He1.
  bcall H cnd s1 E1.
  destruct (IHe Lowest p a (t :: c) cnd s1 ltac:(unfold Lowest; lia) He1 E1) as (tc & rest1 & A1 & HD & _).
  low HD. astate A1. pose proof (Adv_ends _ _ _ _ _ _ A1) as Hr1.
  need_tok Hr1 rest1 t2. rewrite pk in H. cbn [bindP] in H. tif H Eb.
  bcall H b s2 E2.
  destruct (IHb p (t2 :: rest1) _ b s2 Hr1 E2) as (tb & rest2 & A2 & HDb).
  inversion H; subst s ps'. clear H.
  exists (tc ++ tb), rest2. split; [eapply Adv_trans; eassumption|].
  split; [apply DS_while; assumption|reflexivity].
Qed.

(* ---- switch ---- *)
Lemma zs_case_body : forall n, Z_case_body_loop n -> Z_case_body (S n).
Proof.
  intros n IHl p t a c b ps' Et Hends H.
  rewrite p_case_body_eq, nx in H. cbn [bindP] in H. pop Hends He1.
  destruct (IHl [] p a (t :: c) b ps' He1 H) as (nodes & ts & rest & A1 & Eb & HDn).
  exists nodes, ts, rest. split; [exact A1|]. split; assumption.
Qed.

Lemma zs_case_body_loop : forall n, Z_statement n -> Z_case_body_loop n -> Z_case_body_loop (S n).
Proof.
  intros n IHs IHl acc p a c b ps' Hends H.
  rewrite p_case_body_loop_eq in H. need_tok Hends a t. rewrite pk in H. cbn [bindP] in H.
  destruct (typ_is t KeywordDefault || typ_is t KeywordCase || typ_is t ItemRightBrace).
  - inversion H; subst b ps'. clear H.
    exists [], [], (t :: a). split; [apply Adv_nil; exact Hends|]. split; [rewrite app_nil_r; reflexivity|apply DN_nil].
  - tif H Eeof.
    bcall H x s1 E1.
    destruct (IHs p (t :: a) c x s1 Hends E1) as (ts1 & rest1 & A1 & HDx). astate A1.
    destruct (IHl (block_append acc x) p rest1 _ b ps' ltac:(aends A1) H)
      as (nodes & ts2 & rest2 & A2 & Eb & HDn).
    exists (x :: nodes), (ts1 ++ ts2), rest2.
    split; [eapply Adv_trans; eassumption|].
    split; [subst b; unfold block_append; lnorm|apply DN_cons; assumption].
Qed.

Lemma zs_switch_loop : forall n, Z_expr n -> Z_case_body n -> Z_switch_loop n -> Z_switch_loop (S n).
Proof.
  intros n IHe IHcb IHl cnd cases def p a c s ps' Hends H.
  rewrite p_switch_loop_eq in H. need_tok Hends a t. rewrite nx in H. cbn [bindP] in H.
  tif H Er; [|tif H Ecase; [|tif H Edef]].
  - inversion H; subst s ps'. clear H. pop Hends He1.
    exists [], [t], a. split; [apply Adv_cons, Adv_nil; exact He1|]. split; [apply DC_end; exact Er|].
    split; [cbn [sw_cases flat_map sw_default fold_left]; rewrite app_nil_r; reflexivity|].
    destruct def; [unfold at_most_one_default; cbn; lia|reflexivity].
  - pop Hends He1.
    bcall H cc s1 E1.
    destruct (IHe Lowest p a (t :: c) cc s1 ltac:(unfold Lowest; lia) He1 E1) as (tc & rest1 & A1 & HD & _).
    low HD. astate A1. pose proof (Adv_ends _ _ _ _ _ _ A1) as Hr1.
    need_tok Hr1 rest1 t2. rewrite pk in H. cbn [bindP] in H. tif H Ecol.
    bcall H body s2 E2.
    destruct (IHcb p t2 rest1 _ body s2 Ecol Hr1 E2) as (nodes & tn & rest2 & A2 & Eb & HDn).
    subst body. astate A2.
    destruct (IHl cnd (cases ++ [Case cc (Block nodes)]) def p rest2 _ s ps' ltac:(aends A2) H)
      as (es & ts & rest3 & A3 & HDc & Es & Hdef).
    exists ((Some cc, Block nodes) :: es), (t :: tc ++ t2 :: tn ++ ts), rest3.
    split; [apply Adv_cons; eapply Adv_trans; [exact A1|apply Adv_cons; eapply Adv_trans; [exact A2|exact A3]]|].
    split; [apply DC_case; assumption|]. split; [subst s; rewrite <- app_assoc; reflexivity|].
    exact Hdef.
  - destruct def as [|dl]; [|discriminate H].
    pop Hends He1. need_tok He1 a t2. rewrite pk in H. cbn [bindP] in H. tif H Ecol.
    bcall H body s2 E2.
    destruct (IHcb p t2 a _ body s2 Ecol He1 E2) as (nodes & tn & rest2 & A2 & Eb & HDn).
    subst body. astate A2.
    destruct (IHl cnd cases (Block nodes) p rest2 _ s ps' ltac:(aends A2) H)
      as (es & ts & rest3 & A3 & HDc & Es & Hdef).
    exists ((None, Block nodes) :: es), (t :: t2 :: tn ++ ts), rest3.
    split; [apply Adv_cons, Adv_cons; eapply Adv_trans; [exact A2|exact A3]|].
    split; [apply DC_default; assumption|]. split; [subst s; reflexivity|].
    unfold at_most_one_default. change (default_count ((None, Block nodes) :: es)) with (S (default_count es)).
    rewrite Hdef. lia.
Qed.

Lemma zs_switch : forall n, Z_expr n -> Z_switch_loop n -> Z_switch (S n).
Proof.
  intros n IHe IHl p a c s ps' Hends H.
  rewrite p_switch_eq in H. need_tok Hends a t. unfold pconsume in H. rewrite nx in H. cbn [bindP] in H.
  tif H Et. pop Hends He1. need_tok He1 a t2. rewrite pk in H. cbn [bindP] in H.
  destruct (typ_is t2 ItemLeftBrace) eqn:Eb.
  - cbn [bindP] in H. rewrite nx in H. cbn [bindP] in H. rewrite Eb in H. apply typ_is_eq in Eb. pop He1 He2.
    destruct (IHl ENil [] BNil p a (t2 :: t :: c) s ps' He2 H) as (es & ts & rest & A1 & HDc & Es & Hdef).
    exists (t :: t2 :: ts), rest. split; [apply Adv_cons, Adv_cons; exact A1|].
    subst s. cbn [app]. split; [apply DS_switch0; assumption|reflexivity].
  - bcall H cnd s1 E1.
    destruct (IHe Lowest p (t2 :: a) (t :: c) cnd s1 ltac:(unfold Lowest; lia) He1 E1) as (tc & rest1 & A1 & HD & _).
    low HD. astate A1. pose proof (Adv_ends _ _ _ _ _ _ A1) as Hr1.
    need_tok Hr1 rest1 t3. rewrite nx in H. cbn [bindP] in H. tif H Eb3. pop Hr1 Hr2.
    destruct (IHl cnd [] BNil p rest1 _ s ps' Hr2 H) as (es & ts & rest & A2 & HDc & Es & Hdef).
    exists (t :: tc ++ t3 :: ts), rest.
    split; [apply Adv_cons; eapply Adv_trans; [exact A1|apply Adv_cons; exact A2]|].
    subst s. cbn [app]. split; [apply DS_switch; assumption|reflexivity].
Qed.

(* ---- for ---- *)
(* condition, optional post statement and body of a for, after the optional init *)
Lemma for_tail : forall n, Z_expr n -> Z_block n -> Z_assign n ->
  forall init p a c s ps', endsT a ->
  (pb (cond, s) <- p_expr inp n Lowest (mkP p a c);
   pb (t, s) <- ppeek inp s;
   pb (post, s) <-
     (if typ_is t ItemTerminateLine then
        pb (_, s) <- pnext inp s;
        pb (t, s) <- ppeek inp s;
        if typ_is t ItemLeftBrace then ROk SNil s else p_assign inp n s
      else ROk SNil s);
   pb (t, s) <- ppeek inp s;
   if typ_is t ItemLeftBrace then pb (b, s) <- p_block inp n s; ROk (SFor init cond post b) s
   else RErr s) = ROk s ps' ->
  exists cond tc post tp b tb rest, Adv p a c (tc ++ tp ++ tb) rest ps' /\
    s = SFor init cond post b /\ DE 1 cond tc /\ DForPost post tp /\ DBlock b tb.
Proof.
  intros n IHe IHb IHa init p a c s ps' Hends H.
  bcall H cnd s1 E1.
  destruct (IHe Lowest p a c cnd s1 ltac:(unfold Lowest; lia) Hends E1) as (tc & rest1 & A1 & HD & _).
  low HD. astate A1. pose proof (Adv_ends _ _ _ _ _ _ A1) as Hr1.
  need_tok Hr1 rest1 t1. rewrite pk in H. cbn [bindP] in H.
  destruct (typ_is t1 ItemTerminateLine) eqn:Esemi.
  - apply typ_is_eq in Esemi. rewrite nx in H. cbn [bindP] in H. pop Hr1 Hr2.
    need_tok Hr2 rest1 t2. rewrite pk in H. cbn [bindP] in H.
    destruct (typ_is t2 ItemLeftBrace) eqn:Eb.
    + (* the lone ';' before the body *)
      cbn [bindP] in H. rewrite pk in H. cbn [bindP] in H. rewrite Eb in H.
      bcall H b s2 E2.
      destruct (IHb p (t2 :: rest1) _ b s2 Hr2 E2) as (tb & rest2 & A2 & HDb).
      inversion H; subst s ps'. clear H.
      exists cnd, tc, SNil, [t1], b, tb, rest2.
      split; [eapply Adv_trans; [exact A1|apply Adv_cons; exact A2]|].
      split; [reflexivity|]. split; [exact HD|]. split; [apply DFP_semi; exact Esemi|exact HDb].
    + bcall H post s2 E2.
      destruct (IHa p (t2 :: rest1) _ post s2 Hr2 E2) as (tp & rest2 & A2 & HDs & Has & _).
      astate A2. pose proof (Adv_ends _ _ _ _ _ _ A2) as Hr3.
      need_tok Hr3 rest2 t3. rewrite pk in H. cbn [bindP] in H. tif H Eb3.
      bcall H b s3 E3.
      destruct (IHb p (t3 :: rest2) _ b s3 Hr3 E3) as (tb & rest3 & A3 & HDb).
      inversion H; subst s ps'. clear H.
      exists cnd, tc, post, (t1 :: tp), b, tb, rest3.
      split; [eapply Adv_trans; [exact A1|apply Adv_cons; eapply Adv_trans; [exact A2|exact A3]]|].
      split; [reflexivity|]. split; [exact HD|]. split; [apply DFP_some; assumption|exact HDb].
  - cbn [bindP] in H. rewrite pk in H. cbn [bindP] in H. tif H Eb.
    bcall H b s2 E2.
    destruct (IHb p (t1 :: rest1) _ b s2 Hr1 E2) as (tb & rest2 & A2 & HDb).
    inversion H; subst s ps'. clear H.
    exists cnd, tc, SNil, [], b, tb, rest2.
    split; [cbn [app]; eapply Adv_trans; [exact A1|exact A2]|].
    split; [reflexivity|]. split; [exact HD|]. split; [apply DFP_none|exact HDb].
Qed.

Lemma zs_for : forall n, Z_expr n -> Z_block n -> Z_let n -> Z_assign n -> Z_for (S n).
Proof.
  intros n IHe IHb IHlet IHa p t a c s ps' Et Hends H.
  rewrite p_for_eq, nx in H. cbn [bindP] in H. pop Hends He1.
  need_tok He1 a t2. rewrite pk in H. cbn [bindP] in H.
  destruct (typ_is t2 ItemLeftBrace) eqn:Eb.
  - (* for { ... } *)
    bcall H b s1 E1.
    destruct (IHb p (t2 :: a) _ b s1 He1 E1) as (tb & rest1 & A1 & HDb).
    inversion H; subst s ps'. clear H.
    exists tb, rest1. split; [exact A1|]. split; [apply DS_for_bare; assumption|reflexivity].
  - rewrite pk in H. cbn [bindP] in H.
    destruct (typ_is t2 KeywordLet) eqn:Elet.
    + (* init = let *)
      cbn [bindP] in H. rewrite pk in H. cbn [bindP] in H. rewrite Elet in H. apply typ_is_eq in Elet.
      bcall H i s1 E1.
      destruct (IHlet p t2 a _ i s1 Elet He1 E1) as (ti & rest1 & A1 & HDi & Hla & _).
      astate A1. pose proof (Adv_ends _ _ _ _ _ _ A1) as Hr1.
      need_tok Hr1 rest1 t3. rewrite pk in H. cbn [bindP] in H. tif H Esemi.
      rewrite nx in H. cbn [bindP] in H. pop Hr1 Hr2.
      destruct (for_tail n IHe IHb IHa i p rest1 _ s ps' Hr2 H)
        as (cnd & tc & post & tp & b & tb & rest & A2 & Es & HD & HDp & HDb).
      exists ((t2 :: ti ++ [t3]) ++ tc ++ tp ++ tb), rest.
      split; [|split; [subst s; apply DS_for; try assumption; apply (DFI_some i (t2 :: ti) t3); assumption|subst s; reflexivity]].
      replace ((t2 :: ti ++ [t3]) ++ tc ++ tp ++ tb) with (t2 :: ti ++ t3 :: tc ++ tp ++ tb) by lnorm.
      apply Adv_cons. eapply Adv_trans; [exact A1|apply Adv_cons; exact A2].
    + destruct (typ_is t2 ItemIdentifier) eqn:Eid.
      * apply typ_is_eq in Eid. rewrite nx in H. cbn [bindP] in H. pop He1 He2.
        need_tok He2 a t3. rewrite pk in H. cbn [bindP pbackup consumed prod ahead] in H.
        destruct (typ_is t3 ItemAssign) eqn:Eas.
        -- (* init = assignment *)
           rewrite pk in H. cbn [bindP] in H. rewrite Elet in H.
           bcall H i s1 E1.
           destruct (IHa p (t2 :: t3 :: a) _ i s1 He1 E1) as (ti & rest1 & A1 & HDi & Hla & _).
           astate A1. pose proof (Adv_ends _ _ _ _ _ _ A1) as Hr1.
           need_tok Hr1 rest1 t4. rewrite pk in H. cbn [bindP] in H. tif H Esemi.
           rewrite nx in H. cbn [bindP] in H. pop Hr1 Hr2.
           destruct (for_tail n IHe IHb IHa i p rest1 _ s ps' Hr2 H)
             as (cnd & tc & post & tp & b & tb & rest & A2 & Es & HD & HDp & HDb).
           exists ((ti ++ [t4]) ++ tc ++ tp ++ tb), rest.
           split; [|split; [subst s; apply DS_for; try assumption; apply DFI_some; try assumption;
                            destruct i; try contradiction; exact I|subst s; reflexivity]].
           replace ((ti ++ [t4]) ++ tc ++ tp ++ tb) with (ti ++ t4 :: tc ++ tp ++ tb) by lnorm.
           eapply Adv_trans; [exact A1|apply Adv_cons; exact A2].
        -- (* no init *)
           destruct (for_tail n IHe IHb IHa SNil p (t2 :: t3 :: a) _ s ps' He1 H)
             as (cnd & tc & post & tp & b & tb & rest & A2 & Es & HD & HDp & HDb).
           exists (tc ++ tp ++ tb), rest. split; [exact A2|].
           split; [subst s; apply (DS_for t SNil []); try assumption; apply DFI_none|subst s; reflexivity].
      * (* no init *)
        cbn [bindP] in H.
        destruct (for_tail n IHe IHb IHa SNil p (t2 :: a) _ s ps' He1 H)
          as (cnd & tc & post & tp & b & tb & rest & A2 & Es & HD & HDp & HDb).
        exists (tc ++ tp ++ tb), rest. split; [exact A2|].
        split; [subst s; apply (DS_for t SNil []); try assumption; apply DFI_none|subst s; reflexivity].
Qed.

(* ---- parseStatement ---- *)
(* the ';' after a simple statement *)
Lemma semi_finish : forall X (x x' : X) p a c ps', endsT a ->
  (pb (_, s) <- pconsume inp ItemTerminateLine (mkP p a c); ROk x s) = ROk x' ps' ->
  exists t r, a = t :: r /\ lt_typ t = ItemTerminateLine /\ x' = x /\ ps' = mkP p r (t :: c) /\ endsT r.
Proof.
  intros X x x' p a c ps' Hends H. need_tok Hends a t.
  unfold pconsume in H. rewrite nx in H. cbn [bindP] in H. tif H Et.
  inversion H; subst x' ps'. pop Hends He1. exists t, a. auto.
Qed.

Definition stmt_kw (k : toktype) : bool :=
  match k with
  | KeywordBreak | KeywordFallthrough | KeywordContinue | KeywordLet | KeywordReturn | KeywordIf
  | KeywordSwitch | KeywordFn | KeywordWhile | KeywordFor | ItemLeftBrace | ItemIdentifier => true
  | _ => false
  end.

(* an expression statement: expression, then ';' *)
Lemma expr_stmt : forall n, Z_expr n -> forall p t a c x ps', endsT (t :: a) -> lt_typ t <> KeywordFn ->
  semi_tail inp (pb (x, s) <- p_expr inp n Lowest (mkP p (t :: a) c); ROk (NExpr x) s) = ROk x ps' ->
  exists ts rest, Adv p (t :: a) c ts rest ps' /\ DNode x ts.
Proof.
  intros n IHe p t a c x ps' Hends Hfn H. unfold semi_tail in H.
  bcall H e s1 E1.
  destruct (IHe Lowest p (t :: a) c e s1 ltac:(unfold Lowest; lia) Hends E1) as (ts1 & rest1 & A1 & HD & _).
  low HD. astate A1.
  destruct (semi_finish _ _ _ _ _ _ _ ltac:(aends A1) H) as (t2 & r & Er & Esemi & Ex & Eps & Hr).
  subst rest1 x ps'.
  exists (ts1 ++ [t2]), r. split; [eapply Adv_trans; [exact A1|apply Adv_cons, Adv_nil; exact Hr]|].
  apply DNode_expr; try assumption.
  destruct ts1 as [|t' ts1']; [exact I|]. cbn [first_not_fn].
  destruct A1 as (Ea & _ & _). cbn [app] in Ea. injection Ea as Et' _. subst t'. exact Hfn.
Qed.

(* a simple statement, then ';' *)
Lemma simple_stmt_semi : forall p a c (r : PR stmt) x ps' ts0,
  (forall s s1, r = ROk s s1 -> exists ts rest, Adv p a c ts rest s1 /\ DStmt s (ts0 ++ ts) /\ is_stmt_semi s = true) ->
  semi_tail inp (pb (x, s) <- r; ROk (NStmt x) s) = ROk x ps' ->
  exists ts rest, Adv p a c ts rest ps' /\ DNode x (ts0 ++ ts).
Proof.
  intros p a c r x ps' ts0 Hr H. unfold semi_tail in H.
  destruct r as [s0 s1|s1| |]; cbn [bindP] in H; try discriminate H.
  destruct (Hr s0 s1 eq_refl) as (ts1 & rest1 & A1 & HDs & Hsemi). astate A1.
  destruct (semi_finish _ _ _ _ _ _ _ ltac:(aends A1) H) as (t2 & r & Er & Esemi & Ex & Eps & Hr2).
  subst rest1 x ps'.
  exists (ts1 ++ [t2]), r. split; [eapply Adv_trans; [exact A1|apply Adv_cons, Adv_nil; exact Hr2]|].
  rewrite app_assoc. apply DNode_semi; assumption.
Qed.

Lemma zs_statement : forall n, Z_expr n -> Z_ctrl n -> Z_let n -> Z_return n -> Z_if n -> Z_switch n ->
  Z_fn n -> Z_while n -> Z_for n -> Z_block n -> Z_assign n -> Z_statement (S n).
Proof.
  intros n IHe IHctrl IHlet IHret IHif IHsw IHfn IHwhile IHfor IHb IHa p a c x ps' Hends H.
  need_tok Hends a t. pose proof (pk inp p t a c) as Hpk.
  destruct (stmt_kw (lt_typ t)) eqn:Ekw.
  - destruct (lt_typ t) eqn:Et; try discriminate Ekw; clear Ekw.
    + (* '{' *)
      rewrite (p_statement_block inp n _ t _ Hpk Et) in H.
      bcall H b s1 E1. destruct (IHb p (t :: a) c b s1 Hends E1) as (tb & rest & A1 & HDb).
      inversion H; subst x ps'. clear H.
      exists tb, rest. split; [exact A1|]. apply DNode_plain; [apply DS_block; exact HDb|reflexivity].
    + (* identifier: an assignment or an expression statement *)
      rewrite (p_statement_ident inp n _ t _ Hpk Et) in H.
      rewrite nx in H. cbn [bindP] in H. pop Hends He1. need_tok He1 a t2.
      rewrite pk in H. cbn [bindP pbackup consumed prod ahead] in H.
      destruct (typ_is t2 ItemAssign).
      * apply (simple_stmt_semi p (t :: t2 :: a) c _ x ps' []) in H; [exact H|].
        intros s s1 E1. destruct (IHa p (t :: t2 :: a) c s s1 Hends E1) as (ts & rest & A1 & HDs & _ & Hsemi).
        exists ts, rest. auto.
      * apply (expr_stmt n IHe) in H; [exact H|exact Hends|congruence].
    + (* let *)
      rewrite (p_statement_let inp n _ t _ Hpk Et) in H.
      apply (simple_stmt_semi p (t :: a) c _ x ps' []) in H; [exact H|].
      intros s s1 E1. destruct (IHlet p t a c s s1 Et Hends E1) as (ts & rest & A1 & HDs & _ & Hsemi).
      exists (t :: ts), rest. split; [apply Adv_cons; exact A1|]. auto.
    + (* while *)
      rewrite (p_statement_while inp n _ t _ Hpk Et) in H.
      bcall H s0 s1 E1. destruct (IHwhile p t a c s0 s1 Et Hends E1) as (ts & rest & A1 & HDs & Hsemi).
      inversion H; subst x ps'. clear H.
      exists (t :: ts), rest. split; [apply Adv_cons; exact A1|]. apply DNode_plain; assumption.
    + (* if *)
      rewrite (p_statement_if inp n _ t _ Hpk Et) in H.
      bcall H s0 s1 E1. destruct (IHif p t a c s0 s1 Et Hends E1) as (ts & rest & A1 & HDs & Hib).
      inversion H; subst x ps'. clear H.
      exists (t :: ts), rest. split; [apply Adv_cons; exact A1|].
      apply DNode_plain; [exact HDs|apply if_or_blk_plain; exact Hib].
    + (* fn declaration *)
      rewrite (p_statement_fn inp n _ t _ Hpk Et) in H.
      bcall H s0 s1 E1. destruct (IHfn true p t a c s0 s1 Et Hends E1) as (ts & rest & A1 & HF).
      destruct HF as (fv & params & body & thead & tp & tps & tb & Ef & Ets & Htp & HDp & Hdup & HDb & Hth).
      destruct Hth as (tid & Eth & Hid & Efv). subst thead fv s0 ts. cbn [app] in *.
      inversion H; subst x ps'. clear H.
      exists (t :: tid :: tp :: tps ++ tb), rest. split; [apply Adv_cons; exact A1|].
      apply DNode_plain; [apply DS_fn; assumption|reflexivity].
    + (* switch *)
      rewrite (p_statement_switch inp n _ t _ Hpk Et) in H.
      bcall H s0 s1 E1. destruct (IHsw p (t :: a) c s0 s1 Hends E1) as (ts & rest & A1 & HDs & Hsemi).
      inversion H; subst x ps'. clear H.
      exists ts, rest. split; [exact A1|]. apply DNode_plain; assumption.
    + (* break *)
      rewrite (p_statement_ctrl inp n _ t _ Hpk (or_introl Et)) in H.
      apply (simple_stmt_semi p (t :: a) c _ x ps' []) in H; [exact H|].
      intros s s1 E1. destruct (IHctrl p (t :: a) c s s1 Hends E1) as (ts & rest & A1 & HDs & Hsemi).
      exists ts, rest. auto.
    + (* continue *)
      rewrite (p_statement_ctrl inp n _ t _ Hpk (or_intror (or_introl Et))) in H.
      apply (simple_stmt_semi p (t :: a) c _ x ps' []) in H; [exact H|].
      intros s s1 E1. destruct (IHctrl p (t :: a) c s s1 Hends E1) as (ts & rest & A1 & HDs & Hsemi).
      exists ts, rest. auto.
    + (* fallthrough *)
      rewrite (p_statement_ctrl inp n _ t _ Hpk (or_intror (or_intror Et))) in H.
      apply (simple_stmt_semi p (t :: a) c _ x ps' []) in H; [exact H|].
      intros s s1 E1. destruct (IHctrl p (t :: a) c s s1 Hends E1) as (ts & rest & A1 & HDs & Hsemi).
      exists ts, rest. auto.
    + (* return *)
      rewrite (p_statement_return inp n _ t _ Hpk Et) in H.
      apply (simple_stmt_semi p (t :: a) c _ x ps' []) in H; [exact H|].
      intros s s1 E1. destruct (IHret p t a c s s1 Et Hends E1) as (ts & rest & A1 & HDs & Hsemi).
      exists (t :: ts), rest. split; [apply Adv_cons; exact A1|]. auto.
    + (* for *)
      rewrite (p_statement_for inp n _ t _ Hpk Et) in H.
      bcall H s0 s1 E1. destruct (IHfor p t a c s0 s1 Et Hends E1) as (ts & rest & A1 & HDs & Hsemi).
      inversion H; subst x ps'. clear H.
      exists (t :: ts), rest. split; [apply Adv_cons; exact A1|]. apply DNode_plain; assumption.
  - (* any other token: an expression statement *)
    rewrite (p_statement_default inp n _ t _ Hpk) in H
      by (destruct (lt_typ t); try discriminate Ekw; exact I).
    apply (expr_stmt n IHe) in H; [exact H|exact Hends|].
    intro E. rewrite E in Ekw. discriminate Ekw.
Qed.

Lemma zs_rows : forall n, Z_statement n -> Z_rows n -> Z_rows (S n).
Proof.
  intros n IHs IHr acc p a c b ps' Hends H.
  rewrite p_rows_eq in H. need_tok Hends a t. rewrite pk in H. cbn [bindP] in H.
  destruct (typ_is t ItemEOF) eqn:Eeof.
  - apply typ_is_eq in Eeof. inversion H; subst b ps'. clear H.
    exists [], [], (t :: a). split; [apply Adv_nil; exact Hends|].
    split; [rewrite app_nil_r; reflexivity|]. split; [apply DN_nil|]. exists t, a. auto.
  - bcall H x s1 E1.
    destruct (IHs p (t :: a) c x s1 Hends E1) as (ts1 & rest1 & A1 & HDx). astate A1.
    destruct (IHr (block_append acc x) p rest1 _ b ps' ltac:(aends A1) H)
      as (nodes & ts2 & rest2 & A2 & Eb & HDn & Heof).
    exists (x :: nodes), (ts1 ++ ts2), rest2.
    split; [eapply Adv_trans; eassumption|].
    split; [subst b; unfold block_append; lnorm|]. split; [apply DN_cons; assumption|exact Heof].
Qed.

(* ---- all functions at once, by induction on the fuel ---- *)
Record ZALL (n : nat) : Prop := mkZ {
  z_expr : Z_expr n; z_infix : Z_infix n; z_prefix : Z_prefix n; z_map : Z_map n;
  z_binary : Z_binary n; z_call : Z_call n; z_call_args : Z_call_args n;
  z_call_args_loop : Z_call_args_loop n; z_fn : Z_fn n; z_fn_args : Z_fn_args n;
  z_block : Z_block n; z_block_loop : Z_block_loop n; z_statement : Z_statement n;
  z_let : Z_let n; z_assign : Z_assign n; z_return : Z_return n; z_ctrl : Z_ctrl n;
  z_if : Z_if n; z_switch : Z_switch n; z_switch_loop : Z_switch_loop n;
  z_case_body : Z_case_body n; z_case_body_loop : Z_case_body_loop n;
  z_while : Z_while n; z_for : Z_for n; z_rows : Z_rows n }.

Lemma ZALL_0 : ZALL 0.
Proof.
  constructor; red; intros;
    match goal with H : _ = ROk _ _ |- _ => cbn in H; discriminate H end.
Qed.

Lemma ZALL_S : forall n, ZALL n -> ZALL (S n).
Proof.
  intros n []. constructor.
  - apply zs_expr; assumption.
  - apply zs_infix; assumption.
  - apply zs_prefix; assumption.
  - apply zs_map; assumption.
  - apply zs_binary; assumption.
  - apply zs_call; assumption.
  - apply zs_call_args; assumption.
  - apply zs_call_args_loop; assumption.
  - apply zs_fn; assumption.
  - apply zs_fn_args; assumption.
  - apply zs_block; assumption.
  - apply zs_block_loop; assumption.
  - apply zs_statement; assumption.
  - apply zs_let; assumption.
  - apply zs_assign; assumption.
  - apply zs_return; assumption.
  - apply zs_ctrl.
  - apply zs_if; assumption.
  - apply zs_switch; assumption.
  - apply zs_switch_loop; assumption.
  - apply zs_case_body; assumption.
  - apply zs_case_body_loop; assumption.
  - apply zs_while; assumption.
  - apply zs_for; assumption.
  - apply zs_rows; assumption.
Qed.

Theorem sound_all : forall n, ZALL n.
Proof. induction n; [apply ZALL_0|apply ZALL_S; assumption]. Qed.

End S.

(* ================================================================== *)
(* 3. transfer to parse.New(src).Parse()                               *)
(* ================================================================== *)

Lemma recv_done_closed : forall inp, recv (lex_fuel inp) inp PClosed = Ok (zero_tok, PClosed).
Proof. intros inp. destruct (lex_fuel inp); reflexivity. Qed.
Lemma recv_done_none : forall inp l, recv (lex_fuel inp) inp (PRun [] l None) = Ok (zero_tok, PClosed).
Proof. intros inp l. destruct (lex_fuel inp); reflexivity. Qed.

(* the token list of a drain is a chain of receives that ends in a producer which has nothing
   more to send: the next receive yields the zero token of the closed channel *)
Lemma drain_chain_done : forall inp, 0 <= in_len inp -> (forall i, 0 <= in_get inp i < 256) ->
  forall n p acc ts, Reach inp p -> drain n inp p acc = Ok ts ->
  exists ext p', ts = rev acc ++ ext /\ Chain inp p ext p' /\
                 recv (lex_fuel inp) inp p' = Ok (zero_tok, PClosed).
Proof.
  intros inp Hlen Hrange.
  induction n as [|n IH]; intros p acc ts R H.
  - destruct p as [pend l nx0| |]; cbn [drain] in H; try discriminate.
    + destruct pend as [|t pend]; [|discriminate]. destruct nx0; [discriminate|].
      inversion H; subst. exists [], (PRun [] l None). rewrite app_nil_r.
      split; [reflexivity|]. split; [reflexivity|apply recv_done_none].
    + inversion H; subst. exists [], PClosed. rewrite app_nil_r.
      split; [reflexivity|]. split; [reflexivity|apply recv_done_closed].
  - destruct p as [pend l nx0| |]; cbn [drain] in H; try discriminate.
    + destruct pend as [|t pend].
      * destruct nx0 as [s|].
        -- destruct (lex_step inp s l) as [| |em l' st'] eqn:E; try discriminate.
           destruct (step_reach inp Hlen Hrange l s em l' st' R E) as (R' & _ & _).
           destruct (IH _ _ _ R' H) as (ext & p' & Ets & Ch & Hdone).
           destruct ext as [|t ext].
           ++ cbn [Chain] in Ch. subst p'.
              exists [], (PRun [] l (Some s)). split; [exact Ets|]. split; [reflexivity|].
              apply (recv_after_step inp Hlen Hrange l s em l' st'); assumption.
           ++ exists (t :: ext), p'. split; [exact Ets|]. split; [|exact Hdone].
              cbn [Chain] in Ch |- *. destruct Ch as (p1 & Er & Ch). exists p1. split; [|exact Ch].
              apply (recv_after_step inp Hlen Hrange l s em l' st'); assumption.
        -- inversion H; subst. exists [], (PRun [] l None). rewrite app_nil_r.
           split; [reflexivity|]. split; [reflexivity|apply recv_done_none].
      * destruct (IH _ _ _ (pop_reach inp _ _ _ _ R) H) as (ext & p' & Ets & Ch & Hdone).
        exists (t :: ext), p'. split; [|split; [|exact Hdone]].
        -- rewrite Ets. cbn [rev]. rewrite <- app_assoc. reflexivity.
        -- cbn [Chain]. exists (PRun pend l nx0). split; [|exact Ch].
           unfold lex_fuel. destruct (Z.to_nat (3 * in_len inp + 3)); reflexivity.
    + inversion H; subst. exists [], PClosed. rewrite app_nil_r.
      split; [reflexivity|]. split; [reflexivity|apply recv_done_closed].
Qed.

Lemma Chain_app : forall inp e1 p p1 e2 p2,
  Chain inp p e1 p1 -> Chain inp p1 e2 p2 -> Chain inp p (e1 ++ e2) p2.
Proof.
  intros inp. induction e1 as [|t e1 IH]; intros p p1 e2 p2 H1 H2; cbn [Chain app] in *.
  - subst p1. exact H2.
  - destruct H1 as (q & Er & H1). exists q. split; [exact Er|]. eapply IH; eassumption.
Qed.

Lemma snoc_split : forall (L : list ltoken) z ts te r, L ++ [z] = ts ++ te :: r -> lt_typ te <> lt_typ z ->
  exists r', r = r' ++ [z] /\ L = ts ++ te :: r'.
Proof.
  intros L z ts te r E Hne.
  destruct (@exists_last _ (te :: r) ltac:(discriminate)) as (r0 & x & Er0).
  destruct r0 as [|y r0]; cbn [app] in Er0.
  - inversion Er0; subst. apply app_inj_tail in E. destruct E as [_ E]. subst z. contradiction.
  - inversion Er0; subst. exists r0. change (ts ++ y :: r0 ++ [x]) with (ts ++ (y :: r0) ++ [x]) in E.
    rewrite app_assoc in E. apply app_inj_tail in E. destruct E as [E1 E2]. subst. auto.
Qed.

(* the outcome OProgram comes from a successful p_rows *)
Lemma program_from_rows : forall inp b, r_out (parse_input inp) = OProgram b ->
  exists ps, p_rows inp (parse_fuel inp) [] pstate0 = ROk b ps.
Proof.
  intros inp b H. unfold parse_input in H.
  destruct (p_rows inp (parse_fuel inp) [] pstate0) as [b0 ps|ps| |]; cbn [r_out] in H; try discriminate H.
  - unfold finish in H. destruct (drain_producer inp (prod ps)); cbn [r_out] in H; try discriminate H.
    inversion H; subst. exists ps. reflexivity.
  - unfold finish in H. destruct (drain_producer inp (prod ps)); cbn [r_out] in H; discriminate H.
Qed.

(* Parse accepts only sentences of the grammar: the lexed tokens up to the first EOF token
   derive the returned program *)
Definition C14_sound_weak_statement : Prop :=
  forall bs nodes, r_out (parse_bytes bs) = OProgram (Block nodes) ->
    exists ts teof rest, lex_all (mk_input bs) = Ok (ts ++ teof :: rest) /\
      lt_typ teof = ItemEOF /\ DP nodes ts.

Theorem C14_sound_weak_holds : C14_sound_weak_statement.
Proof.
  intros bs nodes Hout. unfold parse_bytes in Hout. set (inp := mk_input bs) in *.
  pose proof (mk_input_len bs) as Hlen. pose proof (mk_input_range bs) as Hrange. fold inp in Hlen, Hrange.
  destruct (lex_never_panics bs) as (L & HL). fold inp in HL. rewrite HL.
  unfold lex_all in HL.
  destruct (drain_chain_done inp Hlen Hrange _ _ _ _ (Reach0 inp Hlen) HL) as (ext & p' & Eext & Ch & Hdone).
  cbn [rev app] in Eext. subst ext.
  assert (Ch2 : Chain inp producer0 (L ++ [zero_tok]) PClosed).
  { eapply Chain_app; [exact Ch|]. cbn [Chain]. exists PClosed. split; [exact Hdone|reflexivity]. }
  pose proof (Pre_prefetch inp producer0 _ PClosed [] Ch2) as HPre.
  pose proof (q_rows inp _ (bridge_all inp (parse_fuel inp)) [] _ _ HPre) as Hrel.
  destruct (program_from_rows inp _ Hout) as (ps & Hrows). unfold pstate0 in Hrows. rewrite Hrows in Hrel.
  destruct (p_rows inp (parse_fuel inp) [] (mkP PClosed (L ++ [zero_tok]) [])) as [b2 ps2|ps2| |] eqn:Hrows2;
    cbn [relR] in Hrel; try contradiction.
  destruct Hrel as [Eb _]. subst b2.
  assert (Hends : endsT (L ++ [zero_tok])).
  { exists L, zero_tok. split; [reflexivity|]. right. reflexivity. }
  destruct (z_rows inp _ (sound_all inp (parse_fuel inp)) [] PClosed _ [] _ ps2 Hends Hrows2)
    as (nodes' & ts & rest & A1 & Eb & HDn & te & r & Erest & Heof).
  cbn [app] in Eb. inversion Eb; subst nodes'. subst rest.
  destruct A1 as (Ea & _ & _).
  destruct (snoc_split L zero_tok ts te r Ea) as (r' & Er & EL).
  { rewrite Heof. cbn. discriminate. }
  exists ts, te, r'. split; [rewrite EL; reflexivity|]. split; [exact Heof|exact HDn].
Qed.

(* a source whose token stream (up to an EOF token) is no sentence of the grammar is rejected *)
Definition C14_reject_weak_statement : Prop :=
  forall bs, (forall nodes ts teof rest, lex_all (mk_input bs) = Ok (ts ++ teof :: rest) ->
                lt_typ teof = ItemEOF -> ~ DP nodes ts) ->
    r_out (parse_bytes bs) = OError.

Lemma rows_block : forall inp n acc ps b ps', p_rows inp n acc ps = ROk b ps' -> exists l, b = Block l.
Proof.
  intros inp. induction n as [|n IH]; intros acc ps b ps' H; [discriminate H|].
  rewrite p_rows_eq in H. destruct (ppeek inp ps) as [t s| | |]; cbn [bindP] in H; try discriminate H.
  destruct (typ_is t ItemEOF).
  - inversion H; subst. eexists. reflexivity.
  - destruct (p_statement inp n s) as [x s1| | |]; cbn [bindP] in H; try discriminate H.
    eapply IH. exact H.
Qed.

Theorem C14_reject_weak_holds : C14_reject_weak_statement.
Proof.
  intros bs Hno.
  destruct (parse_input_total (mk_input bs) (mk_input_len bs) (mk_input_range bs)) as [(b & Hb)|He]; [|exact He].
  exfalso. destruct (program_from_rows _ _ Hb) as (ps & Hrows).
  destruct (rows_block _ _ _ _ _ _ Hrows) as (nodes & Eb). subst b.
  destruct (C14_sound_weak_holds bs nodes Hb) as (ts & teof & rest & HL & Heof & HD).
  exact (Hno nodes ts teof rest HL Heof HD).
Qed.

(* ---- the lexer sends an EOF token only as its very last token ---- *)
Definition noeof (l : list ltoken) : Prop := Forall (fun t => lt_typ t <> ItemEOF) l.
(* what one state function sends: no EOF, except as the last token before the run ends *)
Definition em_ok (em : list ltoken) (st : option lstate) : Prop :=
  match st with Some _ => noeof em | None => noeof (removelast em) end.

Lemma emit_typ : forall inp l t tk l1, emit inp l t = Ok (tk, l1) -> lt_typ tk = t.
Proof.
  intros inp l t tk l1 H. unfold emit in H. destruct (substr inp (start l) (pos l)); cbn [bindR] in H; try discriminate H.
  inversion H; reflexivity.
Qed.

Lemma word_type_not_eof : forall w, word_type w <> ItemEOF.
Proof.
  intros w. unfold word_type, keyword_of.
  repeat match goal with |- context [if ?b then _ else _] => destruct b end; discriminate.
Qed.

Ltac bm H := match type of H with context [match ?X with _ => _ end] => destruct X eqn:? end.
Ltac leaf H :=
  inversion H; subst; cbn [em_ok removelast]; unfold noeof;
  repeat first [ apply Forall_nil | apply Forall_cons ];
  try match goal with E : emit _ _ ?t = Ok (?tk, _) |- lt_typ ?tk <> _ =>
        rewrite (emit_typ _ _ _ _ _ E); first [ discriminate | apply word_type_not_eof ] end.

Lemma lex_text_eof : forall inp l em l' st', lex_text inp l = LNext em l' st' -> em_ok em st'.
Proof.
  intros inp l em l' st' H.
  unfold lex_text, emit1, emit_open, emit_close, fail1, lift in H.
  repeat (bm H; cbv beta iota zeta in H; try discriminate H); leaf H.
Qed.

Lemma lex_step_eof : forall inp s l em l' st', lex_step inp s l = LNext em l' st' -> em_ok em st'.
Proof.
  intros inp s l em l' st' H. destruct s; cbn [lex_step] in H.
  - apply (lex_text_eof inp l em l' st' H).
  - unfold lex_comment, lift in H. repeat (bm H; cbv beta iota zeta in H; try discriminate H); leaf H.
  - unfold lex_quote, emit1, fail1, lift in H. repeat (bm H; cbv beta iota zeta in H; try discriminate H); leaf H.
  - unfold lex_ident, emit1, fail1, lift in H. repeat (bm H; cbv beta iota zeta in H; try discriminate H); leaf H.
  - unfold lex_number, emit1, lift in H. repeat (bm H; cbv beta iota zeta in H; try discriminate H); leaf H.
Qed.

Definition pgood (p : producer) : Prop :=
  match p with PRun pend _ st => em_ok pend st | _ => True end.

Lemma noeof_removelast : forall l, noeof l -> noeof (removelast l).
Proof.
  unfold noeof. induction l as [|t l IH]; intros H; [exact H|].
  inversion H; subst. destruct l as [|t2 l]; [constructor|].
  change (removelast (t :: t2 :: l)) with (t :: removelast (t2 :: l)). constructor; [assumption|apply IH; assumption].
Qed.
Lemma noeof_rev : forall l, noeof l -> noeof (rev l).
Proof. unfold noeof. intros l H. apply Forall_rev. exact H. Qed.

Lemma drain_eof_last : forall inp n p acc ts, drain n inp p acc = Ok ts -> pgood p -> noeof acc ->
  noeof (removelast ts).
Proof.
  intros inp. induction n as [|n IH]; intros p acc ts H Hg Ha.
  - destruct p as [pend l st| |]; cbn [drain] in H; try discriminate H.
    + destruct pend as [|t pend]; [|discriminate H]. destruct st; [discriminate H|].
      inversion H; subst. apply noeof_removelast, noeof_rev. exact Ha.
    + inversion H; subst. apply noeof_removelast, noeof_rev. exact Ha.
  - destruct p as [pend l st| |]; cbn [drain] in H; try discriminate H.
    + destruct pend as [|t pend].
      * destruct st as [s|].
        -- destruct (lex_step inp s l) as [| |em l' st'] eqn:E; try discriminate H.
           apply (IH _ _ _ H); [|exact Ha]. cbn [pgood]. apply (lex_step_eof inp s l em l' st' E).
        -- inversion H; subst. apply noeof_removelast, noeof_rev. exact Ha.
      * cbn [pgood] in Hg.
        destruct pend as [|t2 pend].
        -- (* the last pending token *)
           destruct st as [s|].
           ++ cbn [em_ok] in Hg. apply (IH _ _ _ H); [cbn [pgood em_ok]; constructor|].
              inversion Hg; subst. constructor; assumption.
           ++ (* the run has ended: [t] is the last token of the stream *)
              assert (Ets : ts = rev acc ++ [t]) by (destruct n; cbn [drain] in H; inversion H; reflexivity).
              subst ts. rewrite removelast_last. apply noeof_rev. exact Ha.
        -- assert (Ht : lt_typ t <> ItemEOF /\ em_ok (t2 :: pend) st).
           { destruct st as [s|]; cbn [em_ok] in Hg |- *.
             - inversion Hg; subst. split; assumption.
             - change (removelast (t :: t2 :: pend)) with (t :: removelast (t2 :: pend)) in Hg.
               inversion Hg; subst. split; assumption. }
           destruct Ht as [Ht Hg2]. apply (IH _ _ _ H); [exact Hg2|]. constructor; assumption.
    + inversion H; subst. apply noeof_removelast, noeof_rev. exact Ha.
Qed.

Theorem lex_eof_last : forall inp L, lex_all inp = Ok L -> noeof (removelast L).
Proof.
  intros inp L H. unfold lex_all in H.
  apply (drain_eof_last inp _ _ _ _ H); [|constructor]. cbn. constructor.
Qed.

(* ---- C14, soundness: Parse accepts only sentences of the grammar ---- *)
Definition C14_sound_statement : Prop :=
  forall bs nodes, r_out (parse_bytes bs) = OProgram (Block nodes) ->
    exists ts teof, lex_all (mk_input bs) = Ok (ts ++ [teof]) /\ lt_typ teof = ItemEOF /\ DP nodes ts.

Theorem C14_sound_holds : C14_sound_statement.
Proof.
  intros bs nodes Hout.
  destruct (C14_sound_weak_holds bs nodes Hout) as (ts & teof & rest & HL & Heof & HD).
  exists ts, teof. split; [|split; assumption].
  destruct rest as [|t2 rest]; [exact HL|]. exfalso.
  pose proof (lex_eof_last _ _ HL) as Hn.
  rewrite removelast_app in Hn by discriminate.
  change (removelast (teof :: t2 :: rest)) with (teof :: removelast (t2 :: rest)) in Hn.
  unfold noeof in Hn. apply Forall_app in Hn. destruct Hn as [_ Hn]. inversion Hn; subst. contradiction.
Qed.

(* a source whose token stream is no sentence of the grammar - a missing terminator, bracket or
   keyword part - is rejected with an error (never a crash, never a program) *)
Definition C14_reject_statement : Prop :=
  forall bs, (forall nodes ts teof, lex_all (mk_input bs) = Ok (ts ++ [teof]) -> ~ DP nodes ts) ->
    r_out (parse_bytes bs) = OError.

Theorem C14_reject_holds : C14_reject_statement.
Proof.
  intros bs Hno.
  destruct (parse_input_total (mk_input bs) (mk_input_len bs) (mk_input_range bs)) as [(b & Hb)|He]; [|exact He].
  exfalso. destruct (program_from_rows _ _ Hb) as (ps & Hrows).
  destruct (rows_block _ _ _ _ _ _ Hrows) as (nodes & Eb). subst b.
  destruct (C14_sound_holds bs nodes Hb) as (ts & teof & HL & Heof & HD).
  exact (Hno nodes ts teof HL HD).
Qed.

(* the tokens before the final EOF contain no EOF token; an accepted source ends with EOF *)
Lemma lex_body_noeof : forall inp ts te, lex_all inp = Ok (ts ++ [te]) -> noeof ts.
Proof. intros inp ts te H. pose proof (lex_eof_last _ _ H) as Hn. rewrite removelast_last in Hn. exact Hn. Qed.

(* ================================================================== *)
(* 4. consequences                                                     *)
(* ================================================================== *)
Scheme DE_mi := Minimality for DE Sort Prop
  with DB_mi := Minimality for DB Sort Prop
  with DArgs_mi := Minimality for DArgs Sort Prop
  with DArgsT_mi := Minimality for DArgsT Sort Prop
  with DEntry_mi := Minimality for DEntry Sort Prop
  with DEntries_mi := Minimality for DEntries Sort Prop
  with DBlock_mi := Minimality for DBlock Sort Prop
  with DNodes_mi := Minimality for DNodes Sort Prop
  with DNode_mi := Minimality for DNode Sort Prop
  with DStmt_mi := Minimality for DStmt Sort Prop
  with DForInit_mi := Minimality for DForInit Sort Prop
  with DForPost_mi := Minimality for DForPost Sort Prop
  with DCases_mi := Minimality for DCases Sort Prop.
Combined Scheme D_mutind from DE_mi, DB_mi, DArgs_mi, DArgsT_mi, DEntry_mi, DEntries_mi, DBlock_mi,
  DNodes_mi, DNode_mi, DStmt_mi, DForInit_mi, DForPost_mi, DCases_mi.

(* ---- a. bracket balance ---- *)
Inductive bkind := BParen | BSquare | BBrace.
Definition dtyp (k : bkind) (ty : toktype) : Z :=
  match k, ty with
  | BParen, ItemLeftParen => 1 | BParen, ItemRightParen => -1
  | BSquare, ItemLeftSquareParen => 1 | BSquare, ItemRightSquareParen => -1
  | BBrace, ItemLeftBrace => 1 | BBrace, ItemRightBrace => -1
  | _, _ => 0
  end.
(* opening minus closing brackets of kind [k] *)
Fixpoint bal (k : bkind) (ts : list ltoken) : Z :=
  match ts with [] => 0 | t :: r => dtyp k (lt_typ t) + bal k r end.
Definition closes (k0 k : bkind) : Z :=
  match k0, k with BParen, BParen | BSquare, BSquare | BBrace, BBrace => -1 | _, _ => 0 end.

Lemma bal_app : forall k a b, bal k (a ++ b) = bal k a + bal k b.
Proof. intros k a b. induction a as [|t a IH]; cbn [app bal]; [reflexivity|]. rewrite IH. lia. Qed.

Lemma infix_binary_dtyp : forall k ty, infix_of ty = Some IfBinary -> dtyp k ty = 0.
Proof. intros k ty H. destruct ty; try discriminate H; destruct k; reflexivity. Qed.
Lemma ctrl_dtyp : forall k ty c, ctrl_of ty = Some c -> dtyp k ty = 0.
Proof. intros k ty c H. destruct ty; try discriminate H; destruct k; reflexivity. Qed.

Ltac balt :=
  intros;
  repeat match goal with
         | H : _ \/ _ |- _ => destruct H
         end;
  repeat first [ rewrite bal_app in * | progress cbn [bal app] in * ];
  repeat match goal with
         | H : infix_of (lt_typ ?t) = Some IfBinary |- _ => rewrite (infix_binary_dtyp _ _ H); clear H
         | H : ctrl_of (lt_typ ?t) = Some _ |- _ => rewrite (ctrl_dtyp _ _ _ H); clear H
         | H : lt_typ ?t = _ |- context [dtyp _ (lt_typ ?t)] => rewrite H
         | H : lt_typ ?t = _, H2 : context [dtyp _ (lt_typ ?t)] |- _ => rewrite H in H2
         end;
  cbn [dtyp closes] in *; lia.

Lemma DParams_bal : forall k ps ts, DParams ps ts -> bal k ts = closes BParen k.
Proof. intros k ps ts H. induction H; destruct k; balt. Qed.

Lemma D_bal : forall k,
  (forall m e ts, DE m e ts -> bal k ts = 0) /\
  (forall e ts, DB e ts -> bal k ts = 0) /\
  (forall es ts, DArgs es ts -> bal k ts = closes BParen k) /\
  (forall es ts, DArgsT es ts -> bal k ts = closes BParen k) /\
  (forall ko e ts, DEntry ko e ts -> bal k ts = 0) /\
  (forall es ts, DEntries es ts -> bal k ts = closes BSquare k) /\
  (forall b ts, DBlock b ts -> bal k ts = 0) /\
  (forall xs ts, DNodes xs ts -> bal k ts = 0) /\
  (forall x ts, DNode x ts -> bal k ts = 0) /\
  (forall s ts, DStmt s ts -> bal k ts = 0) /\
  (forall s ts, DForInit s ts -> bal k ts = 0) /\
  (forall s ts, DForPost s ts -> bal k ts = 0) /\
  (forall es ts, DCases es ts -> bal k ts = closes BBrace k).
Proof.
  intros k.
  apply (D_mutind
    (fun _ _ ts => bal k ts = 0) (fun _ ts => bal k ts = 0)
    (fun _ ts => bal k ts = closes BParen k) (fun _ ts => bal k ts = closes BParen k)
    (fun _ _ ts => bal k ts = 0) (fun _ ts => bal k ts = closes BSquare k)
    (fun _ ts => bal k ts = 0) (fun _ ts => bal k ts = 0) (fun _ ts => bal k ts = 0)
    (fun _ ts => bal k ts = 0) (fun _ ts => bal k ts = 0) (fun _ ts => bal k ts = 0)
    (fun _ ts => bal k ts = closes BBrace k));
  intros;
  repeat match goal with H : DParams _ _ |- _ => apply (DParams_bal k) in H end;
  destruct k; balt.
Qed.

(* number of tokens of a type *)
Definition cnt (ty : toktype) (ts : list ltoken) : nat :=
  List.length (filter (fun t => typ_is t ty) ts).

Lemma cnt_cons : forall ty t ts, cnt ty (t :: ts) = ((if typ_is t ty then 1 else 0) + cnt ty ts)%nat.
Proof. intros ty t ts. unfold cnt. cbn [filter]. destruct (typ_is t ty); reflexivity. Qed.

Lemma bal_cnt : forall k ts,
  bal k ts =
  match k with
  | BParen => Z.of_nat (cnt ItemLeftParen ts) - Z.of_nat (cnt ItemRightParen ts)
  | BSquare => Z.of_nat (cnt ItemLeftSquareParen ts) - Z.of_nat (cnt ItemRightSquareParen ts)
  | BBrace => Z.of_nat (cnt ItemLeftBrace ts) - Z.of_nat (cnt ItemRightBrace ts)
  end.
Proof.
  intros k ts. induction ts as [|t ts IH]; [destruct k; reflexivity|].
  cbn [bal]. rewrite IH. destruct k; rewrite !cnt_cons; unfold typ_is; destruct (lt_typ t); cbn [dtyp];
    repeat match goal with |- context [toktype_eqb ?a ?b] => change (toktype_eqb a b) with true || change (toktype_eqb a b) with false end;
    cbv iota; lia.
Qed.

(* a derivable program has as many opening as closing brackets of each kind *)
Definition C14_balance_statement : Prop :=
  forall nodes ts, DP nodes ts ->
    cnt ItemLeftParen ts = cnt ItemRightParen ts /\
    cnt ItemLeftSquareParen ts = cnt ItemRightSquareParen ts /\
    cnt ItemLeftBrace ts = cnt ItemRightBrace ts.
Theorem C14_balance_holds : C14_balance_statement.
Proof.
  intros nodes ts H.
  pose proof (proj1 (proj2 (proj2 (proj2 (proj2 (proj2 (proj2 (proj2 (D_bal BParen)))))))) _ _ H) as H1.
  pose proof (proj1 (proj2 (proj2 (proj2 (proj2 (proj2 (proj2 (proj2 (D_bal BSquare)))))))) _ _ H) as H2.
  pose proof (proj1 (proj2 (proj2 (proj2 (proj2 (proj2 (proj2 (proj2 (D_bal BBrace)))))))) _ _ H) as H3.
  rewrite bal_cnt in H1, H2, H3. lia.
Qed.

Lemma DP_bal : forall k nodes ts, DP nodes ts -> bal k ts = 0.
Proof. intros k nodes ts H. exact (proj1 (proj2 (proj2 (proj2 (proj2 (proj2 (proj2 (proj2 (D_bal k)))))))) _ _ H). Qed.

(* Parse accepted the source: its tokens before the final EOF derive the program *)
Lemma accepted_derives : forall bs b ts teof, r_out (parse_bytes bs) = OProgram b ->
  lex_all (mk_input bs) = Ok (ts ++ [teof]) -> exists nodes, b = Block nodes /\ DP nodes ts.
Proof.
  intros bs b ts teof Hb HL.
  destruct (program_from_rows _ _ Hb) as (ps & Hrows).
  destruct (rows_block _ _ _ _ _ _ Hrows) as (nodes & Eb). subst b.
  destruct (C14_sound_holds bs nodes Hb) as (ts0 & teof0 & HL0 & _ & HD).
  rewrite HL in HL0. inversion HL0 as [E]. apply app_inj_tail in E. destruct E as [E _]. subst ts0.
  exists nodes. split; [reflexivity|exact HD].
Qed.
Lemma not_accepted_error : forall bs, (forall b, r_out (parse_bytes bs) <> OProgram b) ->
  r_out (parse_bytes bs) = OError.
Proof.
  intros bs H.
  destruct (parse_input_total (mk_input bs) (mk_input_len bs) (mk_input_range bs)) as [(b & Hb)|He]; [|exact He].
  destruct (H b Hb).
Qed.

Definition same_tok (x y : ltoken) : Prop := lt_typ x = lt_typ y /\ lt_val x = lt_val y.
Definition is_bracket (ty : toktype) : Prop :=
  ty = ItemLeftParen \/ ty = ItemRightParen \/ ty = ItemLeftSquareParen \/
  ty = ItemRightSquareParen \/ ty = ItemLeftBrace \/ ty = ItemRightBrace.

Lemma bal_same : forall k a b, Forall2 same_tok a b -> bal k a = bal k b.
Proof. intros k a b H. induction H as [|x y a b [Hx _] _ IH]; cbn [bal]; [reflexivity|]. rewrite Hx, IH. reflexivity. Qed.

(* if Parse accepts a source, every source whose token stream is that one with ONE bracket
   token deleted - at any position - is rejected with an error *)
Definition C14_missing_bracket_statement : Prop :=
  forall bs bs' b ts teof ts' teof' pre t post,
    r_out (parse_bytes bs) = OProgram b ->
    lex_all (mk_input bs) = Ok (ts ++ [teof]) ->
    lex_all (mk_input bs') = Ok (ts' ++ [teof']) ->
    ts = pre ++ t :: post -> is_bracket (lt_typ t) ->
    Forall2 same_tok ts' (pre ++ post) ->
    r_out (parse_bytes bs') = OError.

Theorem C14_missing_bracket_holds : C14_missing_bracket_statement.
Proof.
  intros bs bs' b ts teof ts' teof' pre t post Hb HL HL' Ets Hbr Hsame.
  apply not_accepted_error. intros b' Hb'.
  destruct (accepted_derives _ _ _ _ Hb HL) as (nodes & _ & HD).
  destruct (accepted_derives _ _ _ _ Hb' HL') as (nodes' & _ & HD').
  assert (Hk : forall k, dtyp k (lt_typ t) = 0).
  { intros k. pose proof (DP_bal k _ _ HD) as B1. pose proof (DP_bal k _ _ HD') as B2.
    rewrite (bal_same k _ _ Hsame) in B2. subst ts. rewrite bal_app in B1, B2. cbn [bal] in B1. lia. }
  destruct Hbr as [E|[E|[E|[E|[E|E]]]]]; rewrite E in Hk.
  - specialize (Hk BParen). discriminate Hk.
  - specialize (Hk BParen). discriminate Hk.
  - specialize (Hk BSquare). discriminate Hk.
  - specialize (Hk BSquare). discriminate Hk.
  - specialize (Hk BBrace). discriminate Hk.
  - specialize (Hk BBrace). discriminate Hk.
Qed.

(* the same for an inserted (stray) bracket token *)
Definition C14_stray_bracket_statement : Prop :=
  forall bs bs' b ts teof ts' teof' pre t post,
    r_out (parse_bytes bs) = OProgram b ->
    lex_all (mk_input bs) = Ok (ts ++ [teof]) ->
    lex_all (mk_input bs') = Ok (ts' ++ [teof']) ->
    ts = pre ++ post -> is_bracket (lt_typ t) ->
    Forall2 same_tok ts' (pre ++ t :: post) ->
    r_out (parse_bytes bs') = OError.
Theorem C14_stray_bracket_holds : C14_stray_bracket_statement.
Proof.
  intros bs bs' b ts teof ts' teof' pre t post Hb HL HL' Ets Hbr Hsame.
  apply not_accepted_error. intros b' Hb'.
  destruct (accepted_derives _ _ _ _ Hb HL) as (nodes & _ & HD).
  destruct (accepted_derives _ _ _ _ Hb' HL') as (nodes' & _ & HD').
  assert (Hk : forall k, dtyp k (lt_typ t) = 0).
  { intros k. pose proof (DP_bal k _ _ HD) as B1. pose proof (DP_bal k _ _ HD') as B2.
    rewrite (bal_same k _ _ Hsame) in B2. subst ts. rewrite bal_app in B1, B2. cbn [bal] in B2. lia. }
  destruct Hbr as [E|[E|[E|[E|[E|E]]]]]; rewrite E in Hk.
  - specialize (Hk BParen). discriminate Hk.
  - specialize (Hk BParen). discriminate Hk.
  - specialize (Hk BSquare). discriminate Hk.
  - specialize (Hk BSquare). discriminate Hk.
  - specialize (Hk BBrace). discriminate Hk.
  - specialize (Hk BBrace). discriminate Hk.
Qed.

(* ---- b. a non-empty program ends with ';' or '}' ---- *)
Definition ends_with (P : toktype -> Prop) (ts : list ltoken) : Prop :=
  exists ts' t, ts = ts' ++ [t] /\ P (lt_typ t).
Definition is_rbrace (ty : toktype) : Prop := ty = ItemRightBrace.
Definition is_semi_or_rbrace (ty : toktype) : Prop := ty = ItemTerminateLine \/ ty = ItemRightBrace.

Lemma ends_single : forall (P : toktype -> Prop) t, P (lt_typ t) -> ends_with P [t].
Proof. intros P t H. exists [], t. auto. Qed.
Lemma ends_cons : forall P t ts, ends_with P ts -> ends_with P (t :: ts).
Proof. intros P t ts (ts' & x & E & H). exists (t :: ts'), x. subst ts. auto. Qed.
Lemma ends_app_r : forall P a ts, ends_with P ts -> ends_with P (a ++ ts).
Proof. intros P a ts (ts' & x & E & H). exists (a ++ ts'), x. subst ts. rewrite app_assoc. auto. Qed.
Lemma ends_weaken : forall ts, ends_with is_rbrace ts -> ends_with is_semi_or_rbrace ts.
Proof. intros ts (ts' & x & E & H). exists ts', x. split; [exact E|right; exact H]. Qed.

Ltac endt := repeat first [ apply ends_single | apply ends_cons | apply ends_app_r ]; try assumption.

Lemma D_ends :
  (forall b ts, DBlock b ts -> ends_with is_rbrace ts) /\
  (forall xs ts, DNodes xs ts -> ts <> [] -> ends_with is_semi_or_rbrace ts) /\
  (forall x ts, DNode x ts -> ends_with is_semi_or_rbrace ts) /\
  (forall s ts, DStmt s ts -> is_stmt_semi s = false -> ends_with is_rbrace ts) /\
  (forall es ts, DCases es ts -> ends_with is_rbrace ts).
Proof.
  assert (H := D_mutind
    (fun _ _ _ => True) (fun _ _ => True) (fun _ _ => True) (fun _ _ => True) (fun _ _ _ => True)
    (fun _ _ => True)
    (fun _ ts => ends_with is_rbrace ts)
    (fun _ ts => ts <> [] -> ends_with is_semi_or_rbrace ts)
    (fun _ ts => ends_with is_semi_or_rbrace ts)
    (fun s ts => is_stmt_semi s = false -> ends_with is_rbrace ts)
    (fun _ _ => True) (fun _ _ => True)
    (fun _ ts => ends_with is_rbrace ts)).
  cbv beta in H.
  match type of H with ?A -> _ => assert (H1 : A) end; [intros; exact I|specialize (H H1); clear H1].
  repeat (match type of H with ?A -> _ => assert (H1 : A) by (intros; exact I); specialize (H H1); clear H1 end).
  (* DBl *)
  match type of H with ?A -> _ => assert (H1 : A); [|specialize (H H1); clear H1] end.
  { intros. endt. }
  (* DN_nil, DN_cons *)
  match type of H with ?A -> _ => assert (H1 : A); [|specialize (H H1); clear H1] end.
  { intros Hne. destruct (Hne eq_refl). }
  match type of H with ?A -> _ => assert (H1 : A); [|specialize (H H1); clear H1] end.
  { intros x tx xs ts Hx IHx Hxs IHxs _. destruct ts as [|t ts]; [rewrite app_nil_r; exact IHx|].
    apply ends_app_r. apply IHxs. discriminate. }
  (* DNode_expr, DNode_semi, DNode_plain *)
  match type of H with ?A -> _ => assert (H1 : A); [|specialize (H H1); clear H1] end.
  { intros. apply ends_app_r, ends_single. left. assumption. }
  match type of H with ?A -> _ => assert (H1 : A); [|specialize (H H1); clear H1] end.
  { intros. apply ends_app_r, ends_single. left. assumption. }
  match type of H with ?A -> _ => assert (H1 : A); [|specialize (H H1); clear H1] end.
  { intros. apply ends_weaken. auto. }
  (* the statements *)
  repeat (match type of H with ?A -> _ =>
            assert (H1 : A) by (intros; try discriminate; endt; auto using if_or_blk_plain);
            specialize (H H1); clear H1 end).
  destruct H as (_ & _ & _ & _ & _ & _ & Hb & Hn & Hx & Hs & _ & _ & Hc).
  repeat split; assumption.
Qed.

(* a source whose last token before EOF is neither ';' nor '}' is rejected *)
Definition C14_final_terminator_statement : Prop :=
  (forall nodes ts, DP nodes ts -> ts <> [] -> ends_with is_semi_or_rbrace ts) /\
  (forall bs ts teof, lex_all (mk_input bs) = Ok (ts ++ [teof]) -> ts <> [] ->
     ~ ends_with is_semi_or_rbrace ts -> r_out (parse_bytes bs) = OError).
Theorem C14_final_terminator_holds : C14_final_terminator_statement.
Proof.
  split.
  - intros nodes ts H Hne. exact (proj1 (proj2 D_ends) _ _ H Hne).
  - intros bs ts teof HL Hne Hno. apply not_accepted_error. intros b Hb.
    destruct (accepted_derives _ _ _ _ Hb HL) as (nodes & _ & HD).
    apply Hno. exact (proj1 (proj2 D_ends) _ _ HD Hne).
Qed.

(* ---- c. shapes of single statements ---- *)
Definition C14_shapes_statement : Prop :=
  (forall id e ts, DStmt (SLet id e) ts ->
     exists t0 t1 t2 te, ts = t0 :: t1 :: t2 :: te /\ lt_typ t0 = KeywordLet /\
       lt_typ t1 = ItemIdentifier /\ id = tk t1 /\ lt_typ t2 = ItemAssign /\ DE 1 e te) /\
  (forall id e ts, DStmt (SAssign id e) ts ->
     exists t1 t2 te, ts = t1 :: t2 :: te /\ lt_typ t1 = ItemIdentifier /\ id = tk t1 /\
       lt_typ t2 = ItemAssign /\ DE 1 e te) /\
  (forall b ts, DBlock b ts ->
     exists tl body tr nodes, ts = tl :: body ++ [tr] /\ lt_typ tl = ItemLeftBrace /\
       lt_typ tr = ItemRightBrace /\ b = Block nodes /\ DNodes nodes body) /\
  (forall c b els ts, DStmt (SIf c b els) ts ->
     exists tif tc tb rest, ts = tif :: tc ++ tb ++ rest /\ lt_typ tif = KeywordIf /\ DE 1 c tc /\
       DBlock b tb /\
       (match els with
        | SNil => rest = []
        | _ => exists telse tels, rest = telse :: tels /\ lt_typ telse = KeywordElse /\ DStmt els tels
        end)) /\
  (forall m e ts, DE m e ts -> ts <> []).
Theorem C14_shapes_holds : C14_shapes_statement.
Proof.
  split; [|split; [|split; [|split]]].
  - intros id e ts H. inversion H; subst. eexists _, _, _, _. repeat split; eauto.
  - intros id e ts H. inversion H; subst. eexists _, _, _. repeat split; eauto.
  - intros b ts H. inversion H; subst. eexists _, _, _, _. repeat split; eauto.
  - intros c b els ts H. inversion H; subst.
    + exists tif, tc, tb, []. rewrite app_nil_r. repeat split; auto.
    + exists tif, tc, tb, (telse :: tels). repeat split; auto.
      destruct els; try contradiction; eauto.
  - intros m e ts H.
    assert (G : (forall m e ts, DE m e ts -> ts <> []) /\ (forall e ts, DB e ts -> ts <> [])).
    { assert (K := D_mutind
        (fun _ _ ts => ts <> []) (fun _ ts => ts <> []) (fun _ _ => True) (fun _ _ => True)
        (fun _ _ _ => True) (fun _ _ => True) (fun _ _ => True) (fun _ _ => True) (fun _ _ => True)
        (fun _ _ => True) (fun _ _ => True) (fun _ _ => True) (fun _ _ => True)).
      cbv beta in K.
      repeat (match type of K with ?A -> _ =>
                assert (K1 : A) by (intros; try exact I; try discriminate; auto;
                                    match goal with |- ?a ++ _ <> [] => destruct a; [contradiction|discriminate] end);
                specialize (K K1); clear K1 end).
      destruct K as (K1 & K2 & _). split; assumption. }
    exact (proj1 G _ _ _ H).
Qed.

(* the first token of an expression has a prefix parse function *)
Lemma DE_first : forall m e ts, DE m e ts ->
  exists t r, ts = t :: r /\ prefix_of (lt_typ t) <> None.
Proof.
  assert (K := D_mutind
    (fun _ _ ts => exists t r, ts = t :: r /\ prefix_of (lt_typ t) <> None)
    (fun _ ts => exists t r, ts = t :: r /\ prefix_of (lt_typ t) <> None)
    (fun _ _ => True) (fun _ _ => True)
    (fun _ _ _ => True) (fun _ _ => True) (fun _ _ => True) (fun _ _ => True) (fun _ _ => True)
    (fun _ _ => True) (fun _ _ => True) (fun _ _ => True) (fun _ _ => True)).
  cbv beta in K.
  repeat (match type of K with ?A -> _ =>
            assert (K1 : A) by
              (intros; try exact I;
               repeat match goal with
                      | H : _ \/ _ |- _ => destruct H
                      | H : exists t r, _ /\ _ |- _ => destruct H as (? & ? & ? & ?); subst
                      end;
               eexists; eexists; (split; [cbn [app]; reflexivity|]);
               first [ assumption
                     | match goal with H : lt_typ ?t = _ |- prefix_of (lt_typ ?t) <> None => rewrite H; discriminate end ]);
            specialize (K K1); clear K1 end).
  destruct K as (K1 & _). exact K1.
Qed.

(* a statement that begins with `let` is `let identifier = expression ;` - a source that
   begins with `let` but lacks the identifier or the '=' is rejected *)
Lemma DNode_let : forall x t0 r, DNode x (t0 :: r) -> lt_typ t0 = KeywordLet ->
  exists t1 t2 r', r = t1 :: t2 :: r' /\ lt_typ t1 = ItemIdentifier /\ lt_typ t2 = ItemAssign.
Proof.
  intros x t0 r H Hlet.
  assert (Hexpr : forall m e ts, DE m e (t0 :: ts) -> False).
  { intros m e ts HD. destruct (DE_first _ _ _ HD) as (t & r0 & E & Hp). inversion E; subst t.
    rewrite Hlet in Hp. apply Hp. reflexivity. }
  assert (Hstmt : forall s ts, DStmt s (t0 :: ts) ->
            exists t1 t2 r', ts = t1 :: t2 :: r' /\ lt_typ t1 = ItemIdentifier /\ lt_typ t2 = ItemAssign).
  { intros s ts HS. inversion HS; subst; try congruence.
    - eexists _, _, _. split; [reflexivity|]. split; assumption.
    - match goal with Hc : ctrl_of (lt_typ t0) = Some _ |- _ => rewrite Hlet in Hc; discriminate Hc end.
    - match goal with Hb : DBlock _ (t0 :: _) |- _ => inversion Hb; subst; congruence end. }
  inversion H as [e ts tsemi HD Hfn Hsemi E1 E2|s ts tsemi HS Hss Hsemi E1 E2|s ts HS Hss E1 E2]; subst.
  - destruct ts as [|t ts]; cbn [app] in E2; inversion E2; subst; [congruence|]. destruct (Hexpr _ _ _ HD).
  - destruct ts as [|t ts]; cbn [app] in E2; inversion E2; subst; [congruence|].
    destruct (Hstmt _ _ HS) as (t1 & t2 & r' & E & Hi1 & Hi2). subst ts.
    exists t1, t2, (r' ++ [tsemi]). auto.
  - destruct (Hstmt _ _ HS) as (t1 & t2 & r' & E & Hi1 & Hi2). eauto.
Qed.

Definition C14_let_parts_statement : Prop :=
  forall bs ts teof t0 t1 t2 r, lex_all (mk_input bs) = Ok (ts ++ [teof]) ->
    ts = t0 :: t1 :: t2 :: r -> lt_typ t0 = KeywordLet ->
    (lt_typ t1 <> ItemIdentifier \/ lt_typ t2 <> ItemAssign) ->
    r_out (parse_bytes bs) = OError.
Theorem C14_let_parts_holds : C14_let_parts_statement.
Proof.
  intros bs ts teof t0 t1 t2 r HL Ets Hlet Hbad. apply not_accepted_error. intros b Hb.
  destruct (accepted_derives _ _ _ _ Hb HL) as (nodes & _ & HD). subst ts.
  unfold DP in HD. inversion HD as [|x tx xs ts2 Hx Hxs E1 E2]; subst.
  destruct (proj1 (proj2 (proj2 D_ends)) _ _ Hx) as (tx' & tlast & Etx & _).
  destruct tx as [|t tx0]; [destruct tx'; discriminate Etx|].
  cbn [app] in E2. inversion E2; subst t.
  destruct (DNode_let _ _ _ Hx Hlet) as (u1 & u2 & r' & Er & Hi1 & Hi2). subst tx0.
  match goal with E : _ ++ _ = t1 :: t2 :: r |- _ => cbn [app] in E; inversion E; subst end.
  destruct Hbad as [Hb1|Hb2]; contradiction.
Qed.

(* ---- d. a map literal names a field once, a switch has one default ---- *)
Lemma has_key_In : forall (k : string) (m : list (string * expr)), has_key k m = true <-> In k (map fst m).
Proof.
  intros k m. unfold has_key. rewrite existsb_exists. split.
  - intros ([k0 v0] & Hin & E). cbn [fst] in E. unfold string_eqb in E. apply String.eqb_eq in E. subst k0.
    apply (in_map fst) in Hin. exact Hin.
  - intros Hin. apply in_map_iff in Hin. destruct Hin as ([k0 v0] & E & Hin). cbn [fst] in E. subst k0.
    exists (k, v0). split; [exact Hin|apply string_eqb_refl].
Qed.

Lemma fields_set_keys : forall (k : string) (v : expr) m, has_key k m = false -> NoDup (map fst m) ->
  NoDup (map fst (fields_set k v m)).
Proof.
  intros k v m. induction m as [|[k0 v0] r IH]; intros Hk Hnd; cbn [fields_set].
  - cbn. constructor; [intros []|constructor].
  - cbn [has_key existsb fst] in Hk. apply orb_false_iff in Hk. destruct Hk as [Hk0 Hkr]. fold (has_key k r) in Hkr.
    rewrite Hk0. cbn [map fst] in Hnd. inversion Hnd as [|x l Hx Hl]; subst.
    destruct (string_ltb k k0).
    + cbn [map fst]. constructor; [|exact Hnd].
      intros [E|Hin]; [subst k0; rewrite string_eqb_refl in Hk0; discriminate Hk0|].
      apply has_key_In in Hin. rewrite Hin in Hkr. discriminate Hkr.
    + cbn [map fst]. constructor; [|apply IH; assumption].
      intros Hin. apply has_key_In in Hin. rewrite has_key_set in Hin. apply orb_true_iff in Hin.
      destruct Hin as [E|Hin].
      * unfold string_eqb in E. apply String.eqb_eq in E. subst k0. rewrite string_eqb_refl in Hk0. discriminate Hk0.
      * apply has_key_In in Hin. contradiction.
Qed.

Lemma map_fields_keys : forall es f0, NoDup (field_keys es) ->
  (forall k, In k (field_keys es) -> has_key k f0 = false) -> NoDup (map fst f0) ->
  NoDup (map fst (map_fields es f0)).
Proof.
  induction es as [|[[k|] v] es IH]; intros f0 Hnd Hfresh Hf0; [exact Hf0| |].
  - change (map_fields ((Some k, v) :: es) f0) with (map_fields es (fields_set k v f0)).
    change (field_keys ((Some k, v) :: es)) with (k :: field_keys es) in Hnd, Hfresh.
    inversion Hnd as [|x l Hx Hl]; subst.
    apply IH; [exact Hl| |apply fields_set_keys; [apply Hfresh; left; reflexivity|exact Hf0]].
    intros k' Hk'. rewrite has_key_set. apply orb_false_iff. split; [|apply Hfresh; right; exact Hk'].
    destruct (string_eqb k' k) eqn:E; [|reflexivity].
    unfold string_eqb in E. apply String.eqb_eq in E. subst k'. contradiction.
  - change (map_fields ((None, v) :: es) f0) with (map_fields es f0). apply IH; assumption.
Qed.

Lemma sw_default_none : forall es d, default_count es = 0%nat -> sw_default es d = d.
Proof.
  induction es as [|[[c|] b] es IH]; intros d H; [reflexivity| |].
  - change (sw_default ((Some c, b) :: es) d) with (sw_default es d). apply IH. exact H.
  - change (default_count ((None, b) :: es)) with (S (default_count es)) in H. discriminate H.
Qed.
Lemma default_count_In : forall es b, In (None, b) es -> (1 <= default_count es)%nat.
Proof.
  induction es as [|[[c|] b0] es IH]; intros b H; [destruct H| |].
  - destruct H as [E|H]; [discriminate E|]. change (default_count ((Some c, b0) :: es)) with (default_count es). eapply IH; exact H.
  - change (default_count ((None, b0) :: es)) with (S (default_count es)). lia.
Qed.
Lemma sw_default_unique : forall es d b, at_most_one_default es -> In (None, b) es -> sw_default es d = b.
Proof.
  unfold at_most_one_default.
  induction es as [|[[c|] b0] es IH]; intros d b Hc Hin; [destruct Hin| |].
  - destruct Hin as [E|Hin]; [discriminate E|].
    change (sw_default ((Some c, b0) :: es) d) with (sw_default es d). apply IH; assumption.
  - change (default_count ((None, b0) :: es)) with (S (default_count es)) in Hc.
    change (sw_default ((None, b0) :: es) d) with (sw_default es b0).
    assert (Hz : default_count es = 0%nat) by lia. rewrite (sw_default_none _ _ Hz).
    destruct Hin as [E|Hin]; [inversion E; reflexivity|].
    pose proof (default_count_In _ _ Hin). lia.
Qed.

(* a switch statement of the grammar has at most one `default` entry, and the body of that
   entry is the Default of the tree: a source with a second default is no sentence *)
Definition C14_duplicate_default_statement : Prop :=
  forall c cases def ts, DStmt (SSwitch c cases def) ts ->
    exists es tpre tcs, ts = tpre ++ tcs /\ DCases es tcs /\
      cases = sw_cases es /\ def = sw_default es BNil /\ at_most_one_default es /\
      (forall b, In (None, b) es -> def = b).
Theorem C14_duplicate_default_holds : C14_duplicate_default_statement.
Proof.
  intros c cases def ts H.
  inversion H as [| | | | | | | | | |tsw tl es tcs Hsw Hl HD Hone|tsw c0 tc tl es tcs Hsw HDc Hl HD Hone|]; subst.
  - exists es, [tsw; tl], tcs. split; [reflexivity|]. split; [exact HD|]. split; [reflexivity|].
    split; [reflexivity|]. split; [exact Hone|]. intros b Hb. apply sw_default_unique; assumption.
  - exists es, (tsw :: tc ++ [tl]), tcs. split; [cbn [app]; rewrite <- app_assoc; reflexivity|].
    split; [exact HD|]. split; [reflexivity|]. split; [reflexivity|]. split; [exact Hone|].
    intros b Hb. apply sw_default_unique; assumption.
Qed.

(* a map literal of the grammar never names a field twice (in the source and in the tree) *)
Definition C14_duplicate_field_statement : Prop :=
  forall arr fields ts, DB (EMap arr fields) ts ->
    NoDup (map fst fields) /\
    (fields = [] \/ exists es tl tes, ts = tl :: tes /\ DEntries es tes /\ NoDup (field_keys es) /\
                      arr = map_arr es /\ fields = map_fields es []).
Theorem C14_duplicate_field_holds : C14_duplicate_field_statement.
Proof.
  intros arr fields ts H.
  inversion H as [t e Ht Hn| t e Ht Hn| | | | | | |tl tr Hl Hr|tl es tes Hl HD Hnd| ]; subst.
  - unfold number_lit in Hn. destruct (parse_int (lt_val t)); [discriminate Hn|].
    destruct (parse_float (lt_val t)); discriminate Hn.
  - unfold bool_lit in Hn. destruct (string_eqb (lt_val t) "true"); [discriminate Hn|].
    destruct (string_eqb (lt_val t) "false"); discriminate Hn.
  - split; [constructor|left; reflexivity].
  - split.
    + apply map_fields_keys; [exact Hnd|intros k _; reflexivity|constructor].
    + right. exists es, tl, tes. auto.
Qed.

(* ================================================================== *)
(* 5. non-vacuity                                                      *)
(* ================================================================== *)
Definition mkt (k : toktype) (v : string) : ltoken := LT k 0 v 0.
Definition tI (v : string) := mkt ItemIdentifier v.
Definition tN (v : string) := mkt ItemNumber v.
Definition tSemi := mkt ItemTerminateLine ";".
Definition tEq := mkt ItemAssign "=".
Definition tC := mkt ItemComma ",".
Definition tLP := mkt ItemLeftParen "(".
Definition tRP := mkt ItemRightParen ")".
Definition tLS := mkt ItemLeftSquareParen "[".
Definition tRS := mkt ItemRightSquareParen "]".
Definition tLB := mkt ItemLeftBrace "{".
Definition tRB := mkt ItemRightBrace "}".
Definition tCol := mkt ItemColon ":".
Definition tLt := mkt OpLessThan "<".
Definition kFn := mkt KeywordFn "fn".
Definition kReturn := mkt KeywordReturn "return".
Definition kIf := mkt KeywordIf "if".
Definition kElse := mkt KeywordElse "else".
Definition kFor := mkt KeywordFor "for".
Definition kSwitch := mkt KeywordSwitch "switch".
Definition kCase := mkt KeywordCase "case".
Definition kDefault := mkt KeywordDefault "default".
Definition kBreak := mkt KeywordBreak "break".

Definition idt (v : string) : token := Tok ItemIdentifier v.
Definition num (z : Z) (f : float) : expr := ENum z f false.

Lemma dI : forall m v, m < 10 -> DE m (EIdent v) [tI v].
Proof. intros m v H. apply DE_bare; [cbn; lia|apply (DB_ident (tI v)); reflexivity]. Qed.
Lemma dN : forall m v e, m < 10 -> number_lit v = Some e -> DE m e [tN v].
Proof.
  intros m v e H Hn. apply DE_bare; [rewrite (number_lit_level _ _ Hn); lia|].
  apply (DB_num (tN v)); [reflexivity|exact Hn].
Qed.
Lemma dBlock0 : DBlock (Block []) [tLB; tRB].
Proof. apply (DBl tLB [] [] tRB); [reflexivity|apply DN_nil|reflexivity]. Qed.

(* x = [ a = 1 , 2 , b = 3 ] ;      fields and an array element *)
Definition demo_n1 : node :=
  NStmt (SAssign (idt "x") (EMap [num 2 2%float] [("a"%string, num 1 1%float); ("b"%string, num 3 3%float)])).
Definition demo_t1 : list ltoken :=
  [tI "x"; tEq; tLS; tI "a"; tEq; tN "1"; tC; tN "2"; tC; tI "b"; tEq; tN "3"; tRS; tSemi].
Example demo_d1 : DNode demo_n1 demo_t1.
Proof.
  apply (DNode_semi _ [tI "x"; tEq; tLS; tI "a"; tEq; tN "1"; tC; tN "2"; tC; tI "b"; tEq; tN "3"; tRS] tSemi);
    [|reflexivity|reflexivity].
  apply (DS_assign (tI "x") tEq); [reflexivity|reflexivity|].
  apply DE_bare; [cbn; lia|].
  apply (DB_map tLS [(Some "a"%string, num 1 1%float); (None, num 2 2%float); (Some "b"%string, num 3 3%float)]);
    [reflexivity| |].
  - apply (DEs_more (Some "a"%string) (num 1 1%float) [tI "a"; tEq; tN "1"] tC); [|reflexivity|].
    { apply (DEn_field (tI "a") tEq); [reflexivity|reflexivity|apply dN; [lia|reflexivity]]. }
    apply (DEs_more None (num 2 2%float) [tN "2"] tC); [|reflexivity|].
    { apply DEn_elem. apply dN; [lia|reflexivity]. }
    apply (DEs_last (Some "b"%string) (num 3 3%float) [tI "b"; tEq; tN "3"] tRS); [|reflexivity].
    apply (DEn_field (tI "b") tEq); [reflexivity|reflexivity|apply dN; [lia|reflexivity]].
  - cbn. constructor; [intros [E|[]]; discriminate E|]. constructor; [intros []|constructor].
Qed.

(* f = fn ( p , q ) { return ( ( p ) ) ; } ;      a function literal, redundant parentheses *)
Definition demo_n2 : node :=
  NStmt (SAssign (idt "f") (EFuncLit ["p"%string; "q"%string] (Block [NStmt (SReturn (EIdent "p"))]))).
Definition demo_t2 : list ltoken :=
  [tI "f"; tEq; kFn; tLP; tI "p"; tC; tI "q"; tRP; tLB; kReturn; tLP; tLP; tI "p"; tRP; tRP; tSemi; tRB; tSemi].
Example demo_d2 : DNode demo_n2 demo_t2.
Proof.
  apply (DNode_semi _ [tI "f"; tEq; kFn; tLP; tI "p"; tC; tI "q"; tRP; tLB; kReturn; tLP; tLP; tI "p"; tRP; tRP; tSemi; tRB] tSemi);
    [|reflexivity|reflexivity].
  apply (DS_assign (tI "f") tEq); [reflexivity|reflexivity|].
  apply DE_bare; [cbn; lia|].
  apply (DB_fn kFn tLP ["p"%string; "q"%string] [tI "p"; tC; tI "q"; tRP] _
           [tLB; kReturn; tLP; tLP; tI "p"; tRP; tRP; tSemi; tRB]); [reflexivity|reflexivity| |reflexivity|].
  - apply (DPs_more (tI "p") tC (tI "q") ["q"%string] [tRP]); [reflexivity|reflexivity|reflexivity|].
    apply (DPs_last (tI "q") tRP); reflexivity.
  - apply (DBl tLB _ [kReturn; tLP; tLP; tI "p"; tRP; tRP; tSemi] tRB); [reflexivity| |reflexivity].
    apply (DN_cons _ [kReturn; tLP; tLP; tI "p"; tRP; tRP; tSemi] [] []); [|apply DN_nil].
    apply (DNode_semi _ [kReturn; tLP; tLP; tI "p"; tRP; tRP] tSemi); [|reflexivity|reflexivity].
    apply (DS_return kReturn); [reflexivity|].
    apply (DE_paren 1 _ tLP tRP [tLP; tI "p"; tRP]); [reflexivity|reflexivity|].
    apply (DE_paren 1 _ tLP tRP [tI "p"]); [reflexivity|reflexivity|].
    apply dI. lia.
Qed.

(* if x { } else { } *)
Definition demo_n3 : node := NStmt (SIf (EIdent "x") (Block []) (SBlock (Block []))).
Definition demo_t3 : list ltoken := [kIf; tI "x"; tLB; tRB; kElse; tLB; tRB].
Example demo_d3 : DNode demo_n3 demo_t3.
Proof.
  apply DNode_plain; [|reflexivity].
  apply (DS_ifelse kIf _ [tI "x"] _ [tLB; tRB] kElse _ [tLB; tRB]);
    [reflexivity|apply dI; lia|apply dBlock0|reflexivity|exact I|].
  apply DS_block. apply dBlock0.
Qed.

(* for i = 0 ; i < 3 ; { }      init, condition, and the lone ';' before the body *)
Definition demo_n4 : node :=
  NStmt (SFor (SAssign (idt "i") (num 0 0%float))
              (EBinary (EIdent "i") (num 3 3%float) (Tok OpLessThan "<")) SNil (Block [])).
Definition demo_t4 : list ltoken :=
  [kFor; tI "i"; tEq; tN "0"; tSemi; tI "i"; tLt; tN "3"; tSemi; tLB; tRB].
Example demo_d4 : DNode demo_n4 demo_t4.
Proof.
  apply DNode_plain; [|reflexivity].
  apply (DS_for kFor _ [tI "i"; tEq; tN "0"; tSemi] _ [tI "i"; tLt; tN "3"] _ [tSemi] _ [tLB; tRB]);
    [reflexivity| | | |apply dBlock0].
  - apply (DFI_some _ [tI "i"; tEq; tN "0"] tSemi); [|exact I|reflexivity].
    apply (DS_assign (tI "i") tEq); [reflexivity|reflexivity|apply dN; [lia|reflexivity]].
  - apply DE_bare; [cbn; uprec; lia|].
    apply (DB_binary tLt (EIdent "i") (num 3 3%float) [tI "i"] [tN "3"]); [reflexivity| |].
    + apply dI. cbn. uprec. lia.
    + apply dN; [cbn; uprec; lia|reflexivity].
  - apply DFP_semi. reflexivity.
Qed.

(* switch { case y : default : break ; case z : }      cases before and after the default *)
Definition demo_n5 : node :=
  NStmt (SSwitch ENil [Case (EIdent "y") (Block []); Case (EIdent "z") (Block [])]
           (Block [NStmt (SCtrl CtrlBreak)])).
Definition demo_t5 : list ltoken :=
  [kSwitch; tLB; kCase; tI "y"; tCol; kDefault; tCol; kBreak; tSemi; kCase; tI "z"; tCol; tRB].
Example demo_d5 : DNode demo_n5 demo_t5.
Proof.
  apply DNode_plain; [|reflexivity].
  apply (DS_switch0 kSwitch tLB
           [(Some (EIdent "y"), Block []); (None, Block [NStmt (SCtrl CtrlBreak)]); (Some (EIdent "z"), Block [])]);
    [reflexivity|reflexivity| |unfold at_most_one_default; cbn; lia].
  apply (DC_case kCase (EIdent "y") [tI "y"] tCol [] [] _ _); [reflexivity|apply dI; lia|reflexivity|apply DN_nil|].
  apply (DC_default kDefault tCol _ [kBreak; tSemi] _ [kCase; tI "z"; tCol; tRB]); [reflexivity|reflexivity| |].
  - apply (DN_cons _ [kBreak; tSemi] [] []); [|apply DN_nil].
    apply (DNode_semi _ [kBreak] tSemi); [|reflexivity|reflexivity].
    apply (DS_ctrl kBreak). reflexivity.
  - apply (DC_case kCase (EIdent "z") [tI "z"] tCol [] [] _ [tRB]);
      [reflexivity|apply dI; lia|reflexivity|apply DN_nil|apply DC_end; reflexivity].
Qed.

Definition demo_nodes : list node := [demo_n1; demo_n2; demo_n3; demo_n4; demo_n5].
Definition demo_toks : list ltoken := demo_t1 ++ demo_t2 ++ demo_t3 ++ demo_t4 ++ demo_t5.

(* the grammar derives a program with a map literal (fields and an array element), a function
   literal, redundant parentheses, if/else, for with the lone ';' and a switch with cases
   before and after its default - by the constructors alone *)
Example demo_derives : DP demo_nodes demo_toks.
Proof.
  unfold DP, demo_nodes, demo_toks.
  apply DN_cons; [apply demo_d1|]. apply DN_cons; [apply demo_d2|]. apply DN_cons; [apply demo_d3|].
  apply DN_cons; [apply demo_d4|]. rewrite <- (app_nil_r demo_t5). apply DN_cons; [apply demo_d5|apply DN_nil].
Qed.

(* the same program as source text: Parse returns exactly these nodes, hence (soundness) its
   token stream is derivable *)
Definition demo_src : list Z :=
  string_bytes "x = [ a = 1 , 2 , b = 3 ] ; f = fn ( p , q ) { return ( ( p ) ) ; } ;
 if x { } else { }  for i = 0 ; i < 3 ; { }  switch { case y : default : break ; case z : }".
Example demo_parses : r_out (parse_bytes demo_src) = OProgram (Block demo_nodes).
Proof. vm_compute. reflexivity. Qed.
Example demo_sound : exists ts teof,
  lex_all (mk_input demo_src) = Ok (ts ++ [teof]) /\ lt_typ teof = ItemEOF /\ DP demo_nodes ts.
Proof. apply C14_sound_holds. exact demo_parses. Qed.

(* missing pieces are rejected with an error *)
Example demo_missing_rparen : r_out (parse_bytes (string_bytes "y = f ( a , b ; ")) = OError.
Proof. vm_compute. reflexivity. Qed.
Example demo_missing_semi : r_out (parse_bytes (string_bytes "let y = 1  let z = 2 ;")) = OError.
Proof. vm_compute. reflexivity. Qed.
Example demo_missing_rbrace : r_out (parse_bytes (string_bytes "if x { y = 1 ; ")) = OError.
Proof. vm_compute. reflexivity. Qed.
Example demo_missing_rsquare : r_out (parse_bytes (string_bytes "x = [ 1 , 2 ;")) = OError.
Proof. vm_compute. reflexivity. Qed.
Example demo_missing_block : r_out (parse_bytes (string_bytes "while x y = 1 ;")) = OError.
Proof. vm_compute. reflexivity. Qed.

(* a second default in a switch, a repeated field name in a map literal *)
Example demo_duplicate_default :
  r_out (parse_bytes (string_bytes "switch x { default : a ; default : b ; }")) = OError.
Proof. vm_compute. reflexivity. Qed.
Example demo_duplicate_field : r_out (parse_bytes (string_bytes "x = [ a = 1 , a = 2 ] ;")) = OError.
Proof. vm_compute. reflexivity. Qed.
