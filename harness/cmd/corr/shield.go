package main

import (
	"fmt"
	"math"

	"github.com/simimpact/srsim/pkg/engine/event"
	"github.com/simimpact/srsim/pkg/engine/info"
	"github.com/simimpact/srsim/pkg/engine/prop"
	"github.com/simimpact/srsim/pkg/engine/shield"
	"github.com/simimpact/srsim/pkg/key"
	"github.com/simimpact/srsim/pkg/model"

	"verif/harness/term"
)

// ---- a fake attribute.Getter serving chosen stat vectors (real info.Stats values) ----

type shStat struct{ atk, def, hp, boost, taken float64 }

type shAttr struct{ st map[key.TargetID]shStat }

func (a *shAttr) Stats(t key.TargetID) *info.Stats {
	s := a.st[t]
	mods := &info.ModifierState{
		Props:     info.NewPropMap(),
		DebuffRES: info.NewDebuffRESMap(),
		Weakness:  info.NewWeaknessMap(),
		Counts:    make(map[model.StatusType]int),
	}
	mods.Props[prop.ATKBase] = s.atk
	mods.Props[prop.DEFBase] = s.def
	mods.Props[prop.HPBase] = s.hp
	mods.Props[prop.ShieldBoost] = s.boost
	mods.Props[prop.ShieldTaken] = s.taken
	return info.NewStats(t, new(info.Attributes), mods)
}
func (a *shAttr) Stance(key.TargetID) float64              { return 0 }
func (a *shAttr) MaxStance(key.TargetID) float64           { return 0 }
func (a *shAttr) Energy(key.TargetID) float64              { return 0 }
func (a *shAttr) MaxEnergy(key.TargetID) float64           { return 0 }
func (a *shAttr) EnergyRatio(key.TargetID) float64         { return 0 }
func (a *shAttr) HPRatio(key.TargetID) float64             { return 1 }
func (a *shAttr) IsAlive(key.TargetID) bool                { return true }
func (a *shAttr) State(key.TargetID) info.TargetState      { return info.Alive }
func (a *shAttr) FullEnergy(key.TargetID) bool             { return false }
func (a *shAttr) LastAttacker(t key.TargetID) key.TargetID { return t }
func (a *shAttr) SP() int                                  { return 0 }

var shFormula = map[string]model.ShieldFormula{
	"FAtk":         model.ShieldFormula_SHIELD_BY_SHIELDER_ATK,
	"FDef":         model.ShieldFormula_SHIELD_BY_SHIELDER_DEF,
	"FHp":          model.ShieldFormula_SHIELD_BY_SHIELDER_MAX_HP,
	"FTgtHp":       model.ShieldFormula_SHIELD_BY_TARGET_MAX_HP,
	"FTotalShield": model.ShieldFormula_SHIELD_BY_SHIELDER_TOTAL_SHIELD,
	"FInvalid":     model.ShieldFormula_INVALID_SHIELD_FORMULA,
}

func shKey(k int64) key.Shield { return key.Shield(fmt.Sprintf("k%d", k)) }
func shKeyNum(s key.Shield) int64 {
	var k int64
	if _, err := fmt.Sscanf(string(s), "k%d", &k); err != nil {
		panic("unexpected shield key " + string(s))
	}
	return k
}
func shKeyBack(s key.Shield) term.T {
	if s == "" {
		return term.None()
	}
	return term.Some(term.I(shKeyNum(s)))
}

func shStatOf(t term.T) shStat {
	_, a := term.Ctor(t) // mkSt atk def hp boost taken
	return shStat{term.Float(a[0]), term.Float(a[1]), term.Float(a[2]), term.Float(a[3]), term.Float(a[4])}
}

// runShield drives the REAL shield.Manager.  The input is (unit pool, key pool, slots, ops): `slots` holds, per
// event kind of the manager (ShieldAdded, ShieldRemoved, ShieldChange), a queue of scripts; the listener
// subscribed to that event pops the next script and executes its operations ON THE SAME MANAGER while the call
// that emitted the event is still running (re-entrancy).  The recorded trace, in time order:
//
//	TCall o        a call (top-level or nested) is entered
//	TEv e probe    a listener is invoked with event e; probe = IsShielded / MaxShield / HasShield of every unit
//	               and key as the listener sees them, before it does anything
//	TRet r probe   the call returns (r = Some of AbsorbDamage's return value), probe right after the return
func runShield(in term.T) term.T {
	it := term.TupleItems(in)
	nu, nk := int(term.Int(it[0])), int(term.Int(it[1]))
	_, qs := term.Ctor(it[2]) // mkQ added removed change
	qAdded, qRemoved, qChange := term.List(qs[0]), term.List(qs[1]), term.List(qs[2])
	events := &event.System{}
	attr := &shAttr{st: map[key.TargetID]shStat{}}
	mgr := shield.New(events, attr)

	trace := []term.T{}
	probe := func() term.T {
		pr := []term.T{}
		for u := 0; u < nu; u++ {
			has := []term.T{}
			for k := 0; k < nk; k++ {
				has = append(has, term.B(mgr.HasShield(key.TargetID(u), shKey(int64(k)))))
			}
			pr = append(pr, term.Tup(term.B(mgr.IsShielded(key.TargetID(u))), term.F(mgr.MaxShield(key.TargetID(u))), term.L(has...)))
		}
		return term.L(pr...)
	}
	var doOp func(o term.T)
	react := func(q *[]term.T, ev term.T) {
		trace = append(trace, term.C("TEv", ev, probe()))
		if len(*q) == 0 {
			return // exhausted queue: a listener that does nothing
		}
		script := term.List((*q)[0])
		*q = (*q)[1:]
		for _, o := range script {
			doOp(o)
		}
	}
	events.ShieldAdded.Subscribe(func(e event.ShieldAdded) {
		react(&qAdded, term.C("EAdded", term.I(shKeyNum(e.ID)),
			term.I(int64(e.Info.Source)), term.I(int64(e.Info.Target)), term.F(e.Info.ShieldValue), term.F(e.ShieldHealth)))
	})
	events.ShieldRemoved.Subscribe(func(e event.ShieldRemoved) {
		react(&qRemoved, term.C("ERemoved", term.I(shKeyNum(e.ID)), term.I(int64(e.Target))))
	})
	events.ShieldChange.Subscribe(func(e event.ShieldChange) {
		react(&qChange, term.C("EChange", term.I(int64(e.Target)), shKeyBack(e.ID),
			term.F(e.NewHP), term.F(e.OldHP), term.F(e.DamageIn), term.F(e.DamageOut)))
	})

	doOp = func(o term.T) {
		trace = append(trace, term.C("TCall", o))
		ret := term.None()
		name, a := term.Ctor(o)
		switch name {
		case "OStats":
			attr.st[key.TargetID(term.Int(a[0]))] = shStatOf(a[1])
		case "OAdd":
			f := info.ShieldMap{}
			for _, e := range term.List(a[3]) {
				kv := term.TupleItems(e)
				kn, _ := term.Ctor(kv[0])
				fk, ok := shFormula[kn]
				if !ok {
					panic("unknown formula kind " + kn)
				}
				if _, dup := f[fk]; !dup { // first entry wins, as in the model's lookup
					f[fk] = term.Float(kv[1])
				}
			}
			mgr.AddShield(shKey(term.Int(a[0])), info.Shield{
				Source:      key.TargetID(term.Int(a[1])),
				Target:      key.TargetID(term.Int(a[2])),
				BaseShield:  f,
				ShieldValue: term.Float(a[4]),
			})
		case "ORemove":
			mgr.RemoveShield(shKey(term.Int(a[0])), key.TargetID(term.Int(a[1])))
		case "OAbsorb":
			r := mgr.AbsorbDamage(key.TargetID(term.Int(a[0])), term.Float(a[1]))
			ret = term.Some(term.F(r))
		default:
			panic("unknown op " + name)
		}
		trace = append(trace, term.C("TRet", ret, probe()))
	}
	for _, o := range term.List(it[3]) {
		doOp(o)
	}
	return term.C("Ok", term.L(trace...))
}

// ---- generator ----
// A shadow of the documented behaviour (flat: every call atomic, its listeners' calls after it) is kept only to
// aim: damage amounts at the boundaries (exactly a shield's strength, one ulp below/above), listener scripts at
// the unit / key the outer call is working on.  It also decides in which order events occur, so that the script
// generated for an event is the one its listener will pop.  Nothing is compared against it; if the real manager
// emits other events, the scripts are simply popped by other deliveries.

type shShadow struct {
	k  int64
	hp float64
}

func shDim(x, y float64) float64 {
	if v := x - y; v > 0 {
		return v
	}
	return 0
}

type shEv struct {
	kind     string // "added", "removed", "change"
	k        int64  // key (for change: the strongest remaining shield, -1 if none)
	src, tgt int
	later    int // removals the same call has still to announce after this event
}

type shGen struct {
	r        *term.Rng
	nu, nk   int
	stats    []shStat
	shadow   [][]shShadow
	qs       map[string][]term.T
	budget   int // nested operations left for this case
	maxDepth int
	listen   bool
	twins    bool // most shields have one and the same strength: a hit breaks several at once, on every unit
}

var (
	shStatPool  = []float64{0, 50, 80, 100, 100, 1000, 1234.5, 3.25}
	shBonusPool = []float64{0, 0, 0.2, 0.5, 1, -0.25, 0.1}
	shCoefPool  = []float64{0.5, 1, 0.1, 0.25, 2, 0, 0.57, -0.5}
	shFlatPool  = []float64{0, 0, 20, 150, 320, 0.1, -10}
	shKindsAll  = []string{"FAtk", "FDef", "FHp", "FTgtHp", "FTotalShield", "FInvalid"}
)

func (g *shGen) maxOf(u int) float64 {
	m := 0.0
	for _, s := range g.shadow[u] {
		if s.hp > m {
			m = s.hp
		}
	}
	return m
}

func shStatTerm(s shStat) term.T {
	return term.C("mkSt", term.F(s.atk), term.F(s.def), term.F(s.hp), term.F(s.boost), term.F(s.taken))
}

// the four operations: each returns the term and applies the documented effect to the shadow, returning the
// events the call emits (in emission order)
func (g *shGen) opStats(u int) (term.T, []shEv) {
	r := g.r
	g.stats[u] = shStat{term.Pick(r, shStatPool), term.Pick(r, shStatPool), term.Pick(r, shStatPool), term.Pick(r, shBonusPool), term.Pick(r, shBonusPool)}
	if r.Chance(1, 6) {
		g.stats[u].atk = -g.stats[u].atk // statCalc clamps a negative stat at zero
	}
	return term.C("OStats", term.I(int64(u)), shStatTerm(g.stats[u])), nil
}

func (g *shGen) opAdd(k int64, src, tgt int) (term.T, []shEv) {
	r := g.r
	eff := func(x float64) float64 {
		if x < 0 {
			return 0
		}
		return x
	}
	nt := r.Intn(4) // 0..3 formula terms; sometimes all five
	if r.Chance(1, 10) {
		nt = 5
	}
	twin := g.listen && (r.Chance(1, 4) || (g.twins && r.Chance(4, 5))) // flat-only shields of one value: several shields break in one hit
	if twin {
		nt = 0
	}
	used := map[string]bool{}
	f := []term.T{}
	base := 0.0
	terms := map[string]float64{}
	for len(f) < nt {
		kn := term.Pick(r, shKindsAll)
		if used[kn] {
			continue
		}
		used[kn] = true
		co := term.Pick(r, shCoefPool)
		f = append(f, term.Tup(term.C(kn), term.F(co)))
		terms[kn] = co
	}
	for _, kn := range shKindsAll {
		co, ok := terms[kn]
		if !ok {
			continue
		}
		switch kn {
		case "FAtk":
			base += co * eff(g.stats[src].atk)
		case "FDef":
			base += co * eff(g.stats[src].def)
		case "FHp":
			base += co * eff(g.stats[src].hp)
		case "FTgtHp":
			base += co * eff(g.stats[tgt].hp)
		case "FTotalShield":
			base += co * g.maxOf(src)
		}
	}
	flat := term.Pick(r, shFlatPool)
	if twin {
		flat = 20
	}
	hp := (base + flat) * (1 + g.stats[src].boost) * (1 + g.stats[tgt].taken)
	done := false
	for i := range g.shadow[tgt] {
		if g.shadow[tgt][i].k == k {
			g.shadow[tgt][i].hp = hp
			done = true
		}
	}
	if !done {
		g.shadow[tgt] = append(g.shadow[tgt], shShadow{k, hp})
	}
	return term.C("OAdd", term.I(k), term.I(int64(src)), term.I(int64(tgt)), term.L(f...), term.F(flat)),
		[]shEv{{"added", k, src, tgt, 0}}
}

func (g *shGen) opRemove(k int64, tgt int) (term.T, []shEv) {
	keep := []shShadow{}
	had := false
	for _, s := range g.shadow[tgt] {
		if s.k != k {
			keep = append(keep, s)
		} else {
			had = true
		}
	}
	g.shadow[tgt] = keep
	var evs []shEv
	if had {
		evs = []shEv{{"removed", k, tgt, tgt, 0}}
	}
	return term.C("ORemove", term.I(k), term.I(int64(tgt))), evs
}

// damage aimed at the shields present on tgt (or from the pool of special values)
func (g *shGen) aimed(tgt int) float64 {
	r := g.r
	if len(g.shadow[tgt]) > 0 && r.Chance(3, 5) {
		h := term.Pick(r, g.shadow[tgt]).hp
		switch r.Intn(8) {
		case 0, 1:
			return h // exactly the shield's strength
		case 2:
			return math.Nextafter(h, math.Inf(-1))
		case 3:
			return math.Nextafter(h, math.Inf(1))
		case 4:
			return h / 2
		case 5, 6:
			return g.maxOf(tgt) // exactly the strongest: every shield of the unit breaks
		default:
			return g.maxOf(tgt) + term.Pick(r, []float64{0, 1, 10, 0.1})
		}
	}
	return term.Pick(r, []float64{0, math.Copysign(0, -1), -1, -50.5, 1, 10, 25, 50, 100, 1e4, 5e-324, 0.1})
}

func (g *shGen) opAbsorb(tgt int, d float64) (term.T, []shEv) {
	var evs []shEv
	if len(g.shadow[tgt]) > 0 && d > 0 {
		keep := []shShadow{}
		mid, mx := int64(-1), 0.0
		for _, s := range g.shadow[tgt] {
			s.hp = shDim(s.hp, d)
			if s.hp > mx {
				mx, mid = s.hp, s.k
			}
			if s.hp != 0 {
				keep = append(keep, s)
			} else {
				evs = append(evs, shEv{"removed", s.k, tgt, tgt, 0})
			}
		}
		g.shadow[tgt] = keep
		evs = append(evs, shEv{"change", mid, tgt, tgt, 0})
	}
	return term.C("OAbsorb", term.I(int64(tgt)), term.F(d)), evs
}

// perform: the call's atomic part was applied to the shadow by the op* function; now its emissions, each
// followed by the script generated for it (the operations of which are again performed)
func (g *shGen) perform(o term.T, evs []shEv, depth int) term.T {
	for i := range evs {
		for _, l := range evs[i+1:] {
			if l.kind == "removed" {
				evs[i].later++
			}
		}
	}
	for _, e := range evs {
		// the listener of e pops its script BEFORE the listeners of the nested calls pop theirs
		at := len(g.qs[e.kind])
		g.qs[e.kind] = append(g.qs[e.kind], nil)
		script := []term.T{}
		if g.listen {
			n := g.scriptLen(depth)
			if e.later > 0 && n == 0 && depth < g.maxDepth && g.r.Chance(1, 2) {
				n = 1 // the outer call still holds a list of removals to announce: react more often here
			}
			for i := 0; i < n && g.budget > 0; i++ {
				g.budget--
				script = append(script, g.reaction(e, depth+1))
			}
		}
		g.qs[e.kind][at] = term.L(script...)
	}
	return o
}

// mostly short scripts; none below the depth bound
func (g *shGen) scriptLen(depth int) int {
	if depth >= g.maxDepth || g.budget <= 0 {
		return 0
	}
	c := g.r.Intn(100)
	switch {
	case c < 40+10*depth:
		return 0
	case c < 72+5*depth:
		return 1
	case c < 92:
		return 2
	default:
		return 3
	}
}

// the unit carrying the most shields
func (g *shGen) busiest() int {
	b := 0
	for u := range g.shadow {
		if len(g.shadow[u]) > len(g.shadow[b]) {
			b = u
		}
	}
	return b
}

func (g *shGen) otherUnit(u int) int { return (u + 1 + g.r.Intn(g.nu-1)) % g.nu }
func (g *shGen) otherKey(k int64) int64 {
	if k < 0 {
		return int64(g.r.Intn(g.nk))
	}
	return (k + 1 + int64(g.r.Intn(g.nk-1))) % int64(g.nk)
}
func (g *shGen) presentKey(tgt int, not int64) int64 {
	c := []int64{}
	for _, s := range g.shadow[tgt] {
		if s.k != not {
			c = append(c, s.k)
		}
	}
	if len(c) == 0 {
		return int64(g.r.Intn(g.nk))
	}
	return term.Pick(g.r, c)
}

// one operation of a listener script, aimed at what the outer call is working on: the same unit and key
// (re-add what is being reported removed, remove what was just added or what is about to be reported, hit the
// unit again so that the same event fires again), sometimes another unit or the stats getter
func (g *shGen) reaction(e shEv, depth int) term.T {
	r := g.r
	var o term.T
	var evs []shEv
	c := r.Intn(100)
	if e.later > 0 && r.Chance(1, 2) {
		c = 50 // several removals inside a call that is itself still announcing several removals
	}
	switch e.kind {
	case "removed":
		switch {
		case c < 25: // re-add the key that is being reported removed
			o, evs = g.opAdd(e.k, r.Intn(g.nu), e.tgt)
		case c < 35:
			o, evs = g.opAdd(g.otherKey(e.k), r.Intn(g.nu), e.tgt)
		case c < 50: // hit the same unit again: more removals, the same event again
			o, evs = g.opAbsorb(e.tgt, g.aimed(e.tgt))
		case c < 65: // break every shield of the unit that carries the most: several removals inside a removal
			u := g.busiest()
			o, evs = g.opAbsorb(u, g.maxOf(u)+term.Pick(r, []float64{0, 0, 1}))
		case c < 78: // remove a shield that is still there (what a later event of the outer call names)
			o, evs = g.opRemove(g.presentKey(e.tgt, e.k), e.tgt)
		case c < 83: // remove the key just reported: absent, nothing happens
			o, evs = g.opRemove(e.k, e.tgt)
		case c < 90:
			u := g.otherUnit(e.tgt)
			if r.Bool() {
				o, evs = g.opAdd(int64(r.Intn(g.nk)), e.tgt, u)
			} else {
				o, evs = g.opAbsorb(u, g.aimed(u))
			}
		default:
			o, evs = g.opStats(r.Intn(g.nu))
		}
	case "added":
		switch {
		case c < 25: // remove what was just added
			o, evs = g.opRemove(e.k, e.tgt)
		case c < 45: // add under the same key again: the same event again
			src := e.src
			if r.Chance(1, 3) {
				src = e.tgt // the total-shield term then reads the shield just added
			}
			o, evs = g.opAdd(e.k, src, e.tgt)
		case c < 65:
			o, evs = g.opAbsorb(e.tgt, g.aimed(e.tgt))
		case c < 75:
			o, evs = g.opAdd(g.otherKey(e.k), e.src, e.tgt)
		case c < 85:
			if r.Bool() {
				o, evs = g.opStats(e.src)
			} else {
				o, evs = g.opStats(e.tgt)
			}
		case c < 93:
			u := g.otherUnit(e.tgt)
			o, evs = g.opAdd(e.k, e.tgt, u)
		default:
			o, evs = g.opRemove(g.presentKey(e.tgt, e.k), e.tgt)
		}
	default: // "change"
		switch {
		case c < 25 && e.k >= 0: // remove the shield the event names as the strongest
			o, evs = g.opRemove(e.k, e.tgt)
		case c < 50: // hit again: the same event again
			o, evs = g.opAbsorb(e.tgt, g.aimed(e.tgt))
		case c < 58: // break every shield of the unit that carries the most
			u := g.busiest()
			o, evs = g.opAbsorb(u, g.maxOf(u)+term.Pick(r, []float64{0, 0, 1}))
		case c < 70:
			o, evs = g.opAdd(int64(r.Intn(g.nk)), r.Intn(g.nu), e.tgt)
		case c < 80:
			o, evs = g.opRemove(g.presentKey(e.tgt, -1), e.tgt)
		case c < 90:
			u := g.otherUnit(e.tgt)
			o, evs = g.opAbsorb(u, g.aimed(u))
		default:
			o, evs = g.opStats(e.tgt)
		}
	}
	return g.perform(o, evs, depth)
}

func genShield(r *term.Rng, idx int) term.T {
	g := &shGen{r: r, nu: 3, nk: 4, qs: map[string][]term.T{}, maxDepth: 3}
	g.stats = make([]shStat, g.nu)
	g.shadow = make([][]shShadow, g.nu)
	// a fifth of the histories are flat (no listener does anything), as before listeners existed
	g.listen = !r.Chance(1, 5)
	g.twins = g.listen && r.Chance(1, 4)
	ops := []term.T{}
	for u := 0; u < g.nu; u++ {
		if r.Chance(4, 5) && !g.twins { // twins: all stats zero, every flat-only shield has its flat value as strength
			g.stats[u] = shStat{term.Pick(r, shStatPool), term.Pick(r, shStatPool), term.Pick(r, shStatPool), term.Pick(r, shBonusPool), term.Pick(r, shBonusPool)}
			ops = append(ops, term.C("OStats", term.I(int64(u)), shStatTerm(g.stats[u])))
		}
	}
	nops := r.Range(5, 40)
	if g.listen {
		nops = r.Range(4, 22)
		g.budget = r.Range(4, 36)
	}
	for len(ops) < nops {
		var o term.T
		var evs []shEv
		addTo := 8 // of 20: the share of AddShield; larger with listeners, so that units carry several shields
		if g.listen {
			addTo = 10
		}
		if g.twins {
			addTo = 14 // few top-level hits: the twins pile up on several units
		}
		switch c := r.Intn(20); {
		case c < 1:
			o, evs = g.opStats(r.Intn(g.nu))
		case c < addTo:
			o, evs = g.opAdd(int64(r.Intn(g.nk)), r.Intn(g.nu), r.Intn(g.nu))
		case c < addTo+2:
			o, evs = g.opRemove(int64(r.Intn(g.nk)), r.Intn(g.nu))
		default:
			tgt := r.Intn(g.nu)
			if len(g.shadow[tgt]) == 0 && r.Chance(2, 3) { // prefer shielded units
				for u := 0; u < g.nu; u++ {
					if len(g.shadow[u]) > 0 {
						tgt = u
					}
				}
			}
			o, evs = g.opAbsorb(tgt, g.aimed(tgt))
		}
		ops = append(ops, g.perform(o, evs, 0))
	}
	return term.Tup(term.Nat(g.nu), term.Nat(g.nk),
		term.C("mkQ", term.L(g.qs["added"]...), term.L(g.qs["removed"]...), term.L(g.qs["change"]...)),
		term.L(ops...))
}

func kindsShield(in term.T) map[string]int {
	m := map[string]int{}
	it := term.TupleItems(in)
	count := func(o term.T, pre string) {
		n, a := term.Ctor(o)
		m[pre+n]++
		if n == "OAdd" {
			m[fmt.Sprintf("%sadd_terms_%d", pre, len(term.List(a[3])))]++
			if term.Float(a[4]) != 0 {
				m[pre+"add_with_flat"]++
			}
		}
		if n == "OAbsorb" && !(term.Float(a[1]) > 0) {
			m[pre+"absorb_nonpositive"]++
		}
	}
	for _, o := range term.List(it[3]) {
		count(o, "")
	}
	_, qs := term.Ctor(it[2])
	nested := 0
	for i, slot := range []string{"on_added", "on_removed", "on_change"} {
		for _, sc := range term.List(qs[i]) {
			ops := term.List(sc)
			m[fmt.Sprintf("%s_script_len_%d", slot, len(ops))]++
			for _, o := range ops {
				count(o, "nested_")
				nested++
			}
		}
	}
	if nested > 0 {
		m["histories_with_reentrant_listeners"]++
	} else {
		m["histories_flat"]++
	}
	return m
}

func init() {
	register("shield", component{gen: genShield, run: runShield, kinds: kindsShield})
}
