module verif/harness

go 1.23.1

require github.com/simimpact/srsim v0.0.0

require (
	golang.org/x/tools v0.29.0
	google.golang.org/protobuf v1.34.2
)

require (
	github.com/aclements/go-moremath v0.0.0-20210112150236-f10218a38794 // indirect
	golang.org/x/mod v0.22.0 // indirect
	golang.org/x/sync v0.10.0 // indirect
)

replace github.com/simimpact/srsim => /repo
