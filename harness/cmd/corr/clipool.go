package main

// C15 on the REAL worker pool of the command-line program (cmd/srsim/execute.go: createPool /
// worker / start / processWorkerResult).  cmd/srsim is package main and cannot be imported, so
// the pool is exercised where it lives: in the srsim binary, built from the tree under test by
// the `pre` hook of tools/props.d/C15.py (harness/bin/srsim, path in $CORR_SRSIM_BIN).
//
// Input   CliIn (RS ...) iterations workers
// Output  Cli status1 [("flag", bool) ...] status2 [("flag", bool) ...]
//         | CliSkip "why"      the reference itself did not produce a result (counted, bounded by a post hook)
//         | CliHung            the case did not finish within the per-case time limit
//
//	reference  in THIS process: job seeds exactly as (*pool).start draws them
//	           (rand.New(rand.NewSource(seed)), one Int63() per iteration, in order); each job is
//	           run ALONE through simulation.Run with a FRESH eval.New evaluator, one after the
//	           other, and the results are aggregated with simulation.InitializeAggregators /
//	           Add / Flush as executeSimulation does (config.Settings.Iterations set from -i, as
//	           run() does).  The configuration the reference uses is the one decoded from the very
//	           bytes the CLI is given.
//	run 1      srsim run --seed S -i N -w 1 --no-serve -o <tmp>/out1 <tmp>/config.json
//	run 2      the same with -w W (the generated number of workers)
//	           result.gz (gzip of SimResult.MarshalJSON, cmd/srsim/writers.go) is read back and its
//	           statistics are compared with the reference, one flag per statistic (cliFlagNames):
//	           exactly (bit pattern; NaN = NaN) for the iteration count, every min / max, the
//	           quartiles, the histogram counts and the length of the per-cycle series; mean and SD up
//	           to 1e-9 relative to the magnitude of the statistic's data (results arrive in another
//	           order in a pool of several workers; property C19: the order matters only for rounding).
//	status     exit status of the child (124 = killed after 120 s, 125 = could not be started / died
//	           on a signal).
//
// The prediction of the model (Model/Runs.v, interleaving invariance) is: both runs exit 0 and
// every flag is true -- the pool yields, for every job, the result of that job run alone.

import (
	"bytes"
	"compress/gzip"
	"context"
	"errors"
	"fmt"
	"io"
	"math"
	"math/rand"
	"os"
	"os/exec"
	"path/filepath"
	"strconv"
	"strings"
	"sync"
	"time"

	"github.com/simimpact/srsim/pkg/logic/gcs"
	"github.com/simimpact/srsim/pkg/logic/gcs/eval"
	"github.com/simimpact/srsim/pkg/model"
	"github.com/simimpact/srsim/pkg/simulation"
	"google.golang.org/protobuf/encoding/protojson"

	"verif/harness/term"
)

const cliChildTimeout = 120 * time.Second

// ---------------------------------------------------------------------------------------
// generator
// ---------------------------------------------------------------------------------------

// poolFragment: the part of the script that belongs to character c, aimed at what makes state
// kept by a pool visible: callbacks that keep state in script variables (a second job evaluated
// by the same evaluator, or stale callbacks of an earlier job, see other values), callbacks that
// draw from the run's generator (a stale callback shifts the stream), assignments to built-in
// constants (globals of ONE evaluator).  It names no other character.
func poolFragment(r *term.Rng, c string) string {
	var sb strings.Builder
	ev := func() string { return term.Pick(r, evaluators) }
	fmt.Fprintf(&sb, "set_default_action(%s, attack(%s)); ", c, ev())
	switch r.Intn(5) {
	case 0:
		fmt.Fprintf(&sb, "register_skill_cb(%s, fn () { return skill(%s); }); ", c, ev())
	case 1, 2:
		fmt.Fprintf(&sb, "let s_%s = 0; register_skill_cb(%s, fn () { s_%s = s_%s + 1; if s_%s > %d { s_%s = 0; return skill(%s); } return attack(%s); }); ",
			c, c, c, c, c, r.Intn(3), c, ev(), ev())
	case 3:
		fmt.Fprintf(&sb, "register_skill_cb(%s, fn () { if rand() < 0.%d { return skill(%s); } return attack(%s); }); ",
			c, r.Range(2, 8), ev(), ev())
	default:
		fmt.Fprintf(&sb, "register_skill_cb(%s, fn () { if modifier_count(%s, STATUS_BUFF) >= %d { return skill(%s); } return attack(%s); }); ",
			c, c, r.Intn(2), ev(), ev())
	}
	switch r.Intn(12) {
	case 0: // no ult callback
	case 1:
		fmt.Fprintf(&sb, "register_ult_cb(%s, fn () { return ult(%s); }); ", c, ev())
	case 2, 3, 4, 5:
		// asks for the ultimate at every (k+1)-th consultation: a callback that survived an earlier job
		// is somewhere else in its count
		fmt.Fprintf(&sb, "let u_%s = 0; register_ult_cb(%s, fn () { u_%s = u_%s + 1; if u_%s > %d { u_%s = 0; return ult(%s); } return null; }); ",
			c, c, c, c, c, r.Range(1, 4), c, ev())
	case 6, 7:
		fmt.Fprintf(&sb, "register_ult_cb(%s, fn () { if rand() < 0.%d { return ult(%s); } return null; }); ", c, r.Range(2, 8), ev())
	case 8, 9:
		fmt.Fprintf(&sb, "let u_%s = 0; register_ult_cb(%s, fn () { u_%s = u_%s + rand(); if u_%s > 1 { u_%s = 0; return ult(%s); } return null; }); ",
			c, c, c, c, c, c, ev())
	case 10:
		// only the first few ultimates of the battle
		fmt.Fprintf(&sb, "let u_%s = 0; register_ult_cb(%s, fn () { if ult_ready(%s) { u_%s = u_%s + 1; if u_%s <= %d { return ult(%s); } } return null; }); ",
			c, c, c, c, c, c, r.Range(1, 2), ev())
	default:
		fmt.Fprintf(&sb, "register_ult_cb(%s, fn () { STATUS_BUFF = STATUS_DEBUFF; if ult_ready(%s) { return ult(%s); } return null; }); ", c, c, ev())
	}
	return strings.TrimSpace(sb.String())
}

func cliGen(r *term.Rng, idx int) term.T {
	r = reseed(r, idx)
	contentCat := getCatalogs()
	_, a := term.Ctor(genSpec(r, genOpts{maxChars: 4, maxCycles: 3}))
	cycles := term.Int(a[2])
	if cycles < 1 {
		cycles = int64(r.Range(1, 3))
	}
	// seven eighths of the cases: every character gets a pool-aimed fragment and usually starts with
	// full energy (so that the ult callbacks decide something from the first turn on), and one enemy
	// outlives the battle (the run lasts until the cycle limit); the others keep the general script
	// and line-up of genSpec
	chars := []term.T{}
	aimed := r.Chance(7, 8)
	fullEnergy := r.Chance(5, 6)
	for _, ct := range term.List(a[0]) {
		_, c := term.Ctor(ct)
		c = append([]term.T{}, c...)
		k := term.Str(c[0])
		if aimed {
			c[13] = term.S(poolFragment(r, k))
			if fullEnergy || r.Bool() {
				c[11] = term.I(int64(contentCat.charCfg[k].MaxEnergy))
			}
		}
		chars = append(chars, term.C("Ch", c...))
	}
	enemies := append([]term.T{}, term.List(a[1])...)
	if aimed {
		i := r.Intn(len(enemies))
		_, e := term.Ctor(enemies[i])
		e = append([]term.T{}, e...)
		e[2] = term.I(100000)
		enemies[i] = term.C("En", e...)
	}
	prelude := term.Str(a[3])
	if aimed && r.Chance(1, 3) {
		prelude = strings.TrimSpace(prelude + " " + term.Pick(r, []string{"STATUS_BUFF = STATUS_DEBUFF;", "STATUS_DEBUFF = STATUS_BUFF;", "STATUS_BUFF = 0;"}))
	}
	spec := term.C("RS", term.L(chars...), term.L(enemies...), term.I(cycles), term.S(prelude), a[4])
	return term.C("CliIn", spec, term.Nat(r.Range(8, 24)), term.Nat(r.Range(1, 8)))
}

// ---------------------------------------------------------------------------------------
// the reference: every job alone, fresh evaluator, aggregated as executeSimulation does
// ---------------------------------------------------------------------------------------

func runJobAlone(cfg *model.SimConfig, list *gcs.ActionList, seed int64) (res *model.IterationResult, err error) {
	defer func() {
		if r := recover(); r != nil {
			res, err = nil, fmt.Errorf("panic: %v", r)
		}
	}()
	return simulation.Run(&simulation.RunOpts{
		Config: cfg,
		Eval:   eval.New(context.Background(), list.Program),
		Seed:   seed,
	})
}

func cliReference(cfg *model.SimConfig, list *gcs.ActionList, seed int64, iters int) (*model.Statistics, error) {
	// the logged iteration of execute(): one run with the seed itself; the CLI gives up when it fails
	if _, err := runJobAlone(cfg, list, seed); err != nil {
		return nil, fmt.Errorf("logged iteration: %w", err)
	}
	aggs, err := simulation.InitializeAggregators(iters, cfg)
	if err != nil {
		return nil, fmt.Errorf("aggregators: %w", err)
	}
	rng := rand.New(rand.NewSource(seed))
	for i := 0; i < iters; i++ {
		js := rng.Int63()
		res, err := runJobAlone(cfg, list, js)
		if err != nil {
			return nil, fmt.Errorf("job %d (seed %d): %w", i, js, err)
		}
		aggs.Add(res)
	}
	return aggs.Flush(), nil
}

// ---------------------------------------------------------------------------------------
// the real binary
// ---------------------------------------------------------------------------------------

var (
	cliChildMu  sync.Mutex
	cliChildren = map[*exec.Cmd]bool{}
	cliTempDirs = map[string]bool{}
)

// cliKillChildren: the case is given up (per-case time limit of main.go; the process exits right after):
// no child and no temporary file is left behind
func cliKillChildren() {
	cliChildMu.Lock()
	defer cliChildMu.Unlock()
	for c := range cliChildren {
		if c.Process != nil {
			_ = c.Process.Kill()
		}
	}
	for d := range cliTempDirs {
		_ = os.RemoveAll(d)
	}
}

// cliBinary: the path handed over by the pre hook of tools/props.d/C15.py (which builds the binary from
// the tree under test on every check run).  `check.py --replay` runs no hooks: it then uses the binary
// the last check run left next to this one (harness/bin/srsim).  No binary: the case panics (fails closed).
func cliBinary() string {
	if b := os.Getenv("CORR_SRSIM_BIN"); b != "" {
		return b
	}
	if exe, err := os.Executable(); err == nil {
		b := filepath.Join(filepath.Dir(exe), "srsim")
		if _, err := os.Stat(b); err == nil {
			return b
		}
	}
	panic("no srsim binary: CORR_SRSIM_BIN is not set and harness/bin/srsim does not exist (it is built by the pre hook of tools/props.d/C15.py)")
}

type cliResult struct {
	status int
	res    *model.SimResult // nil: no readable result file
	msg    string
}

func runCLI(bin, cfgPath, outDir string, seed int64, iters, workers int) cliResult {
	ctx, cancel := context.WithTimeout(context.Background(), cliChildTimeout)
	defer cancel()
	// flags come before the positional argument (urfave/cli stops parsing flags at the first argument)
	cmd := exec.CommandContext(ctx, bin, "run",
		"--seed", strconv.FormatUint(uint64(seed), 10),
		"--iterations", strconv.Itoa(iters),
		"--workers", strconv.Itoa(workers),
		"--no-serve",
		"--outpath", outDir,
		cfgPath)
	var out bytes.Buffer
	cmd.Stdout, cmd.Stderr = &out, &out
	cmd.Stdin = nil
	cmd.WaitDelay = 2 * time.Second
	cliChildMu.Lock()
	cliChildren[cmd] = true
	cliChildMu.Unlock()
	err := cmd.Run()
	cliChildMu.Lock()
	delete(cliChildren, cmd)
	cliChildMu.Unlock()
	r := cliResult{}
	var ee *exec.ExitError
	switch {
	case err == nil:
	case ctx.Err() != nil:
		r.status, r.msg = 124, "killed after "+cliChildTimeout.String()
	case errors.As(err, &ee) && ee.ExitCode() >= 0:
		r.status = ee.ExitCode()
	default:
		r.status, r.msg = 125, err.Error()
	}
	if r.status != 0 {
		r.msg = strings.TrimSpace(r.msg + " " + lastLine(out.String()))
		return r
	}
	f, err := os.Open(filepath.Join(outDir, "result.gz"))
	if err != nil {
		r.msg = err.Error()
		return r
	}
	defer f.Close()
	gz, err := gzip.NewReader(f)
	if err != nil {
		r.msg = err.Error()
		return r
	}
	data, err := io.ReadAll(gz)
	if err != nil {
		r.msg = err.Error()
		return r
	}
	res := new(model.SimResult)
	if err := (protojson.UnmarshalOptions{AllowPartial: true, DiscardUnknown: true}).Unmarshal(data, res); err != nil {
		r.msg = err.Error()
		return r
	}
	r.res = res
	return r
}

// ---------------------------------------------------------------------------------------
// comparison
// ---------------------------------------------------------------------------------------

var cliFlagNames = []string{
	"result_file", "debug_seed", "iterations",
	"dealt.min", "dealt.max", "dealt.mean", "dealt.sd",
	"taken.min", "taken.max", "taken.mean", "taken.sd",
	"av.min", "av.max", "av.mean", "av.sd",
	"dpc.min", "dpc.max", "dpc.mean", "dpc.sd", "dpc.quartiles", "dpc.hist",
	"dealt_by_cycle.len", "dealt_by_cycle.min_max", "dealt_by_cycle.mean_sd", "dealt_by_cycle.quartiles", "dealt_by_cycle.hist",
	"taken_by_cycle.len", "taken_by_cycle.min_max", "taken_by_cycle.mean_sd", "taken_by_cycle.quartiles", "taken_by_cycle.hist",
}

func fval(p *float64) (float64, bool) {
	if p == nil {
		return 0, false
	}
	return *p, true
}

// exactly the same binary64 (all NaNs alike), or both absent
func sameF(a, b *float64) bool {
	x, okx := fval(a)
	y, oky := fval(b)
	if okx != oky {
		return false
	}
	if !okx {
		return true
	}
	if x != x || y != y {
		return x != x && y != y
	}
	return math.Float64bits(x) == math.Float64bits(y)
}

// equal up to 1e-9 relative to the larger of the two values and of the data's magnitude
func closeF(a, b *float64, scale float64) bool {
	if sameF(a, b) {
		return true
	}
	x, okx := fval(a)
	y, oky := fval(b)
	if !okx || !oky || x != x || y != y || math.IsInf(x, 0) || math.IsInf(y, 0) {
		return false
	}
	m := math.Max(math.Max(math.Abs(x), math.Abs(y)), scale)
	return math.Abs(x-y) <= 1e-9*m
}

func magnitude(lo, hi *float64) float64 {
	x, _ := fval(lo)
	y, _ := fval(hi)
	m := math.Max(math.Abs(x), math.Abs(y))
	if m != m || math.IsInf(m, 0) {
		return 0
	}
	return m
}

func sameHist(a, b []uint32) bool {
	if len(a) != len(b) {
		return false
	}
	for i := range a {
		if a[i] != b[i] {
			return false
		}
	}
	return true
}

func cliCompare(want *model.Statistics, seed int64, got *model.SimResult) map[string]bool {
	fl := map[string]bool{}
	if got == nil {
		return fl // every flag false
	}
	fl["result_file"] = true
	fl["debug_seed"] = got.GetDebugSeed() == strconv.FormatUint(uint64(seed), 10)
	g := got.GetStatistics()
	if g == nil {
		g = new(model.Statistics)
	}
	fl["iterations"] = g.GetIterations() == want.GetIterations()
	desc := func(name string, w, x *model.DescriptiveStats) {
		if w == nil || x == nil {
			ok := w == nil && x == nil
			fl[name+".min"], fl[name+".max"], fl[name+".mean"], fl[name+".sd"] = ok, ok, ok, ok
			return
		}
		sc := magnitude(w.Min, w.Max)
		fl[name+".min"] = sameF(w.Min, x.Min)
		fl[name+".max"] = sameF(w.Max, x.Max)
		fl[name+".mean"] = closeF(w.Mean, x.Mean, sc)
		fl[name+".sd"] = closeF(w.SD, x.SD, sc)
	}
	desc("dealt", want.TotalDamageDealt, g.TotalDamageDealt)
	desc("taken", want.TotalDamageTaken, g.TotalDamageTaken)
	desc("av", want.TotalAv, g.TotalAv)
	type ov struct{ minmax, meansd, quart, hist bool }
	over := func(w, x *model.OverviewStats) ov {
		if w == nil || x == nil {
			ok := w == nil && x == nil
			return ov{ok, ok, ok, ok}
		}
		sc := magnitude(w.Min, w.Max)
		return ov{
			minmax: sameF(w.Min, x.Min) && sameF(w.Max, x.Max),
			meansd: closeF(w.Mean, x.Mean, sc) && closeF(w.SD, x.SD, sc),
			quart:  sameF(w.Q1, x.Q1) && sameF(w.Q2, x.Q2) && sameF(w.Q3, x.Q3),
			hist:   sameHist(w.Hist, x.Hist),
		}
	}
	{
		w, x := want.TotalDamageDealtPerCycle, g.TotalDamageDealtPerCycle
		o := over(w, x)
		fl["dpc.quartiles"], fl["dpc.hist"] = o.quart, o.hist
		if w != nil && x != nil {
			sc := magnitude(w.Min, w.Max)
			fl["dpc.min"], fl["dpc.max"] = sameF(w.Min, x.Min), sameF(w.Max, x.Max)
			fl["dpc.mean"], fl["dpc.sd"] = closeF(w.Mean, x.Mean, sc), closeF(w.SD, x.SD, sc)
		} else {
			fl["dpc.min"], fl["dpc.max"], fl["dpc.mean"], fl["dpc.sd"] = o.minmax, o.minmax, o.meansd, o.meansd
		}
	}
	series := func(name string, w, x []*model.OverviewStats) {
		fl[name+".len"] = len(w) == len(x)
		all := ov{true, true, true, true}
		for i := 0; i < len(w) && i < len(x); i++ {
			o := over(w[i], x[i])
			all = ov{all.minmax && o.minmax, all.meansd && o.meansd, all.quart && o.quart, all.hist && o.hist}
		}
		if len(w) != len(x) {
			all = ov{}
		}
		fl[name+".min_max"], fl[name+".mean_sd"], fl[name+".quartiles"], fl[name+".hist"] = all.minmax, all.meansd, all.quart, all.hist
	}
	series("dealt_by_cycle", want.DamageDealtByCycle, g.DamageDealtByCycle)
	series("taken_by_cycle", want.DamageTakenByCycle, g.DamageTakenByCycle)
	return fl
}

func cliFlagsTerm(fl map[string]bool) term.T {
	out := []term.T{}
	for _, n := range cliFlagNames {
		out = append(out, term.Tup(term.S(n), term.B(fl[n])))
	}
	return term.L(out...)
}

// ---------------------------------------------------------------------------------------
// component
// ---------------------------------------------------------------------------------------

// whether the case just executed was skipped because the reference failed, and how many flags
// were false (main.go calls kinds right after run)
var (
	lastCliSkipped int
	lastCliNonzero int
)

func cliRun(in term.T) term.T {
	lastCliSkipped, lastCliNonzero = 0, 0
	name, a := term.Ctor(in)
	if name != "CliIn" {
		panic("not a clipool input: " + name)
	}
	bin := cliBinary()
	spec := decodeSpec(a[0])
	iters, workers := int(term.Int(a[1])), int(term.Int(a[2]))
	if iters < 1 {
		iters = 1
	}
	if workers < 1 {
		workers = 1
	}
	if spec.cfg.Settings == nil {
		// the CLI dereferences the settings section (run() stores the iteration count there)
		spec.cfg.Settings = &model.SimulatorSettings{}
	}
	cfgJSON, err := spec.cfg.MarshalJSON()
	if err != nil {
		panic(err)
	}
	skip := func(why string) term.T {
		lastCliSkipped = 1
		return term.C("CliSkip", term.S(sanitize(why)))
	}

	// the reference works on the configuration decoded from the bytes the CLI gets
	ref := new(model.SimConfig)
	if err := ref.UnmarshalJSON(cfgJSON); err != nil {
		panic(err)
	}
	if ref.Settings == nil {
		ref.Settings = &model.SimulatorSettings{}
	}
	ref.Settings.Iterations = uint32(iters) // cmd/srsim/main.go run()
	lg, ok := ref.Logic.(*model.SimConfig_Gcsl)
	if !ok {
		return skip("configuration without a gcsl script")
	}
	list, err := parseScript(lg.Gcsl)
	if err != nil {
		return skip("script does not parse: " + err.Error())
	}
	want, err := cliReference(ref, list, spec.seed, iters)
	if err != nil {
		return skip("reference: " + err.Error())
	}

	dir, err := os.MkdirTemp("", "clipool")
	if err != nil {
		panic(err)
	}
	cliChildMu.Lock()
	cliTempDirs[dir] = true
	cliChildMu.Unlock()
	defer func() {
		os.RemoveAll(dir)
		cliChildMu.Lock()
		delete(cliTempDirs, dir)
		cliChildMu.Unlock()
	}()
	cfgPath := filepath.Join(dir, "config.json")
	if err := os.WriteFile(cfgPath, cfgJSON, 0o644); err != nil {
		panic(err)
	}
	ws := []int{1, workers}
	rs := make([]cliResult, 2)
	var wg sync.WaitGroup
	for k := range ws {
		wg.Add(1)
		go func(k int) {
			defer wg.Done()
			rs[k] = runCLI(bin, cfgPath, filepath.Join(dir, "out"+strconv.Itoa(k+1)), spec.seed, iters, ws[k])
		}(k)
	}
	wg.Wait()
	args := []term.T{}
	for k := range rs {
		if rs[k].status != 0 {
			lastCliNonzero++
			args = append(args, term.I(int64(rs[k].status)), cliFlagsTerm(map[string]bool{}))
			continue
		}
		args = append(args, term.I(0), cliFlagsTerm(cliCompare(want, spec.seed, rs[k].res)))
	}
	return term.C("Cli", args...)
}

func cliKinds(in term.T) map[string]int {
	_, a := term.Ctor(in)
	out := map[string]int{"cases": 1, "cli_runs": 2}
	out["reference_failed"] = lastCliSkipped
	out["cli_nonzero_exit"] = lastCliNonzero
	iters, workers := int(term.Int(a[1])), int(term.Int(a[2]))
	out["jobs"] = 2 * iters
	out["workers:"+strconv.Itoa(workers)]++
	_, rs := term.Ctor(a[0])
	out["chars:"+strconv.Itoa(len(term.List(rs[0])))]++
	out["cycles:"+strconv.Itoa(int(term.Int(rs[2])))]++
	script := term.Str(rs[3])
	for _, ct := range term.List(rs[0]) {
		_, c := term.Ctor(ct)
		script += " " + term.Str(c[13])
		out["char:"+term.Str(c[0])]++
	}
	mark := func(k string, b bool) {
		if b {
			out[k]++
		}
	}
	mark("script:stateful_ult_cb", strings.Contains(script, "let u_"))
	mark("script:stateful_skill_cb", strings.Contains(script, "let s_"))
	mark("script:rand", strings.Contains(script, "rand()"))
	mark("script:assigns_builtin_constant", strings.Contains(script, "STATUS_BUFF =") || strings.Contains(script, "STATUS_DEBUFF ="))
	return out
}

func init() {
	register("clipool", component{gen: cliGen, run: cliRun, kinds: cliKinds,
		hung: func(term.T) term.T {
			cliKillChildren()
			return term.C("CliHung")
		}})
}
