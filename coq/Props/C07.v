(* C07 — HP, energy, toughness and skill points stay in range; every change is reported.
   Only statements, [exact] and [Print Assumptions] live here.  All statements are about
   binary64 values (Coq's primitive floats), not about real numbers. *)
From Coq Require Import List ZArith.
From SR Require Import Model.Attr Proofs.AttrProofs.
From SR Require Proofs.FormulasAttrProofs.
Import ListNotations.

(* For every list of valid calls (finite amounts / ratios / floors, positive finite max HP,
   finite energy regen and stance bonus, units registered with attributes in range):
   ranges after the list; every further call reports exactly its changes (one event per
   changed quantity with old = before and new = after, none when unchanged; StanceBreak iff
   the stance reaches 0 from a positive value, StanceReset iff it leaves 0; one SPChange iff
   the SP changed); the events of each unit and quantity chain. *)
Theorem C07_ranges_and_reports : C07_statement.
Proof. exact C07_holds. Qed.
Print Assumptions C07_ranges_and_reports.

Theorem C07_ranges_in_every_intermediate_state :
  forall pre post, Forall op_ok (pre ++ post) -> in_range (reach pre).
Proof. exact C07_ranges_every_prefix. Qed.
Print Assumptions C07_ranges_in_every_intermediate_state.

Theorem C07_first_event_reports_the_registered_value :
  forall s ops q id u, state_ok s -> Forall op_ok ops -> find_unit id (units s) = Some u ->
    head_is (qval q u) (q_evs q id (all_events s ops)).
Proof. exact C07_first_event_old. Qed.
Print Assumptions C07_first_event_reports_the_registered_value.

(* the clamp used by every mutator lands in [0, hi] for every non-NaN input *)
Theorem C07_clamp_in_range : clamp_statement.
Proof. exact clampTo_range. Qed.
Print Assumptions C07_clamp_in_range.

(* The translator tie: the clamps and updates of AddTarget, SetHP, ModifyHPByAmount, ModifyHPByRatio,
   SetStance, ModifyStance, SetEnergy, ModifyEnergy, ModifyEnergyFixed, ModifySP and the initial skill
   points are EQUAL, at binary64, to the definitions go2coq generates from attribute/add.go,
   attribute/modify.go and attribute/attribute.go (Gen/FormulasAttr.v; the conjunction is spelled
   out in Proofs/FormulasAttrProofs.v, C07_formulas_statement). *)
Theorem C07_model_formulas_are_the_source : FormulasAttrProofs.C07_formulas_statement.
Proof. exact FormulasAttrProofs.C07_formulas_hold. Qed.
Print Assumptions C07_model_formulas_are_the_source.

(* a valid history with a floor crossing, a death, a break, a no-op, a reset, clamped energy
   and clamped skill points: 10 events, HP events (1 -> 0.5), (0.5 -> 0), one break, one reset *)
Theorem C07_nonvacuous : demo_statement.
Proof. exact (conj demo_valid demo_runs). Qed.
