(* The stacking / removal / expiry description translated from the Go source (Gen/StackingTable.v) IS the pinned table,
   the interpretation of its stackCount IS Modifier.stack_count, and the interpretation of the AddModifier switch
   with the seven helpers IS Modifier.stack. *)
From Coq Require Import List ZArith String Bool.
From SR Require Import Model.SimSkeleton Model.Modifier Model.StackingExpected Model.StackingInterp Gen.StackingTable.
Import ListNotations.
Open Scope Z_scope.

Theorem stacking_table_is_pinned : StackingTable.table = StackingExpected.expected.
Proof. reflexivity. Qed.

Theorem stacking_consts_are_pinned : StackingTable.consts = StackingExpected.expected_consts.
Proof. reflexivity. Qed.

(* stackCount of the source, run on the model's instance record, is the model's stack_count: all instances, all counts *)
Theorem stack_count_is_the_source :
  forall new prev, interp_stack_count StackingTable.table new prev = Some (stack_count new prev).
Proof.
  intros new prev. unfold stack_count.
  lazy -[Z.ltb Z.add i_cnt i_max].
  destruct (prev <? 0); [reflexivity|].
  destruct (i_cnt new <? 0); [reflexivity|].
  destruct (0 <? i_max new); [|reflexivity].
  destruct (i_max new <? prev + i_cnt new); reflexivity.
Qed.

(* ---- the seven helpers and the AddModifier switch ---- *)
Lemma dur_upd_cnt : forall s x c y, i_dur (heap (upd s x (w_cnt c)) y) = i_dur (heap s y).
Proof. intros s x c y. unfold upd, set_heap. cbn [heap]. destruct (y =? x); reflexivity. Qed.

Lemma interp_stack_gen :
  forall w X sc, (forall new prev, sc new prev = Some (stack_count new prev)) ->
  forall s t k tag, interp_stack w X sc StackingTable.table s t k tag = Some (stack w X s t k tag).
Proof.
  intros w X sc Hsc s t k tag.
  destruct k;
    lazy -[find_first upd setl append emit_extdur stack_count replace_first heap tg i_dur i_cnt i_name i_src by_name by_name_src Z.ltb Z.add w_dur w_cnt].
  - destruct (find_first (heap s) (by_name (i_name (heap s tag))) (tg s t)); reflexivity.
  - destruct (find_first (heap s) (by_name_src (i_name (heap s tag)) (i_src (heap s tag))) (tg s t)); [|reflexivity].
    rewrite Hsc. reflexivity.
  - destruct (find_first (heap s) (by_name (i_name (heap s tag))) (tg s t)); [|reflexivity].
    rewrite Hsc. reflexivity.
  - reflexivity.
  - destruct (find_first (heap s) (by_name (i_name (heap s tag))) (tg s t)); reflexivity.
  - destruct (find_first (heap s) (by_name (i_name (heap s tag))) (tg s t)); reflexivity.
  - destruct (find_first (heap s) (by_name (i_name (heap s tag))) (tg s t)) as [m|]; [|reflexivity].
    rewrite Hsc. rewrite !dur_upd_cnt.
    destruct (i_dur (heap s m) <? i_dur (heap s tag)); reflexivity.
Qed.

(* the switch of AddModifier and the helper it selects, run on the model state with the table's own stackCount, is
   Modifier.stack: all worlds, listener runners, states, units, behaviours, incoming instances *)
Theorem stack_is_the_source :
  forall w X s t k tag,
    interp_stack w X (interp_stack_count StackingTable.table) StackingTable.table s t k tag = Some (stack w X s t k tag).
Proof. intros. apply interp_stack_gen. exact stack_count_is_the_source. Qed.

Definition stacking_tie : Prop :=
  StackingTable.table = StackingExpected.expected /\
  StackingTable.consts = StackingExpected.expected_consts /\
  (forall new prev, interp_stack_count StackingTable.table new prev = Some (stack_count new prev)) /\
  (forall w X s t k tag,
     interp_stack w X (interp_stack_count StackingTable.table) StackingTable.table s t k tag = Some (stack w X s t k tag)).

Theorem stacking_is_the_source : stacking_tie.
Proof.
  exact (conj stacking_table_is_pinned (conj stacking_consts_are_pinned (conj stack_count_is_the_source stack_is_the_source))).
Qed.
