package main

// Correspondence component "agg" (property C19): batches of model.IterationResult values are
// fed to the REAL aggregators (simulation.InitializeAggregators / Aggregators.Add / Flush, i.e.
// the registered overview aggregator) several times: sequentially in given arrival orders with
// optional intermediate flushes, and through a worker pool shaped like cmd/srsim/execute.go
// (workers send on an unbuffered channel, one collector goroutine adds).  Every number of every
// flushed model.Statistics is observed bit-exactly, once when flushed and again at the end.

import (
	"context"
	"math"
	"runtime"

	"github.com/simimpact/srsim/pkg/model"
	"github.com/simimpact/srsim/pkg/simulation"
	_ "github.com/simimpact/srsim/pkg/statistics/agg/overview"

	"verif/harness/term"
)

// ---- term <-> Go ----

func aggFloats(t term.T) []float64 {
	out := []float64{}
	for _, x := range term.List(t) {
		out = append(out, term.Float(x))
	}
	return out
}

func aggResult(t term.T) *model.IterationResult {
	_, a := term.Ctor(t) // mkRes dealt taken av cd ct
	return &model.IterationResult{
		TotalDamageDealt:             term.Float(a[0]),
		TotalDamageTaken:             term.Float(a[1]),
		TotalAv:                      term.Float(a[2]),
		CumulativeDamageDealtByCycle: aggFloats(a[3]),
		CumulativeDamageTakenByCycle: aggFloats(a[4]),
	}
}

func aggF(p *float64) term.T {
	if p == nil {
		panic("statistic not set")
	}
	return term.F(*p)
}

func aggDesc(d *model.DescriptiveStats) term.T {
	if d == nil {
		panic("DescriptiveStats not set")
	}
	return term.C("mkD", aggF(d.Min), aggF(d.Max), aggF(d.Mean), aggF(d.SD))
}

func aggOv(o *model.OverviewStats) term.T {
	if o == nil {
		panic("OverviewStats not set")
	}
	hist := []term.T{}
	for _, c := range o.Hist {
		hist = append(hist, term.I(int64(c)))
	}
	return term.C("mkOv", aggF(o.Min), aggF(o.Max), aggF(o.Mean), aggF(o.SD), aggF(o.Q1), aggF(o.Q2), aggF(o.Q3), term.L(hist...))
}

func aggReport(s *model.Statistics) term.T {
	cd, ct := []term.T{}, []term.T{}
	for _, o := range s.DamageDealtByCycle {
		cd = append(cd, aggOv(o))
	}
	for _, o := range s.DamageTakenByCycle {
		ct = append(ct, aggOv(o))
	}
	return term.C("mkRep", term.I(int64(s.Iterations)), aggDesc(s.TotalDamageDealt), aggDesc(s.TotalDamageTaken),
		aggOv(s.TotalDamageDealtPerCycle), aggDesc(s.TotalAv), term.L(cd...), term.L(ct...))
}

// the indices named (in range, first occurrence), then the ones not named, ascending
func aggNormOrder(n int, idxs []term.T) []int {
	seen := make([]bool, n)
	out := []int{}
	for _, t := range idxs {
		i := int(term.Int(t))
		if i >= 0 && i < n && !seen[i] {
			seen[i] = true
			out = append(out, i)
		}
	}
	for i := 0; i < n; i++ {
		if !seen[i] {
			out = append(out, i)
		}
	}
	return out
}

type aggRun struct {
	aggs    simulation.Aggregators
	flushed []*model.Statistics
	atFlush []term.T
}

func newAggRun(iters, cyc int) *aggRun {
	cfg := &model.SimConfig{Settings: &model.SimulatorSettings{Iterations: uint32(iters), CycleLimit: uint32(cyc)}}
	aggs, err := simulation.InitializeAggregators(iters, cfg)
	if err != nil {
		panic(err)
	}
	if len(aggs) == 0 {
		panic("no aggregator registered")
	}
	return &aggRun{aggs: aggs}
}

func (a *aggRun) flush() {
	s := a.aggs.Flush()
	a.flushed = append(a.flushed, s)
	a.atFlush = append(a.atFlush, aggReport(s))
}

func (a *aggRun) obs(order []int) term.T {
	o := []term.T{}
	for _, i := range order {
		o = append(o, term.Nat(i))
	}
	re := []term.T{}
	for _, s := range a.flushed {
		re = append(re, aggReport(s))
	}
	return term.Tup(term.L(o...), term.L(a.atFlush...), term.L(re...))
}

func aggRunSeq(iters, cyc int, results []term.T, order []int, flushAt map[int]bool) term.T {
	a := newAggRun(iters, cyc)
	for k, i := range order {
		if flushAt[k] {
			a.flush()
		}
		a.aggs.Add(aggResult(results[i]))
	}
	a.flush()
	return a.obs(order)
}

// a pool of the shape of cmd/srsim/execute.go: a feeder queues jobs on an unbuffered channel,
// `workers` goroutines turn a job into an iteration result and send it on an unbuffered
// channel, the caller is the single collector that adds what arrives.
func aggRunPool(iters, cyc int, results []term.T, workers int) term.T {
	type resp struct {
		idx int
		res *model.IterationResult
	}
	ctx, cancel := context.WithCancel(context.Background())
	defer cancel()
	workChan := make(chan int)
	respChan := make(chan resp)
	if workers < 1 {
		workers = 1
	}
	for w := 0; w < workers; w++ {
		go func() {
			for {
				select {
				case <-ctx.Done():
					return
				case idx := <-workChan:
					res := aggResult(results[idx])
					// uneven "simulation" time, so that arrival order is the scheduler's
					for k := (idx * 7) % 5; k > 0; k-- {
						runtime.Gosched()
					}
					select {
					case respChan <- resp{idx, res}:
					case <-ctx.Done():
						return
					}
				}
			}
		}()
	}
	go func() {
		for i := range results {
			select {
			case <-ctx.Done():
				return
			case workChan <- i:
			}
		}
	}()
	a := newAggRun(iters, cyc)
	order := []int{}
	for range results {
		r := <-respChan
		a.aggs.Add(r.res)
		order = append(order, r.idx)
	}
	a.flush()
	return a.obs(order)
}

func runAgg(in term.T) term.T {
	it := term.TupleItems(in) // iters, cycle limit, pows, results, runs
	iters, cyc := int(term.Int(it[0])), int(term.Int(it[1]))
	results := term.List(it[3])
	outs := []term.T{}
	for _, sp := range term.List(it[4]) {
		name, a := term.Ctor(sp)
		switch name {
		case "RSeq":
			order := aggNormOrder(len(results), term.List(a[0]))
			fl := map[int]bool{}
			for _, k := range term.List(a[1]) {
				if kk := int(term.Int(k)); kk != len(order) {
					fl[kk] = true
				}
			}
			outs = append(outs, aggRunSeq(iters, cyc, results, order, fl))
		case "RPool":
			outs = append(outs, aggRunPool(iters, cyc, results, int(term.Int(a[0]))))
		default:
			panic("bad run spec " + name)
		}
	}
	return term.C("Ok", term.L(outs...))
}

// ---- generator ----

// boundary-heavy amounts: zero, equal, adjacent floats, tiny, large, ordinary game numbers
var aggAmounts = []float64{
	0, 0, 1, 100, 1234.5, 2500.75, 99999.125, 3.3333333333333335, 1e-3, 7,
	5e-324, 1e-160, 2.2250738585072014e-308, 1e15, 1e100, 4503599627370497, 0.1, 0.30000000000000004,
}
var aggAVs = []float64{100, 100, 0, 150, 250, 99.99999999999999, 100.00000000000001, 1e-3, 1e6, 37.5, 1000}

func aggNeighbour(r *term.Rng, x float64) float64 {
	switch r.Intn(3) {
	case 0:
		return math.Nextafter(x, math.Inf(1))
	case 1:
		if x > 0 {
			return math.Nextafter(x, 0)
		}
	}
	return x
}

func aggFloatList(xs []float64) term.T {
	out := []term.T{}
	for _, x := range xs {
		out = append(out, term.F(x))
	}
	return term.L(out...)
}

// a cumulative series of the given length; realistic ones are non-decreasing with repeated
// values (a cycle without damage), the others are arbitrary draws from the pool
func aggSeries(r *term.Rng, pool []float64, n int, realistic bool) []float64 {
	out := []float64{}
	cur := 0.0
	for i := 0; i < n; i++ {
		if realistic {
			if !r.Chance(1, 3) {
				cur += term.Pick(r, pool)
			}
			out = append(out, cur)
		} else {
			out = append(out, term.Pick(r, pool))
		}
	}
	return out
}

func aggGenResult(r *term.Rng, pool, avs []float64, cyc int) term.T {
	nd := r.Intn(cyc + 3) // 0 .. cyc+2: empty, shorter than, equal to, longer than the cycle limit
	nt := nd
	if r.Chance(1, 4) {
		nt = r.Intn(cyc + 3)
	}
	realistic := !r.Chance(1, 5)
	cd := aggSeries(r, pool, nd, realistic)
	ct := aggSeries(r, pool, nt, realistic)
	dealt, taken := term.Pick(r, pool), term.Pick(r, pool)
	if realistic && len(cd) > 0 {
		dealt = cd[len(cd)-1]
	}
	if realistic && len(ct) > 0 {
		taken = ct[len(ct)-1]
	}
	return term.C("mkRes", term.F(dealt), term.F(taken), term.F(term.Pick(r, avs)), aggFloatList(cd), aggFloatList(ct))
}

func genAgg(r *term.Rng, idx int) term.T {
	// small pools, so that equal values are the norm
	pool := []float64{}
	for k := r.Range(1, 4); k > 0; k-- {
		x := term.Pick(r, aggAmounts)
		pool = append(pool, x)
		if r.Chance(1, 3) {
			pool = append(pool, aggNeighbour(r, x))
		}
	}
	avs := []float64{}
	for k := r.Range(1, 3); k > 0; k-- {
		avs = append(avs, term.Pick(r, aggAVs))
	}
	cyc := r.Intn(6)
	n := 0
	mode := idx % 8
	switch mode {
	case 0:
		n = 0 // no iteration at all
	case 1:
		n = 1 // a single result
	case 2, 3:
		n = r.Range(2, 6) // identical results / all-zero damage
	case 4:
		n = r.Range(13, 40) // beyond the insertion-sort threshold of sort.Float64s
	default:
		n = r.Range(2, 12)
	}
	results := []term.T{}
	switch mode {
	case 2:
		one := aggGenResult(r, pool, avs, cyc)
		for i := 0; i < n; i++ {
			results = append(results, one)
		}
	case 3:
		for i := 0; i < n; i++ {
			results = append(results, aggGenResult(r, []float64{0}, avs, cyc))
		}
	default:
		for i := 0; i < n; i++ {
			results = append(results, aggGenResult(r, pool, avs, cyc))
		}
	}
	pows := []term.T{}
	for k := 0; k <= n; k++ {
		pows = append(pows, term.Tup(term.I(int64(k)), term.F(math.Pow(float64(k), 1.0/3.0))))
	}
	iters := n
	if r.Chance(1, 6) {
		iters = r.Intn(n + 3)
	}
	// arrival orders: identity, reversed, shuffled with intermediate flushes, worker pool
	ident, rev, shuf := []term.T{}, []term.T{}, []term.T{}
	perm := make([]int, n)
	for i := range perm {
		perm[i] = i
	}
	for i := n - 1; i > 0; i-- {
		j := r.Intn(i + 1)
		perm[i], perm[j] = perm[j], perm[i]
	}
	for i := 0; i < n; i++ {
		ident = append(ident, term.Nat(i))
		rev = append(rev, term.Nat(n-1-i))
		shuf = append(shuf, term.Nat(perm[i]))
	}
	flushAt := []term.T{}
	for k := r.Intn(3); k > 0; k-- {
		flushAt = append(flushAt, term.Nat(r.Intn(n+1)))
	}
	runs := []term.T{
		term.C("RSeq", term.L(ident...), term.L()),
		term.C("RSeq", term.L(rev...), term.L(flushAt...)),
		term.C("RSeq", term.L(shuf...), term.L()),
		term.C("RPool", term.Nat(r.Range(1, 4))),
	}
	return term.Tup(term.I(int64(iters)), term.Nat(cyc), term.L(pows...), term.L(results...), term.L(runs...))
}

func kindsAgg(in term.T) map[string]int {
	m := map[string]int{}
	it := term.TupleItems(in)
	results := term.List(it[3])
	switch n := len(results); {
	case n == 0:
		m["batch_empty"]++
	case n == 1:
		m["batch_single"]++
	case n > 12:
		m["batch_over_12"]++
	default:
		m["batch_2_to_12"]++
	}
	cyc := int(term.Int(it[1]))
	maxLen := 0
	for _, res := range results {
		_, a := term.Ctor(res)
		m["add"]++
		l := len(term.List(a[3]))
		if l == 0 {
			m["empty_series"]++
		}
		if l > maxLen {
			maxLen = l
		}
	}
	if maxLen < cyc {
		m["cycle_never_reached"]++
	}
	if maxLen > cyc {
		m["series_beyond_cycle_limit"]++
	}
	for _, sp := range term.List(it[4]) {
		name, a := term.Ctor(sp)
		m[name]++
		if name == "RSeq" {
			m["intermediate_flush"] += len(term.List(a[1]))
		}
	}
	return m
}

func init() {
	register("agg", component{gen: genAgg, run: runAgg, kinds: kindsAgg})
}
