(* C11 — The engine performs what the script decided. *)
From Coq Require Import List ZArith Bool.
From SR Require Import Base.CaseLib Base.NumOps Base.FloatFactsAttr Model.Turn Model.Sim Model.SimProtocol Proofs.SimProofs Proofs.SimDecision Proofs.SimDecisionTrace.
Import ListNotations.

(* for an alive character: the decision asked of the script is recorded; the action started is
   the decided type, or the default attack (evaluator First) when a skill was decided but the
   team lacks its skill-point cost; a skill is only performed with its cost available; the
   primary target handed to the content is the result of the decided target rule *)
Theorem C11_action_matches_decision : forall cfg fuel s id ins s' u,
  get_unit (units s) id = Some u -> ust u = Alive -> uchar u = true ->
  execute_action cfg fuel s id ins = AOk s' ->
  let '(d, _) := pop_next (next_q s) id in
  let '(evl, atype, fallback) := action_decision s id u in
  exists pre rest p,
    trace s' = trace s ++ VNextAction id (dc_type d) (dc_eval d) :: pre ++
               VActionStart id atype ins :: VCall (if atype =? ATYPE_SKILL then 1 else 0)%Z id p :: rest /\
    (fallback = true -> pre = VDefaultAction id :: match pre with _ :: t => t | [] => [] end) /\
    (atype = ATYPE_SKILL -> (uspneed u <= sp s)%Z) /\
    (exists s2, evaluate s2 id evl (if (atype =? ATYPE_SKILL)%Z then utt_s u else utt_a u) = Some p /\
                units s2 = units s /\ chars s2 = chars s /\ enemies s2 = enemies s).
Proof. exact action_matches_decision. Qed.
Print Assumptions C11_action_matches_decision.

(* the target rules: First = head of the living candidates of the right side; LowestHP /
   LowestHPRatio = a candidate with minimal key (given that the float comparison is a total
   preorder on the candidates' HP values, i.e. none is NaN); a named unit only if it is alive
   and of the class the ability's target type asks for *)
Theorem C11_target_satisfies_rule : forall s src evl tt p,
  evaluate s src evl tt = Some p -> rule_ok s src evl tt p.
Proof. exact evaluate_rule. Qed.
Print Assumptions C11_target_satisfies_rule.

(* skill points stay within [0,5]; a change is clamp(sp + delta) *)
Theorem C11_skill_points : forall s amt, (0 <= sp s <= 5)%Z ->
  (0 <= sp (mod_sp s amt) <= 5)%Z /\ sp (mod_sp s amt) = Z.max 0 (Z.min 5 (sp s + amt)).
Proof. exact mod_sp_range. Qed.
Print Assumptions C11_skill_points.

(* an ultimate is queued only for a character the script asked for whose energy is full, and
   queuing sets its energy to zero *)
Theorem C11_ult_only_when_asked_and_able : ult_request_statement.
Proof. exact ult_request_spec. Qed.
Print Assumptions C11_ult_only_when_asked_and_able.

Theorem C11_nonvacuous :
  match start demo_cfg2 300 with
  | Stop s => decision_ok demo_cfg2 (trace s) && protocol_ok (trace s) &&
              existsb (fun e => match e with VActionStart 1 2 false => true | _ => false end) (trace s) &&
              existsb (fun e => match e with VDefaultAction 1 => true | _ => false end) (trace s) &&
              existsb (fun e => match e with VActionStart 1 3 true => true | _ => false end) (trace s)
  | _ => false
  end = true.
Proof. exact demo_cfg2_runs. Qed.

(* ------------------------------------------------------------------------------------------ *)
(* Run level: for every configuration, content, decision sequence and fuel                     *)
(* ------------------------------------------------------------------------------------------ *)

(* the trace of every run that ends (with a result or with an error return) is accepted by the
   decision monitor that is evaluated on the traces of the real simulator: after the script's answer
   (VNextAction id type evaluator) the content call of that character is a skill exactly when a
   skill was decided and the engine did not fall back; the fallback to the default attack
   (VDefaultAction) only follows a decided skill of the same character; the primary target handed to
   the content belongs to the class the ability's target type asks for (allies / enemies / self,
   per the configuration's description of the units) and has not been announced dead; the primary
   target of an ultimate likewise *)
Theorem C11_trace_level : forall cfg fuel s, start cfg fuel = Stop s \/ start cfg fuel = Err s ->
  decision_ok cfg (trace s) = true.
Proof. exact C11_trace_holds. Qed.
Print Assumptions C11_trace_level.

(* first among equals: a target chosen by LowestHP (evaluator 101) / LowestHPRatio (102) splits the
   candidate list (the living list of the right side, in field order) into candidates before it, all
   with a strictly larger key, and candidates after it, none with a smaller key - provided no
   candidate's key is NaN; in particular it is a minimiser *)
Theorem C11_lowest_is_first_among_equals : forall s src evl tt p cands,
  evaluate s src evl tt = Some p -> candidates s src tt = Some cands ->
  (evl = 101%Z -> (forall y, In y cands -> nn (cur_hp s y)) ->
     lowest_first (cur_hp s) cands p /\ forall y, In y cands -> PrimFloat.ltb (cur_hp s y) (cur_hp s p) = false) /\
  (evl = 102%Z -> (forall y, In y cands -> nn (hp_ratio s y)) ->
     lowest_first (hp_ratio s) cands p /\ forall y, In y cands -> PrimFloat.ltb (hp_ratio s y) (hp_ratio s p) = false).
Proof. exact C11_lowest_first_holds. Qed.
Print Assumptions C11_lowest_is_first_among_equals.

(* non-vacuity: with two enemies of equal HP LowestHP takes the first; after the second was damaged
   LowestHP and LowestHPRatio take the second; the monitor accepts the run *)
Theorem C11_lowest_nonvacuous :
  match start demo_cfg11 300 with
  | Stop s =>
      decision_ok demo_cfg11 (trace s) &&
      match filter (fun e => match e with VCall 0 _ _ | VNextAction _ _ _ => true | _ => false end) (trace s) with
      | [VNextAction 1 0 101; VCall 0 1 2; VNextAction 1 0 101; VCall 0 1 3; VNextAction 1 0 102; VCall 0 1 3] => true
      | _ => false
      end
  | _ => false
  end = true.
Proof. vm_compute. reflexivity. Qed.
