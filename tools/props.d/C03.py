CONFIG = {
    "id": "C03",
    "coq_targets": ["Model/SimCheck.v"],
    "prop_files": [],
    "gen": [],
    "components": [{
        "name": "sim", "modules": ["Base.NumOps", "Model.Turn", "Model.Sim", "Model.SimCheck"],
        "check": "check_case", "monitor": "monitor_case", "model_out": "monitor_detail",
        "case_type": "case", "ops_path": None,
        "n_quick": 200, "n_thorough": 10000, "shard": 100,
    }],
    "rule": "scripted battles", "trusted": [], "assumptions": [],
    "manifest": {"level_text": "wip", "level_note": "wip", "technique": "wip"},
}
