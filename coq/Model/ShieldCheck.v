(* Correspondence checker and property monitor for Model/Shield.v + Model/ShieldRe.v (float
   instance): histories of the shield manager WITH re-entrant listeners. *)
From Coq Require Import List ZArith Bool Floats String.
From SR Require Import Base.CaseLib Model.Shield Model.ShieldRe.
Import ListNotations.
Open Scope Z_scope.

Inductive observed := Ok (t : list (titem float)) | HarnessPanic (msg : string).

(* input: unit pool size, key pool size, the script queues of the three listener slots, the
   top-level operations; output: the trace (calls entered, listener invocations with the state
   the listener sees, returns with the state right after), nested calls included *)
Definition case := (nat * nat * slots float * list (op float) * observed)%type.

Definition optZ_eqb := option_eqb Z.eqb.

Definition event_eqb (a b : event float) : bool :=
  match a, b with
  | EAdded k s t f h, EAdded k' s' t' f' h' =>
      (k =? k') && (s =? s') && (t =? t') && feqb_bits f f' && feqb_bits h h'
  | ERemoved k t, ERemoved k' t' => (k =? k') && (t =? t')
  | EChange t m n o i u, EChange t' m' n' o' i' u' =>
      (t =? t') && optZ_eqb m m' && feqb_bits n n' && feqb_bits o o' && feqb_bits i i' && feqb_bits u u'
  | _, _ => false
  end.

Definition uprobe_eqb (a b : uprobe float) : bool :=
  let '(s, m, hs) := a in let '(s', m', hs') := b in
  Bool.eqb s s' && feqb_bits m m' && list_eqb Bool.eqb hs hs'.

Definition fkind_pair_eqb (a b : fkind * float) : bool :=
  fkind_eqb (fst a) (fst b) && feqb_bits (snd a) (snd b).
Definition stats_eqb (a b : stats float) : bool :=
  feqb_bits (s_atk a) (s_atk b) && feqb_bits (s_def a) (s_def b) && feqb_bits (s_hp a) (s_hp b) &&
  feqb_bits (s_boost a) (s_boost b) && feqb_bits (s_taken a) (s_taken b).
Definition op_eqb (a b : op float) : bool :=
  match a, b with
  | OStats u s, OStats u' s' => (u =? u') && stats_eqb s s'
  | OAdd k s t f fl, OAdd k' s' t' f' fl' =>
      (k =? k') && (s =? s') && (t =? t') && list_eqb fkind_pair_eqb f f' && feqb_bits fl fl'
  | ORemove k t, ORemove k' t' => (k =? k') && (t =? t')
  | OAbsorb t d, OAbsorb t' d' => (t =? t') && feqb_bits d d'
  | _, _ => false
  end.

Definition titem_eqb (a b : titem float) : bool :=
  match a, b with
  | TCall o, TCall o' => op_eqb o o'
  | TEv e p, TEv e' p' => event_eqb e e' && list_eqb uprobe_eqb p p'
  | TRet r p, TRet r' p' => option_eqb feqb_bits r r' && list_eqb uprobe_eqb p p'
  | _, _ => false
  end.

(* fuel: one more than the number of operations in all scripts always suffices
   (Proofs/ShieldReProofs.v, fuel_enough) *)
Definition case_fuel (q : slots float) : nat := S (total_ops q).

Definition model_out (c : case) : outcome (list (titem float)) :=
  let '(nu, nk, q, ops, _) := c in
  match runL FOps nu nk (case_fuel q) q (init (N := float)) ops with
  | Done (_, _, t) => Done t
  | OutOfFuel => OutOfFuel
  end.

Definition check_case (c : case) : bool :=
  let '(_, _, _, _, o) := c in
  match o, model_out c with
  | Ok t, Done t' => list_eqb titem_eqb t' t
  | _, _ => false
  end.

(* ------------------------------------------------------------------------------------ *)
(* Monitor: the property's own predicate on what the implementation reported.  It keeps only
   what an observer of the real manager knows: the stat vectors it served (from the input),
   and the previous probe (IsShielded / MaxShield / HasShield per unit).  Hidden shield
   strengths are never reconstructed from the model run. *)

Definition fin (x : float) : bool := negb (PrimFloat.is_nan x) && negb (PrimFloat.is_infinity x).

Definition fdim := dim FOps.
Definition fmaxf (a b : float) : float := if PrimFloat.ltb a b then b else a.

Definition nth_probe (p : list (uprobe float)) (u : Z) : option (uprobe float) :=
  if u <? 0 then None else nth_error p (Z.to_nat u).
Definition nth_flag (hs : list bool) (k : Z) : option bool :=
  if k <? 0 then None else nth_error hs (Z.to_nat k).

(* all probes except unit u are unchanged *)
Fixpoint others_same (i : Z) (u : Z) (p q : list (uprobe float)) : bool :=
  match p, q with
  | [], [] => true
  | a :: p', b :: q' => ((i =? u) || uprobe_eqb a b) && others_same (i + 1) u p' q'
  | _, _ => false
  end.
(* all flags except key k are unchanged *)
Fixpoint flags_same (i : Z) (k : Z) (p q : list bool) : bool :=
  match p, q with
  | [], [] => true
  | a :: p', b :: q' => ((i =? k) || Bool.eqb a b) && flags_same (i + 1) k p' q'
  | _, _ => false
  end.
(* keys whose flag went from true to false; flags never go from false to true *)
Fixpoint vanished (i : Z) (p q : list bool) : option (list Z) :=
  match p, q with
  | [], [] => Some []
  | a :: p', b :: q' =>
      match vanished (i + 1) p' q' with
      | None => None
      | Some r => if a && negb b then Some (i :: r) else if Bool.eqb a b then Some r else None
      end
  | _, _ => None
  end.
Definition count_true (l : list bool) : nat := List.length (filter (fun b => b) l).
Fixpoint zmem (k : Z) (l : list Z) : bool :=
  match l with [] => false | x :: r => (x =? k) || zmem k r end.
Fixpoint znodup (l : list Z) : bool :=
  match l with [] => true | x :: r => negb (zmem x r) && znodup r end.
Definition same_set (a b : list Z) : bool :=
  znodup a && Nat.eqb (List.length a) (List.length b) && forallb (fun x => zmem x b) a.

Definition removed_keys (tgt : Z) (evs : list (event float)) : option (list Z * event float) :=
  (* evs must be ERemoved* for tgt followed by exactly one EChange *)
  let fix go (l : list (event float)) (acc : list Z) :=
    match l with
    | [EChange t m n o i u] => Some (rev acc, EChange t m n o i u)
    | ERemoved k t :: r => if t =? tgt then go r (k :: acc) else None
    | _ => None
    end in go evs [].

Definition mon_step (st : list (Z * stats float)) (prev : list (uprobe float))
           (o : op float) (ob : obs float) : bool :=
  let cur := o_probe ob in
  match o with
  | OStats _ _ =>
      match o_evs ob, o_ret ob with [], None => list_eqb uprobe_eqb prev cur | _, _ => false end
  | OAdd key src tgt f flat =>
      match nth_probe prev tgt, nth_probe cur tgt, nth_probe prev src with
      | Some (sh0, mx0, hs0), Some (sh1, mx1, hs1), Some (_, mxsrc, _) =>
          let w := mkW [] st in
          let ssrc := get_st FOps w src in
          let stgt := get_st FOps w tgt in
          let base := base_hp FOps f flat ssrc stgt mxsrc in
          let s := strength FOps f flat ssrc stgt mxsrc in
          (match o_evs ob, o_ret ob with
           | [EAdded k' s' t' f' h'], None =>
               (k' =? key) && (s' =? src) && (t' =? tgt) && feqb_bits f' flat && feqb_bits h' base
           | _, _ => false
           end) &&
          others_same 0 tgt prev cur && sh1 && flags_same 0 key hs0 hs1 &&
          match nth_flag hs0 key, nth_flag hs1 key with
          | Some had, Some has =>
              has &&
              (if negb had then feqb_bits mx1 (fmaxf mx0 s)          (* a new shield joins *)
               else if Nat.eqb (count_true hs0) 1 then feqb_bits mx1 (fmaxf 0 s)  (* the only one is replaced *)
               else true)
          | _, _ => true
          end
      | _, _, _ => true
      end
  | ORemove key tgt =>
      match nth_probe prev tgt, nth_probe cur tgt with
      | Some (sh0, mx0, hs0), Some (sh1, mx1, hs1) =>
          match nth_flag hs0 key with
          | Some true =>
              (match o_evs ob, o_ret ob with
               | [ERemoved k t], None => (k =? key) && (t =? tgt)
               | _, _ => false
               end) &&
              others_same 0 tgt prev cur && flags_same 0 key hs0 hs1 &&
              (match nth_flag hs1 key with Some b => negb b | None => false end) &&
              Bool.eqb sh1 (existsb (fun b => b) hs1) && negb (PrimFloat.ltb mx0 mx1)
          | Some false =>
              (match o_evs ob, o_ret ob with [], None => true | _, _ => false end) &&
              list_eqb uprobe_eqb prev cur
          | None => true
          end
      | _, _ => true
      end
  | OAbsorb tgt d =>
      match nth_probe prev tgt, nth_probe cur tgt with
      | Some (sh0, mx0, hs0), Some (sh1, mx1, hs1) =>
          if negb sh0 || PrimFloat.leb d 0 then
            (* unshielded or non-positive damage: passed through unchanged, nothing happens *)
            (match o_evs ob, o_ret ob with
             | [], Some r => feqb_bits r d
             | _, _ => false
             end) && list_eqb uprobe_eqb prev cur
          else
            match o_ret ob, removed_keys tgt (o_evs ob), vanished 0 hs0 hs1 with
            | Some r, Some (gone, EChange t mid nw old din dout), Some van =>
                (t =? tgt) && feqb_bits din d && feqb_bits dout r && feqb_bits old mx0 &&
                feqb_bits nw mx1 && others_same 0 tgt prev cur &&
                same_set gone van &&                              (* removed = announced, once each *)
                Bool.eqb sh1 (existsb (fun b => b) hs1) &&
                negb (PrimFloat.ltb r 0) && negb (PrimFloat.ltb mx1 0) &&
                (if fin d && fin mx0 then
                   feqb_bits r (fdim d mx0) &&                    (* what exceeds the strongest shield *)
                   feqb_bits mx1 (fdim mx0 d) &&                  (* the strongest loses d, not below 0 *)
                   (negb sh1 || PrimFloat.ltb 0 mx1)              (* survivors are strictly positive *)
                 else true) &&
                (match mid with
                 | Some k => match nth_flag hs1 k with Some b => b | None => true end
                 | None => negb sh1 || negb (PrimFloat.ltb 0 mx1)
                 end)
            | _, _, _ => false
            end
      | _, _ => true
      end
  end.

Definition upd_stats (st : list (Z * stats float)) (o : op float) : list (Z * stats float) :=
  match o with OStats u s => aset st u s | _ => st end.

(* The trace is read with a stack of open calls.  A listener invocation belongs to the innermost
   open call (the outer ones are suspended inside their own Emit).  Per call, outer or nested:
   - the state seen by the listener of its FIRST event is the state the call committed; together
     with the state before the call, the call's own events and its return value it must satisfy
     the per-call predicate [mon_step] (the property's clauses for one call);
   - at each later event of the call, and when it returns, the visible state must be exactly the
     last state observed before (the end of the nested calls, or the previous event): the call
     itself writes nothing after its first emission.  A call without events changes nothing.
   The stat vectors the getter serves are followed through nested OStats operations. *)
Record mframe := mkF {
  f_op : op float; f_pre : list (uprobe float); f_st : list (Z * stats float);
  f_evs : list (event float);                      (* own events so far, latest first *)
  f_commit : option (list (uprobe float)) }.

Fixpoint mon_trace (st : list (Z * stats float)) (prev : list (uprobe float))
         (stk : list mframe) (t : list (titem float)) : bool :=
  match t with
  | [] => match stk with [] => true | _ => false end
  | TCall o :: r =>
      let st' := upd_stats st o in
      mon_trace st' prev (mkF o prev st' [] None :: stk) r
  | TEv e p :: r =>
      match stk with
      | [] => false
      | f :: s =>
          match f_commit f with
          | None => mon_trace st p (mkF (f_op f) (f_pre f) (f_st f) (e :: f_evs f) (Some p) :: s) r
          | Some c =>
              list_eqb uprobe_eqb prev p &&
              mon_trace st p (mkF (f_op f) (f_pre f) (f_st f) (e :: f_evs f) (Some c) :: s) r
          end
      end
  | TRet rt p :: r =>
      match stk with
      | [] => false
      | f :: s =>
          let commit := match f_commit f with Some c => c | None => p end in
          list_eqb uprobe_eqb prev p &&
          mon_step (f_st f) (f_pre f) (f_op f) (mkObs (rev (f_evs f)) rt commit) &&
          mon_trace st p s r
      end
  end.

(* the calls entered with an empty stack are the top-level operations, in order *)
Fixpoint top_calls (d : nat) (t : list (titem float)) : list (op float) :=
  match t with
  | [] => []
  | TCall o :: r => match d with 0%nat => o :: top_calls 1 r | _ => top_calls (S d) r end
  | TEv _ _ :: r => top_calls d r
  | TRet _ _ :: r => top_calls (pred d) r
  end.

Definition monitor_case (c : case) : bool :=
  let '(nu, nk, _, ops, o) := c in
  match o with
  | Ok t => list_eqb op_eqb (top_calls 0 t) ops &&
            mon_trace [] (probe FOps nu nk (init (N := float))) [] t
  | HarnessPanic _ => false
  end.
