(* C02 — Turns are scheduled by action value.
   Only statements, [exact] and [Print Assumptions] live here.

   First the theorems about FLAT histories (every operation an atomic [Turn.step]); then
   (C02_reentrant ...) the same for histories WITH re-entrant listeners: every event the manager emits
   (TurnTargetsAdded, TurnReset, GaugeChange, CurrentGaugeCostChange) has a listener slot holding a
   queue of scripts of the manager's own operations, run at the point where the Go code calls Emit
   (Model/TurnRe.v).  The re-entrant theorems reduce every such history to the flat ones: each call,
   top-level or nested at any depth, is an atomic step in the flat state of the calls entered before
   it.  All of them quantify over every top-level history, every listener table and every fuel; the
   out-of-fuel and illegal-listener-operation outcomes are excluded by the hypothesis that the run is
   [Done], and proved unreachable for fuel above the number of script operations and scripts free of
   StartTurn / ResetTurn / AddTargets. *)
From Coq Require Import List ZArith Bool Reals Permutation.
From SR Require Import Base.NumOps Model.Turn Proofs.TurnProofs.
From SR Require Import Model.TurnRe Proofs.TurnReProofs.
From SR Require Gen.FormulasTurn Proofs.FormulasTurnProofs.
Import ListNotations.

(* every state reachable by a legal history (real-number instance of the model): no negative
   gauge; a turn start picks a minimal action value, advances the clock by a non-negative
   amount, zeroes the acting unit and shrinks every other gauge by speed x elapsed AV; gauge
   changes touch one unit and never go below zero; the end of action resets the acting unit
   only, to base gauge x (fractional) cost *)
Theorem C02_turns_scheduled_by_action_value : C02_statement.
Proof. exact C02_holds. Qed.
Print Assumptions C02_turns_scheduled_by_action_value.

(* the same structural clauses for the binary64 instance that is executed and compared with the
   Go code (minimality under the hypothesis that the float comparison is a strict weak order on
   the action values that occur, i.e. no NaN) *)
Theorem C02_float_turn_start :
  forall s s' id a st tot, wf FloatOps s ->
    step FloatOps s OStart = (s', [EStart id a st tot]) ->
    start_spec FloatOps s s' id a tot /\ st = status FloatOps s'.
Proof. exact (start_ok FloatOps). Qed.
Print Assumptions C02_float_turn_start.

Theorem C02_float_gauge_change_touches_one_unit :
  forall s o s' outs id, wf FloatOps s ->
    (exists amt, o = OSetGauge id amt \/ o = OModNorm id amt \/ o = OModAV id amt) ->
    step FloatOps s o = (s', outs) -> set_gauge_spec FloatOps s s' id outs.
Proof. exact (set_gauge_ops_ok FloatOps). Qed.
Print Assumptions C02_float_gauge_change_touches_one_unit.

Theorem C02_float_reset_acting_unit_only :
  forall s s' outs, wf FloatOps s -> step FloatOps s OReset = (s', outs) -> reset_spec FloatOps s s' outs.
Proof. exact (reset_ok FloatOps). Qed.
Print Assumptions C02_float_reset_acting_unit_only.

(* documented tie order: the changed unit is put at index 0 of the remaining units (index 1
   when a turn is active and the unit is not the head) and the order is stably re-sorted; the
   stable insertion places an element after exactly the strictly smaller ones, i.e. in front
   of every unit of equal action value *)
Theorem C02_tie_order_position :
  forall N s id amt s' old new st,
    do_set_gauge N s id amt = (s', [EGauge id old new st]) ->
    let start := if active s && negb (Nat.eqb (index_of (order s) id) 0) then 1%nat else 0%nat in
    let rest := remove_id (order s) id in
    order s' = resort N s (firstn start rest ++ mkU id new :: skipn start rest).
Proof. exact do_set_gauge_order. Qed.
Print Assumptions C02_tie_order_position.

Theorem C02_tie_order_stable_insertion :
  forall N key x l, exists a b, l = a ++ b /\ insert_by N key x l = a ++ x :: b /\
    Forall (fun z => nltb N (key z) (key x) = true) a /\
    match b with [] => True | z :: _ => nltb N (key z) (key x) = false end.
Proof. exact insert_by_split. Qed.
Print Assumptions C02_tie_order_stable_insertion.

Theorem C02_sorted_after_resort :
  forall N key l, keys_ok N key l -> sorted N key (sort_by N key l) /\ Permutation l (sort_by N key l).
Proof. intros N key l H. split; [exact (sort_by_sorted N key l H)|exact (sort_by_perm N key l)]. Qed.
Print Assumptions C02_sorted_after_resort.

(* The translator tie: BaseGauge, the action value, its comparison, the gauge decrement and clock of
   StartTurn, the reset gauge, the floored gauge of SetGauge and the amounts of the three Modify
   calls are, for every number system and every argument, EQUAL to the definitions go2coq generates
   from turn/turn.go and turn/modify.go (Gen/FormulasTurn.v; the conjunction is spelled out in
   Proofs/FormulasTurnProofs.v, C02_formulas_statement). *)
Theorem C02_model_formulas_are_the_source : FormulasTurnProofs.C02_formulas_statement.
Proof. exact FormulasTurnProofs.C02_formulas_hold. Qed.
Print Assumptions C02_model_formulas_are_the_source.

(* StartTurn as a whole, with the generated pieces plugged in *)
Theorem C02_StartTurn_is_the_source : forall N s,
  step N s OStart =
  (if active s then (s, [EErr]) else
   match resort N s (order s) with
   | [] => (s, [EPanic])
   | (hd :: _) as sorted =>
       let a := FormulasTurn.manager_av N s hd in
       if negb (forallb (fun u => ntoZ_ok N (nmul N a (spd N s (u_id u)))) sorted)
       then (s, [EConvUndefined]) else
       let dec := map (fun u => mkU (u_id u) (FormulasTurn.startTurn_gauge N s a u)) sorted in
       let dec' := set_gauge_of dec (u_id hd) FormulasTurn.startTurn_actor_gauge in
       let s' := mkT N dec' (FormulasTurn.startTurn_cost N) true (u_id hd)
                     (FormulasTurn.startTurn_totalAV N (total s) a) (speeds s) in
       (s', [EStart (u_id hd) a (status N s') (total s')])
   end).
Proof. exact FormulasTurnProofs.gen_StartTurn_is_model. Qed.
Print Assumptions C02_StartTurn_is_the_source.

Theorem C02_nonvacuous :
  legal (init ROps) [@OAdd ROps [(1%Z, 100%R); (2%Z, 90%R)]; @OStart ROps; @OModNorm ROps 2%Z (-2)%R;
                     @OReset ROps; @OStart ROps].
Proof. exact legal_history_exists. Qed.

(* ------------------------------------------------------------------------------------------ *)
(* Histories WITH re-entrant listeners *)

(* the property over whole re-entrant histories (real-number instance; the statement is spelled out in
   Proofs/TurnReProofs.v, Part 5): explained by flat atomic steps; every call, outer or nested, entered
   in a reachable state satisfying every clause of C02; no negative gauge at any observation point *)
Theorem C02_reentrant : C02_reentrant_statement.
Proof. exact C02_reentrant_holds. Qed.
Print Assumptions C02_reentrant.

(* every number system (incl. binary64, the instance executed and compared with the Go code): the trace
   is explained by flat atomic steps and the final state is the flat execution of the calls in the
   order in which they were entered *)
Theorem C02_reentrant_explained_by_flat_steps :
  forall N fuel (q : slots N) s ops s2 q2 t,
    runL N fuel q s ops = Done (s2, q2, t) -> explained s [] t /\ s2 = exec s (tcalls t).
Proof. exact reentrant_explained. Qed.
Print Assumptions C02_reentrant_explained_by_flat_steps.

(* every number system: along a history whose AddTargets add new ids, every call - top-level or nested -
   is entered with unique ids and meets the per-call specifications (turn start, gauge change touches
   one unit and never goes below zero, reset of the acting unit only) in the flat state where it is
   entered *)
Theorem C02_reentrant_every_call_meets_spec :
  forall N fuel (q : slots N) ops s2 q2 t,
    runL N fuel q (init N) ops = Done (s2, q2, t) -> adds_ok (init N) (tcalls t) ->
    explained (init N) [] t /\ s2 = exec (init N) (tcalls t) /\ wf N s2 /\
    forall a o b, tcalls t = a ++ o :: b -> call_meets_spec (exec (init N) a) o.
Proof. exact reentrant_every_call_meets_spec. Qed.
Print Assumptions C02_reentrant_every_call_meets_spec.

(* the probe after every return, top-level or nested, is the flat state reached so far *)
Theorem C02_reentrant_observations :
  forall N fuel (q : slots N) s ops s2 q2 t,
    runL N fuel q s ops = Done (s2, q2, t) ->
    forall a rt p b, t = a ++ TRet rt p :: b -> p = probe_of N (exec s (tcalls a)).
Proof.
  intros N fuel q s ops s2 q2 t H.
  exact (explained_probes N t s [] (proj1 (reentrant_explained N fuel q s ops s2 q2 t H))).
Qed.
Print Assumptions C02_reentrant_observations.

(* the excluded outcomes are unreachable under checkable conditions *)
Theorem C02_reentrant_fuel_is_enough :
  forall N fuel (q : slots N) s ops, (total_ops N q < fuel)%nat -> runL N fuel q s ops <> OutOfFuel.
Proof. exact fuel_enough. Qed.
Print Assumptions C02_reentrant_fuel_is_enough.

Theorem C02_reentrant_legal_scripts_never_illegal :
  forall N fuel (q : slots N) s ops, scripts_legal N q = true -> runL N fuel q s ops <> Illegal.
Proof. exact legal_scripts_never_illegal. Qed.
Print Assumptions C02_reentrant_legal_scripts_never_illegal.

(* hence the hypotheses of C02_reentrant are met by EVERY history that starts with one AddTargets of
   new units with positive speeds and otherwise - top level and all listener scripts, any nesting -
   contains no AddTargets and only positive speed changes *)
Theorem C02_reentrant_static_histories :
  forall fuel (q : slots ROps) ivs ops,
    (total_ops ROps q < fuel)%nat -> scripts_legal ROps q = true ->
    slots_all ROps static_ok q -> Forall static_ok ops -> op_ok (init ROps) (OAdd ivs) ->
    exists s2 q2 t, runL ROps fuel q (init ROps) (OAdd ivs :: ops) = Done (s2, q2, t) /\
                    legal (init ROps) (tcalls t).
Proof. exact reentrant_static_history_runs. Qed.
Print Assumptions C02_reentrant_static_histories.

(* conservative extension: without listener scripts the re-entrant model is the flat model *)
Theorem C02_no_listener_scripts_is_flat :
  forall N fuel ops (q : slots N) s, total_ops N q = 0%nat ->
    exists q2, runL N (S fuel) q s ops = Done (exec s ops, q2, flat_trace s ops).
Proof. exact no_listeners_is_flat. Qed.
Print Assumptions C02_no_listener_scripts_is_flat.

(* StartTurn emits nothing: as a whole call it is its atomic step (the turn-start clauses hold of
   whole calls, whatever the listeners are) *)
Theorem C02_start_turn_call_is_atomic :
  forall N fuel (q : slots N) s s2 q2 t,
    call N fuel q s OStart = Done (s2, q2, t) ->
    s2 = fst (step N s OStart) /\ q2 = q /\ tcalls t = [OStart].
Proof. exact start_call_is_atomic. Qed.
Print Assumptions C02_start_turn_call_is_atomic.

(* what is NOT true with re-entrant listeners: "changes that unit only" / "that unit's gauge and no
   other is reset" read for the WHOLE call (state before against state at the return).  The clauses hold
   per call at its commit (the theorems above); a whole call leaves its own step followed by the flat
   steps of its listeners' calls, and meets the per-call specification as a whole when its listeners
   made no call. *)
Theorem C02_whole_gauge_call_touches_one_unit_refuted : ~ C02_whole_gauge_call_touches_one_unit_statement.
Proof. exact whole_gauge_call_touches_one_unit_refuted. Qed.
Print Assumptions C02_whole_gauge_call_touches_one_unit_refuted.

Theorem C02_whole_reset_call_resets_one_unit_refuted : ~ C02_whole_reset_call_resets_one_unit_statement.
Proof. exact whole_reset_call_resets_one_unit_refuted. Qed.
Print Assumptions C02_whole_reset_call_resets_one_unit_refuted.

Theorem C02_whole_call_partial :
  forall (N : NumOps) fuel (q : slots N) (s : tstate N) o s2 q2 t,
    call N fuel q s o = Done (s2, q2, t) ->
    (exists nested, tcalls t = o :: nested /\ s2 = exec (fst (step N s o)) nested) /\
    (tcalls t = [o] -> s2 = fst (step N s o)).
Proof. exact whole_call_partial. Qed.
Print Assumptions C02_whole_call_partial.

Theorem C02_whole_gauge_call_touches_one_unit_partial :
  forall (N : NumOps) fuel (q : slots N) (s : tstate N) o id s2 q2 t, wf N s ->
    (exists amt, o = OSetGauge id amt \/ o = OModNorm id amt \/ o = OModAV id amt) ->
    call N fuel q s o = Done (s2, q2, t) -> tcalls t = [o] ->
    set_gauge_spec N s s2 id (snd (step N s o)).
Proof. exact whole_gauge_call_touches_one_unit_partial. Qed.
Print Assumptions C02_whole_gauge_call_touches_one_unit_partial.

Theorem C02_whole_reset_call_resets_one_unit_partial :
  forall (N : NumOps) fuel (q : slots N) (s : tstate N) s2 q2 t, wf N s ->
    call N fuel q s OReset = Done (s2, q2, t) -> tcalls t = [OReset] ->
    reset_spec N s s2 (snd (step N s OReset)).
Proof. exact whole_reset_call_resets_one_unit_partial. Qed.
Print Assumptions C02_whole_reset_call_resets_one_unit_partial.

(* non-vacuity with re-entrant histories: at the real-number instance a listener table whose run
   completes and is legal, the TurnTargetsAdded listener's call being the second call of the trace; at
   binary64, by evaluation, a history nested three levels deep (AddTargets > ModifyGaugeNormalized >
   SetCurrentGaugeCost > ModifyGaugeNormalized) and a TurnReset listener that sets a gauge *)
Theorem C02_reentrant_nonvacuous :
  exists s2 q2 t,
    runL ROps 9 re_q (init ROps) (@OAdd ROps re_ivs :: re_ops) = Done (s2, q2, t) /\
    legal (init ROps) (tcalls t) /\
    exists rest, tcalls t = @OAdd ROps re_ivs :: @OModNorm ROps 2%Z (- (1 / 10))%R :: rest.
Proof. exact reentrant_legal_history_exists. Qed.

Theorem C02_reentrant_nonvacuous_binary64 :
  exists s2 q2 t, runL FloatOps 5 fre_q (init FloatOps) fre_ops = Done (s2, q2, t) /\
                  tcalls t = fre_calls /\ adds_ok (init FloatOps) (tcalls t) /\
                  total_ops FloatOps q2 = 0%nat /\ atarget s2 = 2%Z.
Proof. exact fre_runs. Qed.
