(* One definition, two number systems: models write their arithmetic over [NumOps] and are
   instantiated at primitive binary64 (executed, compared bit-exactly with Go) and at the
   real numbers (algebraic proofs).  The gap between the two instances is IEEE rounding. *)
From Coq Require Import ZArith Floats Reals Lra Lia.
From SR Require Import Base.CaseLib.
Open Scope Z_scope.

Record NumOps := mkNumOps {
  num : Type;
  nadd : num -> num -> num;
  nsub : num -> num -> num;
  nmul : num -> num -> num;
  ndiv : num -> num -> num;
  nltb : num -> num -> bool;
  nleb : num -> num -> bool;
  neqb : num -> num -> bool;
  nofZ : Z -> num;            (* Go: float64(int64) — exact below 2^53 *)
  ntoZ : num -> Z;            (* Go: int64(float64), truncation toward zero *)
  ntoZ_ok : num -> bool;      (* the conversion is defined (finite, in int64 range) *)
}.

(* ---- binary64 ---- *)
Definition Z2F (z : Z) : float :=
  if z <? 0 then (- (of_uint63 (Uint63.of_Z (- z))))%float else of_uint63 (Uint63.of_Z z).

Definition FloatOps : NumOps := {|
  num := float;
  nadd := PrimFloat.add; nsub := PrimFloat.sub; nmul := PrimFloat.mul; ndiv := PrimFloat.div;
  nltb := PrimFloat.ltb; nleb := PrimFloat.leb; neqb := PrimFloat.eqb;
  nofZ := Z2F; ntoZ := ftoZ; ntoZ_ok := f2i_defined |}.

(* ---- reals ---- *)
Open Scope R_scope.
Definition Rltb (a b : R) : bool := if Rlt_dec a b then true else false.
Definition Rleb (a b : R) : bool := if Rle_dec a b then true else false.
Definition Reqb (a b : R) : bool := if Req_EM_T a b then true else false.
(* truncation toward zero *)
Definition Rfloor (x : R) : Z := (up x - 1)%Z.
Definition Rtrunc (x : R) : Z := if Rle_dec 0 x then Rfloor x else (- Rfloor (- x))%Z.

Definition ROps : NumOps := {|
  num := R;
  nadd := Rplus; nsub := Rminus; nmul := Rmult; ndiv := Rdiv;
  nltb := Rltb; nleb := Rleb; neqb := Reqb;
  nofZ := IZR; ntoZ := Rtrunc; ntoZ_ok := fun _ => true |}.

Lemma Rltb_true a b : Rltb a b = true <-> a < b.
Proof. unfold Rltb. destruct (Rlt_dec a b); split; intros; try discriminate; auto; lra. Qed.
Lemma Rltb_false a b : Rltb a b = false <-> b <= a.
Proof. unfold Rltb. destruct (Rlt_dec a b); split; intros; try discriminate; auto; lra. Qed.
Lemma Rleb_true a b : Rleb a b = true <-> a <= b.
Proof. unfold Rleb. destruct (Rle_dec a b); split; intros; try discriminate; auto; lra. Qed.
Lemma Rleb_false a b : Rleb a b = false <-> b < a.
Proof. unfold Rleb. destruct (Rle_dec a b); split; intros; try discriminate; auto; lra. Qed.

Lemma Rfloor_spec x : IZR (Rfloor x) <= x < IZR (Rfloor x) + 1.
Proof.
  unfold Rfloor. destruct (archimed x) as [H1 H2]. rewrite minus_IZR. simpl. lra.
Qed.

Lemma Rtrunc_nonneg x : 0 <= x -> (0 <= Rtrunc x)%Z /\ IZR (Rtrunc x) <= x < IZR (Rtrunc x) + 1.
Proof.
  intros Hx. unfold Rtrunc. destruct (Rle_dec 0 x) as [_|n]; [|lra].
  pose proof (Rfloor_spec x) as [H1 H2]. split; [|lra].
  assert (H : IZR (-1) < IZR (Rfloor x)) by (simpl; lra).
  apply lt_IZR in H. lia.
Qed.
