(* The gcs grammar as a specification, independent of the parser model.

   * [level]: binary operators by precedence (or 2, and 3, equality 4, ordering 5, additive 6,
     multiplicative 7), unary 8, call 9, atoms 10;
   * [unparse_*]: the canonical token sequence of a tree, parentheses only where precedence or
     left association require them (left operand of an operator of level p: level >= p; right
     operand: level > p; operand of a unary operator: level >= 8; callee: level >= 9);
   * a canonical token is a [utok]: fixed type and text, or a number literal given by its
     value (it matches every number/bool lexeme with that value);
   * [derives_b a ts]: the token list [ts] is a derivation of the tree [a] - the canonical
     sequence up to redundant parentheses around expressions, the order of the entries of a
     map literal, an optional ';' before the body of a for without post statement, and the
     position of default in a switch.  Trees with nil parts that the grammar requires
     (operands, conditions of if/while/case, values of let/assign/return) derive nothing.
   No proofs here. *)
From Coq Require Import List ZArith Bool String Ascii Floats.
From SR Require Import Base.CaseLib Model.GcsAst Model.GcsLex Model.GcsNum Model.GcsParse.
Import ListNotations.
Open Scope Z_scope.

Inductive utok :=
| UT (k : toktype) (v : string)
| UNum (i : Z) (f : float) (isf : bool).

Definition level (e : expr) : Z :=
  match e with
  | EBinary _ _ op => tok_prec (t_typ op)
  | EUnary _ _ => 8
  | ECall _ _ => 9
  | _ => 10
  end.

Definition LP := UT ItemLeftParen "(". Definition RP := UT ItemRightParen ")".
Definition paren_if (m : Z) (e : expr) (ts : list utok) : list utok :=
  if m <? level e then ts else LP :: ts ++ [RP].

(* the first canonical token is `fn` *)
Fixpoint starts_fn (e : expr) : bool :=
  match e with
  | EFuncLit _ _ => true
  | ECall f _ => if 8 <? level f then starts_fn f else false
  | EBinary l _ op => if tok_prec (t_typ op) - 1 <? level l then starts_fn l else false
  | _ => false
  end.

Definition utok_of (t : token) : utok := UT (t_typ t) (t_val t).
Definition uident (v : string) : utok := UT ItemIdentifier v.
Definition SEMI := UT ItemTerminateLine ";".
Definition COMMA := UT ItemComma ",".

Fixpoint sep_by {A} (sep : A) (ls : list (list A)) : list A :=
  match ls with
  | [] => []
  | [x] => x
  | x :: r => x ++ sep :: sep_by sep r
  end.

Definition uparams (args : list string) : list utok :=
  LP :: sep_by COMMA (map (fun a => [uident a]) args) ++ [RP].

Definition ctrl_tok (c : ctrltyp) : list utok :=
  match c with
  | CtrlBreak => [UT KeywordBreak "break"]
  | CtrlContinue => [UT KeywordContinue "continue"]
  | CtrlFallthrough => [UT KeywordFallthrough "fallthrough"]
  | InvalidCtrl => []
  end.

Fixpoint unparse_expr (e : expr) : list utok :=
  match e with
  | ENil => []
  | ENum i f s => [UNum i f s]
  | EStr v => [UT ItemString v]
  | EBool b => []
  | ENull => [UT ItemNull "null"]
  | EFuncLit args body => UT KeywordFn "fn" :: uparams args ++ unparse_block body
  | EIdent v => [uident v]
  | ECall f args =>
      paren_if 8 f (unparse_expr f) ++ LP :: sep_by COMMA (map unparse_expr args) ++ [RP]
  | EUnary op r => utok_of op :: paren_if 7 r (unparse_expr r)
  | EBinary l r op =>
      let p := tok_prec (t_typ op) in
      paren_if (p - 1) l (unparse_expr l) ++ utok_of op :: paren_if p r (unparse_expr r)
  | EMap arr fields =>
      UT ItemLeftSquareParen "[" ::
      sep_by COMMA (map unparse_expr arr ++
                    map (fun kv => match kv with (k, v) => uident k :: UT ItemAssign "=" :: unparse_expr v end) fields)
      ++ [UT ItemRightSquareParen "]"]
  end
with unparse_stmt (s : stmt) : list utok :=
  match s with
  | SNil => []
  | SBlock b => unparse_block b
  | SAssign id v => utok_of id :: UT ItemAssign "=" :: unparse_expr v
  | SLet id v => UT KeywordLet "let" :: utok_of id :: UT ItemAssign "=" :: unparse_expr v
  | SReturn v => UT KeywordReturn "return" :: unparse_expr v
  | SCtrl c => ctrl_tok c
  | SIf c b els =>
      UT KeywordIf "if" :: unparse_expr c ++ unparse_block b ++
      match els with SNil => [] | _ => UT KeywordElse "else" :: unparse_stmt els end
  | SSwitch c cases def =>
      UT KeywordSwitch "switch" :: unparse_expr c ++ UT ItemLeftBrace "{" ::
      flat_map unparse_case cases ++
      match def with
      | BNil => []
      | Block l => UT KeywordDefault "default" :: UT ItemColon ":" :: flat_map unparse_node l
      end ++ [UT ItemRightBrace "}"]
  | SCase c => unparse_case c
  | SFn fv args body => UT KeywordFn "fn" :: utok_of fv :: uparams args ++ unparse_block body
  | SWhile c b => UT KeywordWhile "while" :: unparse_expr c ++ unparse_block b
  | SFor init cond post body =>
      UT KeywordFor "for" ::
      match init with SNil => [] | _ => unparse_stmt init ++ [SEMI] end ++
      unparse_expr cond ++
      match post with SNil => [] | _ => SEMI :: unparse_stmt post end ++
      unparse_block body
  end
with unparse_case (c : casestmt) : list utok :=
  match c with
  | Case cc body =>
      UT KeywordCase "case" :: unparse_expr cc ++ UT ItemColon ":" ::
      match body with BNil => [] | Block l => flat_map unparse_node l end
  end
with unparse_node (x : node) : list utok :=
  match x with
  | NExpr e =>
      (if starts_fn e then LP :: unparse_expr e ++ [RP] else unparse_expr e) ++ [SEMI]
  | NStmt s =>
      match s with
      | SAssign _ _ | SLet _ _ | SReturn _ | SCtrl _ => unparse_stmt s ++ [SEMI]
      | _ => unparse_stmt s
      end
  end
with unparse_block (b : block) : list utok :=
  match b with
  | BNil => []
  | Block l => UT ItemLeftBrace "{" :: flat_map unparse_node l ++ [UT ItemRightBrace "}"]
  end.

Definition unparse_program (p : block) : list utok :=
  match p with BNil => [] | Block l => flat_map unparse_node l end.

(* ---- a canonical token against a lexed one ---- *)
Definition num_matches (i : Z) (f : float) (s : bool) (t : ltoken) : bool :=
  let want := ENum i f s in
  match lt_typ t with
  | ItemNumber => match number_lit (lt_val t) with Some e => expr_eqb e want | None => false end
  | ItemBool => match bool_lit (lt_val t) with Some e => expr_eqb e want | None => false end
  | _ => false
  end.
Definition utok_matches (u : utok) (t : ltoken) : bool :=
  match u with
  | UT k v => toktype_eqb k (lt_typ t) && string_eqb v (lt_val t)
  | UNum i f s => num_matches i f s t
  end.
Fixpoint utoks_match (us : list utok) (ts : list ltoken) : bool :=
  match us, ts with
  | [], [] => true
  | u :: us', t :: ts' => utok_matches u t && utoks_match us' ts'
  | _, _ => false
  end.

(* the lexed stream of a whole source: canonical tokens followed by ItemEOF *)
Definition is_eof (t : ltoken) : bool := toktype_eqb (lt_typ t) ItemEOF.
Fixpoint program_matches (us : list utok) (ts : list ltoken) : bool :=
  match us, ts with
  | [], [t] => is_eof t
  | u :: us', t :: ts' => utok_matches u t && program_matches us' ts'
  | _, _ => false
  end.

(* ---- the recogniser: is [ts] a derivation of the tree? ---- *)
Definition expect (k : toktype) (ts : list ltoken) : option (list ltoken) :=
  match ts with
  | t :: r => if toktype_eqb (lt_typ t) k then Some r else None
  | [] => None
  end.
Definition expect_u (u : utok) (ts : list ltoken) : option (list ltoken) :=
  match ts with
  | t :: r => if utok_matches u t then Some r else None
  | [] => None
  end.
Definition obind {A B} (x : option A) (f : A -> option B) : option B :=
  match x with Some a => f a | None => None end.
Notation "'ob' x <- e ; f" := (obind e (fun x => f)) (at level 200, x pattern, e at level 100, f at level 200).
Definition orelse {A} (x y : option A) : option A := match x with Some _ => x | None => y end.

Fixpoint expect_params (args : list string) (first : bool) (ts : list ltoken) : option (list ltoken) :=
  match args with
  | [] => expect ItemRightParen ts
  | a :: r =>
      ob ts <- (if first then Some ts else expect ItemComma ts);
      ob ts <- expect_u (uident a) ts;
      expect_params r false ts
  end.

Fixpoint remove_key {A} (k : string) (m : list (string * A)) : option (A * list (string * A)) :=
  match m with
  | [] => None
  | (k', v) :: r =>
      if string_eqb k k' then Some (v, r)
      else match remove_key k r with Some (x, r') => Some (x, (k', v) :: r') | None => None end
  end.

Definition is_stmt_semi (s : stmt) : bool :=
  match s with SAssign _ _ | SLet _ _ | SReturn _ | SCtrl _ => true | _ => false end.

(* every function spends one unit of fuel per call; [length ts + size of the tree] suffices *)
Fixpoint d_expr (n : nat) (m : Z) (e : expr) (ts : list ltoken) {struct n} : option (list ltoken) :=
  match n with O => None | S n =>
    orelse
      (if m <? level e then d_bare n e ts else None)
      (ob ts <- expect ItemLeftParen ts; ob ts <- d_expr n 1 e ts; expect ItemRightParen ts)
  end
with d_bare (n : nat) (e : expr) (ts : list ltoken) {struct n} : option (list ltoken) :=
  match n with O => None | S n =>
    match e with
    | ENil | EBool _ => None
    | ENum i f s => expect_u (UNum i f s) ts
    | EStr v => expect_u (UT ItemString v) ts
    | ENull => expect ItemNull ts
    | EIdent v => expect_u (uident v) ts
    | EFuncLit args body =>
        ob ts <- expect KeywordFn ts; ob ts <- expect ItemLeftParen ts;
        ob ts <- expect_params args true ts; d_block n body ts
    | ECall f args =>
        ob ts <- d_expr n 8 f ts; ob ts <- expect ItemLeftParen ts; d_args n args true ts
    | EUnary op r => ob ts <- expect_u (utok_of op) ts; d_expr n 7 r ts
    | EBinary l r op =>
        let p := tok_prec (t_typ op) in
        ob ts <- d_expr n (p - 1) l ts; ob ts <- expect_u (utok_of op) ts; d_expr n p r ts
    | EMap arr fields =>
        ob ts <- expect ItemLeftSquareParen ts;
        match arr, fields with
        | [], [] => expect ItemRightSquareParen ts
        | _, _ => d_map n arr fields ts
        end
    end
  end
(* arguments after '(' up to and including ')' *)
with d_args (n : nat) (args : list expr) (first : bool) (ts : list ltoken) {struct n}
     : option (list ltoken) :=
  match n with O => None | S n =>
    match args with
    | [] => expect ItemRightParen ts
    | a :: r =>
        ob ts <- (if first then Some ts else expect ItemComma ts);
        ob ts <- d_expr n 1 a ts;
        d_args n r false ts
    end
  end
(* one map entry, then ',' and more or ']' ; at least one entry is pending *)
with d_map (n : nat) (arr : list expr) (fields : list (string * expr)) (ts : list ltoken)
     {struct n} : option (list ltoken) :=
  match n with O => None | S n =>
    let after (arr' : list expr) (fields' : list (string * expr)) (ts : list ltoken) :=
      match arr', fields' with
      | [], [] => expect ItemRightSquareParen ts
      | _, _ => ob ts <- expect ItemComma ts; d_map n arr' fields' ts
      end in
    let as_field :=
      match ts with
      | t1 :: t2 :: r =>
          if toktype_eqb (lt_typ t1) ItemIdentifier && toktype_eqb (lt_typ t2) ItemAssign then
            match remove_key (lt_val t1) fields with
            | Some (v, fields') => Some (ob ts <- d_expr n 1 v r; after arr fields' ts)
            | None => Some None
            end
          else None
      | _ => None
      end in
    match as_field with
    | Some res => res
    | None =>
        match arr with
        | a :: arr' => ob ts <- d_expr n 1 a ts; after arr' fields ts
        | [] => None
        end
    end
  end
with d_block (n : nat) (b : block) (ts : list ltoken) {struct n} : option (list ltoken) :=
  match n with O => None | S n =>
    match b with
    | BNil => None
    | Block l => ob ts <- expect ItemLeftBrace ts; ob ts <- d_nodes n l ts; expect ItemRightBrace ts
    end
  end
with d_nodes (n : nat) (l : list node) (ts : list ltoken) {struct n} : option (list ltoken) :=
  match n with O => None | S n =>
    match l with
    | [] => Some ts
    | x :: r => ob ts <- d_node n x ts; d_nodes n r ts
    end
  end
with d_node (n : nat) (x : node) (ts : list ltoken) {struct n} : option (list ltoken) :=
  match n with O => None | S n =>
    match x with
    | NExpr e =>
        (* an expression statement cannot begin with `fn` (that is a declaration) *)
        ob ts <- (if starts_fn e
                  then (ob ts <- expect ItemLeftParen ts; ob ts <- d_expr n 1 e ts; expect ItemRightParen ts)
                  else d_expr n 1 e ts);
        expect ItemTerminateLine ts
    | NStmt s =>
        ob ts <- d_stmt n s ts;
        if is_stmt_semi s then expect ItemTerminateLine ts else Some ts
    end
  end
with d_stmt (n : nat) (s : stmt) (ts : list ltoken) {struct n} : option (list ltoken) :=
  match n with O => None | S n =>
    match s with
    | SNil | SCase _ => None
    | SBlock b => d_block n b ts
    | SAssign id v =>
        ob ts <- expect_u (utok_of id) ts; ob ts <- expect ItemAssign ts; d_expr n 1 v ts
    | SLet id v =>
        ob ts <- expect KeywordLet ts; ob ts <- expect_u (utok_of id) ts;
        ob ts <- expect ItemAssign ts; d_expr n 1 v ts
    | SReturn v => ob ts <- expect KeywordReturn ts; d_expr n 1 v ts
    | SCtrl c =>
        match c with
        | CtrlBreak => expect KeywordBreak ts
        | CtrlContinue => expect KeywordContinue ts
        | CtrlFallthrough => expect KeywordFallthrough ts
        | InvalidCtrl => None
        end
    | SIf c b els =>
        ob ts <- expect KeywordIf ts; ob ts <- d_expr n 1 c ts; ob ts <- d_block n b ts;
        match els with
        | SNil => Some ts
        | SIf _ _ _ | SBlock _ => ob ts <- expect KeywordElse ts; d_stmt n els ts
        | _ => None
        end
    | SSwitch c cases def =>
        ob ts <- expect KeywordSwitch ts;
        ob ts <- (match c with ENil => Some ts | _ => d_expr n 1 c ts end);
        ob ts <- expect ItemLeftBrace ts;
        d_cases n cases def ts
    | SFn fv args body =>
        ob ts <- expect KeywordFn ts; ob ts <- expect_u (utok_of fv) ts;
        ob ts <- expect ItemLeftParen ts; ob ts <- expect_params args true ts; d_block n body ts
    | SWhile c b => ob ts <- expect KeywordWhile ts; ob ts <- d_expr n 1 c ts; d_block n b ts
    | SFor init cond post body =>
        ob ts <- expect KeywordFor ts;
        match init, cond, post with
        | SNil, ENil, SNil => d_block n body ts
        | _, _, _ =>
            ob ts <- (match init with
                      | SNil => Some ts
                      | SLet _ _ | SAssign _ _ => ob ts <- d_stmt n init ts; expect ItemTerminateLine ts
                      | _ => None
                      end);
            ob ts <- d_expr n 1 cond ts;
            ob ts <- (match post with
                      | SNil => orelse (ob ts' <- expect ItemTerminateLine ts;
                                        match ts' with
                                        | t :: _ => if toktype_eqb (lt_typ t) ItemLeftBrace then Some ts' else None
                                        | [] => None
                                        end) (Some ts)
                      | SAssign _ _ => ob ts <- expect ItemTerminateLine ts; d_stmt n post ts
                      | _ => None
                      end);
            d_block n body ts
        end
    end
  end
(* the entries of a switch after '{' up to and including '}'; default (if any) once, anywhere *)
with d_cases (n : nat) (cases : list casestmt) (def : block) (ts : list ltoken) {struct n}
     : option (list ltoken) :=
  match n with O => None | S n =>
    match ts with
    | [] => None
    | t :: r =>
        if toktype_eqb (lt_typ t) ItemRightBrace then
          match cases, def with [], BNil => Some r | _, _ => None end
        else if toktype_eqb (lt_typ t) KeywordDefault then
          match def with
          | Block l => ob ts <- expect ItemColon r; ob ts <- d_nodes n l ts; d_cases n cases BNil ts
          | BNil => None
          end
        else if toktype_eqb (lt_typ t) KeywordCase then
          match cases with
          | Case cc (Block l) :: cases' =>
              ob ts <- d_expr n 1 cc r; ob ts <- expect ItemColon ts;
              ob ts <- d_nodes n l ts; d_cases n cases' def ts
          | _ => None
          end
        else None
    end
  end.

Definition derive_fuel (ts : list ltoken) : nat := (8 * List.length ts + 16)%nat.

(* the whole lexed stream (ending in ItemEOF) derives the program *)
Definition derives_b (p : block) (ts : list ltoken) : bool :=
  match p with
  | BNil => false
  | Block l =>
      match d_nodes (derive_fuel ts) l ts with
      | Some [t] => is_eof t
      | _ => false
      end
  end.
