(* The translator tie at the formula level (DESIGN.md section 2, way T), part 1: constants, the
   property tables of pkg/engine/prop, info/map.go (PropMap.Modify) and info/stats.go (statCalc and
   the derived getters).

   coq/Gen/Formulas*.v are GENERATED from the Go source by harness/cmd/go2coq (formulas.go): every
   definition there is the translation of a Go function, of named statements of a Go function,
   or of a constant / table of the source.  The Proofs/Formulas*Proofs.v files prove, for every
   generated definition, that it is EQUAL to the hand-written model definition the property
   theorems are about — for every NumOps instance (binary64 and the reals alike) and every
   argument.  So an edit of the Go source that changes a formula, a literal, a comparison, the
   party a factor reads or a table row makes one of these lemmas fail for all inputs, independent
   of the case generator.  Nothing here changes a model or a property theorem. *)
From Coq Require Import List ZArith Bool Floats.
From SR Require Import Model.CombatCore.
From SR Require Gen.FormulasInfo.
Import ListNotations.
Open Scope Z_scope.

(* ------------------------------------------------------------------ constants and tables *)

Lemma gen_prop_codes_are_model :
  FormulasInfo.prop_HPBase = pHPBase /\ FormulasInfo.prop_HPPercent = pHPPercent /\ FormulasInfo.prop_HPFlat = pHPFlat /\
  FormulasInfo.prop_HPConvert = pHPConvert /\ FormulasInfo.prop_ATKBase = pATKBase /\ FormulasInfo.prop_ATKPercent = pATKPercent /\
  FormulasInfo.prop_ATKFlat = pATKFlat /\ FormulasInfo.prop_ATKConvert = pATKConvert /\ FormulasInfo.prop_DEFBase = pDEFBase /\
  FormulasInfo.prop_DEFPercent = pDEFPercent /\ FormulasInfo.prop_DEFFlat = pDEFFlat /\ FormulasInfo.prop_DEFConvert = pDEFConvert /\
  FormulasInfo.prop_CritChance = pCritChance /\ FormulasInfo.prop_CritDMG = pCritDMG /\
  FormulasInfo.prop_EnergyRegen = pEnergyRegen /\ FormulasInfo.prop_EnergyRegenConvert = pEnergyRegenConvert /\
  FormulasInfo.prop_HealBoost = pHealBoost /\ FormulasInfo.prop_HealBoostConvert = pHealBoostConvert /\
  FormulasInfo.prop_HealTaken = pHealTaken /\ FormulasInfo.prop_BreakEffect = pBreakEffect /\
  FormulasInfo.prop_AllDamageRES = pAllDamageRES /\ FormulasInfo.prop_AllDamagePEN = pAllDamagePEN /\
  FormulasInfo.prop_AllDamageTaken = pAllDamageTaken /\ FormulasInfo.prop_AllDamagePercent = pAllDamagePercent /\
  FormulasInfo.prop_DOTDamagePercent = pDOTDamagePercent /\ FormulasInfo.prop_AllStanceDMGPercent = pAllStanceDMGPercent /\
  FormulasInfo.prop_AllDamageReduce = pAllDamageReduce /\ FormulasInfo.prop_Fatigue = pFatigue.
Proof. repeat split; reflexivity. Qed.

Lemma gen_enum_values_are_model :
  FormulasInfo.TargetState_Invalid = stInvalid /\ FormulasInfo.TargetState_Dead = stDead /\
  FormulasInfo.TargetState_Limbo = stLimbo /\ FormulasInfo.TargetState_Alive = stAlive.
Proof. repeat split; reflexivity. Qed.

(* prop.DamagePercent / DamageRES / DamagePEN / DamageTaken and the Go maps behind them *)
Lemma gen_prop_DamagePercent_is_model : forall dt, FormulasInfo.prop_DamagePercent dt = dmgPercentProp dt.
Proof. reflexivity. Qed.
Lemma gen_prop_DamageRES_is_model : forall dt, FormulasInfo.prop_DamageRES dt = dmgRESProp dt.
Proof. reflexivity. Qed.
Lemma gen_prop_DamagePEN_is_model : forall dt, FormulasInfo.prop_DamagePEN dt = dmgPENProp dt.
Proof. reflexivity. Qed.
Lemma gen_prop_DamageTaken_is_model : forall dt, FormulasInfo.prop_DamageTaken dt = dmgTakenProp dt.
Proof. reflexivity. Qed.

(* ------------------------------------------------------------------ info/map.go, info/stats.go *)

Lemma gen_Modify_is_model : forall N m p amt, FormulasInfo.PropMap_Modify N m p amt = modifyp N m p amt.
Proof. reflexivity. Qed.

Lemma gen_statCalc_is_model : forall N b p f, FormulasInfo.statCalc N b p f = statCalc N b p f.
Proof. reflexivity. Qed.
Lemma gen_GetProperty_is_model : forall N s p, FormulasInfo.GetProperty N s p = sget N s p.
Proof. reflexivity. Qed.
Lemma gen_ID_is_model : forall N s, FormulasInfo.ID N s = s_id N s.
Proof. reflexivity. Qed.
Lemma gen_Level_is_model : forall N s, FormulasInfo.Level N s = s_level N s.
Proof. reflexivity. Qed.
Lemma gen_CurrentHPRatio_is_model : forall N s, FormulasInfo.CurrentHPRatio N s = s_ratio N s.
Proof. reflexivity. Qed.
Lemma gen_Stance_is_model : forall N s, FormulasInfo.Stance N s = s_stance N s.
Proof. reflexivity. Qed.
Lemma gen_MaxHP_is_model : forall N s, FormulasInfo.MaxHP N s = MaxHP N s.
Proof. reflexivity. Qed.
Lemma gen_HP_is_model : forall N s, FormulasInfo.HP N s = MaxHP N s.
Proof. reflexivity. Qed.
Lemma gen_ATK_is_model : forall N s, FormulasInfo.ATK N s = ATK N s.
Proof. reflexivity. Qed.
Lemma gen_DEF_is_model : forall N s, FormulasInfo.DEF N s = DEF N s.
Proof. reflexivity. Qed.
Lemma gen_CurrentHP_is_model : forall N s, FormulasInfo.CurrentHP N s = CurrentHP N s.
Proof. reflexivity. Qed.
Lemma gen_CritChance_is_model : forall N s, FormulasInfo.CritChance N s = CritChance N s.
Proof. reflexivity. Qed.
Lemma gen_CritDamage_is_model : forall N s, FormulasInfo.CritDamage N s = CritDamage N s.
Proof. reflexivity. Qed.
Lemma gen_HealBoost_is_model : forall N s, FormulasInfo.HealBoost N s = HealBoost N s.
Proof. reflexivity. Qed.
Lemma gen_EnergyRegen_is_model : forall N s, FormulasInfo.EnergyRegen N s = EnergyRegen N s.
Proof. reflexivity. Qed.
Lemma gen_BreakEffect_is_model : forall N s, FormulasInfo.BreakEffect N s = BreakEffect N s.
Proof. reflexivity. Qed.
Lemma gen_DamagePercent_is_model : forall N s dt, FormulasInfo.DamagePercent N s dt = DamagePercent N s dt.
Proof. reflexivity. Qed.
Lemma gen_DamageRES_is_model : forall N s dt, FormulasInfo.DamageRES N s dt = DamageRES N s dt.
Proof. reflexivity. Qed.

