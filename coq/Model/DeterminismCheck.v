(* Checker for the repeated-run cases of C01. *)
From Coq Require Import List ZArith Bool String.
From SR Require Import Base.CaseLib Model.Determinism.
Import ListNotations.
Open Scope Z_scope.

Definition case := (det_in * det_out)%type.

(* model == implementation: the observed flags are exactly the predicted ones (all true) *)
Definition check_case (c : case) : bool :=
  match snd c with
  | DetOut _ flags _ _ _ => list_eqb Bool.eqb flags (predicted_flags (fst c))
  | HarnessPanic _ => false
  end.

(* the property's own predicate on what the implementation did, independent of the flags the
   harness computed: five repetitions were made and their content hashes are all equal *)
Definition monitor_case (c : case) : bool :=
  match snd c with
  | DetOut _ _ (h0 :: hs) _ _ =>
      Nat.eqb (List.length (h0 :: hs)) repetitions && forallb (String.eqb h0) hs
  | _ => false
  end.

(* printed into replay files: the prediction, next to the first difference the implementation showed *)
Definition model_out (c : case) : list bool * string * string :=
  (predicted_flags (fst c),
   "every repetition of one (configuration, script, seed) must equal repetition 0; first difference observed:"%string,
   match snd c with DetOut _ _ _ _ d => d | HarnessPanic m => m end).
