package main

// C01 — seeded runs are reproducible.
//
// The REAL simulation.Run (all registered content is linked in through pkg/simulation's blank
// imports) is run on a generated configuration + gcs script + seed three times in this process
// and once in each of two fresh child processes (this binary re-executed); the iteration
// result (bit patterns), the printed script output and the whole event log, serialised line by
// line with the repository's own JSON logging (logging.Wrap + encoding/json, exactly what
// logging.DefaultLogger writes), must be identical in all five repetitions.
//
// Input term  : (chars, enemies, script, seed, cycle limit, probes)
// Output term : DetOut status flags hashes lines first_difference
//   flags  = for each repetition 1..4 compared with repetition 0:
//            [result equal; log equal; printed output equal; error/panic status equal]
//   hashes = sha256 of (result, log, printed, status) of each of the five repetitions

import (
	"bytes"
	"context"
	"crypto/sha256"
	"encoding/json"
	"fmt"
	"math"
	"os"
	"os/exec"
	"runtime/debug"
	"strings"
	"sync"

	"github.com/simimpact/srsim/pkg/engine"
	"github.com/simimpact/srsim/pkg/engine/event"
	"github.com/simimpact/srsim/pkg/engine/hook"
	"github.com/simimpact/srsim/pkg/engine/info"
	"github.com/simimpact/srsim/pkg/engine/logging"
	"github.com/simimpact/srsim/pkg/engine/modifier"
	"github.com/simimpact/srsim/pkg/engine/target/character"
	"github.com/simimpact/srsim/pkg/key"
	"github.com/simimpact/srsim/pkg/logic/gcs/eval"
	"github.com/simimpact/srsim/pkg/logic/gcs/parse"
	"github.com/simimpact/srsim/pkg/model"
	"github.com/simimpact/srsim/pkg/simulation"
	"google.golang.org/protobuf/types/known/structpb"

	"verif/harness/term"
)

// Characters whose content keeps or creates process-global state while a run executes, so that a
// SECOND run in the same process differs from the first: serval (trace 103) and
// danhengimbibitorlunae call modifier.Register while the character is created (the second run
// panics "duplicate registration"); herta keeps her talent counters and cooldown map, and kafka
// the targets of her talent follow-up, in package-level variables (kafka's first run in a process
// panics on the empty slice where a later run finds the previous run's targets).  These defects are owned by the isolation property (C15/C20).
// ONE-LINE SWITCH: set to false once those fixes are merged, to bring the three characters back
// into the generated teams.
const detExcludeIsolationDefects = false // herta, kafka, serval and danhengimbibitorlunae are repaired (C15/C20 fix commits)

var detIsolationDefects = map[string]bool{"serval": true, "danhengimbibitorlunae": true, "herta": true, "kafka": true}

const detInProcess = 3 // repetitions in this process
const detChildren = 2  // repetitions in fresh processes

type detCharDesc struct {
	key  string
	path string
}

var detChars = []detCharDesc{
	{"arlan", "destruction"}, {"asta", "harmony"}, {"blade", "destruction"}, {"bronya", "harmony"},
	{"clara", "destruction"}, {"danheng", "hunt"}, {"danhengimbibitorlunae", "destruction"},
	{"dummy_character", "abundance"}, {"gallagher", "abundance"}, {"gepard", "preservation"},
	{"guinaifen", "nihility"}, {"herta", "erudition"}, {"himeko", "erudition"}, {"hook", "destruction"},
	{"huohuo", "abundance"}, {"jingliu", "destruction"}, {"kafka", "nihility"}, {"luka", "nihility"},
	{"march7th", "preservation"}, {"natasha", "abundance"}, {"pela", "nihility"}, {"qingque", "erudition"},
	{"sampo", "nihility"}, {"seele", "hunt"}, {"serval", "erudition"}, {"silverwolf", "nihility"},
	{"sushang", "hunt"}, {"Xueyi", "destruction"},
	{"det_probe", "harmony"}, // harness content: three-term damage / heal / shield formulas
}

var detLCs = map[string][]string{
	"abundance": {"cornucopia", "echoes_of_the_coffin", "fine_fruit", "hey_over_here", "multiplication", "perfect_timing",
		"post_op_conversation", "quid_pro_quo", "shared_feeling", "time_waits_for_no_one", "warmth_shortens_cold_nights", "what_is_real"},
	"destruction": {"a_secret_vow", "collapsing_sky", "mutual_demise", "nowhere_to_run", "on_the_fall_of_an_aeon", "shattered_home",
		"something_irreplaceable", "the_moles_welcome_you", "the_unreachable_side", "under_the_blue_sky", "whereabouts_should_dreams_rest", "woof_walk_time"},
	"erudition": {"after_the_charmony_fall", "an_instant_before_a_gaze", "before_dawn", "data_bank", "geniuses_repose", "make_the_world_clamor",
		"night_on_the_milky_way", "passkey", "sagacity", "the_birth_of_the_self", "the_day_the_cosmos_fell", "the_seriousness_of_breakfast", "today_is_another_peaceful_day"},
	"harmony": {"carve_the_moon_weave_the_clouds", "chorus", "dance_dance_dance", "memories_of_the_past", "meshing_cogs", "planetary_rendezvous"},
	"hunt": {"adversarial", "arrows", "cruising_in_the_stellar_sea", "darting_arrow", "in_the_night", "only_silence_remains", "return_to_darkness",
		"river_flows_in_spring", "sleep_like_the_dead", "subscribe_for_more", "swordplay"},
	"nihility": {"along_the_passing_shore", "before_the_tutorial_mission_starts", "eyes_of_the_prey", "fermata", "good_night_and_sleep_well",
		"hidden_shadow", "incessant_rain", "in_the_name_of_the_world", "loop", "patience_is_all_you_need", "resolution_shines_as_pearls_of_sweat", "void", "we_will_meet_again"},
	"preservation": {"amber", "day_one_of_my_new_life", "defense", "landaus_choice", "moment_of_victory", "pioneering",
		"this_is_me", "trend_of_the_universal_market", "we_are_wildfire"},
}

// light cones whose passive touches every character at BattleStart
var detTeamLCs = map[string]string{"harmony": "chorus", "abundance": "fine_fruit", "preservation": "day_one_of_my_new_life"}
var detTeamLCs2 = map[string]string{"preservation": "we_are_wildfire"}

// relic sets whose 2- or 4-piece bonus runs a CreateEffect callback
var detCavern = []string{"musketeer_of_wild_wheat", "hunter_of_glacial_forest", "passerby_of_wandering_cloud", "genius_of_brilliant_stars",
	"champion_of_streetwise_boxing", "the_ashblazing_grand_duke", "the_wind_soaring_valorous", "knight_of_purity_palace"}
var detPlanar = []string{"belobog_of_the_architects", "space_sealing_station", "inert_salsotto", "talia_kingdom_of_banditry", "sprightly_vonwacq",
	"pan_galactic", "rutilant_arena", "firmament_frontline_glamoth", "penacony_land_of_dreams", "izumo_gensei_and_takama_divine_realm", "lushaka_the_sunken_seas"}

var detDamageTypes = []string{"PHYSICAL", "FIRE", "ICE", "THUNDER", "WIND", "QUANTUM", "IMAGINARY"}
var detAttacks = []string{"NONE", "SINGLE", "BOUNCE", "BLAST", "AOE"}

// ---------------------------------------------------------------------------------------
// harness content (registered once; inert unless a run asks for probes)

var detOnce sync.Once
var detProbesActive bool

const detEnemyBuff key.Modifier = "det_enemy_buff"

type detProbeChar struct {
	eng engine.Engine
	id  key.TargetID
}

func (c *detProbeChar) Attack(t key.TargetID, _ info.ActionState) {
	c.eng.Attack(info.Attack{
		Key: "det_probe_attack", Targets: []key.TargetID{t}, Source: c.id,
		AttackType: model.AttackType_NORMAL, DamageType: model.DamageType_ICE,
		BaseDamage: info.DamageMap{
			model.DamageFormula_BY_ATK:    0.1,
			model.DamageFormula_BY_DEF:    0.2,
			model.DamageFormula_BY_MAX_HP: 0.3,
		},
		StanceDamage: 30, EnergyGain: 20,
	})
}

func (c *detProbeChar) Skill(t key.TargetID, _ info.ActionState) {
	c.eng.Heal(info.Heal{
		Key: "det_probe_heal", Targets: c.eng.Characters(), Source: c.id,
		BaseHeal: info.HealMap{
			model.HealFormula_BY_HEALER_ATK:    0.1,
			model.HealFormula_BY_HEALER_DEF:    0.2,
			model.HealFormula_BY_HEALER_MAX_HP: 0.3,
			model.HealFormula_BY_TARGET_MAX_HP: 0.07,
		},
	})
	for _, ch := range c.eng.Characters() {
		c.eng.AddShield("det_probe_shield", info.Shield{
			Source: c.id, Target: ch,
			BaseShield: info.ShieldMap{
				model.ShieldFormula_SHIELD_BY_SHIELDER_ATK:    0.1,
				model.ShieldFormula_SHIELD_BY_SHIELDER_DEF:    0.2,
				model.ShieldFormula_SHIELD_BY_SHIELDER_MAX_HP: 0.3,
			},
		})
	}
	c.eng.ModifyEnergy(info.ModifyAttribute{Key: "det_probe_skill", Target: c.id, Source: c.id, Amount: 30})
}

func (c *detProbeChar) Ult(t key.TargetID, s info.ActionState)       { c.Attack(t, s) }
func (c *detProbeChar) Technique(t key.TargetID, _ info.ActionState) {}

func detRegister() {
	promos := []character.PromotionData{}
	for _, ml := range []int{20, 30, 40, 50, 60, 70, 80} {
		promos = append(promos, character.PromotionData{MaxLevel: ml, ATKBase: 69.6000000005588 + float64(ml), ATKAdd: 3.480000000447035,
			DEFBase: 78 + float64(ml)/3, DEFAdd: 3.9000000008381903, HPBase: 144 + float64(ml)/7, HPAdd: 7.2000000001862645,
			SPD: 104, CritChance: 0.05, CritDMG: 0.5, Aggro: 100})
	}
	character.Register("det_probe", character.Config{
		Create: func(eng engine.Engine, id key.TargetID, _ info.Character) info.CharInstance {
			return &detProbeChar{eng: eng, id: id}
		},
		Promotions: promos, Rarity: 4, Element: model.DamageType_ICE, Path: model.Path_HARMONY, MaxEnergy: 100,
		SkillInfo: character.SkillInfo{
			Attack: character.Attack{SPAdd: 1, TargetType: model.TargetType_ENEMIES},
			Skill:  character.Skill{SPNeed: 1, TargetType: model.TargetType_ALLIES},
			Ult:    character.Ult{TargetType: model.TargetType_ENEMIES},
		},
	})
	modifier.Register(detEnemyBuff, modifier.Config{Stacking: modifier.Replace, StatusType: model.StatusType_STATUS_BUFF, CanDispel: true})
	// two startup hooks whose listeners are both observable at BattleStart: the order in which
	// the engine runs its startup hooks is the order of their subscriptions
	for _, name := range []string{"det_hook_a", "det_hook_b", "det_hook_c"} {
		name := name
		hook.RegisterStartupHook(name, func(eng engine.Engine) error {
			if !detProbesActive {
				return nil
			}
			eng.Events().BattleStart.Subscribe(func(e event.BattleStart) {
				for _, c := range eng.Characters() {
					eng.ModifyEnergyFixed(info.ModifyAttribute{Key: key.Reason(name), Target: c, Source: c, Amount: 1})
					break
				}
				if name == "det_hook_a" {
					for _, en := range eng.Enemies() {
						eng.AddModifier(en, info.Modifier{Name: detEnemyBuff, Source: en})
					}
				}
			})
			return nil
		})
	}
}

func init() {
	// content must be in the catalogs before any run of this binary (the child processes too)
	detOnce.Do(detRegister)
	register("determinism", component{gen: genDet, run: runDet, kinds: kindsDet})
}

// ---------------------------------------------------------------------------------------
// configuration from the input term

func detConfig(in term.T) (*model.SimConfig, string, int64, bool) {
	it := term.TupleItems(in)
	cfg := &model.SimConfig{Settings: &model.SimulatorSettings{CycleLimit: uint32(term.Int(it[4]))}}
	for _, c := range term.List(it[0]) {
		_, a := term.Ctor(c) // DChar key level eidolon traces lc relics energy hp
		_, lc := term.Ctor(a[4])
		ch := &model.Character{
			Key: term.Str(a[0]), Level: uint32(term.Int(a[1])), MaxLevel: uint32((term.Int(a[1]) + 9) / 10 * 10), Eidols: uint32(term.Int(a[2])),
			Abilities:   &model.Abilities{Attack: 5, Skill: 8, Ult: 8, Talent: 8},
			LightCone:   &model.LightCone{Key: term.Str(lc[0]), Level: uint32(term.Int(lc[1])), MaxLevel: uint32((term.Int(lc[1]) + 9) / 10 * 10), Imposition: uint32(term.Int(lc[2]))},
			StartEnergy: float64(term.Int(a[6])), StartHp: float64(term.Int(a[7])) / 100,
		}
		if ch.MaxLevel < 20 {
			ch.MaxLevel = 20
		}
		if ch.LightCone.MaxLevel < 20 {
			ch.LightCone.MaxLevel = 20
		}
		for _, t := range term.List(a[3]) {
			ch.Traces = append(ch.Traces, term.Str(t))
		}
		for _, r := range term.List(a[5]) {
			_, ra := term.Ctor(r) // DRelic set pieces stat amount(1/1000)
			for p := int64(0); p < term.Int(ra[1]); p++ {
				rel := &model.Relic{Key: term.Str(ra[0]), MainStat: &model.RelicStat{Stat: model.Property(term.Int(ra[2])), Amount: float64(term.Int(ra[3])) / 1000}}
				if p == 0 {
					rel.SubStats = []*model.RelicStat{{Stat: model.Property_SPD_FLAT, Amount: float64(p+1) * 2.3}, {Stat: model.Property_ATK_PERCENT, Amount: 0.0432}}
				}
				ch.Relics = append(ch.Relics, rel)
			}
		}
		cfg.Characters = append(cfg.Characters, ch)
	}
	for _, e := range term.List(it[1]) {
		_, a := term.Ctor(e) // DEnemy level attack hits dmgpct dmgtype weaknesses hp
		params, err := structpb.NewStruct(map[string]any{
			"attack": term.Str(a[1]), "hit_count": float64(term.Int(a[2])), "damage_percent": float64(term.Int(a[3])) / 100,
			"damage_type": term.Str(a[4]), "energy": 10.0,
		})
		if err != nil {
			panic(err)
		}
		en := &model.Enemy{Key: "dummy", Level: uint32(term.Int(a[0])), Parameters: params}
		for _, w := range term.List(a[5]) {
			en.Weaknesses = append(en.Weaknesses, model.DamageType(model.DamageType_value[term.Str(w)]))
		}
		if hp := term.Int(a[6]); hp > 0 {
			en.BaseStats = &model.BaseStats{Hp: float64(hp)}
		}
		cfg.Enemies = append(cfg.Enemies, en)
	}
	return cfg, term.Str(it[2]), term.Int(it[3]), term.Bool(it[5])
}

// ---------------------------------------------------------------------------------------
// one repetition

type detRep struct {
	Result  string   `json:"result"`
	Status  string   `json:"status"`
	Printed string   `json:"printed"`
	Lines   []string `json:"lines"`
}

type detLogger struct {
	lines []string
}

const detMaxEvents = 30000

func (l *detLogger) Log(e any) {
	if len(l.lines) >= detMaxEvents {
		panic("determinism harness: event watchdog (run does not terminate?)")
	}
	b, err := json.Marshal(logging.Wrap(e))
	if err != nil {
		// logging.DefaultLogger drops such an event silently; keep a marker so that a drop is compared too
		l.lines = append(l.lines, fmt.Sprintf("UNMARSHALLABLE %T: %v", e, err))
		return
	}
	l.lines = append(l.lines, string(b))
}

func detBits(xs ...float64) string {
	var sb strings.Builder
	for _, x := range xs {
		fmt.Fprintf(&sb, "%016x ", math.Float64bits(x))
	}
	return sb.String()
}

var detMu sync.Mutex

// detPerturb makes detOnce1 run a VARIANT of the case: same characters and equipment at the next
// ascension / other eidolon, imposition, enemy level and seed.  The variant's outcome is discarded; it
// runs between in-process repetitions so that process-wide state keyed too coarsely (a cache keyed by
// character and level but not ascension, a counter that survives a run) shows up as a difference
// between repetition 0 and the later in-process repetitions, while fresh processes agree with 0.
var detPerturb bool

// detReuseEval makes detOnce1 run the case with the evaluator object of the previous repetition (the
// evaluator is re-initialised by every run: a caller may keep one RunOpts and run it again)
var detReuseEval bool
var detLastEval *eval.Eval

// ... and with the configuration OBJECT of the previous repetition (cmd/srsim and the server mode hand one
// *model.SimConfig to every iteration): a run must not leave anything behind in it
var detLastCfg *model.SimConfig

func detOnce1(in term.T) (rep detRep) {
	detMu.Lock()
	defer detMu.Unlock()
	cfg, script, seed, probes := detConfig(in)
	if detPerturb {
		for _, ch := range cfg.Characters {
			ch.MaxLevel += 10
			if ch.MaxLevel > 80 {
				ch.MaxLevel = 80
			}
			ch.Eidols = (ch.Eidols + 3) % 7
			ch.LightCone.MaxLevel += 10
			if ch.LightCone.MaxLevel > 80 {
				ch.LightCone.MaxLevel = 80
			}
			ch.LightCone.Imposition = (ch.LightCone.Imposition+1)%5 + 1
			ch.StartEnergy = 0
		}
		for _, en := range cfg.Enemies {
			en.Level++
		}
		seed += 7919
	}
	lg := &detLogger{}
	// print() of gcs scripts goes to os.Stdout: capture it
	tmp, err := os.CreateTemp("", "detout")
	if err != nil {
		panic(err)
	}
	defer os.Remove(tmp.Name())
	saved := os.Stdout
	os.Stdout = tmp
	detProbesActive = probes
	defer func() {
		detProbesActive = false
		os.Stdout = saved
		logging.InitLoggers()
		if p := recover(); p != nil {
			rep.Status = fmt.Sprintf("panic: %v", p)
			if os.Getenv("VERIF_DEBUG") != "" {
				fmt.Fprintf(os.Stderr, "panic: %v\n%s\n", p, debug.Stack())
			}
		}
		tmp.Close()
		if b, err := os.ReadFile(tmp.Name()); err == nil {
			rep.Printed = string(b) + rep.Printed
		}
		rep.Lines = lg.lines
	}()
	al, err := parse.New(script).Parse()
	if err != nil {
		rep.Status = "script: " + err.Error()
		return rep
	}
	// the parsed program rendered back to text is part of the compared output too
	rep.Printed = "\nAST " + al.Program.String()
	ev := eval.New(context.Background(), al.Program)
	if detReuseEval && detLastEval != nil && !detPerturb {
		ev = detLastEval
		if detLastCfg != nil {
			cfg = detLastCfg
		}
	} else if !detPerturb {
		detLastEval = ev
		detLastCfg = cfg
	}
	res, err := simulation.Run(&simulation.RunOpts{
		Config: cfg, Eval: ev, Seed: seed, Loggers: []logging.Logger{lg},
	})
	if err != nil {
		rep.Status = "error: " + err.Error()
		return rep
	}
	rep.Status = "ok"
	rep.Result = "dealt " + detBits(res.TotalDamageDealt) + "taken " + detBits(res.TotalDamageTaken) + "av " + detBits(res.TotalAv) +
		"dealt_by_cycle " + detBits(res.CumulativeDamageDealtByCycle...) + "taken_by_cycle " + detBits(res.CumulativeDamageTakenByCycle...)
	return rep
}

func detChild(in term.T) (rep detRep) {
	exe, err := os.Executable()
	if err != nil {
		return detRep{Status: "child: " + err.Error()}
	}
	b, err := json.Marshal(map[string]any{"in": term.C("DetChild", in)})
	if err != nil {
		return detRep{Status: "child: " + err.Error()}
	}
	cmd := exec.Command(exe, "determinism", "run")
	cmd.Stdin = bytes.NewReader(append(b, '\n'))
	var out, errb bytes.Buffer
	cmd.Stdout, cmd.Stderr = &out, &errb
	if err := cmd.Run(); err != nil {
		return detRep{Status: "child process failed: " + err.Error() + ": " + firstN(errb.String(), 300)}
	}
	var rec struct {
		Out struct {
			A []string `json:"a"`
		} `json:"out"`
	}
	if err := json.Unmarshal(out.Bytes(), &rec); err != nil || len(rec.Out.A) != 1 {
		return detRep{Status: "child output not understood: " + firstN(out.String(), 200)}
	}
	if err := json.Unmarshal([]byte(rec.Out.A[0]), &rep); err != nil {
		return detRep{Status: "child output not understood: " + err.Error()}
	}
	return rep
}

func firstN(s string, n int) string {
	if len(s) > n {
		return s[:n]
	}
	return s
}

func (r *detRep) hash() string {
	h := sha256.New()
	fmt.Fprintf(h, "%s\n%s\n%s\n", r.Status, r.Result, r.Printed)
	for _, l := range r.Lines {
		h.Write([]byte(l))
		h.Write([]byte{'\n'})
	}
	return fmt.Sprintf("%x", h.Sum(nil)[:8])
}

func detASCII(s string) string {
	var sb strings.Builder
	for _, r := range s {
		if r < 32 || r > 126 || r == '"' {
			sb.WriteByte('\'')
		} else {
			sb.WriteRune(r)
		}
	}
	return sb.String()
}

// the first differing log line between two repetitions, with the place where the lines part
func detFirstDiff(tag string, a, b *detRep) string {
	if a.Status != b.Status {
		tag = fmt.Sprintf("%s: status %q vs %q; ", tag, firstN(a.Status, 80), firstN(b.Status, 80))
	}
	n := len(a.Lines)
	if len(b.Lines) < n {
		n = len(b.Lines)
	}
	for i := 0; i < n; i++ {
		if a.Lines[i] != b.Lines[i] {
			x, y := a.Lines[i], b.Lines[i]
			p := 0
			for p < len(x) && p < len(y) && x[p] == y[p] {
				p++
			}
			from := p - 60
			if from < 0 {
				from = 0
			}
			cut := func(s string) string { return firstN(s[from:], 200) }
			return fmt.Sprintf("%s: log line %d differs at byte %d: ...%s  VERSUS  ...%s", tag, i+1, p, cut(x), cut(y))
		}
	}
	if len(a.Lines) != len(b.Lines) {
		return fmt.Sprintf("%s: log has %d lines vs %d lines (common prefix equal)", tag, len(a.Lines), len(b.Lines))
	}
	if a.Printed != b.Printed {
		return fmt.Sprintf("%s: script print output differs: %s  VERSUS  %s", tag, firstN(a.Printed, 200), firstN(b.Printed, 200))
	}
	if a.Result != b.Result {
		return fmt.Sprintf("%s: iteration result differs: %s  VERSUS  %s", tag, firstN(a.Result, 200), firstN(b.Result, 200))
	}
	if a.Status != b.Status {
		return tag
	}
	return ""
}

func runDet(in term.T) term.T {
	if m, ok := in.(map[string]any); ok {
		if c, _ := m["c"].(string); c == "DetChild" {
			rep := detOnce1(term.List(m["a"])[0])
			b, err := json.Marshal(rep)
			if err != nil {
				panic(err)
			}
			return term.C("DetChildOut", term.S(string(b)))
		}
	}
	reps := make([]detRep, detInProcess+detChildren)
	var wg sync.WaitGroup
	for i := 0; i < detChildren; i++ {
		wg.Add(1)
		go func(i int) {
			defer wg.Done()
			reps[detInProcess+i] = detChild(in)
		}(i)
	}
	for i := 0; i < detInProcess; i++ {
		if i != 1 {
			// a different run of the same team before repetition 0 and before repetition 2 (its outcome
			// is not compared): the fresh processes run the case alone
			detPerturb = true
			_ = detOnce1(in)
			detPerturb = false
		}
		// the last in-process repetition runs the SAME evaluator object as repetition 0 again
		detReuseEval = i == detInProcess-1
		reps[i] = detOnce1(in)
		detReuseEval = false
	}
	detLastEval, detLastCfg = nil, nil
	wg.Wait()
	flags, hashes := []term.T{}, []term.T{term.S(reps[0].hash())}
	diff := ""
	for i := 1; i < len(reps); i++ {
		a, b := &reps[0], &reps[i]
		logEq := len(a.Lines) == len(b.Lines)
		if logEq {
			for j := range a.Lines {
				if a.Lines[j] != b.Lines[j] {
					logEq = false
					break
				}
			}
		}
		flags = append(flags, term.B(a.Result == b.Result), term.B(logEq), term.B(a.Printed == b.Printed), term.B(a.Status == b.Status))
		hashes = append(hashes, term.S(b.hash()))
		if diff == "" {
			tag := fmt.Sprintf("repetition 0 vs in-process repetition %d", i)
			if i >= detInProcess {
				tag = fmt.Sprintf("repetition 0 vs fresh process %d", i-detInProcess+1)
			}
			diff = detFirstDiff(tag, a, b)
		}
	}
	return term.C("DetOut", term.S(detASCII(firstN(reps[0].Status, 200))), term.L(flags...), term.L(hashes...),
		term.I(int64(len(reps[0].Lines))), term.S(detASCII(diff)))
}

func kindsDet(in term.T) map[string]int {
	if m, ok := in.(map[string]any); ok {
		if _, isChild := m["c"]; isChild {
			return nil
		}
	}
	it := term.TupleItems(in)
	k := map[string]int{}
	chars := term.List(it[0])
	k[fmt.Sprintf("team_of_%d", len(chars))]++
	k[fmt.Sprintf("enemies_%d", len(term.List(it[1])))]++
	teamLC, relicSets2 := false, false
	for _, c := range chars {
		_, a := term.Ctor(c)
		k["char:"+term.Str(a[0])]++
		_, lc := term.Ctor(a[4])
		switch term.Str(lc[0]) {
		case "chorus", "fine_fruit", "day_one_of_my_new_life", "we_are_wildfire":
			teamLC = true
		}
		if len(term.List(a[5])) >= 2 {
			relicSets2 = true
		}
	}
	if teamLC && len(chars) >= 2 {
		k["team_wide_cone_with_2+_chars"]++
	}
	if relicSets2 {
		k["char_with_two_relic_sets"]++
	}
	if strings.Contains(term.Str(it[2]), "print(") {
		k["script_prints_map"]++
	}
	if term.Bool(it[5]) {
		k["probes"]++
	}
	return k
}

// ---------------------------------------------------------------------------------------
// generator

func detLCTerm(k string, r *term.Rng) term.T {
	return term.C("DLc", term.S(k), term.I(int64(term.Pick(r, []int{1, 20, 50, 80}))), term.I(int64(r.Range(1, 5))))
}

var detMainStats = []model.Property{model.Property_ATK_PERCENT, model.Property_HP_PERCENT, model.Property_DEF_PERCENT,
	model.Property_CRIT_CHANCE, model.Property_CRIT_DMG, model.Property_SPD_FLAT, model.Property_EFFECT_HIT_RATE, model.Property_BREAK_EFFECT}

// genDet keeps the first of up to six candidate configurations that the simulator runs to
// completion (status ok); content that panics or rejects its configuration does so
// deterministically and teaches nothing about C01, but one candidate in eight is kept regardless.
func genDet(r *term.Rng, idx int) term.T {
	// term.NewRng(seed+1) is term.NewRng(seed) advanced by one step and check.py seeds its shards
	// with consecutive numbers, so case i of shard k would equal case i+k of shard 0: decorrelate
	// by re-seeding from the fork state mixed with the case index (through the splitmix finaliser)
	z := r.U64() ^ (uint64(idx)+1)*0xD6E8FEB86659FD93
	z = (z ^ (z >> 30)) * 0xBF58476D1CE4E5B9
	z = (z ^ (z >> 27)) * 0x94D049BB133111EB
	r = term.NewRng(z ^ (z >> 31))
	var in term.T
	for try := 0; try < 6; try++ {
		in = roundTrip(genDetOne(r, idx))
		if r.Chance(1, 8) {
			break
		}
		if rep := detOnce1(in); rep.Status == "ok" {
			break
		}
	}
	return in
}

func genDetOne(r *term.Rng, idx int) term.T {
	pool := []detCharDesc{}
	for _, c := range detChars {
		if detExcludeIsolationDefects && detIsolationDefects[c.key] {
			continue
		}
		pool = append(pool, c)
	}
	n := r.Range(1, 4)
	if r.Chance(3, 4) && n < 2 {
		n = r.Range(2, 4)
	}
	probes := r.Chance(1, 2)
	picked := []detCharDesc{}
	used := map[string]bool{}
	pick := func(c detCharDesc) {
		if !used[c.key] && len(picked) < n {
			used[c.key] = true
			picked = append(picked, c)
		}
	}
	// bias: a carrier of a team-wide cone, silverwolf, the three-term probe, crowd-control characters
	teamCone := r.Chance(2, 3)
	if teamCone {
		paths := []string{"harmony", "abundance", "preservation"}
		p := term.Pick(r, paths)
		cands := []detCharDesc{}
		for _, c := range pool {
			if c.path == p {
				cands = append(cands, c)
			}
		}
		pick(term.Pick(r, cands))
	}
	for _, want := range []struct {
		key      string
		num, den int
	}{{"silverwolf", 1, 3}, {"det_probe", 1, 3}, {"march7th", 1, 5}, {"gepard", 1, 6}, {"seele", 1, 6}} {
		if r.Chance(want.num, want.den) {
			for _, c := range pool {
				if c.key == want.key {
					pick(c)
				}
			}
		}
	}
	for len(picked) < n {
		pick(term.Pick(r, pool))
	}
	// order of the party is part of the configuration
	for i := len(picked) - 1; i > 0; i-- {
		j := r.Intn(i + 1)
		picked[i], picked[j] = picked[j], picked[i]
	}
	chars := []term.T{}
	names := []string{}
	firstTeam := true
	for _, c := range picked {
		lcs := detLCs[c.path]
		lc := term.Pick(r, lcs)
		if teamCone && firstTeam {
			if k, ok := detTeamLCs[c.path]; ok {
				lc = k
				if k2, ok := detTeamLCs2[c.path]; ok && r.Bool() {
					lc = k2
				}
				firstTeam = false
			}
		} else if k, ok := detTeamLCs[c.path]; ok && r.Chance(1, 3) {
			lc = k
		}
		if c.path == "hunt" && r.Chance(1, 2) {
			lc = "return_to_darkness"
		}
		relics := []term.T{}
		switch r.Intn(5) {
		case 0:
		case 1:
			relics = append(relics, detRelicTerm(term.Pick(r, detCavern), 4, r))
		default: // two effectful sets: 4 cavern + 2 planar (or 2 + 2 + 2)
			if r.Chance(1, 4) {
				a, b := term.Pick(r, detCavern), term.Pick(r, detCavern)
				relics = append(relics, detRelicTerm(a, 2, r))
				if b != a {
					relics = append(relics, detRelicTerm(b, 2, r))
				}
			} else {
				relics = append(relics, detRelicTerm(term.Pick(r, detCavern), 4, r))
			}
			relics = append(relics, detRelicTerm(term.Pick(r, detPlanar), 2, r))
			if r.Bool() {
				relics[0], relics[len(relics)-1] = relics[len(relics)-1], relics[0]
			}
		}
		if lc == "return_to_darkness" {
			relics = append(relics, term.C("DRelic", term.S(term.Pick(r, detCavern)), term.I(1), term.I(int64(model.Property_CRIT_CHANCE)), term.I(1000)))
		}
		traces := []term.T{}
		for _, t := range []string{"101", "102", "103", "201", "202", "203", "204", "205"} {
			if r.Chance(2, 3) {
				traces = append(traces, term.S(t))
			}
		}
		lvl := term.Pick(r, []int{1, 20, 40, 55, 80})
		chars = append(chars, term.C("DChar", term.S(c.key), term.I(int64(lvl)), term.I(int64(term.Pick(r, []int{0, 0, 1, 2, 4, 6}))),
			term.L(traces...), detLCTerm(lc, r), term.L(relics...),
			term.I(int64(term.Pick(r, []int{0, 50, 100, 200}))), term.I(int64(term.Pick(r, []int{0, 100, 100, 50, 10})))))
		names = append(names, c.key)
	}
	enemies := []term.T{}
	ne := r.Range(1, 5)
	for i := 0; i < ne; i++ {
		weak := []term.T{}
		for _, w := range detDamageTypes {
			if r.Chance(1, 3) {
				weak = append(weak, term.S(w))
			}
		}
		hp := int64(0)
		if r.Chance(1, 3) {
			hp = int64(term.Pick(r, []int{1, 5, 20, 100}))
		}
		enemies = append(enemies, term.C("DEnemy", term.I(int64(term.Pick(r, []int{1, 10, 50, 80, 90, 0}))), term.S(term.Pick(r, detAttacks)),
			term.I(int64(r.Range(1, 3))), term.I(int64(term.Pick(r, []int{0, 50, 100, 400, 2000}))), term.S(term.Pick(r, detDamageTypes)),
			term.L(weak...), term.I(hp)))
	}
	return term.Tup(term.L(chars...), term.L(enemies...), term.S(detScript(r, names)), term.I(int64(r.Intn(1<<30))),
		term.I(int64(r.Range(1, 4))), term.B(probes))
}

func detRelicTerm(set string, pieces int, r *term.Rng) term.T {
	st := term.Pick(r, detMainStats)
	amt := int64(term.Pick(r, []int{0, 43, 100, 432, 250}))
	if st == model.Property_SPD_FLAT {
		amt = int64(term.Pick(r, []int{0, 4000, 25000}))
	}
	return term.C("DRelic", term.S(set), term.I(int64(pieces)), term.I(int64(st)), term.I(amt))
}

func detScript(r *term.Rng, names []string) string {
	var sb strings.Builder
	evs := []string{"First", "LowestHP", "LowestHPRatio"}
	if r.Chance(1, 2) {
		sb.WriteString("let m = [alpha = rand(), beta = rand(), gamma = 3, delta = \"d\", 7, rand()];\nprint(m);\n")
		if r.Bool() {
			sb.WriteString("print([zeta = [x = 1, y = 2, z = rand()], eta = 2, theta = type(m)]);\n")
		}
	}
	for _, n := range names {
		ev := term.Pick(r, evs)
		fmt.Fprintf(&sb, "set_default_action(%s, attack(%s));\n", n, ev)
		switch r.Intn(3) {
		case 0:
			fmt.Fprintf(&sb, "register_skill_cb(%s, fn () { return skill(%s); });\n", n, term.Pick(r, evs))
		case 1:
			fmt.Fprintf(&sb, "register_skill_cb(%s, fn () { if skill_points() >= %d { return skill(%s); } return attack(%s); });\n",
				n, r.Range(1, 4), term.Pick(r, evs), term.Pick(r, evs))
		default:
			fmt.Fprintf(&sb, "register_skill_cb(%s, fn () { if rand() < 0.5 { return skill(%s); } return attack(%s); });\n",
				n, term.Pick(r, evs), term.Pick(r, evs))
		}
		if r.Chance(3, 4) {
			if r.Chance(1, 3) {
				// an ult callback with an effect of its own: it draws from the run's generator each time it is
				// consulted (a callback that is registered or consulted once too often shows in every later draw)
				fmt.Fprintf(&sb, "register_ult_cb(%s, fn () { if rand() < 0.7 { return ult(%s); } return null; });\n", n, term.Pick(r, evs))
			} else {
				fmt.Fprintf(&sb, "register_ult_cb(%s, fn () { return ult(%s); });\n", n, term.Pick(r, evs))
			}
		}
	}
	return sb.String()
}
