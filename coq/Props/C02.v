From SR Require Import Model.Turn.
