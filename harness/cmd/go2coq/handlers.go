package main

// HandlersTable: the source-to-Coq translator for the four EVENT HANDLERS
// (pkg/engine/event/handler/{simple,priority,mutable,cancel}.go) and the logger fan-out
// (pkg/engine/logging/logger.go: Log, InitLoggers) - the "way 1" tie of DESIGN.md section 2 for the few
// lines the event system of C18 / C17 consists of.
//
//	go2coq HandlersTable -repo <path>  > coq/Gen/HandlersTable.v      (`go2coq Handlers` is the same)
//
// The output is a first-order DESCRIPTION (types and interpreter: coq/Model/HandlersInterp.v), not Gallina
// code.  coq/Proofs/HandlersTableProofs.v proves that the interpretation of THIS table is
// Events.subscribe / Events.emit / Events.log_items / Events.init_loggers of the hand-written model
// coq/Model/Events.v for all worlds, handlers, priorities, scripts, values and fuel, and that the table is
// field by field HandlersInterp.expected_table.
//
// THE RECOGNISED SHAPES (anything else: exit 1 naming file:line; no statement, function, type or
// package-level variable of pkg/engine/event/handler is ever skipped):
//
//	package handler may only contain
//	    interface types; func types; the four handler struct types EventHandler, PriorityEventHandler,
//	    MutableEventHandler, CancelableEventHandler; per sorting handler its element struct and its slice type;
//	    the methods Emit, Subscribe of the handler types and Len, Swap, Less of the slice types.
//	    No package-level var / const, no other function or method.
//	type H[E C] struct { listeners []L[E] | S[E] }               exactly this one field
//	type S[E Event] []X[E]      type X[E Event] struct { listener L[E]; priority int }
//	func (a S[E]) Len() int           { return len(a) }
//	func (a S[E]) Swap(i, j int)      { a[i], a[j] = a[j], a[i] }
//	func (a S[E]) Less(i, j int) bool { return a[i].priority < a[j].priority }      (LessPrioLt; `<=`: LessPrioLe)
//	func (h *H[E]) Subscribe(listener L[E] [, priority int]) {
//	    [x := X[E]{listener: listener, priority: priority}]      (ElemWithPriority; else ElemBare)
//	    h.listeners = append(h.listeners, x)                     (AppendInPlace)
//	  | n := len(h.listeners); h.listeners = append(h.listeners[:n:n], x)     (AppendFresh)
//	    [sort.Sort(h.listeners)]                                 (package sort; Some <less shape>)
//	}
//	func (h *H[E]) Emit(event E | event *E) [bool] {             (ByValue | ByPointer)
//	    for _, l := range h.listeners {                          (first statement: ranges over the field at entry)
//	        l(event) | l.listener(event)                         (no cancel)
//	      | if l.listener(event) { logging.Log(event | event.Cancelled()); return true|false }
//	    }
//	    [logging.Log(event)]                                     (pkg/engine/logging.Log)
//	    [return true|false]                                      (exactly when Emit returns bool)
//	}
//	package logging: the package-level variables are listed; `mu` and `loggers` are used only by
//	func InitLoggers(ls ...Logger) { mu.Lock(); defer mu.Unlock(); loggers = ls }
//	func Log(e any) { mu.RLock(); ls := loggers; mu.RUnlock(); for _, l := range ls { l.Log(e) } }
//	type Logger interface { Log(e any) }
//
// NOT TRANSLATED (hand-written in Model/Events.v): what a listener does (data: reaction scripts), listener
// identity, the trace items the harness records, Go's slice semantics (array generations, append growth) and
// sort.Sort itself (modelled as stable insertion of the appended element by the recognised Less).

import (
	"fmt"
	"go/ast"
	"go/token"
	"go/types"
	"sort"
	"strings"

	"golang.org/x/tools/go/packages"
)

type hgen struct {
	src  *fsrc
	pkg  *packages.Package
	info *types.Info
}

func (g *hgen) fail(n ast.Node, f string, a ...any) {
	die("HandlersTable: %s: %s\n  (the event handlers / logger left the shapes the handlers translator recognises; see the head of harness/cmd/go2coq/handlers.go)",
		g.src.pos(n), fmt.Sprintf(f, a...))
}

func (g *hgen) txt(n ast.Node) string { return nodeText(g.src.fset, n) }

var handlerTypes = []string{"EventHandler", "PriorityEventHandler", "MutableEventHandler", "CancelableEventHandler"}

type hDesc struct {
	name                 string
	fields               [][2]string
	sliceMethods         []string
	elem, app, srt       string
	posType, posSub, pos string // positions: type, Subscribe, Emit
	emit                 string
}

// recvBase: the receiver's variable name, whether it is a pointer, and the base type name (type arguments dropped)
func recvBase(fd *ast.FuncDecl) (name string, ptr bool, base string, ok bool) {
	if fd.Recv == nil || len(fd.Recv.List) != 1 || len(fd.Recv.List[0].Names) != 1 {
		return "", false, "", false
	}
	name = fd.Recv.List[0].Names[0].Name
	t := fd.Recv.List[0].Type
	if s, isPtr := t.(*ast.StarExpr); isPtr {
		ptr = true
		t = s.X
	}
	switch x := t.(type) {
	case *ast.IndexExpr:
		t = x.X
	case *ast.IndexListExpr:
		return "", false, "", false
	}
	id, isID := t.(*ast.Ident)
	if !isID {
		return "", false, "", false
	}
	return name, ptr, id.Name, true
}

// params flattens a field list into (name, type expression) pairs; unnamed parameters are not accepted
func (g *hgen) params(fl *ast.FieldList) (names []string, typs []ast.Expr) {
	if fl == nil {
		return
	}
	for _, f := range fl.List {
		if len(f.Names) == 0 {
			g.fail(f, "unnamed parameter / result")
		}
		for _, n := range f.Names {
			names = append(names, n.Name)
			typs = append(typs, f.Type)
		}
	}
	return
}

func (g *hgen) isBuiltin(call *ast.CallExpr, name string) bool {
	id, ok := call.Fun.(*ast.Ident)
	if !ok || id.Name != name {
		return false
	}
	_, ok = g.info.Uses[id].(*types.Builtin)
	return ok
}

// isPkgFunc: call.Fun is <pkgident>.<name> resolving to the function <name> of the package with the given path
func (g *hgen) isPkgFunc(call *ast.CallExpr, path, name string) bool {
	s, ok := call.Fun.(*ast.SelectorExpr)
	if !ok || s.Sel.Name != name {
		return false
	}
	fn, ok := g.info.Uses[s.Sel].(*types.Func)
	return ok && fn.Pkg() != nil && fn.Pkg().Path() == path && fn.Type().(*types.Signature).Recv() == nil
}

func exprCall(st ast.Stmt) *ast.CallExpr {
	es, ok := st.(*ast.ExprStmt)
	if !ok {
		return nil
	}
	c, _ := es.X.(*ast.CallExpr)
	return c
}

const loggingPath = modulePath + "/pkg/engine/logging"

func genHandlers(root string) string {
	src := loadFormulas(root, "./pkg/engine/event/handler", "./pkg/engine/logging")
	p := src.pkg("pkg/engine/event/handler")
	g := &hgen{src: src, pkg: p, info: p.TypesInfo}

	// ---- inventory of package handler: nothing may be left unaccounted for
	typeSpecs := map[string]*ast.TypeSpec{}
	var typeOrder []string
	funcs := map[string]*ast.FuncDecl{} // "Type.Method"
	for _, f := range p.Syntax {
		for _, d := range f.Decls {
			switch x := d.(type) {
			case *ast.GenDecl:
				switch x.Tok {
				case token.IMPORT:
				case token.TYPE:
					for _, s := range x.Specs {
						ts := s.(*ast.TypeSpec)
						if ts.Assign.IsValid() {
							g.fail(ts, "type alias %s", ts.Name.Name)
						}
						typeSpecs[ts.Name.Name] = ts
						typeOrder = append(typeOrder, ts.Name.Name)
					}
				default:
					g.fail(x, "package-level %s declaration in package handler (the handlers keep no state besides their `listeners` field)", x.Tok)
				}
			case *ast.FuncDecl:
				_, _, base, ok := recvBase(x)
				if !ok {
					g.fail(x, "function %s of package handler is not a method of a known shape", x.Name.Name)
				}
				key := base + "." + x.Name.Name
				if funcs[key] != nil {
					g.fail(x, "duplicate %s", key)
				}
				if x.Body == nil {
					g.fail(x, "%s has no body", key)
				}
				funcs[key] = x
			default:
				g.fail(d, "unrecognised declaration")
			}
		}
	}
	usedTypes := map[string]bool{}
	usedFuncs := map[string]bool{}

	var descs []*hDesc
	for _, hn := range handlerTypes {
		ts := typeSpecs[hn]
		if ts == nil {
			die("HandlersTable: type handler.%s not found", hn)
		}
		usedTypes[hn] = true
		descs = append(descs, g.handler(ts, typeSpecs, funcs, usedTypes, usedFuncs))
	}
	// everything else in the package: interfaces and func types only
	for _, n := range typeOrder {
		if usedTypes[n] {
			continue
		}
		switch typeSpecs[n].Type.(type) {
		case *ast.InterfaceType, *ast.FuncType:
		default:
			g.fail(typeSpecs[n], "type %s of package handler is not part of a recognised handler (a struct / slice type the translator does not know)", n)
		}
	}
	var keys []string
	for k := range funcs {
		keys = append(keys, k)
	}
	sort.Strings(keys)
	for _, k := range keys {
		if !usedFuncs[k] {
			g.fail(funcs[k], "method %s of package handler is not one the translator knows (Emit / Subscribe of a handler, Len / Swap / Less of its slice)", k)
		}
	}
	// the cancellable event's Cancelled()
	if ts := typeSpecs["CancellableEvent"]; ts == nil {
		die("HandlersTable: interface handler.CancellableEvent not found")
	} else if got := g.txt(ts.Type); got != "interface { Cancelled() CancellableEvent }" {
		g.fail(ts, "CancellableEvent is no longer `interface { Cancelled() CancellableEvent }`: %s", got)
	}

	// ---- package logging
	lp := src.pkg("pkg/engine/logging")
	lg := &hgen{src: src, pkg: lp, info: lp.TypesInfo}
	logVars, logD, initD, posLog, posInit := lg.logging()

	var b strings.Builder
	b.WriteString("(* GENERATED by harness/cmd/go2coq HandlersTable from pkg/engine/event/handler/*.go and\n" +
		"   pkg/engine/logging/logger.go of the repository under verification.  Do not edit: tools/check.py\n" +
		"   regenerates this file on every run.  A first-order description of Subscribe / Emit of the four event\n" +
		"   handlers and of logging.Log / InitLoggers (types and interpreter: Model/HandlersInterp.v);\n" +
		"   Proofs/HandlersTableProofs.v proves that its interpretation is the hand-written model Model/Events.v\n" +
		"   for every world, handler, priority, script, value and fuel. *)\n" +
		"From Coq Require Import String List ZArith Bool.\n" +
		"From SR Require Import Model.Events Model.HandlersInterp.\n" +
		"Import ListNotations.\nOpen Scope string_scope.\n\n")
	for _, d := range descs {
		fmt.Fprintf(&b, "(* %s: type %s *)\nDefinition h_%s : handler_desc :=\n  mkHandlerD %q %s %s\n", d.posType, d.name, d.name, d.name,
			coqPairList(d.fields), coqStrList(d.sliceMethods))
		fmt.Fprintf(&b, "    (* %s: Subscribe *)\n    (mkSubD %s %s %s)\n", d.posSub, d.elem, d.app, d.srt)
		fmt.Fprintf(&b, "    (* %s: Emit *)\n    (%s).\n\n", d.pos, d.emit)
	}
	fmt.Fprintf(&b, "(* %s: func Log; %s: func InitLoggers; the package-level variables of pkg/engine/logging *)\n", posLog, posInit)
	b.WriteString("Definition table : htable :=\n  mkHTable [ ")
	for i, d := range descs {
		if i > 0 {
			b.WriteString("; ")
		}
		b.WriteString("h_" + d.name)
	}
	fmt.Fprintf(&b, " ]\n    (%s)\n    (%s)\n    %s.\n", logD, initD, coqPairList(logVars))
	return b.String()
}

func coqPairList(p [][2]string) string {
	q := make([]string, len(p))
	for i, s := range p {
		q[i] = fmt.Sprintf("(%q, %q)", s[0], s[1])
	}
	return "[" + strings.Join(q, "; ") + "]"
}

func oneTypeParam(ts *ast.TypeSpec) (string, bool) {
	if ts.TypeParams == nil || len(ts.TypeParams.List) != 1 || len(ts.TypeParams.List[0].Names) != 1 {
		return "", false
	}
	return ts.TypeParams.List[0].Names[0].Name, true
}

// handler: the struct type, its slice / element types, Subscribe and Emit
func (g *hgen) handler(ts *ast.TypeSpec, typeSpecs map[string]*ast.TypeSpec, funcs map[string]*ast.FuncDecl, usedTypes, usedFuncs map[string]bool) *hDesc {
	hn := ts.Name.Name
	d := &hDesc{name: hn, posType: g.src.pos(ts)}
	E, ok := oneTypeParam(ts)
	if !ok {
		g.fail(ts, "%s does not have exactly one type parameter", hn)
	}
	st, ok := ts.Type.(*ast.StructType)
	if !ok {
		g.fail(ts, "%s is not a struct type", hn)
	}
	names, typs := g.params(st.Fields)
	for i := range names {
		d.fields = append(d.fields, [2]string{names[i], g.txt(typs[i])})
	}
	if len(names) != 1 || names[0] != "listeners" {
		g.fail(ts, "%s no longer has exactly the one field `listeners` (fields: %v): a handler with more state is outside the model", hn, names)
	}
	for _, f := range st.Fields.List {
		if f.Tag != nil {
			g.fail(f, "struct tag")
		}
	}

	// the type of `listeners`: []L[E] or a named slice S[E] = []X[E], X = struct{listener L[E]; priority int}
	sliceName, elemName, listenerType := "", "", ""
	switch t := typs[0].(type) {
	case *ast.ArrayType:
		if t.Len != nil {
			g.fail(t, "`listeners` is an array, not a slice")
		}
		listenerType = g.txt(t.Elt)
	case *ast.IndexExpr:
		id, ok := t.X.(*ast.Ident)
		if !ok || g.txt(t.Index) != E {
			g.fail(t, "unrecognised type of `listeners`: %s", g.txt(t))
		}
		sliceName = id.Name
		sts := typeSpecs[sliceName]
		if sts == nil {
			g.fail(t, "type %s of `listeners` is not declared in package handler", sliceName)
		}
		sE, ok := oneTypeParam(sts)
		at, isArr := sts.Type.(*ast.ArrayType)
		if !ok || !isArr || at.Len != nil {
			g.fail(sts, "%s is not a generic slice type", sliceName)
		}
		et, ok := at.Elt.(*ast.IndexExpr)
		if !ok || g.txt(et.Index) != sE {
			g.fail(sts, "unrecognised element type %s", g.txt(at.Elt))
		}
		eid, ok := et.X.(*ast.Ident)
		if !ok {
			g.fail(sts, "unrecognised element type %s", g.txt(at.Elt))
		}
		elemName = eid.Name
		ets := typeSpecs[elemName]
		if ets == nil {
			g.fail(sts, "element type %s is not declared in package handler", elemName)
		}
		eE, ok := oneTypeParam(ets)
		est, isStruct := ets.Type.(*ast.StructType)
		if !ok || !isStruct {
			g.fail(ets, "%s is not a generic struct type", elemName)
		}
		fn, ft := g.params(est.Fields)
		if len(fn) != 2 || fn[0] != "listener" || fn[1] != "priority" || g.txt(ft[1]) != "int" {
			g.fail(ets, "%s is no longer struct { listener <L>[E]; priority int }", elemName)
		}
		lt, ok := ft[0].(*ast.IndexExpr)
		if !ok || g.txt(lt.Index) != eE {
			g.fail(ets, "unrecognised type of the field `listener`: %s", g.txt(ft[0]))
		}
		listenerType = g.txt(lt.X) + "[" + E + "]"
		if usedTypes[sliceName] || usedTypes[elemName] {
			g.fail(ts, "%s shares its slice / element type with another handler", hn)
		}
		usedTypes[sliceName], usedTypes[elemName] = true, true
	default:
		g.fail(typs[0], "unrecognised type of `listeners`: %s", g.txt(typs[0]))
	}
	// the listener type is a func type of the package
	lname := strings.TrimSuffix(listenerType, "["+E+"]")
	if lts := typeSpecs[lname]; lts == nil {
		g.fail(ts, "listener type %s is not declared in package handler", lname)
	} else if _, ok := lts.Type.(*ast.FuncType); !ok {
		g.fail(lts, "listener type %s is not a func type", lname)
	}

	// ---- Len / Swap / Less
	less := ""
	if sliceName != "" {
		less = g.sortMethods(sliceName, funcs, usedFuncs)
		d.sliceMethods = []string{"Len", "Less", "Swap"}
	}

	// ---- Subscribe
	sub := funcs[hn+".Subscribe"]
	if sub == nil {
		g.fail(ts, "method (*%s).Subscribe not found", hn)
	}
	usedFuncs[hn+".Subscribe"] = true
	d.posSub = g.src.pos(sub)
	R, ptr, _, _ := recvBase(sub)
	if !ptr {
		g.fail(sub, "Subscribe has a value receiver")
	}
	if sub.Type.TypeParams != nil || sub.Type.Results.NumFields() != 0 {
		g.fail(sub, "Subscribe has a result / type parameters")
	}
	pn, pt := g.params(sub.Type.Params)
	if len(pn) < 1 || g.txt(pt[0]) != listenerType {
		g.fail(sub, "first parameter of Subscribe is not the listener (%s)", listenerType)
	}
	body := sub.Body.List
	next := func(what string) ast.Stmt {
		if len(body) == 0 {
			g.fail(sub, "Subscribe ends where %s was expected", what)
		}
		s := body[0]
		body = body[1:]
		return s
	}
	field := R + ".listeners"
	x := pn[0]
	if elemName != "" {
		if len(pn) != 2 || g.txt(pt[1]) != "int" {
			g.fail(sub, "Subscribe is not (listener %s, priority int)", listenerType)
		}
		s := next("the element literal")
		as, ok := s.(*ast.AssignStmt)
		if !ok || as.Tok != token.DEFINE || len(as.Lhs) != 1 || len(as.Rhs) != 1 {
			g.fail(s, "expected `x := %s[%s]{listener: %s, priority: %s}`", elemName, E, pn[0], pn[1])
		}
		id, ok := as.Lhs[0].(*ast.Ident)
		want := fmt.Sprintf("%s[%s]{listener: %s, priority: %s}", elemName, E, pn[0], pn[1])
		if !ok || id.Name == "_" || g.txt(as.Rhs[0]) != want {
			g.fail(s, "expected `x := %s`, found `%s`", want, g.txt(s))
		}
		x = id.Name
		d.elem = "ElemWithPriority"
	} else {
		if len(pn) != 1 {
			g.fail(sub, "Subscribe of a handler without priorities takes more than the listener")
		}
		d.elem = "ElemBare"
	}
	s := next("the append")
	as, ok := s.(*ast.AssignStmt)
	if !ok || len(as.Lhs) != 1 || len(as.Rhs) != 1 {
		g.fail(s, "expected the append to %s, found `%s`", field, g.txt(s))
	}
	if as.Tok == token.DEFINE {
		// n := len(h.listeners); h.listeners = append(h.listeners[:n:n], x)
		nid, ok := as.Lhs[0].(*ast.Ident)
		call, isCall := as.Rhs[0].(*ast.CallExpr)
		if !ok || nid.Name == "_" || !isCall || !g.isBuiltin(call, "len") || g.txt(as.Rhs[0]) != "len("+field+")" {
			g.fail(s, "expected `n := len(%s)`, found `%s`", field, g.txt(s))
		}
		s2 := next("the append into a fresh array")
		as2, ok := s2.(*ast.AssignStmt)
		want := fmt.Sprintf("%s = append(%s[:%s:%s], %s)", field, field, nid.Name, nid.Name, x)
		if !ok || as2.Tok != token.ASSIGN || len(as2.Rhs) != 1 || g.txt(s2) != want {
			g.fail(s2, "expected `%s`, found `%s`", want, g.txt(s2))
		}
		if call, ok := as2.Rhs[0].(*ast.CallExpr); !ok || !g.isBuiltin(call, "append") {
			g.fail(s2, "`append` is not the builtin")
		}
		d.app = "AppendFresh"
	} else {
		want := fmt.Sprintf("%s = append(%s, %s)", field, field, x)
		if as.Tok != token.ASSIGN || g.txt(s) != want {
			g.fail(s, "expected `%s` (or the fresh-array form `n := len(%s); %s = append(%s[:n:n], %s)`), found `%s`", want, field, field, field, x, g.txt(s))
		}
		if call, ok := as.Rhs[0].(*ast.CallExpr); !ok || !g.isBuiltin(call, "append") {
			g.fail(s, "`append` is not the builtin")
		}
		d.app = "AppendInPlace"
	}
	d.srt = "None"
	if len(body) > 0 {
		s := next("sort.Sort")
		call := exprCall(s)
		if call == nil || !g.isPkgFunc(call, "sort", "Sort") || g.txt(s) != "sort.Sort("+field+")" {
			g.fail(s, "expected `sort.Sort(%s)` (package sort) or the end of Subscribe, found `%s`", field, g.txt(s))
		}
		if less == "" {
			g.fail(s, "sort.Sort over a slice type without a recognised Less")
		}
		d.srt = "(Some " + less + ")"
	}
	if len(body) > 0 {
		g.fail(body[0], "unrecognised statement in Subscribe: `%s`", g.txt(body[0]))
	}

	// ---- Emit
	em := funcs[hn+".Emit"]
	if em == nil {
		g.fail(ts, "method (*%s).Emit not found", hn)
	}
	usedFuncs[hn+".Emit"] = true
	d.pos = g.src.pos(em)
	d.emit = g.emit(em, E)
	return d
}

// sortMethods checks Len and Swap verbatim and classifies Less
func (g *hgen) sortMethods(sliceName string, funcs map[string]*ast.FuncDecl, usedFuncs map[string]bool) string {
	get := func(m string) (*ast.FuncDecl, string, []string) {
		fd := funcs[sliceName+"."+m]
		if fd == nil {
			die("HandlersTable: method %s.%s (sort.Interface) not found", sliceName, m)
		}
		usedFuncs[sliceName+"."+m] = true
		a, ptr, _, _ := recvBase(fd)
		if ptr {
			g.fail(fd, "%s.%s has a pointer receiver", sliceName, m)
		}
		pn, pt := g.params(fd.Type.Params)
		for _, t := range pt {
			if g.txt(t) != "int" {
				g.fail(fd, "%s.%s: parameter of type %s", sliceName, m, g.txt(t))
			}
		}
		if fd.Type.TypeParams != nil {
			g.fail(fd, "type parameters")
		}
		return fd, a, pn
	}
	res := func(fd *ast.FuncDecl) string {
		if fd.Type.Results == nil {
			return ""
		}
		if len(fd.Type.Results.List) != 1 || len(fd.Type.Results.List[0].Names) != 0 {
			g.fail(fd, "unrecognised results")
		}
		return g.txt(fd.Type.Results.List[0].Type)
	}
	fd, a, pn := get("Len")
	if len(pn) != 0 || res(fd) != "int" || g.txt(fd.Body) != "{ return len("+a+") }" {
		g.fail(fd, "Len is no longer `func (a T) Len() int { return len(a) }`: %s", g.txt(fd.Body))
	}
	if call, ok := fd.Body.List[0].(*ast.ReturnStmt).Results[0].(*ast.CallExpr); !ok || !g.isBuiltin(call, "len") {
		g.fail(fd, "`len` is not the builtin")
	}
	fd, a, pn = get("Swap")
	if len(pn) != 2 || res(fd) != "" || g.txt(fd.Body) != fmt.Sprintf("{ %s[%s], %s[%s] = %s[%s], %s[%s] }", a, pn[0], a, pn[1], a, pn[1], a, pn[0]) {
		g.fail(fd, "Swap is no longer `func (a T) Swap(i, j int) { a[i], a[j] = a[j], a[i] }`: %s", g.txt(fd.Body))
	}
	fd, a, pn = get("Less")
	if len(pn) != 2 || res(fd) != "bool" {
		g.fail(fd, "Less is no longer `func (a T) Less(i, j int) bool`")
	}
	got := g.txt(fd.Body)
	for op, shape := range map[string]string{"<": "LessPrioLt", "<=": "LessPrioLe"} {
		if got == fmt.Sprintf("{ return %s[%s].priority %s %s[%s].priority }", a, pn[0], op, a, pn[1]) {
			return shape
		}
	}
	g.fail(fd, "Less is no longer `return a[i].priority < a[j].priority` (a different comparator): %s", got)
	return ""
}

func boolLit(e ast.Expr) (string, bool) {
	id, ok := e.(*ast.Ident)
	if !ok || (id.Name != "true" && id.Name != "false") {
		return "", false
	}
	return id.Name, true
}

func (g *hgen) isUniverseBool(e ast.Expr) bool {
	id, ok := e.(*ast.Ident)
	if !ok {
		return false
	}
	c, ok := g.info.Uses[id].(*types.Const)
	return ok && c.Pkg() == nil
}

// logCall recognises logging.Log(event) / logging.Log(event.Cancelled())
func (g *hgen) logCall(s ast.Stmt, ev string) string {
	call := exprCall(s)
	if call == nil || !g.isPkgFunc(call, loggingPath, "Log") || len(call.Args) != 1 || call.Ellipsis.IsValid() {
		g.fail(s, "expected a call of logging.Log (pkg/engine/logging), found `%s`", g.txt(s))
	}
	switch g.txt(call.Args[0]) {
	case ev:
		return "LogEvent"
	case ev + ".Cancelled()":
		return "LogCancelled"
	}
	g.fail(s, "logging.Log is given neither `%s` nor `%s.Cancelled()`: `%s`", ev, ev, g.txt(s))
	return ""
}

func (g *hgen) emit(fd *ast.FuncDecl, E string) string {
	R, ptr, _, _ := recvBase(fd)
	if !ptr {
		g.fail(fd, "Emit has a value receiver")
	}
	if fd.Type.TypeParams != nil {
		g.fail(fd, "type parameters")
	}
	pn, pt := g.params(fd.Type.Params)
	if len(pn) != 1 {
		g.fail(fd, "Emit does not take exactly the event")
	}
	ev := pn[0]
	pass := ""
	switch g.txt(pt[0]) {
	case E:
		pass = "ByValue"
	case "*" + E:
		pass = "ByPointer"
	default:
		g.fail(fd, "the parameter of Emit is neither %s nor *%s", E, E)
	}
	returnsBool := false
	if fd.Type.Results != nil {
		if len(fd.Type.Results.List) != 1 || len(fd.Type.Results.List[0].Names) != 0 || g.txt(fd.Type.Results.List[0].Type) != "bool" {
			g.fail(fd, "Emit returns something else than one unnamed bool")
		}
		returnsBool = true
	}
	body := fd.Body.List
	if len(body) == 0 {
		g.fail(fd, "empty Emit")
	}
	rs, ok := body[0].(*ast.RangeStmt)
	if !ok {
		g.fail(body[0], "the first statement of Emit is not `for _, listener := range %s.listeners`: `%s`", R, g.txt(body[0]))
	}
	key, kok := rs.Key.(*ast.Ident)
	val, vok := rs.Value.(*ast.Ident)
	if !kok || !vok || key.Name != "_" || val.Name == "_" || rs.Tok != token.DEFINE || g.txt(rs.X) != R+".listeners" {
		g.fail(rs, "expected `for _, listener := range %s.listeners`", R)
	}
	L := val.Name
	if len(rs.Body.List) != 1 {
		g.fail(rs, "the listener loop has %d statements (expected exactly the call of the listener)", len(rs.Body.List))
	}
	callShape := func(e ast.Expr) (string, bool) {
		switch g.txt(e) {
		case L + "(" + ev + ")":
			return "false", true
		case L + ".listener(" + ev + ")":
			return "true", true
		}
		return "", false
	}
	fieldCall, cancel := "", "None"
	switch st := rs.Body.List[0].(type) {
	case *ast.ExprStmt:
		fc, ok := callShape(st.X)
		if !ok {
			g.fail(st, "expected `%s(%s)` or `%s.listener(%s)` (the listener is handed exactly what Emit was given), found `%s`", L, ev, L, ev, g.txt(st))
		}
		fieldCall = fc
	case *ast.IfStmt:
		fc, ok := callShape(st.Cond)
		if st.Init != nil || st.Else != nil || !ok {
			g.fail(st, "expected `if %s.listener(%s) { logging.Log(...); return ... }`, found `%s`", L, ev, g.txt(st))
		}
		fieldCall = fc
		if !returnsBool {
			g.fail(st, "a cancel branch in an Emit without result")
		}
		if len(st.Body.List) != 2 {
			g.fail(st, "the cancel branch has %d statements (expected logging.Log(...); return ...)", len(st.Body.List))
		}
		what := g.logCall(st.Body.List[0], ev)
		ret, ok := st.Body.List[1].(*ast.ReturnStmt)
		if !ok || len(ret.Results) != 1 {
			g.fail(st.Body.List[1], "expected `return true`, found `%s`", g.txt(st.Body.List[1]))
		}
		lit, ok := boolLit(ret.Results[0])
		if !ok || !g.isUniverseBool(ret.Results[0]) {
			g.fail(ret, "the cancel branch returns something else than a bool literal: `%s`", g.txt(ret))
		}
		cancel = fmt.Sprintf("(Some (mkCancelD %s %s))", what, lit)
	default:
		g.fail(st, "unrecognised statement in the listener loop: `%s`", g.txt(st))
	}
	body = body[1:]
	logAfter := "false"
	if len(body) > 0 {
		if _, isRet := body[0].(*ast.ReturnStmt); !isRet {
			if what := g.logCall(body[0], ev); what != "LogEvent" {
				g.fail(body[0], "after the loop the event itself is logged, found `%s`", g.txt(body[0]))
			}
			logAfter = "true"
			body = body[1:]
		}
	}
	final := "None"
	if returnsBool {
		if len(body) == 0 {
			g.fail(fd, "Emit ends without `return`")
		}
		ret, ok := body[0].(*ast.ReturnStmt)
		if !ok || len(ret.Results) != 1 {
			g.fail(body[0], "expected the closing `return false`, found `%s`", g.txt(body[0]))
		}
		lit, ok := boolLit(ret.Results[0])
		if !ok || !g.isUniverseBool(ret.Results[0]) {
			g.fail(ret, "Emit returns something else than a bool literal: `%s`", g.txt(ret))
		}
		final = "(Some " + lit + ")"
		body = body[1:]
	}
	if len(body) > 0 {
		g.fail(body[0], "unrecognised statement in Emit: `%s`", g.txt(body[0]))
	}
	return fmt.Sprintf("mkEmitD true %s %s %s %s %s", fieldCall, pass, cancel, logAfter, final)
}

// ---------------------------------------------------------------------------------------
// package logging

func (g *hgen) logging() (vars [][2]string, logD, initD, posLog, posInit string) {
	var fLog, fInit *ast.FuncDecl
	for _, f := range g.pkg.Syntax {
		for _, d := range f.Decls {
			switch x := d.(type) {
			case *ast.GenDecl:
				if x.Tok != token.VAR {
					continue
				}
				for _, s := range x.Specs {
					vs := s.(*ast.ValueSpec)
					if vs.Type == nil || len(vs.Values) != 0 {
						g.fail(vs, "package-level variable of pkg/engine/logging with an initialiser / without a type")
					}
					for _, n := range vs.Names {
						vars = append(vars, [2]string{n.Name, g.txt(vs.Type)})
					}
				}
			case *ast.FuncDecl:
				if x.Recv == nil && x.Name.Name == "Log" {
					fLog = x
				}
				if x.Recv == nil && x.Name.Name == "InitLoggers" {
					fInit = x
				}
			}
		}
	}
	if fLog == nil || fInit == nil || fLog.Body == nil || fInit.Body == nil {
		die("HandlersTable: logging.Log / logging.InitLoggers not found")
	}
	posLog, posInit = g.src.pos(fLog), g.src.pos(fInit)
	scope := g.pkg.Types.Scope()
	mu, loggers := scope.Lookup("mu"), scope.Lookup("loggers")
	if mu == nil || loggers == nil {
		die("HandlersTable: package-level variables mu / loggers of pkg/engine/logging not found")
	}
	if mu.Type().String() != "sync.RWMutex" {
		g.fail(fLog, "logging.mu is a %s, not a sync.RWMutex", mu.Type())
	}
	if sl, ok := loggers.Type().(*types.Slice); !ok || sl.Elem().String() != loggingPath+".Logger" {
		g.fail(fLog, "logging.loggers is a %s, not a []Logger", loggers.Type())
	}
	// the logger list and its lock are touched by Log and InitLoggers only
	for id, obj := range g.info.Uses {
		if obj != mu && obj != loggers {
			continue
		}
		in := func(fd *ast.FuncDecl) bool { return fd.Body.Pos() <= id.Pos() && id.Pos() < fd.Body.End() }
		if !in(fLog) && !in(fInit) {
			g.fail(id, "logging.%s is used outside Log / InitLoggers", id.Name)
		}
	}
	// type Logger interface { Log(e any) }
	lobj := scope.Lookup("Logger")
	if lobj == nil {
		die("HandlersTable: type logging.Logger not found")
	}
	if it, ok := lobj.Type().Underlying().(*types.Interface); !ok || it.NumMethods() != 1 || it.Method(0).Name() != "Log" ||
		it.Method(0).Type().String() != "func(e any)" {
		g.fail(fLog, "logging.Logger is no longer `interface { Log(e any) }`")
	}

	// func InitLoggers(ls ...Logger) { mu.Lock(); defer mu.Unlock(); loggers = ls }
	pn, pt := g.params(fInit.Type.Params)
	if len(pn) != 1 || g.txt(pt[0]) != "...Logger" || fInit.Type.Results.NumFields() != 0 || fInit.Type.TypeParams != nil {
		g.fail(fInit, "InitLoggers is no longer `func InitLoggers(ls ...Logger)`")
	}
	if got, want := g.txt(fInit.Body), "{ mu.Lock() defer mu.Unlock() loggers = "+pn[0]+" }"; got != want {
		g.fail(fInit, "InitLoggers is no longer `%s`: %s", want, got)
	}
	initD = "mkInitD true true"

	// func Log(e any) { mu.RLock(); ls := loggers; mu.RUnlock(); for _, l := range ls { l.Log(e) } }
	pn, pt = g.params(fLog.Type.Params)
	if len(pn) != 1 || g.txt(pt[0]) != "any" || fLog.Type.Results.NumFields() != 0 || fLog.Type.TypeParams != nil {
		g.fail(fLog, "Log is no longer `func Log(e any)`")
	}
	if tn, ok := g.info.Uses[pt[0].(*ast.Ident)].(*types.TypeName); !ok || tn.Pkg() != nil {
		g.fail(fLog, "`any` is not the predeclared type")
	}
	b := fLog.Body.List
	if len(b) != 4 {
		g.fail(fLog, "Log has %d statements (expected mu.RLock(); ls := loggers; mu.RUnlock(); for _, l := range ls { l.Log(e) })", len(b))
	}
	as, ok := b[1].(*ast.AssignStmt)
	if !ok || as.Tok != token.DEFINE || len(as.Lhs) != 1 || len(as.Rhs) != 1 {
		g.fail(b[1], "expected `ls := loggers`, found `%s`", g.txt(b[1]))
	}
	lsID, ok := as.Lhs[0].(*ast.Ident)
	if !ok || lsID.Name == "_" || lsID.Name == "mu" || lsID.Name == "loggers" {
		g.fail(b[1], "expected `ls := loggers`, found `%s`", g.txt(b[1]))
	}
	rs, ok := b[3].(*ast.RangeStmt)
	if !ok {
		g.fail(b[3], "expected `for _, l := range %s { l.Log(%s) }`, found `%s`", lsID.Name, pn[0], g.txt(b[3]))
	}
	val, vok := rs.Value.(*ast.Ident)
	if !vok || val.Name == "_" {
		g.fail(rs, "expected `for _, l := range %s`", lsID.Name)
	}
	want := fmt.Sprintf("{ mu.RLock() %s := loggers mu.RUnlock() for _, %s := range %s { %s.Log(%s) } }", lsID.Name, val.Name, lsID.Name, val.Name, pn[0])
	if got := g.txt(fLog.Body); got != want {
		g.fail(fLog, "Log is no longer `%s`: %s", want, got)
	}
	// the identifiers mean what they say
	for id, obj := range g.info.Uses {
		inLog := fLog.Body.Pos() <= id.Pos() && id.Pos() < fLog.Body.End()
		inInit := fInit.Body.Pos() <= id.Pos() && id.Pos() < fInit.Body.End()
		if !inLog && !inInit {
			continue
		}
		if (id.Name == "mu" && obj != mu) || (id.Name == "loggers" && obj != loggers) {
			g.fail(id, "`%s` does not denote the package-level variable", id.Name)
		}
	}
	logD = "mkLogD true true true"
	return
}
