(* The array heap of Model/QueueHeap.v (container/heap's up/down over queue.go's Less/Swap)
   refines the abstract queue of Model/Queue.v: same tasks pending, and Pop returns the same
   task as [pop_min], after any interleaving of inserts and pops. *)
From Coq Require Import List ZArith Bool Arith Lia.
From SR Require Import Model.Queue Model.QueueHeap Proofs.QueueProofs.
Import ListNotations.
Local Open Scope nat_scope.

(* ---- index arithmetic ---- *)
Lemma parent_cases : forall c, 0 < c -> c = 2 * parent c + 1 \/ c = 2 * parent c + 2.
Proof.
  intros c H. unfold parent. pose proof (Nat.div_mod (c - 1) 2 ltac:(lia)) as E.
  pose proof (Nat.mod_upper_bound (c - 1) 2 ltac:(lia)) as B. lia.
Qed.
Lemma parent_left : forall i, parent (2 * i + 1) = i.
Proof. intros. pose proof (parent_cases (2*i+1) ltac:(lia)). lia. Qed.
Lemma parent_right : forall i, parent (2 * i + 2) = i.
Proof. intros. pose proof (parent_cases (2*i+2) ltac:(lia)). lia. Qed.
Lemma parent_lt : forall j, 0 < j -> parent j < j.
Proof. intros j H. pose proof (parent_cases j H). lia. Qed.
Lemma parent_zero : parent 0 = 0. Proof. reflexivity. Qed.
Lemma parent_eq_self : forall j, parent j = j -> j = 0.
Proof. intros j H. destruct j; [reflexivity|]. pose proof (parent_lt (S j) ltac:(lia)). lia. Qed.

(* ---- arrays ---- *)
Section Arrays.
Variable d : task.

Lemma hset_length : forall a i x, length (hset a i x) = length a.
Proof. induction a as [|y r IH]; intros [|i] x; cbn; auto. Qed.

Lemma nth_hset_same : forall a i x, i < length a -> nth i (hset a i x) d = x.
Proof.
  induction a as [|y r IH]; intros [|i] x H; cbn in *; try lia; [reflexivity|]. apply IH. lia.
Qed.
Lemma nth_hset_other : forall a i k x, k <> i -> nth k (hset a i x) d = nth k a d.
Proof.
  induction a as [|y r IH]; intros [|i] [|k] x H; cbn; try reflexivity; try lia. apply IH. lia.
Qed.

Lemma hswap_length : forall a i j, length (hswap d a i j) = length a.
Proof. intros. unfold hswap. now rewrite !hset_length. Qed.

Lemma nth_hswap : forall a i j k, i < length a -> j < length a ->
  nth k (hswap d a i j) d =
  if Nat.eqb k j then nth i a d else if Nat.eqb k i then nth j a d else nth k a d.
Proof.
  intros a i j k Hi Hj. unfold hswap.
  destruct (Nat.eqb_spec k j) as [->|Hkj].
  - apply nth_hset_same. now rewrite hset_length.
  - rewrite nth_hset_other by assumption.
    destruct (Nat.eqb_spec k i) as [->|Hki].
    + now apply nth_hset_same.
    + now apply nth_hset_other.
Qed.

(* the swap index map *)
Definition sw (i j k : nat) : nat := if Nat.eqb k j then i else if Nat.eqb k i then j else k.
Lemma nth_hswap_sw : forall a i j k, i < length a -> j < length a ->
  nth k (hswap d a i j) d = nth (sw i j k) a d.
Proof.
  intros. rewrite nth_hswap by assumption. unfold sw.
  destruct (Nat.eqb k j); [reflexivity|]. destruct (Nat.eqb k i); reflexivity.
Qed.
Lemma sw_lt : forall i j k n, i < n -> j < n -> k < n -> sw i j k < n.
Proof. intros. unfold sw. destruct (Nat.eqb k j); [lia|]. destruct (Nat.eqb k i); lia. Qed.
Lemma sw_invol : forall i j k, sw i j (sw i j k) = k.
Proof.
  intros. unfold sw.
  destruct (Nat.eqb_spec k j) as [->|H1].
  - rewrite Nat.eqb_refl. destruct (Nat.eqb_spec i j); [auto|reflexivity].
  - destruct (Nat.eqb_spec k i) as [->|H2].
    + rewrite Nat.eqb_refl. reflexivity.
    + destruct (Nat.eqb_spec k j); [contradiction|]. destruct (Nat.eqb_spec k i); [contradiction|reflexivity].
Qed.

(* same elements, no duplicate ids *)
Definition same (a b : list task) : Prop := forall x, In x a <-> In x b.

Lemma hswap_same : forall a i j, i < length a -> j < length a -> same (hswap d a i j) a.
Proof.
  intros a i j Hi Hj x. split; intros H.
  - apply (In_nth _ _ d) in H. destruct H as [k [Hk He]]. rewrite hswap_length in Hk.
    rewrite nth_hswap_sw in He by assumption. subst x. apply nth_In. now apply sw_lt.
  - apply (In_nth _ _ d) in H. destruct H as [k [Hk He]]. subst x.
    rewrite <- (sw_invol i j k). rewrite <- nth_hswap_sw by assumption.
    apply nth_In. rewrite hswap_length. now apply sw_lt.
Qed.

Definition ids_inj (a : list task) : Prop :=
  forall k1 k2, k1 < length a -> k2 < length a -> t_id (nth k1 a d) = t_id (nth k2 a d) -> k1 = k2.

Lemma nodup_ids_inj : forall a, NoDup (ids a) <-> ids_inj a.
Proof.
  intros a. unfold ids, ids_inj. rewrite (NoDup_nth (map t_id a) (t_id d)). rewrite map_length.
  split; intros H k1 k2 H1 H2 He.
  - apply H; auto. now rewrite !map_nth.
  - apply H; auto. now rewrite !map_nth in He.
Qed.

Lemma hswap_inj : forall a i j, i < length a -> j < length a -> ids_inj a -> ids_inj (hswap d a i j).
Proof.
  intros a i j Hi Hj H k1 k2 H1 H2 He. rewrite hswap_length in *.
  rewrite !nth_hswap_sw in He by assumption.
  apply H in He; try now apply sw_lt.
  rewrite <- (sw_invol i j k1), He. apply sw_invol.
Qed.

(* ---- heap order on the first n cells ---- *)
Definition nl (a : list task) (x y : nat) : Prop := less (nth x a d) (nth y a d) = false.

Definition hinv (a : list task) (n : nat) : Prop := forall k, 0 < k < n -> nl a k (parent k).

(* heap except that cell j may be smaller than its parent *)
Definition up_inv (a : list task) (n j : nat) : Prop :=
  (forall k, 0 < k < n -> k <> j -> nl a k (parent k)) /\
  (0 < j -> forall c, 0 < c < n -> parent c = j -> nl a c (parent j)).

(* heap except that cell i may be greater than its children *)
Definition down_inv (a : list task) (n i : nat) : Prop :=
  (forall k, 0 < k < n -> parent k <> i -> nl a k (parent k)) /\
  (0 < i -> forall c, 0 < c < n -> parent c = i -> nl a c (parent i)).

Lemma less_nless : forall x y z, less y x = true -> less z x = false -> less z y = false.
Proof. intros x y z. rewrite less_iff, !less_false_iff. unfold lex_lt. lia. Qed.

Ltac case_eqb := match goal with |- context [Nat.eqb ?x ?y] => destruct (Nat.eqb_spec x y) end.
Ltac nth_sw := rewrite !nth_hswap by lia; repeat (case_eqb; try (exfalso; lia)).

Lemma up_correct : forall fuel a j, j < fuel -> j < length a -> up_inv a (length a) j ->
  hinv (up fuel d a j) (length a).
Proof.
  induction fuel as [|f IH]; intros a j Hf Hj [He Hg]; [lia|]. cbn [up].
  destruct (Nat.eqb_spec (parent j) j) as [Hpj|Hpj]; cbn [orb].
  { (* j = 0: nothing above *)
    apply parent_eq_self in Hpj. subst j. intros k Hk. apply He; lia. }
  destruct (less (nth j a d) (nth (parent j) a d)) eqn:El; cbn [negb].
  2:{ intros k Hk. destruct (Nat.eq_dec k j) as [->|Hne]; [exact El|now apply He]. }
  assert (Hj0 : 0 < j) by (destruct j; [rewrite parent_zero in Hpj; lia|lia]).
  pose proof (parent_lt j Hj0) as Hp.
  set (i := parent j) in *.
  replace (length a) with (length (hswap d a i j)) by apply hswap_length.
  apply IH; [lia|rewrite hswap_length; lia|]. rewrite hswap_length.
  split.
  - intros k Hk Hki. unfold nl.
    destruct (Nat.eq_dec k j) as [->|Hkj].
    + (* the swapped pair itself *)
      fold i. nth_sw. now apply less_asym.
    + destruct (Nat.eq_dec (parent k) i) as [Hpk|Hpk].
      * (* sibling of j *)
        rewrite Hpk. nth_sw. eapply less_nless; [exact El|]. fold (nl a k i). rewrite <- Hpk. apply He; lia.
      * destruct (Nat.eq_dec (parent k) j) as [Hpkj|Hpkj].
        -- (* child of j: compare with what was j's parent *)
           rewrite Hpkj. pose proof (parent_lt k ltac:(lia)). nth_sw. apply (Hg Hj0 k); lia.
        -- pose proof (parent_lt k ltac:(lia)). nth_sw. apply He; lia.
  - intros Hi0 c Hc Hpc. unfold nl. pose proof (parent_lt i Hi0) as Hpi.
    pose proof (parent_lt c ltac:(lia)) as Hpcl.
    destruct (Nat.eq_dec c j) as [->|Hcj].
    + nth_sw. apply He; lia.
    + nth_sw. eapply nless_trans; [apply (He i); lia|]. fold (nl a c i). rewrite <- Hpc. apply He; lia.
Qed.

Lemma down_correct : forall fuel a i n, n - i < fuel -> n <= length a -> down_inv a n i ->
  hinv (down fuel d a i n) n.
Proof.
  induction fuel as [|f IH]; intros a i n Hf Hn [He Hg]; [lia|]. cbn [down].
  destruct (Nat.leb_spec n (2 * i + 1)) as [Hle|Hlt].
  { (* no child inside the heap *)
    intros k Hk. apply He; [exact Hk|]. intros Hp. pose proof (parent_cases k ltac:(lia)). lia. }
  set (j1 := 2 * i + 1) in *.
  set (j := if (j1 + 1 <? n) && less (nth (j1 + 1) a d) (nth j1 a d) then j1 + 1 else j1).
  assert (Hj : (j = j1 \/ j = j1 + 1) /\ j < n /\ parent j = i /\
               (forall c, 0 < c < n -> parent c = i -> less (nth c a d) (nth j a d) = false)).
  { unfold j. destruct (Nat.ltb_spec (j1 + 1) n) as [H2|H2]; cbn [andb].
    - destruct (less (nth (j1 + 1) a d) (nth j1 a d)) eqn:E.
      + split; [now right|]. split; [lia|]. split; [unfold j1; replace (2*i+1+1) with (2*i+2) by lia; apply parent_right|].
        intros c Hc Hpc. pose proof (parent_cases c ltac:(lia)).
        assert (c = j1 \/ c = j1 + 1) as [->| ->] by (unfold j1; lia); [now apply less_asym|apply less_irrefl].
      + split; [now left|]. split; [lia|]. split; [apply parent_left|].
        intros c Hc Hpc. pose proof (parent_cases c ltac:(lia)).
        assert (c = j1 \/ c = j1 + 1) as [->| ->] by (unfold j1; lia); [apply less_irrefl|exact E].
    - split; [now left|]. split; [lia|]. split; [apply parent_left|].
      intros c Hc Hpc. pose proof (parent_cases c ltac:(lia)).
      assert (c = j1) as -> by (unfold j1 in *; lia). apply less_irrefl. }
  destruct Hj as [Hjc [Hjn [Hpj Hjmin]]]. clearbody j.
  destruct (less (nth j a d) (nth i a d)) eqn:El; cbn [negb].
  2:{ intros k Hk. destruct (Nat.eq_dec (parent k) i) as [Hp|Hp]; [|now apply He].
      rewrite Hp. unfold nl. eapply nless_trans; [exact El|]. now apply Hjmin. }
  assert (Hij : i < j) by (unfold j1 in *; lia).
  apply IH; [lia|rewrite hswap_length; lia|].
  split.
  - intros k Hk Hpk. unfold nl.
    destruct (Nat.eq_dec k j) as [->|Hkj].
    + rewrite Hpj. nth_sw. now apply less_asym.
    + destruct (Nat.eq_dec (parent k) i) as [Hpki|Hpki].
      * (* the other child of i now sits under what was the smaller child *)
        pose proof (parent_lt k ltac:(lia)). rewrite Hpki. nth_sw. apply Hjmin; [lia|assumption].
      * destruct (Nat.eq_dec k i) as [->|Hki].
        -- (* i itself against its own parent *)
           pose proof (parent_lt i ltac:(lia)). nth_sw. apply (Hg ltac:(lia) j); lia.
        -- pose proof (parent_lt k ltac:(lia)). nth_sw. apply He; lia.
  - intros Hj0 c Hc Hpc. unfold nl. rewrite Hpj.
    pose proof (parent_cases c ltac:(lia)).
    nth_sw. fold (nl a c j). rewrite <- Hpc. apply He; lia.
Qed.

(* the loops only permute: same elements, same length, ids still distinct, cells outside untouched *)
Lemma up_keeps : forall fuel a j, j < length a ->
  length (up fuel d a j) = length a /\ same (up fuel d a j) a /\ (ids_inj a -> ids_inj (up fuel d a j)).
Proof.
  induction fuel as [|f IH]; intros a j Hj; cbn [up]; [split; [|split]; [reflexivity|intros x; tauto|auto]|].
  destruct (Nat.eqb (parent j) j || negb (less (nth j a d) (nth (parent j) a d))) eqn:E;
    [split; [|split]; [reflexivity|intros x; tauto|auto]|].
  apply orb_false_iff in E. destruct E as [E _]. apply Nat.eqb_neq in E.
  assert (Hj0 : 0 < j) by (destruct j; [rewrite parent_zero in E; lia|lia]).
  pose proof (parent_lt j Hj0) as Hp.
  destruct (IH (hswap d a (parent j) j) (parent j)) as [H1 [H2 H3]]; [rewrite hswap_length; lia|].
  rewrite hswap_length in H1. split; [exact H1|]. split.
  - intros x. rewrite (H2 x). apply hswap_same; lia.
  - intros Hi. apply H3. apply hswap_inj; [lia|lia|exact Hi].
Qed.

Lemma down_keeps : forall fuel a i n, n <= length a ->
  length (down fuel d a i n) = length a /\ same (down fuel d a i n) a /\
  (ids_inj a -> ids_inj (down fuel d a i n)) /\
  (forall k, n <= k -> nth k (down fuel d a i n) d = nth k a d).
Proof.
  induction fuel as [|f IH]; intros a i n Hn; cbn [down];
    [split; [|split; [|split]]; [reflexivity|intros x; tauto|auto|auto]|].
  destruct (Nat.leb_spec n (2 * i + 1)) as [Hle|Hlt];
    [split; [|split; [|split]]; [reflexivity|intros x; tauto|auto|auto]|].
  set (j := if (2 * i + 1 + 1 <? n) && less (nth (2 * i + 1 + 1) a d) (nth (2 * i + 1) a d)
            then 2 * i + 1 + 1 else 2 * i + 1).
  assert (Hj : j < n /\ i < j).
  { unfold j. destruct (Nat.ltb_spec (2 * i + 1 + 1) n); cbn [andb];
      [destruct (less _ _)|]; lia. }
  clearbody j. destruct Hj as [Hjn Hij].
  destruct (negb (less (nth j a d) (nth i a d)));
    [split; [|split; [|split]]; [reflexivity|intros x; tauto|auto|auto]|].
  destruct (IH (hswap d a i j) j n) as [H1 [H2 [H3 H4]]]; [rewrite hswap_length; lia|].
  rewrite hswap_length in H1. split; [exact H1|]. split; [|split].
  - intros x. rewrite (H2 x). apply hswap_same; lia.
  - intros Hi. apply H3. apply hswap_inj; [lia|lia|exact Hi].
  - intros k Hk. rewrite H4 by assumption. rewrite nth_hswap by lia.
    repeat (case_eqb; try (exfalso; lia)). reflexivity.
Qed.

(* the root of a heap is a least element *)
Lemma root_least : forall a n, hinv a n -> forall k, k < n -> nl a k 0.
Proof.
  intros a n H k. induction k as [k IHk] using lt_wf_ind. intros Hk.
  destruct k; [apply less_irrefl|].
  pose proof (parent_lt (S k) ltac:(lia)) as Hp.
  unfold nl. eapply nless_trans; [apply (IHk (parent (S k)) Hp); lia|]. apply H. lia.
Qed.

End Arrays.

(* ------------------------------------------------------------------------------------ *)
(* refinement *)
Lemma hinv_indep : forall d d' a n, n <= length a -> hinv d a n -> hinv d' a n.
Proof.
  intros d d' a n Hn H k Hk. unfold nl. pose proof (parent_lt k ltac:(lia)).
  rewrite (nth_indep a d' d) by lia. rewrite (nth_indep a d' d) by lia. now apply H.
Qed.

Lemma nodup_ids_eq : forall (l : list task) x y, NoDup (ids l) -> In x l -> In y l -> t_id x = t_id y -> x = y.
Proof.
  induction l as [|z l IH]; intros x y Hnd Hx Hy He; [destruct Hx|].
  inversion Hnd as [|? ? Hz Hr]; subst.
  destruct Hx as [->|Hx], Hy as [->|Hy]; auto.
  - exfalso. apply Hz. rewrite He. unfold ids. now apply in_map.
  - exfalso. apply Hz. rewrite <- He. unfold ids. now apply in_map.
Qed.

Definition R (q : queue) (h : hqueue) : Prop :=
  qinv q /\ q_counter q = h_counter h /\ same (q_pending q) (h_arr h) /\
  NoDup (ids (h_arr h)) /\ forall d, hinv d (h_arr h) (length (h_arr h)).

Lemma R_empty : R q_empty h_empty.
Proof.
  split; [apply qinv_empty|]. split; [reflexivity|]. split; [intros x; tauto|].
  split; [constructor|]. intros d k Hk. cbn in Hk. lia.
Qed.

Lemma same_ids_in : forall a b i, same a b -> In i (ids a) -> In i (ids b).
Proof.
  intros a b i H Hi. unfold ids in *. apply in_map_iff in Hi. destruct Hi as [x [He Hx]].
  apply in_map_iff. exists x. split; [exact He|]. now apply H.
Qed.

Theorem R_insert : forall q h p s f b, R q h -> R (q_insert q p s f b) (h_insert h p s f b).
Proof.
  intros q h p s f b [Hq [Hc [Hs [Hnd Hh]]]].
  unfold h_insert. set (t := mkT (h_counter h) p s f b). set (a := h_arr h ++ [t]).
  assert (Hla : length a = length (h_arr h) + 1) by (unfold a; rewrite app_length; cbn; lia).
  destruct (up_keeps t (length a) a (length (h_arr h)) ltac:(lia)) as [Hl [Hsame Hinj]].
  assert (Hfresh : ~ In (h_counter h) (ids (h_arr h))).
  { intros Hi. apply (same_ids_in _ (q_pending q)) in Hi; [|intros x; symmetry; apply Hs].
    unfold ids in Hi. apply in_map_iff in Hi. destruct Hi as [x [He Hx]].
    destruct Hq as [_ [_ Hb]]. specialize (Hb x Hx). lia. }
  assert (Hnda : NoDup (ids a)).
  { unfold a, ids. rewrite map_app. cbn. now apply nodup_snoc. }
  split; [now apply insert_qinv|]. split; [cbn; lia|]. split; [|split].
  - cbn [q_insert q_pending h_arr]. rewrite Hc. fold t. intros x. rewrite (Hsame x). unfold a.
    rewrite !in_app_iff. rewrite (Hs x). tauto.
  - cbn [h_arr]. apply (nodup_ids_inj t). apply Hinj. now apply (nodup_ids_inj t).
  - cbn [h_arr]. intros d. rewrite Hl. apply (hinv_indep t); [lia|].
    apply up_correct; [lia|lia|]. split.
    + intros k Hk Hne. unfold nl. pose proof (parent_lt k ltac:(lia)).
      unfold a. rewrite !app_nth1 by lia. apply (Hh t). lia.
    + intros _ c Hc' Hpc. pose proof (parent_lt c ltac:(lia)). lia.
Qed.

Lemma last_split : forall d (a : list task) n, length a = S n -> a = firstn n a ++ [nth n a d].
Proof.
  intros d a n. revert a. induction n as [|n IH]; intros a H.
  - destruct a as [|x [|y r]]; cbn in H; try lia. reflexivity.
  - destruct a as [|x r]; cbn in H; [lia|]. cbn. f_equal. apply IH. lia.
Qed.

Theorem R_pop : forall q h, R q h ->
  (h_pop h = None <-> pop_min q = None) /\
  (forall m h', h_pop h = Some (m, h') -> exists q', pop_min q = Some (m, q') /\ R q' h').
Proof.
  intros q h [Hq [Hc [Hs [Hnd Hh]]]]. split.
  - rewrite pop_min_none. unfold h_pop. destruct (h_arr h) as [|d r] eqn:Ea.
    + split; [|reflexivity]. intros _. destruct (q_pending q) as [|x l]; [reflexivity|].
      exfalso. apply (Hs x). now left.
    + split; [discriminate|]. intros Hp. exfalso. rewrite Hp in Hs. apply (Hs d). now left.
  - intros m h' Hp. unfold h_pop in Hp. destruct (h_arr h) as [|d r] eqn:Ea; [discriminate|].
    set (arr := d :: r) in *.
    set (n := length arr - 1) in *.
    assert (Hlen : length arr = S n) by (unfold n, arr; cbn; lia).
    set (a1 := hswap d arr 0 n) in *.
    assert (Hl1 : length a1 = S n) by (unfold a1; rewrite hswap_length; exact Hlen).
    destruct (down_keeps d (length arr) a1 0 n ltac:(lia)) as [Hl2 [Hsame2 [Hinj2 Hout]]].
    set (a2 := down (length arr) d a1 0 n) in *.
    inversion Hp; subst m h'; clear Hp.
    (* the value returned is the old root *)
    assert (Hm : nth n a2 d = nth 0 arr d).
    { rewrite Hout by lia. unfold a1. rewrite nth_hswap by lia. now rewrite Nat.eqb_refl. }
    rewrite Hm. set (m := nth 0 arr d).
    assert (Hmin : forall x, In x arr -> less x m = false).
    { intros x Hx. apply (In_nth _ _ d) in Hx. destruct Hx as [k [Hk <-]].
      apply (root_least d arr (length arr) (Hh d) k Hk). }
    assert (Hmarr : In m arr) by (apply nth_In; lia).
    (* the abstract queue pops the same task *)
    destruct (pop_min q) as [[m' q']|] eqn:Epop.
    2:{ apply pop_min_none in Epop. exfalso. rewrite Epop in Hs. apply (Hs m). exact Hmarr. }
    destruct (pop_min_spec q m' q' Hq Epop) as [Hin' [Hleast' [_ [HP [Hni [Hc' Hq']]]]]].
    assert (Hmm : m' = m).
    { apply (nodup_ids_eq (q_pending q)); [apply Hq|exact Hin'|now apply Hs|].
      destruct (Z.eq_dec (t_id m') (t_id m)) as [He|Hne]; [exact He|].
      destruct (less_total m' m Hne) as [Hl|Hl].
      - rewrite (Hmin m') in Hl; [discriminate|now apply Hs].
      - rewrite (Hleast' m) in Hl; [discriminate|now apply Hs]. }
    subst m'. exists q'. split; [reflexivity|].
    (* the new array: a2 without its last cell *)
    assert (Hsplit : a2 = firstn n a2 ++ [m]).
    { unfold m. rewrite <- Hm. apply last_split. lia. }
    assert (Hsame_a2 : same a2 arr).
    { intros x. rewrite (Hsame2 x). apply hswap_same; lia. }
    assert (Hnd2 : NoDup (ids a2)).
    { apply (nodup_ids_inj d). apply Hinj2. apply hswap_inj; [lia|lia|]. now apply (nodup_ids_inj d). }
    assert (Hnd2' : NoDup (ids (firstn n a2) ++ [t_id m])).
    { rewrite Hsplit in Hnd2. unfold ids in *. rewrite map_app in Hnd2. exact Hnd2. }
    assert (Hmnot : ~ In (t_id m) (ids (firstn n a2))).
    { apply NoDup_remove_2 in Hnd2'. now rewrite app_nil_r in Hnd2'. }
    split; [exact Hq'|]. split; [cbn; lia|]. split; [|split].
    + cbn [h_arr]. intros x. split; intros Hx.
      * assert (Hxp : In x (q_pending q)).
        { eapply Permutation.Permutation_in; [apply Permutation.Permutation_sym; exact HP|now right]. }
        apply Hs in Hxp. apply Hsame_a2 in Hxp. rewrite Hsplit in Hxp. apply in_app_or in Hxp.
        destruct Hxp as [Hx1|[<-|[]]]; [exact Hx1|].
        exfalso. apply Hni. unfold ids. now apply in_map.
      * assert (Hxa : In x a2) by (rewrite Hsplit; apply in_or_app; now left).
        apply Hsame_a2 in Hxa. apply Hs in Hxa.
        eapply Permutation.Permutation_in in Hxa; [|exact HP]. destruct Hxa as [<-|Hxa]; [|exact Hxa].
        exfalso. apply Hmnot. unfold ids. now apply in_map.
    + cbn [h_arr]. apply NoDup_remove_1 in Hnd2'. now rewrite app_nil_r in Hnd2'.
    + cbn [h_arr]. intros d'.
      assert (Hlf : length (firstn n a2) = n) by (rewrite firstn_length; lia).
      rewrite Hlf. apply (hinv_indep d); [lia|].
      assert (Hd : hinv d a2 n).
      { apply down_correct; [lia|lia|]. split.
        - intros k Hk Hpk. unfold nl, a1. pose proof (parent_lt k ltac:(lia)).
          rewrite !nth_hswap by lia.
          repeat (match goal with |- context [Nat.eqb ?x ?y] => destruct (Nat.eqb_spec x y) end;
                  try (exfalso; lia)).
          apply (Hh d). lia.
        - intros H0. lia. }
      intros k Hk. unfold nl. pose proof (parent_lt k ltac:(lia)).
      specialize (Hd k Hk). unfold nl in Hd. rewrite Hsplit in Hd. rewrite !app_nth1 in Hd by lia. exact Hd.
Qed.

(* every interleaving of inserts and pops on the array heap *)
Fixpoint hrun (h : hqueue) (ops : list aop) : hqueue * list task :=
  match ops with
  | [] => (h, [])
  | AIns p s f b :: r => hrun (h_insert h p s f b) r
  | APop :: r =>
      match h_pop h with
      | None => hrun h r
      | Some (t, h') => let (hf, l) := hrun h' r in (hf, t :: l)
      end
  end.

Theorem heap_refines_queue : forall ops q h, R q h ->
  snd (hrun h ops) = snd (arun q ops) /\ R (fst (arun q ops)) (fst (hrun h ops)).
Proof.
  induction ops as [|o r IH]; intros q h HR; cbn [hrun arun].
  - split; [reflexivity|exact HR].
  - destruct o as [p s f b|].
    + apply IH. now apply R_insert.
    + destruct (R_pop q h HR) as [Hnone Hsome].
      destruct (h_pop h) as [[t h']|] eqn:Eh.
      * destruct (Hsome t h' eq_refl) as [q' [Eq HR']]. rewrite Eq.
        destruct (IH q' h' HR') as [H1 H2].
        destruct (hrun h' r) as [hf l]. destruct (arun q' r) as [qf l']. cbn [fst snd] in *.
        split; [now rewrite H1|exact H2].
      * assert (Eq : pop_min q = None) by now apply Hnone. rewrite Eq. now apply IH.
Qed.

Corollary heap_pops_like_pop_min : forall ops,
  snd (hrun h_empty ops) = snd (arun q_empty ops).
Proof. intros ops. apply heap_refines_queue. apply R_empty. Qed.
