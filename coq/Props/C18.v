(* C18 — Event delivery is complete, ordered and logged once; histories with RE-ENTRANT
   listeners (scripts that Emit, Subscribe and InitLoggers from inside a running Emit, on any
   handler including the one being emitted).
   Only statements, [exact] and [Print Assumptions] live here. *)
From Coq Require Import List ZArith.
From SR Require Import Model.Events Proofs.EventsProofs.
Import ListNotations.

(* every history, every listener script, every fuel; abnormal outcomes excluded explicitly *)
Theorem C18_event_delivery : C18_statement.
Proof. exact C18_holds. Qed.
Print Assumptions C18_event_delivery.

(* The delivery clause at full strength (after the repair 5106e78 of the three sorting
   handlers): every emission of every history - listener scripts that Subscribe to the handler
   being emitted included - reaches each listener subscribed when it was entered exactly once,
   in the handler's order; the prefix up to the first canceller when cancelled. *)
Theorem C18_delivery_exactly_once : C18_delivery_full.
Proof. exact C18_delivery_full_holds. Qed.
Print Assumptions C18_delivery_exactly_once.

Theorem C18_no_listener_called_twice : forall fuel kinds ops w kids,
  run fuel (init kinds) ops = Ok (w, kids) ->
  Forall (fun fr => match fr with
                    | Frame _ _ _ _ calls _ _ _ => NoDup (map (fun cl => l_id (call_l cl)) calls)
                    end) (flat_map all_frames_child kids).
Proof. exact delivery_no_duplicates. Qed.
Print Assumptions C18_no_listener_called_twice.

(* the history on which the unrepaired handlers called listeners 0, 0, 1 (corpus case
   reentrant_subscribe_disturbs_running_emit), followed by one more emission: now 0, 1, 2,
   and the listener subscribed meanwhile is reached, first, by the next emission *)
Theorem C18_reentrant_subscribe_nonvacuous :
  exists w kids,
    run 2 (init disturb_kinds) (disturb_ops ++ [OEmit 0 8%Z]) = Ok (w, kids) /\
    map (fun fr => match fr with Frame _ _ ls0 _ calls _ c _ =>
                     (map l_id ls0, map (fun cl => l_id (call_l cl)) calls, c) end)
        (flat_map all_frames_child kids)
    = [([0; 1; 2], [0; 1; 2], false); ([3; 0; 1; 2], [3; 0; 1; 2], false)]%Z /\
    trace w = [ISub 0 0 0; ISub 1 0 1; ISub 2 0 2;
               IEmit 0 7; ICall 0 0 7; ISub 3 0 (-1); ICall 1 0 7; ICall 2 0 7; IRet 0 false 7;
               IEmit 0 8; ICall 3 0 8; ICall 0 0 8; ICall 1 0 8; ICall 2 0 8; IRet 0 false 8]%Z.
Proof. exact reentrant_subscribe_delivered. Qed.

Theorem C18_mutable_listeners_see_earlier_changes :
  forall vin calls vout, threaded KMutable vin calls vout ->
    vout = fold_left (fun v cl => apply_x (r_x (call_r cl)) v) calls vin /\
    forall pre cl post, calls = pre ++ cl :: post ->
      call_v cl = fold_left (fun v c0 => apply_x (r_x (call_r c0)) v) pre vin.
Proof. exact threaded_mutable_fold. Qed.
Print Assumptions C18_mutable_listeners_see_earlier_changes.

Theorem C18_other_handlers_pass_value_unchanged :
  forall k vin calls vout, k <> KMutable -> threaded k vin calls vout ->
    vout = vin /\ Forall (fun cl => call_v cl = vin) calls.
Proof. exact threaded_const. Qed.
Print Assumptions C18_other_handlers_pass_value_unchanged.

(* clause (2) of the statement read for distinct loggers: a completed emission is logged
   exactly once by a logger registered at that moment, not at all by any other *)
Theorem C18_registered_logger_logs_once :
  forall lg h v c lgs, NoDup lgs -> In lg lgs -> ev_log lg (EDone h v c lgs) = [(h, v, c)].
Proof. exact ev_log_registered. Qed.
Print Assumptions C18_registered_logger_logs_once.

Theorem C18_unregistered_logger_sees_nothing :
  forall lg h v c lgs, ~ In lg lgs -> ev_log lg (EDone h v c lgs) = [].
Proof. exact ev_log_unregistered. Qed.
Print Assumptions C18_unregistered_logger_sees_nothing.

(* the outcome [Stuck] (the listener loop reads outside its backing array) is unreachable *)
Theorem C18_listener_loop_stays_inside_its_array :
  forall fuel kinds ops, run fuel (init kinds) ops <> Err Stuck.
Proof. exact run_never_stuck. Qed.
Print Assumptions C18_listener_loop_stays_inside_its_array.

(* the logging monitor that check.py evaluates on the implementation's traces accepts every
   model run (so a rejection is a difference between code and model or a property violation) *)
Theorem C18_log_monitor_accepts_every_model_run : forall fuel kinds ops w kids,
  run fuel (init kinds) ops = Ok (w, kids) ->
  SR.Model.EventsCheck.log_scan [] None (trace w) = true.
Proof. exact log_monitor_accepts_model. Qed.
Print Assumptions C18_log_monitor_accepts_every_model_run.

(* non-vacuity on a re-entrant history: same-handler nested emission, Subscribe to the own
   handler from inside the loop (mutable and simple), InitLoggers from inside a listener; per
   emission: handler, listeners subscribed at entry, listeners called, cancelled *)
Theorem C18_nonvacuous : exists w kids, run 10 (init demo_kinds) demo_ops = Ok (w, kids) /\
  length (trace w) = 38%nat /\
  length (flat_map all_frames_child kids) = 6%nat /\
  map (fun fr => match fr with Frame h _ ls0 _ calls _ c _ =>
                   (h, map l_id ls0, map (fun cl => l_id (call_l cl)) calls, c) end)
      (flat_map all_frames_child kids)
  = [(2%nat, [1; 0], [1; 0], false); (3%nat, [2; 3], [2; 3], true);
     (2%nat, [1; 5; 0], [1; 5; 0], false); (3%nat, [2; 3], [2], true);
     (0%nat, [4], [4], false); (0%nat, [4; 6], [4; 6], false)]%Z /\
  log_of 101 (trace w) = [(3%nat, 7, true); (2%nat, 1, false); (2%nat, 42, false);
                          (0%nat, 1, false); (3%nat, 9, true); (0%nat, 0, false)]%Z /\
  log_of 100 (trace w) = [].
Proof. exact demo_runs. Qed.

Theorem C18_out_of_fuel_is_distinct : run 1 (init demo_kinds) demo_ops = Err OutOfFuel.
Proof. exact demo_out_of_fuel. Qed.

(* ------------------------------------------------------------------------------------------ *)
(* TRANSLATOR TIE of the event handlers and the logger fan-out.  Gen/HandlersTable.v is regenerated by
   `go2coq HandlersTable` from pkg/engine/event/handler/{simple,priority,mutable,cancel}.go and
   pkg/engine/logging/logger.go on every run (every statement of Subscribe / Emit / Len / Swap / Less / Log /
   InitLoggers recognised, or the translator exits 1); Model/HandlersInterp.v interprets it over the world /
   trace / frame types of Model/Events.v.  For every world, handler index, priority, reaction queue, event
   value and fuel the interpretation of the generated table is what the hand-written model computes:
   Subscribe (in-place append with the runtime's growth for the simple handler; fresh array + insertion by the
   recognised Less for the three sorting handlers), Emit (the array ranged over is the one at entry; the
   listener gets the value / the pointer; the first canceller stops the loop, the CANCELLED event is logged
   and true returned; otherwise the event is logged after the loop), logging.Log (every logger of the list,
   once, in order) and InitLoggers (the list is replaced); and the table is field by field the expected one. *)
From SR Require Model.HandlersInterp Gen.HandlersTable Proofs.HandlersTableProofs.

Theorem C18_handlers_are_the_source :
  (forall w h prio rs,
     HandlersInterp.interp_subscribe HandlersTable.table w h prio rs = Some (subscribe w h prio rs)) /\
  (forall fuel w h v,
     HandlersInterp.interp_emit HandlersTable.table fuel w h v = Some (emit fuel w h v)) /\
  (forall lgs h v c,
     HandlersInterp.interp_log HandlersTable.table lgs h v c = Some (log_items lgs h v c)) /\
  (forall w lgs,
     HandlersInterp.interp_init HandlersTable.table w lgs = Some (init_loggers w lgs)) /\
  HandlersTable.table = HandlersInterp.expected_table.
Proof. exact HandlersTableProofs.handlers_hold. Qed.
Print Assumptions C18_handlers_are_the_source.
