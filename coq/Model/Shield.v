(* Model of pkg/engine/shield/{add,absorb,remove,manager}.go (after the two C16 repairs:
   AddShield adds the flat ShieldValue and sums the formula terms in a fixed order).
   Executable; no proofs here.

   The arithmetic is written once over a record of numeric operations [NumOps]: the
   instance at Coq's primitive binary64 [float] is what is executed and compared with the Go
   code bit for bit; the instance at [R] (Proofs/ShieldProofs.v) is where the algebraic
   clauses are proved.  Everything structural (replace-by-key, parallel absorption, removal
   and announcements) is proved for every instance at once. *)
From Coq Require Import List ZArith Bool Floats.
Import ListNotations.
Open Scope Z_scope.

Record NumOps (N : Type) := mkOps {
  n_zero : N; n_one : N;
  n_add : N -> N -> N; n_sub : N -> N -> N; n_mul : N -> N -> N;
  n_leb : N -> N -> bool; n_ltb : N -> N -> bool; n_eqb : N -> N -> bool }.
Arguments n_zero {N}. Arguments n_one {N}. Arguments n_add {N}. Arguments n_sub {N}.
Arguments n_mul {N}. Arguments n_leb {N}. Arguments n_ltb {N}. Arguments n_eqb {N}.

(* model.ShieldFormula: the five formula kinds AddShield knows, and a key it ignores *)
Inductive fkind := FAtk | FDef | FHp | FTgtHp | FTotalShield | FInvalid.
Definition fkind_eqb (a b : fkind) : bool :=
  match a, b with
  | FAtk, FAtk | FDef, FDef | FHp, FHp | FTgtHp, FTgtHp | FTotalShield, FTotalShield
  | FInvalid, FInvalid => true
  | _, _ => false
  end.

(* the properties the fake attribute getter serves: ATK_BASE, DEF_BASE, HP_BASE, ShieldBoost,
   ShieldTaken (every other property is absent = 0) *)
Record stats (N : Type) := mkSt { s_atk : N; s_def : N; s_hp : N; s_boost : N; s_taken : N }.
Arguments mkSt {N}. Arguments s_atk {N}. Arguments s_def {N}. Arguments s_hp {N}.
Arguments s_boost {N}. Arguments s_taken {N}.

Inductive op (N : Type) :=
| OStats (u : Z) (s : stats N)                                   (* the getter's answer changes *)
| OAdd (key src tgt : Z) (formula : list (fkind * N)) (flat : N) (* AddShield *)
| ORemove (key tgt : Z)                                          (* RemoveShield *)
| OAbsorb (tgt : Z) (dmg : N).                                   (* AbsorbDamage *)
Arguments OStats {N}. Arguments OAdd {N}. Arguments ORemove {N}. Arguments OAbsorb {N}.

Inductive event (N : Type) :=
| EAdded (key src tgt : Z) (flat health : N)                     (* event.ShieldAdded *)
| ERemoved (key tgt : Z)                                         (* event.ShieldRemoved *)
| EChange (tgt : Z) (maxid : option Z) (newhp oldhp din dout : N). (* event.ShieldChange *)
Arguments EAdded {N}. Arguments ERemoved {N}. Arguments EChange {N}.

(* what the harness records per operation: the events emitted during the call, the return
   value of AbsorbDamage, and afterwards for every unit of the pool
   (IsShielded, MaxShield, [HasShield k | k in key pool]) *)
Definition uprobe (N : Type) := (bool * N * list bool)%type.
Record obs (N : Type) := mkObs { o_evs : list (event N); o_ret : option N; o_probe : list (uprobe N) }.
Arguments mkObs {N}. Arguments o_evs {N}. Arguments o_ret {N}. Arguments o_probe {N}.

Definition shield (N : Type) := (Z * N)%type.          (* Instance{name, hp} *)

Record world (N : Type) := mkW {
  w_sh : list (Z * list (shield N));                   (* Manager.targets *)
  w_st : list (Z * stats N) }.                         (* what attr.Stats answers *)
Arguments mkW {N}. Arguments w_sh {N}. Arguments w_st {N}.

Section Model.
Context {N : Type} (O : NumOps N).

Definition zero := n_zero O.
Definition one := n_one O.

(* ---- association lists (Go maps keyed by TargetID; never iterated) ---- *)
Fixpoint aget {A} (m : list (Z * A)) (k : Z) : option A :=
  match m with
  | [] => None
  | (k', v) :: r => if k' =? k then Some v else aget r k
  end.
Fixpoint aset {A} (m : list (Z * A)) (k : Z) (v : A) : list (Z * A) :=
  match m with
  | [] => [(k, v)]
  | (k', v') :: r => if k' =? k then (k, v) :: r else (k', v') :: aset r k v
  end.

Definition get_sh (w : world N) (u : Z) : list (shield N) :=
  match aget (w_sh w) u with Some l => l | None => [] end.
Definition set_sh (w : world N) (u : Z) (l : list (shield N)) : world N :=
  mkW (aset (w_sh w) u l) (w_st w).
Definition zero_stats : stats N := mkSt zero zero zero zero zero.
Definition get_st (w : world N) (u : Z) : stats N :=
  match aget (w_st w) u with Some s => s | None => zero_stats end.

(* ---- manager.go ---- *)
Definition has_key (l : list (shield N)) (k : Z) : bool := existsb (fun s => fst s =? k) l.
Definition is_shielded (l : list (shield N)) : bool := match l with [] => false | _ => true end.
Definition max_shield (l : list (shield N)) : N :=
  fold_left (fun m s => if n_ltb O m (snd s) then snd s else m) l zero.

(* ---- info/stats.go: statCalc(base, percent, flat) with percent = 0, flat = 0 + 0 ---- *)
Definition statcalc (base : N) : N :=
  let out := n_add O (n_mul O base (n_add O one zero)) (n_add O zero zero) in
  if n_ltb O out zero then zero else out.

(* ---- add.go ---- *)
Fixpoint flookup (f : list (fkind * N)) (k : fkind) : option N :=
  match f with
  | [] => None
  | (k', v) :: r => if fkind_eqb k' k then Some v else flookup r k
  end.

(* the stat a formula kind multiplies *)
Definition stat_of (src tgt : stats N) (maxsh : N) (k : fkind) : option N :=
  match k with
  | FAtk => Some (statcalc (s_atk src))
  | FDef => Some (statcalc (s_def src))
  | FHp => Some (statcalc (s_hp src))
  | FTgtHp => Some (statcalc (s_hp tgt))
  | FTotalShield => Some maxsh
  | FInvalid => None
  end.

Definition canon : list fkind := [FAtk; FDef; FHp; FTgtHp; FTotalShield].

Definition add_term (f : list (fkind * N)) (src tgt : stats N) (maxsh : N) (acc : N) (k : fkind) : N :=
  match flookup f k, stat_of src tgt maxsh k with
  | Some v, Some s => n_add O acc (n_mul O v s)
  | _, _ => acc
  end.

Definition base_hp (f : list (fkind * N)) (flat : N) (src tgt : stats N) (maxsh : N) : N :=
  n_add O (fold_left (add_term f src tgt maxsh) canon zero) flat.

Definition strength (f : list (fkind * N)) (flat : N) (src tgt : stats N) (maxsh : N) : N :=
  n_mul O (n_mul O (base_hp f flat src tgt maxsh) (n_add O one (s_boost src))) (n_add O one (s_taken tgt)).

Fixpoint replace_key (l : list (shield N)) (k : Z) (hp : N) : list (shield N) :=
  match l with
  | [] => []
  | s :: r => if fst s =? k then (k, hp) :: r else s :: replace_key r k hp
  end.

Definition put_shield (l : list (shield N)) (k : Z) (hp : N) : list (shield N) :=
  if has_key l k then replace_key l k hp else l ++ [(k, hp)].

Definition do_add (w : world N) (key src tgt : Z) (f : list (fkind * N)) (flat : N)
  : world N * list (event N) :=
  let ssrc := get_st w src in
  let maxsh := max_shield (get_sh w src) in
  let stgt := get_st w tgt in
  let base := base_hp f flat ssrc stgt maxsh in
  let hp := strength f flat ssrc stgt maxsh in
  (set_sh w tgt (put_shield (get_sh w tgt) key hp), [EAdded key src tgt flat base]).

(* ---- remove.go ---- *)
Definition drop_key (l : list (shield N)) (k : Z) : list (shield N) :=
  filter (fun s => negb (fst s =? k)) l.

Definition do_remove (w : world N) (key tgt : Z) : world N * list (event N) :=
  if has_key (get_sh w tgt) key
  then (set_sh w tgt (drop_key (get_sh w tgt) key), [ERemoved key tgt])
  else (w, []).

(* ---- absorb.go ---- *)
(* math.Dim: v := x - y; if v <= 0 { return 0 }; return v *)
Definition dim (x y : N) : N :=
  let v := n_sub O x y in if n_leb O v zero then zero else v.

Definition hit (d : N) (s : shield N) : shield N := (fst s, dim (snd s) d).
Definition is_zero (s : shield N) : bool := n_eqb O (snd s) zero.

(* damageOut: the lowest remainder, starting from the incoming damage *)
Definition damage_out (d : N) (l : list (shield N)) : N :=
  fold_left (fun out s => let r := dim d (snd s) in if n_ltb O r out then r else out) l d.

(* newMaxShieldHP / maxShieldID over the shields after the hit (zero ones included) *)
Definition new_max (l' : list (shield N)) : N * option Z :=
  fold_left (fun acc s => if n_ltb O (fst acc) (snd s) then (snd s, Some (fst s)) else acc) l' (zero, None).

Definition do_absorb (w : world N) (tgt : Z) (d : N) : world N * list (event N) * N :=
  let l := get_sh w tgt in
  if negb (is_shielded l) || n_leb O d zero then (w, [], d)
  else
    let oldmax := max_shield l in
    let l' := map (hit d) l in
    let out := damage_out d l in
    let '(nmax, mid) := new_max l' in
    let gone := filter is_zero l' in
    let kept := filter (fun s => negb (is_zero s)) l' in
    (set_sh w tgt kept,
     map (fun s => ERemoved (fst s) tgt) gone ++ [EChange tgt mid nmax oldmax d out],
     out).

(* ---- harness probe ---- *)
Fixpoint zrange (n : nat) : list Z :=
  match n with 0%nat => [] | S n' => zrange n' ++ [Z.of_nat n'] end.

Definition probe (nu nk : nat) (w : world N) : list (uprobe N) :=
  map (fun u => let l := get_sh w u in
                (is_shielded l, max_shield l, map (has_key l) (zrange nk))) (zrange nu).

Definition set_st (w : world N) (u : Z) (s : stats N) : world N := mkW (w_sh w) (aset (w_st w) u s).

(* one operation: new world, events, return value *)
Definition step (w : world N) (o : op N) : world N * list (event N) * option N :=
  match o with
  | OStats u s => (set_st w u s, [], None)
  | OAdd key src tgt f flat => let '(w', evs) := do_add w key src tgt f flat in (w', evs, None)
  | ORemove key tgt => let '(w', evs) := do_remove w key tgt in (w', evs, None)
  | OAbsorb tgt d => let '(w', evs, r) := do_absorb w tgt d in (w', evs, Some r)
  end.

Definition init : world N := mkW [] [].

Fixpoint run (nu nk : nat) (w : world N) (ops : list (op N)) : list (obs N) :=
  match ops with
  | [] => []
  | o :: r => let '(w', evs, ret) := step w o in mkObs evs ret (probe nu nk w') :: run nu nk w' r
  end.

End Model.

(* the executed instance: IEEE binary64, Go's operators *)
Definition FOps : NumOps float :=
  mkOps float 0%float 1%float PrimFloat.add PrimFloat.sub PrimFloat.mul
        PrimFloat.leb PrimFloat.ltb PrimFloat.eqb.
