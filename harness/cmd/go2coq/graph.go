package main

// Function table and an over-approximated call graph of the module.
//
// Nodes: every function and method declared in a (non-test) file of the module, plus one node
// per package-level `var` declaration with an initialiser ("var x").  Function literals belong
// to the node that encloses them.
//
// Edges (a reference is enough, it need not be a call, so that functions stored in catalogs
// or handed over as callbacks are followed):
//   - every mention of a module function or method (static call, method value, function value);
//   - every mention of an interface method: edges to the method of that name of every named
//     type of the module (T or *T) that implements the interface.
//
// Roots for "reachable from simulation.Run":
//   - simulation.Run and (*simulation.Simulation).Run;
//   - every init() function and package-level variable initialiser of the packages that
//     pkg/simulation imports, transitively (it blank-imports all content, whose init()s fill the
//     catalogs with the functions a run calls dynamically);
//   - every method of a type of those packages whose name is a method name of some interface
//     declared OUTSIDE the module (fmt.Stringer, error, json.Marshaler, sort.Interface,
//     heap.Interface, io.Writer, ...): the standard library may call it by reflection or
//     through such an interface where this tool cannot see the call.

import (
	"go/ast"
	"go/token"
	"go/types"
	"sort"
	"strings"

	"golang.org/x/tools/go/packages"
)

type fnode struct {
	id    string // pkgpath + "." + name
	pkg   *packages.Package
	file  string // repo-relative
	name  string // F, (*T).M, T.M, "var x"
	body  []ast.Node
	obj   *types.Func
	edges map[*fnode]bool
	reach bool
	root  string
}

type world struct {
	root    string
	pkgs    []*packages.Package
	mod     []*packages.Package // module packages, sorted
	nodes   []*fnode
	byObj   map[*types.Func]*fnode
	closure map[string]bool // import closure of pkg/simulation (module packages)
	named   []*types.Named  // named non-interface types of the module
	extMeth map[string]bool // method names of interfaces declared outside the module

	mapSites []mapSite
	ambient  []ambSite
	nFiles   int
}

func (w *world) rel(fset *token.FileSet, pos token.Pos) string {
	fn := fset.Position(pos).Filename
	if r, err := filepathRel(w.root, fn); err == nil {
		return r
	}
	return fn
}

func recvName(fd *ast.FuncDecl) string {
	if fd.Recv == nil || len(fd.Recv.List) == 0 {
		return fd.Name.Name
	}
	t := fd.Recv.List[0].Type
	star := ""
	if s, ok := t.(*ast.StarExpr); ok {
		star = "*"
		t = s.X
	}
	// strip type parameters of generic receivers
	switch x := t.(type) {
	case *ast.IndexExpr:
		t = x.X
	case *ast.IndexListExpr:
		t = x.X
	}
	name := "?"
	if id, ok := t.(*ast.Ident); ok {
		name = id.Name
	}
	if star != "" {
		return "(*" + name + ")." + fd.Name.Name
	}
	return name + "." + fd.Name.Name
}

func (w *world) buildGraph() {
	seen := map[string]bool{}
	all := []*packages.Package{}
	packages.Visit(w.pkgs, nil, func(p *packages.Package) {
		if !seen[p.PkgPath] {
			seen[p.PkgPath] = true
			all = append(all, p)
		}
	})
	sort.Slice(all, func(i, j int) bool { return all[i].PkgPath < all[j].PkgPath })
	w.extMeth = map[string]bool{"MarshalJSON": true, "UnmarshalJSON": true, "MarshalText": true, "String": true, "Error": true}
	for _, p := range all {
		if strings.HasPrefix(p.PkgPath, modulePath) {
			w.mod = append(w.mod, p)
			continue
		}
		if p.Types == nil {
			continue
		}
		sc := p.Types.Scope()
		for _, n := range sc.Names() {
			tn, ok := sc.Lookup(n).(*types.TypeName)
			if !ok {
				continue
			}
			if it, ok := tn.Type().Underlying().(*types.Interface); ok {
				for i := 0; i < it.NumMethods(); i++ {
					w.extMeth[it.Method(i).Name()] = true
				}
			}
		}
	}
	// the universe's error interface
	w.extMeth["Error"] = true

	// import closure of pkg/simulation
	w.closure = map[string]bool{}
	var visit func(p *packages.Package)
	visit = func(p *packages.Package) {
		if !strings.HasPrefix(p.PkgPath, modulePath) || w.closure[p.PkgPath] {
			return
		}
		w.closure[p.PkgPath] = true
		for _, q := range p.Imports {
			visit(q)
		}
	}
	for _, p := range w.mod {
		if p.PkgPath == modulePath+"/pkg/simulation" {
			visit(p)
		}
	}
	if len(w.closure) == 0 {
		die("package %s/pkg/simulation not found", modulePath)
	}

	w.byObj = map[*types.Func]*fnode{}
	for _, p := range w.mod {
		sc := p.Types.Scope()
		for _, n := range sc.Names() {
			if tn, ok := sc.Lookup(n).(*types.TypeName); ok && !tn.IsAlias() {
				if nt, ok := tn.Type().(*types.Named); ok {
					if _, isIface := nt.Underlying().(*types.Interface); !isIface {
						w.named = append(w.named, nt)
					}
				}
			}
		}
		for _, f := range p.Syntax {
			file := w.rel(p.Fset, f.Pos())
			// the tables cover the shipped program: pkg/, internal/, cmd/ (not the data generators under gen/, scripts/)
			if !strings.HasPrefix(file, "pkg/") && !strings.HasPrefix(file, "internal/") && !strings.HasPrefix(file, "cmd/") {
				continue
			}
			w.nFiles++
			for _, d := range f.Decls {
				switch d := d.(type) {
				case *ast.FuncDecl:
					if d.Body == nil {
						continue
					}
					n := &fnode{pkg: p, file: file, name: recvName(d), body: []ast.Node{d.Body}, edges: map[*fnode]bool{}}
					n.id = p.PkgPath + "." + n.name
					if o, ok := p.TypesInfo.Defs[d.Name].(*types.Func); ok {
						n.obj = o
						if d.Name.Name != "init" && d.Name.Name != "_" {
							w.byObj[o] = n
						}
					}
					w.nodes = append(w.nodes, n)
				case *ast.GenDecl:
					if d.Tok != token.VAR {
						continue
					}
					for _, s := range d.Specs {
						vs := s.(*ast.ValueSpec)
						if len(vs.Values) == 0 {
							continue
						}
						n := &fnode{pkg: p, file: file, name: "var " + vs.Names[0].Name, edges: map[*fnode]bool{}}
						n.id = p.PkgPath + "." + n.name
						for _, v := range vs.Values {
							n.body = append(n.body, v)
						}
						w.nodes = append(w.nodes, n)
					}
				}
			}
		}
	}

	// edges
	for _, n := range w.nodes {
		info := n.pkg.TypesInfo
		for _, b := range n.body {
			ast.Inspect(b, func(x ast.Node) bool {
				id, ok := x.(*ast.Ident)
				if !ok {
					return true
				}
				fo, ok := info.Uses[id].(*types.Func)
				if !ok {
					return true
				}
				fo = fo.Origin()
				if t, ok := w.byObj[fo]; ok {
					n.edges[t] = true
					return true
				}
				sig, _ := fo.Type().(*types.Signature)
				if sig == nil || sig.Recv() == nil {
					return true
				}
				it, ok := sig.Recv().Type().Underlying().(*types.Interface)
				if !ok {
					return true
				}
				for _, nt := range w.named {
					var impl types.Type
					switch {
					case types.Implements(nt, it):
						impl = nt
					case types.Implements(types.NewPointer(nt), it):
						impl = types.NewPointer(nt)
					default:
						continue
					}
					o, _, _ := types.LookupFieldOrMethod(impl, true, fo.Pkg(), fo.Name())
					if mf, ok := o.(*types.Func); ok {
						if t, ok := w.byObj[mf.Origin()]; ok {
							n.edges[t] = true
						}
					}
				}
				return true
			})
		}
	}

	// roots and reachability
	var work []*fnode
	mark := func(n *fnode, why string) {
		if !n.reach {
			n.reach = true
			n.root = why
			work = append(work, n)
		}
	}
	for _, n := range w.nodes {
		pp := n.pkg.PkgPath
		switch {
		case pp == modulePath+"/pkg/simulation" && (n.name == "Run" || n.name == "(*Simulation).Run"):
			mark(n, "entry")
		case w.closure[pp] && (n.name == "init" || strings.HasPrefix(n.name, "var ")):
			mark(n, "init")
		case w.closure[pp] && n.obj != nil && strings.Contains(n.name, ".") && w.extMeth[n.obj.Name()]:
			mark(n, "stdlib-interface method")
		}
	}
	for len(work) > 0 {
		n := work[len(work)-1]
		work = work[:len(work)-1]
		ts := make([]*fnode, 0, len(n.edges))
		for t := range n.edges {
			ts = append(ts, t)
		}
		sort.Slice(ts, func(i, j int) bool { return ts[i].id < ts[j].id })
		for _, t := range ts {
			mark(t, "from "+n.id)
		}
	}
}
