(* Correspondence checker for Model/Heal.v (component "heal", property C17): runs the model at
   the binary64 instance on the harness's input and compares the whole observable trace
   (HealStart / HPChange / LimboWaitHeal / HealEnd with all fields, then the getters of every
   unit after every operation) bit for bit with what the real combat manager produced. *)
From Coq Require Import List ZArith Bool String Floats.
From SR Require Import Base.CaseLib Model.CombatCore Model.CombatCheck Model.Heal.
Import ListNotations.
Open Scope Z_scope.

Definition case := (list (uspec F) * list Z * list (hop F) * obs)%type.

Definition model_out (c : case) : list (item F) :=
  let '(us, limbo, ops, _) := c in snd (hrun F (init_world F us limbo []) ops).

Definition check_case (c : case) : bool :=
  let '(_, _, _, o) := c in
  match o with
  | Ok tr => list_eqb item_eqb (model_out c) tr
  | HarnessPanic _ => false          (* Heal has no panicking path *)
  end.

(* ------------------------------------------------------------------------------------ *)
(* Monitor: the property's own predicate on what the IMPLEMENTATION reported, recomputed  *)
(* from the HealStart event it emitted (not from the model's state).                      *)
(* ------------------------------------------------------------------------------------ *)

(* the amount of one heal recomputed from its HealStart record:
   ts = [target max HP; target current HP; target incoming bonus],
   hs = [healer ATK; healer DEF; healer max HP; healer outgoing bonus] *)
Definition nthf (l : list float) (n : nat) : float := nth n l nan.
Definition mon_term (ts hs : list float) (k : Z) : option float :=
  match k with
  | 1 => Some (nthf hs 0) | 2 => Some (nthf hs 1) | 3 => Some (nthf hs 2)
  | 4 => Some (nthf ts 0) | 5 => Some (nthf ts 0 - nthf ts 1)%float
  | _ => None
  end.
Definition mon_raw (ts hs : list float) (terms : list (Z * float)) (flat : float) : float :=
  (fold_left (fun b kv => match mon_term ts hs (fst kv) with Some x => b + snd kv * x | None => b end)
             terms flat * (1 + nthf hs 3) * (1 + nthf ts 2))%float.
Definition mon_split (ts : list float) (raw : float) : float * float :=
  if (nthf ts 0 <? raw + nthf ts 1)%float
  then let o := (raw + nthf ts 1 - nthf ts 0)%float in ((raw - o)%float, o)
  else (raw, 0%float).

(* events of one heal per target: HealStart, at most one HPChange of that target that is not
   damage and never ends above ratio 1, optionally the limbo query, HealEnd with the amounts *)
Fixpoint mon_heal_events (key src : Z) (ts : list Z) (snapf : bool) (evs : list (item F)) : bool :=
  match ts with
  | [] => match evs with [] => true | _ => false end
  | t :: rest =>
      match evs with
      | IHealStart k tid hid tst hst terms flat s :: evs1 =>
          let raw := mon_raw tst hst terms flat in
          let '(app, ovf) := mon_split tst raw in
          let '(mid, evs2) := take_while (fun it => match it with IHealEnd _ _ _ _ _ _ => false | _ => true end) evs1 in
          (k =? key) && (tid =? t) && (hid =? src) && Bool.eqb s snapf &&
          match mid with
          | [] => true
          | [IHPChange k' t' _ newR _ _ d] => (k' =? key) && (t' =? t) && negb d && negb (1 <? newR)%float
          | [IHPChange k' t' _ newR _ _ d; ILimbo t'' _] =>
              (k' =? key) && (t' =? t) && (t'' =? t) && negb d && negb (1 <? newR)%float && negb (0 <? newR)%float
          | _ => false
          end &&
          match evs2 with
          | IHealEnd k' t' h' a o s' :: evs3 =>
              (k' =? key) && (t' =? t) && (h' =? src) && Bool.eqb s' snapf &&
              feqb_bits a app && feqb_bits o ovf && mon_heal_events key src rest snapf evs3
          | _ => false
          end
      | _ => false
      end
  end.

(* ratios reported by the getters never exceed 1 once a unit has been touched by a heal;
   a unit generated above 1 keeps what AddTarget accepted until something modifies it *)
Fixpoint mon_ops (nunits : nat) (ops : list (hop F)) (prev : list (item F)) (tr : list (item F)) : bool :=
  match ops with
  | [] => match tr with [] => true | _ => false end
  | o :: rest =>
      let '(evs, tr1) := take_while (fun it => negb (is_unit_item it)) tr in
      let units := firstn nunits tr1 in
      let tr2 := skipn nunits tr1 in
      Nat.eqb (List.length units) nunits && forallb is_unit_item units &&
      match o with
      | HHeal key src ts _ _ snapf _ =>
          match ts with
          | [] => match evs with [] => list_eqb item_eqb units prev | _ => false end
          | _ =>
              if unit_state prev src =? stAlive then mon_heal_events key src ts snapf evs
              else match evs with [] => list_eqb item_eqb units prev | _ => false end   (* does nothing *)
          end
      | HModHP _ _ _ _ _ => true
      end && mon_ops nunits rest units tr2
  end.

Definition monitor_case (c : case) : bool :=
  let '(us, limbo, ops, o) := c in
  match o with
  | Ok tr => let iu := initial_units us limbo in mon_ops (List.length iu) ops iu tr
  | HarnessPanic _ => false
  end.
