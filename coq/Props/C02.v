(* C02 — Turns are scheduled by action value.
   Only statements, [exact] and [Print Assumptions] live here. *)
From Coq Require Import List ZArith Bool Reals Permutation.
From SR Require Import Base.NumOps Model.Turn Proofs.TurnProofs.
From SR Require Gen.FormulasTurn Proofs.FormulasTurnProofs.
Import ListNotations.

(* every state reachable by a legal history (real-number instance of the model): no negative
   gauge; a turn start picks a minimal action value, advances the clock by a non-negative
   amount, zeroes the acting unit and shrinks every other gauge by speed x elapsed AV; gauge
   changes touch one unit and never go below zero; the end of action resets the acting unit
   only, to base gauge x (fractional) cost *)
Theorem C02_turns_scheduled_by_action_value : C02_statement.
Proof. exact C02_holds. Qed.
Print Assumptions C02_turns_scheduled_by_action_value.

(* the same structural clauses for the binary64 instance that is executed and compared with the
   Go code (minimality under the hypothesis that the float comparison is a strict weak order on
   the action values that occur, i.e. no NaN) *)
Theorem C02_float_turn_start :
  forall s s' id a st tot, wf FloatOps s ->
    step FloatOps s OStart = (s', [EStart id a st tot]) ->
    start_spec FloatOps s s' id a tot /\ st = status FloatOps s'.
Proof. exact (start_ok FloatOps). Qed.
Print Assumptions C02_float_turn_start.

Theorem C02_float_gauge_change_touches_one_unit :
  forall s o s' outs id, wf FloatOps s ->
    (exists amt, o = OSetGauge id amt \/ o = OModNorm id amt \/ o = OModAV id amt) ->
    step FloatOps s o = (s', outs) -> set_gauge_spec FloatOps s s' id outs.
Proof. exact (set_gauge_ops_ok FloatOps). Qed.
Print Assumptions C02_float_gauge_change_touches_one_unit.

Theorem C02_float_reset_acting_unit_only :
  forall s s' outs, wf FloatOps s -> step FloatOps s OReset = (s', outs) -> reset_spec FloatOps s s' outs.
Proof. exact (reset_ok FloatOps). Qed.
Print Assumptions C02_float_reset_acting_unit_only.

(* documented tie order: the changed unit is put at index 0 of the remaining units (index 1
   when a turn is active and the unit is not the head) and the order is stably re-sorted; the
   stable insertion places an element after exactly the strictly smaller ones, i.e. in front
   of every unit of equal action value *)
Theorem C02_tie_order_position :
  forall N s id amt s' old new st,
    do_set_gauge N s id amt = (s', [EGauge id old new st]) ->
    let start := if active s && negb (Nat.eqb (index_of (order s) id) 0) then 1%nat else 0%nat in
    let rest := remove_id (order s) id in
    order s' = resort N s (firstn start rest ++ mkU id new :: skipn start rest).
Proof. exact do_set_gauge_order. Qed.
Print Assumptions C02_tie_order_position.

Theorem C02_tie_order_stable_insertion :
  forall N key x l, exists a b, l = a ++ b /\ insert_by N key x l = a ++ x :: b /\
    Forall (fun z => nltb N (key z) (key x) = true) a /\
    match b with [] => True | z :: _ => nltb N (key z) (key x) = false end.
Proof. exact insert_by_split. Qed.
Print Assumptions C02_tie_order_stable_insertion.

Theorem C02_sorted_after_resort :
  forall N key l, keys_ok N key l -> sorted N key (sort_by N key l) /\ Permutation l (sort_by N key l).
Proof. intros N key l H. split; [exact (sort_by_sorted N key l H)|exact (sort_by_perm N key l)]. Qed.
Print Assumptions C02_sorted_after_resort.

(* The translator tie: BaseGauge, the action value, its comparison, the gauge decrement and clock of
   StartTurn, the reset gauge, the floored gauge of SetGauge and the amounts of the three Modify
   calls are, for every number system and every argument, EQUAL to the definitions go2coq generates
   from turn/turn.go and turn/modify.go (Gen/FormulasTurn.v; the conjunction is spelled out in
   Proofs/FormulasTurnProofs.v, C02_formulas_statement). *)
Theorem C02_model_formulas_are_the_source : FormulasTurnProofs.C02_formulas_statement.
Proof. exact FormulasTurnProofs.C02_formulas_hold. Qed.
Print Assumptions C02_model_formulas_are_the_source.

(* StartTurn as a whole, with the generated pieces plugged in *)
Theorem C02_StartTurn_is_the_source : forall N s,
  step N s OStart =
  (if active s then (s, [EErr]) else
   match resort N s (order s) with
   | [] => (s, [EPanic])
   | (hd :: _) as sorted =>
       let a := FormulasTurn.manager_av N s hd in
       if negb (forallb (fun u => ntoZ_ok N (nmul N a (spd N s (u_id u)))) sorted)
       then (s, [EConvUndefined]) else
       let dec := map (fun u => mkU (u_id u) (FormulasTurn.startTurn_gauge N s a u)) sorted in
       let dec' := set_gauge_of dec (u_id hd) FormulasTurn.startTurn_actor_gauge in
       let s' := mkT N dec' (FormulasTurn.startTurn_cost N) true (u_id hd)
                     (FormulasTurn.startTurn_totalAV N (total s) a) (speeds s) in
       (s', [EStart (u_id hd) a (status N s') (total s')])
   end).
Proof. exact FormulasTurnProofs.gen_StartTurn_is_model. Qed.
Print Assumptions C02_StartTurn_is_the_source.

Theorem C02_nonvacuous :
  legal (init ROps) [@OAdd ROps [(1%Z, 100%R); (2%Z, 90%R)]; @OStart ROps; @OModNorm ROps 2%Z (-2)%R;
                     @OReset ROps; @OStart ROps].
Proof. exact legal_history_exists. Qed.
