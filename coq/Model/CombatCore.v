(* Shared executable core for the combat models (C17 heals, C04 hits):
     pkg/engine/info/stats.go      (snapshots, derived stats, statCalc)
     pkg/engine/info/map.go        (PropMap.Modify)
     pkg/engine/prop/prop.go       (property codes, damage-type tables)
     pkg/engine/attribute/*.go     (AddTarget, ModifyHPByAmount, ModifyStance/SetStance,
                                    ModifyEnergy/SetEnergy, the emit helpers)
     pkg/engine/shield/absorb.go   (AbsorbDamage)
   The arithmetic is written ONCE over a record of operations [NumOps]; it is instantiated at
   Coq's primitive binary64 [float] (executed, compared bit for bit with the Go code) and at
   the real numbers (proofs by lra/nra/field).  Every Go expression is transcribed with Go's
   evaluation order (left to right, no fused multiply-add on amd64).  No proofs here. *)
From Coq Require Import List ZArith Bool Floats Uint63.
Import ListNotations.
Open Scope Z_scope.

Record NumOps := mkNum {
  num : Type;
  nadd : num -> num -> num;
  nsub : num -> num -> num;
  nmul : num -> num -> num;
  ndiv : num -> num -> num;
  nopp : num -> num;
  nltb : num -> num -> bool;     (* Go's  x < y  *)
  nleb : num -> num -> bool;     (* Go's  x <= y *)
  neqb : num -> num -> bool;     (* Go's  x == y *)
  nofZ : Z -> num }.             (* float64(int) and integer literals *)

(* ---- binary64 instance ---- *)
(* float64(int): exact for |z| < 2^53.  Written as a structural recursion on the binary digits
   (rather than through Uint63.of_Z) so that the record [FloatNum], which occurs as a
   parameter in the types of the model, has a small normal form. *)
Fixpoint f_ofpos (p : positive) : float :=
  match p with
  | xH => 1%float
  | xO q => (2 * f_ofpos q)%float
  | xI q => (2 * f_ofpos q + 1)%float
  end.
Definition f_ofZ (z : Z) : float :=
  match z with Z0 => 0%float | Zpos p => f_ofpos p | Zneg p => PrimFloat.opp (f_ofpos p) end.
Definition FloatNum : NumOps :=
  mkNum float PrimFloat.add PrimFloat.sub PrimFloat.mul PrimFloat.div PrimFloat.opp
        PrimFloat.ltb PrimFloat.leb PrimFloat.eqb f_ofZ.

(* ---- property codes (pkg/engine/prop/prop.go) ---- *)
Definition pHPBase := 1.      Definition pHPPercent := 2.   Definition pHPFlat := 3.   Definition pHPConvert := 4.
Definition pATKBase := 5.     Definition pATKPercent := 6.  Definition pATKFlat := 7.  Definition pATKConvert := 8.
Definition pDEFBase := 9.     Definition pDEFPercent := 10. Definition pDEFFlat := 11. Definition pDEFConvert := 12.
Definition pCritChance := 17. Definition pCritDMG := 18.
Definition pEnergyRegen := 19. Definition pEnergyRegenConvert := 20.
Definition pHealBoost := 25.  Definition pHealBoostConvert := 26. Definition pHealTaken := 27.
Definition pBreakEffect := 33.
Definition pAllDamageRES := 34.
Definition pAllDamagePEN := 42.
Definition pAllDamageTaken := 50.
Definition pAllDamagePercent := 58.
Definition pDOTDamagePercent := 59.
Definition pAllStanceDMGPercent := 67.
Definition pAllDamageReduce := 90.
Definition pFatigue := 91.

(* damage types: PHYSICAL 1, FIRE 2, ICE 3, THUNDER 4, WIND 5, QUANTUM 6, IMAGINARY 7; a type
   outside the table maps to the zero value of the Go map, prop.Invalid = 0 *)
Definition dmgRESProp (dt : Z) : Z :=
  match dt with 1 => 35 | 2 => 36 | 3 => 37 | 4 => 38 | 5 => 41 | 6 => 39 | 7 => 40 | _ => 0 end.
Definition dmgPENProp (dt : Z) : Z :=
  match dt with 1 => 43 | 2 => 44 | 3 => 45 | 4 => 46 | 5 => 49 | 6 => 47 | 7 => 48 | _ => 0 end.
Definition dmgTakenProp (dt : Z) : Z :=
  match dt with 1 => 51 | 2 => 52 | 3 => 53 | 4 => 54 | 5 => 57 | 6 => 55 | 7 => 56 | _ => 0 end.
Definition dmgPercentProp (dt : Z) : Z :=
  match dt with 1 => 66 | 2 => 60 | 3 => 61 | 4 => 62 | 5 => 65 | 6 => 63 | 7 => 64 | _ => 0 end.

(* target states (info.TargetState) *)
Definition stInvalid := 0. Definition stDead := 1. Definition stLimbo := 2. Definition stAlive := 3.

Section Core.
  Variable N : NumOps.
  Notation num := (num N).
  Local Infix "+!" := (nadd N) (at level 50, left associativity).
  Local Infix "-!" := (nsub N) (at level 50, left associativity).
  Local Infix "*!" := (nmul N) (at level 40, left associativity).
  Local Infix "/!" := (ndiv N) (at level 40, left associativity).
  Local Infix "<!" := (nltb N) (at level 70).
  Local Infix "<=!" := (nleb N) (at level 70).
  Local Infix "==!" := (neqb N) (at level 70).

  Definition c0 : num := nofZ N 0.
  Definition c1 : num := nofZ N 1.
  (* a decimal literal n/d of the Go source: the correctly rounded quotient of two exactly
     representable integers is the nearest binary64 to n/d, which is what the Go compiler
     stores for the literal *)
  Definition lit (n d : Z) : num := nofZ N n /! nofZ N d.

  (* ---------------- property maps ---------------- *)
  Definition pmap := list (Z * num).

  Fixpoint getp (m : pmap) (p : Z) : num :=
    match m with
    | [] => c0                                    (* missing key: Go's zero value *)
    | (k, v) :: r => if k =? p then v else getp r p
    end.

  Fixpoint setp (m : pmap) (p : Z) (v : num) : pmap :=
    match m with
    | [] => [(p, v)]
    | (k, x) :: r => if k =? p then (k, v) :: r else (k, x) :: setp r p v
    end.

  Fixpoint delp (m : pmap) (p : Z) : pmap :=
    match m with
    | [] => []
    | (k, x) :: r => if k =? p then r else (k, x) :: delp r p
    end.

  (* info.PropMap.Modify *)
  Definition modifyp (m : pmap) (p : Z) (amt : num) : pmap :=
    if (p =? pAllDamageReduce) || (p =? pFatigue)
    then setp m p (c1 -! (c1 -! getp m p) *! (c1 -! amt))
    else setp m p (getp m p +! amt).

  (* ---------------- stats snapshots (info.Stats) ---------------- *)
  Record snap := mkSnap {
    s_id : Z;
    s_props : pmap;
    s_level : Z;
    s_ratio : num;        (* attributes.HPRatio at snapshot time *)
    s_stance : num;       (* attributes.Stance at snapshot time *)
    s_weak : list Z }.

  Definition sget (s : snap) (p : Z) : num := getp (s_props s) p.
  Definition sadd (s : snap) (p : Z) (amt : num) : snap :=   (* Stats.AddProperty *)
    mkSnap (s_id s) (modifyp (s_props s) p amt) (s_level s) (s_ratio s) (s_stance s) (s_weak s).

  Definition statCalc (base percent flat : num) : num :=
    let out := base *! (c1 +! percent) +! flat in
    if out <! c0 then c0 else out.

  Definition MaxHP (s : snap) : num :=
    statCalc (sget s pHPBase) (sget s pHPPercent) (sget s pHPFlat +! sget s pHPConvert).
  Definition ATK (s : snap) : num :=
    statCalc (sget s pATKBase) (sget s pATKPercent) (sget s pATKFlat +! sget s pATKConvert).
  Definition DEF (s : snap) : num :=
    statCalc (sget s pDEFBase) (sget s pDEFPercent) (sget s pDEFFlat +! sget s pDEFConvert).
  Definition CurrentHP (s : snap) : num := s_ratio s *! MaxHP s.
  Definition HealBoost (s : snap) : num := sget s pHealBoost +! sget s pHealBoostConvert.
  Definition EnergyRegen (s : snap) : num := sget s pEnergyRegen +! sget s pEnergyRegenConvert.
  Definition CritChance (s : snap) : num := sget s pCritChance.
  Definition CritDamage (s : snap) : num := sget s pCritDMG.
  Definition BreakEffect (s : snap) : num := sget s pBreakEffect.
  Definition DamagePercent (s : snap) (dt : Z) : num := sget s pAllDamagePercent +! sget s (dmgPercentProp dt).
  Definition DamageRES (s : snap) (dt : Z) : num := sget s pAllDamageRES +! sget s (dmgRESProp dt).
  Definition IsWeakTo (s : snap) (dt : Z) : bool := existsb (Z.eqb dt) (s_weak s).

  (* ---------------- units and the world ---------------- *)
  Record unit := mkUnit {
    u_id : Z;
    u_char : bool;                 (* engine.IsCharacter *)
    u_level : Z;
    u_ratio : num;
    u_energy : num;
    u_maxEnergy : num;
    u_stance : num;
    u_maxStance : num;
    u_weak : list Z;
    u_props : pmap;                (* what modifier evaluation returns for the unit *)
    u_state : Z;
    u_last : Z;                    (* lastAttacker *)
    u_shields : list (Z * num) }.  (* active shields (key, hp) in attachment order *)

  (* attribute.AddTarget normalisation of the given base attributes *)
  Definition add_target (id : Z) (ch : bool) (lvl : Z) (ratio energy maxE stance maxS : num)
             (weak : list Z) (props : pmap) : unit :=
    let energy' := if maxE <! energy then maxE else energy in
    let ratio' := if ratio <=! c0 then c1 else ratio in
    mkUnit id ch lvl ratio' energy' maxE stance maxS weak props stAlive id [].

  Inductive item :=
  | IHealStart (key tid hid : Z) (tstats hstats : list num) (terms : pmap) (flat : num) (snapf : bool)
  | IHealEnd (key tid hid : Z) (amount overflow : num) (snapf : bool)
  | IHPChange (key target : Z) (oldR newR oldHP newHP : num) (dmg : bool)
  | ILimbo (target : Z) (cancelled : bool)
  | IStanceChange (key target source : Z) (old new : num)
  | IStanceBreak (key target source : Z)
  | IStanceReset (key target : Z)
  | IEnergyChange (key target source : Z) (old new : num)
  | IShieldRemoved (sid target : Z)
  | IShieldChange (target sid : Z) (newHP oldHP dIn dOut : num)
  | IAttackStart (key attacker : Z) (targets : list Z) (atype dtype : Z)
  | IAttackEnd (key attacker : Z) (targets : list Z) (atype dtype : Z)
  | IDraw (d : num)                                   (* one value taken from the run's random source *)
  | IHitStart (key idx att def atype dtype : Z) (terms : pmap)
              (vals : list num) (* energy, stance damage, hit ratio, flat damage *)
              (pure snapf : bool)
  | IHitEnd (key idx att def atype dtype : Z)
            (vals : list num)  (* base, def, res, vul, tough, fatigue, reduce, critdmg, total, hp, shield, ratio left *)
            (crit snapf : bool)
  | IUnit (id : Z) (ratio energy stance : num) (state last : Z) (shields : list Z) (maxShield : num).

  Record world := mkWorld {
    w_units : list unit;
    w_limbo : list Z;               (* units for which a LimboWaitHeal listener answers "wait" *)
    w_attack : option (Z * Z * list Z * Z * Z);   (* open attack: key, attacker, targets, types *)
    w_draws : list num }.

  Fixpoint find_unit (us : list unit) (id : Z) : option unit :=
    match us with
    | [] => None
    | u :: r => if u_id u =? id then Some u else find_unit r id
    end.

  Fixpoint put_unit (us : list unit) (u' : unit) : list unit :=
    match us with
    | [] => []
    | u :: r => if u_id u =? u_id u' then u' :: r else u :: put_unit r u'
    end.

  Definition set_units (w : world) (us : list unit) : world :=
    mkWorld us (w_limbo w) (w_attack w) (w_draws w).
  Definition upd (w : world) (u : unit) : world := set_units w (put_unit (w_units w) u).

  Definition state_of (w : world) (id : Z) : Z :=
    match find_unit (w_units w) id with Some u => u_state u | None => stInvalid end.
  Definition is_alive (w : world) (id : Z) : bool := state_of w id =? stAlive.
  Definition is_char (w : world) (id : Z) : bool :=
    match find_unit (w_units w) id with Some u => u_char u | None => false end.

  (* attribute.Service.Stats: a fresh snapshot; an unregistered id gets info.DefaultAttribute *)
  Definition stats_of (w : world) (id : Z) : snap :=
    match find_unit (w_units w) id with
    | Some u => mkSnap id (u_props u) (u_level u) (u_ratio u) (u_stance u) (u_weak u)
    | None => mkSnap id [] 1 c1 c0 []
    end.

  Definition set_hp (u : unit) (r : num) (st last : Z) : unit :=
    mkUnit (u_id u) (u_char u) (u_level u) r (u_energy u) (u_maxEnergy u) (u_stance u) (u_maxStance u)
           (u_weak u) (u_props u) st last (u_shields u).
  Definition set_stance (u : unit) (s : num) : unit :=
    mkUnit (u_id u) (u_char u) (u_level u) (u_ratio u) (u_energy u) (u_maxEnergy u) s (u_maxStance u)
           (u_weak u) (u_props u) (u_state u) (u_last u) (u_shields u).
  Definition set_energy (u : unit) (e : num) : unit :=
    mkUnit (u_id u) (u_char u) (u_level u) (u_ratio u) e (u_maxEnergy u) (u_stance u) (u_maxStance u)
           (u_weak u) (u_props u) (u_state u) (u_last u) (u_shields u).
  Definition set_shields (u : unit) (sh : list (Z * num)) : unit :=
    mkUnit (u_id u) (u_char u) (u_level u) (u_ratio u) (u_energy u) (u_maxEnergy u) (u_stance u) (u_maxStance u)
           (u_weak u) (u_props u) (u_state u) (u_last u) sh.

  (* the clamp of SetHP / ModifyHPByAmount *)
  Definition clamp01 (r : num) : num := if c1 <! r then c1 else if r <! c0 then c0 else r.

  (* attribute.ModifyHPByAmount + emitHPChangeEvents; an unknown target is an error return
     that the combat manager ignores: nothing happens *)
  Definition modify_hp (w : world) (key target source : Z) (amount : num) (dmg : bool)
    : world * list item :=
    match find_unit (w_units w) target with
    | None => (w, [])
    | Some u =>
        let st := stats_of w target in
        let oldR := u_ratio u in
        let newHP := CurrentHP st +! amount in
        let newR := clamp01 (newHP /! MaxHP st) in
        if oldR ==! newR then (upd w (set_hp u newR (u_state u) (u_last u)), [])
        else
          let last := if dmg then source else u_last u in
          let ev := IHPChange key target oldR newR (MaxHP st *! oldR) (MaxHP st *! newR) dmg in
          (* death is final: a dead unit's HP may change, its state does not *)
          if u_state u =? stDead then (upd w (set_hp u newR stDead last), [ev])
          else if c0 <! newR then (upd w (set_hp u newR stAlive last), [ev])
          else
            let cancelled := existsb (Z.eqb target) (w_limbo w) in
            (upd w (set_hp u newR (if cancelled then stLimbo else stDead) last),
             [ev; ILimbo target cancelled])
    end.

  (* attribute.SetStance *)
  Definition set_stance_op (w : world) (key target source : Z) (amount : num) : world * list item :=
    match find_unit (w_units w) target with
    | None => (w, [])
    | Some u =>
        let a := if u_maxStance u <! amount then u_maxStance u
                 else if amount <! c0 then c0 else amount in
        if u_stance u ==! a then (w, [])
        else
          let pre := if a ==! c0 then [IStanceBreak key target source]
                     else if u_stance u ==! c0 then [IStanceReset key target] else [] in
          (upd w (set_stance u a), pre ++ [IStanceChange key target source (u_stance u) a])
    end.

  (* attribute.ModifyStance: the amount scales with the SOURCE's ALL_STANCE_DMG_PERCENT
     (engine.go's documented contract; [whose] = the id whose fresh stats are read) *)
  Definition modify_stance (w : world) (key target source : Z) (amount : num) : world * list item :=
    match find_unit (w_units w) target with
    | None => (w, [])
    | Some u =>
        let st := stats_of w source in
        let newS := u_stance u +! amount *! (c1 +! sget st pAllStanceDMGPercent) in
        set_stance_op w key target source newS
    end.

  (* attribute.ModifyEnergy + SetEnergy *)
  Definition modify_energy (w : world) (key target source : Z) (amount : num) : world * list item :=
    match find_unit (w_units w) target with
    | None => (w, [])
    | Some u =>
        let st := stats_of w target in
        let a := u_energy u +! amount *! (c1 +! EnergyRegen st) in
        let e := if u_maxEnergy u <! a then u_maxEnergy u else if a <! c0 then c0 else a in
        if u_energy u ==! e then (upd w (set_energy u e), [])
        else (upd w (set_energy u e), [IEnergyChange key target source (u_energy u) e])
    end.

  (* math.Dim *)
  Definition dim (x y : num) : num := let v := x -! y in if v <=! c0 then c0 else v.

  (* shield.Manager.MaxShield *)
  Fixpoint max_shield (sh : list (Z * num)) (acc : num) : num :=
    match sh with
    | [] => acc
    | (_, hp) :: r => max_shield r (if acc <! hp then hp else acc)
    end.

  (* the loop of AbsorbDamage: (kept shields, removed shields, damageOut, newMax, maxId) *)
  Fixpoint absorb_loop (sh : list (Z * num)) (damage dOut newMax : num) (maxId : Z)
    : list (Z * num) * list Z * num * num * Z :=
    match sh with
    | [] => ([], [], dOut, newMax, maxId)
    | (k, hp) :: r =>
        let remaining := dim damage hp in
        let hp' := dim hp damage in
        let dOut' := if remaining <! dOut then remaining else dOut in
        let '(newMax', maxId') := if newMax <! hp' then (hp', k) else (newMax, maxId) in
        let '(kept, removed, dO, nM, mI) := absorb_loop r damage dOut' newMax' maxId' in
        if hp' ==! c0 then (kept, k :: removed, dO, nM, mI)
        else ((k, hp') :: kept, removed, dO, nM, mI)
    end.

  (* shield.AbsorbDamage; the empty shield key is rendered as -1 *)
  Definition absorb (w : world) (target : Z) (damage : num) : world * list item * num :=
    match find_unit (w_units w) target with
    | None => (w, [], damage)
    | Some u =>
        match u_shields u with
        | [] => (w, [], damage)
        | sh =>
            if damage <=! c0 then (w, [], damage)
            else
              let oldMax := max_shield sh c0 in
              let '(kept, removed, dOut, newMax, maxId) := absorb_loop sh damage damage c0 (-1) in
              (upd w (set_shields u kept),
               map (fun k => IShieldRemoved k target) removed ++
               [IShieldChange target maxId newMax oldMax damage dOut],
               dOut)
        end
    end.

  (* harness helper: shield.AddShield with a strength given directly *)
  Fixpoint put_shield (sh : list (Z * num)) (k : Z) (hp : num) : list (Z * num) :=
    match sh with
    | [] => [(k, hp)]
    | (k', x) :: r => if k' =? k then (k, hp) :: r else (k', x) :: put_shield r k hp
    end.

  (* what the getters report about a unit after an operation *)
  Fixpoint insert_z (k : Z) (l : list Z) : list Z :=
    match l with
    | [] => [k]
    | x :: r => if k <? x then k :: l else x :: insert_z k r
    end.
  (* HasShield for every key ever attached (reported in ascending key order) and MaxShield *)
  Definition unit_item (u : unit) : item :=
    IUnit (u_id u) (u_ratio u) (u_energy u) (u_stance u) (u_state u) (u_last u)
          (fold_right insert_z [] (map fst (u_shields u))) (max_shield (u_shields u) c0).

  (* ---------------- listener adjustments (data) ---------------- *)
  (* What a HealStart / HitStart listener can do to the event before the computation: add a
     property to either snapshot, write / delete a formula term, set or shift the flat value. *)
  Inductive adj :=
  | AProp (first : bool) (p : Z) (amt : num)   (* first = healer / attacker; else target / defender *)
  | ATermSet (k : Z) (v : num)
  | ATermDel (k : Z)
  | AFlatSet (v : num)
  | AFlatAdd (v : num)
  | ARemap.                                     (* replace the event's formula map by a copy of itself *)

  (* the event being adjusted: (first snapshot, second snapshot, formula terms, flat value) *)
  Definition apply_adj (e : snap * snap * pmap * num) (a : adj) : snap * snap * pmap * num :=
    let '(s1, s2, terms, flat) := e in
    match a with
    | AProp true p amt => (sadd s1 p amt, s2, terms, flat)
    | AProp false p amt => (s1, sadd s2 p amt, terms, flat)
    | ATermSet k v => (s1, s2, setp terms k v, flat)
    | ATermDel k => (s1, s2, delp terms k, flat)
    | AFlatSet v => (s1, s2, terms, v)
    | AFlatAdd v => (s1, s2, terms, flat +! v)
    | ARemap => (s1, s2, terms, flat)
    end.
  Definition apply_adjs (e : snap * snap * pmap * num) (l : list adj) := fold_left apply_adj l e.

  (* formula maps are reported sorted by key; the model keeps them as written by the
     generator (sorted, unique keys) and [setp] appends new keys, so sort on output *)
  Fixpoint insert_term (kv : Z * num) (l : pmap) : pmap :=
    match l with
    | [] => [kv]
    | x :: r => if fst kv <? fst x then kv :: l else x :: insert_term kv r
    end.
  Definition sort_terms (l : pmap) : pmap := fold_right insert_term [] l.
  (* unit specification as generated: AddTarget arguments *)
  Inductive uspec := USpec (id : Z) (ch : bool) (lvl : Z) (ratio energy maxE stance maxS : num)
                           (weak : list Z) (props : pmap).

  Fixpoint add_units (us : list uspec) (acc : list unit) : list unit :=
    match us with
    | [] => acc
    | USpec id ch lvl ratio energy maxE stance maxS weak props :: r =>
        match find_unit acc id with
        | Some _ => add_units r acc            (* AddTarget refuses a duplicate id *)
        | None => add_units r (acc ++ [add_target id ch lvl ratio energy maxE stance maxS weak props])
        end
    end.

  Definition init_world (us : list uspec) (limbo : list Z) (draws : list num) : world :=
    mkWorld (add_units us []) limbo None draws.
End Core.

Arguments mkSnap {N}. Arguments mkUnit {N}. Arguments mkWorld {N}.
Arguments IHealStart {N}. Arguments IHealEnd {N}. Arguments IHPChange {N}. Arguments ILimbo {N}.
Arguments IStanceChange {N}. Arguments IStanceBreak {N}. Arguments IStanceReset {N}.
Arguments IEnergyChange {N}. Arguments IShieldRemoved {N}. Arguments IShieldChange {N}.
Arguments IAttackStart {N}. Arguments IAttackEnd {N}. Arguments IDraw {N}.
Arguments IHitStart {N}. Arguments IHitEnd {N}. Arguments IUnit {N}.
Arguments USpec {N}.
Arguments AProp {N}. Arguments ATermSet {N}. Arguments ATermDel {N}. Arguments AFlatSet {N}. Arguments AFlatAdd {N}. Arguments ARemap {N}.
