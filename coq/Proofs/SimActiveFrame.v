(* The frame principle of Proofs/SimFrame.v once more, with the premise of its "bookkeeping fields" hypothesis
   [Q_same] strengthened by [active_id s' = active_id s] (SimFrame's version quantifies over states that differ in
   the active unit, so it cannot be instantiated by a relation that talks about it), and its instance: NO content
   script, listener, death check, queue drain, action or exit check changes [active_id] - the Go field sim.Active
   is assigned by beginTurn only.  Needed by Proofs/RunSkeletonInterpProofs.v, where the interpreter of the
   translated skeleton re-reads sim.Active at every use, as the Go code does, while Sim.one_turn carries the id of
   the turn's unit as a local. *)
From Coq Require Import List ZArith Bool Floats Lia.
From SR Require Import Base.CaseLib Base.NumOps Model.Turn Model.Sim Model.SimProtocol Proofs.SimDeath Proofs.SimFrame.
Import ListNotations.
Open Scope Z_scope.

Section FrameA.
  Variable cfg : config.
  Variable Q : sim -> sim -> Prop.
  Hypothesis Q_refl : forall s, Q s s.
  Hypothesis Q_trans : forall a b c, Q a b -> Q b c -> Q a c.
  Hypothesis Q_emit : forall s l, forallb script_ev l = true -> Q s (emit s l).
  Hypothesis Q_sample : forall s, Q s (emit s [VSample (chars s) (enemies s) (turn_ids s)]).
  (* a unit record is replaced by one with the same id; a dead unit's record stays dead *)
  Hypothesis Q_upd : forall s u u0, get_unit (units s) (uid u) = Some u0 -> (ust u0 = Dead -> ust u = Dead) ->
    Q s (upd_unit s u).
  (* bookkeeping fields: skill points, queue, budget, listener slots, attack flag, statistics *)
  Hypothesis Q_same : forall s s', units s' = units s -> chars s' = chars s -> enemies s' = enemies s ->
    turn s' = turn s -> trace s' = trace s -> active_id s' = active_id s -> Q s s'.
  Hypothesis Q_gauge : forall s id amt, Q s (set_turn s (fst (Turn.step F (turn s) (@OModNorm F id amt)))).

  Ltac via_emit := match goal with |- Q _ (emit ?m _) => apply Q_trans with m; [|apply Q_emit; reflexivity] end.

  Definition q_runner (R : runner) : Prop := forall s self p sc s', R s self p sc = Some s' -> Q s s'.

  Lemma get_unit_uid us id u : get_unit us id = Some u -> uid u = id.
  Proof.
    induction us as [|x us IH]; cbn; [discriminate|].
    destruct (uid x =? id) eqn:E; [intros H; inversion H; subst; apply Z.eqb_eq; exact E|exact IH].
  Qed.

  Lemma Q_upd_same s id u u' : get_unit (units s) id = Some u -> uid u' = uid u -> ust u' = ust u -> Q s (upd_unit s u').
  Proof.
    intros G I S. apply (Q_upd s u' u).
    - rewrite I, (get_unit_uid _ _ _ G). exact G.
    - rewrite S. auto.
  Qed.

  Lemma Q_set_energy s id a : Q s (set_energy s id a).
  Proof.
    unfold set_energy. destruct (get_unit (units s) id) as [u|] eqn:G; [|apply Q_refl].
    match goal with |- context [PrimFloat.eqb ?x ?y] => destruct (PrimFloat.eqb x y) end; [apply Q_refl|].
    match goal with |- Q s (emit ?m _) => apply Q_trans with m end; [|apply Q_emit; reflexivity].
    eapply Q_upd_same; [exact G|reflexivity|reflexivity].
  Qed.

  Lemma Q_mod_energy s id a : Q s (mod_energy_fixed s id a).
  Proof. unfold mod_energy_fixed. destruct (get_unit (units s) id); [apply Q_set_energy|apply Q_refl]. Qed.

  Lemma Q_mod_sp s a : Q s (mod_sp s a).
  Proof.
    unfold mod_sp. match goal with |- context [?x =? ?y] => destruct (x =? y) end; [apply Q_refl|].
    via_emit. apply Q_same; reflexivity.
  Qed.

  Lemma Q_record_hit s d t : Q s (record_hit s d t).
  Proof. unfold record_hit. destruct (get_unit (units s) d); [apply Q_same; reflexivity|apply Q_refl]. Qed.

  Lemma Q_pop_slot s x : Q s (snd (pop_slot s x)).
  Proof. unfold pop_slot. destruct (nth (slot_ix x) (lslots s) []); [apply Q_refl|apply Q_same; reflexivity]. Qed.

  Lemma Q_end_attack s : Q s (end_attack s).
  Proof.
    unfold end_attack. destruct (in_attack s) as [[k a]|]; [|apply Q_refl].
    via_emit. apply Q_same; reflexivity.
  Qed.

  Lemma Q_enqueue s p src ab k : Q s (enqueue s p src ab k).
  Proof. apply Q_same; reflexivity. Qed.

  Lemma Q_hp_change R (GR : q_runner R) s u n d src s' :
    get_unit (units s) (uid u) = Some u -> hp_change cfg R s u n d src = Some s' -> Q s s'.
  Proof.
    intros G. unfold hp_change. destruct (PrimFloat.eqb (uhp u) n); [intros H; inversion H; subst; apply Q_refl|].
    set (s0 := emit (upd_unit s _) [VHPSeen (uid u) d]).
    assert (E0 : Q s s0).
    { unfold s0. via_emit. eapply (Q_upd_same s (uid u) u); [exact G|reflexivity|reflexivity]. }
    destruct (pop_slot s0 LHP) as [sc s1] eqn:EP.
    assert (E1 : Q s s1).
    { eapply Q_trans; [exact E0|]. replace s1 with (snd (pop_slot s0 LHP)) by (rewrite EP; reflexivity). apply Q_pop_slot. }
    match goal with |- match ?r with _ => _ end = _ -> _ => destruct r as [s2|] eqn:ER; [|discriminate] end.
    assert (E2 : Q s s2).
    { destruct sc as [i|]; [eapply Q_trans; [exact E1|eapply GR; exact ER]|inversion ER; subst; exact E1]. }
    set (s3 := emit s2 [VHPChange (uid u) (uhp u) n]).
    assert (E3 : Q s s3) by (eapply Q_trans; [exact E2|apply Q_emit; reflexivity]).
    destruct (get_unit (units s3) (uid u)) as [u'|] eqn:G3; [|intros H; inversion H; subst; exact E3].
    assert (I3 : uid u' = uid u) by (eapply get_unit_uid; exact G3).
    assert (G3' : forall st, get_unit (units s3) (uid (with_state u' st)) = Some u') by (intros st; cbn [uid with_state]; rewrite I3; exact G3).
    destruct (ust u') eqn:EU; try (intros H; inversion H; subst; exact E3);
      (destruct (PrimFloat.ltb 0 n); intros H; inversion H; subst;
       [eapply Q_trans; [exact E3|eapply Q_upd; [apply G3'|rewrite EU; discriminate]]
       |eapply Q_trans; [exact E3|]; via_emit; eapply Q_upd; [apply G3'|rewrite EU; discriminate]]).
  Qed.

  Lemma Q_set_hp R (GR : q_runner R) s id a s' : set_hp cfg R s id a = Some s' -> Q s s'.
  Proof.
    unfold set_hp. destruct (get_unit (units s) id) as [u|] eqn:G; [|intros H; inversion H; subst; apply Q_refl].
    apply Q_hp_change; [exact GR|]. rewrite (get_unit_uid _ _ _ G). exact G.
  Qed.

  Lemma Q_damage_hp R (GR : q_runner R) s id src dm s' : damage_hp cfg R s id src dm = Some s' -> Q s s'.
  Proof.
    unfold damage_hp. destruct (get_unit (units s) id) as [u|] eqn:G; [|intros H; inversion H; subst; apply Q_refl].
    apply Q_hp_change; [exact GR|]. rewrite (get_unit_uid _ _ _ G). exact G.
  Qed.

  Lemma Q_heal_hp R (GR : q_runner R) s id src a s' : heal_hp cfg R s id src a = Some s' -> Q s s'.
  Proof.
    unfold heal_hp. destruct (get_unit (units s) id) as [u|] eqn:G; [|intros H; inversion H; subst; apply Q_refl].
    apply Q_hp_change; [exact GR|]. rewrite (get_unit_uid _ _ _ G). exact G.
  Qed.
  Lemma Q_do_heals R (GR : q_runner R) : forall ts s self a s', do_heals cfg R s self a ts = Some s' -> Q s s'.
  Proof.
    induction ts as [|t ts IH]; intros s self a s' H; cbn [do_heals] in H; [inversion H; subst; apply Q_refl|].
    destruct (heal_hp cfg R s t self a) as [s1|] eqn:E1; [|discriminate].
    eapply Q_trans; [eapply Q_heal_hp; eassumption|eapply IH; exact H].
  Qed.

  Lemma Q_do_hits R (GR : q_runner R) : forall ts s self dmg s',
    do_hits cfg R s self dmg ts = Some s' -> Q s s'.
  Proof.
    induction ts as [|d ts IH]; intros s self dmg s' H; cbn [do_hits] in H.
    - inversion H; subst. apply Q_refl.
    - set (s2 := emit s [VHitStart self d]) in *.
      destruct (damage_hp cfg R s2 d self dmg) as [s3|] eqn:ED; [|discriminate].
      set (s4 := record_hit s3 d dmg) in *.
      destruct (pop_slot s4 LHitEnd) as [sc s5] eqn:EP.
      assert (E5 : Q s s5).
      { eapply Q_trans; [apply (Q_emit s [VHitStart self d]); reflexivity|].
        eapply Q_trans; [eapply Q_damage_hp; eassumption|]. eapply Q_trans; [apply Q_record_hit|].
        replace s5 with (snd (pop_slot s4 LHitEnd)) by (rewrite EP; reflexivity). apply Q_pop_slot. }
      match type of H with match ?r with _ => _ end = _ => destruct r as [s6|] eqn:ER; [|discriminate] end.
      assert (E6 : Q s s6).
      { destruct sc as [i|].
        - eapply Q_trans; [exact E5|]. eapply GR. exact ER.
        - inversion ER; subst. exact E5. }
      eapply Q_trans; [exact E6|]. eapply Q_trans; [|eapply IH; exact H]. apply Q_emit. reflexivity.
  Qed.

  Lemma Q_exec_op R (GR : q_runner R) lm s self p o s' : exec_op cfg R lm s self p o = Some s' -> Q s s'.
  Proof.
    intros H. destruct o; cbn [exec_op] in H.
    - match type of H with (if ?c then _ else _) = _ => destruct c end; [inversion H; subst; apply Q_refl|].
      destruct (in_attack s); [eapply Q_do_hits; eassumption|].
      destruct qualified; [|eapply Q_do_hits; eassumption].
      destruct lm; [discriminate|].
      destruct (pop_slot (set_attack s (Some (key, self))) LAttackStart) as [sc s1] eqn:EP.
      match type of H with match ?r with _ => _ end = _ => destruct r as [s2|] eqn:ER; [|discriminate] end.
      assert (E1 : Q s s1).
      { eapply Q_trans; [apply (Q_same s (set_attack s (Some (key, self)))); reflexivity|].
        replace s1 with (snd (pop_slot (set_attack s (Some (key, self))) LAttackStart)) by (rewrite EP; reflexivity). apply Q_pop_slot. }
      assert (E2 : Q s s2).
      { destruct sc as [i|]; [eapply Q_trans; [exact E1|eapply GR; exact ER]|inversion ER; subst; exact E1]. }
      eapply Q_trans; [exact E2|]. eapply Q_trans; [|eapply Q_do_hits; eassumption]. apply Q_emit. reflexivity.
    - destruct lm; [discriminate|]. inversion H; subst. apply Q_end_attack.
    - destruct (get_unit (units s) _); [eapply Q_set_hp; eassumption|inversion H; subst; apply Q_refl].
    - destruct (budget s <=? 0); inversion H; subst; [apply Q_refl|].
      match goal with |- Q _ (enqueue ?m _ _ _ _) => apply Q_trans with m; [apply Q_same; reflexivity|apply Q_enqueue] end.
    - destruct (budget s <=? 0); inversion H; subst; [apply Q_refl|].
      match goal with |- Q _ (enqueue ?m _ _ _ _) => apply Q_trans with m; [apply Q_same; reflexivity|apply Q_enqueue] end.
    - inversion H; subst. apply Q_mod_energy.
    - inversion H; subst. apply Q_mod_sp.
    - destruct (get_unit (units s) _) as [u|] eqn:G; [|inversion H; subst; apply Q_refl].
      destruct (existsb _ _); inversion H; subst; [apply Q_refl|].
      eapply Q_upd_same; [exact G|reflexivity|reflexivity].
    - destruct (get_unit (units s) _) as [u|] eqn:G; inversion H; subst; [|apply Q_refl].
      eapply Q_upd_same; [exact G|reflexivity|reflexivity].
    - destruct (Turn.step F (turn s) _) as [t' outs] eqn:ET. inversion H; subst.
      eapply Q_trans; [apply (Q_gauge s (resolve self p t) amt)|]. rewrite ET. cbn [fst].
      apply Q_emit. apply gauge_events_script.
    - destruct (get_unit (units s) _) as [u|] eqn:G; inversion H; subst; [|apply Q_refl].
      eapply Q_upd_same; [exact G|reflexivity|reflexivity].
    - inversion H; subst. apply Q_sample.
    - match type of H with (if ?c then _ else _) = _ => destruct c end; [inversion H; subst; apply Q_refl|].
      eapply Q_do_heals; eassumption.
  Qed.

  Lemma Q_exec_list R (GR : q_runner R) lm : forall ops s self p s',
    exec_list cfg R lm s self p ops = Some s' -> Q s s'.
  Proof.
    induction ops as [|o ops IH]; intros s self p s' H; cbn [exec_list] in H.
    - inversion H; subst. apply Q_refl.
    - destruct (exec_op cfg R lm s self p o) as [s1|] eqn:E1; [|discriminate].
      eapply Q_trans; [eapply Q_exec_op; eassumption|]. eapply IH. exact H.
  Qed.

  Theorem Q_exec_ops : forall fuel lm, q_runner (exec_ops cfg fuel lm).
  Proof.
    induction fuel as [|f IH]; intros lm s self p sc s' H; [discriminate|].
    cbn [exec_ops] in H. eapply Q_exec_list; [apply IH|exact H].
  Qed.

  Lemma Q_run_slot fuel s x self p s' : run_slot cfg fuel s x self p = Some s' -> Q s s'.
  Proof.
    unfold run_slot. destruct (pop_slot s x) as [sc s1] eqn:EP. intros H.
    assert (E1 : Q s s1).
    { replace s1 with (snd (pop_slot s x)) by (rewrite EP; reflexivity). apply Q_pop_slot. }
    destruct sc as [i|].
    - eapply Q_trans; [exact E1|]. eapply Q_exec_ops. exact H.
    - inversion H; subst. exact E1.
  Qed.

  (* content, the engine's closing of an open attack, the end event's listeners *)
  Lemma Q_run_body fuel s self p sc endev sl s' :
    run_body cfg fuel s self p sc endev sl = Some s' -> exists s1, Q s s1 /\ s' = emit s1 [endev].
  Proof.
    unfold run_body. destruct (exec_ops cfg fuel false s self p sc) as [s1|] eqn:E1; [|discriminate].
    assert (A : Q s (end_attack s1)) by (eapply Q_trans; [eapply Q_exec_ops; exact E1|apply Q_end_attack]).
    destruct sl as [x|].
    - destruct (run_slot cfg fuel (end_attack s1) x self self) as [s3|] eqn:E3; [|discriminate].
      intros H; inversion H; subst. exists s3. split; [|reflexivity].
      eapply Q_trans; [exact A|eapply Q_run_slot; exact E3].
    - intros H; inversion H; subst. exists (end_attack s1). split; [exact A|reflexivity].
  Qed.

  Lemma Q_pop_act s id : Q s (snd (pop_act cfg s id)).
  Proof.
    unfold pop_act. destruct (get_unit (units s) id) as [u|] eqn:G; [|apply Q_refl].
    destruct (uacts u); [apply Q_refl|]. cbn [snd]. eapply Q_upd_same; [exact G|reflexivity|reflexivity].
  Qed.
End FrameA.
(* ---- the instance: the active unit is not changed by anything below beginTurn ---- *)
Section Active.
  Variable cfg : config.
  Definition A (s s' : sim) : Prop := active_id s' = active_id s.
  Lemma A_refl s : A s s. Proof. reflexivity. Qed.
  Lemma A_trans a b c : A a b -> A b c -> A a c. Proof. unfold A. congruence. Qed.
  Lemma A_emit s l : forallb script_ev l = true -> A s (emit s l). Proof. reflexivity. Qed.
  Lemma A_emit' s l : A s (emit s l). Proof. reflexivity. Qed.
  Lemma A_sample s : A s (emit s [VSample (chars s) (enemies s) (turn_ids s)]). Proof. reflexivity. Qed.
  Lemma A_upd s u u0 : get_unit (units s) (uid u) = Some u0 -> (ust u0 = Dead -> ust u = Dead) -> A s (upd_unit s u).
  Proof. reflexivity. Qed.
  Lemma A_same s s' : units s' = units s -> chars s' = chars s -> enemies s' = enemies s ->
    turn s' = turn s -> trace s' = trace s -> active_id s' = active_id s -> A s s'.
  Proof. intros _ _ _ _ _ H. exact H. Qed.
  Lemma A_gauge s id amt : A s (set_turn s (fst (Turn.step F (turn s) (@OModNorm F id amt)))).
  Proof. reflexivity. Qed.

  Definition A_run_slot := Q_run_slot cfg A A_refl A_trans A_emit A_sample A_upd A_same A_gauge.
  Definition A_run_body := Q_run_body cfg A A_refl A_trans A_emit A_sample A_upd A_same A_gauge.
  Definition A_set_energy := Q_set_energy A A_refl A_trans A_emit A_upd.
  Definition A_mod_energy := Q_mod_energy A A_refl A_trans A_emit A_upd.

  Lemma A_mod_sp s a : A s (mod_sp s a).
  Proof. unfold mod_sp. destruct (_ =? _); reflexivity. Qed.
  Lemma A_pop_act s id : A s (snd (pop_act cfg s id)).
  Proof. unfold pop_act. destruct (get_unit (units s) id) as [u|]; [|reflexivity]. destruct (uacts u); reflexivity. Qed.

  Lemma A_announce fuel : forall ids s s', announce cfg fuel s ids = Some s' -> A s s'.
  Proof.
    induction ids as [|id ids IH]; intros s s' H; cbn [announce] in H; [inversion H; subst; apply A_refl|].
    destruct (Turn.step F (turn s) (@ORemove F id)) as [t' o] eqn:ET.
    match type of H with match run_slot _ _ ?x _ _ _ with _ => _ end = _ => destruct (run_slot cfg fuel x LDeath id _) as [s3|] eqn:ER; [|discriminate] end.
    apply IH in H. apply A_run_slot in ER.
    eapply A_trans; [|exact H]. eapply A_trans; [|apply A_emit']. eapply A_trans; [|exact ER].
    eapply A_trans; [|apply A_emit']. eapply A_trans; [|apply A_mod_energy]. reflexivity.
  Qed.

  Lemma A_death_check fuel s b s' : death_check cfg fuel s b = Some s' -> A s s'.
  Proof. unfold death_check. intros H. apply A_announce in H. exact H. Qed.

  Lemma A_ult_reqs : forall reqs s s', ult_reqs s reqs = Ok s' -> A s s'.
  Proof.
    induction reqs as [|r reqs IH]; intros s s' H; cbn [ult_reqs] in H; [inversion H; subst; apply A_refl|].
    destruct (get_unit (units s) (ur_target r)) as [u|]; [|discriminate].
    destruct (negb (uchar u)); [discriminate|].
    destruct (can_ult u); [|apply IH; exact H].
    apply IH in H. eapply A_trans; [|exact H]. eapply A_trans; [|apply A_set_energy]. reflexivity.
  Qed.

  Lemma A_ult_check s s' : ult_check s = Ok s' -> A s s'.
  Proof.
    unfold ult_check. destruct (match ults_q s with [] => _ | x :: r => _ end) as [reqs q].
    intros H. apply A_ult_reqs in H. exact H.
  Qed.

  Lemma A_exit_check s s' : exit_check cfg s = Ok s' -> s' = s.
  Proof. unfold exit_check. destruct (_ =? 0); intros H; inversion H; reflexivity. Qed.

  Ltac body_tail :=
    let EP := fresh "EP" in let ER := fresh "ER" in let H := fresh "H" in
    let s1 := fresh "zzs" in let Q1 := fresh "zzQ" in
    match goal with |- context [pop_act cfg ?x ?i] =>
      pose proof (A_pop_act x i) as EP; destruct (pop_act cfg x i) as [? ?] end;
    cbn [snd] in EP;
    match goal with |- context [run_body cfg ?f ?x ?i ?p ?c ?e ?sl] =>
      destruct (run_body cfg f x i p c e sl) as [?|] eqn:ER; [|discriminate] end;
    intros H; inversion H; subst; apply A_run_body in ER; destruct ER as [s1 [Q1 ->]];
    eapply A_trans; [|apply A_emit']; eapply A_trans; [|exact Q1]; eapply A_trans; [|apply A_emit'];
    eapply A_trans; [|exact EP].

  Lemma A_execute_action fuel s id ins s' : execute_action cfg fuel s id ins = AOk s' -> A s s'.
  Proof.
    unfold execute_action. destruct (get_unit (units s) id) as [u|]; [|intros H; inversion H; subst; apply A_refl].
    destruct (ust u); try (intros H; inversion H; subst; apply A_refl).
    destruct (uchar u).
    - destruct (pop_next (next_q s) id) as [d q].
      destruct ((dc_type d =? 1) && negb _); cbv iota beta.
      + destruct (evaluate _ id _ _) as [p|]; [|discriminate].
        body_tail. eapply A_trans; [|apply A_emit']. eapply A_trans; [|apply A_mod_sp]. reflexivity.
      + destruct (evaluate _ id _ _) as [p|]; [|discriminate].
        body_tail. eapply A_trans; [|apply A_emit']. eapply A_trans; [|apply A_mod_sp]. reflexivity.
    - destruct (chars s); [discriminate|].
      body_tail. eapply A_trans; [|apply A_emit']. apply A_mod_sp.
  Qed.

  Lemma A_execute_action_err fuel s id ins s' : execute_action cfg fuel s id ins = AErr s' -> A s s'.
  Proof.
    unfold execute_action. destruct (get_unit (units s) id) as [u|]; [|discriminate].
    destruct (ust u); try discriminate.
    destruct (uchar u).
    - destruct (pop_next (next_q s) id) as [d q].
      destruct ((dc_type d =? 1) && negb _); cbv iota beta.
      + destruct (evaluate _ id _ _) as [p|]; [|intros H; inversion H; subst; reflexivity].
        destruct (pop_act cfg _ _) as [sc s4]. destruct (run_body _ _ _ _ _ _ _ _); discriminate.
      + destruct (evaluate _ id _ _) as [p|]; [|intros H; inversion H; subst; reflexivity].
        destruct (pop_act cfg _ _) as [sc s4]. destruct (run_body _ _ _ _ _ _ _ _); discriminate.
    - destruct (chars s); [discriminate|]. destruct (pop_act cfg _ _) as [sc s4].
      destruct (run_body _ _ _ _ _ _ _ _); discriminate.
  Qed.

  Lemma A_execute_ult fuel s r s' : execute_ult cfg fuel s r = AOk s' -> A s s'.
  Proof.
    unfold execute_ult. destruct (get_unit (units s) (ur_target r)) as [u|]; [|intros H; inversion H; subst; apply A_refl].
    destruct (negb (uchar u)); [intros H; inversion H; subst; apply A_refl|].
    destruct (negb (ur_type r =? 3)); [intros H; inversion H; subst; apply A_refl|].
    destruct (evaluate s _ _ _) as [p|]; [|intros H; inversion H; subst; apply A_refl].
    body_tail. apply A_emit'.
  Qed.

  Lemma A_execute_task fuel s t s' : execute_task cfg fuel s t = AOk s' -> A s s'.
  Proof.
    unfold execute_task. destruct (t_kind t) as [key prio abort body| |r].
    - match goal with |- context [run_body cfg ?f ?x ?i ?p ?c ?e ?sl] =>
        destruct (run_body cfg f x i p c e sl) as [s6|] eqn:ER; [|discriminate] end.
      intros H; inversion H; subst. apply A_run_body in ER. destruct ER as [s1 [Q1 ->]].
      eapply A_trans; [|apply A_emit']. eapply A_trans; [|exact Q1]. apply A_emit'.
    - destruct (execute_action cfg fuel s (t_src t) true) as [x|x|x|] eqn:EA; intros H; inversion H; subst.
      + eapply A_execute_action; exact EA.
      + eapply A_execute_action_err; exact EA.
    - apply A_execute_ult.
  Qed.

  Lemma A_drain : forall fuel s s', drain cfg fuel s = Ok s' -> A s s'.
  Proof.
    induction fuel as [|f IH]; intros s s' H; cbn [drain] in H; [discriminate|].
    destruct (pop s) as [[t s1]|] eqn:EP; [|inversion H; subst; apply A_refl].
    assert (E1 : A s s1).
    { unfold pop in EP. destruct (queue s); [discriminate|]. inversion EP; subst. reflexivity. }
    destruct (_ || _).
    { apply A_exit_check in H. subst. apply A_refl. }
    destruct (match state_of s1 (t_src t) with Some Dead => true | _ => false end).
    { eapply A_trans; [exact E1|apply IH; exact H]. }
    destruct (negb (existsb _ _)).
    { eapply A_trans; [exact E1|apply IH; exact H]. }
    destruct (has_flag s1 (t_src t) (t_abort t)).
    { eapply A_trans; [exact E1|apply IH; exact H]. }
    destruct (execute_task cfg f s1 t) as [s2|x|x|] eqn:ET; try discriminate.
    destruct (death_check cfg f s2 false) as [s3|] eqn:ED; [|discriminate].
    destruct (exit_check cfg s3) as [s4|x|x|] eqn:EX; try discriminate.
    destruct (ult_check s4) as [s5|x|x|] eqn:EU; try discriminate.
    apply A_execute_task in ET. apply A_death_check in ED. apply A_exit_check in EX. subst s4.
    apply A_ult_check in EU. apply IH in H.
    eapply A_trans; [exact E1|]. eapply A_trans; [exact ET|]. eapply A_trans; [exact ED|].
    eapply A_trans; [exact EU|exact H].
  Qed.

  Lemma A_execute_queue fuel s b s' : execute_queue cfg fuel s b = Ok s' -> A s s'.
  Proof.
    unfold execute_queue. destruct (ult_check s) as [s1|x|x|] eqn:EU; try discriminate.
    apply A_ult_check in EU.
    destruct (b && negb _); intros H.
    - apply A_exit_check in H. subst. exact EU.
    - apply A_drain in H. eapply A_trans; [exact EU|exact H].
  Qed.
End Active.
