(* Correspondence checker for Model/Events.v: runs the model on the harness's op list (with
   its listener scripts) and compares the whole observable trace with what the real handlers
   produced; and the property's own trace monitors, evaluated on the implementation's trace
   alone. *)
From Coq Require Import List ZArith Bool String.
From SR Require Import Base.CaseLib Model.Events.
Import ListNotations.
Open Scope Z_scope.

Definition item_eqb (a b : item) : bool :=
  match a, b with
  | IEmit h v, IEmit h' v' => Nat.eqb h h' && (v =? v')
  | ICall l h v, ICall l' h' v' => (l =? l') && Nat.eqb h h' && (v =? v')
  | ISub l h p, ISub l' h' p' => (l =? l') && Nat.eqb h h' && (p =? p')
  | IInit g, IInit g' => list_eqb Z.eqb g g'
  | ILog g h v c, ILog g' h' v' c' => (g =? g') && Nat.eqb h h' && (v =? v') && Bool.eqb c c'
  | IRet h c v, IRet h' c' v' => Nat.eqb h h' && Bool.eqb c c' && (v =? v')
  | _, _ => false
  end.

(* what the harness observed: the trace, or a Go panic *)
Inductive obs := Obs (tr : list item) | HarnessPanic (msg : string).

Definition case := (list hkind * list op * obs)%type.

Definition model_fuel : nat := 400.

Definition model_trace (c : case) : res (list item) :=
  let '(kinds, ops, _) := c in
  match run model_fuel (init kinds) ops with
  | Ok (w, _) => Ok (trace w)
  | Err e => Err e
  end.

Definition check_case (c : case) : bool :=
  let '(_, _, o) := c in
  match model_trace c, o with
  | Ok tr, Obs otr => list_eqb item_eqb tr otr
  | Err BadHandler, HarnessPanic _ => true
  | _, _ => false
  end.

(* ------------------------------------------------------------------------------------ *)
(* Monitor 1 (logging clause), on the implementation's trace alone: every return of Emit is
   immediately preceded by exactly one log entry per logger registered at that moment (the
   argument of the latest InitLoggers in the trace), in registration order, carrying the
   returned event; no log entry occurs anywhere else.  So the log lists all emissions in
   order of completion, once per registered logger. *)
Fixpoint log_scan (cur : list Z) (pend : option (list Z * nat * Z * bool)) (tr : list item) : bool :=
  match tr with
  | [] => match pend with None => true | Some _ => false end
  | it :: rest =>
      match it, pend with
      | IInit lgs, None => log_scan lgs None rest
      | ILog lg h v c, None =>
          match cur with
          | lg0 :: more => (lg =? lg0) && log_scan cur (Some (more, h, v, c)) rest
          | [] => false
          end
      | ILog lg h v c, Some (lg0 :: more, h', v', c') =>
          (lg =? lg0) && Nat.eqb h h' && (v =? v') && Bool.eqb c c' &&
          log_scan cur (Some (more, h', v', c')) rest
      | IRet h c v, None =>
          match cur with [] => log_scan cur None rest | _ => false end
      | IRet h c v, Some ([], h', v', c') =>
          Nat.eqb h h' && (v =? v') && Bool.eqb c c' && log_scan cur None rest
      | (IEmit _ _ | ICall _ _ _ | ISub _ _ _), None => log_scan cur None rest
      | _, _ => false
      end
  end.

(* ------------------------------------------------------------------------------------ *)
(* Monitor 2 (delivery clause), on the implementation's trace alone.  The trace is
   self-delimiting (IEmit ... IRet), so the emission forest is rebuilt with a stack.  The
   monitor keeps its own subscription table from the ISub items.  For EVERY emission (also
   one during which listeners subscribe to its own handler) the listeners called directly by
   it must be: pairwise distinct, in subscription order (simple) / ascending priority (others;
   ties unconstrained, as in the property), all subscribed to the handler when it was entered;
   when it reports no cancellation, ALL of them; when it reports a cancellation, the handler
   is cancelable, at least one listener ran and every listener not reached has a priority
   >= the last one called.  Only cancelable handlers report a cancellation. *)
Record mframe := mkMF {
  mf_h : nat;
  mf_expected : list (Z * Z);     (* (id, priority) subscribed when entered *)
  mf_called : list Z }.           (* ids called so far, latest first *)

Fixpoint assoc_prio (tbl : list (Z * Z)) (lid : Z) : option Z :=
  match tbl with
  | [] => None
  | (i, p) :: r => if i =? lid then Some p else assoc_prio r lid
  end.

Fixpoint nodupb (l : list Z) : bool :=
  match l with
  | [] => true
  | x :: r => negb (existsb (Z.eqb x) r) && nodupb r
  end.

Fixpoint ascending (l : list Z) : bool :=
  match l with
  | x :: ((y :: _) as r) => (x <=? y) && ascending r
  | _ => true
  end.
Fixpoint strictly_ascending (l : list Z) : bool :=
  match l with
  | x :: ((y :: _) as r) => (x <? y) && strictly_ascending r
  | _ => true
  end.

Definition frame_delivery_ok (k : hkind) (f : mframe) (c : bool) : bool :=
  let called := rev (mf_called f) in
  let prios := map (assoc_prio (mf_expected f)) called in
  (* everyone called was subscribed when the emission was entered *)
  forallb (fun o => match o with Some _ => true | None => false end) prios &&
  nodupb called &&
  let ps := flat_map (fun o => match o with Some p => [p] | None => [] end) prios in
  (if kind_eqb k KSimple then strictly_ascending called else ascending ps) &&
  if c then
    kind_eqb k KCancel &&
    match rev ps with
    | [] => false
    | last :: _ =>
        forallb (fun ip => existsb (Z.eqb (fst ip)) called || (last <=? snd ip)) (mf_expected f)
    end
  else
    Nat.eqb (List.length called) (List.length (mf_expected f)).

Fixpoint delivery_scan (kinds : list hkind) (tbl : list (nat * (Z * Z))) (stack : list mframe)
                       (tr : list item) : bool :=
  match tr with
  | [] => match stack with [] => true | _ => false end
  | it :: rest =>
      match it with
      | IEmit h _ =>
          let expected := flat_map (fun e => if Nat.eqb (fst e) h then [snd e] else []) tbl in
          delivery_scan kinds tbl (mkMF h expected [] :: stack) rest
      | ICall lid h _ =>
          match stack with
          | f :: more =>
              Nat.eqb (mf_h f) h &&
              delivery_scan kinds tbl
                (mkMF (mf_h f) (mf_expected f) (lid :: mf_called f) :: more) rest
          | [] => false
          end
      | ISub lid h p => delivery_scan kinds (tbl ++ [(h, (lid, p))]) stack rest
      | IRet h c _ =>
          match stack with
          | f :: more =>
              Nat.eqb (mf_h f) h &&
              match nth_error kinds h with
              | None => false
              | Some k =>
                  (if c then kind_eqb k KCancel else true) &&
                  frame_delivery_ok k f c
              end &&
              delivery_scan kinds tbl more rest
          | [] => false
          end
      | IInit _ | ILog _ _ _ _ => delivery_scan kinds tbl stack rest
      end
  end.

Definition monitor_case (c : case) : bool :=
  let '(kinds, _, o) := c in
  match o with
  | Obs tr => log_scan [] None tr && delivery_scan kinds [] [] tr
  | HarnessPanic _ => true     (* no trace to judge; the correspondence decides *)
  end.
