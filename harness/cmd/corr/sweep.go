package main

// C20 content sweep: every registered character / light cone / relic set, in generated
// builds, against generated dummy enemies, scripts and seeds, on the REAL simulation.Run, in
// ONE process on purpose (catalog registrations made at character creation time show up on
// the second run with that character).  A second, malformed stream names one unknown
// character / light cone / relic set / enemy.  Outcome per case: Obs status events loghash
// reshash lastEvent message, status 0 = result, 1 = error, 2 = panic (with site),
// 3 = watchdog abort (too many events / too slow), 4 = generated script does not parse.

import (
	"os"
	"strconv"
	"time"

	"github.com/simimpact/srsim/pkg/engine/logging"

	"verif/harness/term"
)

const sweepEventLimit = 200000

var unknownKeys = []string{"nosuchkey", "", "Danheng", "dummy ", "musketeer_of_wild_wheat_x", "DUMMY"}

// malform replaces exactly one name of the spec by a key outside the respective catalog
func malform(r *term.Rng, spec term.T) term.T {
	_, a := term.Ctor(spec)
	chars := append([]term.T{}, term.List(a[0])...)
	enemies := append([]term.T{}, term.List(a[1])...)
	bad := term.Pick(r, unknownKeys)
	ci := r.Intn(len(chars))
	_, c := term.Ctor(chars[ci])
	c = append([]term.T{}, c...)
	switch r.Intn(4) {
	case 0: // character
		c[0] = term.S(bad)
		chars[ci] = term.C("Ch", c...)
	case 1: // light cone
		_, lc := term.Ctor(c[9])
		lc = append([]term.T{}, lc...)
		lc[0] = term.S(bad)
		if bad == "" && r.Bool() {
			// no light_cone section at all (decodeSpec: empty key with level 0)
			lc[1], lc[2], lc[3] = term.I(0), term.I(0), term.I(0)
		}
		c[9] = term.C("LC", lc...)
		chars[ci] = term.C("Ch", c...)
	case 2: // relic
		rels := append([]term.T{}, term.List(c[10])...)
		rels = append(rels, term.C("Rel", term.S(bad), term.I(int64(term.Pick(r, []int{1, 2, 4})))))
		c[10] = term.L(rels...)
		chars[ci] = term.C("Ch", c...)
	default: // enemy
		ei := r.Intn(len(enemies))
		_, e := term.Ctor(enemies[ei])
		e = append([]term.T{}, e...)
		e[0] = term.S(bad)
		enemies[ei] = term.C("En", e...)
	}
	return term.C("RS", term.L(chars...), term.L(enemies...), a[2], a[3], a[4])
}

func sweepGen(r *term.Rng, idx int) term.T {
	r = reseed(r, idx)
	contentCat := getCatalogs()
	// thorough sweeps can pin the content axes through the environment
	o := genOpts{maxChars: 4, maxCycles: 4}
	if os.Getenv("SWEEP_THOROUGH") == "1" {
		o.maxCycles = 8
	}
	// every fifth case belongs to the malformed stream; the others walk through the catalogs
	// so that every character, light cone and relic set is used (as the forced first pick)
	if idx%5 == 4 {
		o.maxChars = 3
		return malform(r, genSpec(r, o))
	}
	// k-th case of the valid stream; the walk below covers every registered character (two
	// builds each), then every light cone on a character of the cone's own path (the passive of
	// a cone is only created when the paths match), then every relic set; after that the
	// characters are walked again with everything else random
	k := idx - (idx+1)/5
	nc, nl, nr := len(contentCat.chars), len(contentCat.cones), len(contentCat.relics)
	switch {
	case k < 2*nc:
		o.forceChar = contentCat.chars[k%nc]
		o.showcase = k >= nc // the second build of every character
	case k < 2*nc+nl:
		cone := contentCat.cones[k-2*nc]
		o.forceCone = cone
		same := []string{}
		for _, c := range contentCat.chars {
			if contentCat.charCfg[c].Path == contentCat.coneCfg[cone].Path {
				same = append(same, c)
			}
		}
		if len(same) > 0 {
			o.forceChar = term.Pick(r, same)
		} else {
			o.forceChar = term.Pick(r, contentCat.chars)
		}
	case k < 2*nc+nl+nr:
		o.forceRelic = contentCat.relics[k-2*nc-nl]
		o.forceChar = term.Pick(r, contentCat.chars)
	default:
		o.forceChar = contentCat.chars[k%nc]
	}
	return genSpec(r, o)
}

func sweepRun(in term.T) term.T {
	spec := decodeSpec(in)
	list, err := parseScript(spec.script)
	if err != nil {
		return obsTerm(runObs{status: 4, msg: err.Error()})
	}
	limit := sweepEventLimit
	if v, e := strconv.Atoi(os.Getenv("SWEEP_EVENT_LIMIT")); e == nil && v > 0 {
		limit = v
	}
	rec := newRecLogger(false, limit)
	t0 := time.Now()
	obs := runReal(spec.cfg, list, spec.seed, rec, []logging.Logger{rec})
	if time.Since(t0) > 10*time.Second && obs.status == 0 {
		obs.status, obs.msg = 3, "wall time above 10 s"
	}
	return obsTerm(obs)
}

func sweepKinds(in term.T) map[string]int {
	out := map[string]int{}
	for _, k := range specTeam(in) {
		out["char:"+k]++
	}
	_, a := term.Ctor(in)
	for _, ct := range term.List(a[0]) {
		_, c := term.Ctor(ct)
		_, lc := term.Ctor(c[9])
		out["cone:"+term.Str(lc[0])]++
		for _, rt := range term.List(c[10]) {
			_, rr := term.Ctor(rt)
			out["relic:"+term.Str(rr[0])]++
		}
	}
	out["enemies:"+strconv.Itoa(len(term.List(a[1])))]++
	return out
}

func init() {
	register("sweep", component{gen: sweepGen, run: sweepRun, kinds: sweepKinds,
		hung: func(term.T) term.T {
			return obsTerm(runObs{status: 3, msg: "the run did not return within the per-case time limit (it fails to stop)"})
		}})
}
