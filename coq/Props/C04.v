(* C04 — Hits deal the documented damage, toughness damage and energy.
   Only statements, [exact] and [Print Assumptions] live here. *)
From Coq Require Import List ZArith Bool Reals.
From SR Require Import Model.CombatCore Model.Hit Proofs.CombatFacts Proofs.HitProofs.
Import ListNotations.

Theorem C04_hits : C04_statement.
Proof. exact C04_holds. Qed.
Print Assumptions C04_hits.

(* some clauses by name *)
Theorem C04_vulnerability_reads_defender :
  forall h : hit RNum,
    vul RNum h = Rmin (7 / 2) (1 + sget RNum (h_def RNum h) pAllDamageTaken
                                 + sget RNum (h_def RNum h) (dmgTakenProp (h_dtype RNum h)))%R /\
    (vul RNum h <= 7 / 2)%R.
Proof. exact vul_R. Qed.
Print Assumptions C04_vulnerability_reads_defender.

Theorem C04_crit_iff_and_one_draw :
  forall N w h,
    let '(crit, w1, drawn) := crit_step N w h in
    crit = crit_eligible N h && nltb N (next_draw N w) (CritChance N (h_att N h)) /\
    w_units N w1 = w_units N w /\ w_limbo N w1 = w_limbo N w /\ w_attack N w1 = w_attack N w /\
    w_draws N w1 = (if crit_eligible N h then tl (w_draws N w) else w_draws N w) /\
    drawn = (if crit_eligible N h then [IDraw (next_draw N w)] else []).
Proof. exact crit_step_spec. Qed.
Print Assumptions C04_crit_iff_and_one_draw.

Theorem C04_hp_plus_shield_is_total :
  forall w h bd r, hit_steps RNum w h bd r ->
    (r_hp RNum r + (r_total RNum r - r_hp RNum r) = r_total RNum r /\
     r_hp RNum r <= r_total RNum r /\
     (0 <= r_total RNum r -> 0 <= r_hp RNum r /\ 0 <= r_total RNum r - r_hp RNum r))%R.
Proof. exact hit_steps_split. Qed.
Print Assumptions C04_hp_plus_shield_is_total.

Theorem C04_nonvacuous : demo_statement.
Proof. exact demo_hit. Qed.
