import json as _json, os as _os, subprocess as _subprocess, sys as _sys


def collector_shape(ctx):
    """Structural obligation: in cmd/srsim/execute.go and pkg/servermode/pool.go the aggregators'
    Add is called from exactly one place per file, outside every `go func(){}` body and outside
    every function started with `go` in that file (one collector goroutine adds worker results);
    Flush likewise.  Listed by harness/cmd/aggsites (go/ast) from the current working tree."""
    main = _sys.modules["__main__"]
    p = _subprocess.run([_os.path.join(main.HARNESS, "bin", "aggsites"), "-repo", main.REPO],
                        stdout=_subprocess.PIPE, stderr=_subprocess.STDOUT)
    out = p.stdout.decode("utf-8", "replace")
    if p.returncode != 0:
        raise main.Violation("structure", "aggsites cannot parse the worker pools", out[-3000:], True)
    rep = _json.loads(out)
    expected = {"cmd/srsim/execute.go": [("processWorkerResult", "aggs.Add")],
                "pkg/servermode/pool.go": [("run", "a.Add")]}
    bad = []
    for f, want in expected.items():
        adds = [s for s in rep["sites"] if s["file"] == f and s["call"].endswith(".Add")]
        got = sorted((s["func"], s["call"]) for s in adds)
        if got != sorted(want):
            bad.append("%s: aggregator Add sites are %s, expected %s" % (f, got, want))
        for s in rep["sites"]:
            if s["file"] != f or s["call"].startswith("fileLogger."):
                continue
            if s["in_goroutine"]:
                bad.append("%s: %s in %s sits inside a goroutine body" % (f, s["call"], s["func"]))
            if s["func"] in rep["launched"].get(f, []):
                bad.append("%s: %s is called from %s, which is started with `go`" % (f, s["call"], s["func"]))
    if bad:
        raise main.Violation("structure", "the worker pools no longer add results from a single collector",
                             "\n".join(bad) + "\n" + out, True)
    ctx.obligations.append("collector_shape(cmd/srsim/execute.go, pkg/servermode/pool.go)")
    ctx.notes.append("collector shape: Add sites %s; goroutines started: %s" % (
        [(s["file"], s["func"]) for s in rep["sites"] if s["call"].endswith(".Add")], rep["launched"]))


def build_cli(ctx):
    """Builds the command-line program of the tree under test (go build ./cmd/srsim, output
    harness/bin/srsim) for the `clipool` component; same hook as in tools/props.d/C15.py."""
    M = _sys.modules["__main__"]
    binp = _os.path.join(M.HARNESS, "bin", "srsim")
    env = dict(M.ENV, GOFLAGS="-mod=readonly")
    with M.Lock("go"):
        try:
            _os.remove(binp)
        except OSError:
            pass
        rc, out = M.sh(["go", "build", "-buildvcs=false", "-o", binp, "./cmd/srsim"], cwd=M.REPO, timeout=1800, env=env)
    if rc != 0 or not _os.path.exists(binp):
        raise M.Violation("build", "the command-line program (go build ./cmd/srsim) does not build", out[-4000:], True)
    M.ENV["CORR_SRSIM_BIN"] = binp
    M.ENV.setdefault("CORR_CASE_TIMEOUT_S", "300")
    ctx.notes.append("clipool: srsim built from %s (%d bytes)" % (M.REPO, _os.path.getsize(binp)))


def pools_skipped(ctx):
    M = _sys.modules["__main__"]
    for comp in ("clipool", "srvpool"):
        k = ctx.corr.get(comp, {}).get("op_kinds", {})
        cases, sk = k.get("cases", 0), k.get("reference_failed", 0)
        ctx.notes.append("%s: %d cases, %d without a reference (skipped)" % (comp, cases, sk))
        if cases == 0 or sk * 5 > cases:
            raise M.Violation("search", "%d of %d generated %s runs have no reference" % (sk, cases, comp),
                              "more than 20% of the generated configurations fail when their jobs are run alone", True)


CONFIG = {
    "id": "C19",
    "coq_targets": ["Props/C19.v", "Model/AggCheck.v", "Model/CliPoolCheck.v", "Model/SrvPoolCheck.v"],
    "prop_files": ["Props/C19.v"],
    "gen": [],
    "extra_bins": ["aggsites"],
    "pre": [collector_shape, build_cli],
    "post": [pools_skipped],
    "components": [{
        "name": "agg", "modules": ["Model.Agg", "Model.AggCheck"],
        "check": "check_case", "monitor": "monitor_case", "model_out": "model_out",
        "case_type": "case",
        "ops_path": [3],            # the batch of iteration results (shrunk result by result)
        "n_quick": 320, "n_thorough": 12000, "shard": 40,
    }, {
        # the REAL collector loops: cmd/srsim/execute.go (binary built from the tree) and pkg/servermode/pool.go
        # (in process, incl. its intermediate flushes); components shared with C15 (tools/props.d/C15.py)
        "name": "clipool", "modules": ["Base.GlobalTypes", "Model.RunSpec", "Model.CliPoolCheck"],
        "check": "check_case", "monitor": "monitor_case", "model_out": "model_out",
        "case_type": "case", "ops_path": None, "mismatch_is_violation": True,
        "n_quick": 6, "n_thorough": 100, "shard": 6,
    }, {
        "name": "srvpool", "modules": ["Base.GlobalTypes", "Model.RunSpec", "Model.CliPoolCheck", "Model.SrvPoolCheck"],
        "check": "check_case", "monitor": "monitor_case", "model_out": "model_out",
        "case_type": "case", "ops_path": None, "mismatch_is_violation": True,
        "n_quick": 12, "n_thorough": 200, "shard": 6,
    }],
    "rule": "a case is one batch of model.IterationResult values (0, 1, 2-6 identical, 2-6 all-zero, 2-12 or 13-40 "
            "results; amounts drawn from a pool of 1-4 values per case out of zero / equal / adjacent floats / tiny / "
            "large / ordinary numbers, so equal values are the norm; cumulative per-cycle series of length 0 .. cycle "
            "limit + 2, realistic non-decreasing or arbitrary; cycle limit 0-5) fed to the REAL aggregators "
            "(simulation.InitializeAggregators / Add / Flush) four times: identity order, reversed order with up to two "
            "intermediate flushes (also before the first add), a shuffled order, and through a worker pool of 1-4 "
            "goroutines of the shape of cmd/srsim/execute.go whose observed arrival order is part of the observation; "
            "every field of every flushed model.Statistics is compared bit for bit with the binary64 model run on the "
            "same arrival order, once when flushed and again at the end of the run; generated from one splitmix64 "
            "state; a case is non-trivial when distinct as an input term. clipool / srvpool: generated run "
            "descriptions (1-4 registered characters, 8-24 iterations, 1-8 workers, flush interval 0-6, "
            "settings.iterations absent / equal / smaller / larger than the requested count) through the real "
            "collectors of cmd/srsim/execute.go (binary) and pkg/servermode/pool.go (in process); final statistics "
            "against those of the jobs run alone, statistic by statistic (exact; mean / SD up to 1e-9), every "
            "progress report of the server pool: count monotone, at most the request, equal to the sum of the "
            "damage-per-cycle histogram",
    "trusted": [
        "go-moremath stats.StreamStats.Add/Mean/StdDev and stats.Sample.Sort/Bounds/Mean/StdDev/Quantile (R8) are "
        "third-party code: transcribed by hand into Model/Agg.v and corresponded on every case, not translated",
        "sort.Float64s is modelled as an insertion sort with its Less (x < y || isNaN(x) && !isNaN(y)); proved: a list "
        "of floats without NaN and -0 has exactly one sorted arrangement, so the choice of algorithm is unobservable",
        "math.Pow(float64(n), 1.0/3.0) has no Coq counterpart: the Go value is an input of the case (one per sample "
        "size), the theorems hold for any supplied value; math.Sqrt = PrimFloat.sqrt; math.Ceil, math.Modf and "
        "float64(int) are re-implemented in Model/Agg.v (fceil, ftoZ, fofZ) and corresponded",
        "mean / standard deviation of the three streaming totals: equality with the two-pass formulas and order "
        "independence are proved for the same definitions instantiated at the real numbers; IEEE rounding between "
        "the two instances is not bounded by a theorem (the monitor compares arrival orders and a two-pass "
        "evaluation with a relative tolerance of 2^-30 / 2^-20 of the largest magnitude)",
        "one-collector shape of the real pools: checked structurally on every run by harness/cmd/aggsites (go/ast): in "
        "cmd/srsim/execute.go and pkg/servermode/pool.go the aggregators' Add / Flush are called from one function "
        "each, outside every goroutine body and outside every function started with `go`",
        "the worker pool of the agg component is a copy of the shape of cmd/srsim/execute.go / pkg/servermode/pool.go "
        "(unbuffered channels, one collector goroutine calling Add) fed with chosen iteration results; the REAL "
        "pools run real simulations from a config: components clipool (the srsim binary built from the tree under "
        "test, 1 and 1-8 workers) and srvpool (the HTTP server mode in process: workerpool.run with its flush "
        "interval, every progress report and the final one) compare what the real collectors report with the "
        "statistics of the multiset of results of the jobs run alone (seeds reproduced by the harness; see "
        "tools/props.d/C15.py for what that trusts); StreamStats.Total / meanOfSquares and uint32 wrap of "
        "histogram counts are not reported / not modelled",
    ],
    "assumptions": [
        "no value entering a sample or a streaming total is NaN or -0 (fresult_ok: the totals, dealt*100/AV and the "
        "per-cycle increments of every result): holds for finite non-negative damage and positive total AV",
        "that Flush returns (no undefined float->int conversion, bin width not zero, at least one bin) is proved "
        "for EVERY batch at the real-number instance (clause g; the only refusal left is an allocation of 2^31 or "
        "more bins) and at binary64 for empty batches and for 1..8192 identical results (clauses f, f'; the quantile "
        "index conversion int(1/3 + q(N + 1/3)) is established by computation for N <= 8192 and is a hypothesis, "
        "quantiles_defined, beyond); for other binary64 batches it is checked on every case (model outcomes "
        "RConvUndefined / RPanic never match an observation) but not proved: it needs magnitudes for which neither "
        "the sum of squares overflows nor max - min does (|values| below about 1e150)",
        "sample sizes below 2^64 (StreamStats.Count is a uint) and iteration counts below 2^32 (Statistics.Iterations)",
    ],
    "manifest": {
        "level_text": "Kernel-checked theorems over an executable Gallina model of the overview aggregator, "
                      "ToDescriptiveStats / ToOverviewStats / LinearHist and the go-moremath functions they call "
                      "(all op lists of adds and flushes, all batches, all arrival orders; binary64 instance for the "
                      "exact claims, real-number instance for mean / variance), tied to the Go code by bit-exact "
                      "correspondence on generated batches in several arrival orders and through a worker pool.",
        "level_note": "Coq kernel; hand-written model Model/Agg.v of the repaired code (two fix: commits); "
                      "correspondence harness; math.Pow supplied by the harness; Welford = two-pass at R only.",
        "technique": "Coq proof (uniqueness of the sorted arrangement, invariants of the streaming recurrences, "
                     "histogram conservation) + model/implementation correspondence + trace monitor",
        "design_ref": "DESIGN.md section 7, C19",
    },
}
