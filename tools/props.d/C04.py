CONFIG = {
    "id": "C04",
    "coq_targets": ["Gen/FormulasInfo.v", "Gen/FormulasAttr.v", "Gen/Formulas.v", "Proofs/FormulasInfoProofs.v", "Proofs/FormulasAttrCoreProofs.v", "Proofs/FormulasProofs.v",
                    "Props/C04.v", "Model/HitCheck.v", "Model/HitTerms.v"],
    "prop_files": ["Props/C04.v"],
    "gen": ["FormulasInfo", "FormulasAttr", "Formulas"],
    "components": [{
        "name": "hit",
        # HitTerms last: it gives the case files the constructors at the binary64 instance
        "modules": ["Model.CombatCore", "Model.CombatCheck", "Model.Hit", "Model.HitCheck", "Model.HitTerms"],
        "check": "hit_check_case", "monitor": "hit_monitor_case", "model_out": "hit_model_out",
        "case_type": "hcase",
        "ops_path": [3],
        "n_quick": 808, "n_thorough": 40400, "shard": 202,
    }],
    "rule": "2-4 units (id pool 1..4 plus one unregistered id; characters and enemies) with generated HP/ATK/DEF "
            "base/percent/flat/convert, crit chance/damage, damage bonuses, RES and PEN per element, damage taken per element, "
            "damage reduction, fatigue, break effect, energy regeneration, toughness-damage bonus, level (every row of the break "
            "table in each shard, and levels outside it), stance/max stance, energy/max energy, weaknesses; 2-7 operations: "
            "attacks (1-3 targets incl. repeated, dead and unknown ones; all attack and damage types incl. invalid ones; 0-4 "
            "formula terms; flat damage; pure flag; hit ratio incl. 0 and negative; 0-3 HitStart listener adjustments of either "
            "snapshot / formula map / flat damage / map replacement), EndAttack, shields (strength aimed at the total of the next "
            "hit: equal, one ulp either side, half, double; several shields; same key replaced), direct HP changes; the crit draw "
            "is scripted (multiples of 2^-53 from a small pool, crit chances equal to / one ulp either side of the draws); half of "
            "the property values come from a boundary pool (every literal of damage.go/hit.go/heal.go and the clamp bounds with "
            "their two binary64 neighbours, zero, negatives); all randomness from one splitmix64 state; a case is non-trivial when "
            "distinct as an input term",
    "trusted": [
        "TRANSLATED from the Go source on every run and proved equal to the model for every NumOps instance and "
        "every argument (Gen/FormulasInfo.v, Gen/FormulasAttr.v, Gen/Formulas.v; Proofs/Formulas*Proofs.v; "
        "theorems C04_model_formulas_are_the_source, C04_perform_hit_is_the_source): damage.go baseDamage (per-key "
        "switch; the summation loop is checked to have the shape for k in slices.Sorted(maps.Keys(m)) { v := m[k]; "
        "switch k {case K: acc += v * e} } and mapped to the model's fold over sorted keys), bonusDamage, defMult, "
        "res, vul, toughness, damageReduce, crit (eligibility and draw < CritChance), critDmg; hit.go performHit: "
        "base, fatigue, the eight factors and their left-to-right product, the HP / stance / energy amounts and "
        "the IsWeakTo guard, newHit's hit-ratio default; stats.go statCalc, GetProperty, ID, Level, "
        "CurrentHPRatio, Stance, MaxHP, HP, ATK, DEF, CurrentHP, CritChance, CritDamage, HealBoost, EnergyRegen, "
        "BreakEffect, DamagePercent, DamageRES; map.go PropMap.Modify; prop.go "
        "DamagePercent/DamageRES/DamagePEN/DamageTaken with their four tables; model.AttackType.IsQualified; "
        "attribute AddTarget (energy cap, HP ratio default), ModifyHPByAmount (new HP, ratio, clamp), SetStance "
        "clamp, ModifyStance amount (reads the SOURCE's stats), SetEnergy clamp, ModifyEnergy amount (reads the "
        "TARGET's stats); shield AbsorbDamage's loop body and initial values; tables/constants: BreakBaseDamage "
        "(every row bit for bit), every prop.Property code, DamageType / AttackType / DamageFormula / TargetState "
        "values",
        "still HAND-WRITTEN (correspondence only): Attack / EndAttack, the order of effects in performHit and the "
        "routing of the energy to attacker or defender, emitHPChangeEvents (death is final, limbo), the removal of "
        "exhausted shields, the event records",
        "translator (harness/cmd/go2coq formulas.go, formulas_specs.go): trusted are the Go front end "
        "(go/packages, go/types, go/constant), the fixed whitelist and accessor tables (which Go field / method is "
        "which model accessor), the statement translation listed at the top of formulas.go, and that lit N n d "
        "(the correctly rounded quotient of two integers below 2^53) is the binary64 the Go compiler stores for "
        "the literal n/d; the translator fails closed (unknown construct, added or missing assignment, changed "
        "signature: go2coq exits 1 and the check reports a broken translator obligation)",
        "for functions that mix effects and arithmetic only the whitelisted statements are translated (the "
        "statements of one block that assign the named variables, their number fixed; every other assignment to "
        "those variables or to the inputs must be whitelisted verbatim): the ORDER of effects around the "
        "arithmetic (event emissions, service calls, which unit receives the energy) stays hand-written and is "
        "tied by correspondence only",
        "the Go map of formula terms is traversed in the model in ascending key order: the generator keeps at most two float "
        "addends after the initial 0 (order independent in binary64), or, in the 'dyadic' third of the cases, up to four terms "
        "whose partial sums are all exact; over the reals the sum is proved order independent (baseDamage_perm)",
        "clauses (d)-(f) of C04_statement are about the same Gallina definitions instantiated at the real numbers (RNum): IEEE "
        "rounding between the two instances is not covered by a theorem, the binary64 instance is compared bit for bit",
        "math/rand: Float64 = float64(Int63())/2^63 of a scripted Source; the property needs only which draw is used and how many",
        "the modifier evaluation (property vector of a unit) and engine.Target.IsCharacter are harness fakes; the attribute "
        "service, the shield manager, the event system and the combat manager are the real ones; the break table is transcribed "
        "into Model/Hit.v (every row is exercised in each shard)",
        "the toughness-damage bonus and the energy regeneration are read by the attribute service from the CURRENT stats of "
        "the attacker / receiver, not from the hit's (listener-adjustable) snapshot; the model says so",
    ],
    "assumptions": [
        "stat vectors are finite binary64 values; HitStart listeners adjust the hit through Stats.AddProperty, the formula "
        "map and the flat damage (they do not start further attacks from inside the listener)",
    ],
    "manifest": {
        "level_text": "Translator tie (way 1): the leaf formulas, clamps, comparisons, parties and tables of damage.go / hit.go / stats.go / map.go / prop.go / break.gen.go and the attribute and shield arithmetic a hit uses are regenerated from the Go source on every run (go2coq Formulas*) and proved EQUAL to the model definitions for all inputs; "
                      "Kernel-checked theorems over an executable Gallina model of damage.go, performHit/newHit, Attack/EndAttack, "
                      "the attribute service's HP/stance/energy updates and shield absorption (party and crit clauses at every "
                      "arithmetic instance, clamps at the binary64 level, factor formulas / products / splits at the real "
                      "instance), tied to the Go code by exact bit-for-bit trace correspondence and an independent monitor.",
        "level_note": "go2coq Formulas* translator + kernel-checked equalities generated = model; "
                      "Coq kernel; hand-written model Model/CombatCore.v + Model/Hit.v; correspondence harness against the real "
                      "combat manager, attribute service, shield manager and event system; reals vs binary64 gap named in trusted.",
        "technique": "source-to-Coq translation of the formulas with equality proofs + "
                     "Coq proof (case analysis, lra over the reals, induction over shields and formula terms) + "
                     "model/implementation correspondence + trace monitor",
        "design_ref": "DESIGN.md section 7, C04",
    },
}
