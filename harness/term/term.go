// Package term is the exchange format between the Go harness, the Python orchestrator
// and the Coq case files.  A term is JSON:
//
//	integer            -> Z literal
//	{"n": k}           -> nat literal
//	true/false         -> bool
//	"text"             -> string literal
//	[a, b, ...]        -> list
//	{"c": "Name", "a": [args]} -> constructor / function application
//	{"t": [a, b, ...]} -> tuple
//	{"f": "<bits>"}    -> binary64 given by its bit pattern (decimal string)
package term

import (
	"encoding/json"
	"fmt"
	"math"
	"strconv"
)

type T = any

func C(name string, args ...T) T {
	if args == nil {
		args = []T{}
	}
	return map[string]any{"c": name, "a": args}
}
func L(items ...T) T {
	if items == nil {
		return []T{}
	}
	return items
}
func Tup(items ...T) T { return map[string]any{"t": items} }
func Nat(n int) T      { return map[string]any{"n": int64(n)} }

// F encodes a binary64 by its bit pattern; every NaN is canonicalised to 0x7FF8000000000000 (Coq has a
// single NaN, and the sign / payload of a hardware NaN is not something a property speaks about)
func F(x float64) T {
	if x != x {
		return map[string]any{"f": "9221120237041090560"}
	}
	return map[string]any{"f": strconv.FormatUint(math.Float64bits(x), 10)}
}
func I(n int64) T  { return n }
func B(b bool) T   { return b }
func S(s string) T { return s }
func Some(x T) T   { return C("Some", x) }
func None() T      { return C("None") }

// ---- decoding (after a JSON round trip numbers are json.Number) ----

func Int(t T) int64 {
	switch v := t.(type) {
	case int64:
		return v
	case int:
		return int64(v)
	case json.Number:
		n, err := v.Int64()
		if err != nil {
			panic(err)
		}
		return n
	case float64:
		return int64(v)
	case map[string]any:
		if n, ok := v["n"]; ok {
			return Int(n)
		}
	}
	panic(fmt.Sprintf("term: not an int: %#v", t))
}

func Float(t T) float64 {
	m, ok := t.(map[string]any)
	if !ok {
		panic(fmt.Sprintf("term: not a float: %#v", t))
	}
	s, ok := m["f"].(string)
	if !ok {
		panic(fmt.Sprintf("term: not a float: %#v", t))
	}
	u, err := strconv.ParseUint(s, 10, 64)
	if err != nil {
		panic(err)
	}
	return math.Float64frombits(u)
}

func Bool(t T) bool  { return t.(bool) }
func Str(t T) string { return t.(string) }

func List(t T) []T {
	switch v := t.(type) {
	case []T:
		return v
	case nil:
		return nil
	}
	panic(fmt.Sprintf("term: not a list: %#v", t))
}

func TupleItems(t T) []T {
	m := t.(map[string]any)
	return List(m["t"])
}

// Ctor returns the constructor name and its arguments.
func Ctor(t T) (string, []T) {
	m, ok := t.(map[string]any)
	if !ok {
		panic(fmt.Sprintf("term: not a constructor: %#v", t))
	}
	return m["c"].(string), List(m["a"])
}

// Decode parses JSON keeping integers exact.
func Decode(data []byte) (T, error) {
	dec := json.NewDecoder(bytesReader(data))
	dec.UseNumber()
	var v any
	if err := dec.Decode(&v); err != nil {
		return nil, err
	}
	return v, nil
}
