(* Float-level facts used by the C07 proofs: comparisons of non-NaN binary64 values form a
   total preorder, clamps land in their interval, and + * / of finite values never produce a
   NaN.  Built on Flocq.IEEE754.PrimFloat (primitive floats <-> binary_float 53 1024). *)
From Coq Require Import ZArith Bool Reals Lia Lra.
From Flocq Require Import Core IEEE754.BinarySingleNaN IEEE754.PrimFloat.
From Coq Require Import Floats.

Local Existing Instance Hprec.
Local Existing Instance Hmax.
Local Notation B := (binary_float prec emax).
Local Notation Bnan := (@BinarySingleNaN.is_nan prec emax).
Local Notation Bfin := (@BinarySingleNaN.is_finite prec emax).

Definition nn (x : float) : Prop := PrimFloat.is_nan x = false.
Definition finite (x : float) : Prop := PrimFloat.is_finite x = true.

Lemma Prim2B_zero : Prim2B 0%float = B754_zero false.
Proof. change 0%float with zero. rewrite zero_equiv. apply Prim2B_B2Prim. Qed.

Lemma nn_zero : nn 0%float.
Proof. reflexivity. Qed.
Lemma nn_one : nn 1%float.
Proof. reflexivity. Qed.
Lemma finite_zero : finite 0%float.
Proof. reflexivity. Qed.
Lemma finite_one : finite 1%float.
Proof. reflexivity. Qed.
Lemma leb_zero_one : leb 0%float 1%float = true.
Proof. reflexivity. Qed.
Lemma leb_zero_zero : leb 0%float 0%float = true.
Proof. reflexivity. Qed.
Lemma ltb_zero_one : ltb 0%float 1%float = true.
Proof. reflexivity. Qed.

Lemma finite_nn x : finite x -> nn x.
Proof.
  unfold finite, nn, PrimFloat.is_finite. intros H.
  apply negb_true_iff in H. apply orb_false_iff in H. tauto.
Qed.

(* ---- comparisons on binary_float ---- *)

Lemma Bcompare_some (x y : B) :
  Bnan x = false -> Bnan y = false -> exists c, Bcompare x y = Some c.
Proof.
  destruct x as [sx|[]| |[] mx ex Hx]; destruct y as [sy|[]| |[] my ey Hy];
    cbn; intros; try discriminate; eexists; reflexivity.
Qed.

Lemma Bltb_false_Bleb (x y : B) :
  Bnan x = false -> Bnan y = false -> Bltb x y = false -> Bleb y x = true.
Proof.
  intros Nx Ny.
  unfold Bltb, Bleb, SFltb, SFleb.
  change (SFcompare (B2SF x) (B2SF y)) with (Bcompare x y).
  change (SFcompare (B2SF y) (B2SF x)) with (Bcompare y x).
  rewrite (Bcompare_swap _ _ x y).
  destruct (Bcompare_some x y Nx Ny) as [c ->].
  destruct c; cbn; congruence.
Qed.

Lemma Bleb_nn (x y : B) : Bleb x y = true -> Bnan x = false /\ Bnan y = false.
Proof.
  destruct x as [sx|[]| |[] mx ex Hx]; destruct y as [sy|[]| |[] my ey Hy];
    cbn; intros; try discriminate; auto.
Qed.

Lemma Bltb_nn (x y : B) : Bltb x y = true -> Bnan x = false /\ Bnan y = false.
Proof.
  destruct x as [sx|[]| |[] mx ex Hx]; destruct y as [sy|[]| |[] my ey Hy];
    cbn; intros; try discriminate; auto.
Qed.

(* ---- the same on primitive floats ---- *)

Lemma ltb_false_leb x y : nn x -> nn y -> ltb x y = false -> leb y x = true.
Proof.
  unfold nn. rewrite !is_nan_equiv, ltb_equiv, leb_equiv. apply Bltb_false_Bleb.
Qed.

Lemma leb_nn x y : leb x y = true -> nn x /\ nn y.
Proof. unfold nn. rewrite !is_nan_equiv, leb_equiv. apply Bleb_nn. Qed.

Lemma ltb_nn x y : ltb x y = true -> nn x /\ nn y.
Proof. unfold nn. rewrite !is_nan_equiv, ltb_equiv. apply Bltb_nn. Qed.


Lemma Bleb_false_Bleb (x y : B) :
  Bnan x = false -> Bnan y = false -> Bleb x y = false -> Bleb y x = true.
Proof.
  intros Nx Ny.
  unfold Bleb, SFleb.
  change (SFcompare (B2SF x) (B2SF y)) with (Bcompare x y).
  change (SFcompare (B2SF y) (B2SF x)) with (Bcompare y x).
  rewrite (Bcompare_swap _ _ x y).
  destruct (Bcompare_some x y Nx Ny) as [c ->].
  destruct c; cbn; congruence.
Qed.

Lemma leb_false_leb x y : nn x -> nn y -> leb x y = false -> leb y x = true.
Proof.
  unfold nn. rewrite !is_nan_equiv, !leb_equiv. apply Bleb_false_Bleb.
Qed.

Lemma eqb_refl x : nn x -> eqb x x = true.
Proof.
  unfold nn. rewrite is_nan_equiv, eqb_equiv, Beqb_refl. intros ->. reflexivity.
Qed.

Lemma leb_refl x : nn x -> leb x x = true.
Proof.
  unfold nn. rewrite is_nan_equiv, leb_equiv. intros N.
  unfold Bleb, SFleb. change (SFcompare (B2SF (Prim2B x)) (B2SF (Prim2B x))) with (Bcompare (Prim2B x) (Prim2B x)).
  generalize (Beqb_refl _ _ (Prim2B x)). rewrite N. unfold Beqb, SFeqb.
  change (SFcompare (B2SF (Prim2B x)) (B2SF (Prim2B x))) with (Bcompare (Prim2B x) (Prim2B x)).
  destruct (Bcompare (Prim2B x) (Prim2B x)) as [[]|]; cbn; congruence.
Qed.

(* 0 <= x <= m with m finite: x is finite *)
Lemma finite_of_range x m : leb 0%float x = true -> leb x m = true -> finite m -> finite x.
Proof.
  unfold finite. rewrite !is_finite_equiv, !leb_equiv, Prim2B_zero.
  destruct (Prim2B x) as [sx|[]| |[] mx ex Hx]; destruct (Prim2B m) as [sy|[]| |[] my ey Hy];
    cbn; intros; try discriminate; auto.
Qed.

(* 0 <= x and x != 0: 0 < x *)
Lemma pos_of_nonneg_nonzero x : leb 0%float x = true -> eqb x 0%float = false -> ltb 0%float x = true.
Proof.
  rewrite leb_equiv, eqb_equiv, ltb_equiv, Prim2B_zero.
  destruct (Prim2B x) as [sx|[]| |[] mx ex Hx]; cbn; intros; try discriminate; auto.
Qed.

(* x == 0 (either 0%float): not 0 < x *)
Lemma eqb_zero_not_pos x : eqb x 0%float = true -> ltb 0%float x = false.
Proof.
  rewrite eqb_equiv, ltb_equiv, Prim2B_zero.
  destruct (Prim2B x) as [sx|[]| |[] mx ex Hx]; cbn; intros; try discriminate; auto.
Qed.

(* == on finite values is transitive *)
Lemma eqb_trans x y z :
  finite x -> finite y -> finite z -> eqb x y = true -> eqb y z = true -> eqb x z = true.
Proof.
  unfold finite. rewrite !is_finite_equiv, !eqb_equiv. intros Fx Fy Fz.
  rewrite (Beqb_correct _ _ _ _ Fx Fy), (Beqb_correct _ _ _ _ Fy Fz), (Beqb_correct _ _ _ _ Fx Fz).
  intros H1 H2.
  apply Req_bool_true.
  destruct (Req_bool_spec (B2R (Prim2B x)) (B2R (Prim2B y))); [|discriminate].
  destruct (Req_bool_spec (B2R (Prim2B y)) (B2R (Prim2B z))); [|discriminate].
  congruence.
Qed.


(* <= on finite values is transitive *)
Lemma leb_trans x y z :
  finite x -> finite y -> finite z -> leb x y = true -> leb y z = true -> leb x z = true.
Proof.
  unfold finite. rewrite !is_finite_equiv, !leb_equiv. intros Fx Fy Fz.
  rewrite (Bleb_correct _ _ _ _ Fx Fy), (Bleb_correct _ _ _ _ Fy Fz), (Bleb_correct _ _ _ _ Fx Fz).
  intros H1 H2.
  destruct (Rle_bool_spec (B2R (Prim2B x)) (B2R (Prim2B y))); [|discriminate].
  destruct (Rle_bool_spec (B2R (Prim2B y)) (B2R (Prim2B z))); [|discriminate].
  apply Rle_bool_true. lra.
Qed.

(* x == y with x finite: y is finite *)
Lemma eqb_finite x y : eqb x y = true -> finite x -> finite y.
Proof.
  unfold finite. rewrite !is_finite_equiv, eqb_equiv.
  destruct (Prim2B x) as [sx|[]| |[] mx ex Hx]; destruct (Prim2B y) as [sy|[]| |[] my ey Hy];
    cbn; intros; try discriminate; auto.
Qed.

Lemma eqb_sym x y : eqb x y = eqb y x.
Proof.
  rewrite !eqb_equiv. unfold Beqb, SFeqb.
  change (SFcompare (B2SF (Prim2B x)) (B2SF (Prim2B y))) with (Bcompare (Prim2B x) (Prim2B y)).
  change (SFcompare (B2SF (Prim2B y)) (B2SF (Prim2B x))) with (Bcompare (Prim2B y) (Prim2B x)).
  rewrite (Bcompare_swap _ _ (Prim2B x) (Prim2B y)).
  destruct (Bcompare (Prim2B x) (Prim2B y)) as [[]|]; reflexivity.
Qed.

(* ---- arithmetic never produces a NaN from finite operands ---- *)

Lemma B_finite_nn (z : B) : Bfin z = true -> Bnan z = false.
Proof. destruct z; cbn; congruence. Qed.

Lemma B_overflow_nn (z : B) s : B2SF z = binary_overflow prec emax mode_NE s -> Bnan z = false.
Proof. destruct z; cbn; intros; try discriminate; auto. Qed.

Lemma mul_finite_nn x y : finite x -> finite y -> nn (x * y).
Proof.
  unfold finite, nn. rewrite !is_finite_equiv, is_nan_equiv, mul_equiv. intros Fx Fy.
  generalize (Bmult_correct prec emax Hprec Hmax mode_NE (Prim2B x) (Prim2B y)).
  destruct Rlt_bool.
  - intros (_ & F & _). rewrite Fx, Fy in F. apply B_finite_nn, F.
  - apply B_overflow_nn.
Qed.

Lemma Bplus_finite_nn (x y : B) : Bfin x = true -> Bnan y = false -> Bnan (Bplus mode_NE x y) = false.
Proof.
  intros Fx Ny.
  destruct (Bfin y) eqn:Fy.
  - generalize (Bplus_correct prec emax Hprec Hmax mode_NE x y Fx Fy).
    destruct Rlt_bool.
    + intros (_ & F & _). apply B_finite_nn, F.
    + intros (O & _). eapply B_overflow_nn, O.
  - destruct x as [sx|[]| |[] mx ex Hx]; destruct y as [sy|[]| |[] my ey Hy];
      cbn in *; try discriminate; auto.
Qed.

Lemma Bplus_nn_finite (x y : B) : Bnan x = false -> Bfin y = true -> Bnan (Bplus mode_NE x y) = false.
Proof.
  intros Nx Fy.
  destruct (Bfin x) eqn:Fx.
  - apply Bplus_finite_nn; auto. apply B_finite_nn, Fy.
  - destruct x as [sx|[]| |[] mx ex Hx]; destruct y as [sy|[]| |[] my ey Hy];
      cbn in *; try discriminate; auto.
Qed.

Lemma add_finite_nn x y : finite x -> nn y -> nn (x + y).
Proof.
  unfold finite, nn. rewrite is_finite_equiv, !is_nan_equiv, add_equiv. apply Bplus_finite_nn.
Qed.

Lemma add_nn_finite x y : nn x -> finite y -> nn (x + y).
Proof.
  unfold finite, nn. rewrite is_finite_equiv, !is_nan_equiv, add_equiv. apply Bplus_nn_finite.
Qed.

Lemma div_nn_finite_pos x y : nn x -> finite y -> ltb 0%float y = true -> nn (x / y).
Proof.
  unfold finite, nn. rewrite is_finite_equiv, !is_nan_equiv, div_equiv, ltb_equiv, Prim2B_zero.
  intros Nx Fy Py.
  destruct (Prim2B y) as [sy|[]| |sy my ey Hy] eqn:Ey; cbn in Fy, Py; try discriminate.
  destruct (Prim2B x) as [sx|sx| |sx mx ex Hx] eqn:Ex; cbn in Nx; try discriminate; try reflexivity.
  assert (NZ : B2R (B754_finite sy my ey Hy) <> 0%R).
  { cbn. apply F2R_neq_0. cbn. destruct sy; cbn; lia. }
  generalize (Bdiv_correct prec emax Hprec Hmax mode_NE (B754_finite sx mx ex Hx) (B754_finite sy my ey Hy) NZ).
  destruct Rlt_bool.
  - intros (_ & F & _). apply B_finite_nn. rewrite F. reflexivity.
  - apply B_overflow_nn.
Qed.

(* ---- 1 + x does not overflow: the largest binary64 value plus one rounds back to it ---- *)
Local Notation fexp := (SpecFloat.fexp prec emax).

Definition max64 : B := @B754_finite prec emax false 9007199254740991%positive 971 eq_refl.
Definition Rmax64 : R := B2R max64.

Lemma Rmax64_val : Rmax64 = (bpow radix2 emax - bpow radix2 (emax - prec))%R.
Proof.
  unfold Rmax64, max64, B2R, F2R; cbn [Fnum Fexp cond_Zopp].
  change (emax - prec)%Z with 971%Z. change emax with (53 + 971)%Z.
  rewrite bpow_plus. change (bpow radix2 53) with (IZR (2^53)).
  change (Z.pos 9007199254740991) with (2^53 - 1)%Z. rewrite minus_IZR. ring.
Qed.

Lemma Rmax64_pos : (0 < Rmax64)%R.
Proof. unfold Rmax64, max64, B2R. apply F2R_gt_0. reflexivity. Qed.

Lemma ulp_Rmax64 : Ulp.ulp radix2 fexp Rmax64 = bpow radix2 971.
Proof.
  unfold Rmax64, max64, B2R. cbn [cond_Zopp].
  rewrite ulp_canonical; [reflexivity | discriminate |].
  apply (canonical_bounded prec emax false 9007199254740991%positive 971). reflexivity.
Qed.

Lemma round_Rmax64_plus1 : (round radix2 fexp ZnearestE (Rmax64 + 1) <= Rmax64)%R.
Proof.
  apply round_N_le_midp.
  - apply fexp_correct, Hprec.
  - apply generic_format_B2R.
  - rewrite succ_eq_pos by (apply Rlt_le, Rmax64_pos). rewrite ulp_Rmax64.
    assert (2 < bpow radix2 971)%R.
    { change 2%R with (bpow radix2 1). apply bpow_lt. lia. }
    lra.
Qed.

Lemma Bplus_one_finite (y : B) : Bfin y = true -> Bfin (Bplus mode_NE Bone y) = true.
Proof.
  intros Fy.
  assert (F1 : Bfin (@Bone prec emax _ _) = true) by reflexivity.
  generalize (Bplus_correct prec emax Hprec Hmax mode_NE Bone y F1 Fy).
  rewrite Rlt_bool_true; [intros (_ & F & _); exact F|].
  cbn [round_mode]. rewrite <- round_NE_abs; [|typeclasses eauto].
  apply Rle_lt_trans with Rmax64; [|rewrite Rmax64_val; assert (0 < bpow radix2 (emax - prec))%R by apply bpow_gt_0; lra].
  apply Rle_trans with (round radix2 fexp ZnearestE (Rmax64 + 1)); [|apply round_Rmax64_plus1].
  apply round_le; [typeclasses eauto | typeclasses eauto |].
  rewrite Bone_correct.
  pose proof (abs_B2R_le_emax_minus_prec prec emax Hprec y) as Hy. rewrite <- Rmax64_val in Hy.
  pose proof (Rabs_triang 1 (B2R y)) as T. rewrite Rabs_R1 in T. lra.
Qed.

Lemma Prim2B_one : Prim2B 1%float = Bone.
Proof. change 1%float with one. rewrite one_equiv. apply Prim2B_B2Prim. Qed.

Lemma add_one_finite x : finite x -> finite (1 + x).
Proof.
  unfold finite. rewrite !is_finite_equiv, add_equiv, Prim2B_one. apply Bplus_one_finite.
Qed.

(* ---- the clamp of the attribute service:  if x > hi {hi} else if x < 0 {0} else x ---- *)
Definition fclamp (hi x : float) : float :=
  if ltb hi x then hi else if ltb x 0%float then 0%float else x.

Lemma fclamp_range hi x :
  nn x -> leb 0%float hi = true ->
  leb 0%float (fclamp hi x) = true /\ leb (fclamp hi x) hi = true.
Proof.
  intros Nx Hhi. destruct (leb_nn _ _ Hhi) as [_ Nhi].
  unfold fclamp.
  destruct (ltb hi x) eqn:H1.
  - split; [exact Hhi | apply leb_refl, Nhi].
  - destruct (ltb x 0%float) eqn:H2.
    + split; [apply leb_zero_zero | exact Hhi].
    + split.
      * apply ltb_false_leb; auto. apply nn_zero.
      * apply ltb_false_leb; auto.
Qed.

(* ---- == is transitive on all binary64 values (a NaN is == to nothing) ---- *)
Lemma Beqb_finite_inv (x y : B) : Beqb x y = true -> Bfin x = true -> Bfin y = true.
Proof.
  destruct x as [sx|[]| |[] mx ex Hx]; destruct y as [sy|[]| |[] my ey Hy];
    cbn; intros; try discriminate; auto.
Qed.

Lemma Beqb_trans_any (x y z : B) : Beqb x y = true -> Beqb y z = true -> Beqb x z = true.
Proof.
  destruct (Bfin x) eqn:Fx.
  - intros H1 H2.
    pose proof (Beqb_finite_inv _ _ H1 Fx) as Fy.
    pose proof (Beqb_finite_inv _ _ H2 Fy) as Fz.
    revert H1 H2.
    rewrite (Beqb_correct _ _ _ _ Fx Fy), (Beqb_correct _ _ _ _ Fy Fz), (Beqb_correct _ _ _ _ Fx Fz).
    intros H1 H2. apply Req_bool_true.
    destruct (Req_bool_spec (B2R x) (B2R y)); [|discriminate].
    destruct (Req_bool_spec (B2R y) (B2R z)); [|discriminate].
    congruence.
  - destruct x as [sx|[]| |[] mx ex Hx]; cbn in Fx; try discriminate;
      destruct y as [sy|[]| |[] my ey Hy]; cbn; intros H1; try discriminate;
      destruct z as [sz|[]| |[] mz ez Hz]; cbn; intros H2; try discriminate; reflexivity.
Qed.

Lemma eqb_trans_any x y z : eqb x y = true -> eqb y z = true -> eqb x z = true.
Proof. rewrite !eqb_equiv. apply Beqb_trans_any. Qed.

Lemma eqb_true_nn x y : eqb x y = true -> nn x /\ nn y.
Proof.
  unfold nn. rewrite !is_nan_equiv, eqb_equiv.
  destruct (Prim2B x) as [sx|[]| |[] mx ex Hx]; destruct (Prim2B y) as [sy|[]| |[] my ey Hy];
    cbn; intros; try discriminate; auto.
Qed.
