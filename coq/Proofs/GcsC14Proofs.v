(* C14, end to end for the proved fragment: if lexing a source yields the canonical tokens of a
   flat program of simple statements (expression statements, let, assignment, return,
   break/continue/fallthrough, over the expression fragment: literals, identifiers, unary and
   binary operators of every precedence level, calls, parentheses), then
   parse.New(src).Parse() - the lazy, producer-driven model [parse_input] - returns exactly
   that program. *)
From Coq Require Import List ZArith Bool String Ascii Lia Floats.
From SR Require Import Base.CaseLib Model.GcsAst Model.GcsUnicode Model.GcsLex Model.GcsNum
  Model.GcsParse Model.GcsSpec Proofs.GcsLexProofs Proofs.GcsParseProofs Proofs.GcsRoundTrip
  Proofs.GcsBridge Proofs.GcsStmtRoundTrip Proofs.GcsStmtSize.
Import ListNotations.
Open Scope Z_scope.

Lemma nsize_le_tokens : forall x, simple_stmt x ->
  (nsize x + 1 <= List.length (unparse_node x))%nat.
Proof.
  intros x Hs. destruct x as [e|st]; cbn [simple_stmt nsize] in *.
  - cbn [unparse_node]. rewrite (efrag_not_fn e Hs). rewrite app_length. cbn [List.length].
    pose proof (esize_le_tokens (esize e) e ltac:(lia) Hs). lia.
  - destruct st; try contradiction; cbn [unparse_node unparse_stmt nsize].
    + destruct Hs as [_ Hf]. cbn [List.length]. rewrite app_length. cbn [List.length].
      pose proof (esize_le_tokens (esize v) v ltac:(lia) Hf). lia.
    + destruct Hs as [_ Hf]. cbn [List.length]. rewrite app_length. cbn [List.length].
      pose proof (esize_le_tokens (esize v) v ltac:(lia) Hf). lia.
    + cbn [List.length]. rewrite app_length. cbn [List.length].
      pose proof (esize_le_tokens (esize v) v ltac:(lia) Hs). lia.
    + destruct t; try contradiction; cbn; lia.
Qed.

Lemma nodes_le_tokens : forall nodes, Forall simple_stmt nodes ->
  (list_sum (map nsize nodes) + List.length nodes <= List.length (flat_map unparse_node nodes))%nat.
Proof.
  induction nodes as [|x r IH]; intros H; [cbn; lia|].
  inversion H as [|x' r' Hx Hr]; subst. cbn [map list_sum fold_right List.length flat_map].
  fold (list_sum (map nsize r)). rewrite app_length.
  pose proof (nsize_le_tokens x Hx). specialize (IH Hr). lia.
Qed.

Lemma Umatches_length : forall us ts, Umatches us ts -> List.length us = List.length ts.
Proof. intros us ts H. induction H; cbn [List.length]; congruence. Qed.

(* ---- the statement ---- *)
Definition flat_program (nodes : list node) : Prop := Forall simple_stmt nodes.

(* the lexed stream of the source is the canonical token sequence of the program, then EOF *)
Definition lexes_to (bs : list Z) (nodes : list node) : Prop :=
  exists ts teof, lex_all (mk_input bs) = Ok (ts ++ [teof]) /\
    Umatches (flat_map unparse_node nodes) ts /\ lt_typ teof = ItemEOF.

Definition C14_partial_statement : Prop :=
  forall bs nodes, flat_program nodes -> lexes_to bs nodes ->
    r_out (parse_bytes bs) = OProgram (Block nodes).

Theorem C14_partial_holds : C14_partial_statement.
Proof.
  intros bs nodes Hflat (ts & teof & Hlex & Hm & Heof).
  unfold parse_bytes. set (inp := mk_input bs).
  pose proof (mk_input_len bs) as Hlen. pose proof (mk_input_range bs) as Hrange. fold inp in Hlen, Hrange.
  (* the token list is a chain of receives from the initial producer *)
  unfold lex_all in Hlex. fold inp in Hlex.
  destruct (drain_chain inp Hlen Hrange _ _ _ _ (Reach0 inp Hlen) Hlex) as (ext & p' & Eext & Ch & Len).
  cbn [rev app] in Eext. subst ext. rewrite (tokpot0 inp) in Len.
  pose proof (Pre_prefetch inp producer0 (ts ++ [teof]) p' [] Ch) as HPre.
  (* the lazy parse and the parse with everything prefetched agree *)
  pose proof (q_rows inp _ (bridge_all inp (parse_fuel inp)) [] _ _ HPre) as Hrel.
  (* the prefetched parse returns the program *)
  assert (Hfuel : (4 * list_sum (map nsize nodes) + 17 + List.length nodes <= parse_fuel inp)%nat).
  { pose proof (nodes_le_tokens nodes Hflat) as Hnt.
    assert (Hl : List.length (flat_map unparse_node nodes) = List.length ts) by (apply Umatches_length; exact Hm).
    rewrite app_length in Len. cbn [List.length] in Len.
    unfold parse_fuel. lia. }
  pose proof (rows_ok inp nodes [] (parse_fuel inp) ts teof [] p' [] Hflat Hm Heof Hfuel) as Hrows.
  cbn [app] in Hrows. unfold pstate0 in *. rewrite Hrows in Hrel.
  (* the lazy parse also ends in a reachable producer state, so the deferred drain succeeds *)
  pose proof (a_rows inp _ (parser_all inp Hlen Hrange (parse_fuel inp)) [] (mkP producer0 [] [])
                (Rp0 inp Hlen)) as Hok.
  assert (N : need inp 7 (mkP producer0 [] []) (parse_fuel inp)).
  { unfold need, A, parse_fuel. pose proof (T0 inp) as HT0. unfold pstate0 in HT0. rewrite HT0.
    rewrite Z2Nat.id by lia. lia. }
  specialize (Hok N).
  unfold parse_input, pstate0.
  destruct (p_rows inp (parse_fuel inp) [] (mkP producer0 [] [])) as [b ps|ps| |];
    cbn [relR okP] in *; try contradiction.
  destruct Hrel as [-> _]. destruct Hok as [R _].
  apply (finish_closed inp Hlen Hrange (OProgram (Block nodes)) ps R). split; discriminate.
Qed.

(* ---- the expression fragment alone, on any parser state whose look-ahead holds the tokens ---- *)
Definition C14_expression_statement : Prop :=
  forall inp e pre n ts rest p c,
    efrag e = true -> 1 <= pre <= 8 ->
    (is_infix_node e = true -> pre < level e) ->
    Umatches (unparse_expr e) ts ->
    stop pre rest ->
    (4 * esize e + 8 <= n)%nat ->
    p_expr inp n pre (mkP p (ts ++ rest) c) = ROk e (mkP p rest (rev ts ++ c)).
Theorem C14_expression_holds : C14_expression_statement.
Proof. intros inp e. apply (main_all inp (esize e)). lia. Qed.

(* ---- non-vacuity: a concrete source satisfies the hypotheses ---- *)
Definition demo14_src : list Z :=
  string_bytes "let x = - a * ( b + 2 ) < f ( d , e ) || ! g ; # layout
 x - 1 - y ;  return x ; break ;".
Definition T14 (k : toktype) (v : string) : token := Tok k v.
Definition demo14_nodes : list node :=
  [ NStmt (SLet (T14 ItemIdentifier "x")
      (EBinary
         (EBinary
            (EBinary (EUnary (T14 ItemMinus "-") (EIdent "a"))
                     (EBinary (EIdent "b") (ENum 2 2%float false) (T14 ItemPlus "+"))
                     (T14 ItemAsterisk "*"))
            (ECall (EIdent "f") [EIdent "d"; EIdent "e"])
            (T14 OpLessThan "<"))
         (EUnary (T14 LogicNot "!") (EIdent "g"))
         (T14 LogicOr "||")));
    NExpr (EBinary (EBinary (EIdent "x") (ENum 1 1%float false) (T14 ItemMinus "-")) (EIdent "y") (T14 ItemMinus "-"));
    NStmt (SReturn (EIdent "x"));
    NStmt (SCtrl CtrlBreak) ].

Lemma demo14_flat : flat_program demo14_nodes.
Proof. unfold flat_program, demo14_nodes. repeat apply Forall_cons; try apply Forall_nil; cbn [simple_stmt]; try (split; reflexivity); try reflexivity; discriminate. Qed.

Lemma demo14_lexes : lexes_to demo14_src demo14_nodes.
Proof.
  unfold lexes_to.
  assert (E : exists L, lex_all (mk_input demo14_src) = Ok L) by (apply lex_never_panics).
  destruct (lex_all (mk_input demo14_src)) as [L| |] eqn:EL; [|destruct E; discriminate|destruct E; discriminate].
  vm_compute in EL. inversion EL as [EL']. clear EL E.
  match type of EL' with ?l = L =>
    exists (removelast l), (last l zero_tok) end.
  split; [subst L; reflexivity|]. split; [|reflexivity].
  cbn [removelast]. unfold demo14_nodes, T14.
  cbn [flat_map unparse_node unparse_stmt unparse_expr starts_fn level paren_if tok_prec t_typ utok_of
       t_val app sep_by map Z.ltb Z.sub Z.compare Pos.compare Pos.compare_cont ctrl_tok].
  unfold Umatches.
  repeat (first [ apply Forall2_nil | apply Forall2_cons ]);
    try (split; reflexivity); try (left; split; reflexivity).
Qed.

Theorem demo14_parses : r_out (parse_bytes demo14_src) = OProgram (Block demo14_nodes).
Proof. apply C14_partial_holds; [apply demo14_flat|apply demo14_lexes]. Qed.

(* ---- every statement form (over the expression fragment) ---- *)
Definition wf_program (nodes : list node) : Prop := all_nodes nodes.

(* If lexing the source gives the canonical token sequence of a program built from expression
   statements, let, assignment, return, break/continue/fallthrough, blocks, if/else chains,
   while, for (with optional init, condition and post), switch (optional subject, cases,
   default) and function declarations, whose expressions are in the expression fragment, then
   parse.New(src).Parse() returns exactly that program. *)
Definition C14_statements_statement : Prop :=
  forall bs nodes, wf_program nodes -> lexes_to bs nodes ->
    r_out (parse_bytes bs) = OProgram (Block nodes).

Theorem C14_statements_holds : C14_statements_statement.
Proof.
  intros bs nodes Hwf (ts & teof & Hlex & Hm & Heof).
  unfold parse_bytes. set (inp := mk_input bs).
  pose proof (mk_input_len bs) as Hlen. pose proof (mk_input_range bs) as Hrange. fold inp in Hlen, Hrange.
  unfold lex_all in Hlex. fold inp in Hlex.
  destruct (drain_chain inp Hlen Hrange _ _ _ _ (Reach0 inp Hlen) Hlex) as (ext & p' & Eext & Ch & Len).
  cbn [rev app] in Eext. subst ext. rewrite (tokpot0 inp) in Len.
  pose proof (Pre_prefetch inp producer0 (ts ++ [teof]) p' [] Ch) as HPre.
  pose proof (q_rows inp _ (bridge_all inp (parse_fuel inp)) [] _ _ HPre) as Hrel.
  assert (Hfuel : (5 * list_sum (map ndsize nodes) + 22 <= parse_fuel inp)%nat).
  { pose proof (program_tok3 nodes Hwf) as Hnt.
    assert (Hl : List.length (flat_map unparse_node nodes) = List.length ts) by (apply Umatches_length; exact Hm).
    rewrite app_length in Len. cbn [List.length] in Len.
    unfold parse_fuel. lia. }
  pose proof (rows_ok_wf inp nodes [] (parse_fuel inp) ts teof [] p' [] Hwf Hm Heof Hfuel) as Hrows.
  cbn [app] in Hrows. unfold pstate0 in *. rewrite Hrows in Hrel.
  pose proof (a_rows inp _ (parser_all inp Hlen Hrange (parse_fuel inp)) [] (mkP producer0 [] [])
                (Rp0 inp Hlen)) as Hok.
  assert (N : need inp 7 (mkP producer0 [] []) (parse_fuel inp)).
  { unfold need, A, parse_fuel. pose proof (T0 inp) as HT0. unfold pstate0 in HT0. rewrite HT0.
    rewrite Z2Nat.id by lia. lia. }
  specialize (Hok N).
  unfold parse_input, pstate0.
  destruct (p_rows inp (parse_fuel inp) [] (mkP producer0 [] [])) as [b ps|ps| |];
    cbn [relR okP] in *; try contradiction.
  destruct Hrel as [-> _]. destruct Hok as [R _].
  apply (finish_closed inp Hlen Hrange (OProgram (Block nodes)) ps R). split; discriminate.
Qed.

(* ---- non-vacuity with compound statements ---- *)
Definition demo14b_src : list Z :=
  string_bytes "fn f ( a , b ) { return a + b ; }
for let i = 0 ; i < 3 ; i = i + 1 { if i == 1 { continue ; } else if i > 1 { break ; } else { x = f ( i , 2 ) ; } }
while ! done { switch x { case 1 : y = 1 ; fallthrough ; case 2 : default : { } } }
switch { default : } for { }".
Definition I14 (v : string) : token := Tok ItemIdentifier v.
Definition N14 (z : Z) (f : float) : expr := ENum z f false.
Definition demo14b_nodes : list node :=
  [ NStmt (SFn (I14 "f") ["a"%string; "b"%string]
      (Block [NStmt (SReturn (EBinary (EIdent "a") (EIdent "b") (T14 ItemPlus "+")))]));
    NStmt (SFor (SLet (I14 "i") (N14 0 0%float))
                (EBinary (EIdent "i") (N14 3 3%float) (T14 OpLessThan "<"))
                (SAssign (I14 "i") (EBinary (EIdent "i") (N14 1 1%float) (T14 ItemPlus "+")))
      (Block [NStmt (SIf (EBinary (EIdent "i") (N14 1 1%float) (T14 OpEqual "=="))
                 (Block [NStmt (SCtrl CtrlContinue)])
                 (SIf (EBinary (EIdent "i") (N14 1 1%float) (T14 OpGreaterThan ">"))
                    (Block [NStmt (SCtrl CtrlBreak)])
                    (SBlock (Block [NStmt (SAssign (I14 "x")
                        (ECall (EIdent "f") [EIdent "i"; N14 2 2%float]))]))))]));
    NStmt (SWhile (EUnary (T14 LogicNot "!") (EIdent "done"))
      (Block [NStmt (SSwitch (EIdent "x")
                [Case (N14 1 1%float) (Block [NStmt (SAssign (I14 "y") (N14 1 1%float)); NStmt (SCtrl CtrlFallthrough)]);
                 Case (N14 2 2%float) (Block [])]
                (Block [NStmt (SBlock (Block []))]))]));
    NStmt (SSwitch ENil [] (Block []));
    NStmt (SFor SNil ENil SNil (Block [])) ].

Lemma demo14b_wf : wf_program demo14b_nodes.
Proof.
  unfold wf_program, demo14b_nodes, I14, N14, T14.
  cbn [all_nodes wf_node wf_stmt wf_block wf_case simple_init simple_post is_ident_tok t_typ efrag
       is_binop is_unop infix_of forallb andb has_dup existsb orb].
  repeat split; auto; try discriminate; try (right; repeat split; auto; discriminate).
Qed.

Lemma demo14b_lexes : lexes_to demo14b_src demo14b_nodes.
Proof.
  unfold lexes_to.
  assert (E : exists L, lex_all (mk_input demo14b_src) = Ok L) by (apply lex_never_panics).
  destruct (lex_all (mk_input demo14b_src)) as [L| |] eqn:EL; [|destruct E; discriminate|destruct E; discriminate].
  vm_compute in EL. inversion EL as [EL']. clear EL E.
  match type of EL' with ?l = L =>
    exists (removelast l), (last l zero_tok) end.
  split; [subst L; reflexivity|]. split; [|reflexivity].
  cbn [removelast]. unfold demo14b_nodes, I14, N14, T14.
  cbn [flat_map unparse_node unparse_stmt unparse_block unparse_case unparse_expr starts_fn level paren_if
       tok_prec t_typ utok_of uparams uident t_val app sep_by map Z.ltb Z.sub Z.compare Pos.compare
       Pos.compare_cont ctrl_tok].
  unfold Umatches.
  repeat (first [ apply Forall2_nil | apply Forall2_cons ]);
    try (split; reflexivity); try (left; split; reflexivity).
Qed.

Theorem demo14b_parses : r_out (parse_bytes demo14b_src) = OProgram (Block demo14b_nodes).
Proof. apply C14_statements_holds; [apply demo14b_wf|apply demo14b_lexes]. Qed.
