import json, os, subprocess, sys
from concurrent.futures import ThreadPoolExecutor


def long_battles(ctx):
    """Thorough tier only: the sweep again with cycle limits up to 8 (SWEEP_THOROUGH=1) on 40 more
    seeds x 400 cases, one process per seed; outcomes are judged here by the property's own clause
    (a result with Termination last, or for the malformed stream an error; never a panic or a
    watchdog abort)."""
    M = sys.modules["__main__"]
    binp = os.path.join(M.HARNESS, "bin", "corr")
    env = dict(M.ENV, SWEEP_THOROUGH="1")

    def one(k):
        p = subprocess.run([binp, "sweep", "gen", "-seed", str(ctx.seed * 100000 + 5000 + k), "-n", "400"],
                           stdout=subprocess.PIPE, stderr=subprocess.PIPE, env=env, timeout=3000)
        bad = []
        n = 0
        for line in p.stdout.decode().split("\n"):
            if not line.startswith("{"):
                continue
            c = json.loads(line)
            n += 1
            o = c["out"]["a"]
            malformed = c["i"] % 5 == 4
            ok = (o[0] == 1) if malformed else (o[0] == 0 and o[4] == "Termination")
            if not ok:
                bad.append(c)
        return n, bad, p.returncode
    total, bad = 0, []
    with ThreadPoolExecutor(max_workers=8) as ex:
        for n, b, rc in ex.map(one, range(40)):
            total += n
            bad += b
            if rc != 0:
                raise M.Violation("search", "sweep harness failed in the long-battle sweep", "exit status %d" % rc, True)
    ctx.notes.append("long battles (cycle limit <= 8): %d runs, %d rejected" % (total, len(bad)))
    ctx.say("  long battles: %d runs, %d rejected" % (total, len(bad)))
    if bad:
        c = bad[0]
        payload = {"property": ctx.prop, "kind": "search", "component": "sweep", "seed": ctx.seed,
                   "input": c["in"], "impl_output": c["out"],
                   "meaning": "simulation.Run on this configuration panicked, was aborted by the watchdog, or did not "
                              "answer as the property demands", "other_failures": len(bad) - 1,
                   "how_to_replay": "python3 tools/check.py C20 --replay <this file>"}
        raise M.Violation("search", "content sweep (long battles): a run did not complete", payload)


CONFIG = {
    "id": "C20",
    "coq_targets": ["Props/C20.v", "Model/SweepCheck.v", "Model/ApiCheck.v"],
    "prop_files": ["Props/C20.v"],
    # Gen/Globals.v carries the keys registered at init time (the catalogs of the model)
    "gen": ["Globals"],
    "components": [{
        "name": "sweep", "modules": ["Base.GlobalTypes", "Model.RunSpec", "Model.Catalog", "Model.SweepCheck"],
        "check": "check_case", "monitor": "monitor_case", "model_out": "model_out",
        "case_type": "case", "ops_path": None,
        # one shard of 200 cases = 160 valid + 40 malformed: every registered character twice (56), every
        # light cone on a character of its own path (77), every relic set (19), 8 more; one process per
        # shard ON PURPOSE (registrations made at character creation time only fail on the second run
        # with that character in the process)
        "n_quick": 200, "n_thorough": 24000, "shard": 200,
    }, {
        # error-returning engine calls against a finished real simulation, targets inside / outside
        "name": "engineapi", "modules": ["Base.GlobalTypes", "Model.RunSpec", "Model.ApiCheck"],
        "check": "api_check_case", "monitor": "api_monitor_case", "model_out": "api_model_out",
        "case_type": "api_case", "ops_path": [1],
        "n_quick": 100, "n_thorough": 5000, "shard": 100,
    }],
    "thorough": [long_battles],
    "rule": "a case is one real simulation.Run: team of 1-4 distinct registered characters (within a shard of 200 the "
            "case index walks through the catalogs: every character twice, every light cone on a character of its "
            "own path, every relic set; the rest of the build is random), each with level 1-80 and a consistent max level (boundary levels half of the time), eidolon "
            "0-6, all / random / no traces, ability levels 1-9 / 1-15, any registered light cone (own path half of the "
            "time) with level, max level, superimposition 1-5, 0-2 relic sets as 2 or 4 pieces, start energy and HP; "
            "1-5 dummy enemies (level 1-95, HP 1..100000, ATK 1..20000, SPD 40..300, attack NONE/SINGLE/BOUNCE/BLAST/AOE, "
            "1-3 hits, damage type, weaknesses); cycle limit 0-4 (thorough: 0-8); a generated gcs script (default "
            "action, skill and ult callbacks with conditions over the whole condition API, loops, else); a seed. "
            "Every fifth case replaces one name by a key outside the catalog (character / light cone / relic set / "
            "enemy). Watchdog: 200000 events or 10 s. distinct = distinct input term",
    "trusted": ["the content under internal/ (28 characters, 77 light cones, 19 relic sets) is NOT modelled: for it "
                "this check is a search on the implementation, not a proof",
                "the catalog model is instantiated with the keys found at Register call sites in init functions by "
                "go2coq (Gen/Globals.v); the harness enumerates the real catalogs through the verif hook "
                "catalog_verif.go",
                "no bound on the number of turns / events is proved (a turn may advance the clock by zero); the "
                "event-count watchdog of the sweep stands in for it"],
    "assumptions": ["levels, ranks and ability levels are in the ranges the configuration format documents "
                    "(character and light cone levels 1-80, enemy levels 1-95, eidolon 0-6, superimposition 1-5)",
                    "scripts are well formed: every character has a default action and a skill callback, conditions "
                    "that dereference first(enemies()) are guarded by len(enemies()) > 0"],
    "manifest": {
        "category": "proof",
        "level_text": "Kernel-checked theorems about the ENGINE models only: the catalog lookups reject exactly the "
                      "configurations that name an unknown character / light cone / relic set / enemy, and the run-loop "
                      "model (all content scripts, decision sources, fuel) never returns without Termination as its "
                      "last event (else an error or out-of-fuel), checks the exit condition after every turn and stops "
                      "at the cycle limit (partial: no bound on the number of turns is proved). The content packages "
                      "are not modelled: every registered character, light cone and relic set is swept on the real "
                      "simulation.Run in generated builds with panic recovery and an event-count watchdog; that part "
                      "is exploration.",
        "level_note": "Coq kernel (no axioms beyond primitive floats); correspondence of the rejection behaviour incl. "
                      "error text; content sweep is a search, not a proof.",
        "technique": "Coq proof (case analysis over the run-loop model; catalog model) + exhaustive-by-catalog content "
                     "sweep on the implementation",
        "design_ref": "DESIGN.md section 7, C20",
    },
}
