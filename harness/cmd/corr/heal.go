package main

// Component "heal" (property C17): Manager.Heal of the real combat package against
// coq/Model/Heal.v.

import (
	"math"

	"github.com/simimpact/srsim/pkg/engine/info"
	"github.com/simimpact/srsim/pkg/key"
	"github.com/simimpact/srsim/pkg/model"

	"verif/harness/term"
)

func idList(t term.T) []key.TargetID {
	out := []key.TargetID{}
	for _, x := range term.List(t) {
		out = append(out, key.TargetID(term.Int(x)))
	}
	return out
}

func (w *cbWorld) execHealOp(o term.T) {
	name, a := term.Ctor(o)
	switch name {
	case "HHeal": // key source targets terms flat snapf adjs
		bh := info.HealMap{}
		for k, v := range pairsToMap(a[3]) {
			bh[model.HealFormula(k)] = v
		}
		w.adjs = term.List(a[6])
		w.mgr.Heal(info.Heal{
			Key:         key.Heal(keyStr(term.Int(a[0]))),
			Targets:     idList(a[2]),
			Source:      key.TargetID(term.Int(a[1])),
			BaseHeal:    bh,
			HealValue:   fxGet(a[4]),
			UseSnapshot: term.Bool(a[5]),
		})
		w.adjs = nil
	case "HModHP": // key target source amount dmg
		_ = w.attr.ModifyHPByAmount(info.ModifyAttribute{
			Key:    key.Reason(keyStr(term.Int(a[0]))),
			Target: key.TargetID(term.Int(a[1])),
			Source: key.TargetID(term.Int(a[2])),
			Amount: fxGet(a[3]),
		}, term.Bool(a[4]))
	default:
		panic("bad heal op " + name)
	}
}

func healWorld(units, limbo, ops []term.T) *cbWorld {
	w := newCbWorld(units, limbo, nil)
	for _, o := range ops {
		w.execHealOp(o)
		w.unitItems()
	}
	return w
}

func runHeal(in term.T) term.T {
	it := term.TupleItems(in)
	w := healWorld(term.List(it[0]), term.List(it[1]), term.List(it[2]))
	return term.C("Ok", term.L(w.trace...))
}

// ---- generator ----

func propsTerm(ps [][2]float64) term.T {
	out := []term.T{}
	for _, p := range ps {
		out = append(out, term.Tup(term.I(int64(p[0])), fx(p[1])))
	}
	return term.L(out...)
}

var dyadicCoef = []float64{0.5, 0.25, 1, 2, -0.5, 0.125, 1.5, 0}
var dyadicFlat = []float64{0, 10, 100.5, -20, 2048, 0.25}
var plainCoef = []float64{0.5, 0.1, 1, 0.06, 2, -0.25, 1e-3, 0.33, 0}
var plainFlat = []float64{0, 0, 10, 123.456, -20, 5000, 0.3}

// the twelve base-stat properties (HP, ATK, DEF: base, percent, flat, convert)
func genBaseStats(r *term.Rng, dyadic bool) [][2]float64 {
	out := [][2]float64{}
	for g := 0; g < 3; g++ {
		var base, pct, flat, conv float64
		if dyadic {
			base = term.Pick(r, []float64{512, 1000, 2048, 300, 64})
			pct = term.Pick(r, []float64{0, 0.25, 0.5, -0.25, 1})
			flat = term.Pick(r, []float64{0, 16, -8, 100})
			conv = term.Pick(r, []float64{0, 0, 4})
		} else {
			base = term.Pick(r, []float64{1000, 1203.5, 3000, 100, 1, 777.7})
			pct = pickVal(r, []float64{0, 0.1, 0.5, -0.5, 0.432})
			flat = term.Pick(r, []float64{0, 100, -50, 0.3, 352.8})
			conv = term.Pick(r, []float64{0, 0, 10.5})
			if g == 0 && r.Chance(1, 25) {
				base = 0 // max HP 0: the division in ModifyHPByAmount degenerates
			}
			if g == 0 && pct <= -1 && !r.Chance(1, 4) {
				pct = 0.2
			}
		}
		for i, v := range []float64{base, pct, flat, conv} {
			if v != 0 || r.Chance(1, 8) {
				out = append(out, [2]float64{float64(1 + 4*g + i), v})
			}
		}
	}
	return out
}

func genCombatUnit(r *term.Rng, id int, dyadic bool, extra func() [][2]float64) term.T {
	var ratio float64
	if dyadic {
		ratio = term.Pick(r, []float64{1, 0.5, 0.25, 0.75, 0.125, 1})
	} else {
		ratio = term.Pick(r, []float64{1, 1, 0.5, 0.3, 0.999, 0.01, 0, -1, math.Nextafter(1, 0), 1e-9})
		if r.Chance(1, 30) {
			ratio = 1.25 // AddTarget does not clamp an initial ratio above 1
		}
	}
	maxE := term.Pick(r, []float64{0, 100, 120, 140})
	energy := term.Pick(r, []float64{0, 50, 100, 200})
	maxS := term.Pick(r, []float64{0, 30, 60, 90, 120})
	stance := term.Pick(r, []float64{0, 30, 60, 90, 120, 10})
	if stance > maxS {
		stance = maxS
	}
	weak := []term.T{}
	for d := 1; d <= 7; d++ {
		if r.Chance(1, 3) {
			weak = append(weak, term.I(int64(d)))
		}
	}
	ps := genBaseStats(r, dyadic)
	ps = append(ps, extra()...)
	return term.C("USpec", term.I(int64(id)), term.B(r.Bool()), term.I(int64(r.Range(1, 80))),
		fx(ratio), fx(energy), fx(maxE), fx(stance), fx(maxS), term.L(weak...), propsTerm(ps))
}

func genHealAdjs(r *term.Rng, dyadic bool) []term.T {
	out := []term.T{}
	if !r.Chance(2, 3) {
		return out
	}
	for n := r.Range(1, 3); n > 0; n-- {
		switch r.Intn(8) {
		case 0, 1: // a base-stat property of either snapshot
			p := int64(r.Range(1, 12))
			var amt float64
			if dyadic {
				amt = term.Pick(r, []float64{0.25, -0.25, 16, 100, -64, 0.5})
			} else {
				amt = pickVal(r, []float64{0.1, -0.3, 100, 55.5, -200})
			}
			out = append(out, term.C("AProp", term.B(r.Bool()), term.I(p), fx(amt)))
		case 2: // outgoing / incoming bonus
			p := term.Pick(r, []int64{25, 26, 27})
			out = append(out, term.C("AProp", term.B(r.Bool()), term.I(p), fx(pickVal(r, []float64{0.1, 0.25, -0.5, -1.5}))))
		case 3:
			c := plainCoef
			if dyadic {
				c = dyadicCoef
			}
			out = append(out, term.C("ATermSet", term.I(int64(r.Range(0, 6))), fx(term.Pick(r, c))))
		case 4:
			out = append(out, term.C("ATermDel", term.I(int64(r.Range(0, 6)))))
		case 5:
			f := plainFlat
			if dyadic {
				f = dyadicFlat
			}
			out = append(out, term.C("AFlatSet", fx(term.Pick(r, f))))
		case 6:
			f := plainFlat
			if dyadic {
				f = dyadicFlat
			}
			out = append(out, term.C("AFlatAdd", fx(term.Pick(r, f))))
		case 7:
			out = append(out, term.C("ARemap"))
		}
	}
	return out
}

// finalFormula replays the formula-map and flat-value adjustments: (effective keys, flat)
func finalFormula(terms map[int64]float64, flat float64, adjs []term.T, lo, hi int64) (map[int64]bool, float64) {
	m := map[int64]float64{}
	for k, v := range terms {
		m[k] = v
	}
	for _, a := range adjs {
		n, args := term.Ctor(a)
		switch n {
		case "ATermSet":
			m[term.Int(args[0])] = fxGet(args[1])
		case "ATermDel":
			delete(m, term.Int(args[0]))
		case "AFlatSet":
			flat = fxGet(args[0])
		case "AFlatAdd":
			flat += fxGet(args[0])
		}
	}
	eff := map[int64]bool{}
	for k := range m {
		if k >= lo && k <= hi {
			eff[k] = true
		}
	}
	return eff, flat
}

func genHeal(r0 *term.Rng, idx int) term.T {
	r := caseRng(r0, idx)
	dyadic := r.Chance(1, 3)
	nu := r.Range(2, 4)
	units := []term.T{}
	for id := 1; id <= nu; id++ {
		units = append(units, genCombatUnit(r, id, dyadic, func() [][2]float64 {
			ps := [][2]float64{}
			if r.Chance(2, 3) {
				ps = append(ps, [2]float64{25, pickVal(r, []float64{0.1, 0.345, -0.5, -1.5})})
			}
			if r.Chance(1, 3) {
				ps = append(ps, [2]float64{26, term.Pick(r, []float64{0.05, 0.2})})
			}
			if r.Chance(2, 3) {
				ps = append(ps, [2]float64{27, pickVal(r, []float64{0.2, -0.3, 0.15, -1.25})})
			}
			return ps
		}))
	}
	limbo := []term.T{}
	for id := 1; id <= nu; id++ {
		if r.Chance(1, 3) {
			limbo = append(limbo, term.I(int64(id)))
		}
	}
	anyID := func() int64 {
		if r.Chance(1, 15) {
			return 7 // never registered
		}
		return int64(r.Range(1, nu))
	}
	ops := []term.T{}
	dirty := map[int64]bool{}
	lastKilled := int64(0)
	nops := r.Range(2, 8)
	for len(ops) < nops {
		w := healWorld(units, limbo, ops)
		k := int64(len(ops))
		if r.Chance(1, 3) {
			// a direct HP change that sets up partial / zero HP
			t := anyID()
			st := w.attr.Stats(key.TargetID(t))
			cur, max := st.CurrentHP(), st.MaxHP()
			amt := term.Pick(r, []float64{-cur, -cur / 2, -math.Nextafter(cur, 0), -math.Nextafter(cur, math.Inf(1)),
				-2 * max, 10, 0, math.Copysign(0, -1), -max / 4, -1})
			if math.IsNaN(amt) || math.IsInf(amt, 0) {
				amt = -1
			}
			ops = append(ops, term.C("HModHP", term.I(k), term.I(t), term.I(anyID()), fx(amt), term.B(r.Bool())))
			dirty[t] = true
			if amt <= -cur {
				lastKilled = t
			}
			continue
		}
		src := anyID()
		if lastKilled != 0 && r.Chance(1, 2) {
			src = lastKilled // heals from a source that is not alive
		}
		targets := []int64{}
		for n := r.Range(0, 3); n > 0; n-- {
			targets = append(targets, anyID())
		}
		if len(targets) == 0 && !r.Chance(1, 6) {
			targets = append(targets, anyID())
		}
		var terms map[int64]float64
		var flat float64
		var adjs []term.T
		for try := 0; ; try++ {
			terms = map[int64]float64{}
			coef, flats := plainCoef, plainFlat
			if dyadic {
				coef, flats = dyadicCoef, dyadicFlat
			}
			for n := r.Range(0, 5); n > 0; n-- {
				terms[int64(r.Range(0, 6))] = term.Pick(r, coef)
			}
			flat = term.Pick(r, flats)
			adjs = genHealAdjs(r, dyadic)
			if try > 20 {
				adjs = nil
				terms = map[int64]float64{int64(r.Range(1, 5)): term.Pick(r, coef)}
				flat = 0
			}
			if !dyadic && len(targets) > 0 && r.Chance(1, 3) {
				// aim at the overheal boundary of the first target: the flat value alone fills the missing HP
				st := w.attr.Stats(key.TargetID(targets[0]))
				miss := st.MaxHP() - st.CurrentHP()
				terms = map[int64]float64{}
				flat = term.Pick(r, []float64{miss, math.Nextafter(miss, math.Inf(1)), math.Nextafter(miss, math.Inf(-1)), miss / 2, miss * 2})
				if math.IsNaN(flat) || math.IsInf(flat, 0) {
					flat = 1
				}
				if r.Bool() {
					adjs = nil
				}
			}
			eff, fflat := finalFormula(terms, flat, adjs, 1, 5)
			eff0, _ := finalFormula(terms, flat, nil, 1, 5)
			count := func(e map[int64]bool, f float64) int {
				n := len(e)
				if f != 0 {
					n++
				}
				return n
			}
			// the float sum over a Go map is order independent for at most two addends after the
			// initial value; more addends only when every partial sum is exact (dyadic cases), and
			// then the lost-HP term only for targets whose HP ratio is still the generated dyadic one
			if !dyadic {
				if count(eff, fflat) <= 2 && count(eff0, flat) <= 2 {
					break
				}
				continue
			}
			usesLost := eff[5] || eff0[5]
			if !usesLost {
				break
			}
			clean := true
			seen := map[int64]bool{}
			for _, t := range targets {
				if dirty[t] || seen[t] {
					clean = false
				}
				seen[t] = true
			}
			if clean || (count(eff, fflat) <= 2 && count(eff0, flat) <= 2) {
				break
			}
		}
		tl := []term.T{}
		for _, t := range targets {
			tl = append(tl, term.I(t))
			dirty[t] = true
		}
		ops = append(ops, term.C("HHeal", term.I(k), term.I(src), term.L(tl...), pmapTerm(toI32(terms)), fx(flat),
			term.B(r.Chance(1, 4)), term.L(adjs...)))
	}
	return term.Tup(term.L(units...), term.L(limbo...), term.L(ops...))
}

func toI32(m map[int64]float64) map[int32]float64 {
	out := map[int32]float64{}
	for k, v := range m {
		out[int32(k)] = v
	}
	return out
}

func kindsHeal(in term.T) map[string]int {
	m := map[string]int{}
	it := term.TupleItems(in)
	for _, o := range term.List(it[2]) {
		n, a := term.Ctor(o)
		m[n]++
		if n == "HHeal" {
			m["heal_targets"] += len(term.List(a[2]))
			m["heal_terms"] += len(term.List(a[3]))
			for _, ad := range term.List(a[6]) {
				an, _ := term.Ctor(ad)
				m["adj_"+an]++
			}
		}
	}
	return m
}

func init() {
	register("heal", component{gen: genHeal, run: runHeal, kinds: kindsHeal})
}
