(* Correspondence checker and property monitor for Model/Agg.v.

   A case is one batch of iteration results fed to the REAL aggregators several times
   (sequentially in given arrival orders with optional intermediate flushes, and through a
   worker pool whose observed arrival order is part of the observation).  [check_case]
   re-runs the binary64 model on the same arrival orders and compares every reported number
   bit for bit; [monitor_case] evaluates the property itself on what the implementation
   reported. *)
From Coq Require Import List ZArith Bool Floats.
From Coq Require String.
From SR Require Import Base.CaseLib Model.Agg.
Import ListNotations.
Open Scope Z_scope.

Definition fresult := @result float.
Definition freport := @report float.

Inductive runspec :=
| RSeq (order : list nat) (flush_at : list nat)   (* add in this order; also flush after k adds *)
| RPool (workers : nat).                          (* workers deliver to one collector *)

(* observed arrival order, the reports read when flushed, the same reports re-read at the end *)
Definition runobs := (list nat * list freport * list freport)%type.

Inductive obs := Ok (l : list runobs) | HarnessPanic (s : String.string).

Definition case :=
  (Z * nat * list (Z * float) * list fresult * list runspec * obs)%type.

(* ---- arrival orders ---- *)
Fixpoint mem_nat (x : nat) (l : list nat) : bool :=
  match l with [] => false | y :: r => Nat.eqb x y || mem_nat x r end.
Fixpoint dedup_lt (n : nat) (seen idxs : list nat) : list nat :=
  match idxs with
  | [] => []
  | i :: r => if Nat.ltb i n && negb (mem_nat i seen) then i :: dedup_lt n (i :: seen) r
              else dedup_lt n seen r
  end.
(* the indices named (in range, first occurrence), then the ones not named, ascending *)
Definition norm_order (n : nat) (idxs : list nat) : list nat :=
  let d := dedup_lt n [] idxs in
  d ++ filter (fun i => negb (mem_nat i d)) (seq 0 n).

Definition is_perm_of_seq (n : nat) (o : list nat) : bool :=
  Nat.eqb (length o) n && forallb (fun i => mem_nat i o) (seq 0 n).

Fixpoint ops_of (rs : list fresult) (order flush_at : list nat) (k : nat) : list (@op float) :=
  (if mem_nat k flush_at then [OFlush] else []) ++
  match order with
  | [] => []
  | i :: r =>
      match nth_error rs i with
      | Some x => OAdd x :: ops_of rs r flush_at (S k)
      | None => ops_of rs r flush_at (S k)
      end
  end.
(* flushes at the requested counts (k = number of adds so far), and always at the end *)
Definition run_ops (rs : list fresult) (order flush_at : list nat) : list (@op float) :=
  ops_of rs order (filter (fun k => negb (Nat.eqb k (length order))) flush_at) 0 ++ [OFlush].

(* ---- exact comparison ---- *)
Definition desc_eqb (a b : @desc float) : bool :=
  feqb_bits (d_min a) (d_min b) && feqb_bits (d_max a) (d_max b) &&
  feqb_bits (d_mean a) (d_mean b) && feqb_bits (d_sd a) (d_sd b).
Definition ov_eqb (a b : @ov float) : bool :=
  feqb_bits (o_min a) (o_min b) && feqb_bits (o_max a) (o_max b) &&
  feqb_bits (o_mean a) (o_mean b) && feqb_bits (o_sd a) (o_sd b) &&
  feqb_bits (o_q1 a) (o_q1 b) && feqb_bits (o_q2 a) (o_q2 b) && feqb_bits (o_q3 a) (o_q3 b) &&
  list_eqb Z.eqb (o_hist a) (o_hist b).
Definition report_eqb (a b : freport) : bool :=
  (r_iters a =? r_iters b) && desc_eqb (r_dealt a) (r_dealt b) && desc_eqb (r_taken a) (r_taken b) &&
  ov_eqb (r_dpc a) (r_dpc b) && desc_eqb (r_av a) (r_av b) &&
  list_eqb ov_eqb (r_cd a) (r_cd b) && list_eqb ov_eqb (r_ct a) (r_ct b).

Definition res_report_eqb (m : res freport) (o : freport) : bool :=
  match m with ROk r => report_eqb r o | _ => false end.
Fixpoint model_matches (ms : list (res freport)) (os : list freport) : bool :=
  match ms, os with
  | [], [] => true
  | m :: ms', o :: os' => res_report_eqb m o && model_matches ms' os'
  | _, _ => false
  end.

Definition spec_order (n : nat) (sp : runspec) (observed : list nat) : option (list nat * list nat) :=
  match sp with
  | RSeq order fl => let o := norm_order n order in
                     if list_eqb Nat.eqb o observed then Some (o, fl) else None
  | RPool _ => if is_perm_of_seq n observed then Some (observed, []) else None
  end.

Definition model_run (cyc : nat) (pows : list (Z * float)) (rs : list fresult)
           (order fl : list nat) : list (res freport) :=
  run (fops pows) (a_init (fops pows) cyc) (run_ops rs order fl).

Definition check_run (cyc : nat) (pows : list (Z * float)) (rs : list fresult)
           (sp : runspec) (ro : runobs) : bool :=
  let '(observed, atflush, reread) := ro in
  match spec_order (length rs) sp observed with
  | None => false
  | Some (order, fl) =>
      model_matches (model_run cyc pows rs order fl) atflush &&
      list_eqb report_eqb atflush reread
  end.

Fixpoint check_runs cyc pows rs (sps : list runspec) (ros : list runobs) : bool :=
  match sps, ros with
  | [], [] => true
  | sp :: sps', ro :: ros' => check_run cyc pows rs sp ro && check_runs cyc pows rs sps' ros'
  | _, _ => false
  end.

Definition check_case (c : case) : bool :=
  let '(_, cyc, pows, rs, sps, o) := c in
  match o with
  | Ok ros => check_runs cyc pows rs sps ros
  | HarnessPanic _ => false
  end.

Definition model_out (c : case) : list (list (res freport)) :=
  let '(_, cyc, pows, rs, sps, o) := c in
  match o with
  | Ok ros =>
      map (fun '(sp, ro) =>
             let '(observed, _, _) := ro in
             match spec_order (length rs) sp observed with
             | Some (order, fl) => model_run cyc pows rs order fl
             | None => []
             end) (combine sps ros)
  | HarnessPanic _ =>
      map (fun sp => match sp with
                     | RSeq order fl => model_run cyc pows rs (norm_order (length rs) order) fl
                     | RPool _ => model_run cyc pows rs (seq 0 (length rs)) []
                     end) sps
  end.

(* ---------------------------------------------------------------------------------------- *)
(* The property evaluated on the implementation's reports (no model run).                   *)

Definition zsum (l : list Z) : Z := fold_right Z.add 0 l.

(* a histogram summarising cnt values: at least one bin, no negative count, counts add up *)
Definition hist_ok (o : @ov float) (cnt : Z) : bool :=
  (1 <=? zlen (o_hist o)) && forallb (fun c => 0 <=? c) (o_hist o) && (zsum (o_hist o) =? cnt).

Definition fle (a b : float) : bool := (a <=? b)%float.

(* min <= q1 <= q2 <= q3 <= max, min <= mean <= max up to rounding (skipped for empty samples) *)
Definition ov_ordered (o : @ov float) (cnt : Z) : bool :=
  (cnt =? 0) ||
  (fle (o_min o) (o_q1 o) && fle (o_q1 o) (o_q2 o) && fle (o_q2 o) (o_q3 o) && fle (o_q3 o) (o_max o)).

(* every histogram of a report adds up: the iteration count for the totals, for cycle i the
   number of results whose series reaches cycle i *)
Definition reach (series : fresult -> list float) (rs : list fresult) (i : nat) : Z :=
  zlen (filter (fun r => Nat.ltb i (length (series r))) rs).

Fixpoint cycles_ok (series : fresult -> list float) (rs : list fresult) (i : nat) (os : list (@ov float)) : bool :=
  match os with
  | [] => true
  | o :: r => hist_ok o (reach series rs i) && ov_ordered o (reach series rs i) &&
              cycles_ok series rs (S i) r
  end.

Definition max_len (series : fresult -> list float) (rs : list fresult) : nat :=
  fold_right (fun r m => Nat.max (length (series r)) m) O rs.

(* min / max of the totals are the least / greatest value that was added *)
Definition is_min (x : float) (l : list float) : bool :=
  existsb (fun y => feqb_bits x y) l && forallb (fun y => fle x y) l.
Definition is_max (x : float) (l : list float) : bool :=
  existsb (fun y => feqb_bits x y) l && forallb (fun y => fle y x) l.

(* mean of the multiset, two-pass, for the "up to rounding" comparison *)
Definition fsum (l : list float) : float := fold_left PrimFloat.add l 0%float.
Definition fabs_max (l : list float) : float :=
  fold_left (fun m x => if (m <? abs x)%float then abs x else m) l 0%float.
(* |a - b| <= tol * scale, plus an absolute allowance of 2^-500 for sums of squares that are
   subnormal (values near 1e-160: M2 has a handful of significant bits left) *)
Definition close (tol scale a b : float) : bool :=
  (abs (a - b) <=? tol * scale + 0x1p-500)%float.

Definition desc_ok (d : @desc float) (l : list float) : bool :=
  match l with
  | [] => true
  | _ =>
      let n := fofZ (zlen l) in
      let scale := fabs_max l in
      let m := (fsum l / n)%float in
      let v := (fsum (map (fun x => (x - m) * (x - m)) l) / (n - 1))%float in
      is_min (d_min d) l && is_max (d_max d) l &&
      close 0x1p-30%float scale (d_mean d) m &&
      match l with [_] => feqb_bits (d_sd d) 0 | _ => close 0x1p-20%float scale (d_sd d) (sqrt v) end
  end.

Definition final_ok (cyc : nat) (rs : list fresult) (r : freport) : bool :=
  let n := zlen rs in
  (r_iters r =? n) &&
  hist_ok (r_dpc r) n && ov_ordered (r_dpc r) n &&
  Nat.eqb (length (r_cd r)) (Nat.max cyc (max_len (@i_cd float) rs)) &&
  Nat.eqb (length (r_ct r)) (Nat.max cyc (max_len (@i_ct float) rs)) &&
  cycles_ok (@i_cd float) rs 0 (r_cd r) && cycles_ok (@i_ct float) rs 0 (r_ct r) &&
  desc_ok (r_dealt r) (map (@i_dealt float) rs) &&
  desc_ok (r_taken r) (map (@i_taken float) rs) &&
  desc_ok (r_av r) (map (@i_av float) rs).

(* the order-independent part of two reports of the same multiset: everything computed from
   sorted samples or by min/max is bit-equal; streaming mean / SD agree up to rounding *)
Definition same_exact (scale : float * float * float) (a b : freport) : bool :=
  let '(sd, st, sa) := scale in
  (r_iters a =? r_iters b) && ov_eqb (r_dpc a) (r_dpc b) &&
  list_eqb ov_eqb (r_cd a) (r_cd b) && list_eqb ov_eqb (r_ct a) (r_ct b) &&
  feqb_bits (d_min (r_dealt a)) (d_min (r_dealt b)) && feqb_bits (d_max (r_dealt a)) (d_max (r_dealt b)) &&
  feqb_bits (d_min (r_taken a)) (d_min (r_taken b)) && feqb_bits (d_max (r_taken a)) (d_max (r_taken b)) &&
  feqb_bits (d_min (r_av a)) (d_min (r_av b)) && feqb_bits (d_max (r_av a)) (d_max (r_av b)) &&
  close 0x1p-30%float sd (d_mean (r_dealt a)) (d_mean (r_dealt b)) && close 0x1p-20%float sd (d_sd (r_dealt a)) (d_sd (r_dealt b)) &&
  close 0x1p-30%float st (d_mean (r_taken a)) (d_mean (r_taken b)) && close 0x1p-20%float st (d_sd (r_taken a)) (d_sd (r_taken b)) &&
  close 0x1p-30%float sa (d_mean (r_av a)) (d_mean (r_av b)) && close 0x1p-20%float sa (d_sd (r_av a)) (d_sd (r_av b)).

(* every flushed report: its own histogram of the totals adds up to its own count *)
Definition any_flush_ok (r : freport) : bool := hist_ok (r_dpc r) (r_iters r).

Definition last_report (l : list freport) : option freport :=
  match rev l with [] => None | r :: _ => Some r end.

(* The numeric clauses of the monitor are those of the theorems, whose hypothesis (fresult_ok) asks for a
   positive total action value: a battle decided at AV 0 has no damage per cycle (x * 100 / 0 is +Inf or NaN),
   and means / quartiles of such samples are NaN in the real code and in the model alike.  For those batches the
   monitor keeps its structural clauses (arrival orders, a flushed report never changes) and leaves the numbers
   to the exact correspondence (check_case), which does cover them. *)
Definition av_positive (rs : list fresult) : bool :=
  forallb (fun r : fresult => PrimFloat.ltb 0 (i_av r)) rs.

Definition monitor_case (c : case) : bool :=
  let '(_, cyc, _, rs, sps, o) := c in
  match o with
  | HarnessPanic _ => false
  | Ok ros =>
      if negb (av_positive rs) then
        Nat.eqb (length ros) (length sps) &&
        forallb (fun ro : runobs =>
                   let '(observed, atflush, reread) := ro in
                   is_perm_of_seq (length rs) observed && list_eqb report_eqb atflush reread) ros
      else
      let scale := (fabs_max (map (@i_dealt float) rs), fabs_max (map (@i_taken float) rs),
                    fabs_max (map (@i_av float) rs)) in
      let finals := map (fun ro : runobs => let '(_, atflush, _) := ro in last_report atflush) ros in
      Nat.eqb (length ros) (length sps) &&
      forallb (fun ro : runobs =>
                 let '(observed, atflush, reread) := ro in
                 is_perm_of_seq (length rs) observed &&
                 list_eqb report_eqb atflush reread &&       (* a flushed report never changes *)
                 forallb any_flush_ok atflush &&
                 match last_report atflush with
                 | Some r => final_ok cyc rs r
                 | None => false
                 end) ros &&
      match finals with
      | Some r0 :: rest =>
          forallb (fun f => match f with Some r => same_exact scale r0 r | None => false end) rest
      | _ => true
      end
  end.
