From Coq Require Import List ZArith Bool Lia Permutation Reals Lra.
From SR Require Import Base.NumOps Model.Turn.
Import ListNotations.
Open Scope Z_scope.

(* ------------------------------------------------------------------ *)
(* Generic facts about the stable insertion sort, for any NumOps        *)
(* ------------------------------------------------------------------ *)
Section Sort.
  Variable N : NumOps.
  Notation T := (num N).
  Variable key : unit -> T.
  Notation lt := (nltb N).

  Lemma insert_by_perm x l : Permutation (x :: l) (insert_by N key x l).
  Proof.
    induction l as [|y l IH]; cbn; [reflexivity|].
    destruct (lt (key y) (key x)); [|reflexivity].
    rewrite perm_swap. constructor. exact IH.
  Qed.

  Lemma sort_by_perm l : Permutation l (sort_by N key l).
  Proof.
    induction l as [|x l IH]; cbn; [constructor|].
    rewrite <- insert_by_perm. constructor. exact IH.
  Qed.

  (* the comparison is a strict weak order on the keys that occur *)
  Definition keys_ok (l : list unit) : Prop :=
    (forall a b, In a l -> In b l -> lt (key a) (key b) = true -> lt (key b) (key a) = false) /\
    (forall a b c, In a l -> In b l -> In c l ->
      lt (key a) (key b) = false -> lt (key b) (key c) = false -> lt (key a) (key c) = false).

  Lemma keys_ok_incl l l' : (forall x, In x l' -> In x l) -> keys_ok l -> keys_ok l'.
  Proof. intros Hi [H1 H2]. split; intros; [apply H1|eapply H2 with (b := b)]; auto. Qed.

  (* "no later element is strictly smaller" *)
  Fixpoint sorted (l : list unit) : Prop :=
    match l with
    | [] => True
    | x :: r => Forall (fun y => lt (key y) (key x) = false) r /\ sorted r
    end.

  Lemma insert_by_in x l z : In z (insert_by N key x l) <-> z = x \/ In z l.
  Proof.
    split; intros H.
    - apply (Permutation_in _ (Permutation_sym (insert_by_perm x l))) in H. destruct H; auto.
    - apply (Permutation_in _ (insert_by_perm x l)). destruct H; [left|right]; auto.
  Qed.

  Lemma insert_by_sorted x l : keys_ok (x :: l) -> sorted l -> sorted (insert_by N key x l).
  Proof.
    induction l as [|y l IH]; intros Hk Hs; cbn.
    - split; [constructor|exact I].
    - destruct Hs as [Hy Hs]. destruct (lt (key y) (key x)) eqn:E.
      + cbn. split.
        * apply Forall_forall. intros z Hz. apply insert_by_in in Hz. destruct Hz as [->|Hz].
          -- destruct Hk as [Has _]. apply (Has y x); cbn; auto.
          -- rewrite Forall_forall in Hy. apply Hy. exact Hz.
        * apply IH; [|exact Hs]. eapply keys_ok_incl; [|exact Hk].
          intros z [->|Hz]; cbn; auto.
      + cbn. split; [|split; assumption].
        constructor; [exact E|].
        apply Forall_forall. intros z Hz. rewrite Forall_forall in Hy.
        destruct Hk as [_ Hnt]. apply (Hnt z y x); cbn; auto.
  Qed.

  Lemma sort_by_sorted l : keys_ok l -> sorted (sort_by N key l).
  Proof.
    induction l as [|x l IH]; intros Hk; cbn; [exact I|].
    apply insert_by_sorted.
    - eapply keys_ok_incl; [|exact Hk]. intros z [->|Hz]; cbn; auto.
      right. apply (Permutation_in _ (Permutation_sym (sort_by_perm l))). exact Hz.
    - apply IH. eapply keys_ok_incl; [|exact Hk]. intros z Hz; cbn; auto.
  Qed.

  (* the head of the sorted order has a minimal key *)
  Lemma sorted_head_min h r : sorted (h :: r) -> forall y, In y r -> lt (key y) (key h) = false.
  Proof. intros [H _] y Hy. rewrite Forall_forall in H. auto. Qed.

  (* where an element is inserted: after exactly the elements strictly smaller than it, hence
     in front of every element whose key is equal (or larger) — the documented tie rule *)
  Lemma insert_by_split x l : exists a b, l = a ++ b /\ insert_by N key x l = a ++ x :: b /\
    Forall (fun z => lt (key z) (key x) = true) a /\
    match b with [] => True | z :: _ => lt (key z) (key x) = false end.
  Proof.
    induction l as [|y l IH]; cbn.
    - exists [], []. repeat split; constructor.
    - destruct (lt (key y) (key x)) eqn:E.
      + destruct IH as (a & b & E1 & E2 & E3 & E4). exists (y :: a), b. subst l. cbn. rewrite E2.
        repeat split; auto.
      + exists [], (y :: l). repeat split; auto.
  Qed.
End Sort.

(* ------------------------------------------------------------------ *)
(* Structure of the operations, for any NumOps                          *)
(* ------------------------------------------------------------------ *)
Section Structure.
  Variable N : NumOps.
  Notation T := (num N).
  Notation tstate := (tstate N).

  Definition ids (l : list unit) : list Z := map u_id l.
  Definition gauge_of (l : list unit) (id : Z) : option Z := option_map u_gauge (find l id).

  Lemma find_in l id u : find l id = Some u -> In u l /\ u_id u = id.
  Proof.
    induction l as [|x l IH]; cbn; [discriminate|].
    destruct (u_id x =? id) eqn:E; intros H.
    - inversion H; subst. apply Z.eqb_eq in E. auto.
    - destruct (IH H); auto.
  Qed.

  Lemma find_none l id : find l id = None -> ~ In id (ids l).
  Proof.
    induction l as [|x l IH]; cbn; [auto|].
    destruct (u_id x =? id) eqn:E; [discriminate|]. apply Z.eqb_neq in E.
    intros H [H1|H1]; [congruence|]. exact (IH H H1).
  Qed.

  Lemma find_perm l l' id : NoDup (ids l) -> Permutation l l' -> find l' id = find l id.
  Proof.
    intros Hnd HP. revert Hnd. induction HP as [|x l l' HP IH|x y l|l l' l'' HP1 IH1 HP2 IH2]; intros Hnd.
    - reflexivity.
    - cbn. destruct (u_id x =? id); [reflexivity|]. apply IH. inversion Hnd; assumption.
    - cbn. destruct (u_id x =? id) eqn:Ex; destruct (u_id y =? id) eqn:Ey; try reflexivity.
      apply Z.eqb_eq in Ex, Ey. exfalso. inversion Hnd as [|? ? Hni _]; subst. apply Hni. cbn. left. congruence.
    - rewrite IH2, IH1; [reflexivity|exact Hnd|].
      eapply Permutation_NoDup; [apply Permutation_map; exact HP1|exact Hnd].
  Qed.

  Lemma remove_id_ids l id : NoDup (ids l) -> In id (ids l) ->
    Permutation (ids l) (id :: ids (remove_id l id)).
  Proof.
    induction l as [|x l IH]; cbn; intros Hnd Hin; [destruct Hin|].
    inversion Hnd as [|? ? Hni Hnd']; subst.
    destruct (u_id x =? id) eqn:E.
    - apply Z.eqb_eq in E. rewrite E. reflexivity.
    - apply Z.eqb_neq in E. destruct Hin as [Hx|Hin]; [congruence|].
      cbn. rewrite perm_swap. constructor. apply IH; assumption.
  Qed.

  Lemma remove_id_find_other l id id' : id' <> id -> find (remove_id l id) id' = find l id'.
  Proof.
    intros Hne. induction l as [|x l IH]; cbn; [reflexivity|].
    destruct (u_id x =? id) eqn:E.
    - apply Z.eqb_eq in E. destruct (u_id x =? id') eqn:E'; [apply Z.eqb_eq in E'; congruence|reflexivity].
    - cbn. destruct (u_id x =? id'); [reflexivity|exact IH].
  Qed.

  Lemma remove_id_notin l id : NoDup (ids l) -> ~ In id (ids (remove_id l id)).
  Proof.
    induction l as [|x l IH]; cbn; intros Hnd; [auto|].
    inversion Hnd as [|? ? Hni Hnd']; subst.
    destruct (u_id x =? id) eqn:E.
    - apply Z.eqb_eq in E. rewrite <- E. exact Hni.
    - apply Z.eqb_neq in E. cbn. intros [H|H]; [congruence|]. exact (IH Hnd' H).
  Qed.

  Lemma remove_id_incl l id x : In x (ids (remove_id l id)) -> In x (ids l).
  Proof.
    induction l as [|y l IH]; cbn; [auto|].
    destruct (u_id y =? id); cbn; [auto|]. intros [H|H]; auto.
  Qed.

  Lemma remove_id_nodup l id : NoDup (ids l) -> NoDup (ids (remove_id l id)).
  Proof.
    induction l as [|x l IH]; cbn; intros Hnd; [constructor|].
    inversion Hnd as [|? ? Hni Hnd']; subst.
    destruct (u_id x =? id); [exact Hnd'|]. cbn. constructor; [|apply IH; exact Hnd'].
    intros H. apply Hni. eapply remove_id_incl. exact H.
  Qed.
End Structure.

Section Steps.
  Variable N : NumOps.
  Notation T := (num N).
  Notation tstate := (tstate N).

  Lemma set_gauge_of_find_same l id g : In id (ids l) -> find (set_gauge_of l id g) id = Some (mkU id g).
  Proof.
    induction l as [|x l IH]; cbn; intros Hin; [destruct Hin|].
    destruct (u_id x =? id) eqn:E; cbn.
    - rewrite Z.eqb_refl. reflexivity.
    - rewrite E. apply IH. apply Z.eqb_neq in E. destruct Hin; [congruence|assumption].
  Qed.

  Lemma set_gauge_of_find_other l id g id' : id' <> id -> find (set_gauge_of l id g) id' = find l id'.
  Proof.
    intros Hne. induction l as [|x l IH]; cbn; [reflexivity|].
    destruct (u_id x =? id) eqn:E; cbn.
    - apply Z.eqb_eq in E. destruct (id =? id') eqn:E1; [apply Z.eqb_eq in E1; congruence|].
      destruct (u_id x =? id') eqn:E2; [apply Z.eqb_eq in E2; congruence|reflexivity].
    - destruct (u_id x =? id'); [reflexivity|exact IH].
  Qed.

  Lemma set_gauge_of_ids l id g : ids (set_gauge_of l id g) = ids l.
  Proof.
    induction l as [|x l IH]; cbn; [reflexivity|].
    destruct (u_id x =? id) eqn:E; cbn; [apply Z.eqb_eq in E; congruence|]. f_equal. exact IH.
  Qed.

  Lemma find_map_same_id (f : unit -> unit) l id : (forall u, u_id (f u) = u_id u) ->
    find (map f l) id = option_map f (find l id).
  Proof.
    intros Hf. induction l as [|x l IH]; cbn; [reflexivity|].
    rewrite Hf. destruct (u_id x =? id); [reflexivity|exact IH].
  Qed.

  Lemma ids_map_same_id (f : unit -> unit) l : (forall u, u_id (f u) = u_id u) -> ids (map f l) = ids l.
  Proof. intros Hf. unfold ids. rewrite map_map. apply map_ext. exact Hf. Qed.

  Lemma resort_perm (s : tstate) l : Permutation l (resort N s l).
  Proof. apply sort_by_perm. Qed.

  Lemma ids_perm l l' : Permutation l l' -> Permutation (ids l) (ids l').
  Proof. apply Permutation_map. Qed.

  Lemma find_some_in_ids l id u : find l id = Some u -> In id (ids l).
  Proof. intros H. destruct (find_in _ _ _ H) as [Hin <-]. apply in_map. exact Hin. Qed.

  Lemma in_ids_find l id : In id (ids l) -> exists u, find l id = Some u.
  Proof.
    induction l as [|x l IH]; cbn; intros H; [destruct H|].
    destruct (u_id x =? id) eqn:E; [eauto|]. apply Z.eqb_neq in E.
    destruct H; [congruence|auto].
  Qed.

  Definition wf (s : tstate) : Prop := NoDup (ids (order s)).

  (* ---------- StartTurn ---------- *)
  Definition start_spec (s s' : tstate) (id : Z) (a tot : T) : Prop :=
    exists hd, In hd (order s) /\ u_id hd = id /\ a = av_of N s hd /\
      (* a minimal action value (given that the comparison is a strict weak order on the
         action values that occur) *)
      (keys_ok N (av_of N s) (order s) -> forall u, In u (order s) -> nltb N (av_of N s u) a = false) /\
      (* the clock advances by the elapsed action value *)
      tot = nadd N (total s) a /\ total s' = tot /\
      (* the acting unit is at zero; every other unit's gauge shrinks by speed x elapsed AV *)
      find (order s') id = Some (mkU id 0) /\
      (forall u, In u (order s) -> u_id u <> id ->
         find (order s') (u_id u) = Some (mkU (u_id u) (u_gauge u - ntoZ N (nmul N a (spd N s (u_id u)))))) /\
      Permutation (ids (order s')) (ids (order s)) /\
      atarget s' = id /\ active s' = true /\ cost s' = nofZ N 1 /\ speeds s' = speeds s.

  Lemma start_ok s s' id a st tot : wf s ->
    step N s OStart = (s', [EStart id a st tot]) -> start_spec s s' id a tot /\ st = status N s'.
  Proof.
    intros Hwf H. cbn [step] in H.
    destruct (active s); [discriminate|].
    pose proof (resort_perm s (order s)) as HP.
    destruct (resort N s (order s)) as [|hd tl] eqn:ES; [discriminate|].
    match type of H with context [negb (forallb ?f ?l)] => destruct (negb (forallb f l)) end; [discriminate|].
    match type of H with context [set_gauge_of ?l ?i ?g] => set (X := set_gauge_of l i g) in H end.
    inversion H; subst; clear H. split; [|reflexivity].
    set (a := av_of N s hd) in *.
    set (f := fun u => mkU (u_id u) (u_gauge u - ntoZ N (nmul N a (spd N s (u_id u))))).
    assert (Hf : forall u, u_id (f u) = u_id u) by reflexivity.
    assert (Hhd : In hd (order s)).
    { apply (Permutation_in _ (Permutation_sym HP)). left. reflexivity. }
    assert (Hnd' : NoDup (ids (hd :: tl))).
    { eapply Permutation_NoDup; [apply ids_perm; exact HP|exact Hwf]. }
    exists hd. split; [exact Hhd|]. split; [reflexivity|]. split; [reflexivity|].
    split.
    { intros Hk u Hu.
      assert (Hs : sorted N (av_of N s) (hd :: tl)).
      { rewrite <- ES. apply sort_by_sorted. exact Hk. }
      apply (Permutation_in _ HP) in Hu. destruct Hu as [<-|Hu].
      - destruct Hk as [Has Hnt].
        unfold a. destruct (nltb N (av_of N s hd) (av_of N s hd)) eqn:E; [|reflexivity].
        rewrite (Has hd hd Hhd Hhd E) in E. discriminate.
      - eapply sorted_head_min; [exact Hs|exact Hu]. }
    split; [reflexivity|]. split; [reflexivity|].
    cbn [order]. subst X. fold f.
    split.
    { apply set_gauge_of_find_same. rewrite ids_map_same_id by exact Hf. cbn. left. reflexivity. }
    split.
    { intros u Hu Hne. rewrite set_gauge_of_find_other by exact Hne.
      change (find (map f (hd :: tl)) (u_id u) = Some (f u)).
      rewrite find_map_same_id by exact Hf.
      rewrite (find_perm _ _ (u_id u) Hwf HP).
      destruct (in_ids_find (order s) (u_id u) (in_map u_id _ _ Hu)) as (u' & Hu').
      rewrite Hu'. cbn. f_equal.
      destruct (find_in _ _ _ Hu') as [Hin' Hid'].
      assert (u' = u).
      { clear - Hwf Hu Hin' Hid'. unfold wf in Hwf. induction (order s) as [|x l IH]; [destruct Hu|].
        cbn in Hwf. inversion Hwf as [|? ? Hni Hnd]; subst.
        destruct Hu as [->|Hu]; destruct Hin' as [->|Hin']; auto.
        - exfalso. apply Hni. rewrite <- Hid'. apply in_map. exact Hin'.
        - exfalso. apply Hni. rewrite Hid'. apply in_map. exact Hu. }
      subst u'. reflexivity. }
    split.
    { rewrite set_gauge_of_ids. change (Permutation (ids (map f (hd :: tl))) (ids (order s))).
      rewrite ids_map_same_id by exact Hf. apply ids_perm. symmetry. exact HP. }
    repeat split; reflexivity.
  Qed.

  (* ---------- SetGauge / ModifyGauge* ---------- *)
  Lemma find_app_mid a b x id : find (a ++ x :: b) id =
    match find a id with Some u => Some u | None => if u_id x =? id then Some x else find b id end.
  Proof.
    induction a as [|y a IH]; cbn; [reflexivity|].
    destruct (u_id y =? id); [reflexivity|exact IH].
  Qed.

  Lemma find_app a b id : find (a ++ b) id = match find a id with Some u => Some u | None => find b id end.
  Proof.
    induction a as [|y a IH]; cbn; [reflexivity|]. destruct (u_id y =? id); [reflexivity|exact IH].
  Qed.

  Lemma ids_app a b : ids (a ++ b) = ids a ++ ids b.
  Proof. apply map_app. Qed.

  Lemma find_firstn_skipn n l id x : find (firstn n l ++ x :: skipn n l) id =
    match find (firstn n l) id with Some u => Some u | None => if u_id x =? id then Some x else find (skipn n l) id end.
  Proof. apply find_app_mid. Qed.

  (* re-inserting the changed unit at position n of the rest: the other units are untouched *)
  Lemma moved_find_other n rest x id' : u_id x <> id' ->
    find (firstn n rest ++ x :: skipn n rest) id' = find rest id'.
  Proof.
    intros Hne. rewrite find_app_mid.
    destruct (u_id x =? id') eqn:E; [apply Z.eqb_eq in E; congruence|].
    transitivity (find (firstn n rest ++ skipn n rest) id'); [|rewrite firstn_skipn; reflexivity].
    rewrite find_app. reflexivity.
  Qed.

  Lemma moved_ids_perm n rest x : Permutation (ids (firstn n rest ++ x :: skipn n rest)) (u_id x :: ids rest).
  Proof.
    rewrite ids_app. cbn. rewrite <- Permutation_middle. constructor.
    rewrite <- ids_app, firstn_skipn. reflexivity.
  Qed.

  Definition set_gauge_spec (s s' : tstate) (id : Z) (outs : list (out N)) : Prop :=
    (* only this unit's gauge can change, membership is unchanged *)
    (forall id', id' <> id -> find (order s') id' = find (order s) id') /\
    Permutation (ids (order s')) (ids (order s)) /\
    cost s' = cost s /\ active s' = active s /\ atarget s' = atarget s /\ total s' = total s /\
    speeds s' = speeds s /\
    match outs with
    | [] => s' = s                                     (* nothing changed: nothing reported *)
    | [EGauge id0 old new st] =>
        id0 = id /\ find (order s) id = Some (mkU id old) /\ find (order s') id = Some (mkU id new) /\
        0 <= new /\ new <> old /\ st = status N s'
    | [EErr] => s' = s /\ find (order s) id = None      (* unknown unit: an error, no change *)
    | [EConvUndefined] => s' = s
    | _ => False
    end.

  Lemma find_unit_id l id u : find l id = Some u -> u = mkU id (u_gauge u).
  Proof. intros H. destruct (find_in _ _ _ H) as [_ <-]. destruct u; reflexivity. Qed.

  Lemma do_set_gauge_ok s id amt s' outs : wf s ->
    do_set_gauge N s id amt = (s', outs) -> set_gauge_spec s s' id outs.
  Proof.
    intros Hwf H. unfold do_set_gauge in H.
    destruct (find (order s) id) as [u|] eqn:EF.
    2: { inversion H; subst. unfold set_gauge_spec. repeat split; auto. }
    destruct (negb (ntoZ_ok N amt)).
    { inversion H; subst. unfold set_gauge_spec. repeat split; auto. }
    destruct (u_gauge u =? Z.max 0 (ntoZ N amt)) eqn:EG.
    { inversion H; subst. unfold set_gauge_spec. repeat split; auto. }
    set (g := Z.max 0 (ntoZ N amt)) in *.
    match type of H with context [firstn ?n ?r ++ ?x :: skipn ?n ?r] =>
      set (start := n) in H; set (rest := r) in H end.
    inversion H; subst; clear H.
    set (moved := firstn start rest ++ mkU id g :: skipn start rest).
    pose proof (resort_perm s moved) as HP.
    assert (Hin : In id (ids (order s))) by (eapply find_some_in_ids; exact EF).
    assert (Hnd_rest : NoDup (ids rest)) by (apply remove_id_nodup; exact Hwf).
    assert (Hni : ~ In id (ids rest)) by (apply remove_id_notin; exact Hwf).
    assert (Hnd_moved : NoDup (ids moved)).
    { eapply Permutation_NoDup; [symmetry; apply moved_ids_perm|]. cbn. constructor; assumption. }
    unfold set_gauge_spec. cbn [order cost active atarget total speeds set_order].
    split.
    { intros id' Hne. rewrite (find_perm _ _ id' Hnd_moved HP). unfold moved.
      rewrite moved_find_other by (cbn; congruence). apply remove_id_find_other. exact Hne. }
    split.
    { rewrite <- (ids_perm _ _ HP). unfold moved. rewrite moved_ids_perm. cbn.
      symmetry. apply remove_id_ids; assumption. }
    repeat (split; [reflexivity|]).
    split. { rewrite EF. f_equal. apply (find_unit_id _ _ _ EF). }
    split.
    { rewrite (find_perm _ _ id Hnd_moved HP). unfold moved. rewrite find_app_mid.
      destruct (find (firstn start rest) id) as [w|] eqn:EW.
      - exfalso. apply Hni. apply find_some_in_ids in EW.
        rewrite <- (firstn_skipn start rest), ids_app. apply in_or_app. left. exact EW.
      - cbn. rewrite Z.eqb_refl. reflexivity. }
    split; [unfold g; lia|]. split; [apply Z.eqb_neq in EG; unfold g in *; lia|reflexivity].
  Qed.

  Lemma set_gauge_ops_ok s o s' outs id : wf s ->
    (exists amt, o = OSetGauge id amt \/ o = OModNorm id amt \/ o = OModAV id amt) ->
    step N s o = (s', outs) -> set_gauge_spec s s' id outs.
  Proof.
    intros Hwf (amt & [ -> | [ -> | -> ] ]) H; cbn [step] in H.
    - eapply do_set_gauge_ok; eauto.
    - destruct (find (order s) id) eqn:EF; [eapply do_set_gauge_ok; eauto|].
      inversion H; subst. unfold set_gauge_spec. repeat split; auto.
    - destruct (find (order s) id) eqn:EF; [eapply do_set_gauge_ok; eauto|].
      inversion H; subst. unfold set_gauge_spec. repeat split; auto.
  Qed.

  (* where the changed unit lands (documented tie rule): [start] = 1 exactly when a turn is
     active and the unit is not the head of the order, else 0; the unit is put at that index
     of the remaining units and the order is stably re-sorted *)
  Lemma do_set_gauge_order s id amt s' old new st :
    do_set_gauge N s id amt = (s', [EGauge id old new st]) ->
    let start := if active s && negb (Nat.eqb (index_of (order s) id) 0) then 1%nat else 0%nat in
    let rest := remove_id (order s) id in
    order s' = resort N s (firstn start rest ++ mkU id new :: skipn start rest).
  Proof.
    intros H. unfold do_set_gauge in H.
    destruct (find (order s) id) as [u|]; [|discriminate].
    destruct (negb (ntoZ_ok N amt)); [discriminate|].
    destruct (u_gauge u =? Z.max 0 (ntoZ N amt)); [discriminate|].
    inversion H; subst. reflexivity.
  Qed.

  (* ---------- ResetTurn ---------- *)
  Definition reset_spec (s s' : tstate) (outs : list (out N)) : Prop :=
    match outs with
    | [EErr] => s' = s /\ active s = false
    | [EConvUndefined] => s' = s
    | [EReset id c st] =>
        active s = true /\ active s' = false /\ id = atarget s /\ c = cost s /\ st = status N s' /\
        (* that unit's gauge and no other is reset *)
        (forall id', id' <> id -> find (order s') id' = find (order s) id') /\
        Permutation (ids (order s')) (ids (order s)) /\
        (In id (ids (order s)) ->
           find (order s') id = Some (mkU id (Z.max 0 (ntoZ N (nmul N (nofZ N BaseGauge) (cost s)))))) /\
        cost s' = cost s /\ total s' = total s /\ speeds s' = speeds s /\ atarget s' = atarget s
    | _ => False
    end.

  Lemma reset_ok s s' outs : wf s -> step N s OReset = (s', outs) -> reset_spec s s' outs.
  Proof.
    intros Hwf H. cbn [step] in H.
    destruct (active s) eqn:EA; cbn [negb] in H.
    2: { inversion H; subst. cbn. auto. }
    destruct (find (order s) (atarget s)) as [u|] eqn:EF.
    2: { inversion H; subst; clear H. cbn. repeat split; auto.
         intros Hin. apply in_ids_find in Hin. destruct Hin as (u & Hu). congruence. }
    destruct (negb (ntoZ_ok N _)).
    { inversion H; subst. cbn. reflexivity. }
    set (g := Z.max 0 _) in H.
    inversion H; subst; clear H.
    set (id := atarget s) in *.
    set (rest := remove_id (order s) id).
    set (s0 := mkT N (order s) (cost s) false id (total s) (speeds s)).
    set (moved := rest ++ [mkU id g]).
    pose proof (resort_perm s0 moved) as HP.
    assert (Hin : In id (ids (order s))) by (eapply find_some_in_ids; exact EF).
    assert (Hnd_rest : NoDup (ids rest)) by (apply remove_id_nodup; exact Hwf).
    assert (Hni : ~ In id (ids rest)) by (apply remove_id_notin; exact Hwf).
    assert (Hpm : Permutation (ids moved) (id :: ids rest)).
    { unfold moved. rewrite ids_app. cbn. rewrite <- Permutation_cons_append. reflexivity. }
    assert (Hnd_moved : NoDup (ids moved)).
    { eapply Permutation_NoDup; [symmetry; exact Hpm|]. constructor; assumption. }
    cbn. split; [exact EA|]. repeat (split; [reflexivity|]).
    split.
    { intros id' Hne. rewrite (find_perm _ _ id' Hnd_moved HP). unfold moved.
      rewrite find_app. unfold rest. cbn [find].
      rewrite (remove_id_find_other (order s) id id' Hne). cbn [u_id].
      destruct (find (order s) id'); [reflexivity|].
      destruct (id =? id') eqn:E; [apply Z.eqb_eq in E; congruence|reflexivity]. }
    split.
    { change (map u_id (resort N s0 moved)) with (ids (resort N s0 moved)).
      rewrite <- (ids_perm _ _ HP), Hpm. symmetry. apply remove_id_ids; assumption. }
    split.
    { intros _. rewrite (find_perm _ _ id Hnd_moved HP). unfold moved. rewrite find_app.
      destruct (find rest id) as [w|] eqn:EW.
      - exfalso. apply Hni. eapply find_some_in_ids. exact EW.
      - cbn. rewrite Z.eqb_refl. reflexivity. }
    repeat split; reflexivity.
  Qed.
End Steps.

(* ------------------------------------------------------------------ *)
(* The real-number instance: arithmetic clauses and the global invariant *)
(* ------------------------------------------------------------------ *)
Section RLevel.
  Open Scope R_scope.
  Notation N := ROps.
  Notation tstate := (tstate ROps).
  Notation rop := (op ROps).

  Lemma keys_ok_R (key : unit -> R) l : keys_ok ROps key l.
  Proof.
    split.
    - intros a b _ _ H. cbn in *. apply Rltb_true in H. apply Rltb_false. lra.
    - intros a b c _ _ _ H1 H2. cbn in *. apply Rltb_false in H1, H2. apply Rltb_false. lra.
  Qed.

  Definition speeds_pos (s : tstate) : Prop := forall id, 0 < spd ROps s id.
  Definition gauges_nonneg (l : list unit) : Prop := Forall (fun u => (0 <= u_gauge u)%Z) l.

  Definition Inv (s : tstate) : Prop := wf ROps s /\ gauges_nonneg (order s) /\ speeds_pos s.

  (* legal use: speeds are positive, added ids are new *)
  Definition op_ok (s : tstate) (o : rop) : Prop :=
    match o with
    | OAdd ivs => Forall (fun iv => 0 < snd iv) ivs /\ NoDup (map fst ivs) /\
                  (forall id, In id (map fst ivs) -> ~ In id (ids (order s)))
    | OSetSpeed _ v => 0 < v
    | _ => True
    end.

  Lemma lookup_pos tbl : (forall k v, In (k, v) tbl -> 0 < v) -> forall id, 0 < lookup ROps tbl id.
  Proof.
    intros H id. induction tbl as [|[k v] tbl IH]; cbn.
    - lra.
    - destruct (k =? id)%Z; [eapply H; left; reflexivity|]. apply IH. intros k' v' Hin. eapply H. right. exact Hin.
  Qed.

  Lemma find_of_in l u : NoDup (ids l) -> In u l -> find l (u_id u) = Some u.
  Proof.
    induction l as [|x l IH]; cbn; intros Hnd Hin; [destruct Hin|].
    inversion Hnd as [|? ? Hni Hnd']; subst.
    destruct Hin as [->|Hin]; [rewrite Z.eqb_refl; reflexivity|].
    destruct (u_id x =? u_id u)%Z eqn:E.
    - apply Z.eqb_eq in E. exfalso. apply Hni. rewrite E. apply in_map. exact Hin.
    - apply IH; assumption.
  Qed.

  Lemma forall_by_find (P : unit -> Prop) l : NoDup (ids l) ->
    (forall id u, find l id = Some u -> P u) -> Forall P l.
  Proof.
    intros Hnd H. apply Forall_forall. intros u Hu. eapply H. apply find_of_in; eassumption.
  Qed.

  Lemma find_forall (P : unit -> Prop) l id u : Forall P l -> find l id = Some u -> P u.
  Proof. intros HF H. rewrite Forall_forall in HF. apply HF. eapply find_in. exact H. Qed.

  Lemma in_ids_unit l id : In id (ids l) -> exists u, In u l /\ u_id u = id.
  Proof. intros H. apply in_map_iff in H. destruct H as (u & H1 & H2). eauto. Qed.

  (* elapsed action value and the proportional shrink, at a turn start *)
  Lemma start_arith s hd u : Inv s -> In hd (order s) -> In u (order s) ->
    nltb ROps (av_of ROps s u) (av_of ROps s hd) = false ->
    let a := av_of ROps s hd in
    let x := a * spd ROps s (u_id u) in
    0 <= a /\ 0 <= x <= IZR (u_gauge u) /\
    (0 <= u_gauge u - Rtrunc x)%Z /\
    Rabs (IZR (u_gauge u - Rtrunc x) - (IZR (u_gauge u) - x)) < 1.
  Proof.
    intros (Hwf & Hg & Hs) Hhd Hu Hmin a x.
    unfold gauges_nonneg in Hg. rewrite Forall_forall in Hg.
    pose proof (Hg _ Hhd) as Ghd. pose proof (Hg _ Hu) as Gu.
    pose proof (Hs (u_id hd)) as Shd. pose proof (Hs (u_id u)) as Su.
    cbn in Hmin. apply Rltb_false in Hmin. unfold av_of in *. cbn [ndiv nofZ ROps] in *.
    apply IZR_le in Ghd, Gu. cbn in Ghd, Gu.
    assert (Ha : 0 <= a).
    { unfold a, av_of. cbn. apply Rmult_le_pos; [lra|]. left. apply Rinv_0_lt_compat. lra. }
    assert (Hx : 0 <= x <= IZR (u_gauge u)).
    { unfold x. split; [apply Rmult_le_pos; lra|].
      unfold a, av_of in *. cbn in *.
      apply Rmult_le_compat_r with (r := spd ROps s (u_id u)) in Hmin; [|lra].
      unfold Rdiv in Hmin at 2. rewrite Rmult_assoc, Rinv_l in Hmin by lra. lra. }
    destruct (Rtrunc_nonneg x (proj1 Hx)) as (T0 & T1 & T2).
    split; [exact Ha|]. split; [exact Hx|].
    assert (Hz : (Rtrunc x <= u_gauge u)%Z) by (apply le_IZR; lra).
    split; [lia|].
    rewrite minus_IZR. apply Rabs_def1; lra.
  Qed.

  Lemma resort_gauges s l : gauges_nonneg l -> gauges_nonneg (resort ROps s l).
  Proof. intros H. eapply Permutation_Forall; [apply resort_perm|exact H]. Qed.

  Lemma remove_id_sub (P : unit -> Prop) l id : Forall P l -> Forall P (remove_id l id).
  Proof.
    induction 1 as [|x l Hx Hl IH]; cbn; [constructor|].
    destruct (u_id x =? id)%Z; [assumption|constructor; assumption].
  Qed.

  Lemma fold_set_speed_order ivs (s : tstate) :
    order (fold_left (fun st iv => set_speed ROps st (fst iv) (snd iv)) ivs s) = order s.
  Proof. revert s. induction ivs as [|iv ivs IH]; intros s; cbn; [reflexivity|]. rewrite IH. reflexivity. Qed.

  Lemma fold_set_speed_pos ivs (s : tstate) : speeds_pos s -> Forall (fun iv => 0 < snd iv) ivs ->
    speeds_pos (fold_left (fun st iv => set_speed ROps st (fst iv) (snd iv)) ivs s).
  Proof.
    revert s. induction ivs as [|iv ivs IH]; intros s Hs HF; cbn; [exact Hs|].
    inversion HF; subst. apply IH; [|assumption].
    intros id. unfold spd, set_speed. cbn. destruct (fst iv =? id)%Z; [assumption|apply Hs].
  Qed.


  Lemma NoDup_app_local2 (a b : list Z) : NoDup a -> NoDup b -> (forall x, In x b -> ~ In x a) -> NoDup (a ++ b).
  Proof.
    induction a as [|x a IH]; intros Ha Hb Hd; cbn; [exact Hb|].
    inversion Ha as [|? ? Hni Ha']; subst. constructor.
    - intros Hin. apply in_app_or in Hin. destruct Hin as [Hin|Hin]; [contradiction|].
      apply (Hd x Hin). left. reflexivity.
    - apply IH; auto. intros y Hy Hya. apply (Hd y Hy). right. exact Hya.
  Qed.

  Lemma set_gauge_inv s o s' outs id : Inv s ->
    (exists amt, o = OSetGauge id amt \/ o = OModNorm id amt \/ o = OModAV id amt) ->
    step ROps s o = (s', outs) -> Inv s'.
  Proof.
    intros (Hwf & Hg & Hs) Ho H.
    pose proof (set_gauge_ops_ok ROps s o s' outs id Hwf Ho H) as (Foth & HP & _ & _ & _ & _ & Hsp & Hout).
    assert (Hwf' : wf ROps s').
    { unfold wf. eapply Permutation_NoDup; [symmetry; exact HP|exact Hwf]. }
    split; [exact Hwf'|]. split.
    - apply forall_by_find; [exact Hwf'|]. intros id0 u0 Hf0.
      destruct (Z.eq_dec id0 id) as [->|Hne].
      + destruct outs as [|e [|e2 outs]]; try contradiction.
        * subst s'. eapply (find_forall _ _ _ _ Hg Hf0).
        * destruct e; try contradiction.
          -- destruct Hout as (_ & _ & Hnew & Hnn & _). rewrite Hnew in Hf0. inversion Hf0; subst. exact Hnn.
          -- destruct Hout as [-> _]. eapply (find_forall _ _ _ _ Hg Hf0).
          -- subst s'. eapply (find_forall _ _ _ _ Hg Hf0).
        * destruct e; contradiction || (destruct e2; contradiction) || idtac.
          all: try (destruct Hout; fail).
      + rewrite (Foth _ Hne) in Hf0. eapply (find_forall _ _ _ _ Hg Hf0).
    - intros id0. unfold spd. rewrite Hsp. apply Hs.
  Qed.

  Theorem step_inv s o s' outs : Inv s -> op_ok s o -> step ROps s o = (s', outs) -> Inv s'.
  Proof.
    intros HI Hok H. pose proof HI as (Hwf & Hg & Hs).
    destruct o as [ivs|id| | |id amt|id amt|id amt|amt|amt|id v].
    - (* OAdd *)
      destruct Hok as (Hpos & Hnd & Hfresh). cbn [step] in H. inversion H; subst; clear H.
      set (s1 := fold_left (fun (st : tstate) (iv : Z * R) => set_speed N st (fst iv) (snd iv)) ivs s).
      assert (Ho1 : order s1 = order s) by apply fold_set_speed_order.
      assert (Hs1 : speeds_pos s1) by (apply fold_set_speed_pos; assumption).
      split; [|split].
      + unfold wf. cbn [order set_order]. eapply Permutation_NoDup; [apply ids_perm, resort_perm|].
        rewrite Ho1, ids_app. unfold ids at 2. rewrite map_map. cbn [u_id].
        apply NoDup_app_local2; auto.
      + cbn [order set_order]. apply resort_gauges. rewrite Ho1. apply Forall_app. split; [exact Hg|].
        apply Forall_forall. intros u Hu. apply in_map_iff in Hu. destruct Hu as (iv & <- & _). cbn. unfold BaseGauge. lia.
      + exact Hs1.
    - (* ORemove *)
      cbn [step] in H. destruct (find (order s) id); inversion H; subst; [|exact HI].
      split; [|split]; cbn [order set_order].
      + apply remove_id_nodup. exact Hwf.
      + apply remove_id_sub. exact Hg.
      + exact Hs.
    - (* OStart *)
      destruct outs as [|e [|e2 outs]].
      + cbn [step] in H. destruct (active s); [discriminate|].
        destruct (resort ROps s (order s)); [discriminate|].
        match type of H with context [negb ?b] => destruct (negb b) end; discriminate.
      + destruct e; try (cbn [step] in H; destruct (active s); [inversion H; subst; exact HI|];
          destruct (resort ROps s (order s)); [inversion H; subst; exact HI|];
          match type of H with context [negb ?b] => destruct (negb b) end; inversion H; subst; exact HI).
        destruct (start_ok ROps s s' id av st tot Hwf H) as ((hd & Hhd & Hid & Ha & Hmin & _ & _ & Fhd & Foth & HP & _ & _ & _ & Hsp) & _).
        assert (Hwf' : wf ROps s').
        { unfold wf. eapply Permutation_NoDup; [symmetry; exact HP|exact Hwf]. }
        split; [exact Hwf'|]. split.
        * apply forall_by_find; [exact Hwf'|]. intros id0 u0 Hf0.
          destruct (Z.eq_dec id0 id) as [->|Hne].
          -- rewrite Fhd in Hf0. inversion Hf0; subst. cbn. lia.
          -- assert (Hin0 : In id0 (ids (order s))).
             { eapply Permutation_in; [exact HP|]. eapply find_some_in_ids. exact Hf0. }
             destruct (in_ids_unit _ _ Hin0) as (u & Hu & Hidu). subst id0.
             rewrite (Foth u Hu Hne) in Hf0. inversion Hf0; subst. cbn [u_gauge].
             specialize (Hmin (keys_ok_R _ _) u Hu).
             destruct (start_arith s hd u HI Hhd Hu Hmin) as (_ & _ & Hnn & _). exact Hnn.
        * intros id0. unfold spd. rewrite Hsp. apply Hs.
      + cbn [step] in H. destruct (active s); [discriminate|].
        destruct (resort ROps s (order s)); [discriminate|].
        match type of H with context [negb ?b] => destruct (negb b) end; discriminate.
    - (* OReset *)
      pose proof (reset_ok ROps s s' outs Hwf H) as HR.
      destruct outs as [|e outs]; [cbn in HR; contradiction|].
      destruct e; cbn in HR; try contradiction; destruct outs; try contradiction.
      2: { destruct HR as [E _]. rewrite E. exact HI. }
      2: { rewrite HR. exact HI. }
      destruct HR as (_ & _ & -> & _ & _ & Foth & HP & Fid & _ & _ & Hsp & _).
      assert (Hwf' : wf ROps s').
      { unfold wf. eapply Permutation_NoDup; [symmetry; exact HP|exact Hwf]. }
      split; [exact Hwf'|]. split.
      + apply forall_by_find; [exact Hwf'|]. intros id0 u0 Hf0.
        destruct (Z.eq_dec id0 (atarget s)) as [->|Hne].
        * assert (Hin0 : In (atarget s) (ids (order s))).
          { eapply Permutation_in; [exact HP|]. eapply find_some_in_ids. exact Hf0. }
          rewrite (Fid Hin0) in Hf0. inversion Hf0; subst. cbn. lia.
        * rewrite (Foth _ Hne) in Hf0. eapply (find_forall _ _ _ _ Hg Hf0).
      + intros id0. unfold spd. rewrite Hsp. apply Hs.
    - (* OSetGauge *)
      eapply (set_gauge_inv s (OSetGauge id amt) s' outs id HI); [exists amt; auto|exact H].
    - eapply (set_gauge_inv s (OModNorm id amt) s' outs id HI); [exists amt; auto|exact H].
    - eapply (set_gauge_inv s (OModAV id amt) s' outs id HI); [exists amt; auto|exact H].
    - (* OSetCost *)
      cbn [step] in H. unfold do_set_cost in H. destruct (neqb ROps (cost s) amt); inversion H; subst; exact HI.
    - cbn [step] in H. unfold do_set_cost in H. destruct (neqb ROps (cost s) _); inversion H; subst; exact HI.
    - (* OSetSpeed *)
      cbn [step] in H. inversion H; subst. split; [exact Hwf|]. split; [exact Hg|].
      intros id0. unfold spd, set_speed. cbn. destruct (id =? id0)%Z; [exact Hok|apply Hs].
  Qed.
End RLevel.

(* ------------------------------------------------------------------ *)
(* Property-level statement over all legal histories (real instance)    *)
(* ------------------------------------------------------------------ *)
Section Histories.
  Open Scope R_scope.
  Notation tstate := (tstate ROps).
  Notation rop := (op ROps).


  Lemma forallb_forall_true {A} (l : list A) : forallb (fun _ => true) l = true.
  Proof. induction l; cbn; auto. Qed.

  Fixpoint legal (s : tstate) (ops : list rop) : Prop :=
    match ops with
    | [] => True
    | o :: r => op_ok s o /\ legal (fst (step ROps s o)) r
    end.

  Lemma init_inv : Inv (init ROps).
  Proof.
    split; [constructor|]. split; [constructor|]. intros id. unfold spd, init. cbn. lra.
  Qed.

  Lemma run_fst_cons s o r : fst (run ROps s (o :: r)) = fst (run ROps (fst (step ROps s o)) r).
  Proof.
    cbn [run]. destruct (step ROps s o) as [s1 e]. cbn [fst]. destruct (run ROps s1 r). reflexivity.
  Qed.

  Lemma run_inv ops : forall s, Inv s -> legal s ops -> Inv (fst (run ROps s ops)).
  Proof.
    induction ops as [|o r IH]; intros s HI HL; [exact HI|].
    rewrite run_fst_cons. destruct HL as [Hok HL]. apply IH; [|exact HL].
    destruct (step ROps s o) as [s1 e] eqn:ES. eapply step_inv; eassumption.
  Qed.

  Definition reachable (s : tstate) : Prop :=
    exists ops, legal (init ROps) ops /\ s = fst (run ROps (init ROps) ops).

  Lemma reachable_inv s : reachable s -> Inv s.
  Proof. intros (ops & HL & ->). apply run_inv; [apply init_inv|exact HL]. Qed.

  (* what a turn start does *)
  Definition turn_start_ok (s s' : tstate) (outs : list (out ROps)) : Prop :=
    match outs with
    | [EErr] => active s = true /\ s' = s                 (* already in a turn: refused *)
    | [EPanic] => order s = [] /\ s' = s                  (* no unit at all: the Go code panics *)
    | [EStart id a st tot] =>
        exists hd, In hd (order s) /\ u_id hd = id /\ a = av_of ROps s hd /\
          (* the acting unit has a minimal action value *)
          (forall u, In u (order s) -> a <= av_of ROps s u) /\
          (* elapsed AV is not negative and is added to the clock *)
          0 <= a /\ total s' = total s + a /\ tot = total s' /\ st = status ROps s' /\
          (* the acting unit is at 0; every other unit's gauge shrinks by its speed x elapsed AV
             (up to the integer truncation, < 1 gauge unit) and stays >= 0 *)
          find (order s') id = Some (mkU id 0) /\
          (forall u, In u (order s) -> u_id u <> id ->
             exists g', find (order s') (u_id u) = Some (mkU (u_id u) g') /\ (0 <= g')%Z /\
               Rabs (IZR g' - (IZR (u_gauge u) - a * spd ROps s (u_id u))) < 1) /\
          Permutation (ids (order s')) (ids (order s)) /\
          active s' = true /\ atarget s' = id /\ cost s' = 1
    | _ => False
    end.

  Lemma turn_start s s' outs : Inv s -> step ROps s OStart = (s', outs) -> turn_start_ok s s' outs.
  Proof.
    intros HI H. pose proof HI as (Hwf & Hg & Hs).
    assert (Hcases : (active s = true /\ outs = [EErr] /\ s' = s) \/
                     (order s = [] /\ outs = [EPanic] /\ s' = s) \/
                     (exists id a st tot, outs = [EStart id a st tot])).
    { cbn [step] in H. destruct (active s); [inversion H; auto|].
      pose proof (resort_perm ROps s (order s)) as HP.
      destruct (resort ROps s (order s)) as [|hd tl] eqn:ER.
      - apply Permutation_sym, Permutation_nil in HP. inversion H; subst; auto.
      - cbn [ntoZ_ok ROps] in H. rewrite forallb_forall_true in H. cbn [negb] in H.
        inversion H; subst. right. right. eauto. }
    destruct Hcases as [(Ha & -> & ->)|[(Ho & -> & ->)|(id & a & st & tot & ->)]]; cbn; auto.
    destruct (start_ok ROps s s' id a st tot Hwf H) as
      ((hd & Hhd & Hid & Ha & Hmin & Htot & Htot' & Fhd & Foth & HP & Hat & Hac & Hco & _) & Hst).
    exists hd. split; [exact Hhd|]. split; [exact Hid|]. split; [exact Ha|].
    specialize (Hmin (keys_ok_R _ _)).
    assert (Hmin' : forall u, In u (order s) -> a <= av_of ROps s u).
    { intros u Hu. specialize (Hmin u Hu). cbn in Hmin. apply Rltb_false in Hmin. exact Hmin. }
    split; [exact Hmin'|].
    assert (Ha0 : 0 <= a).
    { rewrite Ha. assert (Hm := Hmin hd Hhd). rewrite Ha in Hm.
      destruct (start_arith s hd hd HI Hhd Hhd Hm) as (H0 & _). exact H0. }
    split; [exact Ha0|]. split; [rewrite Htot', Htot; reflexivity|]. split; [congruence|].
    split; [exact Hst|]. split; [exact Fhd|]. split.
    { intros u Hu Hne. eexists. split; [apply Foth; assumption|].
      assert (Hm := Hmin u Hu). rewrite Ha in Hm.
      destruct (start_arith s hd u HI Hhd Hu Hm) as (_ & _ & Hnn & Habs).
      rewrite Ha. cbn [nmul ntoZ ROps]. split; [exact Hnn|exact Habs]. }
    split; [exact HP|]. split; [exact Hac|]. split; [exact Hat|]. exact Hco.
  Qed.

  Definition C02_statement : Prop :=
    forall s, reachable s ->
      (* invariant: unique units, no negative gauge, ever *)
      NoDup (ids (order s)) /\ Forall (fun u => (0 <= u_gauge u)%Z) (order s) /\
      forall o s' outs, op_ok s o -> step ROps s o = (s', outs) ->
        (o = OStart -> turn_start_ok s s' outs) /\
        (forall id amt, o = OSetGauge id amt \/ o = OModNorm id amt \/ o = OModAV id amt ->
           set_gauge_spec ROps s s' id outs) /\
        (o = OReset -> reset_spec ROps s s' outs).

  Theorem C02_holds : C02_statement.
  Proof.
    intros s Hr. pose proof (reachable_inv s Hr) as HI. pose proof HI as (Hwf & Hg & Hs).
    split; [exact Hwf|]. split; [exact Hg|].
    intros o s' outs Hok H. split; [|split].
    - intros ->. apply turn_start; assumption.
    - intros id amt Ho. eapply set_gauge_ops_ok; [exact Hwf| |exact H]. exists amt. exact Ho.
    - intros ->. apply reset_ok; assumption.
  Qed.
End Histories.

(* non-vacuity: a concrete history at the real instance is legal and reaches a state where a
   unit is advanced during another unit's turn *)
Example legal_history_exists :
  legal (init ROps) [@OAdd ROps [(1%Z, 100%R); (2%Z, 90%R)]; @OStart ROps; @OModNorm ROps 2%Z (-2)%R;
                     @OReset ROps; @OStart ROps].
Proof.
  cbn [legal op_ok]. split; [|tauto].
  split; [repeat constructor; cbn; lra|]. split.
  - cbn. repeat constructor; cbn; intuition discriminate.
  - intros id _ Hin. exact Hin.
Qed.
