(* Proofs about Model/Stats.v (property C06). *)
From Coq Require Import List ZArith Bool Lia Floats FinFun.
From SR Require Import Base.ListCount Model.Stats.
Import ListNotations.
Open Scope Z_scope.

(* ------------------------------------------------------------------ *)
(* Who holds which map                                                  *)
(* ------------------------------------------------------------------ *)
Definition opt_list (o : option Z) : list Z := match o with Some a => [a] | None => [] end.
Definition desc_addrs (d : desc6) : list Z := opt_list (ds_p d) ++ opt_list (ds_d d) ++ opt_list (ds_w d).
Definition inst_addrs (i : inst6) : list Z := if in_made i then [in_p i; in_d i; in_w i] else [].
Definition snap_addrs (x : snap6) : list Z := [sn_p x; sn_d x; sn_w x].

Definition live_d (s : st6) : list Z := flat_map desc_addrs (descs s).
Definition live_i (s : st6) : list Z := flat_map (fun t => inst_addrs (heap6 s t)) (tags_upto (ntag6 s)).
Definition live_s (s : st6) : list Z := flat_map snap_addrs (snaps s).
(* every map address held by a description, an instance or a kept snapshot, with multiplicity *)
Definition live (s : st6) : list Z := live_d s ++ live_i s ++ live_s s.

(* no map is held twice (neither by two owners nor twice by one), every held address is
   allocated, and the bookkeeping of tags is consistent *)
Definition wf6 (s : st6) : Prop :=
  0 <= ntag6 s /\ 0 <= nadr s /\
  (forall a, c (live s) a <= 1) /\
  (forall a, In a (live s) -> 0 <= a < nadr s) /\
  (forall t, in_made (heap6 s t) = true -> 0 <= t < ntag6 s) /\
  (forall u t, In t (tg6 s u) -> in_made (heap6 s t) = true).

Lemma tags_upto_in n t : In t (tags_upto n) <-> 0 <= t < n.
Proof.
  unfold tags_upto. rewrite in_map_iff. split.
  - intros (k & <- & Hk). apply in_seq in Hk. lia.
  - intros H. exists (Z.to_nat t). split; [lia|]. apply in_seq. lia.
Qed.

Lemma tags_upto_succ n : 0 <= n -> tags_upto (n + 1) = tags_upto n ++ [n].
Proof.
  intros H. unfold tags_upto. replace (Z.to_nat (n + 1)) with (S (Z.to_nat n)) by lia.
  rewrite seq_S, map_app. cbn. f_equal. f_equal. lia.
Qed.

Lemma flat_map_ext_in' {A B} (f g : A -> list B) l : (forall x, In x l -> f x = g x) -> flat_map f l = flat_map g l.
Proof.
  induction l as [|a l IH]; intros H; [reflexivity|]. cbn. rewrite (H a) by (left; reflexivity).
  rewrite IH; [reflexivity|]. intros x Hx. apply H. right. exact Hx.
Qed.

Lemma live_same s s' :
  descs s' = descs s -> snaps s' = snaps s -> ntag6 s' = ntag6 s ->
  (forall t, inst_addrs (heap6 s' t) = inst_addrs (heap6 s t)) -> live s' = live s.
Proof.
  intros E1 E2 E3 E4. unfold live, live_d, live_i, live_s. rewrite E1, E2, E3. f_equal. f_equal.
  apply flat_map_ext_in'. intros; apply E4.
Qed.

Lemma c_flat_in {A} (f : A -> list Z) l x a : In x l -> c (f x) a <= c (flat_map f l) a.
Proof.
  induction l as [|y l IH]; intros H; [destruct H|]. cbn. rewrite c_app.
  pose proof (c_nonneg (f y) a). pose proof (c_nonneg (flat_map f l) a).
  destruct H as [->|H]; [lia|]. specialize (IH H). lia.
Qed.

Lemma c_flat_two {A} (f : A -> list Z) : forall l i j x y a, nth_error l i = Some x -> nth_error l j = Some y -> i <> j ->
  c (f x) a + c (f y) a <= c (flat_map f l) a.
Proof.
  induction l as [|z l IH]; intros i j x y a Hi Hj Hne; [destruct i; discriminate|].
  cbn [flat_map]. rewrite c_app. pose proof (c_nonneg (f z) a).
  destruct i as [|i], j as [|j]; cbn in Hi, Hj.
  - congruence.
  - injection Hi as <-. apply nth_error_In in Hj. pose proof (c_flat_in f l y a Hj). lia.
  - injection Hj as <-. apply nth_error_In in Hi. pose proof (c_flat_in f l x a Hi). lia.
  - assert (i <> j) by congruence. specialize (IH i j x y a Hi Hj H0). lia.
Qed.

Lemma c_flat_two_in {A} (f : A -> list Z) : forall l x y a, NoDup l -> In x l -> In y l -> x <> y ->
  c (f x) a + c (f y) a <= c (flat_map f l) a.
Proof.
  intros l x y a Hn Hx Hy Hne.
  apply In_nth_error in Hx. apply In_nth_error in Hy. destruct Hx as [i Hi], Hy as [j Hj].
  apply (c_flat_two f l i j x y a Hi Hj). intros ->. congruence.
Qed.

Lemma tags_upto_nodup n : NoDup (tags_upto n).
Proof.
  unfold tags_upto. apply Injective_map_NoDup; [|apply seq_NoDup].
  intros a b H. lia.
Qed.

Lemma c_flat_change {A} (f g : A -> list Z) : forall l x a, NoDup l -> In x l -> (forall y, y <> x -> g y = f y) ->
  c (flat_map g l) a + c (f x) a = c (flat_map f l) a + c (g x) a.
Proof.
  induction l as [|z l IH]; intros x a Hn Hx Hfg; [destruct Hx|].
  inversion Hn as [|? ? Hni Hn']; subst. cbn [flat_map]. rewrite !c_app.
  destruct Hx as [->|Hx].
  - assert (E : flat_map g l = flat_map f l).
    { apply flat_map_ext_in'. intros y Hy. apply Hfg. intros ->. contradiction. }
    rewrite E. lia.
  - assert (z <> x) by (intros ->; contradiction). rewrite (Hfg z H). specialize (IH x a Hn' Hx Hfg). lia.
Qed.

(* ------------------------------------------------------------------ *)
(* State primitives                                                     *)
(* ------------------------------------------------------------------ *)
Lemma wf_alloc s m : wf6 s -> wf6 (fst (alloc s m)).
Proof.
  intros (H1 & H2 & H3 & H4 & H5 & H6). unfold wf6. change (live (fst (alloc s m))) with (live s).
  cbn [alloc fst ntag6 nadr heap6 tg6].
  split; [exact H1|]. split; [lia|]. split; [exact H3|].
  split; [intros a Ha; specialize (H4 a Ha); lia|]. split; [exact H5|exact H6].
Qed.

Lemma wf_write s a m : wf6 s -> wf6 (write s a m).
Proof. intros H. exact H. Qed.

Lemma wf_setl6 s u l : wf6 s -> (forall t, In t l -> in_made (heap6 s t) = true) -> wf6 (setl6 s u l).
Proof.
  intros (H1 & H2 & H3 & H4 & H5 & H6) Hl. unfold wf6. change (live (setl6 s u l)) with (live s).
  cbn [setl6 ntag6 nadr heap6 tg6].
  split; [exact H1|]. split; [exact H2|]. split; [exact H3|]. split; [exact H4|]. split; [exact H5|].
  intros x t. destruct (x =? u); [apply Hl|apply H6].
Qed.

Lemma live_set_ntag s : wf6 s -> live (set_ntag6 s (ntag6 s + 1)) = live s.
Proof.
  intros (H1 & H2 & H3 & H4 & H5 & H6). unfold live, live_d, live_i, live_s. cbn [set_ntag6 descs heap6 ntag6 snaps].
  rewrite tags_upto_succ by exact H1. rewrite flat_map_app. cbn [flat_map].
  unfold inst_addrs at 2. destruct (in_made (heap6 s (ntag6 s))) eqn:E; [apply H5 in E; lia|].
  rewrite !app_nil_r. reflexivity.
Qed.

Lemma wf_set_ntag s : wf6 s -> wf6 (set_ntag6 s (ntag6 s + 1)).
Proof.
  intros Hw. pose proof (live_set_ntag s Hw) as El. destruct Hw as (H1 & H2 & H3 & H4 & H5 & H6).
  unfold wf6. rewrite El. cbn [set_ntag6 ntag6 nadr heap6 tg6].
  split; [lia|]. split; [exact H2|]. split; [exact H3|]. split; [exact H4|].
  split; [intros t Ht; specialize (H5 t Ht); lia|exact H6].
Qed.

(* an unmade slot of the heap receives an instance *)
Lemma live_set_heap s tag i a : 0 <= tag < ntag6 s ->
  c (live (set_heap6 s tag i)) a + c (inst_addrs (heap6 s tag)) a = c (live s) a + c (inst_addrs i) a.
Proof.
  intros Ht. unfold live, live_d, live_i, live_s. cbn [set_heap6 descs heap6 ntag6 snaps].
  rewrite !c_app.
  pose proof (c_flat_change (fun t => inst_addrs (heap6 s t)) (fun t => inst_addrs (if t =? tag then i else heap6 s t))
                (tags_upto (ntag6 s)) tag a (tags_upto_nodup _) (proj2 (tags_upto_in _ _) Ht)) as E.
  cbn beta in E. rewrite Z.eqb_refl in E.
  assert (E' : forall y : Z, y <> tag -> inst_addrs (if y =? tag then i else heap6 s y) = inst_addrs (heap6 s y)).
  { intros y Hy. assert (Hf : (y =? tag) = false) by lia. rewrite Hf. reflexivity. }
  specialize (E E'). lia.
Qed.

Lemma wf_set_heap_same s tag i : wf6 s ->
  in_made i = in_made (heap6 s tag) -> in_p i = in_p (heap6 s tag) -> in_d i = in_d (heap6 s tag) ->
  in_w i = in_w (heap6 s tag) -> wf6 (set_heap6 s tag i).
Proof.
  intros (H1 & H2 & H3 & H4 & H5 & H6) E1 E2 E3 E4.
  assert (El : live (set_heap6 s tag i) = live s).
  { apply live_same; try reflexivity. intros t. cbn [set_heap6 heap6]. destruct (t =? tag) eqn:E; [|reflexivity].
    apply Z.eqb_eq in E. subst. unfold inst_addrs. rewrite E1, E2, E3, E4. reflexivity. }
  unfold wf6. rewrite El. cbn [set_heap6 ntag6 nadr heap6 tg6].
  split; [exact H1|]. split; [exact H2|]. split; [exact H3|]. split; [exact H4|]. split.
  - intros t H. destruct (t =? tag) eqn:E; [apply Z.eqb_eq in E; subst; rewrite E1 in H; apply H5 in H; lia|apply H5 in H; lia].
  - intros u t Hin. specialize (H6 u t Hin). destruct (t =? tag) eqn:E; [apply Z.eqb_eq in E; subst; congruence|exact H6].
Qed.

Lemma wf_give_handle s tag : wf6 s -> wf6 (give_handle s tag).
Proof. intros H. unfold give_handle. apply wf_set_heap_same; auto. Qed.

Lemma c_three n a : c [n; n + 1; n + 2] a <= 1 /\ (0 < c [n; n + 1; n + 2] a -> n <= a < n + 3).
Proof.
  rewrite !c_cons, c_nil.
  destruct (Z.eq_dec n a), (Z.eq_dec (n + 1) a), (Z.eq_dec (n + 2) a); lia.
Qed.

(* three fresh cells are given to a new owner *)
Lemma wf_new_owner s s' n :
  wf6 s -> n + 3 <= nadr s -> (forall a, In a (live s) -> a < n) -> 0 <= n ->
  (forall a, c (live s') a = c (live s) a + c [n; n + 1; n + 2] a) ->
  ntag6 s' = ntag6 s -> nadr s' = nadr s ->
  (forall t, in_made (heap6 s' t) = true -> 0 <= t < ntag6 s) ->
  (forall u t, In t (tg6 s' u) -> in_made (heap6 s' t) = true) ->
  wf6 s'.
Proof.
  intros (H1 & H2 & H3 & H4 & H5 & H6) Hn Hl Hn0 Hc Et Ea Hm Hg.
  unfold wf6. rewrite Et, Ea.
  split; [exact H1|]. split; [exact H2|]. split; [|split; [|split; [exact Hm|exact Hg]]].
  - intros a. rewrite Hc. destruct (c_three n a) as [T1 T2]. pose proof (c_nonneg (live s) a). pose proof (c_nonneg [n; n + 1; n + 2] a).
    specialize (H3 a). destruct (Z.eq_dec (c (live s) a) 0) as [E|E]; [lia|].
    assert (Hin : In a (live s)) by (apply c_in; lia). specialize (Hl a Hin).
    destruct (Z.eq_dec (c [n; n + 1; n + 2] a) 0); [lia|]. assert (n <= a < n + 3) by (apply T2; lia). lia.
  - intros a H. apply c_in in H. rewrite Hc in H. destruct (Z.eq_dec (c (live s) a) 0) as [E|E].
    + destruct (c_three n a) as [_ T2]. assert (n <= a < n + 3) by (apply T2; lia). lia.
    + pose proof (c_nonneg (live s) a). assert (Hin : In a (live s)) by (apply c_in; lia). apply H4 in Hin. lia.
Qed.

(* ------------------------------------------------------------------ *)
(* The repaired model (aliasing = false)                                *)
(* ------------------------------------------------------------------ *)
Section Fixed.
  Variable w : world6.
  Notation step := (step6 false w).

  Definition alloc3 (s : st6) (m1 m2 m3 : fmap) : st6 := fst (alloc (fst (alloc (fst (alloc s m1)) m2)) m3).

  Lemma alloc3_facts s m1 m2 m3 :
    let s3 := alloc3 s m1 m2 m3 in
    nadr s3 = nadr s + 3 /\ live s3 = live s /\ descs s3 = descs s /\ snaps s3 = snaps s /\ ntag6 s3 = ntag6 s /\
    heap6 s3 = heap6 s /\ tg6 s3 = tg6 s /\
    (forall a, store s3 a = if a =? nadr s + 2 then m3 else if a =? nadr s + 1 then m2 else if a =? nadr s then m1 else store s a).
  Proof.
    cbn. repeat split; try reflexivity; try lia.
    intros a. replace (nadr s + 1 + 1) with (nadr s + 2) by lia. reflexivity.
  Qed.

  Lemma wf_alloc3 s m1 m2 m3 : wf6 s -> wf6 (alloc3 s m1 m2 m3).
  Proof. intros H. unfold alloc3. apply wf_alloc, wf_alloc, wf_alloc, H. Qed.

  Lemma new_inst_eq s u d tag : exists m1 m2 m3,
    new_inst false s u d tag =
    set_heap6 (alloc3 s m1 m2 m3) tag (mkIn true (ds_name d) u (ds_src d) (nadr s) (nadr s + 1) (nadr s + 1 + 1) false) /\
    m1 = map_of s (ds_p d) /\ (forall k, (forall a, ds_d d = Some a -> a < nadr s) -> m2 k = map_of s (ds_d d) k) /\
    (forall k, (forall a, ds_w d = Some a -> a < nadr s) -> m3 k = map_of s (ds_w d) k).
  Proof.
    exists (map_of s (ds_p d)), (map_of (fst (alloc s (map_of s (ds_p d)))) (ds_d d)),
           (map_of (fst (alloc (fst (alloc s (map_of s (ds_p d)))) (map_of (fst (alloc s (map_of s (ds_p d)))) (ds_d d)))) (ds_w d)).
    split; [unfold new_inst, alloc3; destruct (ds_p d), (ds_d d), (ds_w d); reflexivity|].
    split; [reflexivity|]. split.
    - intros k H. destruct (ds_d d) as [a|]; [|reflexivity]. cbn. specialize (H a eq_refl).
      assert (E : (a =? nadr s) = false) by lia. rewrite E. reflexivity.
    - intros k H. destruct (ds_w d) as [a|]; [|reflexivity]. cbn. specialize (H a eq_refl).
      assert (E : (a =? nadr s + 1) = false) by lia. assert (E' : (a =? nadr s) = false) by lia. rewrite E, E'. reflexivity.
  Qed.

  Lemma wf_new_inst s u d tag : wf6 s -> 0 <= tag < ntag6 s -> in_made (heap6 s tag) = false ->
    wf6 (new_inst false s u d tag).
  Proof.
    intros Hw Ht Hm. destruct (new_inst_eq s u d tag) as (m1 & m2 & m3 & -> & _).
    set (i := mkIn _ _ _ _ _ _ _ _).
    destruct (alloc3_facts s m1 m2 m3) as (A1 & A2 & A3 & A4 & A5 & A6 & A7 & A8). cbn zeta in *.
    pose proof (wf_alloc3 s m1 m2 m3 Hw) as Hw3.
    apply (wf_new_owner (alloc3 s m1 m2 m3) _ (nadr s) Hw3).
    - lia.
    - intros a Ha. rewrite A2 in Ha. destruct Hw as (_ & _ & _ & H4 & _). apply H4 in Ha. lia.
    - destruct Hw as (_ & H2 & _). exact H2.
    - intros a. pose proof (live_set_heap (alloc3 s m1 m2 m3) tag i a) as E. rewrite A5 in E. specialize (E Ht).
      rewrite A6 in E. unfold inst_addrs at 1 in E. rewrite Hm in E. rewrite c_nil in E.
      unfold inst_addrs in E. cbn [in_made i in_p in_d in_w] in E.
      replace (nadr s + 1 + 1) with (nadr s + 2) in E by lia. lia.
    - reflexivity.
    - reflexivity.
    - intros t. cbn [set_heap6 heap6]. rewrite A6, A5. destruct (t =? tag) eqn:E.
      + apply Z.eqb_eq in E. subst. intros _. exact Ht.
      + destruct Hw as (_ & _ & _ & _ & H5 & _). apply H5.
    - intros x t. cbn [set_heap6 tg6 heap6]. rewrite A7, A6. intros Hin.
      destruct Hw as (_ & _ & _ & _ & _ & H6). specialize (H6 x t Hin). destruct (t =? tag); [reflexivity|exact H6].
  Qed.

  Lemma replace_name6_in h n new : forall l t, In t (replace_name6 h n new l) -> t = new \/ In t l.
  Proof.
    induction l as [|m l IH]; cbn; [tauto|]. intros t. destruct (_ =? n); cbn.
    - intros [H|H]; auto.
    - intros [H|H]; [auto|]. destruct (IH t H); auto.
  Qed.

  Lemma wf_attach6 s u tag n : wf6 s -> in_made (heap6 s tag) = true -> wf6 (attach6 w s u tag n).
  Proof.
    intros Hw Hm.
    assert (Happ : wf6 (give_handle (setl6 s u (tg6 s u ++ [tag])) tag)).
    { apply wf_give_handle, wf_setl6; [exact Hw|]. intros t Ht. apply in_app_or in Ht.
      destruct Ht as [Ht|[<-|[]]]; [|exact Hm]. destruct Hw as (_ & _ & _ & _ & _ & H6). eapply H6, Ht. }
    unfold attach6. destruct (k_stack _).
    - destruct (find_name6 _ _ _); [exact Hw|exact Happ].
    - destruct (find_name6 _ _ _); [|exact Happ].
      apply wf_give_handle, wf_setl6; [exact Hw|]. intros t Ht. apply replace_name6_in in Ht.
      destruct Ht as [->|Ht]; [exact Hm|]. destruct Hw as (_ & _ & _ & _ & _ & H6). eapply H6, Ht.
    - exact Happ.
  Qed.

  Lemma new_inst_made s u d tag : in_made (heap6 (new_inst false s u d tag) tag) = true.
  Proof. destruct (new_inst_eq s u d tag) as (m1 & m2 & m3 & -> & _). cbn. rewrite Z.eqb_refl. reflexivity. Qed.

  Lemma wf_add6 s u dn : wf6 s -> wf6 (add6 false w s u dn).
  Proof.
    intros Hw. unfold add6. destruct (nth_error _ _) as [d|]; [|exact Hw].
    pose proof (wf_set_ntag s Hw) as Hw1.
    destruct (_ || _); [exact Hw1|].
    apply wf_attach6; [|apply new_inst_made].
    apply wf_new_inst; [exact Hw1| |].
    - cbn. destruct Hw as (H1 & _). lia.
    - cbn. destruct (in_made (heap6 s (ntag6 s))) eqn:E; [|reflexivity].
      destruct Hw as (_ & _ & _ & _ & H5 & _). apply H5 in E. lia.
  Qed.

  Lemma remove_first6_in x : forall l t, In t (remove_first6 x l) -> In t l.
  Proof. induction l as [|m l IH]; cbn; [tauto|]. intros t. destruct (m =? x); cbn; [tauto|]. intros [H|H]; auto. Qed.

  Lemma wf_upd_cell s a k f : wf6 s -> wf6 (upd_cell s a k f).
  Proof. intros H. exact H. Qed.

  Lemma wf_snap s u : wf6 s -> wf6 (step s (PSnap u)).
  Proof.
    intros Hw. cbn [step6].
    change (let (s1, pa) := alloc s (eval_p w s u) in
            let (s2, da) := alloc s1 (eval_d w s u) in
            let (s3, wa) := alloc s2 (eval_w w s u) in
            add_snap s3 (mkSn pa da wa (filter (eval_flag w s u) (w6_fk w)) (map (eval_count w s u) statuses)))
      with (add_snap (alloc3 s (eval_p w s u) (eval_d w s u) (eval_w w s u))
                     (mkSn (nadr s) (nadr s + 1) (nadr s + 1 + 1) (filter (eval_flag w s u) (w6_fk w)) (map (eval_count w s u) statuses))).
    destruct (alloc3_facts s (eval_p w s u) (eval_d w s u) (eval_w w s u)) as (A1 & A2 & A3 & A4 & A5 & A6 & A7 & A8). cbn zeta in *.
    pose proof (wf_alloc3 s (eval_p w s u) (eval_d w s u) (eval_w w s u) Hw) as Hw3.
    set (s3 := alloc3 s _ _ _) in *.
    apply (wf_new_owner s3 _ (nadr s) Hw3).
    - lia.
    - intros a Ha. rewrite A2 in Ha. destruct Hw as (_ & _ & _ & H4 & _). apply H4 in Ha. lia.
    - destruct Hw as (_ & H2 & _). exact H2.
    - intros a. unfold live, live_d, live_i, live_s. cbn [add_snap descs heap6 ntag6 snaps].
      rewrite flat_map_app, !c_app. cbn [flat_map snap_addrs sn_p sn_d sn_w]. rewrite app_nil_r.
      replace (nadr s + 1 + 1) with (nadr s + 2) by lia. unfold snap_addrs. cbn [sn_p sn_d sn_w]. lia.
    - reflexivity.
    - reflexivity.
    - destruct Hw3 as (_ & _ & _ & _ & H5 & _). exact H5.
    - destruct Hw3 as (_ & _ & _ & _ & _ & H6). exact H6.
  Qed.

  Theorem wf_step s o : wf6 s -> wf6 (step s o).
  Proof.
    intros Hw. destruct o; cbn [step6].
    - apply wf_add6, Hw.
    - apply wf_setl6; [exact Hw|]. intros t Ht. apply filter_In in Ht. destruct Hw as (_ & _ & _ & _ & _ & H6). eapply H6, Ht.
    - destruct (in_handle _); [|exact Hw]. apply wf_setl6; [exact Hw|]. intros t Ht. apply remove_first6_in in Ht.
      destruct Hw as (_ & _ & _ & _ & _ & H6). eapply H6, Ht.
    - destruct (nth_error _ _) as [dd|]; [|exact Hw]. destruct (desc_addr _ _); exact Hw.
    - destruct (in_handle _); exact Hw.
    - destruct (in_handle _); exact Hw.
    - destruct (in_handle _); exact Hw.
    - destruct (in_handle _); exact Hw.
    - destruct (in_handle _); exact Hw.
    - apply wf_snap, Hw.
    - destruct (nth_error _ _); exact Hw.
    - destruct (nth_error _ _); exact Hw.
    - exact Hw.
  Qed.

  (* ---- a handle exists only for an instance that was made ---- *)
  Definition hm (s : st6) : Prop := forall t, in_handle (heap6 s t) = true -> in_made (heap6 s t) = true.

  Lemma hm_attach6 s u tag n : hm s -> in_made (heap6 s tag) = true -> hm (attach6 w s u tag n).
  Proof.
    intros Hh Hm.
    assert (Hg : forall l, hm (give_handle (setl6 s u l) tag)).
    { intros l t. cbn [give_handle set_heap6 setl6 heap6]. destruct (t =? tag) eqn:E; [|apply Hh].
      cbn. intros _. exact Hm. }
    unfold attach6. destruct (k_stack _); try destruct (find_name6 _ _ _); auto.
  Qed.

  Lemma hm_step s o : wf6 s -> hm s -> hm (step s o).
  Proof.
    intros Hw Hh. destruct o; cbn [step6]; try exact Hh.
    - unfold add6. destruct (nth_error _ _) as [dd|]; [|exact Hh]. destruct (_ || _); [exact Hh|].
      apply hm_attach6; [|apply new_inst_made].
      destruct (new_inst_eq (set_ntag6 s (ntag6 s + 1)) u dd (ntag6 s)) as (m1 & m2 & m3 & -> & _).
      intros t. cbn [set_heap6 heap6 alloc3 alloc fst set_ntag6]. destruct (t =? ntag6 s); [cbn; discriminate|apply Hh].
    - destruct (in_handle _); exact Hh.
    - destruct (nth_error _ _) as [dd|]; [|exact Hh]. destruct (desc_addr _ _); exact Hh.
    - destruct (in_handle _); exact Hh.
    - destruct (in_handle _); exact Hh.
    - destruct (in_handle _); exact Hh.
    - destruct (in_handle _); exact Hh.
    - destruct (in_handle _); exact Hh.
    - destruct (nth_error _ _); exact Hh.
    - destruct (nth_error _ _); exact Hh.
  Qed.

  (* ---- the initial state ---- *)
  Lemma wf_add_desc s d n : wf6 s -> (forall a, In a (live s) -> a < n) -> 0 <= n ->
    (forall a, c (desc_addrs d) a <= 1) -> (forall a, In a (desc_addrs d) -> n <= a < nadr s) -> wf6 (add_desc s d).
  Proof.
    intros (H1 & H2 & H3 & H4 & H5 & H6) Hl Hn Hc Hr.
    assert (El : forall a, c (live (add_desc s d)) a = c (live s) a + c (desc_addrs d) a).
    { intros a. unfold live, live_d, live_i, live_s. cbn [add_desc descs heap6 ntag6 snaps].
      rewrite flat_map_app, !c_app. cbn [flat_map]. rewrite app_nil_r. lia. }
    unfold wf6. cbn [add_desc ntag6 nadr heap6 tg6].
    split; [exact H1|]. split; [exact H2|]. split; [|split; [|split; [exact H5|exact H6]]].
    - intros a. rewrite El. specialize (H3 a). specialize (Hc a).
      pose proof (c_nonneg (live s) a). pose proof (c_nonneg (desc_addrs d) a).
      destruct (Z.eq_dec (c (live s) a) 0); [lia|]. destruct (Z.eq_dec (c (desc_addrs d) a) 0); [lia|].
      assert (I1 : In a (live s)) by (apply c_in; lia). assert (I2 : In a (desc_addrs d)) by (apply c_in; lia).
      specialize (Hl a I1). specialize (Hr a I2). lia.
    - intros a Ha. apply c_in in Ha. rewrite El in Ha. pose proof (c_nonneg (live s) a).
      destruct (Z.eq_dec (c (live s) a) 0).
      + assert (I2 : In a (desc_addrs d)) by (apply c_in; lia). specialize (Hr a I2). lia.
      + assert (I1 : In a (live s)) by (apply c_in; lia). apply H4, I1.
  Qed.

  Lemma init_desc_wf s d : wf6 s -> wf6 (init_desc s d).
  Proof.
    intros Hw. pose proof Hw as (H1 & H2 & H3 & H4 & H5 & H6).
    assert (Hb : forall a, In a (live s) -> a < nadr s) by (intros a Ha; apply H4 in Ha; lia).
    unfold init_desc, alloc_opt.
    destruct (di_p d) as [lp|], (di_d d) as [ld|], (di_w d) as [lw|]; cbn [alloc fst snd].
    all: match goal with |- wf6 (add_desc ?S ?D) =>
           apply (wf_add_desc S D (nadr s)); [repeat apply wf_alloc; exact Hw| exact Hb | exact H2 | |] end.
    all: try (intros a; unfold desc_addrs, opt_list; cbn [ds_p ds_d ds_w app nadr]; rewrite ?c_cons, ?c_nil;
              repeat match goal with |- context [Z.eq_dec ?x ?y] => destruct (Z.eq_dec x y) end; lia).
    all: intros a; unfold desc_addrs, opt_list; cbn [ds_p ds_d ds_w app In nadr]; intros Ha; lia.
  Qed.

  Lemma hm_init_desc s d : hm s -> hm (init_desc s d).
  Proof.
    intros Hh. unfold init_desc, alloc_opt.
    destruct (di_p d), (di_d d), (di_w d); cbn [alloc fst snd]; exact Hh.
  Qed.

  Lemma init6_ok : wf6 (init6 w) /\ hm (init6 w).
  Proof.
    unfold init6.
    assert (H0 : wf6 (mkS6 (fun _ => fzero) 0 [] (fun _ => inst6_0) 0 (fun _ => []) []) /\
                 hm (mkS6 (fun _ => fzero) 0 [] (fun _ => inst6_0) 0 (fun _ => []) [])).
    { split; [|intros t; cbn; discriminate]. unfold wf6. cbn.
      split; [lia|]. split; [lia|]. split; [intros; lia|]. split; [tauto|]. split; [discriminate|tauto]. }
    revert H0. generalize (mkS6 (fun _ => fzero) 0 [] (fun _ => inst6_0) 0 (fun _ => []) []).
    induction (w6_descs w) as [|d ds IH]; intros s0 [Hw Hh]; cbn [fold_left]; [auto|].
    apply IH. split; [apply init_desc_wf, Hw|apply hm_init_desc, Hh].
  Qed.

  Theorem reachable_ok ops : wf6 (exec6 false w (init6 w) ops) /\ hm (exec6 false w (init6 w) ops).
  Proof.
    generalize init6_ok. generalize (init6 w). induction ops as [|o ops IH]; intros s [Hw Hh]; cbn [exec6]; [auto|].
    apply IH. split; [apply wf_step, Hw|apply hm_step; assumption].
  Qed.

  (* ------------------------------------------------------------------ *)
  (* Frame: what an operation can change                                  *)
  (* ------------------------------------------------------------------ *)
  (* addresses of already allocated cells an operation may overwrite *)
  Definition written (s : st6) (o : op6) : list Z :=
    match o with
    | PDescSet d kind _ _ =>
        match nth_error (descs s) d with Some dd => opt_list (desc_addr dd kind) | None => [] end
    | PInstAddP t _ _ | PInstSetP t _ _ => if in_handle (heap6 s t) then [in_p (heap6 s t)] else []
    | PInstAddD t _ _ => if in_handle (heap6 s t) then [in_d (heap6 s t)] else []
    | PInstAddW t _ | PInstDelW t _ => if in_handle (heap6 s t) then [in_w (heap6 s t)] else []
    | PSnapAddP k _ _ => match nth_error (snaps s) k with Some x => [sn_p x] | None => [] end
    | PSnapAddD k _ _ => match nth_error (snaps s) k with Some x => [sn_d x] | None => [] end
    | _ => []
    end.

  Lemma store_attach6 s u tag n : store (attach6 w s u tag n) = store s.
  Proof. unfold attach6. destruct (k_stack _); try destruct (find_name6 _ _ _); reflexivity. Qed.

  (* an allocated cell changes only if the operation names its owner's map *)
  Theorem frame s o a : a < nadr s -> ~ In a (written s o) -> store (step s o) a = store s a.
  Proof.
    intros Ha Hn. destruct o; cbn [step6 written] in *; try reflexivity.
    - unfold add6. destruct (nth_error _ _) as [dd|]; [|reflexivity]. destruct (_ || _); [reflexivity|].
      rewrite store_attach6.
      destruct (new_inst_eq (set_ntag6 s (ntag6 s + 1)) u dd (ntag6 s)) as (m1 & m2 & m3 & -> & _).
      cbn [set_heap6 store]. destruct (alloc3_facts (set_ntag6 s (ntag6 s + 1)) m1 m2 m3) as (_ & _ & _ & _ & _ & _ & _ & A8).
      cbn zeta in A8. rewrite A8. cbn [set_ntag6 nadr store].
      assert (E1 : (a =? nadr s + 2) = false) by lia. assert (E2 : (a =? nadr s + 1) = false) by lia.
      assert (E3 : (a =? nadr s) = false) by lia. rewrite E1, E2, E3. reflexivity.
    - destruct (in_handle _); reflexivity.
    - destruct (nth_error _ _) as [dd|]; [|reflexivity]. destruct (desc_addr dd kind) as [x|]; [|reflexivity].
      cbn [opt_list In] in Hn. cbn. assert (E : (a =? x) = false) by (apply Z.eqb_neq; intros ->; tauto). rewrite E. reflexivity.
    - destruct (in_handle _); [|reflexivity]. cbn [In] in Hn. cbn.
      assert (E : (a =? in_p (heap6 s tag)) = false) by (apply Z.eqb_neq; intros ->; tauto). rewrite E. reflexivity.
    - destruct (in_handle _); [|reflexivity]. cbn [In] in Hn. cbn.
      assert (E : (a =? in_p (heap6 s tag)) = false) by (apply Z.eqb_neq; intros ->; tauto). rewrite E. reflexivity.
    - destruct (in_handle _); [|reflexivity]. cbn [In] in Hn. cbn.
      assert (E : (a =? in_d (heap6 s tag)) = false) by (apply Z.eqb_neq; intros ->; tauto). rewrite E. reflexivity.
    - destruct (in_handle _); [|reflexivity]. cbn [In] in Hn. cbn.
      assert (E : (a =? in_w (heap6 s tag)) = false) by (apply Z.eqb_neq; intros ->; tauto). rewrite E. reflexivity.
    - destruct (in_handle _); [|reflexivity]. cbn [In] in Hn. cbn.
      assert (E : (a =? in_w (heap6 s tag)) = false) by (apply Z.eqb_neq; intros ->; tauto). rewrite E. reflexivity.
    - cbn. assert (E1 : (a =? nadr s + 1 + 1) = false) by lia. assert (E2 : (a =? nadr s + 1) = false) by lia.
      assert (E3 : (a =? nadr s) = false) by lia. rewrite E1, E2, E3. reflexivity.
    - destruct (nth_error _ _) as [x|]; [|reflexivity]. cbn [In] in Hn. cbn.
      assert (E : (a =? sn_p x) = false) by (apply Z.eqb_neq; intros ->; tauto). rewrite E. reflexivity.
    - destruct (nth_error _ _) as [x|]; [|reflexivity]. cbn [In] in Hn. cbn.
      assert (E : (a =? sn_d x) = false) by (apply Z.eqb_neq; intros ->; tauto). rewrite E. reflexivity.
  Qed.

  (* ------------------------------------------------------------------ *)
  (* Owners                                                               *)
  (* ------------------------------------------------------------------ *)
  Inductive obj := ODesc (d : nat) | OInst (t : Z) | OSnapshot (k : nat).

  Definition addrs_of (s : st6) (x : obj) : list Z :=
    match x with
    | ODesc d => match nth_error (descs s) d with Some dd => desc_addrs dd | None => [] end
    | OInst t => if (0 <=? t) && (t <? ntag6 s) then inst_addrs (heap6 s t) else []
    | OSnapshot k => match nth_error (snaps s) k with Some x => snap_addrs x | None => [] end
    end.

  Definition target_of (o : op6) : option obj :=
    match o with
    | PDescSet d _ _ _ => Some (ODesc d)
    | PInstAddP t _ _ | PInstSetP t _ _ | PInstAddD t _ _ | PInstAddW t _ | PInstDelW t _ => Some (OInst t)
    | PSnapAddP k _ _ | PSnapAddD k _ _ => Some (OSnapshot k)
    | _ => None
    end.

  Lemma addrs_live s x a : In a (addrs_of s x) -> In a (live s).
  Proof.
    unfold live. destruct x as [d|t|k]; cbn [addrs_of]; intros H.
    - destruct (nth_error (descs s) d) as [dd|] eqn:E; [|destruct H]. apply in_or_app. left.
      unfold live_d. apply in_flat_map. exists dd. split; [eapply nth_error_In, E|exact H].
    - destruct ((0 <=? t) && (t <? ntag6 s)) eqn:E; [|destruct H]. apply in_or_app. right. apply in_or_app. left.
      unfold live_i. apply in_flat_map. exists t. split; [apply tags_upto_in; lia|exact H].
    - destruct (nth_error (snaps s) k) as [xx|] eqn:E; [|destruct H]. apply in_or_app. right. apply in_or_app. right.
      unfold live_s. apply in_flat_map. exists xx. split; [eapply nth_error_In, E|exact H].
  Qed.

  (* two different owners hold no map in common, and the maps of one owner are different maps *)
  Theorem owners_disjoint s x y a : wf6 s -> x <> y -> In a (addrs_of s x) -> In a (addrs_of s y) -> False.
  Proof.
    intros (_ & _ & H3 & _) Hne Hx Hy. specialize (H3 a). unfold live in H3. rewrite !c_app in H3.
    pose proof (c_nonneg (live_d s) a). pose proof (c_nonneg (live_i s) a). pose proof (c_nonneg (live_s s) a).
    apply c_in in Hx. apply c_in in Hy.
    destruct x as [d|t|k], y as [d'|t'|k']; cbn [addrs_of] in Hx, Hy.
    - destruct (nth_error (descs s) d) as [dd|] eqn:E1; [|rewrite c_nil in Hx; lia].
      destruct (nth_error (descs s) d') as [dd'|] eqn:E2; [|rewrite c_nil in Hy; lia].
      assert (d <> d') by congruence.
      pose proof (c_flat_two desc_addrs (descs s) d d' dd dd' a E1 E2 H2). unfold live_d in *. lia.
    - destruct (nth_error (descs s) d) as [dd|] eqn:E1; [|rewrite c_nil in Hx; lia].
      destruct ((0 <=? t') && (t' <? ntag6 s)) eqn:E2; [|rewrite c_nil in Hy; lia].
      pose proof (c_flat_in desc_addrs (descs s) dd a (nth_error_In _ _ E1)).
      pose proof (c_flat_in (fun t => inst_addrs (heap6 s t)) (tags_upto (ntag6 s)) t' a (proj2 (tags_upto_in (ntag6 s) t') ltac:(lia))).
      cbn beta in *. unfold live_d, live_i in *. lia.
    - destruct (nth_error (descs s) d) as [dd|] eqn:E1; [|rewrite c_nil in Hx; lia].
      destruct (nth_error (snaps s) k') as [xx|] eqn:E2; [|rewrite c_nil in Hy; lia].
      pose proof (c_flat_in desc_addrs (descs s) dd a (nth_error_In _ _ E1)).
      pose proof (c_flat_in snap_addrs (snaps s) xx a (nth_error_In _ _ E2)). unfold live_d, live_s in *. lia.
    - destruct ((0 <=? t) && (t <? ntag6 s)) eqn:E1; [|rewrite c_nil in Hx; lia].
      destruct (nth_error (descs s) d') as [dd|] eqn:E2; [|rewrite c_nil in Hy; lia].
      pose proof (c_flat_in desc_addrs (descs s) dd a (nth_error_In _ _ E2)).
      pose proof (c_flat_in (fun t => inst_addrs (heap6 s t)) (tags_upto (ntag6 s)) t a (proj2 (tags_upto_in (ntag6 s) t) ltac:(lia))).
      cbn beta in *. unfold live_d, live_i in *. lia.
    - destruct ((0 <=? t) && (t <? ntag6 s)) eqn:E1; [|rewrite c_nil in Hx; lia].
      destruct ((0 <=? t') && (t' <? ntag6 s)) eqn:E2; [|rewrite c_nil in Hy; lia].
      assert (t <> t') by congruence.
      pose proof (c_flat_two_in (fun t => inst_addrs (heap6 s t)) (tags_upto (ntag6 s)) t t' a (tags_upto_nodup _)
                    (proj2 (tags_upto_in (ntag6 s) t) ltac:(lia)) (proj2 (tags_upto_in (ntag6 s) t') ltac:(lia)) H2).
      cbn beta in *. unfold live_i in *. lia.
    - destruct ((0 <=? t) && (t <? ntag6 s)) eqn:E1; [|rewrite c_nil in Hx; lia].
      destruct (nth_error (snaps s) k') as [xx|] eqn:E2; [|rewrite c_nil in Hy; lia].
      pose proof (c_flat_in snap_addrs (snaps s) xx a (nth_error_In _ _ E2)).
      pose proof (c_flat_in (fun t => inst_addrs (heap6 s t)) (tags_upto (ntag6 s)) t a (proj2 (tags_upto_in (ntag6 s) t) ltac:(lia))).
      cbn beta in *. unfold live_s, live_i in *. lia.
    - destruct (nth_error (snaps s) k) as [xx|] eqn:E1; [|rewrite c_nil in Hx; lia].
      destruct (nth_error (descs s) d') as [dd|] eqn:E2; [|rewrite c_nil in Hy; lia].
      pose proof (c_flat_in desc_addrs (descs s) dd a (nth_error_In _ _ E2)).
      pose proof (c_flat_in snap_addrs (snaps s) xx a (nth_error_In _ _ E1)). unfold live_d, live_s in *. lia.
    - destruct (nth_error (snaps s) k) as [xx|] eqn:E1; [|rewrite c_nil in Hx; lia].
      destruct ((0 <=? t') && (t' <? ntag6 s)) eqn:E2; [|rewrite c_nil in Hy; lia].
      pose proof (c_flat_in snap_addrs (snaps s) xx a (nth_error_In _ _ E1)).
      pose proof (c_flat_in (fun t => inst_addrs (heap6 s t)) (tags_upto (ntag6 s)) t' a (proj2 (tags_upto_in (ntag6 s) t') ltac:(lia))).
      cbn beta in *. unfold live_s, live_i in *. lia.
    - destruct (nth_error (snaps s) k) as [xx|] eqn:E1; [|rewrite c_nil in Hx; lia].
      destruct (nth_error (snaps s) k') as [xx'|] eqn:E2; [|rewrite c_nil in Hy; lia].
      assert (k <> k') by congruence.
      pose proof (c_flat_two snap_addrs (snaps s) k k' xx xx' a E1 E2 H2). unfold live_s in *. lia.
  Qed.

  Theorem own_maps_distinct s x a : wf6 s -> c (addrs_of s x) a <= 1.
  Proof.
    intros (_ & _ & H3 & _). specialize (H3 a). unfold live in H3. rewrite !c_app in H3.
    pose proof (c_nonneg (live_d s) a). pose proof (c_nonneg (live_i s) a). pose proof (c_nonneg (live_s s) a).
    destruct x as [d|t|k]; cbn [addrs_of].
    - destruct (nth_error (descs s) d) as [dd|] eqn:E1; [|rewrite c_nil; lia].
      pose proof (c_flat_in desc_addrs (descs s) dd a (nth_error_In _ _ E1)). unfold live_d in *. lia.
    - destruct ((0 <=? t) && (t <? ntag6 s)) eqn:E1; [|rewrite c_nil; lia].
      pose proof (c_flat_in (fun t => inst_addrs (heap6 s t)) (tags_upto (ntag6 s)) t a (proj2 (tags_upto_in (ntag6 s) t) ltac:(lia))).
      cbn beta in *. unfold live_i in *. lia.
    - destruct (nth_error (snaps s) k) as [xx|] eqn:E1; [|rewrite c_nil; lia].
      pose proof (c_flat_in snap_addrs (snaps s) xx a (nth_error_In _ _ E1)). unfold live_s in *. lia.
  Qed.

  Lemma written_target s o a : wf6 s -> hm s -> In a (written s o) ->
    exists x, target_of o = Some x /\ In a (addrs_of s x).
  Proof.
    intros Hw Hh Ha.
    assert (Hinst : forall t, in_handle (heap6 s t) = true ->
              addrs_of s (OInst t) = [in_p (heap6 s t); in_d (heap6 s t); in_w (heap6 s t)]).
    { intros t Ht. apply Hh in Ht. destruct Hw as (_ & _ & _ & _ & H5 & _). pose proof (H5 t Ht).
      cbn [addrs_of]. replace ((0 <=? t) && (t <? ntag6 s)) with true by lia. unfold inst_addrs. rewrite Ht. reflexivity. }
    destruct o; cbn [written target_of] in *; try destruct Ha.
    - exists (ODesc d). split; [reflexivity|]. cbn [addrs_of]. destruct (nth_error _ _) as [dd|]; [|destruct Ha].
      unfold desc_addr in Ha. unfold desc_addrs.
      destruct (kind =? 0); [apply in_or_app; left; exact Ha|].
      destruct (kind =? 1); apply in_or_app; right; apply in_or_app; [left|right]; exact Ha.
    - exists (OInst tag). split; [reflexivity|]. destruct (in_handle _) eqn:E; [|destruct Ha]. rewrite (Hinst _ E).
      cbn in *. tauto.
    - exists (OInst tag). split; [reflexivity|]. destruct (in_handle _) eqn:E; [|destruct Ha]. rewrite (Hinst _ E).
      cbn in *. tauto.
    - exists (OInst tag). split; [reflexivity|]. destruct (in_handle _) eqn:E; [|destruct Ha]. rewrite (Hinst _ E).
      cbn in *. tauto.
    - exists (OInst tag). split; [reflexivity|]. destruct (in_handle _) eqn:E; [|destruct Ha]. rewrite (Hinst _ E).
      cbn in *. tauto.
    - exists (OInst tag). split; [reflexivity|]. destruct (in_handle _) eqn:E; [|destruct Ha]. rewrite (Hinst _ E).
      cbn in *. tauto.
    - exists (OSnapshot k). split; [reflexivity|]. cbn [addrs_of]. destruct (nth_error _ _) as [xx|]; [|destruct Ha].
      cbn in *. tauto.
    - exists (OSnapshot k). split; [reflexivity|]. cbn [addrs_of]. destruct (nth_error _ _) as [xx|]; [|destruct Ha].
      cbn in *. tauto.
  Qed.

  (* Each owner's data changes only through operations that name that owner: whatever an
     operation does, every map held by any OTHER description, instance or kept snapshot reads
     exactly as before.  (Instances own their data; snapshots are private; the creator's
     description is its own.) *)
  Theorem ownership s o y : wf6 s -> hm s -> target_of o <> Some y ->
    forall a, In a (addrs_of s y) -> store (step s o) a = store s a.
  Proof.
    intros Hw Hh Hne a Ha. apply frame.
    - apply addrs_live in Ha. destruct Hw as (_ & _ & _ & H4 & _). apply H4 in Ha. lia.
    - intros Hwr. destruct (written_target s o a Hw Hh Hwr) as (x & Ex & Hx).
      apply (owners_disjoint s x y a Hw); [congruence|exact Hx|exact Ha].
  Qed.

  (* ------------------------------------------------------------------ *)
  (* What a unit's stats depend on                                        *)
  (* ------------------------------------------------------------------ *)
  Lemma fold_left_ext_in {A B} (f g : A -> B -> A) : forall l a, (forall acc x, In x l -> f acc x = g acc x) ->
    fold_left f l a = fold_left g l a.
  Proof.
    induction l as [|x l IH]; intros a H; [reflexivity|]. cbn. rewrite (H a x) by (left; reflexivity).
    apply IH. intros acc y Hy. apply H. right. exact Hy.
  Qed.

  Lemma existsb_ext_in' {A} (f g : A -> bool) l : (forall x, In x l -> f x = g x) -> existsb f l = existsb g l.
  Proof.
    induction l as [|a l IH]; intros H; [reflexivity|]. cbn. rewrite (H a) by (left; reflexivity).
    rewrite IH; [reflexivity|]. intros x Hx. apply H. right. exact Hx.
  Qed.

  Lemma view_of_ext mp md mw mp' md' mw' fl cn :
    (forall k, mp k = mp' k) -> (forall k, md k = md' k) -> (forall k, mw k = mw' k) ->
    view_of w mp md mw fl cn = view_of w mp' md' mw' fl cn.
  Proof.
    intros E1 E2 E3. unfold view_of. rewrite !E1.
    f_equal; try (apply map_ext; intros k; rewrite ?E1, ?E3; reflexivity).
    apply map_ext. intros k. unfold dres_get. rewrite E2. reflexivity.
  Qed.

  (* the stats of unit u are a function of: the attached list of u, the catalog entries and
     the three maps of the instances attached to u (and u's base attributes) - nothing else *)
  Theorem view_depends_on s s' u :
    tg6 s' u = tg6 s u -> (forall t, In t (tg6 s u) -> heap6 s' t = heap6 s t) ->
    (forall t a, In t (tg6 s u) -> In a (inst_addrs (heap6 s t)) -> store s' a = store s a) ->
    (forall t, In t (tg6 s u) -> in_made (heap6 s t) = true) ->
    fresh_view w s' u = fresh_view w s u.
  Proof.
    intros El Eh Es Hm. unfold fresh_view.
    assert (Hc : forall t, In t (tg6 s u) ->
              store s' (in_p (heap6 s t)) = store s (in_p (heap6 s t)) /\
              store s' (in_d (heap6 s t)) = store s (in_d (heap6 s t)) /\
              store s' (in_w (heap6 s t)) = store s (in_w (heap6 s t))).
    { intros t Ht. pose proof (Es t) as E. unfold inst_addrs in E. rewrite (Hm t Ht) in E.
      repeat split; apply E; cbn; auto. }
    assert (Ef : map (eval_flag w s' u) (w6_fk w) = map (eval_flag w s u) (w6_fk w)).
    { apply map_ext. intros f. unfold eval_flag. rewrite El. apply existsb_ext_in'. intros t Ht. rewrite (Eh t Ht). reflexivity. }
    assert (Ec : map (eval_count w s' u) statuses = map (eval_count w s u) statuses).
    { apply map_ext. intros x. unfold eval_count. rewrite El. f_equal. f_equal.
      apply filter_ext_in. intros t Ht. rewrite (Eh t Ht). reflexivity. }
    rewrite Ef, Ec. apply view_of_ext; intros k.
    - unfold eval_p. rewrite El. f_equal. apply fold_left_ext_in. intros acc t Ht.
      rewrite (Eh t Ht). destruct (Hc t Ht) as (-> & _). reflexivity.
    - unfold eval_d. rewrite El. f_equal. apply fold_left_ext_in. intros acc t Ht.
      rewrite (Eh t Ht). destruct (Hc t Ht) as (_ & -> & _). reflexivity.
    - unfold eval_w. rewrite El. f_equal. apply fold_left_ext_in. intros acc t Ht.
      rewrite (Eh t Ht). destruct (Hc t Ht) as (_ & _ & ->). reflexivity.
  Qed.

  (* operations that do not attach or detach leave lists and instance records alone *)
  Definition quiet (o : op6) : bool :=
    match o with PAdd _ _ | PRemove _ _ | PRemoveSelf _ => false | _ => true end.

  Lemma quiet_lists s o : quiet o = true -> tg6 (step s o) = tg6 s /\ heap6 (step s o) = heap6 s.
  Proof.
    destruct o; cbn [quiet step6]; try discriminate; intros _.
    - destruct (nth_error _ _) as [dd|]; [|auto]. destruct (desc_addr _ _); auto.
    - destruct (in_handle _); auto.
    - destruct (in_handle _); auto.
    - destruct (in_handle _); auto.
    - destruct (in_handle _); auto.
    - destruct (in_handle _); auto.
    - auto.
    - destruct (nth_error _ _); auto.
    - destruct (nth_error _ _); auto.
    - auto.
  Qed.

  (* Snapshots are private, descriptions are the caller's, instances own their data - as seen
     through the stats: writing a description after attaching it, writing a kept snapshot,
     taking a snapshot or reading leaves the stats of every unit unchanged; writing an instance
     leaves unchanged the stats of every unit it is not attached to. *)
  Theorem stats_unaffected s o u : wf6 s -> hm s -> quiet o = true ->
    (forall t, target_of o = Some (OInst t) -> ~ In t (tg6 s u)) ->
    fresh_view w (step s o) u = fresh_view w s u.
  Proof.
    intros Hw Hh Hq Ht. destruct (quiet_lists s o Hq) as [El Eh].
    apply view_depends_on.
    - rewrite El. reflexivity.
    - intros t _. rewrite Eh. reflexivity.
    - intros t a Hin Ha. apply (ownership s o (OInst t) Hw Hh).
      + intros E. apply (Ht t E Hin).
      + cbn [addrs_of]. destruct Hw as (_ & _ & _ & _ & H5 & H6). pose proof (H5 t (H6 u t Hin)).
        replace ((0 <=? t) && (t <? ntag6 s)) with true by lia. exact Ha.
    - destruct Hw as (_ & _ & _ & _ & _ & H6). apply H6.
  Qed.

  (* a kept snapshot reads the same after any operation that does not name it *)
  Theorem snapshot_private s o k x : wf6 s -> hm s -> nth_error (snaps s) k = Some x ->
    target_of o <> Some (OSnapshot k) ->
    nth_error (snaps (step s o)) k = Some x /\ snap_view w (step s o) x = snap_view w s x.
  Proof.
    intros Hw Hh Ek Hne.
    assert (Hk : nth_error (snaps (step s o)) k = Some x).
    { destruct o; cbn [step6]; try exact Ek.
      - unfold add6. destruct (nth_error (descs s) d) as [dd|]; [|exact Ek]. destruct (_ || _); [exact Ek|].
        assert (E : forall s0 tag n, snaps (attach6 w s0 u tag n) = snaps s0).
        { intros. unfold attach6. destruct (k_stack _); try destruct (find_name6 _ _ _); reflexivity. }
        rewrite E. destruct (new_inst_eq (set_ntag6 s (ntag6 s + 1)) u dd (ntag6 s)) as (m1 & m2 & m3 & -> & _). exact Ek.
      - destruct (in_handle _); exact Ek.
      - destruct (nth_error (descs s) d) as [dd|]; [|exact Ek]. destruct (desc_addr _ _); exact Ek.
      - destruct (in_handle _); exact Ek.
      - destruct (in_handle _); exact Ek.
      - destruct (in_handle _); exact Ek.
      - destruct (in_handle _); exact Ek.
      - destruct (in_handle _); exact Ek.
      - cbn. rewrite nth_error_app1; [exact Ek|]. apply nth_error_Some. congruence.
      - destruct (nth_error (snaps s) k0); exact Ek.
      - destruct (nth_error (snaps s) k0); exact Ek. }
    split; [exact Hk|].
    assert (Hs : forall a, In a (snap_addrs x) -> store (step s o) a = store s a).
    { intros a Ha. apply (ownership s o (OSnapshot k) Hw Hh Hne). cbn [addrs_of]. rewrite Ek. exact Ha. }
    unfold snap_view. rewrite (Hs (sn_p x)), (Hs (sn_d x)), (Hs (sn_w x)) by (cbn; auto). reflexivity.
  Qed.

  (* ---- attaching copies the description ---- *)
  Lemma attach6_heap s u tag n t :
    in_made (heap6 (attach6 w s u tag n) t) = in_made (heap6 s t) /\ in_p (heap6 (attach6 w s u tag n) t) = in_p (heap6 s t) /\
    in_d (heap6 (attach6 w s u tag n) t) = in_d (heap6 s t) /\ in_w (heap6 (attach6 w s u tag n) t) = in_w (heap6 s t) /\
    in_owner (heap6 (attach6 w s u tag n) t) = in_owner (heap6 s t) /\ in_name (heap6 (attach6 w s u tag n) t) = in_name (heap6 s t).
  Proof.
    assert (Hg : forall l, let s' := give_handle (setl6 s u l) tag in
              in_made (heap6 s' t) = in_made (heap6 s t) /\ in_p (heap6 s' t) = in_p (heap6 s t) /\
              in_d (heap6 s' t) = in_d (heap6 s t) /\ in_w (heap6 s' t) = in_w (heap6 s t) /\
              in_owner (heap6 s' t) = in_owner (heap6 s t) /\ in_name (heap6 s' t) = in_name (heap6 s t)).
    { intros l. cbn. destruct (t =? tag) eqn:E; [apply Z.eqb_eq in E; subst; cbn|]; auto 10. }
    unfold attach6. destruct (k_stack _); try destruct (find_name6 _ _ _); try apply Hg; auto 10.
  Qed.

  (* the new instance gets three fresh maps whose contents are those of the description at the
     moment of the call *)
  Theorem add_copies s u dn d : wf6 s -> nth_error (descs s) dn = Some d ->
    valid6 w u = true -> valid6 w (ds_src d) = true ->
    let s' := step s (PAdd u dn) in
    let i := heap6 s' (ntag6 s) in
    in_made i = true /\ in_owner i = u /\ in_name i = ds_name d /\
    nadr s <= in_p i /\ nadr s <= in_d i /\ nadr s <= in_w i /\
    (forall k, store s' (in_p i) k = map_of s (ds_p d) k) /\
    (forall k, store s' (in_d i) k = map_of s (ds_d d) k) /\
    (forall k, store s' (in_w i) k = map_of s (ds_w d) k).
  Proof.
    intros Hw Ed Hu Hs. cbn [step6]. unfold add6. rewrite Ed, Hu, Hs. cbn [negb orb].
    set (s1 := set_ntag6 s (ntag6 s + 1)).
    destruct (new_inst_eq s1 u d (ntag6 s)) as (m1 & m2 & m3 & E & M1 & M2 & M3). rewrite E.
    cbn zeta. rewrite store_attach6.
    destruct (attach6_heap (set_heap6 (alloc3 s1 m1 m2 m3) (ntag6 s)
               (mkIn true (ds_name d) u (ds_src d) (nadr s1) (nadr s1 + 1) (nadr s1 + 1 + 1) false)) u (ntag6 s) (ds_name d) (ntag6 s))
      as (A1 & A2 & A3 & A4 & A5 & A6).
    rewrite A1, A2, A3, A4, A5, A6. cbn [set_heap6 heap6]. rewrite Z.eqb_refl. cbn [in_made in_p in_d in_w in_owner in_name nadr s1 set_ntag6].
    assert (Hd : forall a, In a (desc_addrs d) -> a < nadr s).
    { intros a Ha. destruct Hw as (_ & _ & _ & H4 & _).
      assert (In a (live s)). { apply (addrs_live s (ODesc dn)). cbn [addrs_of]. rewrite Ed. exact Ha. }
      apply H4 in H. lia. }
    split; [reflexivity|]. split; [reflexivity|]. split; [reflexivity|].
    split; [lia|]. split; [lia|]. split; [lia|].
    destruct (alloc3_facts s1 m1 m2 m3) as (_ & _ & _ & _ & _ & _ & _ & A8). cbn zeta in A8.
    split; [|split]; intros k; cbn [store set_heap6]; rewrite A8; cbn [nadr s1 set_ntag6].
    - replace (nadr s =? nadr s + 2) with false by lia. replace (nadr s =? nadr s + 1) with false by lia.
      rewrite Z.eqb_refl, M1. reflexivity.
    - replace (nadr s + 1 =? nadr s + 2) with false by lia. rewrite Z.eqb_refl. rewrite M2; [reflexivity|].
      intros a Ea. cbn [nadr s1 set_ntag6]. apply Hd. unfold desc_addrs. rewrite Ea. apply in_or_app. right. apply in_or_app. left. left. reflexivity.
    - replace (nadr s + 1 + 1 =? nadr s + 2) with true by lia. rewrite M3; [reflexivity|].
      intros a Ea. cbn [nadr s1 set_ntag6]. apply Hd. unfold desc_addrs. rewrite Ea. apply in_or_app. right. apply in_or_app. right. left. reflexivity.
  Qed.
End Fixed.

(* ------------------------------------------------------------------ *)
(* How contributions combine                                            *)
(* ------------------------------------------------------------------ *)

(* additive, except damage reduction (90) and fatigue (91) which combine multiplicatively *)
Theorem modify_rule p cur amt :
  (is_mult p = true <-> p = 90 \/ p = 91) /\
  (is_mult p = false -> modify p cur amt = (cur + amt)%float) /\
  (is_mult p = true -> modify p cur amt = (1 - (1 - cur) * (1 - amt))%float).
Proof.
  unfold modify, is_mult. split; [lia|]. split; intros ->; reflexivity.
Qed.

(* a unit's value of property p: the contributions of exactly the attached instances, in order
   of attachment, then the base value - each combined by the rule above (zeros are skipped) *)
Theorem stats_formula w s u p :
  eval_p w s u p =
  addall1 p (fold_left (fun acc tag => addall1 p acc (store s (in_p (heap6 s tag)) p)) (tg6 s u) 0%float)
          (of_list (ub_p (base_of w u)) p).
Proof. reflexivity. Qed.

(* debuff resistances add up *)
Theorem dres_formula w s u f :
  eval_d w s u f =
  dadd1 (fold_left (fun acc tag => dadd1 acc (store s (in_d (heap6 s tag)) f)) (tg6 s u) 0%float)
        (of_list (ub_d (base_of w u)) f) /\
  forall cur v, dadd1 cur v = if (v =? 0)%float then cur else (cur + v)%float.
Proof. split; reflexivity. Qed.

(* flags: the union of the flags of the attached instances *)
Theorem flags_union w s u f :
  eval_flag w s u f = true <-> exists tag, In tag (tg6 s u) /\ In f (k_flags (getcfg6 w (in_name (heap6 s tag)))).
Proof.
  unfold eval_flag. rewrite existsb_exists. split; intros (tag & H1 & H2); exists tag; split; auto.
  - unfold zmem6 in H2. apply existsb_exists in H2. destruct H2 as (y & Hy & E). apply Z.eqb_eq in E. subst. exact Hy.
  - unfold zmem6. apply existsb_exists. exists f. split; [exact H2|apply Z.eqb_refl].
Qed.

(* weaknesses: the union of the base weaknesses and those of the attached instances *)
Lemma wor_fold (g : Z -> float) : forall l acc, (acc = 0%float \/ acc = 1%float) ->
  let r := fold_left (fun a t => wor1 a (g t)) l acc in
  (r = 0%float \/ r = 1%float) /\
  (r = 1%float <-> acc = 1%float \/ exists t, In t l /\ (g t =? 0)%float = false).
Proof.
  induction l as [|t l IH]; intros acc Hacc; cbn [fold_left].
  - split; [exact Hacc|]. split; [auto|]. intros [H|(t & [] & _)]; exact H.
  - assert (Hw : wor1 acc (g t) = 0%float \/ wor1 acc (g t) = 1%float) by (unfold wor1; destruct (g t =? 0)%float; auto).
    destruct (IH _ Hw) as [I1 I2]. cbn zeta in *. split; [exact I1|]. rewrite I2. unfold wor1.
    destruct (g t =? 0)%float eqn:E.
    + split.
      * intros [H|(x & Hx & Ex)]; [left; exact H|right; exists x; split; [right; exact Hx|exact Ex]].
      * intros [H|(x & [Hx|Hx] & Ex)]; [left; exact H|subst x; congruence|right; exists x; split; assumption].
    + split.
      * intros _. right. exists t. split; [left; reflexivity|exact E].
      * intros _. left. reflexivity.
Qed.

Lemma f01 : 0%float <> 1%float.
Proof. intros H. apply (f_equal (fun x => (x =? 0)%float)) in H. vm_compute in H. discriminate. Qed.

Theorem weakness_union w s u k :
  (eval_w w s u k =? 0)%float = false <->
  (of_list (ub_w (base_of w u)) k =? 0)%float = false \/
  exists tag, In tag (tg6 s u) /\ (store s (in_w (heap6 s tag)) k =? 0)%float = false.
Proof.
  unfold eval_w.
  destruct (wor_fold (fun tag => store s (in_w (heap6 s tag)) k) (tg6 s u) 0%float (or_introl eq_refl)) as [I1 I2].
  cbn zeta in *. set (r := fold_left _ _ _) in *. unfold wor1.
  destruct (of_list (ub_w (base_of w u)) k =? 0)%float eqn:Eb.
  - split.
    + intros H. right. assert (E : r = 1%float) by (destruct I1 as [E|E]; [rewrite E in H; vm_compute in H; discriminate|exact E]).
      apply I2 in E. destruct E as [E|E]; [exfalso; exact (f01 E)|exact E].
    + intros [H|H]; [discriminate|]. assert (E : r = 1%float) by (apply I2; right; exact H). rewrite E. reflexivity.
  - split; [auto|]. intros _. reflexivity.
Qed.

(* status counts: the number of attached instances of that status *)
Theorem counts_formula w s u status :
  eval_count w s u status =
  Z.of_nat (length (filter (fun tag => k_status (getcfg6 w (in_name (heap6 s tag))) =? status) (tg6 s u))).
Proof. reflexivity. Qed.

(* derived values are base*(1+percent)+flat, floored at zero *)
Theorem derived_floor base percent flat :
  (stat_calc base percent flat <? 0)%float = false /\
  ((base * (1 + percent) + flat <? 0)%float = false -> stat_calc base percent flat = (base * (1 + percent) + flat)%float) /\
  ((base * (1 + percent) + flat <? 0)%float = true -> stat_calc base percent flat = 0%float).
Proof.
  unfold stat_calc. destruct (base * (1 + percent) + flat <? 0)%float eqn:E.
  - split; [reflexivity|]. split; [discriminate|reflexivity].
  - split; [exact E|]. split; [reflexivity|discriminate].
Qed.

Theorem derived_values w mp md mw fl cn :
  v_atk (view_of w mp md mw fl cn) = stat_calc (mp 5) (mp 6) (PrimFloat.add (mp 7) (mp 8)) /\
  v_hp (view_of w mp md mw fl cn) = stat_calc (mp 1) (mp 2) (PrimFloat.add (mp 3) (mp 4)).
Proof. split; reflexivity. Qed.

(* ------------------------------------------------------------------ *)
(* Property-level statement (C06)                                       *)
(* ------------------------------------------------------------------ *)
Definition C06_statement : Prop :=
  forall w ops,
    let s := exec6 false w (init6 w) ops in
    (* in every reachable state no map is held twice: two different owners (descriptions of the
       calling code, instances, kept snapshots) never hold the same map, nor one owner twice *)
    (forall x y a, x <> y -> In a (addrs_of s x) -> In a (addrs_of s y) -> False) /\
    (forall x a, c (addrs_of s x) a <= 1) /\
    (* so whatever the next operation is, it changes no map of any owner it does not name *)
    (forall o y a, target_of o <> Some y -> In a (addrs_of s y) -> store (step6 false w s o) a = store s a) /\
    (* writing a description, a kept snapshot, or an instance attached elsewhere, taking a
       snapshot or reading leaves the stats of a unit as they are *)
    (forall o u, quiet o = true -> (forall t, target_of o = Some (OInst t) -> ~ In t (tg6 s u)) ->
                 fresh_view w (step6 false w s o) u = fresh_view w s u) /\
    (* a kept snapshot is unchanged by every operation that does not name it *)
    (forall o k x, nth_error (snaps s) k = Some x -> target_of o <> Some (OSnapshot k) ->
                   nth_error (snaps (step6 false w s o)) k = Some x /\
                   snap_view w (step6 false w s o) x = snap_view w s x) /\
    (* the stats are base combined with exactly the attached instances (formulas above) *)
    (forall u p, eval_p w s u p =
       addall1 p (fold_left (fun acc tag => addall1 p acc (store s (in_p (heap6 s tag)) p)) (tg6 s u) 0%float)
               (of_list (ub_p (base_of w u)) p)).

Theorem C06_holds : C06_statement.
Proof.
  intros w ops s. destruct (reachable_ok w ops) as [Hw Hh]. fold s in Hw, Hh.
  split; [intros x y a Hne Hx Hy; exact (owners_disjoint s x y a Hw Hne Hx Hy)|].
  split; [intros x a; apply own_maps_distinct, Hw|].
  split; [intros o y a Hne Ha; exact (ownership w s o y Hw Hh Hne a Ha)|].
  split; [intros o u Hq Ht; exact (stats_unaffected w s o u Hw Hh Hq Ht)|].
  split; [intros o k x Ek Hne; exact (snapshot_private w s o k x Hw Hh Ek Hne)|].
  intros u p. reflexivity.
Qed.

(* ---- the code before the repair (newInstance keeps the caller's maps) violates it ---- *)
Definition alias_world : world6 :=
  mkW6 [mkC6 SMultiple 1 []] [(1, mkUb [(5, 100%float)] [] []); (2, mkUb [(5, 50%float)] [] [])]
       [mkDi 0 1 (Some [(6, 0.5%float)]) None None] [5; 6] [] [].

Theorem C06_aliasing_refuted :
  let w := alias_world in
  let s := exec6 true w (init6 w) [PAdd 1 0; PAdd 2 0] in
  (* writing the description changes unit 1 *)
  (eval_p w (step6 true w s (PDescSet 0 0 6 2%float)) 1 6 =? eval_p w s 1 6)%float = false /\
  (* writing the instance of unit 1 changes unit 2 *)
  (eval_p w (step6 true w s (PInstAddP 0 6 1%float)) 2 6 =? eval_p w s 2 6)%float = false /\
  (* with the repaired code both stay put *)
  let s' := exec6 false w (init6 w) [PAdd 1 0; PAdd 2 0] in
  (eval_p w (step6 false w s' (PDescSet 0 0 6 2%float)) 1 6 =? eval_p w s' 1 6)%float = true /\
  (eval_p w (step6 false w s' (PInstAddP 0 6 1%float)) 2 6 =? eval_p w s' 2 6)%float = true /\
  (eval_p w (step6 false w s' (PInstAddP 0 6 1%float)) 1 6 =? 1.5)%float = true.
Proof. vm_compute. repeat split. Qed.

(* ---- statements restated as definitions (Props/C06.v does not import Floats, so that
        Print Assumptions names the float primitives with their module path) ---- *)
Definition attach_copies_stmt : Prop :=
  forall w s u dn d, wf6 s -> nth_error (descs s) dn = Some d ->
    valid6 w u = true -> valid6 w (ds_src d) = true ->
    let s' := step6 false w s (PAdd u dn) in
    let i := heap6 s' (ntag6 s) in
    in_made i = true /\ in_owner i = u /\ in_name i = ds_name d /\
    nadr s <= in_p i /\ nadr s <= in_d i /\ nadr s <= in_w i /\
    (forall k, store s' (in_p i) k = map_of s (ds_p d) k) /\
    (forall k, store s' (in_d i) k = map_of s (ds_d d) k) /\
    (forall k, store s' (in_w i) k = map_of s (ds_w d) k).
Theorem attach_copies_holds : attach_copies_stmt.
Proof. exact add_copies. Qed.

Definition modify_rule_stmt : Prop :=
  forall p cur amt,
    (is_mult p = true <-> p = 90 \/ p = 91) /\
    (is_mult p = false -> modify p cur amt = (cur + amt)%float) /\
    (is_mult p = true -> modify p cur amt = (1 - (1 - cur) * (1 - amt))%float).
Theorem modify_rule_holds : modify_rule_stmt.
Proof. exact modify_rule. Qed.

Definition dres_sum_stmt : Prop :=
  forall w s u f,
    eval_d w s u f =
    dadd1 (fold_left (fun acc tag => dadd1 acc (store s (in_d (heap6 s tag)) f)) (tg6 s u) 0%float)
          (of_list (ub_d (base_of w u)) f) /\
    forall cur v, dadd1 cur v = if (v =? 0)%float then cur else (cur + v)%float.
Theorem dres_sum_holds : dres_sum_stmt.
Proof. exact dres_formula. Qed.

Definition weakness_union_stmt : Prop :=
  forall w s u k,
    (eval_w w s u k =? 0)%float = false <->
    (of_list (ub_w (base_of w u)) k =? 0)%float = false \/
    exists tag, In tag (tg6 s u) /\ (store s (in_w (heap6 s tag)) k =? 0)%float = false.
Theorem weakness_union_holds : weakness_union_stmt.
Proof. exact weakness_union. Qed.

Definition derived_floor_stmt : Prop :=
  forall base percent flat,
    (stat_calc base percent flat <? 0)%float = false /\
    ((base * (1 + percent) + flat <? 0)%float = false -> stat_calc base percent flat = (base * (1 + percent) + flat)%float) /\
    ((base * (1 + percent) + flat <? 0)%float = true -> stat_calc base percent flat = 0%float).
Theorem derived_floor_holds : derived_floor_stmt.
Proof. exact derived_floor. Qed.

Definition aliasing_refuted_stmt : Prop :=
  let w := alias_world in
  let s := exec6 true w (init6 w) [PAdd 1 0; PAdd 2 0] in
  (eval_p w (step6 true w s (PDescSet 0 0 6 2%float)) 1 6 =? eval_p w s 1 6)%float = false /\
  (eval_p w (step6 true w s (PInstAddP 0 6 1%float)) 2 6 =? eval_p w s 2 6)%float = false /\
  let s' := exec6 false w (init6 w) [PAdd 1 0; PAdd 2 0] in
  (eval_p w (step6 false w s' (PDescSet 0 0 6 2%float)) 1 6 =? eval_p w s' 1 6)%float = true /\
  (eval_p w (step6 false w s' (PInstAddP 0 6 1%float)) 2 6 =? eval_p w s' 2 6)%float = true /\
  (eval_p w (step6 false w s' (PInstAddP 0 6 1%float)) 1 6 =? 1.5)%float = true.
Theorem aliasing_refuted_holds : aliasing_refuted_stmt.
Proof. exact C06_aliasing_refuted. Qed.
